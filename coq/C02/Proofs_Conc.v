(* C02 — identifiers under concurrency: every schedule of concurrently served
   connections yields pairwise distinct context IDs and one session per
   connection; the batch oracle is exactly that statement. *)
From Coq Require Import List Bool Arith NArith Lia.
From Martian.C02 Require Import Model.
Import ListNotations.

Definition Conc_good (obs : list cobs) : Prop :=
  NoDup (map co_ctx obs) /\
  forall a b, In a obs -> In b obs -> (co_conn a = co_conn b <-> co_sess a = co_sess b).

Lemma eqb_eqb_iff x y u v : Bool.eqb (N.eqb x y) (N.eqb u v) = true <-> (x = y <-> u = v).
Proof.
  destruct (N.eqb x y) eqn:E1; destruct (N.eqb u v) eqn:E2; cbn;
    rewrite ?N.eqb_eq, ?N.eqb_neq in *; split; try tauto; try discriminate;
    intros H; exfalso; tauto.
Qed.

Lemma nodupN_iff l : nodupN l = true <-> NoDup l.
Proof.
  induction l as [|x l IH]; cbn [nodupN].
  - split; [constructor|reflexivity].
  - rewrite andb_true_iff, negb_true_iff, IH. split.
    + intros [Hx Hl]. constructor; [|assumption].
      intros Hin. assert (existsb (N.eqb x) l = true).
      { apply existsb_exists. exists x. split; [assumption|apply N.eqb_refl]. }
      congruence.
    + intros H. inversion H as [|? ? Hn Hd]; subst. split; [|assumption].
      destruct (existsb (N.eqb x) l) eqn:E; [|reflexivity].
      apply existsb_exists in E. destruct E as [y [Hy Hxy]].
      apply N.eqb_eq in Hxy. subst. contradiction.
Qed.

Theorem conc_ok_iff obs : conc_ok obs = true <-> Conc_good obs.
Proof.
  unfold conc_ok, Conc_good. rewrite andb_true_iff, nodupN_iff, forallb_forall.
  split; intros [H1 H2]; (split; [exact H1|]).
  - intros a b Ha Hb. specialize (H2 a Ha). rewrite forallb_forall in H2.
    apply eqb_eqb_iff, H2, Hb.
  - intros a Ha. apply forallb_forall. intros b Hb. apply eqb_eqb_iff, H2; assumption.
Qed.

Lemma conc_run_ctx_ge : forall sched next o, In o (conc_run next sched) -> (next <= co_ctx o)%N.
Proof.
  induction sched as [|k r IH]; intros next o Hin; [destruct Hin|].
  destruct Hin as [<-|Hin]; [cbn; lia|]. specialize (IH _ _ Hin). lia.
Qed.

Lemma conc_run_nodup : forall sched next, NoDup (map co_ctx (conc_run next sched)).
Proof.
  induction sched as [|k r IH]; intros next; cbn; [constructor|].
  constructor; [|apply IH].
  intros Hin. apply in_map_iff in Hin. destruct Hin as [o [Ho Hin]].
  pose proof (conc_run_ctx_ge _ _ _ Hin). lia.
Qed.

Lemma conc_run_sess : forall sched next o, In o (conc_run next sched) -> co_sess o = co_conn o.
Proof.
  induction sched as [|k r IH]; intros next o Hin; [destruct Hin|].
  destruct Hin as [<-|Hin]; [reflexivity|eapply IH; eauto].
Qed.

(* every schedule *)
Theorem conc_model_good : forall sched next, Conc_good (conc_run next sched).
Proof.
  intros sched next. split.
  - apply conc_run_nodup.
  - intros a b Ha Hb. rewrite (conc_run_sess _ _ _ Ha), (conc_run_sess _ _ _ Hb). tauto.
Qed.

Theorem conc_model_accepted : forall sched next, conc_ok (conc_run next sched) = true.
Proof. intros. apply conc_ok_iff, conc_model_good. Qed.
