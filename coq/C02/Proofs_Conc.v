(* C02 — identifiers under concurrency: every schedule of concurrently served
   connections yields pairwise distinct context IDs and one session per
   connection; the batch oracle is exactly that statement. *)
From Coq Require Import List Bool Arith Lia.
From Martian.C02 Require Import Model Proofs_Clauses.
Import ListNotations.

Definition Conc_good (obs : list cobs) : Prop :=
  NoDup (map co_ctx obs) /\
  forall a b, In a obs -> In b obs -> (co_conn a = co_conn b <-> co_sess a = co_sess b).

Lemma eqb_eqb_iff x y u v : Bool.eqb (Nat.eqb x y) (Nat.eqb u v) = true <-> (x = y <-> u = v).
Proof.
  destruct (Nat.eqb x y) eqn:E1; destruct (Nat.eqb u v) eqn:E2; cbn;
    rewrite ?Nat.eqb_eq, ?Nat.eqb_neq in *; split; try tauto; try discriminate;
    intros H; exfalso; tauto.
Qed.

Theorem conc_ok_iff obs : conc_ok obs = true <-> Conc_good obs.
Proof.
  unfold conc_ok, Conc_good. rewrite andb_true_iff, nodupb_iff, forallb_forall.
  split; intros [H1 H2]; (split; [exact H1|]).
  - intros a b Ha Hb. specialize (H2 a Ha). rewrite forallb_forall in H2.
    apply eqb_eqb_iff, H2, Hb.
  - intros a Ha. apply forallb_forall. intros b Hb. apply eqb_eqb_iff, H2; assumption.
Qed.

Lemma conc_run_ctxs : forall sched next, map co_ctx (conc_run next sched) = seq next (length sched).
Proof. induction sched as [|k r IH]; intros next; cbn; [reflexivity|]. rewrite IH. reflexivity. Qed.

Lemma conc_run_sess : forall sched next o, In o (conc_run next sched) -> co_sess o = co_conn o.
Proof.
  induction sched as [|k r IH]; intros next o Hin; [destruct Hin|].
  destruct Hin as [<-|Hin]; [reflexivity|eapply IH; eauto].
Qed.

(* every schedule *)
Theorem conc_model_good : forall sched next, Conc_good (conc_run next sched).
Proof.
  intros sched next. split.
  - rewrite conc_run_ctxs. apply seq_NoDup.
  - intros a b Ha Hb. rewrite (conc_run_sess _ _ _ Ha), (conc_run_sess _ _ _ Hb). tauto.
Qed.

Theorem conc_model_accepted : forall sched next, conc_ok (conc_run next sched) = true.
Proof. intros. apply conc_ok_iff, conc_model_good. Qed.
