(* C02 — every clause checker accepts the specification's traces, for every
   list of connections and behaviours. *)
From Coq Require Import List Bool Arith Lia.
From Martian.C02 Require Import Model.
Import ListNotations.

Ltac case_req q :=
  destruct q as [md qh qe qs rt sh se cl]; destruct md, qh, qe, qs, rt, sh, se, cl.

Definition reqs_ge (b : nat) (e : event) : bool :=
  match ev_req e with Some r => Nat.leb b r | None => true end.
Definition reqs_lt (b : nat) (e : event) : bool :=
  match ev_req e with Some r => Nat.ltb r b | None => true end.

Lemma forallb_impl {A} (p q : A -> bool) l :
  (forall x, p x = true -> q x = true) -> forallb p l = true -> forallb q l = true.
Proof.
  intros H. induction l as [|x l IH]; cbn; [reflexivity|].
  intros Hp. apply andb_true_iff in Hp. destruct Hp as [Hx Hl].
  rewrite (H x Hx), (IH Hl). reflexivity.
Qed.

Lemma filter_all {A} (p : A -> bool) l : forallb p l = true -> filter p l = l.
Proof.
  induction l as [|x l IH]; cbn; [reflexivity|].
  intros H. apply andb_true_iff in H. destruct H as [Hx Hl].
  rewrite Hx, (IH Hl). reflexivity.
Qed.

Lemma filter_none {A} (p : A -> bool) l : forallb (fun x => negb (p x)) l = true -> filter p l = [].
Proof.
  induction l as [|x l IH]; cbn; [reflexivity|].
  intros H. apply andb_true_iff in H. destruct H as [Hx Hl].
  apply negb_true_iff in Hx. rewrite Hx. apply IH, Hl.
Qed.

Lemma about_ge b e : about b e = true -> reqs_ge b e = true.
Proof.
  unfold about, reqs_ge. destruct (ev_req e); [|reflexivity].
  intros H. apply Nat.eqb_eq in H. subst. apply Nat.leb_refl.
Qed.

Lemma ge_S_ge b e : reqs_ge (S b) e = true -> reqs_ge b e = true.
Proof.
  unfold reqs_ge. destruct (ev_req e); [|reflexivity].
  intros H. apply Nat.leb_le in H. apply Nat.leb_le. lia.
Qed.

Lemma ge_S_not_about b e : reqs_ge (S b) e = true -> negb (about b e) = true.
Proof.
  unfold reqs_ge, about. destruct (ev_req e); [|reflexivity].
  intros H. apply Nat.leb_le in H. apply negb_true_iff, Nat.eqb_neq. lia.
Qed.

Lemma lt_not_about b e : reqs_lt b e = true -> negb (about b e) = true.
Proof.
  unfold reqs_lt, about. destruct (ev_req e); [|reflexivity].
  intros H. apply Nat.ltb_lt in H. apply negb_true_iff, Nat.eqb_neq. lia.
Qed.

Lemma lt_lt_S b e : reqs_lt b e = true -> reqs_lt (S b) e = true.
Proof.
  unfold reqs_lt. destruct (ev_req e); [|reflexivity].
  intros H. apply Nat.ltb_lt in H. apply Nat.ltb_lt. lia.
Qed.

Lemma about_lt_S b e : about b e = true -> reqs_lt (S b) e = true.
Proof.
  unfold about, reqs_lt. destruct (ev_req e); [|discriminate].
  intros H. apply Nat.eqb_eq in H. subst. apply Nat.ltb_lt. lia.
Qed.

(* ---------------- facts about one block ---------------- *)

Lemma block_about r c s q : forallb (about r) (fst (block r c s q)) = true.
Proof. case_req q; cbn; unfold about; cbn; rewrite ?Nat.eqb_refl; reflexivity. Qed.

Lemma block_reqmod r c s q : cl_reqmod_ex (fst (block r c s q)) = true.
Proof. case_req q; reflexivity. Qed.

Lemma block_resmod r c s q : cl_resmod_ex q (fst (block r c s q)) = true.
Proof. case_req q; cbn; rewrite ?Nat.eqb_refl; reflexivity. Qed.

Lemma block_error r c s q : cl_error_ex q (fst (block r c s q)) = true.
Proof. case_req q; cbn; rewrite ?Nat.eqb_refl; reflexivity. Qed.

(* skip: true of every mode except a CONNECT that is tunnelled blindly *)
Definition skip_guard (q : req) : bool := negb (is_blind q && is_qskip q).

Lemma block_skip r c s q : skip_guard q = true -> cl_skip_ex q (fst (block r c s q)) = true.
Proof. case_req q; cbn; intros H; try discriminate H; reflexivity. Qed.

Lemma block_relay r c s q : cl_relay_ex q (fst (block r c s q)) = true.
Proof. case_req q; reflexivity. Qed.

Lemma block_linked r c s q : forallb linked_wf (fst (block r c s q)) = true.
Proof. case_req q; cbn; unfold nl_eqb; cbn; rewrite ?Nat.eqb_refl; reflexivity. Qed.

Lemma block_session r c s q : forallb (sess_wf s) (fst (block r c s q)) = true.
Proof. case_req q; cbn; rewrite ?Nat.eqb_refl; reflexivity. Qed.

Lemma block_ctxs r c s q : ctxs (fst (block r c s q)) = [c].
Proof. case_req q; reflexivity. Qed.

Definition is_hijackret (e : event) : bool := match e with HijackRet _ => true | _ => false end.

Lemma block_hijack r c s q :
  (existsb is_hijackret (fst (block r c s q)) = false) \/
  (exists B, fst (block r c s q) = B ++ [HijackRet r] /\ existsb is_hijackret B = false
             /\ snd (block r c s q) = Stop).
Proof.
  case_req q; cbn;
    first [ left; reflexivity
          | right; eexists [_]; split; [reflexivity|split; reflexivity]
          | right; eexists [_; _]; split; [reflexivity|split; reflexivity]
          | right; eexists [_; _; _]; split; [reflexivity|split; reflexivity]
          | right; eexists [_; _; _; _]; split; [reflexivity|split; reflexivity] ].
Qed.

(* ---------------- traces of one connection ---------------- *)

Lemma spec_conn_ge : forall reqs s b c, forallb (reqs_ge b) (fst (spec_conn s b c reqs)) = true.
Proof.
  induction reqs as [|q rest IH]; intros s b c; [reflexivity|].
  cbn [spec_conn].
  pose proof (block_about b c s q) as Hb.
  destruct (block b c s q) as [B oc]. cbn [fst] in Hb.
  apply (forallb_impl _ (reqs_ge b)) in Hb; [|apply about_ge].
  destruct oc.
  - specialize (IH s (S b) (S c)).
    destruct (spec_conn s (S b) (S c) rest) as [T n]. cbn [fst] in *.
    rewrite forallb_app, Hb. cbn.
    eapply forallb_impl; [|exact IH]. apply ge_S_ge.
  - cbn [fst]. rewrite forallb_app, Hb. reflexivity.
Qed.

Lemma ex_app r T1 T2 : ex r (T1 ++ T2) = ex r T1 ++ ex r T2.
Proof. unfold ex. apply filter_app. Qed.

Lemma per_req_none f b reqs T :
  (forall q, f q [] = true) -> forallb (reqs_lt b) T = true -> per_req f b reqs T = true.
Proof.
  intros Hf. revert b. induction reqs as [|q rest IH]; intros b H; [reflexivity|].
  cbn [per_req].
  assert (He : ex b T = []).
  { unfold ex. apply filter_none. eapply forallb_impl; [|exact H]. apply lt_not_about. }
  rewrite He, Hf. cbn. apply IH.
  eapply forallb_impl; [|exact H]. apply lt_lt_S.
Qed.

Lemma per_req_spec f (G : req -> bool) :
  (forall q, f q [] = true) ->
  (forall r c s q, G q = true -> f q (fst (block r c s q)) = true) ->
  forall reqs s b c pre,
    forallb G reqs = true -> forallb (reqs_lt b) pre = true ->
    per_req f b reqs (pre ++ fst (spec_conn s b c reqs)) = true.
Proof.
  intros Hnil Hblk.
  induction reqs as [|q rest IH]; intros s b c pre HG Hpre; [reflexivity|].
  cbn [forallb] in HG. apply andb_true_iff in HG. destruct HG as [HGq HGr].
  cbn [per_req spec_conn].
  pose proof (Hblk b c s q HGq) as Hf.
  pose proof (block_about b c s q) as Hab.
  destruct (block b c s q) as [B oc]. cbn [fst] in Hf, Hab.
  assert (Hpre0 : ex b pre = []).
  { unfold ex. apply filter_none. eapply forallb_impl; [|exact Hpre]. apply lt_not_about. }
  assert (HB : ex b B = B) by (unfold ex; apply filter_all, Hab).
  assert (HpreB : forallb (reqs_lt (S b)) (pre ++ B) = true).
  { rewrite forallb_app. apply andb_true_iff. split.
    - eapply forallb_impl; [|exact Hpre]. apply lt_lt_S.
    - eapply forallb_impl; [|exact Hab]. apply about_lt_S. }
  destruct oc.
  - pose proof (spec_conn_ge rest s (S b) (S c)) as Hge.
    specialize (IH s (S b) (S c) (pre ++ B) HGr HpreB).
    destruct (spec_conn s (S b) (S c) rest) as [T n]. cbn [fst] in *.
    assert (HT : ex b T = []).
    { unfold ex. apply filter_none. eapply forallb_impl; [|exact Hge]. apply ge_S_not_about. }
    rewrite !ex_app, Hpre0, HB, HT, app_nil_r. cbn [app]. rewrite Hf. cbn.
    rewrite app_assoc. exact IH.
  - cbn [fst]. rewrite !ex_app, Hpre0, HB. cbn. rewrite app_nil_r, Hf. cbn.
    apply per_req_none; [exact Hnil|].
    rewrite app_assoc, forallb_app, HpreB. reflexivity.
Qed.

Lemma forallb_true {A} (l : list A) : forallb (fun _ => true) l = true.
Proof. induction l; cbn; auto. Qed.

Lemma spec_reqmod reqs s b c : cl_reqmod b reqs (fst (spec_conn s b c reqs)) = true.
Proof.
  unfold cl_reqmod.
  apply (per_req_spec (fun _ => cl_reqmod_ex) (fun _ => true)
           (fun _ => eq_refl) (fun r c s q _ => block_reqmod r c s q) reqs s b c []);
    [apply forallb_true|reflexivity].
Qed.

Lemma spec_resmod reqs s b c : cl_resmod b reqs (fst (spec_conn s b c reqs)) = true.
Proof.
  unfold cl_resmod.
  apply (per_req_spec cl_resmod_ex (fun _ => true)
           (fun _ => eq_refl) (fun r c s q _ => block_resmod r c s q) reqs s b c []);
    [apply forallb_true|reflexivity].
Qed.

Lemma spec_error reqs s b c : cl_error b reqs (fst (spec_conn s b c reqs)) = true.
Proof.
  unfold cl_error.
  apply (per_req_spec cl_error_ex (fun _ => true)
           (fun _ => eq_refl) (fun r c s q _ => block_error r c s q) reqs s b c []);
    [apply forallb_true|reflexivity].
Qed.

Lemma spec_relay reqs s b c : cl_relay b reqs (fst (spec_conn s b c reqs)) = true.
Proof.
  unfold cl_relay.
  apply (per_req_spec cl_relay_ex (fun _ => true)
           (fun _ => eq_refl) (fun r c s q _ => block_relay r c s q) reqs s b c []);
    [apply forallb_true|reflexivity].
Qed.

Lemma spec_skip reqs s b c :
  forallb skip_guard reqs = true -> cl_skip b reqs (fst (spec_conn s b c reqs)) = true.
Proof.
  intros HG. unfold cl_skip.
  apply (per_req_spec cl_skip_ex skip_guard
           (fun _ => eq_refl) block_skip reqs s b c []); [exact HG|reflexivity].
Qed.

Lemma spec_forall (p : nat -> event -> bool) :
  (forall r c s q, forallb (p s) (fst (block r c s q)) = true) ->
  (forall s, p s SockClose = true) ->
  forall reqs s b c, forallb (p s) (fst (spec_conn s b c reqs)) = true.
Proof.
  intros Hb Hc. induction reqs as [|q rest IH]; intros s b c.
  - cbn. rewrite Hc. reflexivity.
  - cbn [spec_conn]. pose proof (Hb b c s q) as H.
    destruct (block b c s q) as [B oc]. cbn [fst] in H.
    destruct oc.
    + specialize (IH s (S b) (S c)).
      destruct (spec_conn s (S b) (S c) rest) as [T n]. cbn [fst] in *.
      rewrite forallb_app, H, IH. reflexivity.
    + cbn [fst]. rewrite forallb_app, H. cbn. rewrite Hc. reflexivity.
Qed.

Lemma spec_linked reqs s b c : cl_linked (fst (spec_conn s b c reqs)) = true.
Proof.
  unfold cl_linked.
  apply (spec_forall (fun _ => linked_wf)); [apply block_linked|reflexivity].
Qed.

Lemma spec_session reqs s b c : cl_session s (fst (spec_conn s b c reqs)) = true.
Proof.
  unfold cl_session.
  apply (spec_forall sess_wf); [apply block_session|reflexivity].
Qed.

Lemma cl_hijack_app_none B X : existsb is_hijackret B = false -> cl_hijack (B ++ X) = cl_hijack X.
Proof.
  induction B as [|e B IH]; [reflexivity|].
  cbn [existsb]. intros H. apply orb_false_iff in H. destruct H as [He HB].
  destruct e; try discriminate He; cbn [app cl_hijack]; apply IH, HB.
Qed.

Lemma spec_hijack : forall reqs s b c, cl_hijack (fst (spec_conn s b c reqs)) = true.
Proof.
  induction reqs as [|q rest IH]; intros s b c; [reflexivity|].
  cbn [spec_conn].
  pose proof (block_hijack b c s q) as H.
  destruct (block b c s q) as [B oc]. cbn [fst snd] in H.
  destruct H as [Hn | [B' [HB [Hn Hoc]]]].
  - destruct oc.
    + specialize (IH s (S b) (S c)).
      destruct (spec_conn s (S b) (S c) rest) as [T n]. cbn [fst] in *.
      rewrite cl_hijack_app_none; assumption.
    + cbn [fst]. rewrite cl_hijack_app_none; [reflexivity|assumption].
  - subst oc B. cbn [fst]. rewrite <- app_assoc. rewrite cl_hijack_app_none; [|assumption].
    reflexivity.
Qed.

Lemma spec_in_range : forall reqs s b c b0 n0,
  b0 <= b -> b + length reqs <= b0 + n0 ->
  forallb (in_range b0 n0) (fst (spec_conn s b c reqs)) = true.
Proof.
  induction reqs as [|q rest IH]; intros s b c b0 n0 H0 H1; [reflexivity|].
  cbn [spec_conn length] in *.
  pose proof (block_about b c s q) as Hab.
  destruct (block b c s q) as [B oc]. cbn [fst] in Hab.
  assert (HB : forallb (in_range b0 n0) B = true).
  { eapply forallb_impl; [|exact Hab]. intros e. unfold about, in_range.
    destruct (ev_req e); [|reflexivity]. intros He. apply Nat.eqb_eq in He. subst.
    apply andb_true_iff. split; [apply Nat.leb_le|apply Nat.ltb_lt]; lia. }
  destruct oc.
  - specialize (IH s (S b) (S c) b0 n0 ltac:(lia) ltac:(lia)).
    destruct (spec_conn s (S b) (S c) rest) as [T n]. cbn [fst] in *.
    rewrite forallb_app, HB, IH. reflexivity.
  - cbn [fst]. rewrite forallb_app, HB. reflexivity.
Qed.

Lemma block_reqmod_count r c s q : count is_reqmod (fst (block r c s q)) = 1.
Proof. case_req q; reflexivity. Qed.

Lemma block_ends r c s q : snd (block r c s q) = snd (block 0 0 0 q).
Proof. case_req q; reflexivity. Qed.

Lemma count_app p T1 T2 : count p (T1 ++ T2) = count p T1 + count p T2.
Proof. unfold count. rewrite filter_app, app_length. reflexivity. Qed.

Lemma spec_presented : forall reqs s b c, cl_presented reqs (fst (spec_conn s b c reqs)) = true.
Proof.
  unfold cl_presented. intros reqs s b c. apply Nat.eqb_eq. revert s b c.
  induction reqs as [|q rest IH]; intros s b c; [reflexivity|].
  cbn [spec_conn nread]. unfold ends.
  pose proof (block_reqmod_count b c s q) as Hc. pose proof (block_ends b c s q) as He.
  destruct (block b c s q) as [B oc]. cbn [fst snd] in Hc, He. rewrite <- He.
  destruct oc.
  - specialize (IH s (S b) (S c)).
    destruct (spec_conn s (S b) (S c) rest) as [T n]. cbn [fst] in *.
    rewrite count_app, Hc, IH. reflexivity.
  - cbn [fst]. rewrite count_app, Hc. reflexivity.
Qed.

Lemma conn_fail_spec reqs s b c :
  forallb skip_guard reqs = true ->
  conn_fail s b reqs (fst (spec_conn s b c reqs)) = None.
Proof.
  intros HG. unfold conn_fail.
  rewrite (spec_in_range reqs s b c b (length reqs)) by lia.
  rewrite spec_hijack, spec_reqmod, spec_resmod, spec_session, spec_linked, spec_error.
  rewrite (spec_skip _ _ _ _ HG), spec_relay, spec_presented. reflexivity.
Qed.

(* ---------------- contexts over the whole case ---------------- *)

Lemma ctxs_app T1 T2 : ctxs (T1 ++ T2) = ctxs T1 ++ ctxs T2.
Proof. unfold ctxs. apply flat_map_app. Qed.

Lemma spec_ctxs : forall reqs s b c,
  ctxs (fst (spec_conn s b c reqs)) = seq c (snd (spec_conn s b c reqs)).
Proof.
  induction reqs as [|q rest IH]; intros s b c; [reflexivity|].
  cbn [spec_conn].
  pose proof (block_ctxs b c s q) as Hc.
  destruct (block b c s q) as [B oc]. cbn [fst] in Hc.
  destruct oc.
  - specialize (IH s (S b) (S c)).
    destruct (spec_conn s (S b) (S c) rest) as [T n]. cbn [fst snd] in *.
    rewrite ctxs_app, Hc, IH. reflexivity.
  - cbn [fst snd]. rewrite ctxs_app, Hc. reflexivity.
Qed.

Fixpoint total (k r c : nat) (conns : list (list req)) : nat :=
  match conns with
  | [] => 0
  | reqs :: cs =>
      snd (spec_conn k r c reqs)
      + total (match reqs with [] => k | _ => S k end) (r + length reqs)
              (c + snd (spec_conn k r c reqs)) cs
  end.

Lemma spec_run_ctxs : forall conns k r c,
  flat_map ctxs (spec_run k r c conns) = seq c (total k r c conns).
Proof.
  induction conns as [|reqs cs IH]; intros k r c; [reflexivity|].
  cbn [spec_run total].
  pose proof (spec_ctxs reqs k r c) as Hc.
  destruct (spec_conn k r c reqs) as [T n]. cbn [fst snd] in *.
  cbn [flat_map]. rewrite Hc, IH. symmetry. apply seq_app.
Qed.

Lemma nodupb_iff l : nodupb l = true <-> NoDup l.
Proof.
  induction l as [|x l IH]; cbn [nodupb].
  - split; [constructor|reflexivity].
  - rewrite andb_true_iff, negb_true_iff, IH. split.
    + intros [Hx Hl]. constructor; [|assumption].
      intros Hin. assert (existsb (Nat.eqb x) l = true).
      { apply existsb_exists. exists x. split; [assumption|apply Nat.eqb_refl]. }
      congruence.
    + intros H. inversion H as [|? ? Hn Hd]; subst. split; [|assumption].
      destruct (existsb (Nat.eqb x) l) eqn:E; [|reflexivity].
      apply existsb_exists in E. destruct E as [y [Hy Hxy]].
      apply Nat.eqb_eq in Hxy. subst. contradiction.
Qed.

Lemma spec_ctx_fresh conns k r c : nodupb (flat_map ctxs (spec_run k r c conns)) = true.
Proof. rewrite spec_run_ctxs. apply nodupb_iff, seq_NoDup. Qed.

(* ---------------- the whole case ---------------- *)

Definition guard_ok (conns : list (list req)) : bool := forallb (forallb skip_guard) conns.

Lemma conns_fail_spec : forall conns k b c,
  guard_ok conns = true ->
  conns_fail k b conns (spec_run k b c conns) = None.
Proof.
  induction conns as [|reqs cs IH]; intros k b c HG; [reflexivity|].
  cbn [guard_ok forallb] in HG. apply andb_true_iff in HG. destruct HG as [Hq Hr].
  cbn [spec_run].
  pose proof (conn_fail_spec reqs k b c Hq) as Hc.
  destruct (spec_conn k b c reqs) as [T n]. cbn [fst] in Hc.
  cbn [conns_fail]. rewrite Hc. apply IH. exact Hr.
Qed.

(* The oracle accepts what the specification prescribes. *)
Theorem spec_accepted conns :
  guard_ok conns = true -> c02_ok conns (spec_obs conns) 0 0 = true.
Proof.
  intros HG. unfold c02_ok, c02_fail, spec_obs.
  rewrite (conns_fail_spec conns 0 0 0 HG), spec_ctx_fresh. reflexivity.
Qed.
