(* C02 — the property clauses, for every list of connections, requests and
   modifier behaviours, about the model of the repaired code. *)
From Coq Require Import List Bool Arith Lia.
From Martian.C02 Require Import Model Proofs_Refine Proofs_Clauses Proofs_Oracle.
Import ListNotations.

(* [P k b reqs T] for every connection: k its session number, b the position
   of its first request, reqs its script, T its observable trace. *)
Fixpoint all_conns (P : nat -> nat -> list req -> list event -> Prop)
         (k b : nat) (conns : list (list req)) (Ts : list (list event)) : Prop :=
  match conns, Ts with
  | [], [] => True
  | reqs :: cs, T :: Ts' =>
      P k b reqs T /\
      all_conns P (match reqs with [] => k | _ => S k end) (b + length reqs) cs Ts'
  | _, _ => False
  end.

Lemma all_conns_spec (P : nat -> nat -> list req -> list event -> Prop) :
  (forall reqs s b c, P s b reqs (fst (spec_conn s b c reqs))) ->
  forall conns k b c, all_conns P k b conns (spec_run k b c conns).
Proof.
  intros H. induction conns as [|reqs cs IH]; intros k b c; [exact I|].
  cbn [spec_run]. pose proof (H reqs k b c) as Hc.
  destruct (spec_conn k b c reqs) as [T n]. cbn [fst] in Hc.
  cbn [all_conns]. split; [exact Hc|apply IH].
Qed.

Lemma all_conns_guarded (G : req -> bool) (P : nat -> nat -> list req -> list event -> Prop) :
  (forall reqs s b c, forallb G reqs = true -> P s b reqs (fst (spec_conn s b c reqs))) ->
  forall conns k b c, forallb (forallb G) conns = true -> all_conns P k b conns (spec_run k b c conns).
Proof.
  intros H. induction conns as [|reqs cs IH]; intros k b c HG; [exact I|].
  cbn [forallb] in HG. apply andb_true_iff in HG. destruct HG as [Hq Hr].
  cbn [spec_run]. pose proof (H reqs k b c Hq) as Hc.
  destruct (spec_conn k b c reqs) as [T n]. cbn [fst] in Hc.
  cbn [all_conns]. split; [exact Hc|apply IH, Hr].
Qed.

Section Model.
  Variable conns : list (list req).
  Variable Ts : list (list event).
  Variable n : nat.
  Hypothesis Hrun : model_obs fixed conns = Some (Ts, n).

  Lemma run_is_spec : Ts = spec_obs conns /\ n = 0.
  Proof. rewrite model_refines_spec in Hrun. inversion Hrun. auto. Qed.

  Lemma m_reqmod :
    all_conns (fun k b reqs T => forall i q, nth_error reqs i = Some q -> P_reqmod_ex (ex (b + i) T)) 0 0 conns Ts.
  Proof.
    destruct run_is_spec as [-> _]. apply all_conns_spec. intros reqs s b c i q Hn.
    apply cl_reqmod_ex_iff.
    exact (proj1 (per_req_iff (fun _ => cl_reqmod_ex) reqs b _) (spec_reqmod reqs s b c) i q Hn).
  Qed.

  Lemma m_resmod :
    all_conns (fun k b reqs T => forall i q, nth_error reqs i = Some q -> P_resmod_ex q (ex (b + i) T)) 0 0 conns Ts.
  Proof.
    destruct run_is_spec as [-> _]. apply all_conns_spec. intros reqs s b c i q Hn.
    apply cl_resmod_ex_iff.
    exact (proj1 (per_req_iff cl_resmod_ex reqs b _) (spec_resmod reqs s b c) i q Hn).
  Qed.

  Lemma m_error :
    all_conns (fun k b reqs T => forall i q, nth_error reqs i = Some q -> P_error_ex q (ex (b + i) T)) 0 0 conns Ts.
  Proof.
    destruct run_is_spec as [-> _]. apply all_conns_spec. intros reqs s b c i q Hn.
    apply cl_error_ex_iff.
    exact (proj1 (per_req_iff cl_error_ex reqs b _) (spec_error reqs s b c) i q Hn).
  Qed.

  Lemma m_relay :
    all_conns (fun k b reqs T => forall i q, nth_error reqs i = Some q -> P_relay_ex q (ex (b + i) T)) 0 0 conns Ts.
  Proof.
    destruct run_is_spec as [-> _]. apply all_conns_spec. intros reqs s b c i q Hn.
    apply cl_relay_ex_iff.
    exact (proj1 (per_req_iff cl_relay_ex reqs b _) (spec_relay reqs s b c) i q Hn).
  Qed.

  Lemma m_presented :
    all_conns (fun k b reqs T => count is_reqmod T = nread reqs) 0 0 conns Ts.
  Proof.
    destruct run_is_spec as [-> _]. apply all_conns_spec. intros reqs s b c.
    apply Nat.eqb_eq. exact (spec_presented reqs s b c).
  Qed.

  Lemma m_skip :
    guard_ok conns = true ->
    all_conns (fun k b reqs T => forall i q, nth_error reqs i = Some q -> P_skip_ex q (ex (b + i) T)) 0 0 conns Ts.
  Proof.
    intros HG. destruct run_is_spec as [-> _].
    apply (all_conns_guarded skip_guard); [|exact HG]. intros reqs s b c Hq i q Hn.
    apply cl_skip_ex_iff.
    exact (proj1 (per_req_iff cl_skip_ex reqs b _) (spec_skip reqs s b c Hq) i q Hn).
  Qed.

  Lemma m_session : all_conns (fun k b reqs T => P_session k T) 0 0 conns Ts.
  Proof.
    destruct run_is_spec as [-> _]. apply all_conns_spec. intros reqs s b c.
    apply cl_session_iff, spec_session.
  Qed.

  Lemma m_linked : all_conns (fun k b reqs T => P_linked T) 0 0 conns Ts /\ n = 0.
  Proof.
    destruct run_is_spec as [-> ->]. split; [|reflexivity]. apply all_conns_spec. intros reqs s b c.
    apply cl_linked_iff, spec_linked.
  Qed.

  Lemma m_hijack : all_conns (fun k b reqs T => P_hijack T) 0 0 conns Ts.
  Proof.
    destruct run_is_spec as [-> _]. apply all_conns_spec. intros reqs s b c.
    apply cl_hijack_iff, spec_hijack.
  Qed.

  Lemma m_scope : all_conns (fun k b reqs T => P_scope b (length reqs) T) 0 0 conns Ts.
  Proof.
    destruct run_is_spec as [-> _]. apply all_conns_spec. intros reqs s b c.
    apply scope_iff, spec_in_range; lia.
  Qed.

  Lemma m_ctx_fresh : NoDup (flat_map ctxs Ts).
  Proof. destruct run_is_spec as [-> _]. apply nodupb_iff, spec_ctx_fresh. Qed.

  Lemma m_good : guard_ok conns = true -> C02_good conns Ts n 0.
  Proof.
    intros HG. destruct run_is_spec as [-> ->]. apply c02_ok_iff, spec_accepted, HG.
  Qed.
End Model.

(* The pinned commit (variant [asis]) violates two clauses; witnesses. *)
Definition w_hijack : list (list req) := [[mkReq Plain true false false RtOk false false false]].
Definition w_connect : list (list req) :=
  [[mkReq ConnectMitm false false false RtOk false false false; mkReq Plain false false false RtOk false false false]].
Definition w_skip : list (list req) := [[mkReq ConnectBlind false false true RtOk false false false]].

Lemma asis_hijack_fails :
  exists Ts n, model_obs asis w_hijack = Some (Ts, n) /\ c02_fail w_hijack Ts n 0 = Some CHijack.
Proof. eexists. eexists. split; vm_compute; reflexivity. Qed.

Lemma asis_connect_fails :
  exists Ts n, model_obs asis w_connect = Some (Ts, n) /\ c02_fail w_connect Ts n 0 = Some CNoContext.
Proof. eexists. eexists. split; vm_compute; reflexivity. Qed.

Lemma fixed_skip_blind_fails :
  exists Ts n, model_obs fixed w_skip = Some (Ts, n) /\ c02_fail w_skip Ts n 0 = Some CSkip.
Proof. eexists. eexists. split; vm_compute; reflexivity. Qed.

Lemma not_good_of_fail conns Ts live ret c :
  c02_fail conns Ts live ret = Some c -> ~ C02_good conns Ts live ret.
Proof.
  intros H G. apply c02_ok_iff in G. unfold c02_ok in G. rewrite H in G. discriminate G.
Qed.

Lemma asis_hijack_refuted :
  exists Ts n, model_obs asis w_hijack = Some (Ts, n) /\ ~ C02_good w_hijack Ts n 0.
Proof.
  destruct asis_hijack_fails as [Ts [n [H1 H2]]].
  exact (ex_intro _ Ts (ex_intro _ n (conj H1 (not_good_of_fail _ _ _ _ _ H2)))).
Qed.

Lemma asis_connect_refuted :
  exists Ts n, model_obs asis w_connect = Some (Ts, n) /\ ~ C02_good w_connect Ts n 0.
Proof.
  destruct asis_connect_fails as [Ts [n [H1 H2]]].
  exact (ex_intro _ Ts (ex_intro _ n (conj H1 (not_good_of_fail _ _ _ _ _ H2)))).
Qed.

(* ---------------- a session belongs to one connection only ---------------- *)

Definition ev_sess (e : event) : option nat :=
  match e with
  | ReqMod _ _ s _ => Some s
  | ResMod _ _ _ s _ _ _ _ => Some s
  | _ => None
  end.

Lemma spec_conn_sess reqs k b c e s :
  In e (fst (spec_conn k b c reqs)) -> ev_sess e = Some s -> s = k /\ reqs <> [].
Proof.
  intros Hin Hs. split.
  - pose proof (proj1 (cl_session_iff k _) (spec_session reqs k b c) e Hin) as H.
    destruct e; try discriminate Hs; cbn in Hs, H; congruence.
  - intros ->. cbn in Hin. destruct Hin as [<-|[]]. discriminate Hs.
Qed.

Lemma spec_run_sess_ge : forall conns k b c i T e s,
  nth_error (spec_run k b c conns) i = Some T -> In e T -> ev_sess e = Some s -> k <= s.
Proof.
  induction conns as [|reqs cs IH]; intros k b c i T e s Hn Hin Hs; [destruct i; discriminate Hn|].
  cbn [spec_run] in Hn.
  pose proof (spec_conn_sess reqs k b c) as Hc.
  destruct (spec_conn k b c reqs) as [T0 n0]. cbn [fst] in Hc.
  destruct i as [|i]; cbn in Hn.
  - inversion Hn; subst. destruct (Hc e s Hin Hs) as [-> _]. lia.
  - specialize (IH _ _ _ _ _ _ _ Hn Hin Hs). destruct reqs; lia.
Qed.

Lemma spec_run_sess_lt : forall conns k b c i j T1 T2 e1 e2 s1 s2,
  i < j ->
  nth_error (spec_run k b c conns) i = Some T1 -> nth_error (spec_run k b c conns) j = Some T2 ->
  In e1 T1 -> In e2 T2 -> ev_sess e1 = Some s1 -> ev_sess e2 = Some s2 -> s1 < s2.
Proof.
  induction conns as [|reqs cs IH]; intros k b c i j T1 T2 e1 e2 s1 s2 Hij H1 H2 Hi1 Hi2 Hs1 Hs2;
    [destruct i; discriminate H1|].
  cbn [spec_run] in H1, H2.
  pose proof (spec_conn_sess reqs k b c) as Hc.
  destruct (spec_conn k b c reqs) as [T0 n0]. cbn [fst] in Hc.
  destruct j as [|j]; [lia|]. cbn in H2.
  destruct i as [|i]; cbn in H1.
  - inversion H1; subst. destruct (Hc e1 s1 Hi1 Hs1) as [-> Hne].
    pose proof (spec_run_sess_ge _ _ _ _ _ _ _ _ H2 Hi2 Hs2) as Hge.
    destruct reqs; [congruence|lia].
  - eapply (IH _ _ _ i j); eauto. lia.
Qed.

Lemma m_session_by_no_other conns Ts n :
  model_obs fixed conns = Some (Ts, n) ->
  forall i j T1 T2 e1 e2 s1 s2, i <> j ->
    nth_error Ts i = Some T1 -> nth_error Ts j = Some T2 ->
    In e1 T1 -> In e2 T2 -> ev_sess e1 = Some s1 -> ev_sess e2 = Some s2 -> s1 <> s2.
Proof.
  intros Hrun. destruct (run_is_spec conns Ts n Hrun) as [-> _].
  intros i j T1 T2 e1 e2 s1 s2 Hij H1 H2 Hi1 Hi2 Hs1 Hs2. unfold spec_obs in *.
  destruct (Nat.lt_ge_cases i j) as [Hlt|Hge].
  - pose proof (spec_run_sess_lt _ _ _ _ _ _ _ _ _ _ _ _ Hlt H1 H2 Hi1 Hi2 Hs1 Hs2). lia.
  - assert (Hlt : j < i) by lia.
    pose proof (spec_run_sess_lt _ _ _ _ _ _ _ _ _ _ _ _ Hlt H2 H1 Hi2 Hi1 Hs2 Hs1). lia.
Qed.

(* ---------------- a PROPFAIL names a clause that does fail ---------------- *)

(* what clause [c] says of one connection *)
Definition clause_prop (c : clause) (k b : nat) (reqs : list req) (T : list event) : Prop :=
  match c with
  | CScope => P_scope b (length reqs) T
  | CHijack => P_hijack T
  | CReqmod => forall i q, nth_error reqs i = Some q -> P_reqmod_ex (ex (b + i) T)
  | CResmod => forall i q, nth_error reqs i = Some q -> P_resmod_ex q (ex (b + i) T)
  | CSession => P_session k T
  | CNoContext => P_linked T
  | CError => forall i q, nth_error reqs i = Some q -> P_error_ex q (ex (b + i) T)
  | CSkip => forall i q, nth_error reqs i = Some q -> P_skip_ex q (ex (b + i) T)
  | CRelay => forall i q, nth_error reqs i = Some q -> P_relay_ex q (ex (b + i) T)
  | CPresented => count is_reqmod T = nread reqs
  | CCtxFresh => True      (* decided over the whole case, not per connection *)
  end.

Lemma per_req_lift (f : req -> list event -> bool) (P : req -> list event -> Prop) b reqs T :
  (forall q E, f q E = true <-> P q E) ->
  (per_req f b reqs T = true <-> forall i q, nth_error reqs i = Some q -> P q (ex (b + i) T)).
Proof.
  intros H. rewrite per_req_iff. split; intros G i q Hn; apply H, G, Hn.
Qed.

Theorem conn_fail_names_failing_clause k b reqs T c :
  conn_fail k b reqs T = Some c -> ~ clause_prop c k b reqs T.
Proof.
  unfold conn_fail.
  destruct (forallb (in_range b (length reqs)) T) eqn:E0; cbn [negb];
    [|intros E; inversion E; subst; cbn; rewrite <- scope_iff; congruence].
  destruct (cl_hijack T) eqn:E1; cbn [negb];
    [|intros E; inversion E; subst; cbn; rewrite <- cl_hijack_iff; congruence].
  destruct (cl_reqmod b reqs T) eqn:E2; cbn [negb];
    [|intros E; inversion E; subst; cbn; unfold cl_reqmod in E2;
      rewrite <- (per_req_lift (fun _ => cl_reqmod_ex) (fun _ => P_reqmod_ex) b reqs T (fun _ => cl_reqmod_ex_iff)); congruence].
  destruct (cl_resmod b reqs T) eqn:E3; cbn [negb];
    [|intros E; inversion E; subst; cbn; unfold cl_resmod in E3;
      rewrite <- (per_req_lift cl_resmod_ex P_resmod_ex b reqs T cl_resmod_ex_iff); congruence].
  destruct (cl_session k T) eqn:E4; cbn [negb];
    [|intros E; inversion E; subst; cbn; rewrite <- cl_session_iff; congruence].
  destruct (cl_linked T) eqn:E5; cbn [negb];
    [|intros E; inversion E; subst; cbn; rewrite <- cl_linked_iff; congruence].
  destruct (cl_error b reqs T) eqn:E6; cbn [negb];
    [|intros E; inversion E; subst; cbn; unfold cl_error in E6;
      rewrite <- (per_req_lift cl_error_ex P_error_ex b reqs T cl_error_ex_iff); congruence].
  destruct (cl_skip b reqs T) eqn:E7; cbn [negb];
    [|intros E; inversion E; subst; cbn; unfold cl_skip in E7;
      rewrite <- (per_req_lift cl_skip_ex P_skip_ex b reqs T cl_skip_ex_iff); congruence].
  destruct (cl_relay b reqs T) eqn:E8; cbn [negb];
    [|intros E; inversion E; subst; cbn; unfold cl_relay in E8;
      rewrite <- (per_req_lift cl_relay_ex P_relay_ex b reqs T cl_relay_ex_iff); congruence].
  destruct (cl_presented reqs T) eqn:E9; cbn [negb]; [discriminate|].
  intros E; inversion E; subst; cbn. unfold cl_presented in E9. apply Nat.eqb_neq in E9. exact E9.
Qed.
