(* C03 — theorem audit: schedules, trichotomy, the Warning grammar as a
   Prop, chunked encoding round trip (fuel discharged). *)
From Coq Require Import List NArith Bool Arith Ascii String Lia.
From Martian.C01 Require Import Model Proofs Proofs_Sched.
From Martian.C03 Require Import Model Proofs.
Import ListNotations.

(* ---------------------------------------------------------------- the loop and its schedules *)

Definition h03 (fx : bool) (ie : nat * exch3) : list tagged * bool :=
  (tag (fst ie) (fst (handle3 fx (snd ie))), snd (handle3 fx (snd ie))).

Fixpoint indexed (i : nat) (es : list exch3) : list (nat * exch3) :=
  match es with [] => [] | e :: es' => (i, e) :: indexed (S i) es' end.

Lemma conn_stream_is_loop : forall fx es i,
  conn_stream fx i es =
    (List.concat (fst (loop_run (h03 fx) (indexed i es))), snd (loop_run (h03 fx) (indexed i es))).
Proof.
  intros fx es. induction es as [|e es IH]; intro i; [reflexivity|].
  cbn [conn_stream indexed loop_run]. unfold h03 at 1 3. cbn [fst snd].
  destruct (handle3 fx e) as [syms cl]. cbn [fst snd]. destruct cl.
  - cbn. now rewrite app_nil_r.
  - rewrite (IH (S i)). destruct (loop_run (h03 fx) (indexed (S i) es)) as [os c]. reflexivity.
Qed.

(* Requests pipelined, partially pipelined or sent one at a time: for every
   arrival schedule (atomicity as in C01: handleLoop serves one request at a
   time), once nothing is left to do the client parses exactly the specified
   view out of what the repaired proxy wrote. *)
Lemma c03_schedule_independent : forall es ls st,
  srun (h03 true) (sinit (indexed 0 es)) ls = Some st -> quiescent st ->
  (client_parse (map x_nobody es) (List.concat (s_out st)) (s_closed st), s_closed st) = spec_view es.
Proof.
  intros es ls st Hr Hq. pose proof (sched_complete _ _ _ _ ls st Hr Hq) as H.
  rewrite <- client_view_is_spec. unfold client_view. rewrite conn_stream_is_loop, <- H. reflexivity.
Qed.

(* ---------------------------------------------------------------- trichotomy *)

Definition is_502 (e : exch3) (p : presp) : Prop :=
  p_head p = Some (mkHead (H502 true true) (x_id e) (if x_head e then CNone else CCL 0)) /\
  p_body p = [] /\ p_state p = PComplete.

Definition is_relay (e : exch3) (p : presp) : Prop :=
  p_head p = Some (mkHead (relay_kind e) (x_id e) (relay_framing e)) /\
  p_body p = (match relay_framing e with CNone => [] | _ => q_body (x_resp e) end) /\
  p_state p = PComplete.

Definition is_partial (e : exch3) (d : list ascii) (p : presp) : Prop :=
  p_head p = Some (mkHead (relay_kind e) (x_id e) (relay_framing e)) /\
  p_body p = d /\ p_state p = PIncomplete.

Lemma expected_cases : forall i e,
  match classify e with
  | UFail => is_502 e (expected i e)
  | UComplete => is_relay e (expected i e)
  | UPartial d => is_partial e d (expected i e)
  end.
Proof.
  intros i e. unfold expected, is_502, is_relay, is_partial.
  destruct (classify e); cbn; repeat split; reflexivity.
Qed.

(* Whatever the origin does, every response the client gets is one of exactly
   three things, decided by where the failure fell: the 502 (failure before a
   complete head), the origin's complete response, or a detectably incomplete
   one - which is then the last thing on a connection the proxy has closed. *)
Lemma trichotomy : forall es k p,
  nth_error (fst (client_view true es)) k = Some p ->
  exists e, nth_error (served3 es) k = Some e /\
    match classify e with
    | UFail => is_502 e p
    | UComplete => is_relay e p
    | UPartial d => is_partial e d p /\ S k = List.length (fst (client_view true es)) /\ snd (client_view true es) = true
    end.
Proof.
  intros es k p H. pose proof H as H0. rewrite client_view_is_spec in H. cbn [fst spec_view] in H.
  rewrite expected_from_nth in H. cbn [plus] in H.
  destruct (nth_error (served3 es) k) as [e|] eqn:N; [|discriminate]. cbn in H. inversion H; subst p. clear H.
  exists e. split; [reflexivity|]. pose proof (expected_cases k e) as X.
  destruct (classify e) as [| |d] eqn:C; try exact X.
  split; [exact X|].
  assert (Hs : p_state (expected k e) <> PComplete) by (rewrite expected_state, C; discriminate).
  destruct (incomplete_is_last_and_closed es k _ H0 Hs) as (A & B & _). now split.
Qed.

(* for a Content-Length response the delivered part is a proper prefix of the origin's body *)
Lemma partial_cl_is_prefix : forall e d,
  classify e = UPartial d -> q_framing (x_resp e) = FCL ->
  exists j, d = firstn j (q_body (x_resp e)) /\ j < List.length (q_body (x_resp e)).
Proof.
  intros e d C F. unfold classify in C. destruct (x_out e) as [| | |k|]; try discriminate.
  destruct (x_connect e); [discriminate|]. destruct (k <? q_headlen (x_resp e)); [discriminate|].
  destruct (x_head e); [discriminate|]. rewrite F in C.
  destruct (List.length (q_body (x_resp e)) <=? k - q_headlen (x_resp e)) eqn:L; [discriminate|].
  inversion C. exists (k - q_headlen (x_resp e)). split; [reflexivity|]. now apply Nat.leb_gt.
Qed.

(* ---------------------------------------------------------------- the Warning grammar as a Prop *)

(* the inside of a quoted-string: qdtext and quoted-pairs *)
Inductive QBody : list ascii -> Prop :=
| QNil : QBody []
| QText : forall c b, qdtext c = true -> QBody b -> QBody (c :: b)
| QPair : forall c b, qpchar c = true -> QBody b -> QBody (BS :: c :: b).

Lemma qdtext_plain : forall c, qdtext c = true -> Ascii.eqb c DQ = false /\ Ascii.eqb c BS = false.
Proof.
  intros c H. destruct c as [[] [] [] [] [] [] [] []]; vm_compute in H; try discriminate; split; reflexivity.
Qed.

Lemma scan_qs_complete : forall b, QBody b -> forall rest, scan_qs false (b ++ DQ :: rest) = Some rest.
Proof.
  induction 1 as [|c b Hc _ IH|c b Hc _ IH]; intro rest.
  - reflexivity.
  - destruct (qdtext_plain c Hc) as [A B]. cbn [app scan_qs]. now rewrite A, B, Hc.
  - cbn [app scan_qs]. change (Ascii.eqb BS DQ) with false. change (Ascii.eqb BS BS) with true. cbv iota.
    now rewrite Hc.
Qed.

Lemma scan_qs_sound : forall x,
  (forall rest, scan_qs false x = Some rest -> exists b, QBody b /\ x = b ++ DQ :: rest) /\
  (forall rest, scan_qs true x = Some rest -> exists c b, qpchar c = true /\ QBody b /\ x = c :: b ++ DQ :: rest).
Proof.
  induction x as [|c x [IH1 IH2]]; split; intros rest H; cbn [scan_qs] in H; try discriminate.
  - destruct (Ascii.eqb c DQ) eqn:E1.
    + apply Ascii.eqb_eq in E1. subst c. inversion H; subst. exists []. split; [constructor|reflexivity].
    + destruct (Ascii.eqb c BS) eqn:E2.
      * apply Ascii.eqb_eq in E2. subst c. destruct (IH2 rest H) as (c' & b & Hc & Hb & Hx).
        exists (BS :: c' :: b). split; [now constructor|]. now rewrite Hx.
      * destruct (qdtext c) eqn:Q; [|discriminate]. destruct (IH1 rest H) as (b & Hb & Hx).
        exists (c :: b). split; [now constructor|]. now rewrite Hx.
  - destruct (qpchar c) eqn:Q; [|discriminate]. destruct (IH1 rest H) as (b & Hb & Hx).
    exists c, b. repeat split; auto. now rewrite Hx.
Qed.

Lemma scan_qs_iff : forall x rest,
  scan_qs false x = Some rest <-> exists b, QBody b /\ x = b ++ DQ :: rest.
Proof.
  intros x rest. split; [apply (proj1 (scan_qs_sound x))|].
  intros (b & Hb & Hx). subst x. now apply scan_qs_complete.
Qed.

Definition agent_char (c : ascii) : bool := (negb (Ascii.eqb c SP) && qpchar c)%bool.

Lemma span_agent_spec : forall x a r, span_agent x = (a, r) ->
  x = a ++ r /\ forallb agent_char a = true /\ (match r with c :: _ => agent_char c = false | [] => True end).
Proof.
  induction x as [|c x IH]; intros a r H; cbn [span_agent] in H.
  - inversion H; subst. repeat split.
  - destruct (Ascii.eqb c SP || negb (qpchar c))%bool eqn:E.
    + inversion H; subst. repeat split. unfold agent_char.
      apply orb_true_iff in E as [E|E]; [now rewrite E|]. apply negb_true_iff in E. rewrite E. now rewrite andb_false_r.
    + destruct (span_agent x) as [a' r'] eqn:S. inversion H; subst. destruct (IH a' r eq_refl) as (A & B & C).
      apply orb_false_iff in E as [E1 E2]. apply negb_false_iff in E2.
      repeat split; [now rewrite A| |exact C]. cbn [forallb]. unfold agent_char at 1. now rewrite E1, E2, B.
Qed.

Lemma span_agent_complete : forall a r, forallb agent_char a = true ->
  (match r with c :: _ => agent_char c = false | [] => True end) -> span_agent (a ++ r) = (a, r).
Proof.
  induction a as [|c a IH]; intros r Ha Hr.
  - destruct r as [|c r]; [reflexivity|]. cbn [app span_agent]. unfold agent_char in Hr.
    destruct (Ascii.eqb c SP); [reflexivity|]. cbn in Hr. now rewrite Hr.
  - cbn [forallb] in Ha. apply andb_true_iff in Ha as [Hc Ha]. unfold agent_char in Hc.
    apply andb_true_iff in Hc as [H1 H2]. apply negb_true_iff in H1.
    cbn [app span_agent]. rewrite H1, H2. cbn [negb orb]. now rewrite (IH r Ha Hr).
Qed.

(* RFC 7234 5.5 warning-value, as a proposition *)
Definition WarnValue (v : list ascii) : Prop :=
  exists d1 d2 d3 agent text tail,
    v = d1 :: d2 :: d3 :: SP :: agent ++ SP :: DQ :: text ++ DQ :: tail /\
    is_digit d1 = true /\ is_digit d2 = true /\ is_digit d3 = true /\
    agent <> [] /\ forallb agent_char agent = true /\ QBody text /\
    (tail = [] \/ exists date, tail = SP :: DQ :: date ++ [DQ] /\ QBody date).

Lemma warning_ok_iff : forall v, warning_ok v = true <-> WarnValue v.
Proof.
  intro v. split.
  - unfold warning_ok. destruct v as [|d1 [|d2 [|d3 [|s1 rest]]]]; try discriminate.
    destruct (is_digit d1 && is_digit d2 && is_digit d3 && Ascii.eqb s1 SP)%bool eqn:D; [|discriminate].
    apply andb_true_iff in D as [D E4]. apply andb_true_iff in D as [D E3]. apply andb_true_iff in D as [E1 E2].
    apply Ascii.eqb_eq in E4. subst s1.
    destruct (span_agent rest) as [a r] eqn:S. destruct (span_agent_spec _ _ _ S) as (X & A & _).
    destruct a as [|a0 a]; [discriminate|]. destruct r as [|s2 [|q rest2]]; try discriminate.
    destruct (Ascii.eqb s2 SP && Ascii.eqb q DQ)%bool eqn:F; [|discriminate].
    apply andb_true_iff in F as [F1 F2]. apply Ascii.eqb_eq in F1, F2. subst s2 q.
    destruct (scan_qs false rest2) as [t|] eqn:Q; [|discriminate].
    apply scan_qs_iff in Q as (text & Ht & Hx). intro H.
    exists d1, d2, d3, (a0 :: a), text, t. subst rest rest2. repeat split; auto; [discriminate|].
    destruct t as [|s3 [|q2 rest3]]; [now left|discriminate|].
    destruct (Ascii.eqb s3 SP && Ascii.eqb q2 DQ)%bool eqn:G; [|discriminate].
    apply andb_true_iff in G as [G1 G2]. apply Ascii.eqb_eq in G1, G2. subst s3 q2.
    destruct (scan_qs false rest3) as [[|? ?]|] eqn:Q2; try discriminate.
    apply scan_qs_iff in Q2 as (date & Hd & Hy). right. exists date. subst rest3. now split.
  - intros (d1 & d2 & d3 & agent & text & tail & Hv & E1 & E2 & E3 & Hne & Ha & Ht & Htail). subst v.
    unfold warning_ok. rewrite E1, E2, E3. change (Ascii.eqb SP SP) with true. cbn [andb].
    rewrite (span_agent_complete agent (SP :: DQ :: text ++ DQ :: tail) Ha) by reflexivity.
    destruct agent as [|a0 a]; [congruence|].
    change (Ascii.eqb SP SP && Ascii.eqb DQ DQ)%bool with true. cbv iota.
    rewrite (scan_qs_complete text Ht tail).
    destruct Htail as [T|(date & T & Hd)]; subst tail; [reflexivity|].
    change (Ascii.eqb SP SP && Ascii.eqb DQ DQ)%bool with true. cbv iota.
    now rewrite (scan_qs_complete date Hd []).
Qed.

(* "carries a well-formed Warning" on the raw observation, as a proposition *)
Lemma observe_warning_iff : forall r,
  o_warning (observe r) = true <-> (w_warnings r <> [] /\ Forall WarnValue (w_warnings r)).
Proof.
  intro r. unfold observe. cbn [o_warning]. destruct (w_warnings r) as [|w ws] eqn:W.
  - split; [discriminate|]. intros [H _]. congruence.
  - rewrite forallb_forall. split.
    + intro H. split; [discriminate|]. apply Forall_forall. intros x Hx. apply warning_ok_iff. now apply H.
    + intros [_ H] x Hx. apply warning_ok_iff. rewrite Forall_forall in H. now apply H.
Qed.

(* ---------------------------------------------------------------- chunked encoding: round trip, fuel discharged *)

Lemma hexval_hexdigit : forall n, n < 16 -> hexval (hexdigit n) = Some n.
Proof. intros n H. do 16 (destruct n as [|n]; [reflexivity|]). lia. Qed.

Lemma firstn_app_exact : forall {A} n (l1 l2 : list A), List.length l1 = n -> firstn n (l1 ++ l2) = l1.
Proof. intros A n l1 l2 H. subst n. rewrite firstn_app, Nat.sub_diag, firstn_all. cbn. now rewrite app_nil_r. Qed.

Lemma skipn_app_exact : forall {A} n (l1 l2 : list A), List.length l1 = n -> skipn n (l1 ++ l2) = l2.
Proof. intros A n l1 l2 H. subst n. rewrite skipn_app, Nat.sub_diag, skipn_all. reflexivity. Qed.

(* The origin's chunked body ([chunk_enc], sizes clamped to 1..15) decodes, with
   net/http's reader ([dechunk]), to exactly the body, terminator seen - for
   every body and every size list, with the fuel the model supplies: neither
   function ever returns its out-of-fuel value on these inputs. *)
Lemma dechunk_chunk_enc : forall fuel sizes all data,
  List.length data < fuel ->
  forall fuel2, List.length (chunk_enc fuel sizes all data) < fuel2 ->
  dechunk fuel2 (chunk_enc fuel sizes all data) = (data, true).
Proof.
  induction fuel as [|fuel IH]; intros sizes all data Hf fuel2 Hf2; [lia|].
  destruct data as [|b d].
  - cbn [chunk_enc] in *. cbn [List.length] in Hf2. destruct fuel2 as [|f2]; [lia|]. reflexivity.
  - cbn [chunk_enc] in *.
    destruct (match sizes with
              | [] => match all with [] => (15, []) | a :: r => (a, r) end
              | a :: r => (a, r) end) as [sz rs].
    set (sz' := if sz =? 0 then 1 else if 15 <? sz then 15 else sz) in *.
    assert (Hsz : 1 <= sz' <= 15).
    { unfold sz'. destruct (sz =? 0) eqn:E0; [lia|]. apply Nat.eqb_neq in E0.
      destruct (15 <? sz) eqn:E1; [lia|]. apply Nat.ltb_ge in E1. lia. }
    set (n := Nat.min sz' (List.length (b :: d))) in *.
    assert (Hn : 1 <= n <= 15 /\ n <= List.length (b :: d)).
    { unfold n. cbn [List.length]. lia. }
    set (rec := chunk_enc fuel rs all (skipn n (b :: d))) in *.
    assert (Lf : List.length (firstn n (b :: d)) = n) by (rewrite firstn_length; lia).
    clearbody n. clear sz' Hsz.
    cbn [app] in *. cbn [List.length] in Hf2. rewrite app_length in Hf2. cbn [List.length] in Hf2. rewrite Lf in Hf2.
    destruct fuel2 as [|f2]; [lia|]. cbn [dechunk].
    rewrite (hexval_hexdigit n) by lia.
    destruct n as [|m]; [lia|].
    rewrite (firstn_app_exact (S m) _ _ Lf), (skipn_app_exact (S m) _ _ Lf), Lf, Nat.ltb_irrefl.
    assert (R : dechunk f2 rec = (skipn (S m) (b :: d), true)).
    { unfold rec. apply IH.
      - rewrite skipn_length. cbn [List.length] in *. lia.
      - fold rec. lia. }
    rewrite R. now rewrite firstn_skipn.
Qed.

Lemma body_wire_roundtrip : forall r,
  q_framing r = FChunked ->
  dechunk (S (List.length (body_wire r))) (body_wire r) = (q_body r, true).
Proof.
  intros r F. unfold body_wire. rewrite F. apply dechunk_chunk_enc; lia.
Qed.

(* a complete chunked response is classified complete (a cut at or beyond the end is no cut) *)
Lemma cut_at_end_is_complete : forall e k,
  x_out e = OCut k -> x_connect e = false ->
  q_headlen (x_resp e) + List.length (body_wire (x_resp e)) <= k ->
  q_framing (x_resp e) <> FCloseDelimited ->
  classify e = UComplete.
Proof.
  intros e k Ho Hc Hk Hx. unfold classify. rewrite Ho, Hc.
  destruct (k <? q_headlen (x_resp e)) eqn:L; [apply Nat.ltb_lt in L; lia|].
  destruct (x_head e); [reflexivity|].
  unfold body_wire in *. destruct (q_framing (x_resp e)) eqn:F; try reflexivity.
  - destruct (List.length (q_body (x_resp e)) <=? k - q_headlen (x_resp e)) eqn:E; [reflexivity|].
    apply Nat.leb_gt in E. lia.
  - destruct (List.length (chunk_enc (S (List.length (q_body (x_resp e)))) (q_sizes (x_resp e)) (q_sizes (x_resp e)) (q_body (x_resp e)))
              <=? k - q_headlen (x_resp e)) eqn:E; [reflexivity|].
    apply Nat.leb_gt in E. lia.
Qed.
