(* C03 — upstream failures become 502s or clean closes, never a desync.
   Definitions only.

   A script is a list of exchanges on ONE client connection.  Each exchange
   carries the client's request (only what matters here: an identifying
   marker, HEAD or not, whether the client asks to close), the response the
   origin would send, and what the origin actually does ([outcome]): answer
   completely, refuse the connection, close after the first k bytes of its
   response, or send bytes that are not HTTP.

   [handle3] is the model of Proxy.handle (proxy.go:442-585) on that exchange:
   what it writes to the client connection and whether it then closes it.
   Its flag [close_on_write_error] selects the repaired code (true: any
   error of res.Write / Flush closes the client connection) or the code as it
   was (false: proxy.go:570-584 only closed for trafficshape.ErrForceClose).

   What the proxy writes is a stream of symbols, each tagged with the index
   of the exchange that produced it.  A response head is one atomic symbol
   (the proxy only ever writes complete heads: it builds them from a parsed
   upstream head or synthesises a 502), body bytes are individual symbols and
   so are chunk-size lines.  [client_parse] is an HTTP/1.1 client's framing
   parser over that stream (Content-Length, chunked, close-delimited,
   bodiless).  It takes whatever symbol comes next when it needs a body byte,
   so "bytes of a later response delivered as part of an earlier one" is a
   parsed response that consumed a symbol carrying a foreign tag. *)

From Coq Require Import List NArith Bool Arith Ascii String.
From Martian.C01 Require Import Model.
Import ListNotations.

(* ---------------------------------------------------------------- script *)

Inductive outcome :=
| OOk                     (* the origin answers completely (CONNECT: the dial succeeds, a tunnel is set up) *)
| ORefused                (* the dial fails with an ordinary error (connection refused, no such host) *)
| OTimeout                (* the dial fails with a timeout: a net.Error that isCloseable() accepts *)
| OCut (k : nat)
| OGarbage.

Record resp3 := mkResp3
  { q_status : N;
    q_framing : framing;           (* FCL / FChunked / FCloseDelimited / FBodiless, from C01 *)
    q_body : list ascii;
    q_sizes : list nat;            (* origin's chunk sizes, 1..15, cycled (chunked only) *)
    q_close : bool;                (* the origin's head says Connection: close *)
    q_headlen : nat }.             (* length in bytes of the origin's response head *)

Record exch3 := mkEx3
  { x_id : N;
    x_head : bool;                 (* HEAD request *)
    x_connect : bool;              (* CONNECT request (no MITM): handleConnectRequest *)
    x_reqclose : bool;             (* req.Close: Connection: close, or HTTP/1.0 without keep-alive *)
    x_out : outcome;
    x_resp : resp3;
    x_rechunk : list nat }.        (* how the proxy happens to re-chunk what it relays: any list *)

(* the client expects no body whatever the head says *)
Definition x_nobody (e : exch3) : bool := (x_head e || x_connect e)%bool.

(* ---------------------------------------------------------------- origin bytes *)

Definition CR : ascii := "013".
Definition LF : ascii := "010".

Definition hexdigit (n : nat) : ascii :=
  ascii_of_nat (if n <? 10 then 48 + n else 87 + n).

(* p1x.ChunkEncode for sizes 1..15: one hex digit, CRLF, data, CRLF *)
Fixpoint chunk_enc (fuel : nat) (sizes all : list nat) (data : list ascii) : list ascii :=
  match fuel with
  | 0 => []
  | S fuel' =>
      match data with
      | [] => ["0"%char; CR; LF; CR; LF]
      | _ =>
          let '(sz, rest_sizes) := match sizes with
                                   | [] => match all with [] => (15, []) | a :: r => (a, r) end
                                   | a :: r => (a, r) end in
          let sz := if (sz =? 0) then 1 else if (15 <? sz) then 15 else sz in
          let n := Nat.min sz (List.length data) in
          (hexdigit n :: CR :: LF :: firstn n data) ++ CR :: LF :: chunk_enc fuel' rest_sizes all (skipn n data)
      end
  end.

Definition body_wire (r : resp3) : list ascii :=
  match q_framing r with
  | FCL | FCloseDelimited => q_body r
  | FChunked => chunk_enc (S (List.length (q_body r))) (q_sizes r) (q_sizes r) (q_body r)
  | FBodiless => []
  end.

(* net/http's chunked reader on a truncated stream: the data bytes it hands
   over before it reports the error, and whether it saw the terminating
   "0 CRLF CRLF". *)
Definition hexval (c : ascii) : option nat :=
  let n := nat_of_ascii c in
  if (48 <=? n) && (n <=? 57) then Some (n - 48)
  else if (97 <=? n) && (n <=? 102) then Some (n - 87) else None.

Fixpoint dechunk (fuel : nat) (w : list ascii) : list ascii * bool :=
  match fuel with
  | 0 => ([], false)
  | S fuel' =>
      match w with
      | d :: c1 :: c2 :: rest =>
          match hexval d with
          | Some 0 => match rest with
                      | c3 :: c4 :: _ => ([], true)
                      | _ => ([], false)
                      end
          | Some n =>
              let data := firstn n rest in
              if List.length data <? n then (data, false)
              else match skipn n rest with
                   | _ :: _ :: rest' => let '(d', ok) := dechunk fuel' rest' in (data ++ d', ok)
                   | _ => (data, false)
                   end
          | None => ([], false)
          end
      | _ => ([], false)
      end
  end.

(* what the transport makes of the origin's behaviour *)
Inductive upstream :=
| UFail                                   (* RoundTrip returns an error: no complete head *)
| UComplete                               (* whole response *)
| UPartial (delivered : list ascii).      (* head, then a body read error after these bytes *)

Definition classify (e : exch3) : upstream :=
  let r := x_resp e in
  match x_out e with
  | ORefused | OTimeout | OGarbage => UFail
  | OOk => UComplete
  | OCut k =>
      if x_connect e then UComplete      (* not a script: excluded by [wf3] *)
      else if k <? q_headlen r then UFail
      else if x_head e then UComplete
      else
        let j := k - q_headlen r in
        match q_framing r with
        | FBodiless => UComplete
        | FCloseDelimited => UComplete   (* excluded by [wf3]: truncation is undetectable by construction *)
        | FCL => if List.length (q_body r) <=? j then UComplete else UPartial (firstn j (q_body r))
        | FChunked =>
            let w := body_wire r in
            if List.length w <=? j then UComplete
            else UPartial (fst (dechunk (S (List.length w)) (firstn j w)))
        end
  end.

(* ---------------------------------------------------------------- what the proxy writes *)

Inductive hkind :=
| H502 (warning : bool) (via_resmod : bool)   (* synthetic 502; Warning present; seen by the response modifier *)
| HRelay (st : N) (via_resmod : bool)         (* the origin's head *)
| HConnect (via_resmod : bool).               (* 200 to a CONNECT whose dial succeeded; a blind tunnel follows *)

Inductive cframing := CCL (n : nat) | CChunked | CClose | CNone.

Record head := mkHead { h_kind : hkind; h_id : N; h_framing : cframing }.

Inductive wsym :=
| WHead (h : head)
| WByte (b : ascii)
| WChunk (n : nat).          (* chunk-size line; 0 = last chunk and final CRLF *)

Definition tagged := (nat * wsym)%type.

(* split data into non-empty chunks following [sizes]; what is left goes in one chunk *)
Fixpoint pieces (sizes : list nat) (data : list ascii) : list (list ascii) :=
  match data with
  | [] => []
  | _ =>
      match sizes with
      | [] => [data]
      | n :: ss => if n =? 0 then [data]
                   else firstn n data :: pieces ss (skipn n data)
      end
  end.

Definition chunk_syms (ps : list (list ascii)) : list wsym :=
  flat_map (fun p => WChunk (List.length p) :: map WByte p) ps.

Definition relay_framing (e : exch3) : cframing :=
  if x_nobody e then CNone
  else match q_framing (x_resp e) with
       | FCL => CCL (List.length (q_body (x_resp e)))
       | FChunked => CChunked
       | FCloseDelimited => CClose
       | FBodiless => CNone
       end.

Definition asks_close (e : exch3) : bool :=
  (x_reqclose e || q_close (x_resp e)
   || (negb (x_nobody e) && match q_framing (x_resp e) with FCloseDelimited => true | _ => false end)
   || x_connect e)%bool.     (* after a successful CONNECT the connection is a tunnel: no further proxy responses *)

Definition body_syms (e : exch3) (data : list ascii) (terminated : bool) : list wsym :=
  match relay_framing e with
  | CCL _ | CClose => map WByte data
  | CChunked => chunk_syms (pieces (x_rechunk e) data) ++ (if terminated then [WChunk 0] else [])
  | CNone => []
  end.

Definition relay_kind (e : exch3) : hkind :=
  if x_connect e then HConnect true else HRelay (q_status (x_resp e)) true.

(* Proxy.handle: (symbols written, connection closed afterwards) *)
Definition handle3 (close_on_write_error : bool) (e : exch3) : list wsym * bool :=
  match classify e with
  | UFail =>
      (* proxy.go:504-508: 502 + Warning, then the response modifier, Content-Length: 0 *)
      (* failed CONNECT (proxy.go handleConnectRequest): same 502, and the loop goes on
         whatever the dial error was *)
      ([WHead (mkHead (H502 true true) (x_id e) (if x_head e then CNone else CCL 0))],
       if x_connect e then false else x_reqclose e)
  | UComplete =>
      (WHead (mkHead (relay_kind e) (x_id e) (relay_framing e))
         :: body_syms e (q_body (x_resp e)) true,
       asks_close e)
  | UPartial d =>
      (WHead (mkHead (relay_kind e) (x_id e) (relay_framing e))
         :: body_syms e d false,
       (asks_close e || close_on_write_error)%bool)
  end.

Definition tag (i : nat) (l : list wsym) : list tagged := map (fun y => (i, y)) l.

(* handleLoop from exchange number i on: the stream written and whether the proxy closed *)
Fixpoint conn_stream (fx : bool) (i : nat) (es : list exch3) : list tagged * bool :=
  match es with
  | [] => ([], false)
  | e :: es' =>
      let '(syms, cl) := handle3 fx e in
      if cl then (tag i syms, true)
      else let '(rest, c) := conn_stream fx (S i) es' in (tag i syms ++ rest, c)
  end.

(* ---------------------------------------------------------------- the client's parser *)

Inductive pstate := PComplete | PIncomplete | PStarved | PMalformed.

Record presp := mkP
  { p_head : option head;
    p_body : list ascii;
    p_tags : list nat;        (* tags of every symbol consumed for this response *)
    p_state : pstate }.

Inductive mode := MHead | MCL (n : nat) | MChunkHdr | MChunkData (n : nat) | MClose | MDead.

Record parser := mkParser
  { pm : mode;
    cur_head : option head;
    cur_body : list ascii;     (* reversed *)
    cur_tags : list nat;       (* reversed *)
    done : list presp;         (* reversed *)
    meths : list bool }.       (* HEAD? for the requests not yet answered *)

Definition finish (p : parser) (st : pstate) (m : mode) : parser :=
  mkParser m None [] []
    (mkP (cur_head p) (rev (cur_body p)) (rev (cur_tags p)) st :: done p) (meths p).

Definition sym_byte (y : wsym) : ascii :=
  match y with WByte b => b | _ => "?"%char end.

Definition pstep (p : parser) (ty : tagged) : parser :=
  let '(t, y) := ty in
  match pm p with
  | MDead => p
  | MHead =>
      match y with
      | WHead h =>
          let is_head := match meths p with b :: _ => b | [] => false end in
          let p1 := mkParser MHead (Some h) [] [t] (done p) (tl (meths p)) in
          if is_head then finish p1 PComplete MHead
          else match h_framing h with
               | CNone | CCL 0 => finish p1 PComplete MHead
               | CCL n => mkParser (MCL n) (Some h) [] [t] (done p) (tl (meths p))
               | CChunked => mkParser MChunkHdr (Some h) [] [t] (done p) (tl (meths p))
               | CClose => mkParser MClose (Some h) [] [t] (done p) (tl (meths p))
               end
      | _ => finish (mkParser MHead None [] [t] (done p) (meths p)) PMalformed MDead
      end
  | MCL n =>
      let p1 := mkParser (MCL (pred n)) (cur_head p) (sym_byte y :: cur_body p) (t :: cur_tags p) (done p) (meths p) in
      if n <=? 1 then finish p1 PComplete MHead else p1
  | MChunkHdr =>
      match y with
      | WChunk 0 => finish (mkParser MHead (cur_head p) (cur_body p) (t :: cur_tags p) (done p) (meths p)) PComplete MHead
      | WChunk n => mkParser (MChunkData n) (cur_head p) (cur_body p) (t :: cur_tags p) (done p) (meths p)
      | _ => finish (mkParser MHead (cur_head p) (cur_body p) (t :: cur_tags p) (done p) (meths p)) PMalformed MDead
      end
  | MChunkData n =>
      mkParser (if n <=? 1 then MChunkHdr else MChunkData (pred n))
               (cur_head p) (sym_byte y :: cur_body p) (t :: cur_tags p) (done p) (meths p)
  | MClose =>
      mkParser MClose (cur_head p) (sym_byte y :: cur_body p) (t :: cur_tags p) (done p) (meths p)
  end.

(* end of input: the connection was closed by the proxy, or is still open and silent *)
Definition pfinal (closed : bool) (p : parser) : list presp :=
  match pm p with
  | MHead | MDead => rev (done p)
  | MClose => rev (done (finish p (if closed then PComplete else PStarved) MDead))
  | _ => rev (done (finish p (if closed then PIncomplete else PStarved) MDead))
  end.

Definition parser0 (ms : list bool) : parser := mkParser MHead None [] [] [] ms.

Definition client_parse (ms : list bool) (stream : list tagged) (closed : bool) : list presp :=
  pfinal closed (fold_left pstep stream (parser0 ms)).

Definition client_view (fx : bool) (es : list exch3) : list presp * bool :=
  let '(st, c) := conn_stream fx 0 es in
  (client_parse (map x_nobody es) st c, c).

(* ---------------------------------------------------------------- specification *)

Definition closes3 (e : exch3) : bool := snd (handle3 true e).

Fixpoint served3 (es : list exch3) : list exch3 :=
  match es with
  | [] => []
  | e :: es' => if closes3 e then [e] else e :: served3 es'
  end.

(* what a client must see for exchange number i *)
Definition expected (i : nat) (e : exch3) : presp :=
  let hd := match classify e with
            | UFail => mkHead (H502 true true) (x_id e) (if x_head e then CNone else CCL 0)
            | _ => mkHead (relay_kind e) (x_id e) (relay_framing e)
            end in
  let '(data, st) :=
    match classify e with
    | UFail => ([], PComplete)
    | UComplete => (match relay_framing e with CNone => [] | _ => q_body (x_resp e) end, PComplete)
    | UPartial d => (d, PIncomplete)
    end in
  let ntags := match classify e with
               | UFail => 1
               | UComplete => S (List.length (body_syms e (q_body (x_resp e)) true))
               | UPartial d => S (List.length (body_syms e d false))
               end in
  mkP (Some hd) data (repeat i ntags) st.

Fixpoint expected_from (i : nat) (es : list exch3) : list presp :=
  match es with
  | [] => []
  | e :: es' => expected i e :: expected_from (S i) es'
  end.

Definition spec_view (es : list exch3) : list presp * bool :=
  (expected_from 0 (served3 es), existsb closes3 es).

(* well-formed scripts: truncation only of Content-Length / chunked / bodiless
   responses (a close-delimited body has no detectable end by construction);
   chunk sizes are recorded consistently; the head length is positive. *)
Definition wf3 (e : exch3) : bool :=
  (match x_out e, q_framing (x_resp e) with
   | OCut _, FCloseDelimited => false
   | _, _ => true
   end
   && negb (x_connect e && (x_head e || x_reqclose e
                            || match x_out e with OCut _ | OGarbage => true | _ => false end)))%bool.

(* ---------------------------------------------------------------- observation and oracle *)

(* what the harness reports per response parsed by its independent client *)
Record oresp := mkO
  { o_status : N;
    o_id : option N;            (* the X-Ex marker, None if absent *)
    o_warning : bool;           (* a Warning header is present *)
    o_resmod : option (N * bool); (* the response modifier's stamp: status it saw, Warning it saw *)
    o_body : list ascii;
    o_state : pstate }.

Definition state_eqb (a b : pstate) : bool :=
  match a, b with
  | PComplete, PComplete | PIncomplete, PIncomplete | PStarved, PStarved | PMalformed, PMalformed => true
  | _, _ => false
  end.

(* projection of a model response to the observable *)
Definition project (p : presp) : oresp :=
  match p_head p with
  | Some (mkHead (H502 w v) id _) => mkO 502 None w (if v then Some (502%N, w) else None) (p_body p) (p_state p)
  | Some (mkHead (HRelay st v) id _) => mkO st (Some id) false (if v then Some (st, false) else None) (p_body p) (p_state p)
  | Some (mkHead (HConnect v) id _) => mkO 200 None false (if v then Some (200%N, false) else None) (p_body p) (p_state p)
  | None => mkO 0 None false None (p_body p) (p_state p)
  end.

Definition optN_eqb (a b : option N) : bool :=
  match a, b with Some x, Some y => N.eqb x y | None, None => true | _, _ => false end.

Definition stamp_eqb (a b : option (N * bool)) : bool :=
  match a, b with
  | Some (x, u), Some (y, v) => (N.eqb x y && Bool.eqb u v)%bool
  | None, None => true
  | _, _ => false
  end.

Definition oresp_eqb (a b : oresp) : bool :=
  (N.eqb (o_status a) (o_status b) && optN_eqb (o_id a) (o_id b) && Bool.eqb (o_warning a) (o_warning b)
   && stamp_eqb (o_resmod a) (o_resmod b) && str_eqb (o_body a) (o_body b)
   && state_eqb (o_state a) (o_state b))%bool.

(* ---------------------------------------------------------------- the Warning header *)

Definition DQ : ascii := "034".
Definition BS : ascii := "092".
Definition SP : ascii := " ".

Definition qdtext (c : ascii) : bool :=
  let n := nat_of_ascii c in
  ((n =? 9) || ((32 <=? n) && negb (n =? 34) && negb (n =? 92) && negb (n =? 127)))%bool.

(* what may follow a backslash: HTAB / SP / VCHAR / obs-text *)
Definition qpchar (c : ascii) : bool :=
  let n := nat_of_ascii c in ((n =? 9) || ((32 <=? n) && negb (n =? 127)))%bool.

(* after the opening quote: qdtext and quoted-pairs up to the closing quote; returns what follows it *)
Fixpoint scan_qs (esc : bool) (x : list ascii) : option (list ascii) :=
  match x with
  | [] => None
  | c :: x' =>
      if esc then (if qpchar c then scan_qs false x' else None)
      else if Ascii.eqb c DQ then Some x'
      else if Ascii.eqb c BS then scan_qs true x'
      else if qdtext c then scan_qs false x' else None
  end.

Definition is_digit (c : ascii) : bool := let n := nat_of_ascii c in ((48 <=? n) && (n <=? 57))%bool.

Fixpoint span_agent (x : list ascii) : list ascii * list ascii :=
  match x with
  | c :: x' => if (Ascii.eqb c SP || negb (qpchar c))%bool then ([], x)
               else let '(a, r) := span_agent x' in (c :: a, r)
  | [] => ([], [])
  end.

(* RFC 7234 5.5: warn-code SP warn-agent SP warn-text [ SP warn-date ],
   warn-text and warn-date quoted strings *)
Definition warning_ok (v : list ascii) : bool :=
  match v with
  | d1 :: d2 :: d3 :: s1 :: rest =>
      if (is_digit d1 && is_digit d2 && is_digit d3 && Ascii.eqb s1 SP)%bool then
        match span_agent rest with
        | (_ :: _, s2 :: q :: rest2) =>
            if (Ascii.eqb s2 SP && Ascii.eqb q DQ)%bool then
              match scan_qs false rest2 with
              | Some [] => true
              | Some (s3 :: q2 :: rest3) =>
                  if (Ascii.eqb s3 SP && Ascii.eqb q2 DQ)%bool then
                    match scan_qs false rest3 with Some [] => true | _ => false end
                  else false
              | _ => false
              end
            else false
        | _ => false
        end
      else false
  | _ => false
  end.

(* model of fmt's %q on the bytes of an error text: quote and backslash get a
   backslash, control bytes become \xHH, everything else stands for itself *)
Definition hex_hi (c : ascii) : ascii := hexdigit (nat_of_ascii c / 16).
Definition hex_lo (c : ascii) : ascii := hexdigit (nat_of_ascii c mod 16).

Definition quote_char (c : ascii) : list ascii :=
  if Ascii.eqb c DQ then [BS; DQ]
  else if Ascii.eqb c BS then [BS; BS]
  else if qdtext c && negb (nat_of_ascii c =? 9) then [c]
  else [BS; "x"%char; hex_hi c; hex_lo c].

Definition go_quote (x : list ascii) : list ascii := DQ :: flat_map quote_char x ++ [DQ].

(* proxyutil.Warning: 199 "martian" %q %q *)
Definition warning_value (errtext date : list ascii) : list ascii :=
  list_ascii_of_string "199 ""martian"" " ++ go_quote errtext ++ SP :: go_quote date.

(* what the harness reports before projection: all Warning values as received *)
Record rawresp := mkRaw
  { w_status : N; w_id : option N; w_warnings : list (list ascii);
    w_resmod : option (N * bool); w_rbody : list ascii; w_state : pstate }.

(* "carries a Warning header": at least one, and every one is well-formed *)
Definition observe (r : rawresp) : oresp :=
  mkO (w_status r) (w_id r)
      (match w_warnings r with [] => false | _ => forallb warning_ok (w_warnings r) end)
      (w_resmod r) (w_rbody r) (w_state r).

(* the property oracle: the client saw exactly what the specification allows *)
Definition c03_ok (es : list exch3) (obs : list oresp * bool) : bool :=
  (forall2b oresp_eqb (map project (fst (spec_view es))) (fst obs)
   && Bool.eqb (snd (spec_view es)) (snd obs))%bool.

Definition c03_ok_raw (es : list exch3) (obs : list rawresp * bool) : bool :=
  c03_ok es (map observe (fst obs), snd obs).

(* clause-level pieces used by the driver to name what failed *)
Definition own_tags_only (ps : list presp) : bool :=
  forallb (fun ip => forallb (Nat.eqb (fst ip)) (p_tags (snd ip))) (combine (seq 0 (List.length ps)) ps).

Definition model_obs (fx : bool) (es : list exch3) : list oresp * bool :=
  let '(ps, c) := client_view fx es in (map project ps, c).
