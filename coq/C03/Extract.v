From Coq Require Import ExtrOcamlBasic ExtrOcamlString.
From Martian.Common Require Import ExtractBase.
From Martian.C03 Require Import Model.
Extraction Language OCaml.
Extraction "model.ml" base_anchor c03_ok spec_view model_obs client_view project oresp_eqb
  own_tags_only classify handle3 served3 expected wf3 body_wire c03_ok_raw observe warning_ok warning_value.
