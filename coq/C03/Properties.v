(* C03 — property theorems.  Statements closed by [exact] only.

   [handle3 fx e]      what Proxy.handle writes to the client for exchange e and
                       whether it then closes the connection (fx = true: the
                       repaired code, any response write error closes).
   [conn_stream fx 0 es]  everything the proxy writes on one client connection
                       whose script is es, every symbol tagged with the index of
                       the exchange that produced it, and whether it closed.
   [client_view fx es] what an HTTP/1.1 client parses out of that stream.
   [classify e]        UFail: the upstream failure precedes a complete response
                       head; UPartial d: head complete, body ends early after d;
                       UComplete. *)
From Coq Require Import List NArith Bool Arith Ascii String.
From Martian.C01 Require Import Model.
From Martian.C01 Require Import Proofs_Sched.
From Martian.C03 Require Import Model Proofs Proofs_Audit.
Import ListNotations.

(* A failure before a complete response head — connection refused, non-HTTP
   bytes, or a close at any offset inside the head — is answered with exactly
   one well-formed 502 that carries a Warning header and has been through the
   response modifier; the connection is kept unless the client asked to close. *)
Theorem C03_pre_head_failure_is_502_via_resmod : forall fx e,
  classify e = UFail ->
  handle3 fx e = ([WHead (mkHead (H502 true true) (x_id e) (if x_head e then CNone else CCL 0))],
                  if x_connect e then false else x_reqclose e).
Proof. exact pre_head_is_502. Qed.
Print Assumptions C03_pre_head_failure_is_502_via_resmod.

Theorem C03_pre_head_failure_characterised : forall e,
  classify e = UFail <->
  x_out e = ORefused \/ x_out e = OTimeout \/ x_out e = OGarbage \/
  exists k, x_out e = OCut k /\ x_connect e = false /\ k < q_headlen (x_resp e).
Proof. exact classify_fail_iff. Qed.
Print Assumptions C03_pre_head_failure_characterised.

(* After such a 502 the same client connection goes on: the proxy's output is
   the 502 followed by what it writes for the rest of the script, and the
   client parses the 502 as a complete response followed by exactly the
   responses the rest of the script calls for. *)
Theorem C03_502_then_connection_still_serves : forall e es,
  classify e = UFail -> stays_open_after_502 e ->
  (forall fx i, conn_stream fx i (e :: es) =
     (tag i [WHead (mkHead (H502 true true) (x_id e) (if x_head e then CNone else CCL 0))]
        ++ fst (conn_stream fx (S i) es),
      snd (conn_stream fx (S i) es))) /\
  fst (client_view true (e :: es)) = expected 0 e :: expected_from 1 (served3 es) /\
  p_state (expected 0 e) = PComplete.
Proof. exact after_502_all. Qed.
Print Assumptions C03_502_then_connection_still_serves.

(* Every dial outcome of a (non-MITM) CONNECT other than success — refused, no
   such host, timeout — is answered with that 502 and the connection is kept,
   whatever kind of error the dial returned. *)
Theorem C03_connect_dial_failure_is_502_connection_kept : forall fx e,
  x_connect e = true -> (x_out e = ORefused \/ x_out e = OTimeout) ->
  handle3 fx e = ([WHead (mkHead (H502 true true) (x_id e) (if x_head e then CNone else CCL 0))], false).
Proof. exact connect_dial_failure. Qed.
Print Assumptions C03_connect_dial_failure_is_502_connection_kept.

(* The Warning value proxyutil.Warning builds (199 "martian" %q %q) is
   well-formed per RFC 7234 5.5 for EVERY error text and date, whatever bytes
   the origin managed to get echoed into the error: quotes, backslashes,
   control bytes. *)
Theorem C03_warning_wellformed : forall errtext date,
  warning_ok (warning_value errtext date) = true.
Proof. exact warning_value_wellformed. Qed.
Print Assumptions C03_warning_wellformed.

(* ... and the grammar check is not vacuous: an unescaped quote is rejected *)
Theorem C03_warning_check_rejects_unescaped_quote :
  warning_ok (list_ascii_of_string "199 ""martian"" ""malformed HTTP response ""SSH-2.0"""" ""Thu, 01 Jan 1970 00:00:00 GMT""") = false.
Proof. exact unquoted_text_rejected. Qed.

(* For EVERY script (any mixture of failures, any truncation offset, any
   re-chunking by the proxy) the k-th response a client parses out of the
   repaired proxy's output consumed only symbols written for exchange k: bytes
   of a later response are never delivered as part of an earlier one. *)
Theorem C03_no_cross_response_bytes : forall es k p,
  nth_error (fst (client_view true es)) k = Some p ->
  forall t, In t (p_tags p) -> t = k.
Proof. exact no_cross. Qed.
Print Assumptions C03_no_cross_response_bytes.

(* A response that is not complete is detectably incomplete (the framing
   promised more), it is the last thing on the connection, and the proxy closed
   the connection after it. *)
Theorem C03_incomplete_then_close : forall es k p,
  nth_error (fst (client_view true es)) k = Some p -> p_state p <> PComplete ->
  S k = List.length (fst (client_view true es)) /\ snd (client_view true es) = true /\ p_state p = PIncomplete.
Proof. exact incomplete_is_last_and_closed. Qed.
Print Assumptions C03_incomplete_then_close.

(* Refinement: what the client parses is exactly the specification — one
   expected response per served exchange, in order, and the connection is
   closed iff some exchange closes it. *)
Theorem C03_client_view_is_spec : forall es, client_view true es = spec_view es.
Proof. exact client_view_is_spec. Qed.
Print Assumptions C03_client_view_is_spec.

(* D2, the code as it was (write errors only logged): Content-Length 10, the
   origin closes after 3 body bytes, next exchange on the same connection.  The
   client's first response swallows the head and body of the second. *)
Theorem C03_no_cross_response_bytes_refuted :
  exists p, nth_error (fst (client_view false [d2_first; d2_second])) 0 = Some p /\
            In 1 (p_tags p) /\
            p_body p = list_ascii_of_string "abc?NEXT!" /\
            snd (client_view false [d2_first; d2_second]) = false.
Proof. exact d2_desync. Qed.
Print Assumptions C03_no_cross_response_bytes_refuted.

(* The executable oracle evaluated on the real proxy's observation is equality
   with the (projected) specification. *)
Theorem C03_oracle_is_the_property : forall es obs,
  c03_ok es obs = true <-> obs = (map project (fst (spec_view es)), snd (spec_view es)).
Proof. exact c03_ok_iff. Qed.
Print Assumptions C03_oracle_is_the_property.

(* the same on the raw observation (all Warning values as received): "carries a
   Warning" means at least one value and every value well-formed *)
Theorem C03_raw_oracle_is_the_property : forall es raws c,
  c03_ok_raw es (raws, c) = true <->
  (map observe raws, c) = (map project (fst (spec_view es)), snd (spec_view es)).
Proof. exact c03_ok_raw_iff. Qed.
Print Assumptions C03_raw_oracle_is_the_property.

Theorem C03_model_satisfies_oracle : forall es, c03_ok es (model_obs true es) = true.
Proof. exact model_obs_ok. Qed.
Print Assumptions C03_model_satisfies_oracle.

(* "Whatever an origin does ... the client receives EITHER a 502 ... OR a
   detectably incomplete response followed by close": every response the
   client parses is exactly one of three things, decided by where the failure
   fell, for every script. *)
Theorem C03_every_response_is_502_or_complete_or_incomplete_then_close : forall es k p,
  nth_error (fst (client_view true es)) k = Some p ->
  exists e, nth_error (served3 es) k = Some e /\
    match classify e with
    | UFail => is_502 e p
    | UComplete => is_relay e p
    | UPartial d => is_partial e d p /\ S k = List.length (fst (client_view true es)) /\ snd (client_view true es) = true
    end.
Proof. exact trichotomy. Qed.
Print Assumptions C03_every_response_is_502_or_complete_or_incomplete_then_close.

Theorem C03_partial_content_length_body_is_proper_prefix : forall e d,
  classify e = UPartial d -> q_framing (x_resp e) = FCL ->
  exists j, d = firstn j (q_body (x_resp e)) /\ j < List.length (q_body (x_resp e)).
Proof. exact partial_cl_is_prefix. Qed.
Print Assumptions C03_partial_content_length_body_is_proper_prefix.

(* Pipelined, partially pipelined or one at a time: for every arrival schedule
   of the client's requests (handleLoop serves one request at a time - the
   atomicity of LServe, as in C01), once nothing is left to do the client
   parses exactly the specified view out of what the proxy wrote. *)
Theorem C03_pipelining_changes_nothing : forall es ls st,
  srun (h03 true) (sinit (indexed 0 es)) ls = Some st -> quiescent st ->
  (client_parse (map x_nobody es) (List.concat (s_out st)) (s_closed st), s_closed st) = spec_view es.
Proof. exact c03_schedule_independent. Qed.
Print Assumptions C03_pipelining_changes_nothing.

(* The Warning check of the oracle IS the RFC 7234 grammar: a PROPFAIL
   warning_wellformed is a value outside it, an OK a value inside it. *)
Theorem C03_warning_check_is_the_grammar : forall v, warning_ok v = true <-> WarnValue v.
Proof. exact warning_ok_iff. Qed.
Print Assumptions C03_warning_check_is_the_grammar.

Theorem C03_quoted_string_scanner_is_the_grammar : forall x rest,
  scan_qs false x = Some rest <-> exists b, QBody b /\ x = b ++ DQ :: rest.
Proof. exact scan_qs_iff. Qed.
Print Assumptions C03_quoted_string_scanner_is_the_grammar.

Theorem C03_observed_warning_flag_is_the_clause : forall r,
  o_warning (observe r) = true <-> (w_warnings r <> [] /\ Forall WarnValue (w_warnings r)).
Proof. exact observe_warning_iff. Qed.
Print Assumptions C03_observed_warning_flag_is_the_clause.

(* Totalisation: the fuel of the chunked encoder / decoder in the model is
   sufficient - the origin's chunked body decodes to exactly its body, for
   every body and size list; a cut at or after the end is a complete response. *)
Theorem C03_chunked_body_round_trip : forall r,
  q_framing r = FChunked ->
  dechunk (S (List.length (body_wire r))) (body_wire r) = (q_body r, true).
Proof. exact body_wire_roundtrip. Qed.
Print Assumptions C03_chunked_body_round_trip.

Theorem C03_cut_at_end_is_complete : forall e k,
  x_out e = OCut k -> x_connect e = false ->
  q_headlen (x_resp e) + List.length (body_wire (x_resp e)) <= k ->
  q_framing (x_resp e) <> FCloseDelimited ->
  classify e = UComplete.
Proof. exact cut_at_end_is_complete. Qed.
Print Assumptions C03_cut_at_end_is_complete.

(* Non-vacuity: ok / cut inside the head / dial refused / cut inside a chunked
   body, on one connection. *)
Definition example3 : list exch3 :=
  [ mkEx3 1 false false false OOk (mkResp3 200 FCL (list_ascii_of_string "hello") [] false 48) [];
    mkEx3 2 false false false (OCut 20) (mkResp3 200 FCL (list_ascii_of_string "never seen") [] false 49) [];
    mkEx3 3 true false false ORefused (mkResp3 200 FBodiless [] [] false 40) [];
    mkEx3 6 false true false OTimeout (mkResp3 200 FBodiless [] [] false 40) [];
    mkEx3 4 false false false (OCut 62) (mkResp3 200 FChunked (list_ascii_of_string "abcdefghij") [4] false 57) [2; 1];
    mkEx3 5 false false false OOk (mkResp3 200 FCL (list_ascii_of_string "unreached") [] false 48) [] ].

Example C03_example :
  map classify example3 = [UComplete; UFail; UFail; UFail; UPartial (list_ascii_of_string "ab"); UComplete] /\
  map (fun p => (p_body p, p_state p, p_tags p)) (fst (client_view true example3)) =
    [ (list_ascii_of_string "hello", PComplete, [0; 0; 0; 0; 0; 0]);
      ([], PComplete, [1]); ([], PComplete, [2]); ([], PComplete, [3]);
      (list_ascii_of_string "ab", PIncomplete, [4; 4; 4; 4]) ] /\
  snd (client_view true example3) = true /\
  c03_ok example3 (model_obs true example3) = true.
Proof. vm_compute. repeat split; reflexivity. Qed.

(* Non-vacuity of the hypotheses above *)
Example C03_schedule_example :
  exists st, srun (h03 true) (sinit (indexed 0 example3))
                  [LArrive; LArrive; LArrive; LServe; LPartial; LArrive; LArrive; LServe; LArrive; LServe; LServe; LServe] = Some st /\
             quiescent st /\ s_closed st = true /\ List.length (s_out st) = 5 /\ List.length (s_pending st) = 1.
Proof. eexists. split; [vm_compute; reflexivity|]. vm_compute. repeat split; auto. Qed.

Example C03_warning_example :
  WarnValue (warning_value (list_ascii_of_string "malformed HTTP response ""x\y""")
                           (list_ascii_of_string "Thu, 01 Jan 1970 00:00:00 GMT")).
Proof. apply warning_ok_iff. apply warning_value_wellformed. Qed.

Example C03_cut_at_end_example :
  classify (mkEx3 1 false false false (OCut 66)
              (mkResp3 200 FChunked (list_ascii_of_string "ab") [1] false 49) []) = UComplete /\
  classify (mkEx3 1 false false false (OCut 63)
              (mkResp3 200 FChunked (list_ascii_of_string "ab") [1] false 49) []) = UPartial (list_ascii_of_string "ab") /\
  (exists j, list_ascii_of_string "abc" = firstn j (list_ascii_of_string "abcdefghij") /\ j < 10).
Proof.
  split; [vm_compute; reflexivity|]. split; [vm_compute; reflexivity|].
  exists 3. split; [reflexivity|]. cbn. repeat constructor.
Qed.

Example C03_partial_content_length_example :
  classify d2_first = UPartial (list_ascii_of_string "abc") /\ q_framing (x_resp d2_first) = FCL.
Proof. vm_compute. split; reflexivity. Qed.
