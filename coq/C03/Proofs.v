(* C03 — lemmas and proofs. *)
From Coq Require Import List NArith Bool Arith Ascii String Lia.
From Martian.C01 Require Import Model Proofs.
From Martian.C03 Require Import Model.
Import ListNotations.

(* ---------------------------------------------------------------- small facts *)

Lemma repeat_app_cons : forall {A} (x : A) n l, repeat x n ++ x :: l = x :: repeat x n ++ l.
Proof. intros A x n l. induction n as [|n IH]; cbn; [reflexivity|]. now rewrite IH. Qed.

Lemma fl_cons : forall (p : parser) x l, fold_left pstep (x :: l) p = fold_left pstep l (pstep p x).
Proof. reflexivity. Qed.

Lemma tag_app : forall i a b, tag i (a ++ b) = tag i a ++ tag i b.
Proof. intros. unfold tag. apply map_app. Qed.

Lemma tag_cons : forall i y l, tag i (y :: l) = (i, y) :: tag i l.
Proof. reflexivity. Qed.

Lemma pieces_nonempty : forall sizes data, Forall (fun x => x <> []) (pieces sizes data).
Proof.
  induction sizes as [|n ss IH]; intros [|b d]; cbn; try constructor; try discriminate; try constructor.
  destruct (n =? 0) eqn:E; [constructor; [discriminate|constructor]|].
  constructor.
  - destruct n; [discriminate|]. cbn. discriminate.
  - apply IH.
Qed.

Lemma pieces_concat : forall sizes data, List.concat (pieces sizes data) = data.
Proof.
  induction sizes as [|n ss IH]; intros [|b d]; cbn; try reflexivity.
  - now rewrite app_nil_r.
  - destruct (n =? 0) eqn:E; cbn [List.concat]; [now rewrite app_nil_r|].
    rewrite IH. apply (firstn_skipn n (b :: d)).
Qed.

(* ---------------------------------------------------------------- the parser on runs of body bytes *)

Lemma fold_cl : forall i data ch cb ct dn ms,
  data <> [] ->
  fold_left pstep (tag i (map WByte data)) (mkParser (MCL (List.length data)) ch cb ct dn ms) =
  mkParser MHead None [] [] (mkP ch (rev (rev data ++ cb)) (rev (repeat i (List.length data) ++ ct)) PComplete :: dn) ms.
Proof.
  intros i data. induction data as [|b d IH]; intros ch cb ct dn ms Hne; [congruence|].
  destruct d as [|b2 d].
  - cbn. reflexivity.
  - unfold tag in *. cbn [map]. rewrite fl_cons.
    change (pstep (mkParser (MCL (List.length (b :: b2 :: d))) ch cb ct dn ms) (i, WByte b))
      with (mkParser (MCL (List.length (b2 :: d))) ch (b :: cb) (i :: ct) dn ms).
    specialize (IH ch (b :: cb) (i :: ct) dn ms ltac:(discriminate)).
    cbn [map] in IH. rewrite IH. f_equal. f_equal. f_equal.
    + cbn [rev]. rewrite <- !app_assoc. reflexivity.
    + cbn [List.length repeat]. f_equal. cbn [app]. now rewrite repeat_app_cons.
Qed.

Lemma fold_cl_partial : forall i data n ch cb ct dn ms,
  List.length data < n ->
  fold_left pstep (tag i (map WByte data)) (mkParser (MCL n) ch cb ct dn ms) =
  mkParser (MCL (n - List.length data)) ch (rev data ++ cb) (repeat i (List.length data) ++ ct) dn ms.
Proof.
  intros i data. induction data as [|b d IH]; intros n ch cb ct dn ms Hlt.
  - cbn. now rewrite Nat.sub_0_r.
  - cbn [List.length] in Hlt. unfold tag in *. cbn [map]. rewrite fl_cons.
    assert (Hn : (n <=? 1) = false) by (apply Nat.leb_gt; lia).
    assert (S1 : pstep (mkParser (MCL n) ch cb ct dn ms) (i, WByte b) = mkParser (MCL (pred n)) ch (b :: cb) (i :: ct) dn ms).
    { cbn. now rewrite Hn. }
    rewrite S1, IH by lia. f_equal.
    + f_equal. cbn [List.length]. lia.
    + cbn [rev]. now rewrite <- app_assoc.
    + cbn [List.length repeat app]. now rewrite repeat_app_cons.
Qed.

Lemma fold_chunkdata : forall i data ch cb ct dn ms,
  data <> [] ->
  fold_left pstep (tag i (map WByte data)) (mkParser (MChunkData (List.length data)) ch cb ct dn ms) =
  mkParser MChunkHdr ch (rev data ++ cb) (repeat i (List.length data) ++ ct) dn ms.
Proof.
  intros i data. induction data as [|b d IH]; intros ch cb ct dn ms Hne; [congruence|].
  destruct d as [|b2 d].
  - cbn. reflexivity.
  - unfold tag in *. cbn [map]. rewrite fl_cons.
    change (pstep (mkParser (MChunkData (List.length (b :: b2 :: d))) ch cb ct dn ms) (i, WByte b))
      with (mkParser (MChunkData (List.length (b2 :: d))) ch (b :: cb) (i :: ct) dn ms).
    specialize (IH ch (b :: cb) (i :: ct) dn ms ltac:(discriminate)). cbn [map] in IH. rewrite IH. f_equal.
    + cbn [rev]. now rewrite <- !app_assoc.
    + cbn [List.length repeat app]. now rewrite repeat_app_cons.
Qed.

Lemma fold_chunks : forall i ps ch cb ct dn ms,
  Forall (fun x => x <> []) ps ->
  fold_left pstep (tag i (chunk_syms ps)) (mkParser MChunkHdr ch cb ct dn ms) =
  mkParser MChunkHdr ch (rev (List.concat ps) ++ cb) (repeat i (List.length (chunk_syms ps)) ++ ct) dn ms.
Proof.
  intros i ps. induction ps as [|x ps IH]; intros ch cb ct dn ms Hne; [reflexivity|].
  inversion Hne as [|? ? Hx Hps]; subst.
  unfold chunk_syms in *. cbn [flat_map]. rewrite tag_app, tag_cons, fold_left_app. cbn [fold_left].
  destruct x as [|b x]; [congruence|].
  change (pstep (mkParser MChunkHdr ch cb ct dn ms) (i, WChunk (List.length (b :: x))))
    with (mkParser (MChunkData (List.length (b :: x))) ch cb (i :: ct) dn ms).
  rewrite fold_chunkdata by discriminate. rewrite IH by assumption. f_equal.
  - cbn [List.concat]. rewrite rev_app_distr, <- app_assoc. reflexivity.
  - rewrite app_length. cbn [List.length]. rewrite map_length.
    rewrite Nat.add_comm. rewrite repeat_app. rewrite <- app_assoc. f_equal.
    change (S (List.length x)) with (List.length (b :: x)).
    cbn [List.length repeat app]. f_equal. now rewrite repeat_app_cons.
Qed.

Lemma fold_close : forall i data ch cb ct dn ms,
  fold_left pstep (tag i (map WByte data)) (mkParser MClose ch cb ct dn ms) =
  mkParser MClose ch (rev data ++ cb) (repeat i (List.length data) ++ ct) dn ms.
Proof.
  intros i data. induction data as [|b d IH]; intros ch cb ct dn ms; [reflexivity|].
  unfold tag in *. cbn [map]. rewrite fl_cons.
  change (pstep (mkParser MClose ch cb ct dn ms) (i, WByte b)) with (mkParser MClose ch (b :: cb) (i :: ct) dn ms).
  rewrite IH. f_equal.
  - cbn [rev]. now rewrite <- app_assoc.
  - cbn [List.length repeat app]. now rewrite repeat_app_cons.
Qed.

Lemma rev_repeat : forall {A} (x : A) n, rev (repeat x n) = repeat x n.
Proof.
  intros A x n. induction n as [|n IH]; [reflexivity|]. cbn [repeat rev]. rewrite IH.
  change [x] with (repeat x 1). rewrite <- repeat_app. now rewrite Nat.add_1_r.
Qed.

(* ---------------------------------------------------------------- one message *)

Definition clean (dn : list presp) (ms : list bool) : parser := mkParser MHead None [] [] dn ms.

(* Either the message is self-delimiting and the parser is back in its initial
   state with exactly the expected response recorded, or the proxy closes and
   end-of-input turns what is pending into exactly the expected response. *)
Lemma parse_msg : forall i e dn ms,
  let syms := fst (handle3 true e) in
  fold_left pstep (tag i syms) (clean dn (x_nobody e :: ms)) = clean (expected i e :: dn) ms
  \/ (snd (handle3 true e) = true /\
      pfinal true (fold_left pstep (tag i syms) (clean dn (x_nobody e :: ms))) = rev (expected i e :: dn)).
Proof.
  intros i e dn ms. unfold handle3, expected. destruct (classify e) as [| |d] eqn:C; cbn [fst snd].
  - (* 502 *)
    left. unfold clean, x_nobody. destruct (x_head e), (x_connect e); cbn; reflexivity.
  - (* complete relay *)
    unfold relay_framing, body_syms, relay_framing.
    destruct (x_nobody e) eqn:Hh.
    + left. unfold clean. cbn. reflexivity.
    + destruct (q_framing (x_resp e)) eqn:F.
      * (* Content-Length *)
        left. unfold clean. rewrite tag_cons. cbn [fold_left].
        destruct (q_body (x_resp e)) as [|b body] eqn:B.
        { cbn. reflexivity. }
        change (pstep (mkParser MHead None [] [] dn (false :: ms))
                  (i, WHead (mkHead (relay_kind e) (x_id e) (CCL (List.length (b :: body))))))
          with (mkParser (MCL (List.length (b :: body))) (Some (mkHead (relay_kind e) (x_id e) (CCL (List.length (b :: body))))) [] [i] dn ms).
        rewrite fold_cl by discriminate. f_equal. f_equal. f_equal.
        { now rewrite app_nil_r, rev_involutive. }
        { rewrite map_length. rewrite repeat_app_cons. cbn [app]. rewrite app_nil_r.
          change (i :: repeat i (List.length (b :: body))) with (repeat i (S (List.length (b :: body)))).
          apply rev_repeat. }
      * (* chunked *)
        left. unfold clean. rewrite tag_cons. cbn [fold_left].
        change (pstep (mkParser MHead None [] [] dn (false :: ms))
                  (i, WHead (mkHead (relay_kind e) (x_id e) CChunked)))
          with (mkParser MChunkHdr (Some (mkHead (relay_kind e) (x_id e) CChunked)) [] [i] dn ms).
        rewrite tag_app, fold_left_app.
        rewrite fold_chunks by apply pieces_nonempty. cbn [tag map fold_left].
        cbn [pstep pm cur_head cur_body cur_tags done meths]. unfold finish. cbn [cur_head cur_body cur_tags done meths].
        f_equal. f_equal. f_equal.
        { now rewrite pieces_concat, app_nil_r, rev_involutive. }
        { rewrite app_length. cbn [List.length]. rewrite Nat.add_1_r.
          set (k := List.length (chunk_syms (pieces (x_rechunk e) (q_body (x_resp e))))).
          rewrite repeat_app_cons. cbn [app]. rewrite app_nil_r.
          change (i :: i :: repeat i k) with (repeat i (S (S k))). apply rev_repeat. }
      * (* close-delimited: the proxy closes *)
        right. split; [unfold asks_close; rewrite Hh, F; cbn [negb andb]; rewrite orb_true_r; reflexivity|].
        unfold clean. rewrite tag_cons. cbn [fold_left].
        change (pstep (mkParser MHead None [] [] dn (false :: ms))
                  (i, WHead (mkHead (relay_kind e) (x_id e) CClose)))
          with (mkParser MClose (Some (mkHead (relay_kind e) (x_id e) CClose)) [] [i] dn ms).
        rewrite fold_close. unfold pfinal. cbn [pm]. unfold finish. cbn [done cur_head cur_body cur_tags meths]. cbn [rev].
        f_equal. f_equal. f_equal.
        { now rewrite app_nil_r, rev_involutive. }
        { rewrite map_length. rewrite repeat_app_cons. cbn [app]. rewrite app_nil_r.
          change (i :: repeat i (List.length (q_body (x_resp e)))) with (repeat i (S (List.length (q_body (x_resp e))))).
          apply rev_repeat. }
      * (* bodiless *)
        left. unfold clean. cbn. reflexivity.
  - (* partial: head, some body bytes, then the repaired proxy closes *)
    right. split; [now rewrite orb_true_r|].
    unfold classify in C.
    destruct (x_out e) as [| | |k|]; try discriminate.
    destruct (x_connect e) eqn:Hc; [discriminate|].
    destruct (k <? q_headlen (x_resp e)); [discriminate|].
    destruct (x_head e) eqn:Hh0; [discriminate|].
    assert (Hh : x_nobody e = false) by (unfold x_nobody; now rewrite Hh0, Hc).
    unfold relay_framing, body_syms, relay_framing. rewrite Hh.
    destruct (q_framing (x_resp e)) eqn:F; try discriminate.
    + (* Content-Length *)
      destruct (List.length (q_body (x_resp e)) <=? k - q_headlen (x_resp e)) eqn:L; [discriminate|].
      inversion C; subst d. clear C. apply Nat.leb_gt in L.
      set (j := k - q_headlen (x_resp e)) in *.
      assert (Ld : List.length (firstn j (q_body (x_resp e))) < List.length (q_body (x_resp e))).
      { rewrite firstn_length. lia. }
      unfold clean. rewrite tag_cons. cbn [fold_left].
      destruct (List.length (q_body (x_resp e))) as [|n] eqn:Ln; [lia|].
      change (pstep (mkParser MHead None [] [] dn (false :: ms))
                (i, WHead (mkHead (relay_kind e) (x_id e) (CCL (S n)))))
        with (mkParser (MCL (S n)) (Some (mkHead (relay_kind e) (x_id e) (CCL (S n)))) [] [i] dn ms).
      rewrite fold_cl_partial by exact Ld.
      unfold pfinal. cbn [pm]. unfold finish. cbn [done cur_head cur_body cur_tags meths]. cbn [rev].
      destruct (S n - List.length (firstn j (q_body (x_resp e)))) eqn:Z; [lia|].
      cbn [rev]. f_equal. f_equal. f_equal.
      { now rewrite app_nil_r, rev_involutive. }
      { rewrite map_length. rewrite repeat_app_cons. cbn [app]. rewrite app_nil_r.
        change (i :: repeat i (List.length (firstn j (q_body (x_resp e)))))
          with (repeat i (S (List.length (firstn j (q_body (x_resp e)))))).
        apply rev_repeat. }
    + (* chunked *)
      destruct (List.length (body_wire (x_resp e)) <=? k - q_headlen (x_resp e)); [discriminate|].
      clear C.
      unfold clean. rewrite tag_cons. cbn [fold_left].
      change (pstep (mkParser MHead None [] [] dn (false :: ms))
                (i, WHead (mkHead (relay_kind e) (x_id e) CChunked)))
        with (mkParser MChunkHdr (Some (mkHead (relay_kind e) (x_id e) CChunked)) [] [i] dn ms).
      rewrite app_nil_r. rewrite fold_chunks by apply pieces_nonempty.
      unfold pfinal. cbn [pm]. unfold finish. cbn [done cur_head cur_body cur_tags meths]. cbn [rev].
      f_equal. f_equal. f_equal.
      { now rewrite pieces_concat, app_nil_r, rev_involutive. }
      { set (kk := List.length (chunk_syms (pieces (x_rechunk e) d))).
        rewrite repeat_app_cons. cbn [app]. rewrite app_nil_r.
        change (i :: repeat i kk) with (repeat i (S kk)). apply rev_repeat. }
Qed.

(* ---------------------------------------------------------------- whole connections *)

Lemma pfinal_clean : forall c dn ms, pfinal c (clean dn ms) = rev dn.
Proof. reflexivity. Qed.

Lemma run_from : forall es i dn,
  let '(st, c) := conn_stream true i es in
  pfinal c (fold_left pstep st (clean dn (map x_nobody es))) = rev dn ++ expected_from i (served3 es)
  /\ c = existsb closes3 es.
Proof.
  induction es as [|e es IH]; intros i dn.
  - cbn [conn_stream map fold_left served3 expected_from existsb]. rewrite pfinal_clean. now rewrite app_nil_r.
  - cbn [conn_stream map served3 existsb].
    pose proof (parse_msg i e dn (map x_nobody es)) as PM. cbv zeta in PM.
    assert (Hc : closes3 e = snd (handle3 true e)) by reflexivity. rewrite Hc. clear Hc.
    destruct (handle3 true e) as [syms cl] eqn:H3. cbn [fst snd] in *.
    destruct cl.
    + cbn [expected_from orb]. split; [|reflexivity].
      destruct PM as [PM|[_ PM]]; rewrite PM; [rewrite pfinal_clean|]; cbn [rev]; reflexivity.
    + destruct PM as [PM|[X _]]; [|discriminate].
      specialize (IH (S i) (expected i e :: dn)).
      destruct (conn_stream true (S i) es) as [rest c] eqn:CS.
      destruct IH as [I1 I2]. rewrite fold_left_app, PM. split; [|now cbn].
      rewrite I1. cbn [rev expected_from]. now rewrite <- app_assoc.
Qed.

Lemma client_view_is_spec : forall es, client_view true es = spec_view es.
Proof.
  intro es. unfold client_view, spec_view, client_parse, parser0.
  pose proof (run_from es 0 []) as R. destruct (conn_stream true 0 es) as [st c].
  destruct R as [R1 R2]. unfold clean in R1. rewrite R1, R2. reflexivity.
Qed.

(* ---------------------------------------------------------------- consequences *)

Lemma expected_from_tags : forall es i k p,
  nth_error (expected_from i es) k = Some p -> forall t, In t (p_tags p) -> t = i + k.
Proof.
  induction es as [|e es IH]; intros i k p H t Ht; [destruct k; discriminate|].
  destruct k as [|k]; cbn in H.
  - inversion H; subst p. unfold expected in Ht.
    destruct (classify e); cbn [p_tags] in Ht; apply repeat_spec in Ht; lia.
  - specialize (IH (S i) k p H t Ht). lia.
Qed.

Lemma no_cross : forall es k p,
  nth_error (fst (client_view true es)) k = Some p -> forall t, In t (p_tags p) -> t = k.
Proof.
  intros es k p H t Ht. rewrite client_view_is_spec in H. cbn [fst spec_view] in H.
  now apply (expected_from_tags _ 0 k p H t Ht).
Qed.

Lemma expected_state : forall i e,
  p_state (expected i e) = match classify e with UPartial _ => PIncomplete | _ => PComplete end.
Proof. intros. unfold expected. destruct (classify e); reflexivity. Qed.

Lemma partial_closes : forall e d, classify e = UPartial d -> closes3 e = true.
Proof. intros e d H. unfold closes3, handle3. rewrite H. cbn. now rewrite orb_true_r. Qed.

Lemma served3_last_only : forall es k e,
  nth_error (served3 es) k = Some e -> closes3 e = true -> S k = List.length (served3 es).
Proof.
  induction es as [|x es IH]; intros k e H Hc; [destruct k; discriminate|].
  cbn [served3] in *. destruct (closes3 x) eqn:Cx.
  - destruct k as [|k]; [reflexivity|]. destruct k; discriminate.
  - destruct k as [|k]; cbn in H.
    + inversion H; subst. congruence.
    + cbn [List.length]. f_equal. now apply (IH k e).
Qed.

Lemma expected_from_nth : forall es i k,
  nth_error (expected_from i es) k = option_map (expected (i + k)) (nth_error es k).
Proof.
  induction es as [|e es IH]; intros i k; [destruct k; reflexivity|].
  destruct k as [|k]; cbn; [now rewrite Nat.add_0_r|]. rewrite IH. now rewrite Nat.add_succ_r.
Qed.

Lemma expected_from_length : forall es i, List.length (expected_from i es) = List.length es.
Proof. induction es as [|e es IH]; intro i; cbn; [reflexivity|]. now rewrite IH. Qed.

(* an incomplete response is the last thing on the connection, and the proxy closed it *)
Lemma incomplete_is_last_and_closed : forall es k p,
  nth_error (fst (client_view true es)) k = Some p -> p_state p <> PComplete ->
  S k = List.length (fst (client_view true es)) /\ snd (client_view true es) = true /\ p_state p = PIncomplete.
Proof.
  intros es k p H Hs. rewrite client_view_is_spec in *. cbn [fst snd spec_view] in *.
  rewrite expected_from_nth in H. cbn [plus] in H.
  destruct (nth_error (served3 es) k) as [e|] eqn:N; [|discriminate]. cbn in H. inversion H; subst p. clear H.
  rewrite expected_state in *. destruct (classify e) as [| |d] eqn:C; try congruence.
  pose proof (partial_closes e d C) as Hc.
  rewrite expected_from_length. split; [now apply (served3_last_only es k e)|]. split; [|reflexivity].
  apply existsb_exists. exists e. split; [|exact Hc].
  clear -N. revert k N. induction es as [|x es IH]; intros k N; [destruct k; discriminate|].
  cbn [served3] in N. destruct (closes3 x).
  - destruct k; [inversion N; now left|destruct k; discriminate].
  - destruct k; [inversion N; now left|]. right. now apply (IH k).
Qed.

(* pre-head failures *)
Lemma classify_fail_iff : forall e,
  classify e = UFail <->
  x_out e = ORefused \/ x_out e = OTimeout \/ x_out e = OGarbage \/
  exists k, x_out e = OCut k /\ x_connect e = false /\ k < q_headlen (x_resp e).
Proof.
  intro e. unfold classify. destruct (x_out e) as [| | |k|]; split; intro H; try discriminate; auto.
  - destruct H as [H|[H|[H|[k [H _]]]]]; discriminate.
  - destruct (x_connect e) eqn:Hc; [discriminate|].
    destruct (k <? q_headlen (x_resp e)) eqn:L.
    + right. right. right. exists k. repeat split. now apply Nat.ltb_lt.
    + destruct (x_head e); [discriminate|].
      destruct (q_framing (x_resp e)); try discriminate;
        match goal with H : (if ?c then _ else _) = _ |- _ => destruct c; discriminate end.
  - destruct H as [H|[H|[H|[k' [H [Hc L]]]]]]; try discriminate. inversion H; subst k'.
    apply Nat.ltb_lt in L. now rewrite Hc, L.
Qed.

Lemma pre_head_is_502 : forall fx e,
  classify e = UFail ->
  handle3 fx e = ([WHead (mkHead (H502 true true) (x_id e) (if x_head e then CNone else CCL 0))],
                  if x_connect e then false else x_reqclose e).
Proof. intros fx e H. unfold handle3. now rewrite H. Qed.

Definition stays_open_after_502 (e : exch3) : Prop := x_connect e = true \/ x_reqclose e = false.

Lemma stays_open_flag : forall e, stays_open_after_502 e -> (if x_connect e then false else x_reqclose e) = false.
Proof. intros e [H|H]; rewrite H; [reflexivity|now destruct (x_connect e)]. Qed.

Lemma after_502_stream : forall fx i e es,
  classify e = UFail -> stays_open_after_502 e ->
  conn_stream fx i (e :: es) =
    (tag i [WHead (mkHead (H502 true true) (x_id e) (if x_head e then CNone else CCL 0))] ++ fst (conn_stream fx (S i) es),
     snd (conn_stream fx (S i) es)).
Proof.
  intros fx i e es H Hc. cbn [conn_stream]. rewrite (pre_head_is_502 fx e H), (stays_open_flag e Hc).
  now destruct (conn_stream fx (S i) es).
Qed.

Lemma after_502_view : forall e es,
  classify e = UFail -> stays_open_after_502 e ->
  fst (client_view true (e :: es)) = expected 0 e :: expected_from 1 (served3 es)
  /\ p_state (expected 0 e) = PComplete.
Proof.
  intros e es H Hc. rewrite client_view_is_spec. cbn [fst spec_view served3].
  assert (X : closes3 e = false) by (unfold closes3; rewrite (pre_head_is_502 true e H); exact (stays_open_flag e Hc)).
  rewrite X. cbn [expected_from]. split; [reflexivity|]. rewrite expected_state. now rewrite H.
Qed.

Lemma after_502_all : forall e es,
  classify e = UFail -> stays_open_after_502 e ->
  (forall fx i, conn_stream fx i (e :: es) =
     (tag i [WHead (mkHead (H502 true true) (x_id e) (if x_head e then CNone else CCL 0))]
        ++ fst (conn_stream fx (S i) es),
      snd (conn_stream fx (S i) es))) /\
  fst (client_view true (e :: es)) = expected 0 e :: expected_from 1 (served3 es) /\
  p_state (expected 0 e) = PComplete.
Proof.
  intros e es H Hc. split; [intros fx i; exact (after_502_stream fx i e es H Hc)|exact (after_502_view e es H Hc)].
Qed.

(* every dial outcome of a CONNECT that is not a success: 502, connection kept *)
Lemma connect_dial_failure : forall fx e,
  x_connect e = true -> (x_out e = ORefused \/ x_out e = OTimeout) ->
  handle3 fx e = ([WHead (mkHead (H502 true true) (x_id e) (if x_head e then CNone else CCL 0))], false).
Proof.
  intros fx e Hc Ho. rewrite pre_head_is_502; [now rewrite Hc|].
  apply classify_fail_iff. destruct Ho as [Ho|Ho]; auto.
Qed.

(* ---------------------------------------------------------------- the Warning header *)

Lemma hexdigit_ok : forall n, n < 16 ->
  Ascii.eqb (hexdigit n) DQ = false /\ Ascii.eqb (hexdigit n) BS = false /\ qdtext (hexdigit n) = true.
Proof.
  intros n H. do 16 (destruct n as [|n]; [vm_compute; auto|]). lia.
Qed.

Lemma scan_quote_char : forall c rest,
  scan_qs false (quote_char c ++ rest) = scan_qs false rest.
Proof.
  intros c rest. unfold quote_char.
  destruct (Ascii.eqb c DQ) eqn:E1; [reflexivity|].
  destruct (Ascii.eqb c BS) eqn:E2; [reflexivity|].
  destruct (qdtext c && negb (nat_of_ascii c =? 9))%bool eqn:E3.
  - apply andb_true_iff in E3 as [Q _]. cbn [app scan_qs]. now rewrite E1, E2, Q.
  - pose proof (nat_ascii_bounded c) as B.
    assert (H1 : nat_of_ascii c / 16 < 16) by (apply Nat.div_lt_upper_bound; lia).
    assert (H2 : nat_of_ascii c mod 16 < 16) by (apply Nat.mod_upper_bound; lia).
    destruct (hexdigit_ok _ H1) as (A1 & A2 & A3). destruct (hexdigit_ok _ H2) as (B1 & B2 & B3).
    unfold hex_hi, hex_lo. cbn [app]. cbn [scan_qs].
    change (Ascii.eqb BS DQ) with false. change (Ascii.eqb BS BS) with true. cbv iota.
    change (qpchar "x") with true. cbv iota.
    now rewrite A1, A2, A3, B1, B2, B3.
Qed.

Lemma scan_quote_body : forall x rest,
  scan_qs false (flat_map quote_char x ++ DQ :: rest) = Some rest.
Proof.
  induction x as [|c x IH]; intro rest; [reflexivity|].
  cbn [flat_map]. rewrite <- app_assoc, scan_quote_char. apply IH.
Qed.

Lemma warning_prefix : forall tail,
  warning_ok (list_ascii_of_string "199 ""martian"" " ++ DQ :: tail) =
  match scan_qs false tail with
  | Some [] => true
  | Some (s3 :: q2 :: rest3) =>
      if (Ascii.eqb s3 SP && Ascii.eqb q2 DQ)%bool then
        match scan_qs false rest3 with Some [] => true | _ => false end
      else false
  | _ => false
  end.
Proof. intro tail. vm_compute. reflexivity. Qed.

Lemma warning_value_wellformed : forall errtext date, warning_ok (warning_value errtext date) = true.
Proof.
  intros e d. unfold warning_value, go_quote.
  set (b1 := flat_map quote_char e). set (b2 := flat_map quote_char d).
  assert (H1 : scan_qs false (b1 ++ DQ :: SP :: DQ :: b2 ++ [DQ]) = Some (SP :: DQ :: b2 ++ [DQ])) by apply scan_quote_body.
  assert (H2 : scan_qs false (b2 ++ [DQ]) = Some []) by apply scan_quote_body.
  replace (list_ascii_of_string "199 ""martian"" " ++ (DQ :: b1 ++ [DQ]) ++ SP :: DQ :: b2 ++ [DQ])
    with (list_ascii_of_string "199 ""martian"" " ++ DQ :: b1 ++ DQ :: SP :: DQ :: b2 ++ [DQ])
    by (cbn [app]; now rewrite <- app_assoc).
  clearbody b1 b2. rewrite warning_prefix, H1.
  change (Ascii.eqb SP SP && Ascii.eqb DQ DQ)%bool with true. cbv iota. now rewrite H2.
Qed.

(* an unescaped quote inside the text breaks the grammar: the checker notices *)
Lemma unquoted_text_rejected :
  warning_ok (list_ascii_of_string "199 ""martian"" ""malformed HTTP response ""SSH-2.0"""" ""Thu, 01 Jan 1970 00:00:00 GMT""") = false.
Proof. vm_compute. reflexivity. Qed.

(* ---------------------------------------------------------------- oracle *)

Lemma state_eqb_eq : forall a b, state_eqb a b = true <-> a = b.
Proof. intros [] []; cbn; split; intro; try reflexivity; try discriminate. Qed.

Lemma optN_eqb_eq : forall a b, optN_eqb a b = true <-> a = b.
Proof.
  intros [x|] [y|]; cbn; split; intro H; try reflexivity; try discriminate.
  - apply N.eqb_eq in H. now subst.
  - inversion H. apply N.eqb_refl.
Qed.

Lemma stamp_eqb_eq : forall a b, stamp_eqb a b = true <-> a = b.
Proof.
  intros [[x u]|] [[y v]|]; cbn; split; intro H; try reflexivity; try discriminate.
  - apply andb_true_iff in H as [H1 H2]. apply N.eqb_eq in H1. apply eqb_prop in H2. now subst.
  - inversion H; subst. now rewrite N.eqb_refl, eqb_reflx.
Qed.

Lemma oresp_eqb_eq : forall a b, oresp_eqb a b = true <-> a = b.
Proof.
  intros [s1 i1 w1 r1 b1 t1] [s2 i2 w2 r2 b2 t2]. unfold oresp_eqb. cbn.
  rewrite !andb_true_iff, N.eqb_eq, optN_eqb_eq, eqb_true_iff, stamp_eqb_eq, str_eqb_eq, state_eqb_eq.
  split.
  - intros (((((A & B) & C) & D) & E) & F). now subst.
  - intro H. inversion H; subst. repeat split; reflexivity.
Qed.

Lemma forall2b_eq : forall {A} (f : A -> A -> bool), (forall a b, f a b = true <-> a = b) ->
  forall l m, forall2b f l m = true <-> l = m.
Proof.
  intros A f H. induction l as [|x l IH]; destruct m as [|y m]; cbn; split; intro X; try reflexivity; try discriminate.
  - apply andb_true_iff in X as [X1 X2]. apply H in X1. apply IH in X2. now subst.
  - inversion X; subst. apply andb_true_iff. split; [now apply H|now apply IH].
Qed.

Lemma c03_ok_iff : forall es obs,
  c03_ok es obs = true <-> obs = (map project (fst (spec_view es)), snd (spec_view es)).
Proof.
  intros es [rs c]. unfold c03_ok. cbn [fst snd]. rewrite andb_true_iff, (forall2b_eq _ oresp_eqb_eq), eqb_true_iff.
  split.
  - intros [A B]. now subst.
  - intro H. inversion H; subst. now split.
Qed.

Lemma c03_ok_raw_iff : forall es raws c,
  c03_ok_raw es (raws, c) = true <->
  (map observe raws, c) = (map project (fst (spec_view es)), snd (spec_view es)).
Proof. intros. unfold c03_ok_raw. cbn [fst snd]. apply c03_ok_iff. Qed.

Lemma model_obs_ok : forall es, c03_ok es (model_obs true es) = true.
Proof.
  intro es. apply c03_ok_iff. unfold model_obs. rewrite client_view_is_spec. reflexivity.
Qed.

(* ---------------------------------------------------------------- refutation for the unrepaired code *)

Definition d2_first : exch3 :=
  mkEx3 1 false false false (OCut 52)
        (mkResp3 200 FCL (list_ascii_of_string "abcdefghij") [] false 49) [].
Definition d2_second : exch3 :=
  mkEx3 2 false false false OOk
        (mkResp3 200 FCL (list_ascii_of_string "NEXT!") [] false 48) [].

Lemma d2_desync :
  exists p, nth_error (fst (client_view false [d2_first; d2_second])) 0 = Some p /\
            In 1 (p_tags p) /\
            p_body p = list_ascii_of_string "abc?NEXT!" /\
            snd (client_view false [d2_first; d2_second]) = false.
Proof.
  eexists. split; [vm_compute; reflexivity|]. split; [cbv; auto 20|]. split; vm_compute; reflexivity.
Qed.
