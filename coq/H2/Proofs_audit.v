(* Audit round: script-level acceptance of RFC-valid scripts, totality of header
   chunking, completeness and final-credit oracles. *)
From Coq Require Import List NArith ZArith Bool Ascii Arith Lia.
From Martian.H2 Require Import Model Spec Proofs_base Proofs_flow Proofs_act Proofs_run Proofs_script
  Proofs_props Proofs_oracle Proofs_c08 Proofs_misc Proofs_table Proofs_final.
Import ListNotations.

(* ------------------------------------------------ RFC-valid scripts run to the end *)
Lemma settings_maxf_pos kv : forall cur,
  forallb setting_ok kv = true -> (0 < cur)%N -> (0 < settings_maxf cur kv)%N.
Proof.
  unfold settings_maxf. induction kv as [|[i v] t IH]; intros cur H Hc; simpl in *; [assumption|].
  apply andb_prop in H. destruct H as [H1 H2]. apply IH; [assumption|].
  destruct (N.eqb i 5) eqn:E; [|assumption].
  unfold setting_ok, setting_accept in H1. simpl in H1. rewrite E in H1. simpl in H1.
  apply andb_prop in H1. destruct H1 as [_ H1]. apply andb_prop in H1. destruct H1 as [H1 _].
  apply N.leb_le in H1. lia.
Qed.

Definition opn (f : fstate) (x : side) : option N := option_map pend_sid (f_cont f x).

Lemma f_maxf_set_cont f y c x : f_maxf (set_cont f y c) x = f_maxf f x.
Proof. destruct y, x; reflexivity. Qed.

Lemma front_valid f y fr :
  rfc_frame_ok (opn f y) fr = true ->
  match fr with FPush _ eh _ _ => eh = true | FHeaders _ _ _ _ _ e0 => e0 = false | _ => True end ->
  (0 < f_maxf f Cl)%N -> (0 < f_maxf f Sv)%N ->
  exists f' acts, front f y fr = Some (f', acts)
    /\ opn f' y = rfc_open (opn f y) fr /\ opn f' (other y) = opn f (other y)
    /\ (0 < f_maxf f' Cl)%N /\ (0 < f_maxf f' Sv)%N.
Proof.
  intros Hok Hsh Hc Hs.
  assert (Hm : forall x, (0 < f_maxf f x)%N) by (intros x; destruct x; assumption).
  pose proof (valid_frame_accepted f y fr Hok (Hm (other y))) as Hacc.
  assert (Hsh' : match fr with FHeaders _ _ _ _ _ e0 => e0 = false | _ => True end) by (destruct fr; auto).
  specialize (Hacc Hsh').
  destruct (front f y fr) as [[f' acts]|] eqn:F; [|congruence]. clear Hacc.
  exists f', acts. split; [reflexivity|].
  unfold front in F. destruct (negb (frame_ok (f_cont f y) fr)); [discriminate|].
  unfold opn in *.
  destruct fr as [s es d pad|s es eh pr fid e0|s eh|s p|s c|kv| |s eh pm fid|a d|l c d|s inc].
  - destruct (split_data _ _ s es d); [|discriminate]. inversion F; subst. repeat split; auto.
  - destruct (f_cont f y) as [p|] eqn:Cn; simpl in Hok; [discriminate|].
    destruct eh; inversion F; subst; simpl.
    + rewrite Cn. repeat split; auto.
    + destruct y; simpl in *; repeat split; auto.
  - destruct (f_cont f y) as [p|] eqn:Cn; [|discriminate]. simpl in Hok. apply N.eqb_eq in Hok.
    destruct eh; inversion F; subst; simpl.
    + destruct y; simpl in *; repeat split; auto.
    + rewrite Cn. repeat split; auto.
  - destruct (f_cont f y) eqn:Cn; simpl in Hok; [discriminate|]. inversion F; subst. simpl. rewrite Cn. repeat split; auto.
  - destruct (f_cont f y) eqn:Cn; simpl in Hok; [discriminate|]. inversion F; subst. simpl. rewrite Cn. repeat split; auto.
  - destruct (f_cont f y) eqn:Cn; simpl in Hok; [discriminate|]. inversion F; subst. simpl.
    rewrite !f_cont_set_tab, !f_cont_set_maxf, Cn.
    pose proof (settings_maxf_pos kv _ Hok (Hm y)) as Hp.
    destruct y; simpl; repeat split; auto.
  - destruct (f_cont f y) eqn:Cn; simpl in Hok; [discriminate|]. inversion F; subst. simpl. rewrite Cn. repeat split; auto.
  - destruct (f_cont f y) eqn:Cn; simpl in Hok; [discriminate|]. subst eh. inversion F; subst. simpl. rewrite Cn. repeat split; auto.
  - destruct (f_cont f y) eqn:Cn; simpl in Hok; [discriminate|]. inversion F; subst. simpl. rewrite Cn. repeat split; auto.
  - destruct (f_cont f y) eqn:Cn; simpl in Hok; [discriminate|]. inversion F; subst. simpl. rewrite Cn. repeat split; auto.
  - destruct (f_cont f y) eqn:Cn; simpl in Hok; [discriminate|]. inversion F; subst. simpl. rewrite Cn. repeat split; auto.
Qed.

Lemma run_valid ls : forall st,
  rfc_valid_go (opn (sf st) Cl) (opn (sf st) Sv) ls = true ->
  no_open_push ls = true -> no_empty_hfrag ls = true ->
  (0 < f_maxf (sf st) Cl)%N -> (0 < f_maxf (sf st) Sv)%N ->
  length (snd (run st ls)) = length ls.
Proof.
  induction ls as [|l t IH]; intros st Hv Hp He Hc Hs; simpl in *; [reflexivity|].
  apply andb_prop in Hp. destruct Hp as [Hp1 Hp2]. apply andb_prop in He. destruct He as [He1 He2].
  assert (Hsh : match l_frame l with FPush _ eh _ _ => eh = true | FHeaders _ _ _ _ _ e0 => e0 = false | _ => True end).
  { destruct (l_frame l); auto. apply negb_true_iff in He1. assumption. }
  unfold step.
  destruct (l_from l) eqn:Y; apply andb_prop in Hv; destruct Hv as [Hv1 Hv2].
  - destruct (front_valid (sf st) Cl (l_frame l) Hv1 Hsh Hc Hs) as (f' & acts & F & O1 & O2 & M1 & M2).
    rewrite F. destruct (bsteps (f_tab f') (sb st) (l_order l) acts) as [b' evs].
    destruct (run (mkS f' b') t) as [st2 r] eqn:R. simpl. f_equal.
    specialize (IH (mkS f' b')). rewrite R in IH. simpl in IH. apply IH; auto.
    simpl in O2. rewrite O1, O2. assumption.
  - destruct (front_valid (sf st) Sv (l_frame l) Hv1 Hsh Hc Hs) as (f' & acts & F & O1 & O2 & M1 & M2).
    rewrite F. destruct (bsteps (f_tab f') (sb st) (l_order l) acts) as [b' evs].
    destruct (run (mkS f' b') t) as [st2 r] eqn:R. simpl. f_equal.
    specialize (IH (mkS f' b')). rewrite R in IH. simpl in IH. apply IH; auto.
    simpl in O2. rewrite O1, O2. assumption.
Qed.

Theorem valid_scripts_run_to_the_end ls :
  rfc_valid ls = true -> no_open_push ls = true -> no_empty_hfrag ls = true ->
  length (obs_of ls) = length ls.
Proof.
  intros Hv Hp He. unfold obs_of. apply run_valid; auto; simpl; lia.
Qed.

(* the driver judges the prefix up to the label at which the relay stopped *)
Lemma rfc_valid_go_app a : forall oc os b, rfc_valid_go oc os (a ++ b) = true -> rfc_valid_go oc os a = true.
Proof.
  induction a as [|l t IH]; intros oc os b H; simpl in *; [reflexivity|].
  destruct (l_from l); apply andb_prop in H; destruct H as [H1 H2]; rewrite H1; simpl; eapply IH; eauto.
Qed.
Theorem rfc_valid_prefix a b : rfc_valid (a ++ b) = true -> rfc_valid a = true.
Proof. apply rfc_valid_go_app. Qed.

(* ------------------------------------------------ header chunking is total and conserves the block *)
Lemma chunk_rest_total fuel : forall cmax n,
  (0 < cmax)%N -> (N.to_nat n < fuel)%nat ->
  exists l, chunk_rest fuel cmax n = Some l /\ nsum l = n.
Proof.
  induction fuel as [|k IH]; intros cmax n Hc Hf; [lia|]. simpl.
  destruct (N.eqb n 0) eqn:E.
  - apply N.eqb_eq in E. subst. exists []. split; reflexivity.
  - apply N.eqb_neq in E.
    destruct (IH cmax (n - N.min n cmax)%N Hc) as (l & Hl & Hs); [lia|].
    rewrite Hl. exists (N.min n cmax :: l). split; [reflexivity|]. simpl. rewrite Hs. lia.
Qed.
Theorem hdr_chunks_total maxf hp ip elen :
  (5 <= maxf)%N -> exists cs, hdr_chunks maxf hp ip elen = Some cs /\ nsum cs = elen.
Proof.
  intros Hm. unfold hdr_chunks.
  set (fmax := (if ip then maxf - 4 else if hp then maxf - 5 else maxf)%N).
  destruct (chunk_rest_total (S (N.to_nat elen)) maxf (elen - N.min elen fmax)%N) as (l & Hl & Hs); [lia|lia|].
  rewrite Hl. exists (N.min elen fmax :: l). split; [reflexivity|]. simpl. rewrite Hs. lia.
Qed.

(* ------------------------------------------------ completeness / final credit oracles *)
Lemma prefix_antisym {A} (a b : list A) : is_prefix a b -> is_prefix b a -> a = b.
Proof.
  intros (c & Hc) (d & Hd). rewrite Hc in Hd. rewrite <- app_assoc in Hd.
  rewrite <- (app_nil_r a) in Hd at 1. apply app_inv_head in Hd.
  symmetry in Hd. apply app_eq_nil in Hd. destruct Hd as [-> _]. rewrite app_nil_r in Hc. auto.
Qed.
Lemma atoms_eqb_eq a b : atoms_eqb a b = true <-> a = b.
Proof.
  unfold atoms_eqb. rewrite andb_true_iff, !prefixb_iff. split.
  - intros [H1 H2]. apply prefix_antisym; assumption.
  - intros ->. split; exists []; rewrite app_nil_r; reflexivity.
Qed.
Lemma b_complete_iff ls o : b_complete ls o = true <-> P_complete ls o.
Proof.
  unfold b_complete, P_complete. rewrite forallb_forall. split.
  - intros H y s Hy Hs. specialize (H y Hy). rewrite forallb_forall in H. apply atoms_eqb_eq. auto.
  - intros H y Hy. rewrite forallb_forall. intros s Hs. apply atoms_eqb_eq. auto.
Qed.
Lemma b_credit_final_iff ls o : b_credit_final ls o = true <-> P_credit_final ls o.
Proof.
  unfold b_credit_final, P_credit_final. rewrite forallb_forall. split.
  - intros H y s Hy Hs. specialize (H y Hy). rewrite forallb_forall in H. apply Z.eqb_eq. auto.
  - intros H y Hy. rewrite forallb_forall. intros s Hs. apply Z.eqb_eq. auto.
Qed.

(* model: when nothing is left in the queues toward an endpoint, everything sent to it has arrived *)
Theorem model_complete ls :
  (forall x s, qs_of (getf (sb (final ls)) x) s = []) -> P_complete ls (obs_of ls).
Proof.
  intros Hq y s _ _. unfold pre. rewrite <- (final_complete ls y s), Hq. simpl. rewrite app_nil_r. reflexivity.
Qed.
Theorem model_credit_final ls : P_credit_final ls (obs_of ls).
Proof.
  intros y s Hy Hs. pose proof (final_credit ls (length (obs_of ls)) y s (Nat.le_refl _) Hy Hs) as H.
  unfold evs_to in H. rewrite firstn_all in H. exact H.
Qed.

(* windows: the three C09 statements that make "however long the windows delay delivery" precise *)
Theorem delivery_under_windows ls :
  P_conn ls (obs_of ls) /\ P_stream ls (obs_of ls) /\ P_strand ls (obs_of ls).
Proof. split; [apply final_conn|split; [apply final_stream|apply final_strand]]. Qed.

(* ------------------------------------------------ SETTINGS frames are ordered lists *)
(* the effect of a SETTINGS frame on the relay = the sequential fold over its entries = the
   last occurrence of each identifier *)
Theorem settings_frame_effect f y kv f' acts :
  front f y (FSettings kv) = Some (f', acts) ->
  f_maxf f' y = match last_occ 5 kv with Some v => v | None => f_maxf f y end
  /\ f_tab f' y = match last_occ 1 kv with Some v => v | None => f_tab f y end
  /\ f_maxf f' (other y) = f_maxf f (other y) /\ f_tab f' (other y) = f_tab f (other y)
  /\ forall m, fold_left a_init1 (acts_to y acts) (Z.of_N m) =
               Z.of_N (match last_occ 4 kv with Some v => v | None => m end).
Proof.
  intros F. destruct (front_ledger _ _ _ _ _ F) as (_ & _ & _ & L3 & _ & _ & L6).
  pose proof (front_tab _ _ _ _ _ F) as LT.
  repeat split.
  - rewrite L6, side_eqb_refl. apply fold_last_occ.
  - rewrite LT, side_eqb_refl. apply fold_last_occ.
  - rewrite L6, side_eqb_other'. reflexivity.
  - rewrite LT, side_eqb_other'. reflexivity.
  - intros m. rewrite L3, side_eqb_refl. f_equal. apply fold_last_occ.
Qed.

(* after any script: the windows base, max frame size and table size the relay uses toward x
   are the sequential fold of everything x announced *)
Theorem settings_state_is_fold ls x :
  init (getf (sb (final ls)) x) = init_of x (firstn (length (obs_of ls)) ls)
  /\ f_maxf (sf (final ls)) x = maxf_of x (firstn (length (obs_of ls)) ls)
  /\ f_tab (sf (final ls)) x = tabsz_of x (firstn (length (obs_of ls)) ls).
Proof.
  destruct (sinv_exec _ _ _ (run_eta ls)) as (I & _).
  destruct (si_b _ _ _ I x) as [C _].
  repeat split.
  - rewrite (c_init _ _ _ _ _ _ _ C). apply (si_init _ _ _ I).
  - apply (si_maxf _ _ _ I).
  - apply (si_tab _ _ _ I).
Qed.

(* fixed defect C09-F2 (was K2): an INTERMEDIATE INITIAL_WINDOW_SIZE value of one SETTINGS frame no
   longer takes effect: with stream window 0 and 30 octets queued, [IWS=1000; 0x10=1; IWS=10]
   releases nothing, and [IWS=10; IWS=1000] releases everything *)
Definition w_k2s : list label :=
  [ mk Sv (FSettings [(4, 0)])%N; mk Cl (FHeaders 1 false true None 0 false);
    mk Cl (FData 1 false (bytes_n 30) None); mk Sv (FSettings [(4, 1000); (16, 1); (4, 10)])%N;
    mk Sv (FSettings [(4, 10); (4, 1000)])%N ].
Lemma repeated_initial_window_example :
  rfc_valid w_k2s = true /\ single_init w_k2s = false /\ c09_ok w_k2s (obs_of w_k2s) = true
  /\ sents Sv 1 (concat (firstn 4 (obs_of w_k2s))) = 0%Z /\ sents Sv 1 (concat (obs_of w_k2s)) = 30%Z.
Proof. vm_compute. repeat split; reflexivity. Qed.

(* ------------------------------------------------ the DATA split loop always terminates *)
(* repaired (fixes/C09-3): an out-of-range MAX_FRAME_SIZE stops the reader, so the size the relay
   splits to is at least 16384 after ANY script, valid or not *)
Lemma settings_maxf_ge kv : forall cur,
  forallb setting_accept kv = true -> (16384 <= cur)%N -> (16384 <= settings_maxf cur kv)%N.
Proof.
  unfold settings_maxf. induction kv as [|[i v] t IH]; intros cur H Hc; simpl in *; [assumption|].
  apply andb_prop in H. destruct H as [H1 H2]. apply IH; [assumption|].
  destruct (N.eqb i 5) eqn:E; [|assumption].
  unfold setting_accept in H1. simpl in H1. rewrite E in H1. simpl in H1.
  apply andb_prop in H1. destruct H1 as [_ H1]. apply andb_prop in H1. destruct H1 as [H1 _].
  apply N.leb_le in H1. assumption.
Qed.

Lemma front_maxf_ge f y fr f' acts :
  front f y fr = Some (f', acts) -> (forall x, (16384 <= f_maxf f x)%N) -> forall x, (16384 <= f_maxf f' x)%N.
Proof.
  intros F Hm x. pose proof F as F0. unfold front in F.
  destruct (negb (frame_ok (f_cont f y) fr)) eqn:OK; [discriminate|]. apply negb_false_iff in OK.
  destruct fr as [s es d pad|s es eh pr fid e0|s eh|s p|s c|kv| |s eh pm fid|a d|l c d|s inc];
    try (destruct (front_ledger _ _ _ _ _ F0) as (_ & _ & _ & _ & _ & _ & L6); rewrite L6;
         destruct (side_eqb y x); simpl; apply Hm).
  destruct (f_cont f y); simpl in OK; [discriminate|].
  inversion F; subst. destruct y, x; simpl; try apply (Hm Cl); try apply (Hm Sv);
    apply settings_maxf_ge; auto; try apply (Hm Cl); apply (Hm Sv).
Qed.

Lemma run_maxf_ge ls : forall st,
  (forall x, (16384 <= f_maxf (sf st) x)%N) -> forall x, (16384 <= f_maxf (sf (fst (run st ls))) x)%N.
Proof.
  induction ls as [|l t IH]; intros st Hm x; simpl; [apply Hm|].
  unfold step. destruct (front (sf st) (l_from l) (l_frame l)) as [[f' acts]|] eqn:F; [|apply Hm].
  destruct (bsteps (f_tab f') (sb st) (l_order l) acts) as [b' evs].
  specialize (IH (mkS f' b') (front_maxf_ge _ _ _ _ _ F Hm) x).
  destruct (run (mkS f' b') t) as [st2 r]. exact IH.
Qed.

Theorem split_size_always_legal ls x : (16384 <= f_maxf (sf (final ls)) x)%N.
Proof. unfold final. apply run_maxf_ge. intros y. destruct y; simpl; lia. Qed.
