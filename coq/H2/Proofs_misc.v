(* Frame sizes, header chunking, preface, step-level acceptance of valid frames. *)
From Coq Require Import List NArith ZArith Bool Ascii Arith Lia.
From Martian.H2 Require Import Model Spec Proofs_base Proofs_oracle Proofs_c08.
Import ListNotations.
Open Scope Z_scope.

(* every DATA frame the relay accepts for delivery fits the receiver's max
   frame size in force at that moment, and the loop terminates *)
Lemma split_data_total fuel : forall maxf s es d,
  (0 < maxf)%N -> (length d < fuel)%nat -> split_data fuel maxf s es d <> None.
Proof.
  induction fuel as [|k IH]; intros maxf s es d Hm Hl; [lia|]. simpl.
  assert (Hp : (0 < N.to_nat maxf)%nat).
  { destruct maxf as [|p]; [inversion Hm|]. pose proof (Pos2Nat.is_pos p). simpl. lia. }
  set (n := if N.leb (N.of_nat (length d)) maxf then length d else N.to_nat maxf).
  destruct (skipn n d) as [|b rest] eqn:SK; [discriminate|].
  assert (Hn : (0 < n)%nat).
  { unfold n. destruct (N.leb (N.of_nat (length d)) maxf);
      [|exact Hp].
    destruct d; [simpl in SK; discriminate|simpl; lia]. }
  assert (Hr : (length (b :: rest) < k)%nat).
  { assert (0 < length d)%nat by (destruct d; [destruct n; discriminate|simpl; lia]).
    rewrite <- SK, skipn_length. lia. }
  specialize (IH maxf s es (b :: rest) Hm Hr). destruct (split_data k maxf s es (b :: rest)); congruence.
Qed.

Theorem data_fits_at_enqueue f y s es d pad f' acts q :
  front f y (FData s es d pad) = Some (f', acts) -> In (AEnq (other y) q) acts ->
  fc q <= Z.of_N (f_maxf f (other y)).
Proof.
  unfold front. destruct (negb (frame_ok (f_cont f y) (FData s es d pad))); [discriminate|].
  destruct (split_data _ _ s es d) as [qs|] eqn:SP; [|discriminate]. intros H Hin. inversion H; subst.
  destruct (split_data_atoms _ _ _ _ _ _ SP) as (_ & _ & A3).
  apply in_app_or in Hin. destruct Hin as [Hin|Hin].
  - destruct (N.eqb (fcl d pad) 0); simpl in Hin; [tauto|]. destruct Hin as [Hin|[Hin|[]]]; discriminate.
  - apply in_map_iff in Hin. destruct Hin as (q' & E & Hq). inversion E; subst.
    rewrite Forall_forall in A3. auto.
Qed.

Lemma chunk_rest_le fuel : forall cmax n l, chunk_rest fuel cmax n = Some l -> Forall (fun c => (c <= cmax)%N) l.
Proof.
  induction fuel as [|k IH]; intros cmax n l H; simpl in H.
  - destruct (N.eqb n 0); [inversion H; constructor|discriminate].
  - destruct (N.eqb n 0); [inversion H; constructor|].
    destruct (chunk_rest k cmax (n - N.min n cmax)) as [l'|] eqn:R; [|discriminate].
    inversion H; subst. constructor; [lia|eauto].
Qed.

Theorem hdr_chunks_fit maxf hp ip elen cs :
  (5 <= maxf)%N -> hdr_chunks maxf hp ip elen = Some cs -> chunks_fit maxf hp ip cs = true.
Proof.
  unfold hdr_chunks. intros Hm H.
  destruct (chunk_rest _ maxf _) as [l|] eqn:R; [|discriminate]. inversion H; subst.
  apply chunks_fit_iff. split; [destruct ip, hp; lia|]. eapply chunk_rest_le; eauto.
Qed.

(* ---- preface *)
Lemma firstn_app_le {A} n (a b : list A) : (n <= length a)%nat -> firstn n (a ++ b) = firstn n a.
Proof. intros H. rewrite firstn_app. replace (n - length a)%nat with 0%nat by lia. simpl. apply app_nil_r. Qed.
Lemma skipn_app_le {A} n (a b : list A) : (n <= length a)%nat -> skipn n (a ++ b) = skipn n a ++ b.
Proof. intros H. rewrite skipn_app. replace (n - length a)%nat with 0%nat by lia. reflexivity. Qed.

Lemma read_full_spec chunks : forall a b,
  concat chunks = a ++ b ->
  exists r, read_full chunks (length a) = Some (a, r) /\ concat r = b.
Proof.
  induction chunks as [|c t IH]; intros a b H; simpl in H.
  - destruct a; [|discriminate]. simpl in H. subst. exists []. split; reflexivity.
  - destruct a as [|x a'] eqn:Ea.
    + exists (c :: t). simpl. split; [reflexivity|assumption].
    + rewrite <- Ea in *. assert (Hpos : exists m, length a = S m) by (subst; simpl; eauto).
      destruct Hpos as (m & Hm). simpl. rewrite Hm. rewrite <- Hm.
      destruct (Nat.leb (length c) (length a)) eqn:L.
      * apply Nat.leb_le in L.
        assert (Hc : c = firstn (length c) a).
        { rewrite <- (firstn_app_le _ a b L), <- H, firstn_app, Nat.sub_diag, firstn_all. simpl. rewrite app_nil_r. reflexivity. }
        assert (Ht : concat t = skipn (length c) a ++ b).
        { rewrite <- (skipn_app_le _ a b L), <- H, skipn_app, Nat.sub_diag, skipn_all. reflexivity. }
        destruct (IH _ _ Ht) as (r & Hr & Hb). rewrite skipn_length in Hr. rewrite Hr.
        exists r. split; [|assumption]. f_equal. f_equal. rewrite Hc at 1. apply firstn_skipn.
      * apply Nat.leb_gt in L. exists (skipn (length a) c :: t). split.
        -- f_equal. f_equal.
           assert (firstn (length a) (c ++ concat t) = firstn (length a) (a ++ b)) by (rewrite H; reflexivity).
           rewrite firstn_app_le in H0 by lia. rewrite firstn_app, Nat.sub_diag, firstn_all in H0.
           simpl in H0. rewrite app_nil_r in H0. assumption.
        -- simpl.
           assert (skipn (length a) (c ++ concat t) = skipn (length a) (a ++ b)) by (rewrite H; reflexivity).
           rewrite skipn_app_le in H0 by lia. rewrite skipn_app, Nat.sub_diag, skipn_all in H0. assumption.
Qed.

Theorem preface_any_segmentation preface chunks rest :
  concat chunks = preface ++ rest ->
  exists r, forward_preface preface chunks = Some (preface, r) /\ concat r = rest.
Proof.
  intros H. destruct (read_full_spec _ _ _ H) as (r & Hr & Hb).
  unfold forward_preface. rewrite Hr. exists r.
  replace (bytes_eqb preface preface) with true by (symmetry; apply bytes_eqb_eq; reflexivity).
  split; [reflexivity|assumption].
Qed.

(* ---- a frame the RFC allows is accepted, unless it is one of the two shapes
   the pinned http2.Framer cannot read (known findings C08-K2, C08-K3) *)
Theorem valid_frame_accepted f y fr :
  rfc_frame_ok (option_map pend_sid (f_cont f y)) fr = true ->
  (0 < f_maxf f (other y))%N ->
  match fr with FHeaders _ _ _ _ _ e0 => e0 = false | _ => True end ->
  front f y fr <> None.
Proof.
  intros Hok Hm He0. unfold front.
  assert (OK : frame_ok (f_cont f y) fr = true).
  { destruct (f_cont f y) as [p|]; simpl in *.
    - exact Hok.
    - destruct fr; simpl in *; auto.
      subst. rewrite Hok. reflexivity. }
  rewrite OK. cbn [negb].
  destruct fr; try (destruct eh; discriminate); try discriminate.
  - pose proof (split_data_total (S (length d)) (f_maxf f (other y)) s es d Hm (Nat.lt_succ_diag_r _)) as Ht.
    destruct (split_data _ _ s es d); [simpl; discriminate|congruence].
  - destruct (f_cont f y) as [p|]; [destruct eh; simpl; discriminate|]. simpl in OK. discriminate.
Qed.
