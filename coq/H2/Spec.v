(* H2 relay: trace-level statement of properties C08 and C09 over
   (script, observation) and the executable oracles.  Definitions only.
   An observation is one list of (recipient, frame) per executed label; every
   quantity below is a function of the script and the observation alone. *)
From Coq Require Import List NArith ZArith Bool Ascii Arith.
From Martian.H2 Require Import Model.
Import ListNotations.
Open Scope Z_scope.

Definition zsum (l : list Z) : Z := fold_right Z.add 0 l.

(* ---------------------------------------------------- observation ledgers *)
Definition to_side (x : side) (evs : list event) : list wire :=
  map snd (filter (fun e => side_eqb (fst e) x) evs).

Definition wsid (w : wire) : option N :=
  match w with
  | WData s _ _ | WBlock s _ _ _ _ _ _ | WPrio s _ | WRst s _ => Some s
  | _ => None
  end.
Definition on_stream (s : N) (ws : list wire) : list wire :=
  filter (fun w => match wsid w with Some k => N.eqb k s | None => false end) ws.

Definition dlen (w : wire) : Z := match w with WData _ _ d => blen d | _ => 0 end.
Definition sentc (x : side) (evs : list event) : Z := zsum (map dlen (to_side x evs)).
Definition sents (x : side) (s : N) (evs : list event) : Z :=
  zsum (map dlen (on_stream s (to_side x evs))).

Definition cred (s : N) (w : wire) : Z :=
  match w with WWin k n => if N.eqb k s then Z.of_N n else 0 | _ => 0 end.
Definition creds (y : side) (s : N) (evs : list event) : Z := zsum (map (cred s) (to_side y evs)).

Definition is_direct (w : wire) : bool :=
  match w with WSettings _ | WAck | WPing _ _ | WGoaway _ _ _ => true | _ => false end.
Definition directs (x : side) (evs : list event) : list wire := filter is_direct (to_side x evs).

(* --------------------------------------------------------- script ledgers *)
Definition from (y : side) (ls : list label) : list frame :=
  map l_frame (filter (fun l => side_eqb (l_from l) y) ls).

Definition wu (s : N) (f : frame) : Z :=
  match f with FWinUpd k inc => if N.eqb k s then Z.of_N inc else 0 | _ => 0 end.
Definition wus (x : side) (s : N) (ls : list label) : Z := zsum (map (wu s) (from x ls)).

Definition last_setting (id : N) (cur : N) (fs : list frame) : N :=
  fold_left (fun m f => match f with
                        | FSettings kv => fold_left (fun m p => if N.eqb (fst p) id then snd p else m) kv m
                        | _ => m end) fs cur.
Definition init_of (x : side) (ls : list label) : Z := Z.of_N (last_setting 4 65535 (from x ls)).
Definition maxf_of (x : side) (ls : list label) : N := last_setting 5 16384 (from x ls).

Definition dfcl (s : option N) (f : frame) : Z :=
  match f with
  | FData k _ d pad =>
      match s with
      | None => Z.of_N (fcl d pad)
      | Some s' => if N.eqb k s' then Z.of_N (fcl d pad) else 0
      end
  | _ => 0
  end.
Definition fclc (y : side) (ls : list label) : Z := zsum (map (dfcl None) (from y ls)).
Definition fcls (y : side) (s : N) (ls : list label) : Z := zsum (map (dfcl (Some s)) (from y ls)).

Definition direct_of (f : frame) : list wire :=
  match f with
  | FSettings kv => [WSettings kv]
  | FSettingsAck => [WAck]
  | FPing a d => [WPing a d]
  | FGoaway l c d => [WGoaway l c d]
  | _ => []
  end.

Definition frame_sid (f : frame) : list N :=
  match f with
  | FData s _ _ _ | FHeaders s _ _ _ _ _ | FCont s _ | FPriority s _ | FRst s _ | FPush s _ _ _
  | FWinUpd s _ => [s]
  | _ => []
  end.
Definition wire_sid (w : wire) : list N :=
  match w with
  | WData s _ _ | WBlock s _ _ _ _ _ _ | WPrio s _ | WRst s _ | WWin s _ => [s]
  | _ => []
  end.
(* streams named anywhere in the script or the observation *)
Definition mentioned (ls : list label) (o : obs) : list N :=
  dedup (flat_map (fun l => frame_sid (l_frame l)) ls ++ flat_map (fun e => wire_sid (snd e)) (concat o)).

(* frames the relay accepted for delivery to x (frame granularity = the relay's
   own splitting), from the dispatch layer alone *)
Fixpoint front_run (f : fstate) (ls : list label) : list action :=
  match ls with
  | [] => []
  | l :: t =>
      match front f (l_from l) (l_frame l) with
      | None => []
      | Some (f', acts) => acts ++ front_run f' t
      end
  end.
Definition enq_of (x : side) (acts : list action) : list qframe :=
  flat_map (fun a => match a with AEnq t q => if side_eqb t x then [q] else [] | _ => [] end) acts.
Definition q_on (s : N) (qs : list qframe) : list qframe := filter (fun q => N.eqb (qsid q) s) qs.
Definition accepted (x : side) (s : N) (ls : list label) : list qframe :=
  q_on s (enq_of x (front_run f0 ls)).

(* ------------------------------------------------------------------ atoms *)
(* What a stream carries, independent of framing: one atom per DATA byte. *)
Inductive atom :=
| AByte (a : ascii) | AEnd
| AHdr (fid : N) (pr : option prio) | APush (promised fid : N)
| APrio (p : prio) | ARst (c : N).

(* raw = false: {dep 0, non-exclusive, weight 0} and "no priority" identified *)
Definition norm_pr (raw : bool) (pr : option prio) : option prio :=
  if raw then pr else
  match pr with Some p => if prio_is_zero p then None else Some p | None => None end.
Definition ends (es : bool) : list atom := if es then [AEnd] else [].

Definition atoms_w (raw : bool) (w : wire) : list atom :=
  match w with
  | WData _ es d => map AByte d ++ ends es
  | WBlock _ None es pr _ fid _ => AHdr fid (norm_pr raw pr) :: ends es
  | WBlock _ (Some p) _ _ _ fid _ => [APush p fid]
  | WPrio _ p => [APrio p]
  | WRst _ c => [ARst c]
  | _ => []
  end.
Definition out_atoms (raw : bool) (x : side) (s : N) (evs : list event) : list atom :=
  flat_map (atoms_w raw) (on_stream s (to_side x evs)).

(* atoms of the frames endpoint y sent on stream s: a block counts where its
   END_HEADERS frame arrives *)
Fixpoint in_atoms_go (raw : bool) (pd : list atom) (s : N) (fs : list frame) : list atom :=
  match fs with
  | [] => []
  | f :: t =>
      match f with
      | FData k es d _ => (if N.eqb k s then map AByte d ++ ends es else []) ++ in_atoms_go raw pd s t
      | FHeaders k es eh pr fid _ =>
          let a := if N.eqb k s then AHdr fid (norm_pr raw pr) :: ends es else [] in
          if eh then a ++ in_atoms_go raw pd s t else in_atoms_go raw a s t
      | FPush k eh pm fid =>
          let a := if N.eqb k s then [APush pm fid] else [] in
          if eh then a ++ in_atoms_go raw pd s t else in_atoms_go raw a s t
      | FCont _ eh => if eh then pd ++ in_atoms_go raw [] s t else in_atoms_go raw pd s t
      | FPriority k p => (if N.eqb k s then [APrio p] else []) ++ in_atoms_go raw pd s t
      | FRst k c => (if N.eqb k s then [ARst c] else []) ++ in_atoms_go raw pd s t
      | _ => in_atoms_go raw pd s t
      end
  end.
Definition in_atoms (raw : bool) (y : side) (s : N) (ls : list label) : list atom :=
  in_atoms_go raw [] s (from y ls).

Definition atom_eqb (a b : atom) : bool :=
  match a, b with
  | AByte x, AByte y => Ascii.eqb x y
  | AEnd, AEnd => true
  | AHdr f p, AHdr g q =>
      N.eqb f g && match p, q with
                   | Some p', Some q' => prio_eqb p' q' | None, None => true | _, _ => false end
  | APush p f, APush q g => N.eqb p q && N.eqb f g
  | APrio p, APrio q => prio_eqb p q
  | ARst c, ARst d => N.eqb c d
  | _, _ => false
  end.
Fixpoint prefixb (a b : list atom) : bool :=
  match a, b with
  | [], _ => true
  | x :: a', y :: b' => atom_eqb x y && prefixb a' b'
  | _ :: _, [] => false
  end.
Definition is_prefix {A} (a b : list A) : Prop := exists c, b = a ++ c.

(* ----------------------------------------------------- wire equality (bool) *)
Definition kv_eqb (a b : list (N * N)) : bool :=
  (fix go a b := match a, b with
                 | [], [] => true
                 | (i, v) :: a', (j, w) :: b' => N.eqb i j && N.eqb v w && go a' b'
                 | _, _ => false end) a b.
Definition oprio_eqb (p q : option prio) : bool :=
  match p, q with Some a, Some b => prio_eqb a b | None, None => true | _, _ => false end.
Definition on_eqb (p q : option N) : bool :=
  match p, q with Some a, Some b => N.eqb a b | None, None => true | _, _ => false end.
Definition wire_eqb (a b : wire) : bool :=
  match a, b with
  | WData s e d, WData s' e' d' => N.eqb s s' && Bool.eqb e e' && bytes_eqb d d'
  | WBlock s p e pr q f t, WBlock s' p' e' pr' q' f' t' =>
      N.eqb s s' && on_eqb p p' && Bool.eqb e e' && oprio_eqb pr pr' && Nat.eqb q q' && N.eqb f f' && N.eqb t t'
  | WPrio s p, WPrio s' p' => N.eqb s s' && prio_eqb p p'
  | WRst s c, WRst s' c' => N.eqb s s' && N.eqb c c'
  | WSettings k, WSettings k' => kv_eqb k k'
  | WAck, WAck => true
  | WPing a d, WPing a' d' => Bool.eqb a a' && bytes_eqb d d'
  | WGoaway l c d, WGoaway l' c' d' => N.eqb l l' && N.eqb c c' && bytes_eqb d d'
  | WWin s n, WWin s' n' => N.eqb s s' && N.eqb n n'
  | _, _ => false
  end.
Fixpoint wires_eqb (a b : list wire) : bool :=
  match a, b with
  | [], [] => true
  | x :: a', y :: b' => wire_eqb x y && wires_eqb a' b'
  | _, _ => false
  end.

(* ================================================================== C09 == *)
Definition sides : list side := [Cl; Sv].
Definition upto (n : nat) : list nat := seq 0 (S n).
Definition pre {A} (k : nat) (l : list A) : list A := firstn k l.
Definition evs_to (k : nat) (o : obs) : list event := concat (firstn k o).

Definition conn_at (x : side) (k : nat) (ls : list label) (o : obs) : Z :=
  65535 + wus x 0 (pre k ls) - sentc x (evs_to k o).
Definition win_at (x : side) (s : N) (k : nat) (ls : list label) (o : obs) : Z :=
  init_of x (pre k ls) + wus x s (pre k ls) - sents x s (evs_to k o).

(* never more flow-controlled bytes on the connection than granted *)
Definition P_conn (ls : list label) (o : obs) : Prop :=
  forall k x, (k <= length o)%nat -> In x sides -> 0 <= conn_at x k ls o.
Definition b_conn (ls : list label) (o : obs) : bool :=
  forallb (fun k => forallb (fun x => Z.leb 0 (conn_at x k ls o)) sides) (upto (length o)).

(* nor on a stream: whenever a step delivers DATA on s, the total delivered
   is within what the receiver has granted as of that step *)
Definition P_stream (ls : list label) (o : obs) : Prop :=
  forall k x s, (k < length o)%nat -> In x sides -> In s (mentioned ls o) ->
    0 < sents x s (nth k o []) -> 0 <= win_at x s (S k) ls o.
Definition b_stream (ls : list label) (o : obs) : bool :=
  forallb (fun k => forallb (fun x => forallb (fun s =>
      negb (Z.ltb 0 (sents x s (nth k o []))) || Z.leb 0 (win_at x s (S k) ls o))
    (mentioned ls o)) sides) (seq 0 (length o)).

(* no DATA frame larger than the receiver's MAX_FRAME_SIZE in force when sent *)
Definition data_fits (m : N) (w : wire) : bool := Z.leb (dlen w) (Z.of_N m).
Definition P_frame (ls : list label) (o : obs) : Prop :=
  forall k x w, (k < length o)%nat -> In x sides -> In w (to_side x (nth k o [])) ->
    dlen w <= Z.of_N (maxf_of x (pre (S k) ls)).
Definition b_frame (ls : list label) (o : obs) : bool :=
  forallb (fun k => forallb (fun x =>
      forallb (data_fits (maxf_of x (pre (S k) ls))) (to_side x (nth k o []))) sides)
    (seq 0 (length o)).

(* credit returned = flow-controlled length accepted, stream and connection
   (stream 0 = the connection) *)
Definition P_credit (ls : list label) (o : obs) : Prop :=
  forall k y s, (k <= length o)%nat -> In y sides -> In s (0%N :: mentioned ls o) ->
    creds y s (evs_to k o) = (if N.eqb s 0 then fclc y (pre k ls) else fcls y s (pre k ls)).
Definition b_credit (ls : list label) (o : obs) : bool :=
  forallb (fun k => forallb (fun y => forallb (fun s =>
      Z.eqb (creds y s (evs_to k o)) (if N.eqb s 0 then fclc y (pre k ls) else fcls y s (pre k ls)))
    (0%N :: mentioned ls o)) sides) (upto (length o)).

(* never strands: after every step, the first accepted-but-undelivered frame of
   every stream does not fit the credit the receiver has granted *)
Definition delivered (x : side) (s : N) (evs : list event) : nat :=
  length (on_stream s (to_side x evs)).
Definition head_blocked (x : side) (s : N) (k : nat) (ls : list label) (o : obs) : bool :=
  match nth_error (accepted x s (pre k ls)) (delivered x s (evs_to k o)) with
  | None => true
  | Some h => Z.ltb (conn_at x k ls o) (fc h) || Z.ltb (win_at x s k ls o) (fc h)
  end.
Definition P_strand (ls : list label) (o : obs) : Prop :=
  forall k x s, (k <= length o)%nat -> In x sides -> In s (mentioned ls o) ->
    match nth_error (accepted x s (pre k ls)) (delivered x s (evs_to k o)) with
    | None => True
    | Some h => conn_at x k ls o < fc h \/ win_at x s k ls o < fc h
    end.
Definition b_strand (ls : list label) (o : obs) : bool :=
  forallb (fun k => forallb (fun x => forallb (fun s => head_blocked x s k ls o)
    (mentioned ls o)) sides) (upto (length o)).

Definition P09 (ls : list label) (o : obs) : Prop :=
  P_conn ls o /\ P_stream ls o /\ P_frame ls o /\ P_credit ls o /\ P_strand ls o.
Definition c09_ok (ls : list label) (o : obs) : bool :=
  b_conn ls o && b_stream ls o && b_frame ls o && b_credit ls o && b_strand ls o.

(* header / continuation fragments fit the max frame size (first fragment
   shares its frame with 5 octets of priority or 4 of promised stream id) *)
Definition chunks_fit (maxf : N) (has_prio is_push : bool) (chunks : list N) : bool :=
  match chunks with
  | [] => false
  | c :: t =>
      N.leb (c + (if is_push then 4 else if has_prio then 5 else 0)) maxf
      && forallb (fun c => N.leb c maxf) t
  end.

(* ================================================================== C08 == *)
(* per stream, what the other endpoint has received is a prefix (the rest is
   held back by its windows) of what was sent: same bytes, same header field
   lists under the receiver's own HPACK state, END_STREAM at the same place
   and nowhere else, same reset codes, priorities, promised ids *)
Definition P_faithful (raw : bool) (ls : list label) (o : obs) : Prop :=
  forall y s, In y sides -> In s (mentioned ls o) ->
    is_prefix (out_atoms raw (other y) s (concat o)) (in_atoms raw y s (pre (length o) ls)).
Definition b_faithful (raw : bool) (ls : list label) (o : obs) : bool :=
  forallb (fun y => forallb (fun s =>
      prefixb (out_atoms raw (other y) s (concat o)) (in_atoms raw y s (pre (length o) ls)))
    (mentioned ls o)) sides.

(* SETTINGS (and ACK), PING, GOAWAY forwarded with identical contents, in order *)
Definition P_direct (ls : list label) (o : obs) : Prop :=
  forall y, In y sides ->
    directs (other y) (concat o) = flat_map direct_of (from y (pre (length o) ls)).
Definition b_direct (ls : list label) (o : obs) : bool :=
  forallb (fun y => wires_eqb (directs (other y) (concat o))
                              (flat_map direct_of (from y (pre (length o) ls)))) sides.

(* "decode under ITS OWN HPACK state": the dynamic table the relay's encoder
   toward x uses never exceeds what x allows.  x's j-th SETTINGS frame is in
   force once the other endpoint's j-th SETTINGS ACK has been forwarded; until
   then x must accept both sizes.  Bound = max of the HEADER_TABLE_SIZE in force
   and of every value x announced in a SETTINGS frame not yet acknowledged. *)
Definition settings_of (x : side) (ls : list label) : list (list (N * N)) :=
  flat_map (fun f => match f with FSettings kv => [kv] | _ => [] end) (from x ls).
Definition acks_of (x : side) (ls : list label) : nat :=
  length (filter (fun f => match f with FSettingsAck => true | _ => false end) (from x ls)).
Definition tab1 (m : N) (kv : list (N * N)) : N :=
  fold_left (fun m p => if N.eqb (fst p) 1 then snd p else m) kv m.
Definition tab_last (cur : N) (kvs : list (list (N * N))) : N := fold_left tab1 kvs cur.
Definition tab_vals (kvs : list (list (N * N))) : list N :=
  flat_map (fun kv => flat_map (fun p => if N.eqb (fst p) 1 then [snd p] else []) kv) kvs.
Definition nmax (l : list N) (c : N) : N := fold_left N.max l c.
Definition tab_bound (x : side) (ls : list label) : N :=
  let kvs := settings_of x ls in
  let a := acks_of (other x) ls in
  nmax (tab_vals (skipn a kvs)) (tab_last 4096 (firstn a kvs)).
Definition tab_of (w : wire) : N := match w with WBlock _ _ _ _ _ _ t => t | _ => 0%N end.
Definition P_table (ls : list label) (o : obs) : Prop :=
  forall k x w, (k < length o)%nat -> In x sides -> In w (to_side x (nth k o [])) ->
    (tab_of w <= tab_bound x (pre (S k) ls))%N.
Definition b_table (ls : list label) (o : obs) : bool :=
  forallb (fun k => forallb (fun x =>
      forallb (fun w => N.leb (tab_of w) (tab_bound x (pre (S k) ls))) (to_side x (nth k o []))) sides)
    (seq 0 (length o)).
(* the size the relay's encoder toward x uses (model): x's latest announcement *)
Definition tabsz_of (x : side) (ls : list label) : N := tab_last 4096 (settings_of x ls).

Definition P08 (ls : list label) (o : obs) : Prop :=
  P_faithful false ls o /\ P_direct ls o /\ P_table ls o.
Definition c08_ok (ls : list label) (o : obs) : bool :=
  b_faithful false ls o && b_direct ls o && b_table ls o.
(* the PRIORITY flag of HEADERS itself (known finding C08-K1) *)
Definition c08_prio_ok (ls : list label) (o : obs) : bool := b_faithful true ls o.

(* header blocks reach each endpoint in the order they were HPACK-encoded *)
Definition block_seqs (x : side) (evs : list event) : list nat :=
  flat_map (fun w => match w with WBlock _ _ _ _ q _ _ => [q] | _ => [] end) (to_side x evs).

(* RFC 7540 validity of a script, as far as the relay is concerned: a header
   block opened by HEADERS or PUSH_PROMISE without END_HEADERS is continued by
   CONTINUATION frames on the same stream and nothing else from that endpoint;
   stream frames name a stream; increments are positive; SETTINGS values are
   in range (MAX_FRAME_SIZE 2^14..2^24-1, INITIAL_WINDOW_SIZE <= 2^31-1). *)
Definition setting_ok (p : N * N) : bool := setting_accept p.
Definition rfc_frame_ok (open : option N) (f : frame) : bool :=
  match open with
  | Some s => match f with FCont k _ => N.eqb k s | _ => false end
  | None =>
      match f with
      | FCont _ _ => false
      | FData s _ _ _ | FHeaders s _ _ _ _ _ | FPriority s _ | FRst s _ | FPush s _ _ _ => negb (N.eqb s 0)
      | FWinUpd _ inc => negb (N.eqb inc 0)
      | FSettings kv => forallb setting_ok kv
      | _ => true
      end
  end.
Definition rfc_open (open : option N) (f : frame) : option N :=
  match f with
  | FHeaders s _ eh _ _ _ | FPush s eh _ _ => if eh then None else Some s
  | FCont s eh => if eh then None else open
  | _ => open
  end.
Fixpoint rfc_valid_go (oc os : option N) (ls : list label) : bool :=
  match ls with
  | [] => true
  | l :: t =>
      match l_from l with
      | Cl => rfc_frame_ok oc (l_frame l) && rfc_valid_go (rfc_open oc (l_frame l)) os t
      | Sv => rfc_frame_ok os (l_frame l) && rfc_valid_go oc (rfc_open os (l_frame l)) t
      end
  end.
Definition rfc_valid (ls : list label) : bool := rfc_valid_go None None ls.
(* known finding C08-K2: the relay cannot take a continued PUSH_PROMISE *)
Definition no_open_push (ls : list label) : bool :=
  forallb (fun l => match l_frame l with FPush _ eh _ _ => eh | _ => true end) ls.

(* known finding C08-K3: the relay's Framer rejects HEADERS whose fragment is empty *)
Definition no_empty_hfrag (ls : list label) : bool :=
  forallb (fun l => match l_frame l with FHeaders _ _ _ _ _ e0 => negb e0 | _ => true end) ls.

(* model vs implementation, one step *)
Definition step_agrees (model real : list event) : bool :=
  forallb (fun x => wires_eqb (to_side x model) (to_side x real)) sides.

(* ---- everything sent has been delivered (used when the windows never bind, e.g. the
   concurrent end-to-end runs): equality instead of prefix *)
Definition atoms_eqb (a b : list atom) : bool := prefixb a b && prefixb b a.
Definition P_complete (ls : list label) (o : obs) : Prop :=
  forall y s, In y sides -> In s (mentioned ls o) ->
    out_atoms false (other y) s (concat o) = in_atoms false y s (pre (length o) ls).
Definition b_complete (ls : list label) (o : obs) : bool :=
  forallb (fun y => forallb (fun s =>
      atoms_eqb (out_atoms false (other y) s (concat o)) (in_atoms false y s (pre (length o) ls)))
    (mentioned ls o)) sides.
(* credit at the end of the run only (no attribution of frames to labels needed) *)
Definition P_credit_final (ls : list label) (o : obs) : Prop :=
  forall y s, In y sides -> In s (0%N :: mentioned ls o) ->
    creds y s (concat o) = (if N.eqb s 0 then fclc y (pre (length o) ls) else fcls y s (pre (length o) ls)).
Definition b_credit_final (ls : list label) (o : obs) : bool :=
  forallb (fun y => forallb (fun s =>
      Z.eqb (creds y s (concat o)) (if N.eqb s 0 then fclc y (pre (length o) ls) else fcls y s (pre (length o) ls)))
    (0%N :: mentioned ls o)) sides.
Definition nsum (l : list N) : N := fold_right N.add 0%N l.
