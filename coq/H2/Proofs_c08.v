(* C08: what each endpoint receives on a stream is what was sent (model). *)
From Coq Require Import List NArith ZArith Bool Ascii Arith Lia.
From Martian.H2 Require Import Model Spec Proofs_base Proofs_flow Proofs_act Proofs_run Proofs_script Proofs_props.
Import ListNotations.
Open Scope Z_scope.

Definition atoms_q (q : qframe) : list atom := atoms_w false (qwire 0 q).

Lemma atoms_w_unq w : wsid w <> None ->
  atoms_w false w = match unq w with Some q => atoms_q q | None => [] end.
Proof.
  destruct w; simpl; intros H; try congruence; try reflexivity.
  destruct push; [reflexivity|]. unfold atoms_q. simpl.
  destruct pr as [p|]; simpl.
  - destruct (prio_is_zero p) eqn:E; simpl; [reflexivity|]. rewrite E. reflexivity.
  - reflexivity.
Qed.

Lemma out_atoms_emq s ws :
  flat_map (atoms_w false) (on_stream s ws) = flat_map atoms_q (emq (on_stream s ws)).
Proof.
  unfold on_stream, emq. induction ws as [|w t IH]; simpl; auto.
  destruct (wsid w) as [k|] eqn:E; [|assumption]. destruct (N.eqb k s); [|assumption]. simpl.
  rewrite atoms_w_unq by congruence. destruct (unq w); simpl; rewrite IH; reflexivity.
Qed.

(* ---- splitting DATA preserves the bytes, the stream and END_STREAM *)
Lemma split_data_atoms fuel : forall maxf s es d qs,
  split_data fuel maxf s es d = Some qs ->
  flat_map atoms_q qs = map AByte d ++ ends es /\ Forall (fun q => qsid q = s) qs
  /\ Forall (fun q => fc q <= Z.of_N maxf) qs.
Proof.
  induction fuel as [|k IH]; intros maxf s es d qs H; simpl in H; [discriminate|].
  set (n := if N.leb (N.of_nat (length d)) maxf then length d else N.to_nat maxf) in *.
  assert (Hn : Z.of_nat (length (firstn n d)) <= Z.of_N maxf).
  { rewrite firstn_length. unfold n. destruct (N.leb (N.of_nat (length d)) maxf) eqn:E.
    - apply N.leb_le in E. lia.
    - lia. }
  destruct (skipn n d) as [|b rest] eqn:SK.
  - inversion H; subst. unfold atoms_q. simpl. rewrite app_nil_r.
    assert (firstn n d = d).
    { rewrite <- (firstn_skipn n d) at 2. rewrite SK, app_nil_r. reflexivity. }
    rewrite H0. repeat split; repeat constructor. simpl. unfold blen. rewrite <- H0. assumption.
  - destruct (split_data k maxf s es (b :: rest)) as [qs'|] eqn:R; [|discriminate].
    inversion H; subst. destruct (IH _ _ _ _ _ R) as (A1 & A2 & A3).
    simpl. unfold atoms_q at 1. simpl. rewrite A1, app_nil_r, app_assoc, <- map_app, <- SK, firstn_skipn.
    repeat split; auto; constructor; auto.
Qed.

(* ---- dispatch layer vs the stream content sent by endpoint y *)
Fixpoint fexec (f : fstate) (ls : list label) : bool :=
  match ls with
  | [] => true
  | l :: t => match front f (l_from l) (l_frame l) with
              | Some (f', _) => fexec f' t
              | None => false
              end
  end.

Lemma run_fexec ls : forall st st' o, run st ls = (st', o) -> length o = length ls -> fexec (sf st) ls = true.
Proof.
  induction ls as [|l t IH]; intros st st' o H Hl; simpl in *; [reflexivity|].
  unfold step in H. destruct (front (sf st) (l_from l) (l_frame l)) as [[f' acts]|]; [|inversion H; subst; discriminate].
  destruct (bsteps (f_tab f') (sb st) (l_order l) acts) as [b' e]. destruct (run (mkS f' b') t) as [st2 r] eqn:R.
  inversion H; subst. simpl in Hl. apply (IH (mkS f' b') _ _ R). lia.
Qed.

Definition pd_ok (f : fstate) (y : side) (s : N) (pd : list atom) : Prop :=
  match f_cont f y with
  | Some p => pd = if N.eqb (pend_sid p) s then atoms_q (pend_q p) else []
  | None => True
  end.

Definition enq_atoms (z : side) (s : N) (acts : list action) : list atom :=
  flat_map atoms_q (q_on s (enq_of z acts)).
Lemma enq_atoms_app z s a b : enq_atoms z s (a ++ b) = enq_atoms z s a ++ enq_atoms z s b.
Proof. unfold enq_atoms. rewrite enq_of_app, q_on_app, flat_map_app. reflexivity. Qed.

Lemma f_cont_set_same f y c : f_cont (set_cont f y c) y = c.
Proof. destruct y; reflexivity. Qed.
Lemma f_cont_set_other f y z c : z <> y -> f_cont (set_cont f y c) z = f_cont f z.
Proof. destruct y, z; simpl; intros; congruence. Qed.
Lemma f_cont_set_maxf f y z v : f_cont (set_maxf f y v) z = f_cont f z.
Proof. destruct y, z; reflexivity. Qed.
Lemma f_cont_set_tab f y z v : f_cont (set_tab f y v) z = f_cont f z.
Proof. destruct y, z; reflexivity. Qed.

Lemma enq_of_map_enq z qs : enq_of z (map (AEnq z) qs) = qs.
Proof. unfold enq_of. induction qs; simpl; auto. rewrite side_eqb_refl. simpl. f_equal. assumption. Qed.
Lemma enq_of_settings z y kv : enq_of z (settings_actions y kv) = [].
Proof. unfold enq_of, settings_actions. destruct (last_occ 4 kv); reflexivity. Qed.

Lemma q_on_all s qs : Forall (fun q => qsid q = s) qs -> q_on s qs = qs.
Proof. unfold q_on. induction 1 as [|q l H _ IH]; simpl; auto. rewrite H, N.eqb_refl, IH. reflexivity. Qed.
Lemma q_on_none k s qs : k <> s -> Forall (fun q => qsid q = k) qs -> q_on s qs = [].
Proof. unfold q_on. intros Hn. induction 1 as [|q l H _ IH]; simpl; auto. rewrite H. apply N.eqb_neq in Hn. rewrite Hn. exact IH. Qed.

(* frames of the other endpoint neither enqueue toward it nor touch y's open block *)
Lemma front_other f z fr f' acts y s :
  front f z fr = Some (f', acts) -> z <> y ->
  f_cont f' y = f_cont f y /\ enq_atoms (other y) s acts = [].
Proof.
  intros H Hz. assert (Hoz : other z = y) by (destruct z, y; simpl; congruence).
  assert (E : side_eqb y (other y) = false) by (destruct y; reflexivity).
  unfold front in H. destruct (negb (frame_ok (f_cont f z) fr)); [discriminate|].
  unfold enq_atoms.
  destruct fr as [k es d pad|k es eh pr fid e0|k eh|k p|k c|kv| |k eh pm fid|a d|l c d|k inc].
  - destruct (split_data _ _ k es d) as [qs|]; [|discriminate]. inversion H; subst. split; [reflexivity|].
    rewrite enq_of_app. replace (enq_of (other (other z)) (map (AEnq (other z)) qs)) with (@nil qframe).
    + destruct (N.eqb (fcl d pad) 0); reflexivity.
    + clear H. unfold enq_of. induction qs as [|a0 qs IHq]; simpl; auto. rewrite E. simpl. exact IHq.
  - destruct eh; inversion H; subst; simpl; rewrite ?f_cont_set_other by congruence; rewrite ?E; auto.
  - destruct (f_cont f z); [|discriminate]. destruct eh; inversion H; subst; simpl;
      rewrite ?f_cont_set_other by congruence; rewrite ?E; auto.
  - inversion H; subst; simpl. rewrite E. auto.
  - inversion H; subst; simpl. rewrite E. auto.
  - inversion H; subst. rewrite f_cont_set_tab, f_cont_set_maxf. split; [reflexivity|].
    rewrite enq_of_app, enq_of_settings. reflexivity.
  - inversion H; subst; simpl. auto.
  - destruct eh; inversion H; subst; simpl; rewrite ?E; auto.
  - inversion H; subst; simpl. auto.
  - inversion H; subst; simpl. auto.
  - inversion H; subst; simpl. destruct (N.eqb k 0); auto.
Qed.

Lemma atoms_front y s ls : forall f pd,
  pd_ok f y s pd -> fexec f ls = true ->
  enq_atoms (other y) s (front_run f ls) = in_atoms_go false pd s (from y ls).
Proof.
  induction ls as [|l t IH]; intros f pd Hpd Hex; simpl in *; [reflexivity|].
  destruct (front f (l_from l) (l_frame l)) as [[f' acts]|] eqn:F; [|discriminate].
  rewrite enq_atoms_app. unfold from in *. simpl.
  destruct (side_eqb (l_from l) y) eqn:E.
  2:{ assert (Hz : l_from l <> y) by (intros Heq; rewrite Heq, side_eqb_refl in E; discriminate).
      destruct (front_other _ _ _ _ _ y s F Hz) as (Hc & ->). simpl.
      apply IH; [|assumption]. unfold pd_ok in *. rewrite Hc. assumption. }
  apply side_eqb_eq in E. simpl. set (fr := l_frame l) in *. rewrite E in F. clear E.
  unfold front in F. destruct (negb (frame_ok (f_cont f y) fr)) eqn:OK; [discriminate|].
  apply negb_false_iff in OK. unfold enq_atoms at 1.
  destruct fr as [k es d pad|k es eh pr fid e0|k eh|k p|k c|kv| |k eh pm fid|a d|l0 c d|k inc].
  - destruct (split_data _ _ k es d) as [qs|] eqn:SP; [|discriminate]. inversion F; subst.
    destruct (split_data_atoms _ _ _ _ _ _ SP) as (A1 & A2 & _).
    rewrite enq_of_app, enq_of_map_enq.
    replace (enq_of (other y) (if N.eqb (fcl d pad) 0 then [] else [ACredit y 0 (fcl d pad); ACredit y k (fcl d pad)]))
      with (@nil qframe).
    2:{ destruct (N.eqb (fcl d pad) 0); reflexivity. }
    simpl. f_equal; [|apply IH; assumption].
    destruct (N.eqb k s) eqn:K.
    + apply N.eqb_eq in K. subst. rewrite q_on_all by assumption. assumption.
    + apply N.eqb_neq in K. rewrite (q_on_none k s) by assumption. reflexivity.
  - destruct eh; inversion F; subst; simpl.
    + rewrite side_eqb_refl. simpl. f_equal; [|apply IH; assumption].
      unfold q_on. simpl. destruct (N.eqb k s); simpl; [|reflexivity]. rewrite app_nil_r.
      unfold atoms_q. simpl. destruct pr as [p|]; simpl; [|reflexivity].
      destruct (prio_is_zero p) eqn:Z0; simpl; [reflexivity|rewrite Z0; reflexivity].
    + apply IH; [|assumption]. unfold pd_ok. rewrite f_cont_set_same. simpl.
      destruct (N.eqb k s); [|reflexivity]. unfold atoms_q. simpl.
      destruct pr as [p|]; simpl; [|reflexivity].
      destruct (prio_is_zero p) eqn:Z0; simpl; [reflexivity|rewrite Z0; reflexivity].
  - destruct (f_cont f y) as [p|] eqn:Cn; [|discriminate]. unfold pd_ok in Hpd. rewrite Cn in Hpd.
    simpl in OK. apply N.eqb_eq in OK. subst k.
    destruct eh; inversion F; subst; simpl.
    + rewrite side_eqb_refl. simpl. f_equal.
      * unfold q_on. simpl. destruct p; simpl. destruct (N.eqb s0 s); simpl; [rewrite app_nil_r|]; reflexivity.
      * apply IH; [|assumption]. unfold pd_ok. rewrite f_cont_set_same. exact I.
    + apply IH; [|assumption]. unfold pd_ok. rewrite Cn. reflexivity.
  - inversion F; subst; simpl. rewrite side_eqb_refl. simpl. f_equal; [|apply IH; assumption].
    unfold q_on. simpl. destruct (N.eqb k s); reflexivity.
  - inversion F; subst; simpl. rewrite side_eqb_refl. simpl. f_equal; [|apply IH; assumption].
    unfold q_on. simpl. destruct (N.eqb k s); reflexivity.
  - inversion F; subst. rewrite enq_of_app, enq_of_settings. simpl.
    apply IH; [|assumption]. unfold pd_ok in *. rewrite f_cont_set_tab, f_cont_set_maxf. assumption.
  - inversion F; subst; simpl. apply IH; assumption.
  - destruct eh; inversion F; subst; simpl.
    + rewrite side_eqb_refl. simpl. f_equal; [|apply IH; assumption].
      unfold q_on. simpl. destruct (N.eqb k s); reflexivity.
    + apply IH; [|assumption]. unfold pd_ok in *.
      destruct (f_cont f' y); [discriminate|exact I].
  - inversion F; subst; simpl. apply IH; assumption.
  - inversion F; subst; simpl. apply IH; assumption.
  - inversion F; subst; simpl. destruct (N.eqb k 0); simpl; apply IH; assumption.
Qed.

Lemma run_exec ls : forall st st' o, run st ls = (st', o) -> run st (firstn (length o) ls) = (st', o).
Proof.
  induction ls as [|l t IH]; intros st st' o H; simpl in H.
  - inversion H; subst. reflexivity.
  - destruct (step st l) as [[sa e]|] eqn:S.
    + destruct (run sa t) as [sb r] eqn:R. inversion H; subst. simpl. rewrite S, (IH _ _ _ R). reflexivity.
    + inversion H; subst. reflexivity.
Qed.

Lemma sinv_exec ls st o : run s0 ls = (st, o) ->
  sinv (firstn (length o) ls) o st /\ fexec f0 (firstn (length o) ls) = true.
Proof.
  intros R. pose proof (run_exec _ _ _ _ R) as Rk. pose proof (run_length _ _ _ _ R) as Hl.
  assert (Hfull : length o = length (firstn (length o) ls)) by (rewrite firstn_length; lia).
  split; [apply sinv_run; assumption|]. apply (run_fexec _ _ _ _ Rk Hfull).
Qed.

(* per stream: delivered ++ still queued = sent (atoms) *)
Theorem model_stream_faithful ls st o y s :
  run s0 ls = (st, o) ->
  out_atoms false (other y) s (concat o) ++ flat_map atoms_q (qs_of (getf (sb st) (other y)) s)
  = in_atoms false y s (firstn (length o) ls).
Proof.
  intros R. destruct (sinv_exec _ _ _ R) as (I & Hex).
  destruct (si_b _ _ _ I (other y)) as [C _].
  unfold out_atoms, in_atoms. rewrite out_atoms_emq, <- flat_map_app.
  rewrite (c_cons _ _ _ _ _ _ _ C s).
  apply (atoms_front y s _ f0 []); [destruct y; exact Logic.I|assumption].
Qed.

Theorem model_P_faithful ls st o : run s0 ls = (st, o) -> P_faithful false ls o.
Proof.
  intros R y s _ _. unfold is_prefix, pre.
  eexists. symmetry. apply (model_stream_faithful _ _ _ y s R).
Qed.

Theorem model_P_direct ls st o : run s0 ls = (st, o) -> P_direct ls o.
Proof.
  intros R y _. destruct (sinv_exec _ _ _ R) as (I & _). unfold pre. apply (si_dir _ _ _ I).
Qed.

(* header blocks reach each endpoint in the order they were HPACK-encoded *)
Theorem model_block_order ls st o x :
  run s0 ls = (st, o) -> block_seqs x (concat o) = seq 0 (length (block_seqs x (concat o))).
Proof.
  intros R. destruct (sinv_exec _ _ _ R) as (I & _). destruct (si_b _ _ _ I x) as [C _].
  rewrite (c_seq _ _ _ _ _ _ _ C), seq_length. reflexivity.
Qed.
