(* Flow layer: invariants of one relay direction under every action, for every
   sweep order.  Ledgers are passed as values so that intermediate states of an
   action (e.g. between the connection-window sweep and the stream-0 update of
   updateWindow) can be described. *)
From Coq Require Import List NArith ZArith Bool Ascii Arith Lia.
From Martian.H2 Require Import Model Spec Proofs_base.
Import ListNotations.
Open Scope Z_scope.

Definition qs_of (fl : flow) (s : N) : list qframe :=
  match lookup s (strs fl) with Some (_, q) => q | None => [] end.

Record core (x : side) (wuc : Z) (wus : N -> Z) (ini : Z) (enq : N -> list qframe)
            (evs : list event) (fl : flow) : Prop := mkCore {
  c_conn : conn fl = 65535 + wuc - sentc x evs;
  c_init : init fl = ini;
  c_win : forall s w q, lookup s (strs fl) = Some (w, q) -> w = ini + wus s - sents x s evs;
  c_cons : forall s, emq (on_stream s (to_side x evs)) ++ qs_of fl s = enq s;
  c_pos : 0 <= conn fl;
  c_none : forall s, lookup s (strs fl) = None -> wus s = 0 /\ sents x s evs = 0 /\ enq s = [];
  c_seq : block_seqs x evs = seq 0 (enc fl);
  c_sid : forall s w q, lookup s (strs fl) = Some (w, q) -> Forall (fun f => qsid f = s) q
}.

Definition blk (fl : flow) (s : N) : Prop :=
  forall w q, lookup s (strs fl) = Some (w, q) -> blocked q w (conn fl).

(* ------------------------------------------------------------ emit_stream *)
Lemma emit_stream_none fl s : lookup s (strs fl) = None -> emit_stream fl s = (fl, []).
Proof. unfold emit_stream. intros ->. reflexivity. Qed.

Lemma emit_stream_some fl s w q fl' ws :
  lookup s (strs fl) = Some (w, q) -> emit_stream fl s = (fl', ws) ->
  exists em q2, q = em ++ q2 /\ ws = qwires (enc fl) em
    /\ fl' = mkFlow (conn fl - sumfc em) (init fl) (enc fl + nblocks em) (upd s (w - sumfc em, q2) (strs fl))
    /\ blocked q2 (w - sumfc em) (conn fl - sumfc em)
    /\ (0 <= conn fl -> 0 <= conn fl - sumfc em) /\ (0 < sumfc em -> 0 <= w - sumfc em).
Proof.
  unfold emit_stream. intros -> H.
  destruct (drain q w (conn fl) (enc fl)) as [[[[q2 w2] c2] e2] ws2] eqn:D.
  inversion H; subst. apply drain_spec in D.
  destruct D as (em & Hq & Hws & Hw & Hc & He & Hb & Hc0 & Hw0). subst.
  exists em, q2. repeat split; auto.
Qed.

Lemma block_seqs_tag x ws : block_seqs x (tag x ws) = wseqs ws.
Proof. unfold block_seqs. rewrite to_side_tag_same. reflexivity. Qed.
Lemma sentc_tag x ws : sentc x (tag x ws) = zsum (map dlen ws).
Proof. unfold sentc. rewrite to_side_tag_same. reflexivity. Qed.
Lemma sents_tag x s ws : sents x s (tag x ws) = zsum (map dlen (on_stream s ws)).
Proof. unfold sents. rewrite to_side_tag_same. reflexivity. Qed.

Lemma emit_core x wuc wus ini enq evs fl s fl' ws :
  core x wuc wus ini enq evs fl -> emit_stream fl s = (fl', ws) ->
  core x wuc wus ini enq (evs ++ tag x ws) fl'.
Proof.
  intros C H. destruct (lookup s (strs fl)) as [[w q]|] eqn:L.
  - destruct (emit_stream_some _ _ _ _ _ _ L H) as (em & q2 & Hq & Hws & Hfl & Hb & Hc0 & Hw0).
    pose proof (c_sid _ _ _ _ _ _ _ C _ _ _ L) as Hsid. subst q.
    apply Forall_app in Hsid. destruct Hsid as [Hsem Hsq2].
    subst fl' ws. constructor; cbn [conn init enc strs].
    + rewrite sentc_app, sentc_tag, dlen_qwires. rewrite (c_conn _ _ _ _ _ _ _ C). (unfold sumfc in *; lia).
    + apply (c_init _ _ _ _ _ _ _ C).
    + intros k w' q' Hk. destruct (N.eq_dec k s) as [->|Hn].
      * rewrite lookup_upd_same in Hk. inversion Hk; subst.
        rewrite sents_app, sents_tag, on_stream_qwires, dlen_qwires by assumption.
        rewrite (c_win _ _ _ _ _ _ _ C _ _ _ L). (unfold sumfc in *; lia).
      * rewrite lookup_upd_other in Hk by assumption.
        rewrite sents_app, sents_tag, (on_stream_qwires_other s k) by assumption.
        simpl. rewrite (c_win _ _ _ _ _ _ _ C _ _ _ Hk). (unfold sumfc in *; lia).
    + intros k. rewrite to_side_app, to_side_tag_same, on_stream_app, emq_app.
      pose proof (c_cons _ _ _ _ _ _ _ C k) as Hc. unfold qs_of in *. simpl.
      destruct (N.eq_dec k s) as [->|Hn].
      * rewrite lookup_upd_same. rewrite L in Hc. rewrite on_stream_qwires, emq_qwires by assumption.
        rewrite <- Hc. rewrite <- !app_assoc. reflexivity.
      * rewrite lookup_upd_other by assumption.
        rewrite (on_stream_qwires_other s k) by assumption. simpl. rewrite app_nil_r. exact Hc.
    + apply Hc0. apply (c_pos _ _ _ _ _ _ _ C).
    + intros k Hk. destruct (N.eq_dec k s) as [->|Hn].
      * rewrite lookup_upd_same in Hk. discriminate.
      * rewrite lookup_upd_other in Hk by assumption.
        destruct (c_none _ _ _ _ _ _ _ C _ Hk) as (A & B & D). repeat split; auto.
        rewrite sents_app, sents_tag, (on_stream_qwires_other s k) by assumption. simpl. (unfold sumfc in *; lia).
    + rewrite block_seqs_app, block_seqs_tag, wseqs_qwires, (c_seq _ _ _ _ _ _ _ C).
      rewrite <- seq_app. reflexivity.
    + intros k w' q' Hk. destruct (N.eq_dec k s) as [->|Hn].
      * rewrite lookup_upd_same in Hk. inversion Hk; subst. assumption.
      * rewrite lookup_upd_other in Hk by assumption. apply (c_sid _ _ _ _ _ _ _ C _ _ _ Hk).
  - rewrite emit_stream_none in H by assumption. inversion H; subst. simpl.
    unfold tag. simpl. rewrite app_nil_r. assumption.
Qed.

Lemma emit_blk fl s fl' ws :
  emit_stream fl s = (fl', ws) ->
  blk fl' s /\ (forall k, blk fl k -> blk fl' k) /\ conn fl' <= conn fl
  /\ (forall k, lookup k (strs fl) = None <-> lookup k (strs fl') = None).
Proof.
  intros H. destruct (lookup s (strs fl)) as [[w q]|] eqn:L.
  - destruct (emit_stream_some _ _ _ _ _ _ L H) as (em & q2 & Hq & Hws & Hfl & Hb & Hc0 & Hw0).
    pose proof (sumfc_nonneg em) as Hnn. subst fl'. unfold blk. cbn [conn init enc strs]. repeat split.
    + intros w' q' Hk. rewrite lookup_upd_same in Hk. inversion Hk; subst. assumption.
    + intros k Hk w' q' Hl. destruct (N.eq_dec k s) as [->|Hn].
      * rewrite lookup_upd_same in Hl. inversion Hl; subst. assumption.
      * rewrite lookup_upd_other in Hl by assumption. specialize (Hk _ _ Hl).
        unfold blocked in *. destruct q'; auto. lia.
    + lia.
    + intros Hk. destruct (N.eq_dec k s) as [->|Hn]; [congruence|].
      rewrite lookup_upd_other; assumption.
    + intros Hk. destruct (N.eq_dec k s) as [->|Hn].
      * rewrite lookup_upd_same in Hk. discriminate.
      * rewrite lookup_upd_other in Hk; assumption.
  - rewrite emit_stream_none in H by assumption. inversion H; subst.
    repeat split; auto; try lia; try tauto. intros w q Hl. congruence.
Qed.

(* ------------------------------------------------------------------ sweep *)
Lemma sweep_list_core x wuc wus ini enq ss : forall evs fl fl' ws,
  core x wuc wus ini enq evs fl -> sweep_list fl ss = (fl', ws) ->
  core x wuc wus ini enq (evs ++ tag x ws) fl'.
Proof.
  induction ss as [|s t IH]; intros evs fl fl' ws C H; simpl in H.
  - inversion H; subst. unfold tag. simpl. rewrite app_nil_r. assumption.
  - destruct (emit_stream fl s) as [x1 w1] eqn:E1.
    destruct (sweep_list x1 t) as [x2 w2] eqn:E2. inversion H; subst.
    unfold tag. rewrite map_app, app_assoc. apply (IH _ _ _ _ (emit_core _ _ _ _ _ _ _ _ _ _ C E1) E2).
Qed.

Lemma sweep_list_blk ss : forall fl fl' ws,
  sweep_list fl ss = (fl', ws) ->
  (forall k, blk fl k \/ In k ss -> blk fl' k).
Proof.
  induction ss as [|s t IH]; intros fl fl' ws H k Hk; simpl in H.
  - inversion H; subst. destruct Hk as [?|[]]; assumption.
  - destruct (emit_stream fl s) as [x1 w1] eqn:E1.
    destruct (sweep_list x1 t) as [x2 w2] eqn:E2. inversion H; subst.
    destruct (emit_blk _ _ _ _ E1) as (Hs & Hmono & _).
    apply (IH _ _ _ E2). destruct Hk as [Hk|[->|Hk]]; auto.
Qed.

Lemma mem_in s l : mem s l = true <-> In s l.
Proof.
  unfold mem. rewrite existsb_exists. split.
  - intros (y & Hy & E). apply N.eqb_eq in E. subst. assumption.
  - intros H. exists s. split; auto. apply N.eqb_refl.
Qed.
Lemma norm_order_covers order ks k : In k ks -> In k (norm_order order ks).
Proof.
  intros H. unfold norm_order. apply in_or_app.
  destruct (mem k (dedup (filter (fun s => mem s ks) order))) eqn:E.
  - left. apply mem_in. assumption.
  - right. apply filter_In. split; auto. rewrite E. reflexivity.
Qed.

Lemma blk_none fl k : lookup k (strs fl) = None -> blk fl k.
Proof. intros H w q Hl. congruence. Qed.

Lemma sweep_all_blk fl order fl' ws : sweep fl order = (fl', ws) -> forall k, blk fl' k.
Proof.
  unfold sweep. intros H k.
  destruct (lookup k (strs fl)) eqn:L.
  - apply (sweep_list_blk _ _ _ _ H). right. apply norm_order_covers.
    apply lookup_in_keys. congruence.
  - apply (sweep_list_blk _ _ _ _ H). left. apply blk_none. assumption.
Qed.

(* ------------------------------------------------ state updates of actions *)
Lemma lookup_map f l s :
  lookup s (map (fun kv : N * strm => (fst kv, f (snd kv))) l) = option_map f (lookup s l).
Proof.
  induction l as [|[k v] t IH]; simpl; auto. destruct (N.eqb k s); auto.
Qed.

Lemma ensure_spec fl s :
  init (ensure fl s) = init fl /\ conn (ensure fl s) = conn fl /\ enc (ensure fl s) = enc fl
  /\ (forall k, k <> s -> lookup k (strs (ensure fl s)) = lookup k (strs fl))
  /\ lookup s (strs (ensure fl s)) =
       match lookup s (strs fl) with Some v => Some v | None => Some (init fl, []) end.
Proof.
  unfold ensure. destruct (lookup s (strs fl)) eqn:L; simpl.
  - repeat split; auto.
  - repeat split; auto.
    + intros k Hk. apply lookup_upd_other. assumption.
    + apply lookup_upd_same.
Qed.

Lemma core_ensure x wuc wus ini enq evs fl s :
  core x wuc wus ini enq evs fl -> core x wuc wus ini enq evs (ensure fl s).
Proof.
  intros C. destruct (ensure_spec fl s) as (Hi & Hc & He & Ho & Hs).
  destruct (lookup s (strs fl)) as [v|] eqn:L.
  { unfold ensure. rewrite L. assumption. }
  destruct (c_none _ _ _ _ _ _ _ C _ L) as (Hw & Hse & Hen).
  constructor.
  - rewrite Hc. apply (c_conn _ _ _ _ _ _ _ C).
  - rewrite Hi. apply (c_init _ _ _ _ _ _ _ C).
  - intros k w q Hk. destruct (N.eq_dec k s) as [->|Hn].
    + rewrite Hs in Hk. inversion Hk; subst. rewrite (c_init _ _ _ _ _ _ _ C). lia.
    + rewrite Ho in Hk by assumption. apply (c_win _ _ _ _ _ _ _ C _ _ _ Hk).
  - intros k. pose proof (c_cons _ _ _ _ _ _ _ C k) as Hk. unfold qs_of in *.
    destruct (N.eq_dec k s) as [->|Hn].
    + rewrite Hs. rewrite L in Hk. assumption.
    + rewrite Ho by assumption. assumption.
  - rewrite Hc. apply (c_pos _ _ _ _ _ _ _ C).
  - intros k Hk. destruct (N.eq_dec k s) as [->|Hn].
    + rewrite Hs in Hk. discriminate.
    + rewrite Ho in Hk by assumption. apply (c_none _ _ _ _ _ _ _ C _ Hk).
  - rewrite He. apply (c_seq _ _ _ _ _ _ _ C).
  - intros k w q Hk. destruct (N.eq_dec k s) as [->|Hn].
    + rewrite Hs in Hk. inversion Hk; subst. constructor.
    + rewrite Ho in Hk by assumption. apply (c_sid _ _ _ _ _ _ _ C _ _ _ Hk).
Qed.

Lemma blk_ensure fl s k : blk fl k -> blk (ensure fl s) k.
Proof.
  intros B w q Hk. destruct (ensure_spec fl s) as (Hi & Hc & He & Ho & Hs). rewrite Hc.
  destruct (N.eq_dec k s) as [->|Hn].
  - rewrite Hs in Hk. destruct (lookup s (strs fl)) eqn:L.
    + inversion Hk; subst. apply B. assumption.
    + inversion Hk; subst. simpl. trivial.
  - rewrite Ho in Hk by assumption. apply B. assumption.
Qed.

Lemma ensure_some fl s : exists w q, lookup s (strs (ensure fl s)) = Some (w, q).
Proof.
  destruct (ensure_spec fl s) as (_ & _ & _ & _ & Hs). rewrite Hs.
  destruct (lookup s (strs fl)) as [[w q]|]; eauto.
Qed.

(* push_q: enqueue on an existing stream *)
Lemma core_push x wuc wus ini enq evs fl f w q :
  let s := qsid f in
  lookup s (strs fl) = Some (w, q) ->
  core x wuc wus ini enq evs fl ->
  core x wuc wus ini (fun k => if N.eqb k s then enq k ++ [f] else enq k) evs (push_q fl s f)
  /\ (forall k, k <> s -> blk fl k -> blk (push_q fl s f) k)
  /\ lookup s (strs (push_q fl s f)) = Some (w, q ++ [f]).
Proof.
  intros s L C. unfold push_q. rewrite L. split; [|split].
  - constructor; cbn [conn init enc strs].
    + apply (c_conn _ _ _ _ _ _ _ C).
    + apply (c_init _ _ _ _ _ _ _ C).
    + intros k w' q' Hk. destruct (N.eq_dec k s) as [->|Hn].
      * rewrite lookup_upd_same in Hk. inversion Hk; subst. apply (c_win _ _ _ _ _ _ _ C _ _ _ L).
      * rewrite lookup_upd_other in Hk by assumption. apply (c_win _ _ _ _ _ _ _ C _ _ _ Hk).
    + intros k. pose proof (c_cons _ _ _ _ _ _ _ C k) as Hk. unfold qs_of in *. simpl.
      destruct (N.eq_dec k s) as [->|Hn].
      * rewrite lookup_upd_same, N.eqb_refl. rewrite L in Hk. rewrite <- Hk, app_assoc. reflexivity.
      * rewrite lookup_upd_other by assumption. apply N.eqb_neq in Hn. rewrite Hn. assumption.
    + apply (c_pos _ _ _ _ _ _ _ C).
    + intros k Hk. destruct (N.eq_dec k s) as [->|Hn].
      * rewrite lookup_upd_same in Hk. discriminate.
      * rewrite lookup_upd_other in Hk by assumption. apply N.eqb_neq in Hn. rewrite Hn.
        apply (c_none _ _ _ _ _ _ _ C _ Hk).
    + apply (c_seq _ _ _ _ _ _ _ C).
    + intros k w' q' Hk. destruct (N.eq_dec k s) as [->|Hn].
      * rewrite lookup_upd_same in Hk. inversion Hk; subst. apply Forall_app. split.
        -- apply (c_sid _ _ _ _ _ _ _ C _ _ _ L).
        -- constructor; auto.
      * rewrite lookup_upd_other in Hk by assumption. apply (c_sid _ _ _ _ _ _ _ C _ _ _ Hk).
  - intros k Hn B w' q' Hk. simpl in *. rewrite lookup_upd_other in Hk by assumption. apply B. assumption.
  - simpl. apply lookup_upd_same.
Qed.

(* add_win: window update on an existing stream *)
Lemma core_addwin x wuc wus ini enq evs fl s d w q :
  lookup s (strs fl) = Some (w, q) ->
  core x wuc wus ini enq evs fl ->
  core x wuc (fun k => if N.eqb k s then wus k + d else wus k) ini enq evs (add_win fl s d)
  /\ (forall k, k <> s -> blk fl k -> blk (add_win fl s d) k).
Proof.
  intros L C. unfold add_win. rewrite L. split.
  - constructor; cbn [conn init enc strs].
    + apply (c_conn _ _ _ _ _ _ _ C).
    + apply (c_init _ _ _ _ _ _ _ C).
    + intros k w' q' Hk. destruct (N.eq_dec k s) as [->|Hn].
      * rewrite lookup_upd_same in Hk. inversion Hk; subst. rewrite N.eqb_refl.
        rewrite (c_win _ _ _ _ _ _ _ C _ _ _ L). lia.
      * rewrite lookup_upd_other in Hk by assumption. apply N.eqb_neq in Hn. rewrite Hn.
        apply (c_win _ _ _ _ _ _ _ C _ _ _ Hk).
    + intros k. pose proof (c_cons _ _ _ _ _ _ _ C k) as Hk. unfold qs_of in *. simpl.
      destruct (N.eq_dec k s) as [->|Hn].
      * rewrite lookup_upd_same. rewrite L in Hk. assumption.
      * rewrite lookup_upd_other by assumption. assumption.
    + apply (c_pos _ _ _ _ _ _ _ C).
    + intros k Hk. destruct (N.eq_dec k s) as [->|Hn].
      * rewrite lookup_upd_same in Hk. discriminate.
      * rewrite lookup_upd_other in Hk by assumption. apply N.eqb_neq in Hn. rewrite Hn.
        apply (c_none _ _ _ _ _ _ _ C _ Hk).
    + apply (c_seq _ _ _ _ _ _ _ C).
    + intros k w' q' Hk. destruct (N.eq_dec k s) as [->|Hn].
      * rewrite lookup_upd_same in Hk. inversion Hk; subst. apply (c_sid _ _ _ _ _ _ _ C _ _ _ L).
      * rewrite lookup_upd_other in Hk by assumption. apply (c_sid _ _ _ _ _ _ _ C _ _ _ Hk).
  - intros k Hn B w' q' Hk. simpl in *. rewrite lookup_upd_other in Hk by assumption. apply B. assumption.
Qed.
