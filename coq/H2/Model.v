(* H2 relay model (shared by C08, C09).  Definitions only.

   Anchors: /repo/h2/relay.go (processFrame, data, header, pushPromise,
   enqueueFrame, updateInitialWindowSize, updateWindow, emitEligibleFrames,
   sendWindowUpdates, splitIntoChunks), queued_frames.go, h2.go
   (forwardPreface).  The model is of the code WITH the proposed repairs
   fixes/C08-1 (real END_STREAM on continued blocks), fixes/C08-2 (preface read
   in full), fixes/C08-3 (header blocks HPACK-encoded when written),
   fixes/C09-1 (credit = flow-controlled length).

   Two layers, composed by [step]:
   * front: what processFrame does with a frame of the source endpoint that
     does not depend on windows: continuation reassembly, splitting DATA to the
     peer's max frame size, credit, SETTINGS dispatch.  Produces [action]s.
   * flow: per receiving endpoint: connection window, initial window,
     per-stream (window, queue), HPACK encoder counter.  Consumes actions,
     produces the frames written ([wire]).

   Sides name ENDPOINTS.  "Flow toward X" is the relay whose dest is X; its
   windows are governed by frames that X sends.  Window arithmetic is in Z:
   Go int / uint32 overflow is NOT modelled. *)
From Coq Require Import List NArith ZArith Bool Ascii Arith.
Import ListNotations.
Open Scope Z_scope.

Inductive side := Cl | Sv.
Definition other (x : side) : side := match x with Cl => Sv | Sv => Cl end.
Definition side_eqb (a b : side) : bool :=
  match a, b with Cl, Cl => true | Sv, Sv => true | _, _ => false end.

Definition bytes := list ascii.
Definition blen (d : bytes) : Z := Z.of_nat (length d).

Record prio := mkPrio { pdep : N; pexcl : bool; pweight : N }.
Definition prio0 : prio := mkPrio 0 false 0.
(* http2.PriorityParam.IsZero *)
Definition prio_is_zero (p : prio) : bool :=
  N.eqb (pdep p) 0 && negb (pexcl p) && N.eqb (pweight p) 0.
Definition prio_eqb (p q : prio) : bool :=
  N.eqb (pdep p) (pdep q) && Bool.eqb (pexcl p) (pexcl q) && N.eqb (pweight p) (pweight q).

(* Frames as read by the relay's source Framer.  A header block's decoded
   field list is abstracted by an identifier [fid] carried by the frame that
   opens the block (HPACK abstraction: DESIGN C08). *)
Inductive frame :=
| FData (s : N) (es : bool) (d : bytes) (pad : option N)
| FHeaders (s : N) (es eh : bool) (pr : option prio) (fid : N) (e0 : bool)   (* e0: this frame's fragment is empty *)
| FCont (s : N) (eh : bool)
| FPriority (s : N) (p : prio)
| FRst (s : N) (code : N)
| FSettings (kv : list (N * N))
| FSettingsAck
| FPush (s : N) (eh : bool) (promised : N) (fid : N)
| FPing (ack : bool) (d : bytes)
| FGoaway (last code : N) (d : bytes)
| FWinUpd (s : N) (inc : N).

(* l_order: the oracle for Go's map iteration order in
   sendQueuedFramesUnderWindowSize (any list; normalised to a permutation). *)
Record label := mkLabel { l_from : side; l_frame : frame; l_order : list N }.

(* queuedFrame implementations *)
Inductive qframe :=
| QData (s : N) (es : bool) (d : bytes)
| QHeaders (s : N) (es : bool) (pr : prio) (fid : N)
| QPush (s : N) (promised : N) (fid : N)
| QPriority (s : N) (p : prio)
| QRst (s : N) (code : N).

Definition qsid (q : qframe) : N :=
  match q with
  | QData s _ _ | QHeaders s _ _ _ | QPush s _ _ | QPriority s _ | QRst s _ => s
  end.
(* flowControlSize *)
Definition fc (q : qframe) : Z := match q with QData _ _ d => blen d | _ => 0 end.
Definition is_block (q : qframe) : nat :=
  match q with QHeaders _ _ _ _ | QPush _ _ _ => 1%nat | _ => 0%nat end.

(* Frames written to an endpoint.  [seq] = value of the encoder counter when
   the block was HPACK-encoded; the receiver decodes the k-th arriving block
   correctly iff its seq = k.  [tab] = the dynamic table size the relay's HPACK
   encoder toward the recipient is using when the block is written (signalled
   in-band by dynamic-table-size updates); the recipient can decode with the
   table size it announced only if tab does not exceed it.  [qwire] leaves it
   0; [bstep] stamps it. *)
Inductive wire :=
| WData (s : N) (es : bool) (d : bytes)
| WBlock (s : N) (push : option N) (es : bool) (pr : option prio) (seq : nat) (fid : N) (tab : N)
| WPrio (s : N) (p : prio)
| WRst (s : N) (code : N)
| WSettings (kv : list (N * N))
| WAck
| WPing (ack : bool) (d : bytes)
| WGoaway (last code : N) (d : bytes)
| WWin (s : N) (inc : N).

Definition event := (side * wire)%type.   (* recipient, frame *)

(* queuedXFrame.send; WriteHeaders sets the PRIORITY flag iff !IsZero *)
Definition qwire (enc : nat) (q : qframe) : wire :=
  match q with
  | QData s es d => WData s es d
  | QHeaders s es pr fid =>
      WBlock s None es (if prio_is_zero pr then None else Some pr) enc fid 0
  | QPush s p fid => WBlock s (Some p) false None enc fid 0
  | QPriority s p => WPrio s p
  | QRst s c => WRst s c
  end.

Definition unq (w : wire) : option qframe :=
  match w with
  | WData s es d => Some (QData s es d)
  | WBlock s None es pr _ fid _ =>
      Some (QHeaders s es (match pr with Some p => p | None => prio0 end) fid)
  | WBlock s (Some p) _ _ _ fid _ => Some (QPush s p fid)
  | WPrio s p => Some (QPriority s p)
  | WRst s c => Some (QRst s c)
  | _ => None
  end.

(* ------------------------------------------------------------------ front *)

(* headerContinuation (repaired: carries es).  pushPromiseContinuation is never
   completed: the source http2.Framer only records an open header block for
   HEADERS (checkFrameOrder), so the CONTINUATION that follows a PUSH_PROMISE
   without END_HEADERS is a connection error and the reader stops. *)
Inductive pend :=
| PH (s : N) (es : bool) (pr : prio) (fid : N).
Definition pend_sid (p : pend) : N := match p with PH s _ _ _ => s end.
Definition pend_q (p : pend) : qframe :=
  match p with PH s es pr fid => QHeaders s es pr fid end.

(* f_cont X: pending header block in the frames sent by X.
   f_maxf X: max frame size for frames sent TO X (X's SETTINGS). *)
(* f_tab X: HEADER_TABLE_SIZE announced by X = table size of the relay's encoder toward X
   (updateTableSize, applied when X's SETTINGS frame is processed). *)
Record fstate := mkF { cont_c : option pend; cont_s : option pend; maxf_c : N; maxf_s : N;
                       tab_c : N; tab_s : N }.
Definition f_tab (f : fstate) (x : side) := match x with Cl => tab_c f | Sv => tab_s f end.
Definition f_cont (f : fstate) (x : side) := match x with Cl => cont_c f | Sv => cont_s f end.
Definition f_maxf (f : fstate) (x : side) := match x with Cl => maxf_c f | Sv => maxf_s f end.
Definition set_cont (f : fstate) (x : side) (c : option pend) : fstate :=
  match x with
  | Cl => mkF c (cont_s f) (maxf_c f) (maxf_s f) (tab_c f) (tab_s f)
  | Sv => mkF (cont_c f) c (maxf_c f) (maxf_s f) (tab_c f) (tab_s f)
  end.
Definition set_maxf (f : fstate) (x : side) (v : N) : fstate :=
  match x with
  | Cl => mkF (cont_c f) (cont_s f) v (maxf_s f) (tab_c f) (tab_s f)
  | Sv => mkF (cont_c f) (cont_s f) (maxf_c f) v (tab_c f) (tab_s f)
  end.
Definition set_tab (f : fstate) (x : side) (v : N) : fstate :=
  match x with
  | Cl => mkF (cont_c f) (cont_s f) (maxf_c f) (maxf_s f) v (tab_s f)
  | Sv => mkF (cont_c f) (cont_s f) (maxf_c f) (maxf_s f) (tab_c f) v
  end.
Definition f0 : fstate := mkF None None 16384 16384 4096 4096.

Inductive action :=
| AEnq (to : side) (q : qframe)            (* enqueueFrame / data(): enqueue + emitEligibleFrames *)
| ACredit (to : side) (s : N) (n : N)      (* WriteWindowUpdate to the source *)
| ASetInit (to : side) (v : N)             (* updateInitialWindowSize of the relay toward [to] *)
| AConnWU (to : side) (inc : N)            (* updateWindow, stream 0 *)
| AStrWU (to : side) (s : N) (inc : N)     (* updateWindow, stream s *)
| ADirect (to : side) (w : wire).          (* SETTINGS / ACK / PING / GOAWAY written under destMu *)

(* relay.data: split to maxFrameSize read once; at least one frame (empty
   DATA is forwarded); END_STREAM only on the last.  Fuel: None = the Go loop
   does not terminate (maxf = 0 with data left). *)
Fixpoint split_data (fuel : nat) (maxf : N) (s : N) (es : bool) (d : bytes) : option (list qframe) :=
  match fuel with
  | O => None
  | S k =>
      (* min (len d) maxf, without building a large unary number when the data is short *)
      let n := if N.leb (N.of_nat (length d)) maxf then length d else N.to_nat maxf in
      let rest := skipn n d in
      match rest with
      | [] => Some [QData s es (firstn n d)]
      | _ :: _ =>
          match split_data k maxf s es rest with
          | Some qs => Some (QData s false (firstn n d) :: qs)
          | None => None
          end
      end
  end.

(* flow-controlled length of a DATA frame: payload + pad-length octet + padding *)
Definition fcl (d : bytes) (pad : option N) : N :=
  (N.of_nat (length d) + match pad with Some p => p + 1 | None => 0 end)%N.

(* last occurrence of an identifier in a SETTINGS frame (an ordered list) *)
Fixpoint last_occ (id : N) (kv : list (N * N)) : option N :=
  match kv with
  | [] => None
  | p :: t => match last_occ id t with
              | Some v => Some v
              | None => if N.eqb (fst p) id then Some (snd p) else None
              end
  end.
(* repaired (fixes/C09-2): the INITIAL_WINDOW_SIZE of a SETTINGS frame is applied once, with the
   last value, after the whole frame has been read *)
Definition settings_actions (y : side) (kv : list (N * N)) : list action :=
  match last_occ 4 kv with Some v => [ASetInit y v] | None => [] end.
Definition settings_maxf (cur : N) (kv : list (N * N)) : N :=
  fold_left (fun m p => if N.eqb (fst p) 5 then snd p else m) kv cur.
Definition settings_tab (cur : N) (kv : list (N * N)) : N :=
  fold_left (fun m p => if N.eqb (fst p) 1 then snd p else m) kv cur.

(* A SETTINGS entry the relay accepts: INITIAL_WINDOW_SIZE <= 2^31-1 (checked by the Framer) and
   MAX_FRAME_SIZE within 2^14 .. 2^24-1 (checked by processFrame, repaired: fixes/C09-3; anything
   else is a connection error PROTOCOL_ERROR and the reader stops). *)
Definition setting_accept (p : N * N) : bool :=
  (negb (N.eqb (fst p) 4) || N.leb (snd p) 2147483647)
  && (negb (N.eqb (fst p) 5) || (N.leb 16384 (snd p) && N.leb (snd p) 16777215)).

(* Checks made by the source Framer (ReadFrame returns an error) and by processFrame. *)
Definition frame_ok (c : option pend) (fr : frame) : bool :=
  match c with
  | Some p => match fr with FCont s _ => N.eqb s (pend_sid p) | _ => false end
  | None =>
      match fr with
      | FCont _ _ => false
      (* parseHeadersFrame of the pinned x/net rejects an empty fragment: len(p)-padLength <= 0 *)
      | FHeaders s _ _ _ _ e0 => negb (N.eqb s 0) && negb e0
      | FData s _ _ _ | FPriority s _ | FRst s _ | FPush s _ _ _ => negb (N.eqb s 0)
      | FWinUpd _ inc => negb (N.eqb inc 0)
      | FSettings kv => forallb setting_accept kv
      | _ => true
      end
  end.

Definition opt_prio (pr : option prio) : prio := match pr with Some p => p | None => prio0 end.

(* None: the relay's reader returns an error (or diverges): direction dead. *)
Definition front (f : fstate) (y : side) (fr : frame) : option (fstate * list action) :=
  if negb (frame_ok (f_cont f y) fr) then None else
  let z := other y in
  match fr with
  | FData s es d pad =>
      match split_data (S (length d)) (f_maxf f z) s es d with
      | None => None
      | Some qs =>
          let n := fcl d pad in
          Some (f, (if N.eqb n 0 then [] else [ACredit y 0 n; ACredit y s n]) ++ map (AEnq z) qs)
      end
  | FHeaders s es eh pr fid _ =>
      if eh then Some (f, [AEnq z (QHeaders s es (opt_prio pr) fid)])
      else Some (set_cont f y (Some (PH s es (opt_prio pr) fid)), [])
  | FPush s eh pm fid =>
      (* !eh: fragment buffered, continuationState set; the Framer does not expect a CONTINUATION *)
      if eh then Some (f, [AEnq z (QPush s pm fid)]) else Some (f, [])
  | FCont s eh =>
      match f_cont f y with
      | Some p => if eh then Some (set_cont f y None, [AEnq z (pend_q p)]) else Some (f, [])
      | None => None
      end
  | FPriority s p => Some (f, [AEnq z (QPriority s p)])
  | FRst s c => Some (f, [AEnq z (QRst s c)])
  | FSettings kv =>
      Some (set_tab (set_maxf f y (settings_maxf (f_maxf f y) kv)) y (settings_tab (f_tab f y) kv),
            settings_actions y kv ++ [ADirect z (WSettings kv)])
  | FSettingsAck => Some (f, [ADirect z WAck])
  | FPing a d => Some (f, [ADirect z (WPing a d)])
  | FGoaway l c d => Some (f, [ADirect z (WGoaway l c d)])
  | FWinUpd s inc => Some (f, [if N.eqb s 0 then AConnWU y inc else AStrWU y s inc])
  end.

(* ------------------------------------------------------------------- flow *)

Definition strm := (Z * list qframe)%type.   (* outputBuffer: windowSize, queue *)
Record flow := mkFlow { conn : Z; init : Z; enc : nat; strs : list (N * strm) }.
Definition flow0 : flow := mkFlow 65535 65535 0 [].

Fixpoint lookup (s : N) (l : list (N * strm)) : option strm :=
  match l with
  | [] => None
  | (k, v) :: t => if N.eqb k s then Some v else lookup s t
  end.
Fixpoint upd (s : N) (v : strm) (l : list (N * strm)) : list (N * strm) :=
  match l with
  | [] => [(s, v)]
  | (k, v0) :: t => if N.eqb k s then (k, v) :: t else (k, v0) :: upd s v t
  end.
Definition keys (l : list (N * strm)) : list N := map fst l.

(* relay.outputBuffer: create with the current initial window if absent *)
Definition ensure (x : flow) (s : N) : flow :=
  match lookup s (strs x) with
  | Some _ => x
  | None => mkFlow (conn x) (init x) (enc x) (upd s (init x, []) (strs x))
  end.

(* emitEligibleFrames: emit while the head fits both windows *)
Fixpoint drain (q : list qframe) (win cw : Z) (e : nat) : list qframe * Z * Z * nat * list wire :=
  match q with
  | [] => ([], win, cw, e, [])
  | f :: q' =>
      if Z.ltb cw (fc f) || Z.ltb win (fc f) then (q, win, cw, e, [])
      else
        match drain q' (win - fc f) (cw - fc f) (e + is_block f)%nat with
        | (q2, w2, c2, e2, ws) => (q2, w2, c2, e2, qwire e f :: ws)
        end
  end.

Definition emit_stream (x : flow) (s : N) : flow * list wire :=
  match lookup s (strs x) with
  | None => (x, [])
  | Some (win, q) =>
      match drain q win (conn x) (enc x) with
      | (q2, w2, c2, e2, ws) => (mkFlow c2 (init x) e2 (upd s (w2, q2) (strs x)), ws)
      end
  end.

Fixpoint sweep_list (x : flow) (ss : list N) : flow * list wire :=
  match ss with
  | [] => (x, [])
  | s :: t =>
      let (x1, w1) := emit_stream x s in
      let (x2, w2) := sweep_list x1 t in (x2, w1 ++ w2)
  end.

Definition mem (s : N) (l : list N) : bool := existsb (N.eqb s) l.
Fixpoint dedup (l : list N) : list N :=
  match l with [] => [] | a :: t => if mem a t then dedup t else a :: dedup t end.
(* any oracle list becomes a permutation of the existing streams *)
Definition norm_order (order ks : list N) : list N :=
  let o := dedup (filter (fun s => mem s ks) order) in
  o ++ filter (fun s => negb (mem s o)) ks.

Definition sweep (x : flow) (order : list N) : flow * list wire :=
  sweep_list x (norm_order order (keys (strs x))).

Definition add_win (x : flow) (s : N) (d : Z) : flow :=
  match lookup s (strs x) with
  | Some (w, q) => mkFlow (conn x) (init x) (enc x) (upd s (w + d, q) (strs x))
  | None => x
  end.
Definition push_q (x : flow) (s : N) (f : qframe) : flow :=
  match lookup s (strs x) with
  | Some (w, q) => mkFlow (conn x) (init x) (enc x) (upd s (w, q ++ [f]) (strs x))
  | None => x
  end.

Record bstate := mkB { to_c : flow; to_s : flow }.
Definition b0 : bstate := mkB flow0 flow0.
Definition getf (b : bstate) (x : side) := match x with Cl => to_c b | Sv => to_s b end.
Definition setf (b : bstate) (x : side) (v : flow) : bstate :=
  match x with Cl => mkB v (to_s b) | Sv => mkB (to_c b) v end.

Definition tag (x : side) (ws : list wire) : list event := map (fun w => (x, w)) ws.

(* effect of one action on the flow toward its side; returns frames written to that side *)
Definition flow_act (x : flow) (order : list N) (a : action) : flow * list wire :=
  match a with
  | AEnq _ q =>
      let s := qsid q in
      emit_stream (push_q (ensure x s) s q) s
  | ACredit _ s n => (x, [WWin s n])
  | ASetInit _ v =>
      let d := Z.of_N v - init x in
      sweep (mkFlow (conn x) (Z.of_N v) (enc x) (map (fun kv => (fst kv, (fst (snd kv) + d, snd (snd kv)))) (strs x))) order
  | AConnWU _ inc =>
      let (x1, w1) := sweep (mkFlow (conn x + Z.of_N inc) (init x) (enc x) (strs x)) order in
      (* falls through to stream 0's buffer *)
      let (x2, w2) := emit_stream (add_win (ensure x1 0%N) 0%N (Z.of_N inc)) 0%N in
      (x2, w1 ++ w2)
  | AStrWU _ s inc => emit_stream (add_win (ensure x s) s (Z.of_N inc)) s
  | ADirect _ w => (x, [w])
  end.

Definition act_side (a : action) : side :=
  match a with
  | AEnq t _ | ACredit t _ _ | ASetInit t _ | AConnWU t _ | AStrWU t _ _ | ADirect t _ => t
  end.

Definition stamp (tab : N) (w : wire) : wire :=
  match w with WBlock s p es pr q fid _ => WBlock s p es pr q fid tab | _ => w end.

(* tabs: the table size of the relay's encoder toward each endpoint *)
Definition bstep (tabs : side -> N) (b : bstate) (order : list N) (a : action) : bstate * list event :=
  let t := act_side a in
  let (x', ws) := flow_act (getf b t) order a in
  (setf b t x', tag t (map (stamp (tabs t)) ws)).

Fixpoint bsteps (tabs : side -> N) (b : bstate) (order : list N) (acts : list action) : bstate * list event :=
  match acts with
  | [] => (b, [])
  | a :: t =>
      let (b1, e1) := bstep tabs b order a in
      let (b2, e2) := bsteps tabs b1 order t in (b2, e1 ++ e2)
  end.

(* ------------------------------------------------------------ composition *)

Record state := mkS { sf : fstate; sb : bstate }.
Definition s0 : state := mkS f0 b0.

Definition step (st : state) (l : label) : option (state * list event) :=
  match front (sf st) (l_from l) (l_frame l) with
  | None => None
  | Some (f', acts) =>
      let (b', evs) := bsteps (f_tab f') (sb st) (l_order l) acts in Some (mkS f' b', evs)
  end.

(* Runs until the first reader error; one event list per executed label. *)
Fixpoint run (st : state) (ls : list label) : state * list (list event) :=
  match ls with
  | [] => (st, [])
  | l :: t =>
      match step st l with
      | None => (st, [])
      | Some (st1, evs) => let (st2, r) := run st1 t in (st2, evs :: r)
      end
  end.

Definition obs := list (list event).

(* Header / push-promise chunking (splitIntoChunks as called by the frame's
   send with the max frame size in force when the block is written):
   first chunk at most maxf - 5 with priority, maxf - 4 for PUSH_PROMISE. *)
Fixpoint chunk_rest (fuel : nat) (cmax : N) (n : N) : option (list N) :=
  if N.eqb n 0 then Some [] else
  match fuel with
  | O => None
  | S k =>
      let c := N.min n cmax in
      match chunk_rest k cmax (n - c)%N with Some l => Some (c :: l) | None => None end
  end.
Definition hdr_chunks (maxf : N) (has_prio is_push : bool) (elen : N) : option (list N) :=
  let fmax := (if is_push then maxf - 4 else if has_prio then maxf - 5 else maxf)%N in
  let c := N.min elen fmax in
  match chunk_rest (S (N.to_nat elen)) maxf (elen - c)%N with
  | Some l => Some (c :: l) | None => None
  end.

(* forwardPreface (repaired: io.ReadFull).  The transport delivers [chunks];
   a Read returns at most one chunk.  Result: bytes forwarded to the server and
   the undelivered remainder, or None (error). *)
Fixpoint read_full (chunks : list bytes) (n : nat) {struct chunks} : option (bytes * list bytes) :=
  match n with
  | O => Some ([], chunks)
  | S _ =>
      match chunks with
      | [] => None                                   (* EOF before n bytes *)
      | c :: t =>
          if Nat.leb (length c) n then
            match read_full t (n - length c) with
            | Some (got, rest) => Some (c ++ got, rest)
            | None => None
            end
          else Some (firstn n c, skipn n c :: t)
      end
  end.
Fixpoint bytes_eqb (a b : bytes) : bool :=
  match a, b with
  | [], [] => true
  | x :: a', y :: b' => Ascii.eqb x y && bytes_eqb a' b'
  | _, _ => false
  end.
Definition forward_preface (preface : bytes) (chunks : list bytes) : option (bytes * list bytes) :=
  match read_full chunks (length preface) with
  | Some (got, rest) => if bytes_eqb got preface then Some (got, rest) else None
  | None => None
  end.
(* the code as it is: a single Read *)
Definition forward_preface_single (preface : bytes) (chunks : list bytes) : option (bytes * list bytes) :=
  match chunks with
  | [] => None
  | c :: t =>
      let got := firstn (length preface) c in
      if bytes_eqb got preface then Some (got, skipn (length preface) c :: t) else None
  end.
