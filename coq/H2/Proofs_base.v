(* Basic lemmas: association lists, sums, projections, drain. *)
From Coq Require Import List NArith ZArith Bool Ascii Arith Lia.
From Martian.H2 Require Import Model Spec.
Import ListNotations.
Open Scope Z_scope.

Lemma side_eqb_refl x : side_eqb x x = true.
Proof. destruct x; reflexivity. Qed.
Lemma side_eqb_eq x y : side_eqb x y = true <-> x = y.
Proof. destruct x, y; simpl; split; intro H; try reflexivity; try discriminate. Qed.
Lemma side_eqb_other x : side_eqb (other x) x = false.
Proof. destruct x; reflexivity. Qed.
Lemma side_eqb_other' x : side_eqb x (other x) = false.
Proof. destruct x; reflexivity. Qed.
Lemma other_other x : other (other x) = x.
Proof. destruct x; reflexivity. Qed.
Lemma side_cases x y : y = x \/ y = other x.
Proof. destruct x, y; auto. Qed.

(* ---- zsum *)
Lemma zsum_app a b : zsum (a ++ b) = zsum a + zsum b.
Proof. induction a; simpl; lia. Qed.

(* ---- lookup / upd *)
Lemma lookup_upd_same s v l : lookup s (upd s v l) = Some v.
Proof.
  induction l as [|[k v0] t IH]; simpl.
  - rewrite N.eqb_refl. reflexivity.
  - destruct (N.eqb k s) eqn:E; simpl; rewrite E; auto.
Qed.
Lemma lookup_upd_other s k v l : k <> s -> lookup k (upd s v l) = lookup k l.
Proof.
  intros Hn. induction l as [|[k0 v0] t IH]; simpl.
  - destruct (N.eqb s k) eqn:E; auto. apply N.eqb_eq in E. congruence.
  - destruct (N.eqb k0 s) eqn:E; simpl.
    + apply N.eqb_eq in E. subst k0. destruct (N.eqb s k) eqn:E2; auto.
      apply N.eqb_eq in E2. congruence.
    + destruct (N.eqb k0 k); auto.
Qed.
Lemma keys_upd_some s v v0 l : lookup s l = Some v0 -> keys (upd s v l) = keys l.
Proof.
  induction l as [|[k v1] t IH]; simpl; intros H; try discriminate.
  destruct (N.eqb k s) eqn:E; simpl; auto. f_equal. auto.
Qed.
Lemma keys_upd_none s v l : lookup s l = None -> keys (upd s v l) = keys l ++ [s].
Proof.
  induction l as [|[k v1] t IH]; simpl; intros H; auto.
  destruct (N.eqb k s) eqn:E; try discriminate. simpl. f_equal. auto.
Qed.
Lemma lookup_in_keys s l : In s (keys l) <-> lookup s l <> None.
Proof.
  induction l as [|[k v] t IH]; simpl.
  - split; [tauto|congruence].
  - destruct (N.eqb k s) eqn:E.
    + apply N.eqb_eq in E. split; [congruence|auto].
    + apply N.eqb_neq in E. rewrite <- IH. split; [intros [?|?]; [congruence|auto]|auto].
Qed.

(* ---- projections of event lists *)
Lemma to_side_app x a b : to_side x (a ++ b) = to_side x a ++ to_side x b.
Proof. unfold to_side. rewrite filter_app, map_app. reflexivity. Qed.
Lemma to_side_tag_same x ws : to_side x (tag x ws) = ws.
Proof.
  unfold to_side, tag. induction ws; simpl; auto. rewrite side_eqb_refl. simpl. f_equal. auto.
Qed.
Lemma to_side_tag_other x y ws : y <> x -> to_side x (tag y ws) = [].
Proof.
  intros H. unfold to_side, tag. induction ws; simpl; auto.
  destruct (side_eqb y x) eqn:E; auto. apply side_eqb_eq in E. congruence.
Qed.
Lemma on_stream_app s a b : on_stream s (a ++ b) = on_stream s a ++ on_stream s b.
Proof. unfold on_stream. apply filter_app. Qed.

Lemma sentc_app x a b : sentc x (a ++ b) = sentc x a + sentc x b.
Proof. unfold sentc. rewrite to_side_app, map_app, zsum_app. reflexivity. Qed.
Lemma sents_app x s a b : sents x s (a ++ b) = sents x s a + sents x s b.
Proof. unfold sents. rewrite to_side_app, on_stream_app, map_app, zsum_app. reflexivity. Qed.
Lemma creds_app y s a b : creds y s (a ++ b) = creds y s a + creds y s b.
Proof. unfold creds. rewrite to_side_app, map_app, zsum_app. reflexivity. Qed.
Lemma directs_app x a b : directs x (a ++ b) = directs x a ++ directs x b.
Proof. unfold directs. rewrite to_side_app, filter_app. reflexivity. Qed.
Lemma block_seqs_app x a b : block_seqs x (a ++ b) = block_seqs x a ++ block_seqs x b.
Proof. unfold block_seqs. rewrite to_side_app, flat_map_app. reflexivity. Qed.

(* ---- queue frames <-> wires *)
Definition emq (ws : list wire) : list qframe :=
  flat_map (fun w => match unq w with Some q => [q] | None => [] end) ws.
Lemma emq_app a b : emq (a ++ b) = emq a ++ emq b.
Proof. unfold emq. apply flat_map_app. Qed.

Lemma prio_zero_eq p : prio_is_zero p = true -> p = prio0.
Proof.
  destruct p as [d e w]. unfold prio_is_zero. simpl. intros H.
  apply andb_prop in H. destruct H as [H Hw]. apply andb_prop in H. destruct H as [Hd He].
  apply N.eqb_eq in Hd. apply N.eqb_eq in Hw. destruct e; simpl in He; try discriminate.
  subst. reflexivity.
Qed.
Lemma unq_qwire e f : unq (qwire e f) = Some f.
Proof.
  destruct f; simpl; auto.
  destruct (prio_is_zero pr) eqn:E; auto. apply prio_zero_eq in E. subst. reflexivity.
Qed.
Lemma wsid_qwire e f : wsid (qwire e f) = Some (qsid f).
Proof. destruct f; reflexivity. Qed.
Lemma dlen_qwire e f : dlen (qwire e f) = fc f.
Proof. destruct f; reflexivity. Qed.

Fixpoint qwires (e : nat) (em : list qframe) : list wire :=
  match em with [] => [] | f :: t => qwire e f :: qwires (e + is_block f) t end.
Definition sumfc (l : list qframe) : Z := zsum (map fc l).
Definition nblocks (l : list qframe) : nat := fold_right (fun f n => (is_block f + n)%nat) 0%nat l.

Lemma emq_qwires e em : emq (qwires e em) = em.
Proof.
  revert e. induction em as [|f t IH]; intros e; simpl; auto.
  unfold emq in *. simpl. rewrite unq_qwire. simpl. f_equal. apply IH.
Qed.
Lemma dlen_qwires e em : zsum (map dlen (qwires e em)) = sumfc em.
Proof.
  revert e. induction em as [|f t IH]; intros e; simpl; auto.
  unfold sumfc in *. simpl. rewrite dlen_qwire, IH. reflexivity.
Qed.
Lemma on_stream_qwires s e em :
  Forall (fun f => qsid f = s) em -> on_stream s (qwires e em) = qwires e em.
Proof.
  revert e. induction em as [|f t IH]; intros e H; simpl; auto.
  inversion H; subst. unfold on_stream in *. simpl. rewrite wsid_qwire, N.eqb_refl.
  f_equal. apply IH. assumption.
Qed.
Lemma on_stream_qwires_other s k e em :
  k <> s -> Forall (fun f => qsid f = s) em -> on_stream k (qwires e em) = [].
Proof.
  intros Hn. revert e. induction em as [|f t IH]; intros e H; simpl; auto.
  inversion H; subst. unfold on_stream in *. simpl. rewrite wsid_qwire.
  destruct (N.eqb (qsid f) k) eqn:E; [apply N.eqb_eq in E; congruence|]. apply IH. assumption.
Qed.
Definition wseqs (ws : list wire) : list nat :=
  flat_map (fun w => match w with WBlock _ _ _ _ q _ _ => [q] | _ => [] end) ws.
Lemma wseqs_qwires e em : wseqs (qwires e em) = seq e (nblocks em).
Proof.
  revert e. induction em as [|f t IH]; intros e; simpl; auto.
  unfold wseqs in *. simpl. destruct f; simpl; rewrite IH; simpl;
    rewrite ?Nat.add_0_r, ?Nat.add_1_r; reflexivity.
Qed.

(* ---- drain *)
Definition blocked (q : list qframe) (win cw : Z) : Prop :=
  match q with [] => True | h :: _ => cw < fc h \/ win < fc h end.

Lemma fc_nonneg f : 0 <= fc f.
Proof. destruct f; simpl; unfold blen; lia. Qed.
Lemma sumfc_nonneg l : 0 <= sumfc l.
Proof. induction l; unfold sumfc in *; simpl; [lia|]. pose proof (fc_nonneg a). lia. Qed.

Lemma drain_spec q : forall win cw e q2 w2 c2 e2 ws,
  drain q win cw e = (q2, w2, c2, e2, ws) ->
  exists em, q = em ++ q2 /\ ws = qwires e em /\ w2 = win - sumfc em /\ c2 = cw - sumfc em
    /\ e2 = (e + nblocks em)%nat /\ blocked q2 w2 c2
    /\ (0 <= cw -> 0 <= c2) /\ (0 < sumfc em -> 0 <= w2).
Proof.
  induction q as [|f t IH]; intros win cw e q2 w2 c2 e2 ws H; simpl in H.
  - inversion H; subst. exists []. unfold sumfc. simpl. repeat split; auto; try lia.
  - destruct (Z.ltb cw (fc f) || Z.ltb win (fc f)) eqn:E.
    + inversion H; subst. exists []. unfold sumfc. simpl. repeat split; auto; try lia.
      all: try (apply orb_true_iff in E; destruct E as [E|E]; apply Z.ltb_lt in E; [left|right]; lia).
    + apply orb_false_iff in E. destruct E as [E1 E2]. apply Z.ltb_ge in E1. apply Z.ltb_ge in E2.
      destruct (drain t (win - fc f) (cw - fc f) (e + is_block f)%nat) as [[[[q3 w3] c3] e3] ws3] eqn:D.
      inversion H; subst. apply IH in D.
      destruct D as (em & Hq & Hws & Hw & Hc & He & Hb & Hc0 & Hw0).
      exists (f :: em). pose proof (fc_nonneg f). pose proof (sumfc_nonneg em).
      unfold sumfc in *. simpl. subst. repeat split; auto; try lia.
Qed.

Lemma fold_last_occ id kv : forall cur,
  fold_left (fun m p => if N.eqb (fst p) id then snd p else m) kv cur =
  match last_occ id kv with Some v => v | None => cur end.
Proof.
  induction kv as [|p t IH]; intros cur; simpl; [reflexivity|].
  rewrite IH. destruct (last_occ id t); [reflexivity|]. destruct (N.eqb (fst p) id); reflexivity.
Qed.
