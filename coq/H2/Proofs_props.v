(* The script invariant and the C09 trace properties of the model. *)
From Coq Require Import List NArith ZArith Bool Ascii Arith Lia.
From Martian.H2 Require Import Model Spec Proofs_base Proofs_flow Proofs_act Proofs_run Proofs_script.
Import ListNotations.
Open Scope Z_scope.

Record sinv (ls : list label) (o : obs) (st : state) : Prop := mkSinv {
  si_b : binv (front_run f0 ls) (concat o) (sb st);
  si_wf : Forall wf_act (front_run f0 ls);
  si_wuc : forall x, a_wuc x (front_run f0 ls) = wus x 0 ls;
  si_wus : forall x s, a_wus x s (front_run f0 ls) = wus x s ls;
  si_init : forall x, a_init x (front_run f0 ls) = init_of x ls;
  si_cred : forall y s, creds y s (concat o) = if N.eqb s 0 then fclc y ls else fcls y s ls;
  si_dir : forall y, directs (other y) (concat o) = flat_map direct_of (from y ls);
  si_maxf : forall x, f_maxf (sf st) x = maxf_of x ls;
  si_tab : forall x, f_tab (sf st) x = tabsz_of x ls
}.

Lemma finv_init x : finv x [] [] flow0.
Proof.
  split.
  - constructor; simpl; auto; try reflexivity; try lia; try discriminate.
    all: try (intros s _; repeat split; reflexivity).
  - intros k w q H. discriminate.
Qed.

Lemma sinv_init : sinv [] [] s0.
Proof.
  constructor; simpl; auto; try reflexivity.
  - intros x. destruct x; apply finv_init.
  - intros y s. destruct (N.eqb s 0); reflexivity.
  - intros x. destruct x; reflexivity.
  - intros x. destruct x; reflexivity.
Qed.

Lemma settings_of_snoc x ls l :
  settings_of x (ls ++ [l]) =
  settings_of x ls ++ (if side_eqb (l_from l) x then match l_frame l with FSettings kv => [kv] | _ => [] end else []).
Proof.
  unfold settings_of. rewrite from_snoc, flat_map_app. destruct (side_eqb (l_from l) x); simpl; rewrite ?app_nil_r; reflexivity.
Qed.
Lemma tabsz_snoc x ls l :
  tabsz_of x (ls ++ [l]) = if side_eqb (l_from l) x then set1 1 (tabsz_of x ls) (l_frame l) else tabsz_of x ls.
Proof.
  unfold tabsz_of, tab_last. rewrite settings_of_snoc, fold_left_app.
  destruct (side_eqb (l_from l) x); [|reflexivity]. destruct (l_frame l); reflexivity.
Qed.

Lemma concat_snoc {A} (o : list (list A)) e : concat (o ++ [e]) = concat o ++ e.
Proof. rewrite concat_app. simpl. rewrite app_nil_r. reflexivity. Qed.

Lemma sinv_step ls o st l f' acts b' e :
  sinv ls o st -> run s0 ls = (st, o) -> length o = length ls ->
  front (sf st) (l_from l) (l_frame l) = Some (f', acts) ->
  bsteps (f_tab f') (sb st) (l_order l) acts = (b', e) ->
  sinv (ls ++ [l]) (o ++ [e]) (mkS f' b').
Proof.
  intros I R Hlen F B.
  pose proof (front_run_snoc ls s0 st o l R Hlen) as FR. simpl in FR. rewrite F in FR.
  destruct (front_ledger _ _ _ _ _ F) as (W & L1 & L2 & L3 & L4 & L5 & L6).
  destruct I. constructor; rewrite ?FR, ?concat_snoc.
  - eapply bsteps_binv; eauto.
  - apply Forall_app. split; assumption.
  - intros x. rewrite a_wuc_app, L1, si_wuc0, wus_snoc. reflexivity.
  - intros x s. rewrite a_wus_app, L2, si_wus0, wus_snoc. reflexivity.
  - intros x. rewrite a_init_app, si_init0. unfold init_of. rewrite L3, from_snoc.
    destruct (side_eqb (l_from l) x); [rewrite last_setting_snoc|rewrite app_nil_r]; reflexivity.
  - intros y s. destruct (bsteps_out _ _ _ _ _ _ y s y W B) as (A1 & _).
    rewrite creds_app, A1, L4, si_cred0, fclc_snoc, fcls_snoc.
    destruct (N.eqb s 0); reflexivity.
  - intros y. destruct (bsteps_out _ _ _ _ _ _ y 0%N (other y) W B) as (_ & A2).
    rewrite directs_app, A2, L5, si_dir0, from_snoc, flat_map_app.
    destruct (l_from l), y; simpl; rewrite ?app_nil_r; reflexivity.
  - intros x. cbn [sf]. rewrite L6, si_maxf0. unfold maxf_of. rewrite from_snoc.
    destruct (side_eqb (l_from l) x); [rewrite last_setting_snoc|rewrite app_nil_r]; reflexivity.
  - intros x. cbn [sf]. rewrite (front_tab _ _ _ _ _ F x), si_tab0, tabsz_snoc. reflexivity.
Qed.

Lemma firstn_snoc_all {A} (ls : list A) l : firstn (length ls) (ls ++ [l]) = ls.
Proof. rewrite firstn_app, Nat.sub_diag, firstn_all. simpl. apply app_nil_r. Qed.

Theorem sinv_run ls : forall st o,
  run s0 ls = (st, o) -> length o = length ls -> sinv ls o st.
Proof.
  induction ls as [|l ls IH] using rev_ind; intros st o R Hlen.
  - simpl in R. inversion R; subst. apply sinv_init.
  - rewrite app_length in Hlen. simpl in Hlen.
    destruct (run_prefix _ _ _ _ (length ls) R) as (stk & Rk & Hk); [lia|].
    rewrite firstn_snoc_all in Rk, Hk.
    pose proof (IH _ _ Rk Hk) as I.
    rewrite (run_snoc _ _ _ _ l Rk Hk) in R.
    destruct (step stk l) as [[st2 e]|] eqn:S.
    + inversion R; subst. unfold step in S.
      destruct (front (sf stk) (l_from l) (l_frame l)) as [[f' acts]|] eqn:F; [|discriminate].
      destruct (bsteps (f_tab f') (sb stk) (l_order l) acts) as [b' evs] eqn:B. inversion S; subst.
      eapply sinv_step; eauto.
    + injection R as E1 E2. apply (f_equal (@length _)) in E2. rewrite firstn_length in E2. lia.
Qed.

(* invariant at every executed prefix *)
Lemma sinv_prefix ls st o k :
  run s0 ls = (st, o) -> (k <= length o)%nat ->
  exists stk, run s0 (firstn k ls) = (stk, firstn k o) /\ sinv (firstn k ls) (firstn k o) stk.
Proof.
  intros R Hk. destruct (run_prefix _ _ _ _ k R Hk) as (stk & Rk & Hlen).
  exists stk. split; [assumption|]. apply sinv_run; assumption.
Qed.

(* ------------------------------------------------------------------- C09 *)
Theorem model_P_conn ls st o : run s0 ls = (st, o) -> P_conn ls o.
Proof.
  intros R k x Hk _. destruct (sinv_prefix _ _ _ k R Hk) as (stk & _ & I).
  destruct (si_b _ _ _ I x) as [C _]. unfold conn_at, pre, evs_to.
  rewrite <- (si_wuc _ _ _ I). rewrite <- (c_conn _ _ _ _ _ _ _ C). apply (c_pos _ _ _ _ _ _ _ C).
Qed.

Theorem model_P_credit ls st o : run s0 ls = (st, o) -> P_credit ls o.
Proof.
  intros R k y s Hk _ _. destruct (sinv_prefix _ _ _ k R Hk) as (stk & _ & I).
  unfold pre, evs_to. apply (si_cred _ _ _ I).
Qed.

Lemma unq_of_sid w : wsid w <> None -> exists q, unq w = Some q.
Proof. destruct w; simpl; intros H; try congruence; eauto. destruct push; eauto. Qed.
Lemma emq_length_on_stream s ws : length (emq (on_stream s ws)) = length (on_stream s ws).
Proof.
  unfold on_stream, emq. induction ws as [|w t IH]; simpl; auto.
  destruct (wsid w) as [k|] eqn:E; [|assumption].
  destruct (N.eqb k s); [|assumption]. simpl.
  destruct (unq_of_sid w) as (q & Hq); [congruence|]. rewrite Hq. simpl. f_equal. exact IH.
Qed.

Lemma nth_error_app_len {A} (a b : list A) : nth_error (a ++ b) (length a) = nth_error b 0.
Proof. rewrite nth_error_app2 by lia. rewrite Nat.sub_diag. reflexivity. Qed.

Theorem model_P_strand ls st o : run s0 ls = (st, o) -> P_strand ls o.
Proof.
  intros R k x s Hk _ _. destruct (sinv_prefix _ _ _ k R Hk) as (stk & _ & I).
  destruct (si_b _ _ _ I x) as [C B]. unfold pre, evs_to, accepted, delivered.
  fold (a_enq x s (front_run f0 (firstn k ls))).
  rewrite <- (c_cons _ _ _ _ _ _ _ C s). rewrite <- emq_length_on_stream, nth_error_app_len.
  unfold qs_of. destruct (lookup s (strs (getf (sb stk) x))) as [[w q]|] eqn:L; [|exact Logic.I].
  destruct q as [|h q']; [exact Logic.I|]. simpl.
  pose proof (B s _ _ L) as Hb. simpl in Hb.
  unfold conn_at, win_at, pre, evs_to.
  rewrite <- (si_wuc _ _ _ I), <- (si_wus _ _ _ I), <- (si_init _ _ _ I).
  rewrite <- (c_conn _ _ _ _ _ _ _ C). rewrite <- (c_win _ _ _ _ _ _ _ C _ _ _ L). exact Hb.
Qed.

(* at most one INITIAL_WINDOW_SIZE entry per SETTINGS frame: no longer a hypothesis of any theorem
   (repair fixes/C09-2); kept as a description of scripts *)
Definition single_init (ls : list label) : bool :=
  forallb (fun l => match l_frame l with
                    | FSettings kv => Nat.leb (length (filter (fun p => N.eqb (fst p) 4) kv)) 1
                    | _ => true end) ls.

Lemma nosetinit_all x acts :
  Forall (fun a => is_setinit a = false) acts ->
  forallb (fun a => negb (is_setinit a)) (acts_to x acts) = true.
Proof.
  induction 1 as [|a t Ha _ IH]; [reflexivity|]. unfold acts_to in *. simpl.
  destruct (side_eqb (act_side a) x); simpl; [rewrite Ha; simpl|]; assumption.
Qed.

Lemma front_shape f y fr f' acts x :
  front f y fr = Some (f', acts) -> shape_ok x acts.
Proof.
  unfold front. destruct (negb (frame_ok (f_cont f y) fr)); [discriminate|].
  intros H. unfold shape_ok.
  destruct fr as [s es d pad|s es eh pr fid e0|s eh|s p|s c|kv| |s eh pm fid|a d|l c d|s inc].
  - destruct (split_data _ _ s es d) as [qs|]; [|discriminate]. inversion H; subst.
    assert (Hn : forallb (fun a => negb (is_setinit a))
                   (acts_to x ((if N.eqb (fcl d pad) 0 then [] else [ACredit y 0 (fcl d pad); ACredit y s (fcl d pad)])
                               ++ map (AEnq (other y)) qs)) = true).
    { apply nosetinit_all. apply Forall_app. split.
      - destruct (N.eqb (fcl d pad) 0); repeat constructor.
      - apply Forall_forall. intros a Ha. apply in_map_iff in Ha. destruct Ha as (q & <- & _). reflexivity. }
    destruct (acts_to x _) as [|a0 r]; [exact I|]. simpl in Hn. apply andb_prop in Hn. apply Hn.
  - destruct eh; inversion H; subst; unfold acts_to; simpl; destruct (side_eqb (other y) x); exact I || reflexivity.
  - destruct (f_cont f y); [|discriminate]. destruct eh; inversion H; subst; unfold acts_to; simpl;
      try destruct (side_eqb (other y) x); exact I || reflexivity.
  - inversion H; subst; unfold acts_to; simpl; destruct (side_eqb (other y) x); exact I || reflexivity.
  - inversion H; subst; unfold acts_to; simpl; destruct (side_eqb (other y) x); exact I || reflexivity.
  - inversion H; subst. unfold settings_actions, acts_to.
    destruct (last_occ 4 kv); simpl; try destruct (side_eqb y x); simpl;
      destruct (side_eqb (other y) x); exact I || reflexivity.
  - inversion H; subst; unfold acts_to; simpl; destruct (side_eqb (other y) x); exact I || reflexivity.
  - destruct eh; inversion H; subst; unfold acts_to; simpl; try destruct (side_eqb (other y) x); exact I || reflexivity.
  - inversion H; subst; unfold acts_to; simpl; destruct (side_eqb (other y) x); exact I || reflexivity.
  - inversion H; subst; unfold acts_to; simpl; destruct (side_eqb (other y) x); exact I || reflexivity.
  - inversion H; subst; unfold acts_to; simpl. destruct (N.eqb s 0); simpl; destruct (side_eqb y x); exact I || reflexivity.
Qed.

Lemma firstn_S_snoc {A} (l : list A) k d : (k < length l)%nat -> firstn (S k) l = firstn k l ++ [nth k l d].
Proof.
  revert k. induction l as [|a t IH]; intros k H; simpl in H; [lia|].
  destruct k; simpl; [reflexivity|]. f_equal. apply IH. lia.
Qed.

Theorem model_P_stream ls st o : run s0 ls = (st, o) -> P_stream ls o.
Proof.
  intros R k x s Hk _ _ Hpos.
  pose proof (run_length _ _ _ _ R) as Hlen.
  destruct (sinv_prefix _ _ _ k R) as (stk & Rk & I); [lia|].
  destruct (sinv_prefix _ _ _ (S k) R) as (stk1 & Rk1 & I1); [lia|].
  set (l0 := mkLabel Cl FSettingsAck []).
  rewrite (firstn_S_snoc ls k l0) in Rk1 by lia.
  rewrite (firstn_S_snoc o k []) in Rk1 by lia.
  assert (Hfull : length (firstn k o) = length (firstn k ls)) by (rewrite !firstn_length; lia).
  rewrite (run_snoc _ _ _ _ (nth k ls l0) Rk Hfull) in Rk1.
  destruct (step stk (nth k ls l0)) as [[st2 e]|] eqn:S.
  2:{ inversion Rk1 as [[H1 H2]]. apply (f_equal (@length _)) in H2. rewrite app_length in H2. simpl in H2. lia. }
  inversion Rk1 as [[H1 H2]]. apply app_inj_tail in H2. destruct H2 as [_ He]. subst e st2.
  unfold step in S.
  destruct (front (sf stk) (l_from (nth k ls l0)) (l_frame (nth k ls l0))) as [[f' acts]|] eqn:F; [|discriminate].
  destruct (bsteps (f_tab f') (sb stk) (l_order (nth k ls l0)) acts) as [b' evs] eqn:B. inversion S; subst.
  destruct (front_ledger _ _ _ _ _ F) as (W & _).
  pose proof (front_shape _ _ _ _ _ x F) as Hsh.
  destruct (bsteps_safe _ _ x s _ _ _ _ _ _ (si_b _ _ _ I) W Hsh B) as (_ & Sf).
  destruct Sf as [Hz|(w & q & L & Hw)]; [lia|].
  destruct (si_b _ _ _ I1 x) as [C1 _]. cbn [sb] in C1.
  unfold win_at, pre, evs_to.
  rewrite <- (si_wus _ _ _ I1), <- (si_init _ _ _ I1).
  rewrite <- (c_win _ _ _ _ _ _ _ C1 _ _ _ L). assumption.
Qed.
