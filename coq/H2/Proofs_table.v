(* HPACK table size: the relay's encoder toward x never uses a dynamic table
   larger than x allows. *)
From Coq Require Import List NArith ZArith Bool Ascii Arith Lia.
From Martian.H2 Require Import Model Spec Proofs_base Proofs_flow Proofs_act Proofs_run Proofs_script Proofs_props.
Import ListNotations.

Lemma tab_of_stamp t w : (tab_of (stamp t w) <= t)%N.
Proof. destruct w; simpl; lia. Qed.

Lemma bsteps_tab tabs order acts : forall b b' e,
  bsteps tabs b order acts = (b', e) -> Forall (fun ev => (tab_of (snd ev) <= tabs (fst ev))%N) e.
Proof.
  induction acts as [|a t IH]; intros b b' e H; simpl in H.
  - inversion H. constructor.
  - destruct (bstep tabs b order a) as [b1 e1] eqn:E1. destruct (bsteps tabs b1 order t) as [b2 e2] eqn:E2.
    inversion H; subst. apply Forall_app. split; [|eapply IH; eauto].
    unfold bstep in E1. destruct (flow_act (getf b (act_side a)) order a) as [x' ws].
    inversion E1; subst. unfold tag. apply Forall_forall. intros ev Hev.
    apply in_map_iff in Hev. destruct Hev as (w & <- & Hw). apply in_map_iff in Hw.
    destruct Hw as (w0 & <- & _). simpl. apply tab_of_stamp.
Qed.

Lemma nmax_mono l : forall c c', (c <= c')%N -> (nmax l c <= nmax l c')%N.
Proof. unfold nmax. induction l as [|a t IH]; intros c c' H; simpl; [assumption|]. apply IH. lia. Qed.
Lemma nmax_ge l : forall c, (c <= nmax l c)%N.
Proof. unfold nmax. induction l as [|a t IH]; intros c; simpl; [lia|]. specialize (IH (N.max c a)). lia. Qed.
Lemma nmax_app a b c : nmax (a ++ b) c = nmax b (nmax a c).
Proof. unfold nmax. apply fold_left_app. Qed.

Definition vals1 (kv : list (N * N)) : list N := flat_map (fun p => if N.eqb (fst p) 1 then [snd p] else []) kv.
Lemma tab1_le kv : forall c, (tab1 c kv <= nmax (vals1 kv) c)%N.
Proof.
  unfold tab1, vals1. induction kv as [|p t IH]; intros c; simpl; [unfold nmax; simpl; lia|].
  destruct (N.eqb (fst p) 1); simpl.
  - eapply N.le_trans; [apply IH|]. unfold nmax at 2. simpl. apply nmax_mono. lia.
  - apply IH.
Qed.
Lemma tab_last_le kvs : forall c, (tab_last c kvs <= nmax (tab_vals kvs) c)%N.
Proof.
  unfold tab_last, tab_vals. induction kvs as [|kv t IH]; intros c; simpl; [unfold nmax; simpl; lia|].
  rewrite nmax_app. eapply N.le_trans; [apply IH|]. apply nmax_mono. apply tab1_le.
Qed.

Lemma tabsz_le_bound x ls : (tabsz_of x ls <= tab_bound x ls)%N.
Proof.
  unfold tabsz_of, tab_bound.
  set (kvs := settings_of x ls). set (a := acks_of (other x) ls).
  rewrite <- (firstn_skipn a kvs) at 1. unfold tab_last at 1. rewrite fold_left_app.
  apply tab_last_le.
Qed.

Theorem model_P_table ls st o : run s0 ls = (st, o) -> P_table ls o.
Proof.
  intros R k x w Hk _ Hw.
  pose proof (run_length _ _ _ _ R) as Hlen.
  destruct (sinv_prefix _ _ _ k R) as (stk & Rk & I); [lia|].
  destruct (sinv_prefix _ _ _ (S k) R) as (stk1 & Rk1 & I1); [lia|].
  set (l0 := mkLabel Cl FSettingsAck []).
  rewrite (firstn_S_snoc ls k l0) in Rk1 by lia.
  rewrite (firstn_S_snoc o k []) in Rk1 by lia.
  assert (Hfull : length (firstn k o) = length (firstn k ls)) by (rewrite !firstn_length; lia).
  rewrite (run_snoc _ _ _ _ (nth k ls l0) Rk Hfull) in Rk1.
  destruct (step stk (nth k ls l0)) as [[st2 e]|] eqn:S.
  2:{ inversion Rk1 as [[H1 H2]]. apply (f_equal (@length _)) in H2. rewrite app_length in H2. simpl in H2. lia. }
  inversion Rk1 as [[H1 H2]]. apply app_inj_tail in H2. destruct H2 as [_ He]. subst e st2.
  unfold step in S.
  destruct (front (sf stk) (l_from (nth k ls l0)) (l_frame (nth k ls l0))) as [[f' acts]|] eqn:F; [|discriminate].
  destruct (bsteps (f_tab f') (sb stk) (l_order (nth k ls l0)) acts) as [b' evs] eqn:B. inversion S; subst.
  pose proof (bsteps_tab _ _ _ _ _ _ B) as Ht.
  unfold to_side in Hw. apply in_map_iff in Hw. destruct Hw as (ev & <- & Hev).
  apply filter_In in Hev. destruct Hev as [Hin Hs]. apply side_eqb_eq in Hs.
  rewrite Forall_forall in Ht. specialize (Ht ev Hin). rewrite Hs in Ht.
  pose proof (si_tab _ _ _ I1 x) as Hx. cbn [sf] in Hx. rewrite Hx in Ht.
  unfold pre. eapply N.le_trans; [exact Ht|apply tabsz_le_bound].
Qed.
