(* Known finding C08-K1, guarded form: when no HEADERS frame carries the
   PRIORITY flag with all-zero fields, the flag itself is preserved too. *)
From Coq Require Import List NArith ZArith Bool Ascii Arith Lia.
From Martian.H2 Require Import Model Spec Proofs_base Proofs_flow Proofs_act Proofs_run Proofs_script
  Proofs_props Proofs_oracle Proofs_c08 Proofs_final.
Import ListNotations.

Definition pn (w : wire) : Prop := atoms_w true w = atoms_w false w.
Lemma pn_qwires e em : Forall pn (qwires e em).
Proof.
  revert e. induction em as [|f t IH]; intros e; simpl; constructor; auto.
  unfold pn. destruct f; simpl; try reflexivity.
  destruct (prio_is_zero pr) eqn:E; simpl; [reflexivity|rewrite E; reflexivity].
Qed.
Lemma emit_pn fl k fl' ws : emit_stream fl k = (fl', ws) -> Forall pn ws.
Proof.
  intros H. destruct (lookup k (strs fl)) as [[w q]|] eqn:L.
  - destruct (emit_stream_some _ _ _ _ _ _ L H) as (em & q2 & _ & -> & _). apply pn_qwires.
  - rewrite emit_stream_none in H by assumption. inversion H. constructor.
Qed.
Lemma sweep_list_pn ss : forall fl fl' ws, sweep_list fl ss = (fl', ws) -> Forall pn ws.
Proof.
  induction ss as [|k t IH]; intros fl fl' ws H; simpl in H.
  - inversion H. constructor.
  - destruct (emit_stream fl k) as [x1 w1] eqn:E1. destruct (sweep_list x1 t) as [x2 w2] eqn:E2.
    inversion H; subst. apply Forall_app. split; [eapply emit_pn|eapply IH]; eauto.
Qed.
Lemma flow_act_pn fl order a fl' ws : wf_act a -> flow_act fl order a = (fl', ws) -> Forall pn ws.
Proof.
  intros Hwf H. destruct a as [t q|t k n|t v|t inc|t k inc|t w]; simpl in H.
  - eapply emit_pn; eauto.
  - inversion H. repeat constructor.
  - unfold sweep in H. eapply sweep_list_pn; eauto.
  - destruct (sweep _ order) as [x1 w1] eqn:E1. destruct (emit_stream _ 0%N) as [x2 w2] eqn:E2.
    inversion H; subst. unfold sweep in E1. apply Forall_app. split; [eapply sweep_list_pn|eapply emit_pn]; eauto.
  - eapply emit_pn; eauto.
  - inversion H; subst. constructor; [|constructor]. simpl in Hwf. unfold pn. destruct w; simpl in *; try discriminate; reflexivity.
Qed.
Lemma pn_stamp t w : pn w -> pn (stamp t w).
Proof. unfold pn. destruct w; simpl; auto. Qed.
Lemma bsteps_pn tabs order acts : forall b b' e,
  Forall wf_act acts -> bsteps tabs b order acts = (b', e) -> Forall (fun ev => pn (snd ev)) e.
Proof.
  induction acts as [|a t IH]; intros b b' e Hwf H; simpl in H.
  - inversion H. constructor.
  - destruct (bstep tabs b order a) as [b1 e1] eqn:E1. destruct (bsteps tabs b1 order t) as [b2 e2] eqn:E2.
    inversion H; subst. inversion Hwf; subst. apply Forall_app. split; [|eapply IH; eauto].
    unfold bstep in E1. destruct (flow_act (getf b (act_side a)) order a) as [x' ws] eqn:F.
    inversion E1; subst. apply (flow_act_pn _ _ _ _ _ H2) in F. unfold tag.
    apply Forall_forall. intros ev Hev. apply in_map_iff in Hev. destruct Hev as (w & <- & Hw).
    apply in_map_iff in Hw. destruct Hw as (w0 & <- & Hw0).
    simpl. apply pn_stamp. rewrite Forall_forall in F. auto.
Qed.
Lemma run_pn ls : forall st st' o, run st ls = (st', o) -> Forall (fun ev => pn (snd ev)) (concat o).
Proof.
  induction ls as [|l t IH]; intros st st' o H; simpl in H.
  - inversion H. constructor.
  - unfold step in H. destruct (front (sf st) (l_from l) (l_frame l)) as [[f' acts]|] eqn:F; [|inversion H; constructor].
    destruct (bsteps (f_tab f') (sb st) (l_order l) acts) as [b' e] eqn:B.
    destruct (run (mkS f' b') t) as [st2 r] eqn:R. inversion H; subst. simpl.
    apply Forall_app. split; [|eapply IH; eauto].
    destruct (front_ledger _ _ _ _ _ F) as (W & _). eapply bsteps_pn; eauto.
Qed.

Lemma out_atoms_raw x s evs :
  Forall (fun ev => pn (snd ev)) evs -> out_atoms true x s evs = out_atoms false x s evs.
Proof.
  intros H. unfold out_atoms, to_side, on_stream. induction H as [|ev t Hev _ IH]; simpl; auto.
  destruct (side_eqb (fst ev) x); simpl; [|assumption].
  destruct (wsid (snd ev)) as [k|]; [|assumption]. destruct (N.eqb k s); [|assumption].
  simpl. rewrite Hev, IH. reflexivity.
Qed.

Definition no_zero_prio (ls : list label) : bool :=
  forallb (fun l => match l_frame l with
                    | FHeaders _ _ _ (Some p) _ _ => negb (prio_is_zero p) | _ => true end) ls.

Lemma in_atoms_go_raw s fs : forall pd,
  Forall (fun f => match f with FHeaders _ _ _ (Some p) _ _ => prio_is_zero p = false | _ => True end) fs ->
  in_atoms_go true pd s fs = in_atoms_go false pd s fs.
Proof.
  induction fs as [|f t IH]; intros pd H; simpl; auto. inversion H; subst.
  destruct f; simpl; rewrite ?IH by assumption; auto.
  all: try (destruct pr as [p|]; simpl; [rewrite H2|]); try destruct eh; rewrite ?IH by assumption; reflexivity.
Qed.

Lemma no_zero_prio_from y ls :
  no_zero_prio ls = true ->
  Forall (fun f => match f with FHeaders _ _ _ (Some p) _ _ => prio_is_zero p = false | _ => True end) (from y ls).
Proof.
  unfold no_zero_prio, from. induction ls as [|l t IH]; simpl; intros H; [constructor|].
  apply andb_prop in H. destruct H as [H1 H2]. destruct (side_eqb (l_from l) y); simpl; auto.
  constructor; auto. destruct (l_frame l); auto. destruct pr; auto. apply negb_true_iff. assumption.
Qed.

Lemma no_zero_prio_firstn k ls : no_zero_prio ls = true -> no_zero_prio (firstn k ls) = true.
Proof.
  unfold no_zero_prio. revert k. induction ls as [|l t IH]; intros k H; destruct k; simpl in *; auto.
  apply andb_prop in H. destruct H as [H1 H2]. rewrite H1. simpl. auto.
Qed.

Theorem prio_flag_partial ls : no_zero_prio ls = true -> P_faithful true ls (obs_of ls).
Proof.
  intros Hn y s Hy Hs. pose proof (final_faithful ls y s Hy Hs) as Hf.
  rewrite (out_atoms_raw _ _ _ (run_pn _ _ _ _ (run_eta ls))).
  unfold in_atoms, pre in *. rewrite in_atoms_go_raw; [assumption|].
  apply no_zero_prio_from. apply no_zero_prio_firstn. assumption.
Qed.
