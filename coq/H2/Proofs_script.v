(* Dispatch layer and whole scripts: the ledgers computed from the script agree
   with the ledgers of the actions the dispatch layer produces; invariant of
   every fully executed script prefix. *)
From Coq Require Import List NArith ZArith Bool Ascii Arith Lia.
From Martian.H2 Require Import Model Spec Proofs_base Proofs_flow Proofs_act Proofs_run.
Import ListNotations.
Open Scope Z_scope.

(* ------------------------------------------------------------- run lemmas *)
Lemma run_length ls : forall st st' o, run st ls = (st', o) -> (length o <= length ls)%nat.
Proof.
  induction ls as [|l t IH]; intros st st' o H; simpl in H.
  - inversion H. simpl. lia.
  - destruct (step st l) as [[st1 e]|]; [|inversion H; simpl; lia].
    destruct (run st1 t) as [st2 r] eqn:R. inversion H; subst. simpl. apply IH in R. lia.
Qed.

Lemma run_snoc ls : forall st st1 o1 l,
  run st ls = (st1, o1) -> length o1 = length ls ->
  run st (ls ++ [l]) = match step st1 l with
                       | Some (st2, e) => (st2, o1 ++ [e])
                       | None => (st1, o1)
                       end.
Proof.
  induction ls as [|a t IH]; intros st st1 o1 l H Hl; simpl in H.
  - inversion H; subst. simpl. destruct (step st1 l) as [[st2 e]|]; reflexivity.
  - simpl. destruct (step st a) as [[sta e]|]; [|inversion H; subst; discriminate].
    destruct (run sta t) as [st2 r] eqn:R. inversion H; subst. simpl in Hl.
    rewrite (IH _ _ _ l R) by lia. destruct (step st1 l) as [[st3 e3]|]; reflexivity.
Qed.

Lemma front_run_snoc ls : forall st st1 o1 l,
  run st ls = (st1, o1) -> length o1 = length ls ->
  front_run (sf st) (ls ++ [l]) =
  front_run (sf st) ls ++ match front (sf st1) (l_from l) (l_frame l) with
                          | Some (_, acts) => acts | None => [] end.
Proof.
  induction ls as [|a t IH]; intros st st1 o1 l H Hl; simpl in H.
  - inversion H; subst. simpl. destruct (front (sf st1) (l_from l) (l_frame l)) as [[f acts]|]; simpl; auto.
    rewrite app_nil_r. reflexivity.
  - simpl. unfold step in H.
    destruct (front (sf st) (l_from a) (l_frame a)) as [[f' acts]|]; [|inversion H; subst; discriminate].
    destruct (bsteps (f_tab f') (sb st) (l_order a) acts) as [b' evs].
    destruct (run (mkS f' b') t) as [st2 r] eqn:R. inversion H; subst. simpl in Hl.
    rewrite <- app_assoc. f_equal. apply (IH (mkS f' b') _ _ l R). lia.
Qed.

Lemma run_prefix ls : forall st st' o k,
  run st ls = (st', o) -> (k <= length o)%nat ->
  exists stk, run st (firstn k ls) = (stk, firstn k o) /\ length (firstn k o) = length (firstn k ls).
Proof.
  induction ls as [|l t IH]; intros st st' o k H Hk; simpl in H.
  - inversion H; subst. simpl in Hk. assert (k = 0)%nat by lia. subst. exists st'. split; reflexivity.
  - destruct k as [|k]; [exists st; split; reflexivity|].
    destruct (step st l) as [[st1 e]|] eqn:S; [|inversion H; subst; simpl in Hk; lia].
    destruct (run st1 t) as [st2 r] eqn:R. inversion H; subst. simpl in Hk.
    destruct (IH _ _ _ k R) as (stk & Hr & Hlen); [lia|].
    exists stk. simpl. rewrite S, Hr. split; [reflexivity|]. simpl. lia.
Qed.

(* ------------------------------------------------------------ script ledgers *)
Lemma from_snoc y ls l :
  from y (ls ++ [l]) = from y ls ++ (if side_eqb (l_from l) y then [l_frame l] else []).
Proof.
  unfold from. rewrite filter_app, map_app. simpl. destruct (side_eqb (l_from l) y); reflexivity.
Qed.

Definition on (b : bool) (z : Z) : Z := if b then z else 0.

Lemma wus_snoc x s ls l : wus x s (ls ++ [l]) = wus x s ls + on (side_eqb (l_from l) x) (wu s (l_frame l)).
Proof.
  unfold wus. rewrite from_snoc, map_app, zsum_app. destruct (side_eqb (l_from l) x); simpl; lia.
Qed.
Lemma fclc_snoc y ls l : fclc y (ls ++ [l]) = fclc y ls + on (side_eqb (l_from l) y) (dfcl None (l_frame l)).
Proof.
  unfold fclc. rewrite from_snoc, map_app, zsum_app. destruct (side_eqb (l_from l) y); simpl; lia.
Qed.
Lemma fcls_snoc y s ls l :
  fcls y s (ls ++ [l]) = fcls y s ls + on (side_eqb (l_from l) y) (dfcl (Some s) (l_frame l)).
Proof.
  unfold fcls. rewrite from_snoc, map_app, zsum_app. destruct (side_eqb (l_from l) y); simpl; lia.
Qed.

Definition set1 (id : N) (m : N) (f : frame) : N :=
  match f with
  | FSettings kv => fold_left (fun m p => if N.eqb (fst p) id then snd p else m) kv m
  | _ => m
  end.
Lemma last_setting_snoc id cur fs f : last_setting id cur (fs ++ [f]) = set1 id (last_setting id cur fs) f.
Proof. unfold last_setting. rewrite fold_left_app. reflexivity. Qed.

(* --------------------------------------------- ledgers of one label's actions *)
Lemma acts_to_app x a b : acts_to x (a ++ b) = acts_to x a ++ acts_to x b.
Proof. unfold acts_to. apply filter_app. Qed.
Lemma a_wuc_app x a b : a_wuc x (a ++ b) = a_wuc x a + zsum (map a_wuc1 (acts_to x b)).
Proof. unfold a_wuc. rewrite acts_to_app, map_app, zsum_app. reflexivity. Qed.
Lemma a_wus_app x s a b : a_wus x s (a ++ b) = a_wus x s a + zsum (map (a_wus1 s) (acts_to x b)).
Proof. unfold a_wus. rewrite acts_to_app, map_app, zsum_app. reflexivity. Qed.
Lemma a_init_app x a b : a_init x (a ++ b) = fold_left a_init1 (acts_to x b) (a_init x a).
Proof. unfold a_init. rewrite acts_to_app, fold_left_app. reflexivity. Qed.

Definition quiet (a : action) : Prop :=
  a_wuc1 a = 0 /\ (forall s, a_wus1 s a = 0) /\ (forall m, a_init1 m a = m)
  /\ (forall y s, a_cred y s a = 0) /\ (forall x, a_dir x a = []) /\ wf_act a /\ is_setinit a = false.

Lemma quiet_enq z q : quiet (AEnq z q).
Proof. repeat split; reflexivity. Qed.

Lemma quiet_ledgers x acts :
  Forall quiet acts ->
  zsum (map a_wuc1 (acts_to x acts)) = 0 /\ (forall s, zsum (map (a_wus1 s) (acts_to x acts)) = 0)
  /\ (forall m, fold_left a_init1 (acts_to x acts) m = m)
  /\ (forall y s, zsum (map (a_cred y s) acts) = 0) /\ (forall x', flat_map (a_dir x') acts = [])
  /\ Forall wf_act acts /\ forallb (fun a => negb (is_setinit a)) (acts_to x acts) = true.
Proof.
  induction 1 as [|a t (Q1 & Q2 & Q3 & Q4 & Q5 & Q6 & Q7) _ (I1 & I2 & I3 & I4 & I5 & I6 & I7)].
  - repeat split; auto.
  - unfold acts_to in *. simpl. destruct (side_eqb (act_side a) x); simpl.
    + rewrite Q1, I1, Q7. simpl. repeat split; auto.
      * intros s. rewrite Q2, I2. reflexivity.
      * intros m. rewrite Q3. apply I3.
      * intros y s. rewrite Q4, I4. reflexivity.
      * intros x'. rewrite Q5, I5. reflexivity.
    + repeat split; auto.
      * intros y s. rewrite Q4, I4. reflexivity.
      * intros x'. rewrite Q5, I5. reflexivity.
Qed.

Lemma settings_init y x kv m :
  fold_left a_init1 (acts_to x (settings_actions y kv)) (Z.of_N m) =
  Z.of_N (if side_eqb y x then fold_left (fun m p => if N.eqb (fst p) 4 then snd p else m) kv m else m).
Proof.
  rewrite fold_last_occ. unfold settings_actions, acts_to.
  destruct (last_occ 4 kv); simpl; destruct (side_eqb y x); reflexivity.
Qed.

Lemma settings_quiet_but_init y kv x :
  zsum (map a_wuc1 (acts_to x (settings_actions y kv))) = 0
  /\ (forall s, zsum (map (a_wus1 s) (acts_to x (settings_actions y kv))) = 0)
  /\ (forall y' s, zsum (map (a_cred y' s) (settings_actions y kv)) = 0)
  /\ (forall x', flat_map (a_dir x') (settings_actions y kv) = [])
  /\ Forall wf_act (settings_actions y kv).
Proof.
  unfold settings_actions, acts_to. destruct (last_occ 4 kv); simpl.
  - destruct (side_eqb y x); simpl; repeat split; auto; repeat constructor.
  - repeat split; auto.
Qed.

Definition lab_on (y x : side) : bool := side_eqb y x.

(* The ledger contributions of the actions produced for one frame. *)
Lemma front_ledger f y fr f' acts :
  front f y fr = Some (f', acts) ->
  Forall wf_act acts
  /\ (forall x, zsum (map a_wuc1 (acts_to x acts)) = on (side_eqb y x) (wu 0 fr))
  /\ (forall x s, zsum (map (a_wus1 s) (acts_to x acts)) = on (side_eqb y x) (wu s fr))
  /\ (forall x m, fold_left a_init1 (acts_to x acts) (Z.of_N m) =
                  Z.of_N (if side_eqb y x then set1 4 m fr else m))
  /\ (forall y' s, zsum (map (a_cred y' s) acts) =
                   on (side_eqb y y') (if N.eqb s 0 then dfcl None fr else dfcl (Some s) fr))
  /\ (forall x, flat_map (a_dir x) acts = if side_eqb (other y) x then direct_of fr else [])
  /\ (forall x, f_maxf f' x = if side_eqb y x then set1 5 (f_maxf f x) fr else f_maxf f x).
Proof.
  unfold front. destruct (negb (frame_ok (f_cont f y) fr)) eqn:OK; [discriminate|].
  apply negb_false_iff in OK.
  destruct fr as [s es d pad|s es eh pr fid e0|s eh|s p|s c|kv| |s eh pm fid|a d|l c d|s inc]; intros H.
  - (* DATA *)
    destruct (split_data (S (length d)) (f_maxf f (other y)) s es d) as [qs|] eqn:SP; [|discriminate].
    inversion H; subst. clear H.
    assert (Hq : Forall quiet (map (AEnq (other y)) qs)).
    { apply Forall_forall. intros a Ha. apply in_map_iff in Ha. destruct Ha as (q & <- & _). apply quiet_enq. }
    assert (Hs0 : s <> 0%N).
    { destruct (f_cont f' y); simpl in OK; [discriminate|]. apply negb_true_iff in OK. apply N.eqb_neq in OK. assumption. }
    split; [|split; [|split; [|split; [|split; [|split]]]]].
    + apply Forall_app. split; [destruct (N.eqb (fcl d pad) 0); repeat constructor|].
      destruct (quiet_ledgers y _ Hq) as (_ & _ & _ & _ & _ & W & _). exact W.
    + intros x. rewrite acts_to_app, map_app, zsum_app.
      destruct (quiet_ledgers x _ Hq) as (-> & _). unfold acts_to.
      destruct (N.eqb (fcl d pad) 0); simpl; destruct (side_eqb y x); simpl; reflexivity.
    + intros x k. rewrite acts_to_app, map_app, zsum_app.
      destruct (quiet_ledgers x _ Hq) as (_ & -> & _). unfold acts_to.
      destruct (N.eqb (fcl d pad) 0); simpl; destruct (side_eqb y x); simpl; reflexivity.
    + intros x m. rewrite acts_to_app, fold_left_app.
      destruct (quiet_ledgers x _ Hq) as (_ & _ & -> & _). unfold acts_to.
      destruct (N.eqb (fcl d pad) 0); simpl; destruct (side_eqb y x); simpl; reflexivity.
    + intros y' k. rewrite map_app, zsum_app.
      destruct (quiet_ledgers y _ Hq) as (_ & _ & _ & -> & _).
      destruct (N.eqb (fcl d pad) 0) eqn:Z0; simpl.
      * apply N.eqb_eq in Z0. rewrite Z0. destruct (side_eqb y y'), (N.eqb k 0), (N.eqb s k); reflexivity.
      * destruct (side_eqb y y') eqn:E; simpl; [|reflexivity].
        destruct (N.eqb k 0) eqn:K0.
        -- apply N.eqb_eq in K0. subst k. simpl.
           destruct (N.eqb s 0) eqn:S0; [apply N.eqb_eq in S0; congruence|]. simpl. lia.
        --            destruct k; [discriminate|]. destruct (N.eqb s (N.pos p)); simpl; lia.
    + intros x. rewrite flat_map_app.
      destruct (quiet_ledgers y _ Hq) as (_ & _ & _ & _ & -> & _).
      destruct (N.eqb (fcl d pad) 0); simpl; destruct (side_eqb (other y) x); reflexivity.
    + intros x. destruct (side_eqb y x); reflexivity.
  - (* HEADERS *)
    destruct eh; inversion H; subst; clear H;
      (split; [repeat constructor|]); repeat split; intros; unfold acts_to; simpl;
      try (destruct (side_eqb (other y) x)); try (destruct (side_eqb y x)); try (destruct (side_eqb y y'));
      try (destruct (N.eqb s0 0)); try reflexivity; destruct y; reflexivity.
  - (* CONTINUATION *)
    destruct (f_cont f y) as [p|]; [|discriminate].
    destruct eh; inversion H; subst; clear H;
      (split; [repeat constructor|]); repeat split; intros; unfold acts_to; simpl;
      try (destruct (side_eqb (other y) x)); try (destruct (side_eqb y x)); try (destruct (side_eqb y y'));
      try (destruct (N.eqb s0 0)); try reflexivity; destruct y; reflexivity.
  - inversion H; subst; clear H.
    (split; [repeat constructor|]); repeat split; intros; unfold acts_to; simpl;
      try (destruct (side_eqb (other y) x)); try (destruct (side_eqb y x)); try (destruct (side_eqb y y'));
      try (destruct (N.eqb s0 0)); try reflexivity.
  - inversion H; subst; clear H.
    (split; [repeat constructor|]); repeat split; intros; unfold acts_to; simpl;
      try (destruct (side_eqb (other y) x)); try (destruct (side_eqb y x)); try (destruct (side_eqb y y'));
      try (destruct (N.eqb s0 0)); try reflexivity.
  - (* SETTINGS *)
    inversion H; subst; clear H.
    destruct (settings_quiet_but_init y kv y) as (_ & _ & S3 & S4 & S5).
    split; [|split; [|split; [|split; [|split; [|split]]]]].
    + apply Forall_app. split; [assumption|repeat constructor].
    + intros x. destruct (settings_quiet_but_init y kv x) as (S1 & _).
      rewrite acts_to_app, map_app, zsum_app, S1. unfold acts_to. simpl.
      destruct (side_eqb (other y) x), (side_eqb y x); reflexivity.
    + intros x s. destruct (settings_quiet_but_init y kv x) as (_ & S2 & _).
      rewrite acts_to_app, map_app, zsum_app, S2. unfold acts_to. simpl.
      destruct (side_eqb (other y) x), (side_eqb y x); reflexivity.
    + intros x m. rewrite acts_to_app, fold_left_app, settings_init. unfold acts_to. simpl.
      destruct (side_eqb (other y) x); reflexivity.
    + intros y' s. rewrite map_app, zsum_app, S3. simpl. destruct (side_eqb y y'), (N.eqb s 0); reflexivity.
    + intros x. rewrite flat_map_app, S4. simpl. destruct (side_eqb (other y) x); reflexivity.
    + intros x. unfold settings_maxf. destruct y, x; reflexivity.
  - inversion H; subst; clear H.
    (split; [repeat constructor|]); repeat split; intros; unfold acts_to; simpl;
      try (destruct (side_eqb (other y) x)); try (destruct (side_eqb y x)); try (destruct (side_eqb y y'));
      try (destruct (N.eqb s 0)); try reflexivity.
  - destruct eh; inversion H; subst; clear H;
      (split; [repeat constructor|]); repeat split; intros; unfold acts_to; simpl;
      try (destruct (side_eqb (other y) x)); try (destruct (side_eqb y x)); try (destruct (side_eqb y y'));
      try (destruct (N.eqb s0 0)); try reflexivity.
  - inversion H; subst; clear H.
    (split; [repeat constructor|]); repeat split; intros; unfold acts_to; simpl;
      try (destruct (side_eqb (other y) x)); try (destruct (side_eqb y x)); try (destruct (side_eqb y y'));
      try (destruct (N.eqb s 0)); try reflexivity.
  - inversion H; subst; clear H.
    (split; [repeat constructor|]); repeat split; intros; unfold acts_to; simpl;
      try (destruct (side_eqb (other y) x)); try (destruct (side_eqb y x)); try (destruct (side_eqb y y'));
      try (destruct (N.eqb s 0)); try reflexivity.
  - (* WINDOW_UPDATE *)
    inversion H; subst; clear H.
    split; [destruct (N.eqb s 0); repeat constructor|].
    repeat split; intros; unfold acts_to; destruct (N.eqb s 0) eqn:S0; simpl;
      try (destruct (side_eqb (other y) x)); try (destruct (side_eqb y x)); try (destruct (side_eqb y y'));
      simpl; try reflexivity.
    all: try (apply N.eqb_eq in S0; subst s).
    all: try (rewrite N.eqb_refl).
    all: try (destruct (N.eqb s0 0) eqn:K0; [apply N.eqb_eq in K0; subst s0|]); simpl; try lia.
    all: try (rewrite S0; simpl; lia).
    all: try (rewrite (N.eqb_sym 0 s0), K0; simpl; lia).
    all: try (destruct (N.eqb s s0); simpl; lia).
    all: try (destruct (N.eqb s1 0); reflexivity).
    all: try (destruct s0; [discriminate|reflexivity]).
Qed.

Lemma f_tab_set_cont f y c x : f_tab (set_cont f y c) x = f_tab f x.
Proof. destruct y, x; reflexivity. Qed.

Lemma front_tab f y fr f' acts :
  front f y fr = Some (f', acts) ->
  forall x, f_tab f' x = if side_eqb y x then set1 1 (f_tab f x) fr else f_tab f x.
Proof.
  unfold front. destruct (negb (frame_ok (f_cont f y) fr)); [discriminate|].
  intros H x.
  destruct fr as [s es d pad|s es eh pr fid e0|s eh|s p|s c|kv| |s eh pm fid|a d|l c d|s inc]; simpl.
  - destruct (split_data _ _ s es d); [|discriminate]. inversion H; subst. destruct (side_eqb y x); reflexivity.
  - destruct eh; inversion H; subst; rewrite ?f_tab_set_cont; destruct (side_eqb y x); reflexivity.
  - destruct (f_cont f y); [|discriminate]. destruct eh; inversion H; subst; rewrite ?f_tab_set_cont;
      destruct (side_eqb y x); reflexivity.
  - inversion H; subst. destruct (side_eqb y x); reflexivity.
  - inversion H; subst. destruct (side_eqb y x); reflexivity.
  - inversion H; subst. unfold settings_tab. destruct y, x; reflexivity.
  - inversion H; subst. destruct (side_eqb y x); reflexivity.
  - destruct eh; inversion H; subst; destruct (side_eqb y x); reflexivity.
  - inversion H; subst. destruct (side_eqb y x); reflexivity.
  - inversion H; subst. destruct (side_eqb y x); reflexivity.
  - inversion H; subst. destruct (side_eqb y x); reflexivity.
Qed.
