(* Flow layer, continued: the invariant over action histories, for all sweep
   orders; window safety; shape of the output of an action. *)
From Coq Require Import List NArith ZArith Bool Ascii Arith Lia.
From Martian.H2 Require Import Model Spec Proofs_base Proofs_flow.
Import ListNotations.
Open Scope Z_scope.

Definition acts_to (x : side) (acts : list action) : list action :=
  filter (fun a => side_eqb (act_side a) x) acts.
Definition a_wuc1 (a : action) : Z := match a with AConnWU _ inc => Z.of_N inc | _ => 0 end.
Definition a_wus1 (s : N) (a : action) : Z :=
  match a with
  | AConnWU _ inc => if N.eqb s 0 then Z.of_N inc else 0
  | AStrWU _ k inc => if N.eqb k s then Z.of_N inc else 0
  | _ => 0
  end.
Definition a_init1 (m : Z) (a : action) : Z := match a with ASetInit _ v => Z.of_N v | _ => m end.
Definition a_wuc x acts := zsum (map a_wuc1 (acts_to x acts)).
Definition a_wus x s acts := zsum (map (a_wus1 s) (acts_to x acts)).
Definition a_init x acts := fold_left a_init1 (acts_to x acts) 65535.
Definition a_enq x s acts := q_on s (enq_of x acts).

Definition finv (x : side) (acts : list action) (evs : list event) (fl : flow) : Prop :=
  core x (a_wuc x acts) (fun s => a_wus x s acts) (a_init x acts) (fun s => a_enq x s acts) evs fl
  /\ forall k, blk fl k.

Lemma core_ext x wuc wus ini enq evs fl wuc' wus' ini' enq' :
  wuc = wuc' -> ini = ini' -> (forall s, wus s = wus' s) -> (forall s, enq s = enq' s) ->
  core x wuc wus ini enq evs fl -> core x wuc' wus' ini' enq' evs fl.
Proof.
  intros -> -> Hw He C. destruct C. constructor; auto.
  - intros s w q H. rewrite <- Hw. eauto.
  - intros s. rewrite <- He. auto.
  - intros s H. rewrite <- Hw, <- He. auto.
Qed.

Lemma acts_to_snoc_same x acts a : act_side a = x -> acts_to x (acts ++ [a]) = acts_to x acts ++ [a].
Proof. intros H. unfold acts_to. rewrite filter_app. simpl. rewrite H, side_eqb_refl. reflexivity. Qed.
Lemma acts_to_snoc_other x acts a : act_side a <> x -> acts_to x (acts ++ [a]) = acts_to x acts.
Proof.
  intros H. unfold acts_to. rewrite filter_app. simpl.
  destruct (side_eqb (act_side a) x) eqn:E; [apply side_eqb_eq in E; congruence|apply app_nil_r].
Qed.

Lemma a_wuc_snoc x acts a : act_side a = x -> a_wuc x (acts ++ [a]) = a_wuc x acts + a_wuc1 a.
Proof. intros H. unfold a_wuc. rewrite acts_to_snoc_same, map_app, zsum_app by assumption. simpl. lia. Qed.
Lemma a_wus_snoc x s acts a : act_side a = x -> a_wus x s (acts ++ [a]) = a_wus x s acts + a_wus1 s a.
Proof. intros H. unfold a_wus. rewrite acts_to_snoc_same, map_app, zsum_app by assumption. simpl. lia. Qed.
Lemma a_init_snoc x acts a : act_side a = x -> a_init x (acts ++ [a]) = a_init1 (a_init x acts) a.
Proof. intros H. unfold a_init. rewrite acts_to_snoc_same, fold_left_app by assumption. reflexivity. Qed.
Lemma enq_of_app x a b : enq_of x (a ++ b) = enq_of x a ++ enq_of x b.
Proof. unfold enq_of. apply flat_map_app. Qed.
Lemma q_on_app s a b : q_on s (a ++ b) = q_on s a ++ q_on s b.
Proof. unfold q_on. apply filter_app. Qed.
Lemma a_enq_snoc x s acts a :
  a_enq x s (acts ++ [a]) =
  a_enq x s acts ++ match a with
                    | AEnq t q => if side_eqb t x && N.eqb (qsid q) s then [q] else []
                    | _ => [] end.
Proof.
  unfold a_enq. rewrite enq_of_app, q_on_app. f_equal. unfold enq_of. simpl.
  destruct a; simpl; auto. destruct (side_eqb to x); simpl; auto.
Qed.

(* ledgers of x ignore actions addressed to the other side *)
Lemma ledgers_other x acts a : act_side a <> x ->
  a_wuc x (acts ++ [a]) = a_wuc x acts /\ (forall s, a_wus x s (acts ++ [a]) = a_wus x s acts)
  /\ a_init x (acts ++ [a]) = a_init x acts /\ (forall s, a_enq x s (acts ++ [a]) = a_enq x s acts).
Proof.
  intros H. unfold a_wuc, a_wus, a_init. rewrite acts_to_snoc_other by assumption.
  repeat split; auto. intros s. rewrite a_enq_snoc. destruct a; try apply app_nil_r.
  simpl in H. destruct (side_eqb to x) eqn:E; [apply side_eqb_eq in E; congruence|]. apply app_nil_r.
Qed.

(* ------------------------------------------------------------- sweep core *)
Lemma sweep_core x wuc wus ini enq evs fl order fl' ws :
  core x wuc wus ini enq evs fl -> sweep fl order = (fl', ws) ->
  core x wuc wus ini enq (evs ++ tag x ws) fl'.
Proof. unfold sweep. apply sweep_list_core. Qed.

(* frames that are neither queued frames nor flow controlled *)
Definition inert (w : wire) : Prop := wsid w = None /\ dlen w = 0 /\ wseqs [w] = [].
Lemma core_inert x wuc wus ini enq evs fl w :
  inert w -> core x wuc wus ini enq evs fl -> core x wuc wus ini enq (evs ++ tag x [w]) fl.
Proof.
  intros (Hs & Hd & Hq) C.
  assert (Ho : forall k, on_stream k [w] = []).
  { intros k. unfold on_stream. simpl. rewrite Hs. reflexivity. }
  destruct C. constructor; auto.
  - rewrite sentc_app, sentc_tag. cbn [map zsum fold_right]. rewrite Hd. lia.
  - intros k w' q Hk. rewrite sents_app, sents_tag, Ho. cbn [map zsum fold_right]. rewrite (c_win _ _ _ Hk). lia.
  - intros k. rewrite to_side_app, to_side_tag_same, on_stream_app, Ho, app_nil_r. apply c_cons.
  - intros k Hk. destruct (c_none _ Hk) as (A1 & A2 & A3). repeat split; auto.
    rewrite sents_app, sents_tag, Ho. cbn [map zsum fold_right]. lia.
  - rewrite block_seqs_app, block_seqs_tag, Hq, app_nil_r. assumption.
Qed.
Definition wf_act (a : action) : Prop :=
  match a with ADirect _ w => is_direct w = true | _ => True end.
Lemma direct_inert w : is_direct w = true -> inert w.
Proof. destruct w; simpl; intros H; try discriminate; repeat split; reflexivity. Qed.

(* --------------------------------------------------- the main preservation *)
Lemma flow_act_finv x acts evs fl order a fl' ws :
  finv x acts evs fl -> act_side a = x -> wf_act a -> flow_act fl order a = (fl', ws) ->
  finv x (acts ++ [a]) (evs ++ tag x ws) fl'.
Proof.
  intros [C B] Hs Hwf H. unfold finv.
  destruct a as [t q|t s n|t v|t inc|t s inc|t w]; simpl in Hs; subst t; simpl in H.
  - (* AEnq *)
    set (s := qsid q) in *.
    destruct (ensure_some fl s) as (w0 & q0 & L0).
    pose proof (core_ensure _ _ _ _ _ _ _ s C) as C1.
    destruct (core_push _ _ _ _ _ _ _ q w0 q0 L0 C1) as (C2 & B2 & L2).
    fold s in C2, B2, L2.
    pose proof (emit_core _ _ _ _ _ _ _ _ _ _ C2 H) as C3.
    destruct (emit_blk _ _ _ _ H) as (Bs & Bmono & _ & _).
    split.
    + eapply core_ext; [| | | |exact C3].
      * rewrite a_wuc_snoc by reflexivity. cbn [a_wuc1 a_wus1 a_init1]. lia.
      * rewrite a_init_snoc by reflexivity. reflexivity.
      * intros k. rewrite a_wus_snoc by reflexivity. cbn [a_wuc1 a_wus1 a_init1]. lia.
      * intros k. rewrite a_enq_snoc. rewrite side_eqb_refl. simpl. rewrite (N.eqb_sym (qsid q) k).
        fold s. destruct (N.eqb k s); [reflexivity|symmetry; apply app_nil_r].
    + intros k. destruct (N.eq_dec k s) as [->|Hn]; auto.
      apply Bmono. apply B2; auto. apply blk_ensure. apply B.
  - (* ACredit *)
    inversion H; subst. split.
    + assert (C' : core x (a_wuc x acts) (fun s0 => a_wus x s0 acts) (a_init x acts)
                        (fun s0 => a_enq x s0 acts) (evs ++ tag x [WWin s n]) fl').
      { apply core_inert; auto. repeat split; reflexivity. }
      eapply core_ext; [| | | |exact C'].
      * rewrite a_wuc_snoc by reflexivity. cbn [a_wuc1 a_wus1 a_init1]. lia.
      * rewrite a_init_snoc by reflexivity. reflexivity.
      * intros k. rewrite a_wus_snoc by reflexivity. cbn [a_wuc1 a_wus1 a_init1]. lia.
      * intros k. rewrite a_enq_snoc. symmetry. apply app_nil_r.
    + assumption.
  - (* ASetInit *)
    set (d := Z.of_N v - init fl) in *.
    set (fl1 := mkFlow (conn fl) (Z.of_N v) (enc fl)
                  (map (fun kv : N * strm => (fst kv, (fst (snd kv) + d, snd (snd kv)))) (strs fl))) in *.
    assert (C1 : core x (a_wuc x acts) (fun s0 => a_wus x s0 acts) (Z.of_N v) (fun s0 => a_enq x s0 acts) evs fl1).
    { pose proof (c_init _ _ _ _ _ _ _ C) as Hi. destruct C. constructor; unfold fl1; cbn [conn init enc strs]; auto.
      - intros k w q Hk. rewrite (lookup_map (fun p : strm => (fst p + d, snd p))) in Hk.
        destruct (lookup k (strs fl)) as [[w0 q0]|] eqn:L; simpl in Hk; inversion Hk; subst.
        rewrite (c_win _ _ _ L). unfold d. rewrite Hi. lia.
      - intros k. specialize (c_cons k). unfold qs_of in *. cbn [strs].
        rewrite (lookup_map (fun p : strm => (fst p + d, snd p))).
        destruct (lookup k (strs fl)) as [[w0 q0]|]; simpl; assumption.
      - intros k Hk. rewrite (lookup_map (fun p : strm => (fst p + d, snd p))) in Hk.
        destruct (lookup k (strs fl)) eqn:L; simpl in Hk; try discriminate. apply c_none. assumption.
      - intros k w q Hk. rewrite (lookup_map (fun p : strm => (fst p + d, snd p))) in Hk.
        destruct (lookup k (strs fl)) as [[w0 q0]|] eqn:L; simpl in Hk; inversion Hk; subst.
        apply (c_sid _ _ _ L). }
    split.
    + eapply core_ext; [| | | |exact (sweep_core _ _ _ _ _ _ _ _ _ _ C1 H)].
      * rewrite a_wuc_snoc by reflexivity. cbn [a_wuc1 a_wus1 a_init1]. lia.
      * rewrite a_init_snoc by reflexivity. reflexivity.
      * intros k. rewrite a_wus_snoc by reflexivity. cbn [a_wuc1 a_wus1 a_init1]. lia.
      * intros k. rewrite a_enq_snoc. symmetry. apply app_nil_r.
    + apply (sweep_all_blk _ _ _ _ H).
  - (* AConnWU *)
    set (fl0 := mkFlow (conn fl + Z.of_N inc) (init fl) (enc fl) (strs fl)) in *.
    destruct (sweep fl0 order) as [x1 w1] eqn:E1.
    destruct (emit_stream (add_win (ensure x1 0%N) 0%N (Z.of_N inc)) 0%N) as [x2 w2] eqn:E2.
    inversion H; subst.
    assert (C0 : core x (a_wuc x acts + Z.of_N inc) (fun s0 => a_wus x s0 acts) (a_init x acts)
                   (fun s0 => a_enq x s0 acts) evs fl0).
    { destruct C. constructor; unfold fl0; cbn [conn init enc strs]; auto; try lia. }
    pose proof (sweep_core _ _ _ _ _ _ _ _ _ _ C0 E1) as C1.
    pose proof (sweep_all_blk _ _ _ _ E1) as B1.
    pose proof (core_ensure _ _ _ _ _ _ _ 0%N C1) as C2.
    destruct (ensure_some x1 0%N) as (w0 & q0 & L0).
    destruct (core_addwin _ _ _ _ _ _ _ 0%N (Z.of_N inc) w0 q0 L0 C2) as (C3 & B3).
    pose proof (emit_core _ _ _ _ _ _ _ _ _ _ C3 E2) as C4.
    destruct (emit_blk _ _ _ _ E2) as (Bs & Bmono & _ & _).
    split.
    + unfold tag. rewrite map_app, app_assoc. eapply core_ext; [| | | |exact C4].
      * rewrite a_wuc_snoc by reflexivity. cbn [a_wuc1 a_wus1 a_init1]. lia.
      * rewrite a_init_snoc by reflexivity. reflexivity.
      * intros k. rewrite a_wus_snoc by reflexivity. cbn [a_wuc1 a_wus1 a_init1]. destruct (N.eqb k 0); lia.
      * intros k. rewrite a_enq_snoc. symmetry. apply app_nil_r.
    + intros k. destruct (N.eq_dec k 0%N) as [->|Hn]; auto.
      apply Bmono. apply B3; auto. apply blk_ensure. apply B1.
  - (* AStrWU *)
    pose proof (core_ensure _ _ _ _ _ _ _ s C) as C1.
    destruct (ensure_some fl s) as (w0 & q0 & L0).
    destruct (core_addwin _ _ _ _ _ _ _ s (Z.of_N inc) w0 q0 L0 C1) as (C2 & B2).
    pose proof (emit_core _ _ _ _ _ _ _ _ _ _ C2 H) as C3.
    destruct (emit_blk _ _ _ _ H) as (Bs & Bmono & _ & _).
    split.
    + eapply core_ext; [| | | |exact C3].
      * rewrite a_wuc_snoc by reflexivity. cbn [a_wuc1 a_wus1 a_init1]. lia.
      * rewrite a_init_snoc by reflexivity. reflexivity.
      * intros k. rewrite a_wus_snoc by reflexivity. cbn [a_wuc1 a_wus1 a_init1]. rewrite (N.eqb_sym s k).
        destruct (N.eqb k s); lia.
      * intros k. rewrite a_enq_snoc. symmetry. apply app_nil_r.
    + intros k. destruct (N.eq_dec k s) as [->|Hn]; auto.
      apply Bmono. apply B2; auto. apply blk_ensure. apply B.
  - (* ADirect *)
    inversion H; subst. split; [|assumption].
    eapply core_ext; [| | | |exact (core_inert _ _ _ _ _ _ _ _ (direct_inert _ Hwf) C)].
    + rewrite a_wuc_snoc by reflexivity. cbn [a_wuc1 a_wus1 a_init1]. lia.
    + rewrite a_init_snoc by reflexivity. reflexivity.
    + intros k. rewrite a_wus_snoc by reflexivity. cbn [a_wuc1 a_wus1 a_init1]. lia.
    + intros k. rewrite a_enq_snoc. symmetry. apply app_nil_r.
Qed.

(* ------------------------------------------------------------ window safety *)
(* [sent] = DATA bytes delivered on s since some point; if any, the stream
   window is not negative: deliveries stay within the grant. *)
Definition safe (fl : flow) (s : N) (sent : Z) : Prop :=
  sent = 0 \/ exists w q, lookup s (strs fl) = Some (w, q) /\ 0 <= w.

Definition dsum (s : N) (ws : list wire) : Z := zsum (map dlen (on_stream s ws)).
Lemma dsum_app s a b : dsum s (a ++ b) = dsum s a + dsum s b.
Proof. unfold dsum. rewrite on_stream_app, map_app, zsum_app. reflexivity. Qed.

Lemma emit_safe x wuc wus ini enq evs fl k fl' ws s sent :
  core x wuc wus ini enq evs fl -> emit_stream fl k = (fl', ws) ->
  0 <= sent -> safe fl s sent ->
  0 <= dsum s ws /\ safe fl' s (sent + dsum s ws).
Proof.
  intros C H Hs S. destruct (lookup k (strs fl)) as [[w q]|] eqn:L.
  - destruct (emit_stream_some _ _ _ _ _ _ L H) as (em & q2 & Hq & Hws & Hfl & Hb & Hc0 & Hw0).
    pose proof (c_sid _ _ _ _ _ _ _ C _ _ _ L) as Hsid. subst q.
    apply Forall_app in Hsid. destruct Hsid as [Hsem _]. pose proof (sumfc_nonneg em) as Hnn.
    subst ws fl'. unfold dsum, safe in *. cbn [strs].
    destruct (N.eq_dec s k) as [->|Hn].
    + rewrite on_stream_qwires, dlen_qwires by assumption. split; [assumption|].
      destruct (Z.eq_dec (sumfc em) 0) as [Hz|Hz].
      * rewrite Hz. destruct S as [->|(w0 & q0 & L0 & Hw)]; [left; lia|].
        right. rewrite L in L0. inversion L0; subst. exists (w0 - 0), q2.
        rewrite lookup_upd_same. split; [reflexivity|lia].
      * right. exists (w - sumfc em), q2. rewrite lookup_upd_same. split; [reflexivity|lia].
    + rewrite (on_stream_qwires_other k s) by auto. cbn [map zsum fold_right]. split; [lia|].
      destruct S as [->|(w0 & q0 & L0 & Hw)]; [left; lia|].
      right. exists w0, q0. rewrite lookup_upd_other by assumption. split; [assumption|lia].
  - rewrite emit_stream_none in H by assumption. inversion H; subst. unfold dsum. simpl.
    split; [lia|]. rewrite Z.add_0_r. assumption.
Qed.

Lemma sweep_list_safe x wuc wus ini enq ss : forall evs fl fl' ws s sent,
  core x wuc wus ini enq evs fl -> sweep_list fl ss = (fl', ws) ->
  0 <= sent -> safe fl s sent ->
  0 <= dsum s ws /\ safe fl' s (sent + dsum s ws).
Proof.
  induction ss as [|k t IH]; intros evs fl fl' ws s sent C H Hs S; simpl in H.
  - inversion H; subst. unfold dsum. simpl. split; [lia|]. rewrite Z.add_0_r. assumption.
  - destruct (emit_stream fl k) as [x1 w1] eqn:E1.
    destruct (sweep_list x1 t) as [x2 w2] eqn:E2. inversion H; subst.
    destruct (emit_safe _ _ _ _ _ _ _ _ _ _ s sent C E1 Hs S) as (H1 & S1).
    assert (Hs1 : 0 <= sent + dsum s w1) by lia.
    destruct (IH _ _ _ _ s _ (emit_core _ _ _ _ _ _ _ _ _ _ C E1) E2 Hs1 S1) as (H2 & S2).
    rewrite dsum_app. split; [lia|]. rewrite Z.add_assoc. assumption.
Qed.

Lemma safe_weaken fl fl' s sent :
  (forall w q, lookup s (strs fl) = Some (w, q) ->
     exists w' q', lookup s (strs fl') = Some (w', q') /\ w <= w') ->
  safe fl s sent -> safe fl' s sent.
Proof.
  intros H [->|(w & q & L & Hw)]; [left; reflexivity|].
  right. destruct (H _ _ L) as (w' & q' & L' & Hle). exists w', q'. split; [assumption|lia].
Qed.

Definition is_setinit (a : action) : bool := match a with ASetInit _ _ => true | _ => false end.

(* any action other than a SETTINGS initial-window change keeps deliveries
   within the grant; a SETTINGS change does too when nothing was delivered
   before it in the same step *)
Lemma flow_act_safe x acts evs fl order a fl' ws s sent :
  finv x acts evs fl -> act_side a = x -> wf_act a -> flow_act fl order a = (fl', ws) ->
  0 <= sent -> (is_setinit a = false \/ sent = 0) -> safe fl s sent ->
  0 <= dsum s ws /\ safe fl' s (sent + dsum s ws).
Proof.
  intros [C B] Hs Hwf H Hsent Hcase S.
  destruct a as [t q|t s0 n|t v|t inc|t s0 inc|t w]; simpl in Hs; subst t; simpl in H.
  - set (k := qsid q) in *.
    destruct (ensure_some fl k) as (w0 & q0 & L0).
    pose proof (core_ensure _ _ _ _ _ _ _ k C) as C1.
    destruct (core_push _ _ _ _ _ _ _ q w0 q0 L0 C1) as (C2 & B2 & L2). fold k in C2, L2.
    eapply emit_safe; eauto.
    apply (safe_weaken fl). 2: assumption.
    intros w1 q1 L1. destruct (ensure_spec fl k) as (_ & _ & _ & Ho & Hk).
    destruct (N.eq_dec s k) as [->|Hn].
    + rewrite L1 in Hk. rewrite Hk in L0. inversion L0; subst. exists w0, (q0 ++ [q]). split; [assumption|lia].
    + exists w1, q1. split; [|lia]. unfold push_q. rewrite L0. cbn [strs].
      rewrite lookup_upd_other by assumption. rewrite Ho by assumption. assumption.
  - inversion H; subst. unfold dsum. simpl. split; [lia|]. rewrite Z.add_0_r. assumption.
  - destruct Hcase as [Hc | ->]; [discriminate|].
    unfold sweep in H.
    set (d := Z.of_N v - init fl) in *.
    set (fl1 := mkFlow (conn fl) (Z.of_N v) (enc fl)
                  (map (fun kv : N * strm => (fst kv, (fst (snd kv) + d, snd (snd kv)))) (strs fl))) in *.
    assert (C1 : core x (a_wuc x acts) (fun s0 => a_wus x s0 acts) (Z.of_N v) (fun s0 => a_enq x s0 acts) evs fl1).
    { pose proof (c_init _ _ _ _ _ _ _ C) as Hi. destruct C. constructor; unfold fl1; cbn [conn init enc strs]; auto.
      - intros k w q Hk. rewrite (lookup_map (fun p : strm => (fst p + d, snd p))) in Hk.
        destruct (lookup k (strs fl)) as [[w0 q0]|] eqn:L; simpl in Hk; inversion Hk; subst.
        rewrite (c_win _ _ _ L). unfold d. rewrite Hi. lia.
      - intros k. specialize (c_cons k). unfold qs_of in *. cbn [strs].
        rewrite (lookup_map (fun p : strm => (fst p + d, snd p))).
        destruct (lookup k (strs fl)) as [[w0 q0]|]; simpl; assumption.
      - intros k Hk. rewrite (lookup_map (fun p : strm => (fst p + d, snd p))) in Hk.
        destruct (lookup k (strs fl)) eqn:L; simpl in Hk; try discriminate. apply c_none. assumption.
      - intros k w q Hk. rewrite (lookup_map (fun p : strm => (fst p + d, snd p))) in Hk.
        destruct (lookup k (strs fl)) as [[w0 q0]|] eqn:L; simpl in Hk; inversion Hk; subst.
        apply (c_sid _ _ _ L). }
    eapply sweep_list_safe; eauto. left. reflexivity.
  - set (fl0 := mkFlow (conn fl + Z.of_N inc) (init fl) (enc fl) (strs fl)) in *.
    destruct (sweep fl0 order) as [x1 w1] eqn:E1.
    destruct (emit_stream (add_win (ensure x1 0%N) 0%N (Z.of_N inc)) 0%N) as [x2 w2] eqn:E2.
    inversion H; subst.
    assert (C0 : core x (a_wuc x acts + Z.of_N inc) (fun s0 => a_wus x s0 acts) (a_init x acts)
                   (fun s0 => a_enq x s0 acts) evs fl0).
    { destruct C. constructor; unfold fl0; cbn [conn init enc strs]; auto; try lia. }
    assert (S0 : safe fl0 s sent) by exact S.
    unfold sweep in E1.
    destruct (sweep_list_safe _ _ _ _ _ _ _ _ _ _ s sent C0 E1 Hsent S0) as (H1 & S1).
    pose proof (sweep_list_core _ _ _ _ _ _ _ _ _ _ C0 E1) as C1.
    pose proof (core_ensure _ _ _ _ _ _ _ 0%N C1) as C2.
    destruct (ensure_some x1 0%N) as (w0 & q0 & L0).
    destruct (core_addwin _ _ _ _ _ _ _ 0%N (Z.of_N inc) w0 q0 L0 C2) as (C3 & _).
    assert (Hs1 : 0 <= sent + dsum s w1) by lia.
    assert (S2 : safe (add_win (ensure x1 0%N) 0%N (Z.of_N inc)) s (sent + dsum s w1)).
    { apply (safe_weaken x1); [|assumption].
      intros w3 q3 L3. destruct (ensure_spec x1 0%N) as (_ & _ & _ & Ho & Hk).
      unfold add_win. rewrite L0. cbn [strs].
      destruct (N.eq_dec s 0%N) as [->|Hn].
      - rewrite L3 in Hk. rewrite Hk in L0. inversion L0; subst.
        exists (w0 + Z.of_N inc), q0. rewrite lookup_upd_same. split; [reflexivity|lia].
      - exists w3, q3. rewrite lookup_upd_other by assumption. rewrite Ho by assumption. split; [assumption|lia]. }
    destruct (emit_safe _ _ _ _ _ _ _ _ _ _ s _ C3 E2 Hs1 S2) as (H2 & S3).
    rewrite dsum_app. split; [lia|]. rewrite Z.add_assoc. assumption.
  - pose proof (core_ensure _ _ _ _ _ _ _ s0 C) as C1.
    destruct (ensure_some fl s0) as (w0 & q0 & L0).
    destruct (core_addwin _ _ _ _ _ _ _ s0 (Z.of_N inc) w0 q0 L0 C1) as (C2 & _).
    eapply emit_safe; eauto.
    apply (safe_weaken fl); [|assumption].
    intros w3 q3 L3. destruct (ensure_spec fl s0) as (_ & _ & _ & Ho & Hk).
    unfold add_win. rewrite L0. cbn [strs].
    destruct (N.eq_dec s s0) as [->|Hn].
    + rewrite L3 in Hk. rewrite Hk in L0. inversion L0; subst.
      exists (w0 + Z.of_N inc), q0. rewrite lookup_upd_same. split; [reflexivity|lia].
    + exists w3, q3. rewrite lookup_upd_other by assumption. rewrite Ho by assumption. split; [assumption|lia].
  - inversion H; subst. unfold dsum, on_stream. simpl.
    destruct (direct_inert _ Hwf) as (Hw & Hd & _). rewrite Hw. simpl. split; [lia|].
    rewrite Z.add_0_r. assumption.
Qed.
