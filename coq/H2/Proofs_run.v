(* Lifting the flow invariants to both directions and to whole scripts. *)
From Coq Require Import List NArith ZArith Bool Ascii Arith Lia.
From Martian.H2 Require Import Model Spec Proofs_base Proofs_flow Proofs_act.
Import ListNotations.
Open Scope Z_scope.

Definition binv (acts : list action) (evs : list event) (b : bstate) : Prop :=
  forall x, finv x acts evs (getf b x).

Lemma getf_setf_same b x v : getf (setf b x v) x = v.
Proof. destruct x; reflexivity. Qed.
Lemma getf_setf_other b x y v : y <> x -> getf (setf b x v) y = getf b y.
Proof. destruct x, y; simpl; intros; congruence. Qed.

Lemma core_evs_ext x wuc wus ini enq evs evs' fl :
  to_side x evs = to_side x evs' -> core x wuc wus ini enq evs fl -> core x wuc wus ini enq evs' fl.
Proof.
  intros E C. destruct C. unfold sentc, sents, block_seqs in *. rewrite E in *.
  constructor; assumption.
Qed.


(* ---- stamping the encoder's table size changes nothing but [tab_of] *)
Lemma stamp_dlen t w : dlen (stamp t w) = dlen w.
Proof. destruct w; reflexivity. Qed.
Lemma stamp_wsid t w : wsid (stamp t w) = wsid w.
Proof. destruct w; reflexivity. Qed.
Lemma stamp_unq t w : unq (stamp t w) = unq w.
Proof. destruct w; try reflexivity; try (destruct push; reflexivity). Qed.
Lemma stamp_cred t s w : cred s (stamp t w) = cred s w.
Proof. destruct w; reflexivity. Qed.
Lemma stamp_is_direct t w : is_direct (stamp t w) = is_direct w.
Proof. destruct w; reflexivity. Qed.
Lemma stamp_direct_id t w : is_direct w = true -> stamp t w = w.
Proof. destruct w; simpl; intros; try discriminate; reflexivity. Qed.
Lemma on_stream_stamp t s ws : on_stream s (map (stamp t) ws) = map (stamp t) (on_stream s ws).
Proof.
  unfold on_stream. induction ws as [|w l IH]; simpl; auto. rewrite stamp_wsid.
  destruct (wsid w) as [k|]; [|assumption]. destruct (N.eqb k s); simpl; [f_equal|]; assumption.
Qed.
Lemma dlen_stamp t ws : zsum (map dlen (map (stamp t) ws)) = zsum (map dlen ws).
Proof. induction ws as [|w l IH]; simpl; auto. rewrite stamp_dlen, IH. reflexivity. Qed.
Lemma emq_stamp t ws : emq (map (stamp t) ws) = emq ws.
Proof. unfold emq. induction ws as [|w l IH]; simpl; auto. rewrite stamp_unq, IH. reflexivity. Qed.
Lemma wseqs_stamp t ws : wseqs (map (stamp t) ws) = wseqs ws.
Proof. unfold wseqs. induction ws as [|w l IH]; simpl; auto. rewrite IH. destruct w; reflexivity. Qed.
Lemma dsum_stamp t s ws : dsum s (map (stamp t) ws) = dsum s ws.
Proof. unfold dsum. rewrite on_stream_stamp, dlen_stamp. reflexivity. Qed.

Lemma core_proj_ext x wuc wus ini enq evs evs' fl :
  sentc x evs = sentc x evs' -> (forall s, sents x s evs = sents x s evs') ->
  (forall s, emq (on_stream s (to_side x evs)) = emq (on_stream s (to_side x evs'))) ->
  block_seqs x evs = block_seqs x evs' ->
  core x wuc wus ini enq evs fl -> core x wuc wus ini enq evs' fl.
Proof.
  intros H1 H2 H3 H4 C. destruct C. constructor; auto.
  - rewrite <- H1. assumption.
  - intros s w q H. rewrite <- H2. eauto.
  - intros s. rewrite <- H3. auto.
  - intros s H. rewrite <- H2. auto.
  - rewrite <- H4. assumption.
Qed.

Lemma core_stamp x wuc wus ini enq evs fl ws t :
  core x wuc wus ini enq (evs ++ tag x ws) fl ->
  core x wuc wus ini enq (evs ++ tag x (map (stamp t) ws)) fl.
Proof.
  apply core_proj_ext.
  - rewrite !sentc_app, !sentc_tag, dlen_stamp. reflexivity.
  - intros s. rewrite !sents_app, !sents_tag, on_stream_stamp, dlen_stamp. reflexivity.
  - intros s. rewrite !to_side_app, !to_side_tag_same, !on_stream_app, !emq_app, on_stream_stamp, emq_stamp. reflexivity.
  - rewrite !block_seqs_app, !block_seqs_tag, wseqs_stamp. reflexivity.
Qed.

Lemma bstep_binv tabs acts evs b order a b' e :
  binv acts evs b -> wf_act a -> bstep tabs b order a = (b', e) -> binv (acts ++ [a]) (evs ++ e) b'.
Proof.
  intros I Hwf H. unfold bstep in H.
  destruct (flow_act (getf b (act_side a)) order a) as [x' ws] eqn:F. inversion H; subst.
  intros x. destruct (side_eqb (act_side a) x) eqn:E.
  - apply side_eqb_eq in E. subst x. rewrite getf_setf_same.
    destruct (flow_act_finv _ _ _ _ _ _ _ _ (I (act_side a)) eq_refl Hwf F) as [C B].
    split; [apply core_stamp; assumption|assumption].
  - assert (Hn : act_side a <> x) by (intros Heq; rewrite Heq, side_eqb_refl in E; discriminate).
    rewrite getf_setf_other by congruence.
    destruct (I x) as [C B]. split; [|assumption].
    destruct (ledgers_other x acts a Hn) as (L1 & L2 & L3 & L4).
    eapply core_ext; [symmetry; exact L1|symmetry; exact L3|intros; symmetry; apply L2|intros; symmetry; apply L4|].
    eapply core_evs_ext; [|exact C].
    rewrite to_side_app, to_side_tag_other by assumption. symmetry. apply app_nil_r.
Qed.

Lemma bsteps_binv tabs order acts2 : forall acts evs b b' e,
  binv acts evs b -> Forall wf_act acts2 -> bsteps tabs b order acts2 = (b', e) ->
  binv (acts ++ acts2) (evs ++ e) b'.
Proof.
  induction acts2 as [|a t IH]; intros acts evs b b' e I Hwf H; simpl in H.
  - inversion H; subst. rewrite !app_nil_r. assumption.
  - destruct (bstep tabs b order a) as [b1 e1] eqn:E1. destruct (bsteps tabs b1 order t) as [b2 e2] eqn:E2.
    inversion H; subst. inversion Hwf; subst.
    replace (acts ++ a :: t) with ((acts ++ [a]) ++ t) by (rewrite <- app_assoc; reflexivity).
    rewrite app_assoc. eapply IH; eauto. eapply bstep_binv; eauto.
Qed.

(* ------------------------------------------------- label-level window safety *)
Lemma bstep_other_side tabs b order a b' e x :
  bstep tabs b order a = (b', e) -> act_side a <> x -> getf b' x = getf b x /\ to_side x e = [].
Proof.
  unfold bstep. destruct (flow_act (getf b (act_side a)) order a) as [x' ws]. intros H Hn.
  inversion H; subst. split; [apply getf_setf_other; congruence|apply to_side_tag_other; assumption].
Qed.

Lemma sents_dsum x s t tb ws : t = x -> sents x s (tag t (map (stamp tb) ws)) = dsum s ws.
Proof. intros ->. rewrite <- (dsum_stamp tb). unfold dsum. apply sents_tag. Qed.
Lemma sents_nil_side x s e : to_side x e = [] -> sents x s e = 0.
Proof. unfold sents. intros ->. reflexivity. Qed.

Lemma bsteps_safe_nosetinit tabs order x s acts2 : forall acts evs b b' e sent,
  binv acts evs b -> Forall wf_act acts2 ->
  forallb (fun a => negb (is_setinit a)) (acts_to x acts2) = true ->
  bsteps tabs b order acts2 = (b', e) -> 0 <= sent -> safe (getf b x) s sent ->
  0 <= sents x s e /\ safe (getf b' x) s (sent + sents x s e).
Proof.
  induction acts2 as [|a t IH]; intros acts evs b b' e sent I Hwf Hns H Hs S; simpl in H.
  - inversion H; subst. unfold sents. simpl. split; [lia|]. rewrite Z.add_0_r. assumption.
  - destruct (bstep tabs b order a) as [b1 e1] eqn:E1. destruct (bsteps tabs b1 order t) as [b2 e2] eqn:E2.
    inversion H; subst. inversion Hwf; subst. rewrite sents_app.
    pose proof (bstep_binv _ _ _ _ _ _ _ _ I H2 E1) as I1.
    unfold acts_to in Hns. simpl in Hns.
    destruct (side_eqb (act_side a) x) eqn:E.
    + apply side_eqb_eq in E. simpl in Hns. apply andb_prop in Hns. destruct Hns as [Hna Hns].
      unfold bstep in E1. destruct (flow_act (getf b (act_side a)) order a) as [x' ws] eqn:F.
      inversion E1; subst b1 e1. rewrite E in *.
      assert (Hni : is_setinit a = false) by (destruct (is_setinit a); simpl in Hna; congruence).
      destruct (flow_act_safe _ _ _ _ _ _ _ _ s sent (I x) E H2 F Hs (or_introl Hni) S) as (H1 & S1).
      rewrite sents_dsum by reflexivity.
      assert (Hs1 : 0 <= sent + dsum s ws) by lia.
      rewrite <- (getf_setf_same b x x') in S1.
      destruct (IH _ _ _ _ _ _ I1 H3 Hns E2 Hs1 S1) as (H4 & S4).
      split; [lia|]. rewrite Z.add_assoc. assumption.
    + assert (Hn : act_side a <> x) by (intros Heq; rewrite Heq, side_eqb_refl in E; discriminate).
      destruct (bstep_other_side _ _ _ _ _ _ x E1 Hn) as (Hg & Ht).
      rewrite (sents_nil_side _ _ _ Ht). rewrite <- Hg in S.
      destruct (IH _ _ _ _ _ _ I1 H3 Hns E2 Hs S) as (H4 & S4). split; [lia|]. assumption.
Qed.

Definition shape_ok (x : side) (acts2 : list action) : Prop :=
  match acts_to x acts2 with
  | [] => True
  | _ :: r => forallb (fun a => negb (is_setinit a)) r = true
  end.

Lemma bsteps_safe tabs order x s acts2 : forall acts evs b b' e,
  binv acts evs b -> Forall wf_act acts2 -> shape_ok x acts2 ->
  bsteps tabs b order acts2 = (b', e) ->
  0 <= sents x s e /\ safe (getf b' x) s (sents x s e).
Proof.
  induction acts2 as [|a t IH]; intros acts evs b b' e I Hwf Hsh H; simpl in H.
  - inversion H; subst. unfold sents. simpl. split; [lia|]. left. reflexivity.
  - destruct (bstep tabs b order a) as [b1 e1] eqn:E1. destruct (bsteps tabs b1 order t) as [b2 e2] eqn:E2.
    inversion H; subst. inversion Hwf; subst. rewrite sents_app.
    pose proof (bstep_binv _ _ _ _ _ _ _ _ I H2 E1) as I1.
    unfold shape_ok, acts_to in Hsh. simpl in Hsh.
    destruct (side_eqb (act_side a) x) eqn:E.
    + apply side_eqb_eq in E.
      unfold bstep in E1. destruct (flow_act (getf b (act_side a)) order a) as [x' ws] eqn:F.
      inversion E1; subst b1 e1. rewrite E in *.
      assert (S0 : safe (getf b x) s 0) by (left; reflexivity).
      destruct (flow_act_safe _ _ _ _ _ _ _ _ s 0 (I x) E H2 F (Z.le_refl 0) (or_intror eq_refl) S0) as (H1 & S1).
      rewrite sents_dsum by reflexivity. rewrite Z.add_0_l in S1.
      rewrite <- (getf_setf_same b x x') in S1.
      destruct (bsteps_safe_nosetinit tabs order x s t _ _ _ _ _ _ I1 H3 Hsh E2 H1 S1) as (H4 & S4).
      split; [lia|assumption].
    + assert (Hn : act_side a <> x) by (intros Heq; rewrite Heq, side_eqb_refl in E; discriminate).
      destruct (bstep_other_side _ _ _ _ _ _ x E1 Hn) as (Hg & Ht).
      rewrite (sents_nil_side _ _ _ Ht).
      destruct (IH _ _ _ _ _ I1 H3 Hsh E2) as (H4 & S4). split; [lia|]. assumption.
Qed.

(* --------------------------------------- what an action writes besides queued frames *)
Definition isq (w : wire) : Prop := (forall s, cred s w = 0) /\ is_direct w = false.
Lemma isq_qwires e em : Forall isq (qwires e em).
Proof.
  revert e. induction em as [|f t IH]; intros e; simpl; constructor; auto.
  destruct f; split; reflexivity.
Qed.
Lemma emit_isq fl k fl' ws : emit_stream fl k = (fl', ws) -> Forall isq ws.
Proof.
  intros H. destruct (lookup k (strs fl)) as [[w q]|] eqn:L.
  - destruct (emit_stream_some _ _ _ _ _ _ L H) as (em & q2 & _ & -> & _). apply isq_qwires.
  - rewrite emit_stream_none in H by assumption. inversion H. constructor.
Qed.
Lemma sweep_list_isq ss : forall fl fl' ws, sweep_list fl ss = (fl', ws) -> Forall isq ws.
Proof.
  induction ss as [|k t IH]; intros fl fl' ws H; simpl in H.
  - inversion H. constructor.
  - destruct (emit_stream fl k) as [x1 w1] eqn:E1. destruct (sweep_list x1 t) as [x2 w2] eqn:E2.
    inversion H; subst. apply Forall_app. split; [eapply emit_isq|eapply IH]; eauto.
Qed.

Definition a_cred (y : side) (s : N) (a : action) : Z :=
  match a with ACredit t k n => if side_eqb t y && N.eqb k s then Z.of_N n else 0 | _ => 0 end.
Definition a_dir (x : side) (a : action) : list wire :=
  match a with ADirect t w => if side_eqb t x then [w] else [] | _ => [] end.

Lemma creds_isq y s t ws : Forall isq ws -> creds y s (tag t ws) = 0.
Proof.
  intros H. unfold creds. destruct (side_cases y t) as [-> | ->].
  - rewrite to_side_tag_same. induction H as [|w l [Hc _] _ IH]; simpl; auto. rewrite Hc, IH. reflexivity.
  - rewrite to_side_tag_other; [reflexivity|]. destruct y; discriminate.
Qed.
Lemma directs_isq x t ws : Forall isq ws -> directs x (tag t ws) = [].
Proof.
  intros H. unfold directs. destruct (side_cases x t) as [-> | ->].
  - rewrite to_side_tag_same. induction H as [|w l [_ Hd] _ IH]; simpl; auto. rewrite Hd. assumption.
  - rewrite to_side_tag_other; [reflexivity|]. destruct x; discriminate.
Qed.

Lemma isq_stamp t ws : Forall isq ws -> Forall isq (map (stamp t) ws).
Proof.
  induction 1 as [|w l [Hc Hd] _ IH]; simpl; constructor; auto.
  split; [intros s; rewrite stamp_cred; apply Hc|rewrite stamp_is_direct; assumption].
Qed.

Lemma bstep_out tabs b order a b' e y s x :
  wf_act a -> bstep tabs b order a = (b', e) ->
  creds y s e = a_cred y s a /\ directs x e = a_dir x a.
Proof.
  intros Hwf H. unfold bstep in H.
  destruct (flow_act (getf b (act_side a)) order a) as [x' ws] eqn:F. inversion H; subst. clear H.
  destruct a as [t q|t k n|t v|t inc|t k inc|t w]; simpl in *.
  - apply emit_isq in F. apply (isq_stamp (tabs t)) in F. split; [apply creds_isq|apply directs_isq]; assumption.
  - inversion F; subst. unfold creds, directs. split.
    + destruct (side_eqb t y) eqn:E.
      * apply side_eqb_eq in E. subst. rewrite to_side_tag_same. simpl. destruct (N.eqb k s); lia.
      * rewrite to_side_tag_other; [reflexivity|]. intros Heq. rewrite Heq, side_eqb_refl in E. discriminate.
    + destruct (side_cases x t) as [-> | ->].
      * rewrite to_side_tag_same. reflexivity.
      * rewrite to_side_tag_other; [reflexivity|]. destruct x; discriminate.
  - unfold sweep in F. apply sweep_list_isq in F. apply (isq_stamp (tabs t)) in F. split; [apply creds_isq|apply directs_isq]; assumption.
  - destruct (sweep _ order) as [x1 w1] eqn:E1. destruct (emit_stream _ 0%N) as [x2 w2] eqn:E2.
    inversion F; subst. unfold sweep in E1. apply sweep_list_isq in E1. apply emit_isq in E2.
    assert (Hq : Forall isq (map (stamp (tabs t)) (w1 ++ w2))) by (apply isq_stamp, Forall_app; auto).
    split; [apply creds_isq|apply directs_isq]; assumption.
  - apply emit_isq in F. apply (isq_stamp (tabs t)) in F. split; [apply creds_isq|apply directs_isq]; assumption.
  - inversion F; subst. cbn [map]. rewrite (stamp_direct_id _ _ Hwf). unfold creds, directs. split.
    + destruct (side_cases y t) as [-> | ->].
      * rewrite to_side_tag_same. simpl. destruct w; simpl in *; try discriminate; reflexivity.
      * rewrite to_side_tag_other; [reflexivity|]. destruct y; discriminate.
    + destruct (side_eqb t x) eqn:E.
      * apply side_eqb_eq in E. subst. rewrite to_side_tag_same. simpl. rewrite Hwf. reflexivity.
      * rewrite to_side_tag_other; [reflexivity|]. intros Heq. rewrite Heq, side_eqb_refl in E. discriminate.
Qed.

Lemma bsteps_out tabs order acts2 : forall b b' e y s x,
  Forall wf_act acts2 -> bsteps tabs b order acts2 = (b', e) ->
  creds y s e = zsum (map (a_cred y s) acts2) /\ directs x e = flat_map (a_dir x) acts2.
Proof.
  induction acts2 as [|a t IH]; intros b b' e y s x Hwf H; simpl in H.
  - inversion H; subst. split; reflexivity.
  - destruct (bstep tabs b order a) as [b1 e1] eqn:E1. destruct (bsteps tabs b1 order t) as [b2 e2] eqn:E2.
    inversion H; subst. inversion Hwf; subst.
    destruct (bstep_out _ _ _ _ _ _ y s x H2 E1) as (A1 & A2).
    destruct (IH _ _ _ y s x H3 E2) as (B1 & B2).
    rewrite creds_app, directs_app, A1, A2, B1, B2. simpl. split; reflexivity.
Qed.
