(* The executable oracles are the trace properties. *)
From Coq Require Import List NArith ZArith Bool Ascii Arith Lia.
From Martian.H2 Require Import Model Spec Proofs_base.
Import ListNotations.
Open Scope Z_scope.

Lemma upto_in n k : In k (upto n) <-> (k <= n)%nat.
Proof. unfold upto. rewrite in_seq. lia. Qed.
Lemma seq0_in n k : In k (seq 0 n) <-> (k < n)%nat.
Proof. rewrite in_seq. lia. Qed.

Lemma b_conn_iff ls o : b_conn ls o = true <-> P_conn ls o.
Proof.
  unfold b_conn, P_conn. rewrite forallb_forall. split.
  - intros H k x Hk Hx. apply upto_in in Hk. specialize (H k Hk). rewrite forallb_forall in H.
    apply Z.leb_le. apply H. assumption.
  - intros H k Hk. apply upto_in in Hk. rewrite forallb_forall. intros x Hx. apply Z.leb_le. auto.
Qed.

Lemma b_stream_iff ls o : b_stream ls o = true <-> P_stream ls o.
Proof.
  unfold b_stream, P_stream. rewrite forallb_forall. split.
  - intros H k x s Hk Hx Hs Hp. apply seq0_in in Hk. specialize (H k Hk). rewrite forallb_forall in H.
    specialize (H x Hx). rewrite forallb_forall in H. specialize (H s Hs).
    apply orb_true_iff in H. destruct H as [H|H].
    + apply negb_true_iff in H. apply Z.ltb_ge in H. lia.
    + apply Z.leb_le. assumption.
  - intros H k Hk. apply seq0_in in Hk. rewrite forallb_forall. intros x Hx.
    rewrite forallb_forall. intros s Hs. apply orb_true_iff.
    destruct (Z.ltb 0 (sents x s (nth k o []))) eqn:E.
    + right. apply Z.leb_le. apply H; auto. apply Z.ltb_lt. assumption.
    + left. reflexivity.
Qed.

Lemma b_frame_iff ls o : b_frame ls o = true <-> P_frame ls o.
Proof.
  unfold b_frame, P_frame. rewrite forallb_forall. split.
  - intros H k x w Hk Hx Hw. apply seq0_in in Hk. specialize (H k Hk). rewrite forallb_forall in H.
    specialize (H x Hx). rewrite forallb_forall in H. specialize (H w Hw).
    unfold data_fits in H. apply Z.leb_le. assumption.
  - intros H k Hk. apply seq0_in in Hk. rewrite forallb_forall. intros x Hx.
    rewrite forallb_forall. intros w Hw. unfold data_fits. apply Z.leb_le. auto.
Qed.

Lemma b_credit_iff ls o : b_credit ls o = true <-> P_credit ls o.
Proof.
  unfold b_credit, P_credit. rewrite forallb_forall. split.
  - intros H k y s Hk Hy Hs. apply upto_in in Hk. specialize (H k Hk). rewrite forallb_forall in H.
    specialize (H y Hy). rewrite forallb_forall in H. specialize (H s Hs). apply Z.eqb_eq. assumption.
  - intros H k Hk. apply upto_in in Hk. rewrite forallb_forall. intros y Hy.
    rewrite forallb_forall. intros s Hs. apply Z.eqb_eq. auto.
Qed.

Lemma head_blocked_iff x s k ls o :
  head_blocked x s k ls o = true <->
  match nth_error (accepted x s (pre k ls)) (delivered x s (evs_to k o)) with
  | None => True
  | Some h => conn_at x k ls o < fc h \/ win_at x s k ls o < fc h
  end.
Proof.
  unfold head_blocked. destruct (nth_error _ _); [|tauto].
  rewrite orb_true_iff, !Z.ltb_lt. tauto.
Qed.

Lemma b_strand_iff ls o : b_strand ls o = true <-> P_strand ls o.
Proof.
  unfold b_strand, P_strand. rewrite forallb_forall. split.
  - intros H k x s Hk Hx Hs. apply upto_in in Hk. specialize (H k Hk). rewrite forallb_forall in H.
    specialize (H x Hx). rewrite forallb_forall in H. specialize (H s Hs).
    apply head_blocked_iff. assumption.
  - intros H k Hk. apply upto_in in Hk. rewrite forallb_forall. intros x Hx.
    rewrite forallb_forall. intros s Hs. apply head_blocked_iff. apply H; assumption.
Qed.

Theorem c09_ok_iff ls o : c09_ok ls o = true <-> P09 ls o.
Proof.
  unfold c09_ok, P09. rewrite !andb_true_iff.
  rewrite b_conn_iff, b_stream_iff, b_frame_iff, b_credit_iff, b_strand_iff. tauto.
Qed.

(* chunks_fit is the statement about fragment sizes *)
Lemma chunks_fit_iff maxf hp ip c t :
  chunks_fit maxf hp ip (c :: t) = true <->
  (c + (if ip then 4 else if hp then 5 else 0) <= maxf)%N /\ Forall (fun c => (c <= maxf)%N) t.
Proof.
  unfold chunks_fit. rewrite andb_true_iff, N.leb_le, forallb_forall, Forall_forall.
  split; intros [A B]; split; auto; intros x Hx; apply N.leb_le; auto.
Qed.

(* ------------------------------------------------------------------ C08 *)
Lemma bytes_eqb_eq a b : bytes_eqb a b = true <-> a = b.
Proof.
  revert b. induction a as [|x a IH]; destruct b as [|y b]; simpl; split; intros H; try reflexivity; try discriminate.
  - apply andb_prop in H. destruct H as [H1 H2]. apply Ascii.eqb_eq in H1. apply IH in H2. congruence.
  - inversion H; subst. rewrite Ascii.eqb_refl. simpl. apply IH. reflexivity.
Qed.
Lemma prio_eqb_eq p q : prio_eqb p q = true <-> p = q.
Proof.
  destruct p as [d e w], q as [d' e' w']. unfold prio_eqb. simpl.
  rewrite !andb_true_iff, !N.eqb_eq, Bool.eqb_true_iff. split.
  - intros [[-> ->] ->]. reflexivity.
  - intros H. inversion H. auto.
Qed.
Lemma oprio_eqb_eq p q : oprio_eqb p q = true <-> p = q.
Proof.
  destruct p, q; simpl; try (split; intros; congruence).
  rewrite prio_eqb_eq. split; intros; congruence.
Qed.
Lemma on_eqb_eq p q : on_eqb p q = true <-> p = q.
Proof.
  destruct p, q; simpl; try (split; intros; congruence).
  rewrite N.eqb_eq. split; intros; congruence.
Qed.
Lemma kv_eqb_eq a b : kv_eqb a b = true <-> a = b.
Proof.
  unfold kv_eqb. revert b. induction a as [|[i v] a IH]; destruct b as [|[j w] b]; simpl;
    split; intros H; try reflexivity; try discriminate.
  - rewrite !andb_true_iff, !N.eqb_eq in H. destruct H as [[-> ->] H]. apply IH in H. congruence.
  - inversion H; subst. rewrite !N.eqb_refl. simpl. apply IH. reflexivity.
Qed.
Lemma wire_eqb_eq a b : wire_eqb a b = true <-> a = b.
Proof.
  destruct a, b; simpl; try (split; intros; congruence);
    rewrite ?andb_true_iff, ?N.eqb_eq, ?Bool.eqb_true_iff, ?bytes_eqb_eq, ?prio_eqb_eq, ?oprio_eqb_eq,
            ?on_eqb_eq, ?kv_eqb_eq, ?Nat.eqb_eq;
    split; intros H; try (inversion H; subst; tauto); try (intuition congruence).
Qed.
Lemma wires_eqb_eq a b : wires_eqb a b = true <-> a = b.
Proof.
  revert b. induction a as [|x a IH]; destruct b as [|y b]; simpl; split; intros H; try reflexivity; try discriminate.
  - apply andb_prop in H. destruct H as [H1 H2]. apply wire_eqb_eq in H1. apply IH in H2. congruence.
  - inversion H; subst. apply andb_true_iff. split; [apply wire_eqb_eq|apply IH]; reflexivity.
Qed.

Lemma atom_eqb_eq a b : atom_eqb a b = true <-> a = b.
Proof.
  destruct a, b; simpl; try (split; intros; congruence).
  - rewrite Ascii.eqb_eq. split; intros; congruence.
  - rewrite andb_true_iff, N.eqb_eq. fold (oprio_eqb pr pr0). rewrite oprio_eqb_eq. split; intros H; [destruct H|inversion H]; subst; auto.
  - rewrite andb_true_iff, !N.eqb_eq. split; intros H; [destruct H|inversion H]; subst; auto.
  - rewrite prio_eqb_eq. split; intros; congruence.
  - rewrite N.eqb_eq. split; intros; congruence.
Qed.
Lemma prefixb_iff a b : prefixb a b = true <-> is_prefix a b.
Proof.
  unfold is_prefix. revert b. induction a as [|x a IH]; intros b; simpl.
  - split; [intros _; exists b; reflexivity|reflexivity].
  - destruct b as [|y b].
    + split; [discriminate|intros (c & H); discriminate].
    + rewrite andb_true_iff, atom_eqb_eq, IH. split.
      * intros [-> (c & ->)]. exists c. reflexivity.
      * intros (c & H). inversion H; subst. split; [reflexivity|exists c; reflexivity].
Qed.

Lemma sides_all x : In x sides.
Proof. destruct x; simpl; auto. Qed.

Lemma b_faithful_iff raw ls o : b_faithful raw ls o = true <-> P_faithful raw ls o.
Proof.
  unfold b_faithful, P_faithful. rewrite forallb_forall. split.
  - intros H y s Hy Hs. specialize (H y Hy). rewrite forallb_forall in H. apply prefixb_iff. auto.
  - intros H y Hy. rewrite forallb_forall. intros s Hs. apply prefixb_iff. auto.
Qed.
Lemma b_direct_iff ls o : b_direct ls o = true <-> P_direct ls o.
Proof.
  unfold b_direct, P_direct. rewrite forallb_forall. split.
  - intros H y Hy. apply wires_eqb_eq. auto.
  - intros H y Hy. apply wires_eqb_eq. auto.
Qed.
Lemma b_table_iff ls o : b_table ls o = true <-> P_table ls o.
Proof.
  unfold b_table, P_table. rewrite forallb_forall. split.
  - intros H k x w Hk Hx Hw. apply seq0_in in Hk. specialize (H k Hk). rewrite forallb_forall in H.
    specialize (H x Hx). rewrite forallb_forall in H. specialize (H w Hw). apply N.leb_le. assumption.
  - intros H k Hk. apply seq0_in in Hk. rewrite forallb_forall. intros x Hx.
    rewrite forallb_forall. intros w Hw. apply N.leb_le. auto.
Qed.
Theorem c08_ok_iff ls o : c08_ok ls o = true <-> P08 ls o.
Proof. unfold c08_ok, P08. rewrite !andb_true_iff, b_faithful_iff, b_direct_iff, b_table_iff. tauto. Qed.
