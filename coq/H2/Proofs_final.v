(* Statements over whole scripts, in the form used by C08/C09 Properties.v. *)
From Coq Require Import List NArith ZArith Bool Ascii Arith Lia.
From Martian.H2 Require Import Model Spec Proofs_base Proofs_flow Proofs_act Proofs_run Proofs_script
  Proofs_props Proofs_oracle Proofs_c08 Proofs_misc Proofs_table.
Import ListNotations.
Open Scope Z_scope.

Definition obs_of (ls : list label) : obs := snd (run s0 ls).
Definition final (ls : list label) : state := fst (run s0 ls).
Lemma run_eta ls : run s0 ls = (final ls, obs_of ls).
Proof. unfold final, obs_of. destruct (run s0 ls); reflexivity. Qed.

Lemma final_conn ls : P_conn ls (obs_of ls).
Proof. exact (model_P_conn _ _ _ (run_eta ls)). Qed.
Lemma final_stream ls : P_stream ls (obs_of ls).
Proof. exact (model_P_stream _ _ _ (run_eta ls)). Qed.
Lemma final_credit ls : P_credit ls (obs_of ls).
Proof. exact (model_P_credit _ _ _ (run_eta ls)). Qed.
Lemma final_strand ls : P_strand ls (obs_of ls).
Proof. exact (model_P_strand _ _ _ (run_eta ls)). Qed.
Lemma final_faithful ls : P_faithful false ls (obs_of ls).
Proof. exact (model_P_faithful _ _ _ (run_eta ls)). Qed.
Lemma final_direct ls : P_direct ls (obs_of ls).
Proof. exact (model_P_direct _ _ _ (run_eta ls)). Qed.
Lemma final_table ls : P_table ls (obs_of ls).
Proof. exact (model_P_table _ _ _ (run_eta ls)). Qed.
Lemma final_P08 ls : P08 ls (obs_of ls).
Proof. split; [apply final_faithful|split; [apply final_direct|apply final_table]]. Qed.
Lemma final_complete ls y s :
  out_atoms false (other y) s (concat (obs_of ls))
  ++ flat_map atoms_q (qs_of (getf (sb (final ls)) (other y)) s)
  = in_atoms false y s (firstn (length (obs_of ls)) ls).
Proof. exact (model_stream_faithful _ _ _ y s (run_eta ls)). Qed.
Lemma final_block_order ls x :
  block_seqs x (concat (obs_of ls)) = seq 0 (length (block_seqs x (concat (obs_of ls)))).
Proof. exact (model_block_order _ _ _ x (run_eta ls)). Qed.

(* projections of the stream content *)
Definition data_bytes (l : list atom) : list ascii :=
  flat_map (fun a => match a with AByte b => [b] | _ => [] end) l.
Definition control_atoms (l : list atom) : list atom :=
  filter (fun a => match a with AByte _ => false | _ => true end) l.
Lemma data_bytes_app a b : data_bytes (a ++ b) = data_bytes a ++ data_bytes b.
Proof. apply flat_map_app. Qed.
Lemma control_atoms_app a b : control_atoms (a ++ b) = control_atoms a ++ control_atoms b.
Proof. apply filter_app. Qed.

Lemma final_data_bytes ls y s :
  is_prefix (data_bytes (out_atoms false (other y) s (concat (obs_of ls))))
            (data_bytes (in_atoms false y s (firstn (length (obs_of ls)) ls))).
Proof. rewrite <- (final_complete ls y s), data_bytes_app. eexists. reflexivity. Qed.
Lemma final_control ls y s :
  is_prefix (control_atoms (out_atoms false (other y) s (concat (obs_of ls))))
            (control_atoms (in_atoms false y s (firstn (length (obs_of ls)) ls))).
Proof. rewrite <- (final_complete ls y s), control_atoms_app. eexists. reflexivity. Qed.

(* END_STREAM at the same position and nowhere else: the number of bytes and
   control atoms before each END_STREAM is the same because the atom sequences agree *)
Lemma final_end_stream ls y s n :
  nth_error (out_atoms false (other y) s (concat (obs_of ls))) n = Some AEnd ->
  nth_error (in_atoms false y s (firstn (length (obs_of ls)) ls)) n = Some AEnd.
Proof.
  intros H. rewrite <- (final_complete ls y s). rewrite nth_error_app1; [assumption|].
  apply nth_error_Some. congruence.
Qed.
Lemma final_end_stream_only ls y s n a :
  nth_error (out_atoms false (other y) s (concat (obs_of ls))) n = Some a ->
  nth_error (in_atoms false y s (firstn (length (obs_of ls)) ls)) n = Some a.
Proof.
  intros H. rewrite <- (final_complete ls y s). rewrite nth_error_app1; [assumption|].
  apply nth_error_Some. congruence.
Qed.

(* ---- witnesses *)
Definition mk y f := mkLabel y f [].
Definition bytes_n (n : N) : bytes := N.iter n (cons "a"%char) [].

(* D13 / C09-K1: a DATA frame accepted under MAX_FRAME_SIZE 32768 is delivered
   after the receiver lowered it to 16384 *)
Definition w_d13 : list label :=
  [ mk Sv (FSettings [(5, 32768); (4, 0)])%N; mk Cl (FHeaders 1 false true None 0 false);
    mk Cl (FData 1 false (bytes_n 20000) None); mk Sv (FSettings [(5, 16384)])%N;
    mk Sv (FWinUpd 1 20000) ].
Lemma d13_refuted : rfc_valid w_d13 = true /\ b_frame w_d13 (obs_of w_d13) = false.
Proof. vm_compute. split; reflexivity. Qed.

(* frames are never split to fit a window: 5 bytes of credit, 10 bytes pending, nothing moves *)
Definition w_gran : list label :=
  [ mk Sv (FSettings [(4, 5)])%N; mk Cl (FHeaders 1 false true None 0 false);
    mk Cl (FData 1 false (bytes_n 10) None) ].
Lemma byte_granular_refuted :
  let o := obs_of w_gran in
  0 < win_at Sv 1 (length o) w_gran o /\ 0 < conn_at Sv (length o) w_gran o
  /\ sents Sv 1 (concat o) = 0 /\ length (accepted Sv 1 w_gran) = 2%nat /\ delivered Sv 1 (concat o) = 1%nat.
Proof. vm_compute. repeat split; reflexivity. Qed.

(* C08-K1: HEADERS with the PRIORITY flag and all-zero priority fields loses the flag *)
Definition w_k1 : list label := [ mk Cl (FHeaders 1 false true (Some prio0) 0 false) ].
Lemma k1_refuted : rfc_valid w_k1 = true /\ c08_prio_ok w_k1 (obs_of w_k1) = false.
Proof. vm_compute. split; reflexivity. Qed.

(* C08-K2 / K3: RFC-valid scripts on which the relay's reader stops *)
Definition w_k2 : list label := [ mk Sv (FPush 1 false 2 0); mk Sv (FCont 1 true) ].
Definition w_k3 : list label := [ mk Cl (FHeaders 1 false false None 0 true); mk Cl (FCont 1 true) ].
Lemma k2_refuted : rfc_valid w_k2 = true /\ no_empty_hfrag w_k2 = true /\ (length (obs_of w_k2) < length w_k2)%nat.
Proof. vm_compute. repeat split; auto. Qed.
Lemma k3_refuted : rfc_valid w_k3 = true /\ no_open_push w_k3 = true /\ (length (obs_of w_k3) < length w_k3)%nat.
Proof. vm_compute. repeat split; auto. Qed.

(* the code as it is (one Read): a preface split in two is refused *)
Lemma preface_single_read_refuted :
  exists preface chunks, concat chunks = preface /\ forward_preface_single preface chunks = None.
Proof. exists ["P"; "R"; "I"]%char, [["P"]; ["R"; "I"]]%char. vm_compute. split; reflexivity. Qed.

(* non-vacuity: a script with two streams, a closed window, padding, a
   continued block, a sweep; the model's run satisfies both oracles and
   something is still held back at the end *)
Definition w_ex : list label :=
  [ mk Sv (FSettings [(4, 4)])%N; mk Cl (FHeaders 1 false false (Some (mkPrio 3 true 15)) 7 false);
    mk Cl (FCont 1 true); mk Cl (FData 1 false (bytes_n 3) (Some 2%N));
    mk Cl (FData 1 true (bytes_n 6) None); mk Cl (FHeaders 3 true true None 2 false);
    mk Sv (FWinUpd 1 1); mk Sv (FSettings [(4, 6)])%N; mk Sv (FPing false (bytes_n 8));
    mk Sv (FData 1 true (bytes_n 2) None); mk Cl (FSettings [(1, 0)])%N; mk Sv FSettingsAck;
    mk Sv (FHeaders 1 true true None 4 false) ].
Lemma example_ok :
  rfc_valid w_ex = true /\ length (obs_of w_ex) = length w_ex
  /\ c09_ok w_ex (obs_of w_ex) = true /\ c08_ok w_ex (obs_of w_ex) = true
  /\ sents Sv 1 (concat (obs_of w_ex)) = 3 /\ creds Cl 1 (concat (obs_of w_ex)) = 12.
Proof. vm_compute. repeat split; reflexivity. Qed.
