(* C17 — heap-level facts used by the refinement proof (Proofs_Refine.v). *)
From Coq Require Import List NArith Bool Arith Lia.
From Martian.C17 Require Import Model.
Import ListNotations.

Definition nxt (h : list cell) (a : nat) : option nat :=
  match hget h a with Some c => cnext c | None => None end.

Definition entry_of (c : cell) : entry := mkEntry (cid c) (cresp c) (ctag c).

Definition ent (h : list cell) (a : nat) : option entry :=
  option_map entry_of (hget h a).

(* [path h l b]: following [cnext] from the head of [l] visits exactly [l],
   and the cell after the last one is [b]. *)
Fixpoint path (h : list cell) (l : list nat) (b : nat) : Prop :=
  match l with
  | [] => True
  | a :: l' => nxt h a = Some (hd b l') /\ path h l' b
  end.

Definition last_opt (l : list nat) : option nat :=
  match l with [] => None | _ => Some (last l 0) end.

(* ---------------- hget / hset ---------------- *)

Lemma hset_length h a c : length (hset h a c) = length h.
Proof.
  revert a; induction h as [|x h IH]; intros a; [reflexivity|].
  destruct a; cbn; [reflexivity|]. now rewrite IH.
Qed.

Lemma hget_hset_same h a c : a < length h -> hget (hset h a c) a = Some c.
Proof.
  unfold hget. revert a; induction h as [|x h IH]; intros a H; cbn in *; [lia|].
  destruct a; cbn; [reflexivity|]. apply IH. lia.
Qed.

Lemma hget_hset_other h a b c : a <> b -> hget (hset h a c) b = hget h b.
Proof.
  unfold hget. revert a b; induction h as [|x h IH]; intros a b H; [reflexivity|].
  destruct a, b; cbn; try reflexivity; try congruence. apply IH. congruence.
Qed.

Lemma hget_lt h a c : hget h a = Some c -> a < length h.
Proof. unfold hget. intros H. apply nth_error_Some. congruence. Qed.

Lemma hget_app_old h x a : a < length h -> hget (h ++ [x]) a = hget h a.
Proof. unfold hget. intros H. now apply nth_error_app1. Qed.

Lemma hget_app_new h x : hget (h ++ [x]) (length h) = Some x.
Proof. unfold hget. rewrite nth_error_app2 by lia. now rewrite Nat.sub_diag. Qed.

Lemma nxt_some_hget h a n : nxt h a = Some n -> exists c, hget h a = Some c /\ cnext c = Some n.
Proof. unfold nxt. destruct (hget h a) as [c|]; [|discriminate]. eauto. Qed.

(* set_next: what it changes and what it leaves alone *)
Lemma set_next_some h a c n :
  hget h a = Some c -> exists h', set_next h a n = Some h'.
Proof. unfold set_next. intros ->. eauto. Qed.

Lemma set_next_spec h a n h' :
  set_next h a n = Some h' ->
  length h' = length h /\
  nxt h' a = n /\
  (forall b, b <> a -> hget h' b = hget h b) /\
  (forall b, ent h' b = ent h b).
Proof.
  unfold set_next. destruct (hget h a) as [c|] eqn:E; [|discriminate].
  intros H; inversion H; subst h'; clear H. assert (Hlt := hget_lt _ _ _ E).
  repeat split.
  - apply hset_length.
  - unfold nxt. now rewrite hget_hset_same.
  - intros b Hb. apply hget_hset_other. congruence.
  - intros b. unfold ent. destruct (Nat.eq_dec b a) as [->|Hb].
    + rewrite hget_hset_same, E by assumption. reflexivity.
    + rewrite hget_hset_other by congruence. reflexivity.
Qed.

Lemma set_next_nxt_other h a n h' b :
  set_next h a n = Some h' -> b <> a -> nxt h' b = nxt h b.
Proof.
  intros H Hb. apply set_next_spec in H. destruct H as [_ [_ [Ho _]]].
  unfold nxt. now rewrite Ho.
Qed.

Lemma set_cresp_spec h a r h' :
  set_cresp h a r = Some h' ->
  length h' = length h /\
  (forall b, nxt h' b = nxt h b) /\
  (forall b, b <> a -> hget h' b = hget h b) /\
  (exists c, hget h a = Some c /\
             hget h' a = Some (mkCell (cid c) (Some r) (ctag c) (cnext c))).
Proof.
  unfold set_cresp. destruct (hget h a) as [c|] eqn:E; [|discriminate].
  intros H; inversion H; subst h'; clear H. assert (Hlt := hget_lt _ _ _ E).
  repeat split.
  - apply hset_length.
  - intros b. unfold nxt. destruct (Nat.eq_dec b a) as [->|Hb].
    + rewrite hget_hset_same, E by assumption. reflexivity.
    + rewrite hget_hset_other by congruence. reflexivity.
  - intros b Hb. apply hget_hset_other. congruence.
  - exists c. split; [reflexivity|]. now apply hget_hset_same.
Qed.

(* ---------------- path ---------------- *)

Lemma path_frame h h' l b :
  (forall a, In a l -> nxt h' a = nxt h a) -> path h l b -> path h' l b.
Proof.
  induction l as [|a l IH]; cbn [path]; intros Hf Hp; [exact I|].
  destruct Hp as [Ha Hp]. split.
  - rewrite Hf; [assumption|now left].
  - apply IH; [|assumption]. intros x Hx. apply Hf. now right.
Qed.

Lemma path_app h l1 l2 b :
  path h (l1 ++ l2) b <-> path h l1 (hd b l2) /\ path h l2 b.
Proof.
  induction l1 as [|a l1 IH]; cbn [app path].
  - tauto.
  - rewrite IH. destruct l1 as [|a' l1]; cbn [app hd]; tauto.
Qed.

Lemma path_all_valid h l b a : path h l b -> In a l -> exists c, hget h a = Some c.
Proof.
  induction l as [|x l IH]; cbn [path]; intros Hp Hin; [destruct Hin|].
  destruct Hp as [Hx Hp]. destruct Hin as [->|Hin]; [|auto].
  apply nxt_some_hget in Hx. destruct Hx as [c [Hc _]]. eauto.
Qed.

Lemma last_app_single (l : list nat) x d : last (l ++ [x]) d = x.
Proof. induction l as [|a l IH]; [reflexivity|]. cbn [app]. destruct (l ++ [x]) eqn:E; [destruct l; discriminate|]. cbn [last]. exact IH. Qed.

Lemma last_cons_ne (a : nat) l d : l <> [] -> last (a :: l) d = last l d.
Proof. destruct l; [congruence|reflexivity]. Qed.

Lemma last_in (l : list nat) d : l <> [] -> In (last l d) l.
Proof.
  induction l as [|a l IH]; [congruence|]. intros _. destruct l as [|a' l]; [now left|].
  right. apply IH. discriminate.
Qed.

Lemma NoDup_length_bound (l : list nat) n :
  NoDup l -> (forall a, In a l -> a < n) -> length l <= n.
Proof.
  intros Hnd Hlt. rewrite <- (seq_length n 0). apply NoDup_incl_length; [assumption|].
  intros a Ha. apply in_seq. specialize (Hlt a Ha). lia.
Qed.
