(* C17 — the concurrent clause.

   har.Logger holds l.mu for the whole body of each of its five methods, so an
   execution by several goroutines is a merge of the per-goroutine call
   sequences ([Merge]); the harness records, per goroutine, the calls it made
   and what each returned, then (after joining them) a final sequence.

   [conc_oracle_iff]  : the executable oracle [c17_conc_ok] says "true"
                        exactly when SOME merge of the recorded threads,
                        followed by the final calls, is a run of the
                        abstract log with exactly the recorded outputs.
   [conc_impl_accepted] : every execution of the ring transcription of
                        har.Logger under atomic methods is accepted. *)
From Coq Require Import List NArith Bool Arith Lia.
From Martian.C17 Require Import Model Proofs Proofs_Refine.
Import ListNotations.

Inductive Merge {A} : list (list A) -> list A -> Prop :=
| merge_nil ths : Forall (fun th => th = []) ths -> Merge ths []
| merge_cons pre x th post s :
    Merge (pre ++ th :: post) s -> Merge (pre ++ (x :: th) :: post) (x :: s).

Lemma all_empty_iff {A} (ths : list (list A)) :
  all_empty ths = true <-> Forall (fun th => th = []) ths.
Proof.
  unfold all_empty. rewrite forallb_forall, Forall_forall.
  split; intros H th Hin; specialize (H th Hin); destruct th; congruence.
Qed.

Lemma pick_each_spec {A} (ths : list (list A)) : forall pre0 x ths',
  In (x, ths') (pick_each pre0 ths) <->
  exists pre th post, ths = pre ++ (x :: th) :: post /\ ths' = pre0 ++ pre ++ th :: post.
Proof.
  induction ths as [|th0 rest IH]; intros pre0 x ths'.
  - cbn. split; [tauto|]. intros (pre & th & post & E & _). destruct pre; discriminate.
  - destruct th0 as [|y th0].
    + cbn [pick_each]. rewrite IH. split.
      * intros (pre & th & post & -> & ->). exists ([] :: pre), th, post. split; [reflexivity|].
        rewrite <- app_assoc. reflexivity.
      * intros (pre & th & post & E & ->). destruct pre as [|p pre]; [discriminate|].
        cbn in E. inversion E; subst. exists pre, th, post. split; [reflexivity|].
        rewrite <- app_assoc. reflexivity.
    + cbn [pick_each In]. rewrite IH. split.
      * intros [E | (pre & th & post & -> & ->)].
        -- inversion E; subst. exists [], th0, rest. split; reflexivity.
        -- exists ((y :: th0) :: pre), th, post. split; [reflexivity|].
           rewrite <- app_assoc. reflexivity.
      * intros (pre & th & post & E & ->). destruct pre as [|p pre].
        -- cbn in E. inversion E; subst. left. reflexivity.
        -- cbn in E. inversion E; subst. right. exists pre, th, post. split; [reflexivity|].
           rewrite <- app_assoc. reflexivity.
Qed.

Lemma total_len_app {A} (a b : list (list A)) :
  total_len (a ++ b) = total_len a + total_len b.
Proof. unfold total_len. induction a as [|x a IH]; cbn; [reflexivity|]. rewrite IH. lia. Qed.

Lemma total_len_pick {A} (pre post : list (list A)) x th :
  total_len (pre ++ (x :: th) :: post) = S (total_len (pre ++ th :: post)).
Proof. rewrite !total_len_app. unfold total_len. cbn. lia. Qed.

Lemma merge_all_empty {A} (ths : list (list A)) s :
  Forall (fun th => th = []) ths -> Merge ths s -> s = [].
Proof.
  intros Hall Hm. destruct Hm as [|pre x th post s _]; [reflexivity|].
  rewrite Forall_forall in Hall. specialize (Hall (x :: th)).
  assert (In (x :: th) (pre ++ (x :: th) :: post)) as Hin by (apply in_elt).
  specialize (Hall Hin). discriminate.
Qed.

(* the recorded (call, result) sequence [s] is a run of the abstract log
   from state [l] at ghost time [t] *)
Definition explains (t : nat) (l : list entry) (s : list (op * out)) : Prop :=
  snd (spec_run t l (map fst s)) = map snd s.

Lemma linearizable_iff : forall fuel ths fin l t,
  total_len ths < fuel ->
  (linearizable fuel ths fin l t = true <->
   exists s, Merge ths s /\ explains t l (s ++ fin)).
Proof.
  induction fuel as [|f IH]; intros ths fin l t Hlen; [lia|].
  cbn [linearizable]. destruct (all_empty ths) eqn:Hall.
  - apply all_empty_iff in Hall.
    rewrite (list_eqb_spec out_eqb out_eqb_spec). split.
    + intros E. exists []. split; [constructor; exact Hall|exact E].
    + intros (s & Hm & E). rewrite (merge_all_empty ths s Hall Hm) in E. exact E.
  - rewrite existsb_exists. split.
    + intros ([[o x] ths'] & Hin & Hc).
      destruct (spec_step t l o) as [l' y] eqn:Es.
      apply andb_true_iff in Hc. destruct Hc as [Hy Hrec].
      apply out_eqb_spec in Hy. subst y.
      apply pick_each_spec in Hin. destruct Hin as (pre & th & post & -> & ->).
      cbn [app] in Hrec. rewrite total_len_pick in Hlen.
      apply IH in Hrec; [|lia]. destruct Hrec as (s & Hm & E).
      exists ((o, x) :: s). split; [constructor; exact Hm|].
      unfold explains in *. cbn [app map fst snd]. rewrite spec_run_cons, Es. cbn [fst snd].
      rewrite E. reflexivity.
    + intros (s & Hm & E). destruct Hm as [ths Hnil|pre [o x] th post s Hm].
      * apply all_empty_iff in Hnil. congruence.
      * exists ((o, x), pre ++ th :: post). split.
        -- apply pick_each_spec. exists pre, th, post. split; reflexivity.
        -- unfold explains in E. cbn [app map fst snd] in E. rewrite spec_run_cons in E.
           destruct (spec_step t l o) as [l' y] eqn:Es. cbn [fst snd] in E.
           inversion E as [[Ey Erest]]. apply andb_true_iff. split.
           ++ apply out_eqb_spec. reflexivity.
           ++ rewrite total_len_pick in Hlen. apply IH; [lia|]. exists s. split; [exact Hm|].
              exact Erest.
Qed.

Theorem conc_oracle_iff ths fin :
  c17_conc_ok ths fin = true <->
  exists s, Merge ths s /\ map snd (s ++ fin) = spec_outputs (map fst (s ++ fin)).
Proof.
  unfold c17_conc_ok. rewrite linearizable_iff by lia. unfold explains, spec_outputs.
  split; intros (s & Hm & E); exists s; (split; [exact Hm|congruence]).
Qed.

(* Every execution of the ring transcription in which the five methods are
   atomic: the threads' calls merged in SOME order [s], then [fin]; each call
   returned what the ring implementation returns at that point. *)
Theorem conc_impl_accepted ths fin s :
  Merge ths s ->
  impl_outputs (map fst (s ++ fin)) = Some (map snd (s ++ fin)) ->
  c17_conc_ok ths fin = true.
Proof.
  intros Hm E. apply conc_oracle_iff. exists s. split; [exact Hm|].
  rewrite impl_refines_spec in E. congruence.
Qed.

(* Non-vacuity: two goroutines, an export racing a response. *)
Example conc_example :
  c17_conc_ok [[(RecReq 1, ODone); (RecResp 1 200, ODone)];
               [(Export, OList [(1, None)])]]%N
              [(ExportReset, OList [(1, Some 200)]); (Export, OList [])]%N = true
  /\ c17_conc_ok [[(RecReq 1, ODone); (RecResp 1 200, ODone)];
                  [(ExportReset, OList [(1, Some 200)])]]%N
                 [(Export, OList [(1, Some 200)])]%N = false.
Proof. split; vm_compute; reflexivity. Qed.
