(* C17 — property theorems.  Nothing but statements closed by [exact] and
   Print Assumptions, so a weakened statement is visible in review. *)
From Coq Require Import List NArith Bool Arith Permutation Sorted.
From Martian.C17 Require Import Model Proofs.
Import ListNotations.

(* Every log state any history can reach: one entry per ID, arrival order. *)
Theorem C17_reachable_logs_wellformed : forall ops,
  Forall (fun s => exists t, Inv t (fst s)) (spec_trace 0 [] ops).
Proof. intros ops. exact (trace_inv ops 0 [] inv_init). Qed.
Print Assumptions C17_reachable_logs_wellformed.

(* Export lists the whole log, in arrival order, without changing it. *)
Theorem C17_export_lists_everything_in_arrival_order : forall t l,
  spec_step t l Export = (l, OList (map obs_entry l)).
Proof. exact export_reads_whole_log. Qed.
Print Assumptions C17_export_lists_everything_in_arrival_order.

(* Export-and-reset returns exactly the completed entries and keeps exactly
   the pending ones. *)
Theorem C17_export_reset_returns_completed_keeps_pending : forall t l,
  spec_step t l ExportReset =
  (filter pending l, OList (map obs_entry (filter completed l)))
  /\ Forall (fun e => eresp e <> None) (filter completed l)
  /\ Forall (fun e => eresp e = None) (filter pending l).
Proof. exact export_reset_splits. Qed.
Print Assumptions C17_export_reset_returns_completed_keeps_pending.

(* Exactly once over the life of the log: for every history, the accepted
   requests are, without repetition, exactly: those still in the log, those
   handed out by some export-and-reset, those discarded by a reset. *)
Theorem C17_every_entry_exactly_once : forall ops,
  Permutation (accepted 0 [] ops)
              (tags (fst (spec_run 0 [] ops)) ++ handed_out 0 [] ops ++ discarded 0 [] ops)
  /\ NoDup (accepted 0 [] ops).
Proof.
  intros ops. split.
  - exact (conservation ops 0 []).
  - exact (accounting_nodup ops 0 [] inv_init).
Qed.
Print Assumptions C17_every_entry_exactly_once.

Theorem C17_pending_survive_export_reset : forall t l e,
  In e l -> eresp e = None -> In e (fst (spec_step t l ExportReset)).
Proof. exact pending_survives. Qed.
Print Assumptions C17_pending_survive_export_reset.

Theorem C17_response_attached_to_own_request : forall i r l,
  NoDup (ids l) ->
  length (set_resp i r l) = length l /\
  forall k e, nth_error l k = Some e ->
    nth_error (set_resp i r l) k =
      Some (if N.eqb (eid e) i then mkEntry (eid e) (Some r) (etag e) else e).
Proof. exact response_attached_to_own_request. Qed.
Print Assumptions C17_response_attached_to_own_request.

Theorem C17_unknown_or_reset_id_ignored : forall t l i r,
  has_id i l = false -> spec_step t l (RecResp i r) = (l, ODone).
Proof. exact response_for_unknown_id_ignored. Qed.
Print Assumptions C17_unknown_or_reset_id_ignored.

Theorem C17_duplicate_id_rejected_log_undisturbed : forall t l i,
  has_id i l = true -> spec_step t l (RecReq i) = (l, ODup).
Proof. exact duplicate_id_rejected. Qed.
Print Assumptions C17_duplicate_id_rejected_log_undisturbed.

Theorem C17_id_reusable_after_reset : forall t l i,
  spec_step (S t) (fst (spec_step t l Reset)) (RecReq i) = ([mkEntry i None (S t)], ODone).
Proof. exact id_reusable_after_reset. Qed.
Print Assumptions C17_id_reusable_after_reset.

(* The executable oracle run on the real implementation's outputs is the
   statement "the observed outputs are those of the abstract log". *)
Theorem C17_oracle_is_the_property : forall ops observed,
  c17_ok ops observed = true <-> observed = spec_outputs ops.
Proof. exact c17_ok_iff. Qed.
Print Assumptions C17_oracle_is_the_property.

(* Non-vacuity: a concrete history exercising every clause. *)
Example C17_example :
  spec_outputs [RecReq 1; RecReq 2; RecResp 1 200; Export; RecReq 1; ExportReset;
                Export; RecResp 2 201; RecReq 1; ExportReset; Reset; Export]%N
  = [ODone; ODone; ODone; OList [(1, Some 200); (2, None)]; ODup; OList [(1, Some 200)];
     OList [(2, None)]; ODone; ODone; OList [(2, Some 201)]; ODone; OList []]%N.
Proof. vm_compute. reflexivity. Qed.

(* The heap/ring transcription of har.Logger (RecordRequest, RecordResponse,
   Export, ExportAndReset, Reset, statement by statement) never panics and
   returns exactly the abstract log's outputs, for every history. *)
From Martian.C17 Require Import Proofs_Refine.
Theorem C17_ring_implementation_refines_abstract_log : forall ops,
  impl_outputs ops = Some (spec_outputs ops).
Proof. exact impl_refines_spec. Qed.
Print Assumptions C17_ring_implementation_refines_abstract_log.

(* "These outcomes are the same when the calls are made concurrently from many
   connections."  Every method holds the mutex for its whole body (the
   translator re-reads that from har/har.go on every run, Proofs_Tie.v), so a
   concurrent execution is a merge of the per-connection call sequences.  The
   executable oracle run on the recorded per-thread (call, result) sequences
   plus the calls made after joining is exactly "some merge of the threads is
   a run of the abstract log with these results". *)
From Martian.C17 Require Import Proofs_Conc.
Theorem C17_concurrent_oracle_is_linearizability : forall ths fin,
  c17_conc_ok ths fin = true <->
  exists s, Merge ths s /\ map snd (s ++ fin) = spec_outputs (map fst (s ++ fin)).
Proof. exact conc_oracle_iff. Qed.
Print Assumptions C17_concurrent_oracle_is_linearizability.

(* ... and every execution of the ring transcription under atomic methods is
   accepted by it: whatever order [s] the scheduler merged the threads in. *)
Theorem C17_concurrent_ring_executions_linearizable : forall ths fin s,
  Merge ths s ->
  impl_outputs (map fst (s ++ fin)) = Some (map snd (s ++ fin)) ->
  c17_conc_ok ths fin = true.
Proof. exact conc_impl_accepted. Qed.
Print Assumptions C17_concurrent_ring_executions_linearizable.

(* "... and keeps pending ones, which appear in a later export once completed":
   a pending entry kept by export-and-reset, once its response arrives, is
   listed with that response by the next export, and handed out by the next
   export-and-reset. *)
Theorem C17_pending_kept_then_exported_once_completed : forall t l e r,
  In e l -> eresp e = None ->
  let l1 := fst (spec_step t l ExportReset) in
  let l2 := fst (spec_step (S t) l1 (RecResp (eid e) r)) in
  snd (spec_step (S (S t)) l2 Export) = OList (map obs_entry l2)
  /\ In (eid e, Some r) (map obs_entry l2)
  /\ In (eid e, Some r) (map obs_entry (filter completed l2))
  /\ snd (spec_step (S (S t)) l2 ExportReset) = OList (map obs_entry (filter completed l2)).
Proof. exact pending_completed_later. Qed.
Print Assumptions C17_pending_kept_then_exported_once_completed.
