(* C17 — proofs about the abstract log (all histories). *)
From Coq Require Import List NArith Bool Arith Lia Permutation Sorted.
From Martian.C17 Require Import Model.
Import ListNotations.

Definition tags (l : list entry) : list nat := map etag l.
Definition ids (l : list entry) : list id := map eid l.

(* Invariant of every reachable log: one entry per ID, entries in strictly
   increasing tag (= arrival) order, all tags older than the clock. *)
Definition Inv (t : nat) (l : list entry) : Prop :=
  NoDup (ids l) /\ StronglySorted lt (tags l) /\ Forall (fun e => etag e < t) l.

(* ---------------- small list facts ---------------- *)

Lemma has_id_true_iff i l : has_id i l = true <-> In i (ids l).
Proof.
  unfold has_id, ids. rewrite existsb_exists. split.
  - intros [e [He Hi]]. apply N.eqb_eq in Hi. subst. now apply in_map.
  - intros H. apply in_map_iff in H. destruct H as [e [He Hin]].
    exists e. split; [assumption|]. now apply N.eqb_eq.
Qed.

Lemma has_id_false_iff i l : has_id i l = false <-> ~ In i (ids l).
Proof.
  rewrite <- has_id_true_iff. destruct (has_id i l); split; congruence.
Qed.

Lemma ids_set_resp i r l : ids (set_resp i r l) = ids l.
Proof.
  unfold ids, set_resp. rewrite map_map. apply map_ext.
  intros e. destruct (N.eqb (eid e) i); reflexivity.
Qed.

Lemma tags_set_resp i r l : tags (set_resp i r l) = tags l.
Proof.
  unfold tags, set_resp. rewrite map_map. apply map_ext.
  intros e. destruct (N.eqb (eid e) i); reflexivity.
Qed.

Lemma set_resp_absent i r l : has_id i l = false -> set_resp i r l = l.
Proof.
  intros H. apply has_id_false_iff in H. unfold set_resp.
  induction l as [|e l IH]; [reflexivity|]. cbn [map].
  destruct (N.eqb (eid e) i) eqn:E.
  - exfalso. apply H. left. now apply N.eqb_eq.
  - f_equal. apply IH. intros Hin. apply H. now right.
Qed.

Lemma NoDup_map_filter {A B} (f : A -> B) (p : A -> bool) l :
  NoDup (map f l) -> NoDup (map f (filter p l)).
Proof.
  induction l as [|x l IH]; cbn [map filter]; intros H; [constructor|].
  inversion H as [|? ? Hn Hd]; subst.
  destruct (p x); [cbn [map]; constructor|]; auto.
  intros Hin. apply Hn. apply in_map_iff in Hin. destruct Hin as [y [Hy Hin]].
  apply filter_In in Hin. rewrite <- Hy. apply in_map. tauto.
Qed.

Lemma Forall_filter {A} (P : A -> Prop) (p : A -> bool) l :
  Forall P l -> Forall P (filter p l).
Proof.
  intros H. apply Forall_forall. intros x Hx. apply filter_In in Hx.
  rewrite Forall_forall in H. apply H. tauto.
Qed.

Lemma SSorted_map_filter {A} (f : A -> nat) (p : A -> bool) l :
  StronglySorted lt (map f l) -> StronglySorted lt (map f (filter p l)).
Proof.
  induction l as [|x l IH]; cbn [map filter]; intros H; [constructor|].
  inversion H as [|? ? Hs Hf]; subst.
  destruct (p x); [cbn [map]; constructor|]; auto.
  rewrite Forall_forall in *. intros y Hy. apply Hf.
  apply in_map_iff in Hy. destruct Hy as [z [Hz Hin]].
  apply filter_In in Hin. rewrite <- Hz. apply in_map. tauto.
Qed.

Lemma NoDup_app_snoc {A} (l : list A) (x : A) :
  NoDup l -> ~ In x l -> NoDup (l ++ [x]).
Proof.
  induction l as [|a l IH]; cbn [app]; intros Hnd Hx.
  - constructor; [intros []|constructor].
  - inversion Hnd as [|? ? Ha Hl]; subst. constructor.
    + intros Hin. apply in_app_or in Hin. destruct Hin as [Hin|[Hin|[]]]; [auto|].
      apply Hx. left. congruence.
    + apply IH; [assumption|]. intros Hin. apply Hx. now right.
Qed.

Lemma SSorted_snoc (xs : list nat) (x : nat) :
  StronglySorted lt xs -> Forall (fun y => y < x) xs -> StronglySorted lt (xs ++ [x]).
Proof.
  induction xs as [|a xs IH]; cbn [app]; intros Hs Hf.
  - constructor; constructor.
  - inversion Hs as [|? ? Hs' Hfa]; subst. inversion Hf as [|? ? Ha Hf']; subst.
    constructor; [auto|]. apply Forall_app. split; [assumption|]. constructor; [assumption|constructor].
Qed.

Lemma Forall_lt_weaken (t : nat) (l : list entry) :
  Forall (fun e => etag e < t) l -> Forall (fun e => etag e < S t) l.
Proof. intros H. eapply Forall_impl; [|exact H]. cbn. intros; lia. Qed.

Lemma Forall_set_resp (P : nat -> Prop) i r l :
  Forall (fun e => P (etag e)) l -> Forall (fun e => P (etag e)) (set_resp i r l).
Proof.
  unfold set_resp. intros H. apply Forall_forall. intros x Hx.
  apply in_map_iff in Hx. destruct Hx as [e [He Hin]].
  rewrite Forall_forall in H. specialize (H e Hin).
  destruct (N.eqb (eid e) i); subst; assumption.
Qed.

(* ---------------- the invariant is preserved by every operation ---------------- *)

Lemma step_inv t l o : Inv t l -> Inv (S t) (fst (spec_step t l o)).
Proof.
  intros [Hnd [Hs Hf]]. destruct o as [i|i r| | |]; cbn [spec_step].
  - destruct (has_id i l) eqn:E; cbn [fst].
    + repeat split; auto using Forall_lt_weaken.
    + apply has_id_false_iff in E. repeat split.
      * unfold ids. rewrite map_app. cbn [map].
        apply NoDup_app_snoc; assumption.
      * unfold tags. rewrite map_app. cbn [map etag]. apply SSorted_snoc; [assumption|].
        rewrite Forall_map. exact Hf.
      * apply Forall_app. split; [auto using Forall_lt_weaken|].
        constructor; [cbn; lia|constructor].
  - cbn [fst]. repeat split.
    + rewrite ids_set_resp. assumption.
    + rewrite tags_set_resp. assumption.
    + apply (Forall_set_resp (fun k => k < S t)). auto using Forall_lt_weaken.
  - cbn [fst]. repeat split; auto using Forall_lt_weaken.
  - cbn [fst]. repeat split.
    + apply NoDup_map_filter; assumption.
    + apply SSorted_map_filter; assumption.
    + apply Forall_filter. auto using Forall_lt_weaken.
  - cbn [fst]. repeat split; constructor.
Qed.

(* ---------------- histories ---------------- *)

Lemma spec_run_cons t l o ops :
  spec_run t l (o :: ops) =
  (fst (spec_run (S t) (fst (spec_step t l o)) ops),
   snd (spec_step t l o) :: snd (spec_run (S t) (fst (spec_step t l o)) ops)).
Proof.
  cbn [spec_run]. destruct (spec_step t l o) as [l1 x]. cbn [fst snd].
  destruct (spec_run (S t) l1 ops) as [l2 xs]. reflexivity.
Qed.

Lemma run_inv ops : forall t l, Inv t l -> Inv (length ops + t) (fst (spec_run t l ops)).
Proof.
  induction ops as [|o ops IH]; intros t l H; [exact H|].
  rewrite spec_run_cons. cbn [fst length]. replace (S (length ops) + t) with (length ops + S t) by lia.
  apply IH. now apply step_inv.
Qed.

Lemma inv_init : Inv 0 [].
Proof. repeat split; constructor. Qed.

(* Every state in which an operation of any history executes satisfies Inv. *)
Lemma trace_inv ops : forall t l, Inv t l ->
  Forall (fun s => exists t', Inv t' (fst s)) (spec_trace t l ops).
Proof.
  induction ops as [|o ops IH]; intros t l H; cbn [spec_trace]; constructor.
  - exists t. exact H.
  - apply IH. now apply step_inv.
Qed.

(* Ghost accounting over a history: tags of the requests that were accepted,
   of the entries handed out by export-and-reset, and of the entries thrown
   away by reset. *)
Fixpoint accepted (t : nat) (l : list entry) (ops : list op) : list nat :=
  match ops with
  | [] => []
  | o :: ops' =>
      (match o with RecReq i => if has_id i l then [] else [t] | _ => [] end)
        ++ accepted (S t) (fst (spec_step t l o)) ops'
  end.

Fixpoint handed_out (t : nat) (l : list entry) (ops : list op) : list nat :=
  match ops with
  | [] => []
  | o :: ops' =>
      (match o with ExportReset => tags (filter completed l) | _ => [] end)
        ++ handed_out (S t) (fst (spec_step t l o)) ops'
  end.

Fixpoint discarded (t : nat) (l : list entry) (ops : list op) : list nat :=
  match ops with
  | [] => []
  | o :: ops' =>
      (match o with Reset => tags l | _ => [] end)
        ++ discarded (S t) (fst (spec_step t l o)) ops'
  end.

Lemma accepted_ge ops : forall t l, Forall (fun k => t <= k) (accepted t l ops).
Proof.
  induction ops as [|o ops IH]; intros t l; cbn [accepted]; [constructor|].
  apply Forall_app. split.
  - destruct o; try constructor. destruct (has_id i l); constructor; [lia|constructor].
  - eapply Forall_impl; [|apply IH]. cbn. intros; lia.
Qed.

Lemma accepted_nodup ops : forall t l, NoDup (accepted t l ops).
Proof.
  induction ops as [|o ops IH]; intros t l; cbn [accepted]; [constructor|].
  assert (Hge := accepted_ge ops (S t) (fst (spec_step t l o))).
  destruct o as [i| | | |]; cbn [app]; try apply IH.
  destruct (has_id i l); cbn [app]; [apply IH|]. constructor; [|apply IH].
  intros Hin. rewrite Forall_forall in Hge. apply Hge in Hin. lia.
Qed.

Lemma partition_perm (l : list entry) :
  Permutation (tags l) (tags (filter completed l) ++ tags (filter pending l)).
Proof.
  unfold tags, pending. induction l as [|e l IH]; cbn [filter map app]; [constructor|].
  destruct (completed e); cbn [negb map app].
  - now constructor.
  - eapply Permutation_trans; [apply perm_skip; exact IH|]. apply Permutation_middle.
Qed.

Lemma perm_export_reset (L C P A F H D : list nat) :
  Permutation L (C ++ P) -> Permutation (P ++ A) (F ++ H ++ D) ->
  Permutation (L ++ A) (F ++ (C ++ H) ++ D).
Proof.
  intros H1 H2.
  eapply Permutation_trans; [apply Permutation_app_tail; exact H1|].
  rewrite <- app_assoc.
  eapply Permutation_trans; [apply Permutation_app_head; exact H2|].
  rewrite <- (app_assoc C H D). apply Permutation_app_swap_app.
Qed.

Lemma perm_reset (L A F H D : list nat) :
  Permutation A (F ++ H ++ D) -> Permutation (L ++ A) (F ++ H ++ L ++ D).
Proof.
  intros H1.
  eapply Permutation_trans; [apply Permutation_app_head; exact H1|].
  eapply Permutation_trans; [apply Permutation_app_swap_app|].
  apply Permutation_app_head. apply Permutation_app_swap_app.
Qed.

Theorem conservation ops : forall t l,
  Permutation (tags l ++ accepted t l ops)
              (tags (fst (spec_run t l ops)) ++ handed_out t l ops ++ discarded t l ops).
Proof.
  induction ops as [|o ops IH]; intros t l.
  - cbn. rewrite !app_nil_r. apply Permutation_refl.
  - rewrite spec_run_cons. cbn [fst accepted handed_out discarded].
    specialize (IH (S t) (fst (spec_step t l o))).
    destruct o as [i|i r| | |]; cbn [spec_step] in *.
    + destruct (has_id i l); cbn [fst app] in *; [exact IH|].
      unfold tags in IH at 1. rewrite map_app in IH. cbn [map etag] in IH.
      rewrite <- app_assoc in IH. exact IH.
    + cbn [fst app] in *. rewrite tags_set_resp in IH. exact IH.
    + cbn [fst app] in *. exact IH.
    + cbn [fst app] in *. eapply perm_export_reset; [apply partition_perm|exact IH].
    + cbn [fst app] in *. apply perm_reset. exact IH.
Qed.

Lemma SSorted_lt_NoDup (xs : list nat) : StronglySorted lt xs -> NoDup xs.
Proof.
  induction 1 as [|a xs Hs IH Hf]; constructor; [|assumption].
  intros Hin. rewrite Forall_forall in Hf. apply Hf in Hin. lia.
Qed.

Lemma NoDup_app_intro {A} (l1 l2 : list A) :
  NoDup l1 -> NoDup l2 -> (forall x, In x l1 -> In x l2 -> False) -> NoDup (l1 ++ l2).
Proof.
  induction l1 as [|a l1 IH]; cbn [app]; intros H1 H2 Hd; [assumption|].
  inversion H1 as [|? ? Ha Hl]; subst. constructor.
  - intros Hin. apply in_app_or in Hin. destruct Hin as [Hin|Hin]; [auto|].
    apply (Hd a); [now left|assumption].
  - apply IH; [assumption|assumption|]. intros x Hx. apply Hd. now right.
Qed.

Lemma accounting_nodup ops t l : Inv t l -> NoDup (tags l ++ accepted t l ops).
Proof.
  intros [_ [Hs Hf]]. apply NoDup_app_intro.
  - apply SSorted_lt_NoDup. exact Hs.
  - apply accepted_nodup.
  - intros k Hk Hk'. assert (Hge := accepted_ge ops t l).
    rewrite Forall_forall in Hge. apply Hge in Hk'.
    apply in_map_iff in Hk. destruct Hk as [e [He Hin]].
    rewrite Forall_forall in Hf. apply Hf in Hin. lia.
Qed.

(* ---------------- per-operation clauses ---------------- *)

Lemma export_reads_whole_log t l :
  spec_step t l Export = (l, OList (map obs_entry l)).
Proof. reflexivity. Qed.

Lemma export_reset_splits t l :
  spec_step t l ExportReset =
  (filter pending l, OList (map obs_entry (filter completed l)))
  /\ Forall (fun e => eresp e <> None) (filter completed l)
  /\ Forall (fun e => eresp e = None) (filter pending l).
Proof.
  split; [reflexivity|]. split; apply Forall_forall; intros e He; apply filter_In in He;
    destruct He as [_ He]; unfold pending, completed in He; destruct (eresp e); cbn in He; congruence.
Qed.

Lemma pending_survives t l e :
  In e l -> eresp e = None -> In e (fst (spec_step t l ExportReset)).
Proof.
  intros Hin Hp. cbn. apply filter_In. split; [assumption|].
  unfold pending, completed. now rewrite Hp.
Qed.

Lemma response_for_unknown_id_ignored t l i r :
  has_id i l = false -> spec_step t l (RecResp i r) = (l, ODone).
Proof. intros H. cbn. now rewrite set_resp_absent. Qed.

Lemma duplicate_id_rejected t l i :
  has_id i l = true -> spec_step t l (RecReq i) = (l, ODup).
Proof. intros H. cbn. now rewrite H. Qed.

Lemma fresh_id_appended t l i :
  has_id i l = false -> spec_step t l (RecReq i) = (l ++ [mkEntry i None t], ODone).
Proof. intros H. cbn. now rewrite H. Qed.

Lemma reset_forgets t l : spec_step t l Reset = ([], ODone).
Proof. reflexivity. Qed.

Lemma id_reusable_after_reset t l i :
  spec_step (S t) (fst (spec_step t l Reset)) (RecReq i) = ([mkEntry i None (S t)], ODone).
Proof. reflexivity. Qed.

(* A response is attached to the one entry carrying its ID and to no other. *)
Lemma response_attached_to_own_request i r l :
  NoDup (ids l) ->
  length (set_resp i r l) = length l /\
  forall k e, nth_error l k = Some e ->
    nth_error (set_resp i r l) k =
      Some (if N.eqb (eid e) i then mkEntry (eid e) (Some r) (etag e) else e).
Proof.
  intros _. unfold set_resp. split; [apply map_length|].
  intros k e H. now rewrite nth_error_map, H.
Qed.

Lemma at_most_one_entry_per_id i l :
  NoDup (ids l) -> length (filter (fun e => N.eqb (eid e) i) l) <= 1.
Proof.
  unfold ids. induction l as [|e l IH]; cbn [map filter]; intros H; [cbn; lia|].
  inversion H as [|? ? Hn Hd]; subst. destruct (N.eqb (eid e) i) eqn:E; [|auto].
  cbn [length]. apply N.eqb_eq in E. subst i.
  assert (filter (fun e0 => N.eqb (eid e0) (eid e)) l = []) as ->; [|cbn; lia].
  clear IH H Hd. induction l as [|x l IHl]; [reflexivity|]. cbn [filter].
  destruct (N.eqb (eid x) (eid e)) eqn:E2.
  - exfalso. apply Hn. apply N.eqb_eq in E2. rewrite <- E2. now left.
  - apply IHl. intros Hin. apply Hn. now right.
Qed.

(* ---------------- the oracle is the property ---------------- *)

Lemma list_eqb_spec {A} (eqb : A -> A -> bool) :
  (forall a b, eqb a b = true <-> a = b) ->
  forall a b, list_eqb eqb a b = true <-> a = b.
Proof.
  intros He. induction a as [|x a IH]; destruct b as [|y b]; cbn; try (split; congruence).
  rewrite andb_true_iff, He, IH. split; [intros [-> ->]; reflexivity|]. intros E; inversion E; auto.
Qed.

Lemma resp_eqb_spec a b : resp_eqb a b = true <-> a = b.
Proof.
  destruct a, b; cbn; try (split; congruence).
  rewrite N.eqb_eq. split; congruence.
Qed.

Lemma obs_eqb_spec a b : obs_eqb a b = true <-> a = b.
Proof.
  destruct a as [i r], b as [j q]. unfold obs_eqb. cbn [fst snd].
  rewrite andb_true_iff, N.eqb_eq, resp_eqb_spec. split; [intros [-> ->]; reflexivity|].
  intros E; inversion E; auto.
Qed.

Lemma out_eqb_spec a b : out_eqb a b = true <-> a = b.
Proof.
  destruct a, b; cbn; try (split; congruence).
  rewrite (list_eqb_spec obs_eqb obs_eqb_spec). split; congruence.
Qed.

Theorem c17_ok_iff ops observed : c17_ok ops observed = true <-> observed = spec_outputs ops.
Proof.
  unfold c17_ok. rewrite (list_eqb_spec out_eqb out_eqb_spec). split; congruence.
Qed.
(* A pending entry kept by export-and-reset, once its response arrives, is
   listed (with that response) by the next export and handed out by the next
   export-and-reset. *)
Lemma pending_completed_later t l e r :
  In e l -> eresp e = None ->
  let l1 := fst (spec_step t l ExportReset) in
  let l2 := fst (spec_step (S t) l1 (RecResp (eid e) r)) in
  snd (spec_step (S (S t)) l2 Export) = OList (map obs_entry l2)
  /\ In (eid e, Some r) (map obs_entry l2)
  /\ In (eid e, Some r) (map obs_entry (filter completed l2))
  /\ snd (spec_step (S (S t)) l2 ExportReset) = OList (map obs_entry (filter completed l2)).
Proof.
  intros Hin Hp l1 l2.
  assert (In e l1) as H1 by (apply pending_survives; assumption).
  assert (In (mkEntry (eid e) (Some r) (etag e)) l2) as H2.
  { subst l2. cbn [spec_step fst]. unfold set_resp.
    apply in_map_iff. exists e. split; [|exact H1]. rewrite N.eqb_refl. reflexivity. }
  split; [reflexivity|]. split; [|split; [|reflexivity]].
  - apply in_map_iff. exists (mkEntry (eid e) (Some r) (etag e)). split; [reflexivity|exact H2].
  - apply in_map_iff. exists (mkEntry (eid e) (Some r) (etag e)). split; [reflexivity|].
    apply filter_In. split; [exact H2|reflexivity].
Qed.
