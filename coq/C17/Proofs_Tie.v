(* C17 — tie to the source (translator part).

   Gen_Har.v is regenerated from har/har.go by harness/cmd/gen_c17 on every
   check run.  The literals below are the statements Model.v was transcribed
   from; if the source's critical sections change, these obligations stop
   checking and the check goes on to search for a failing input. *)
From Coq Require Import List String Bool.
From Martian.C17 Require Import Gen_Har.
Import ListNotations.
Open Scope string_scope.

(* Every method takes l.mu before it touches l.entries / l.tail: this is the
   atomicity the history theorems (and the linearizability oracle) assume. *)
Lemma tie_every_method_locks_first :
  src_locked = [("RecordRequest", true); ("RecordResponse", true); ("Export", true);
                ("ExportAndReset", true); ("Reset", true)].
Proof. reflexivity. Qed.

Lemma tie_RecordRequest :
  src_RecordRequest =
  ["if _, exists := l.entries[id]; exists { return fmt.Errorf(""Duplicate request ID: %s"", id) }";
   "l.entries[id] = entry";
   "if l.tail == nil { l.tail = entry }";
   "entry.next = l.tail.next";
   "l.tail.next = entry";
   "l.tail = entry";
   "return nil"].
Proof. reflexivity. Qed.

Lemma tie_RecordResponse :
  src_RecordResponse =
  ["if e, ok := l.entries[id]; ok { e.Response = hres e.Time = time.Since(e.StartedDateTime).Nanoseconds() / 1000000 }";
   "return nil"].
Proof. reflexivity. Qed.

Lemma tie_Export :
  src_Export =
  ["es := make([]*Entry, 0, len(l.entries))";
   "curr := l.tail";
   "for curr != nil { curr = curr.next e := *curr e.next = nil es = append(es, &e) if curr == l.tail { break } }";
   "return l.makeHAR(es)"].
Proof. reflexivity. Qed.

Lemma tie_ExportAndReset :
  src_ExportAndReset =
  ["es := make([]*Entry, 0, len(l.entries))";
   "curr := l.tail";
   "prev := l.tail";
   "var first *Entry";
   "for curr != nil { curr = curr.next if curr.Response != nil { es = append(es, curr) delete(l.entries, curr.ID) } else { if first == nil { first = curr } prev.next = curr prev = curr } if curr == l.tail { break } }";
   "if len(l.entries) == 0 { l.tail = nil } else { l.tail = prev l.tail.next = first }";
   "return l.makeHAR(es)"].
Proof. reflexivity. Qed.

Lemma tie_Reset :
  src_Reset =
  ["l.entries = make(map[string]*Entry)";
   "l.tail = nil"].
Proof. reflexivity. Qed.

