From Coq Require Import ExtrOcamlBasic ExtrOcamlString.
From Martian.Common Require Import ExtractBase.
From Martian.C17 Require Import Model.
Extraction Language OCaml.
Extraction "model.ml" base_anchor spec_outputs impl_outputs impl_agrees
  c17_ok first_diff c17_conc_ok.
