(* C17 — the HAR log returns every exchange once, in arrival order.

   Definitions only (no proofs) so that the model still extracts and runs
   when a proof breaks.

   Two layers:
   - [spec_*]  : the abstract log, a list of entries in arrival order.
   - [impl_*]  : a transcription of har.Logger (har/har.go): a heap of
                 cells linked in a circular singly-linked list through
                 [cnext], a map id -> cell ([index]) and a [tail] pointer.
                 Every Go statement that dereferences a pointer returns
                 [None] ("Go would panic / append a nil entry") when the
                 pointer is nil or dangling; "never [None]" is a theorem.

   Entries carry a ghost [tag] (the position in the history of the
   RecordRequest that created them) so that "exactly once" can be stated
   although IDs may be reused after a reset.  Tags are not observable. *)

From Coq Require Import List NArith Bool Arith.
Import ListNotations.

Definition id := N.
Definition resp := N.

Inductive op :=
| RecReq (i : id)
| RecResp (i : id) (r : resp)
| Export
| ExportReset
| Reset.

Record entry := mkEntry { eid : id; eresp : option resp; etag : nat }.

(* What a caller can observe of one operation. *)
Inductive out :=
| ODone
| ODup
| OList (es : list (id * option resp)).

Definition obs_entry (e : entry) : id * option resp := (eid e, eresp e).

(* ------------------------------------------------------------------ *)
(* Abstract specification                                              *)
(* ------------------------------------------------------------------ *)

Definition has_id (i : id) (l : list entry) : bool :=
  existsb (fun e => N.eqb (eid e) i) l.

Definition set_resp (i : id) (r : resp) (l : list entry) : list entry :=
  map (fun e => if N.eqb (eid e) i then mkEntry (eid e) (Some r) (etag e) else e) l.

Definition completed (e : entry) : bool :=
  match eresp e with Some _ => true | None => false end.

Definition pending (e : entry) : bool := negb (completed e).

(* [t] is the ghost tag to give to an entry created by this operation. *)
Definition spec_step (t : nat) (l : list entry) (o : op) : list entry * out :=
  match o with
  | RecReq i =>
      if has_id i l then (l, ODup) else (l ++ [mkEntry i None t], ODone)
  | RecResp i r => (set_resp i r l, ODone)
  | Export => (l, OList (map obs_entry l))
  | ExportReset => (filter pending l, OList (map obs_entry (filter completed l)))
  | Reset => ([], ODone)
  end.

(* Run a history from tag [t]; returns final log and per-operation outputs. *)
Fixpoint spec_run (t : nat) (l : list entry) (ops : list op) : list entry * list out :=
  match ops with
  | [] => (l, [])
  | o :: ops' =>
      let '(l1, x) := spec_step t l o in
      let '(l2, xs) := spec_run (S t) l1 ops' in
      (l2, x :: xs)
  end.

Definition spec_outputs (ops : list op) : list out := snd (spec_run 0 [] ops).

(* Same run but keeping the ghost tags of what every export returned. *)
Definition step_tags (l : list entry) (o : op) : list nat :=
  match o with
  | Export => map etag l
  | ExportReset => map etag (filter completed l)
  | _ => []
  end.

Fixpoint spec_trace (t : nat) (l : list entry) (ops : list op)
  : list (list entry * op) :=
  match ops with
  | [] => []
  | o :: ops' => (l, o) :: spec_trace (S t) (fst (spec_step t l o)) ops'
  end.

(* ------------------------------------------------------------------ *)
(* Implementation model (heap + ring)                                  *)
(* ------------------------------------------------------------------ *)

Record cell := mkCell
  { cid : id; cresp : option resp; ctag : nat; cnext : option nat }.

Record impl := mkImpl
  { heap : list cell;             (* address = position; never freed (GC) *)
    index : list (id * nat);      (* l.entries : id -> *Entry *)
    tail : option nat }.          (* l.tail *)

Definition impl_init : impl := mkImpl [] [] None.

Fixpoint lookup (i : id) (m : list (id * nat)) : option nat :=
  match m with
  | [] => None
  | (j, a) :: m' => if N.eqb j i then Some a else lookup i m'
  end.

Definition remove_id (i : id) (m : list (id * nat)) : list (id * nat) :=
  filter (fun p => negb (N.eqb (fst p) i)) m.

Definition hget (h : list cell) (a : nat) : option cell := nth_error h a.

Fixpoint hset (h : list cell) (a : nat) (c : cell) : list cell :=
  match h, a with
  | [], _ => []
  | _ :: h', 0 => c :: h'
  | x :: h', S a' => x :: hset h' a' c
  end.

Definition set_next (h : list cell) (a : nat) (n : option nat) : option (list cell) :=
  match hget h a with
  | None => None
  | Some c => Some (hset h a (mkCell (cid c) (cresp c) (ctag c) n))
  end.

Definition set_cresp (h : list cell) (a : nat) (r : resp) : option (list cell) :=
  match hget h a with
  | None => None
  | Some c => Some (hset h a (mkCell (cid c) (Some r) (ctag c) (cnext c)))
  end.

(* RecordRequest, lines 502-516, statement by statement. *)
Definition impl_record_request (t : nat) (st : impl) (i : id) : option (impl * out) :=
  match lookup i (index st) with
  | Some _ => Some (st, ODup)
  | None =>
      let a := length (heap st) in
      let h0 := heap st ++ [mkCell i None t None] in     (* entry := &Entry{...} *)
      let idx := (i, a) :: index st in                    (* l.entries[id] = entry *)
      let tl := match tail st with None => a | Some x => x end in  (* if l.tail == nil { l.tail = entry } *)
      match hget h0 tl with
      | None => None
      | Some tc =>
          match set_next h0 a (cnext tc) with            (* entry.next = l.tail.next *)
          | None => None
          | Some h1 =>
              match set_next h1 tl (Some a) with         (* l.tail.next = entry *)
              | None => None
              | Some h2 => Some (mkImpl h2 idx (Some a), ODone)   (* l.tail = entry *)
              end
          end
      end
  end.

(* RecordResponse, lines 572-580. *)
Definition impl_record_response (st : impl) (i : id) (r : resp) : option (impl * out) :=
  match lookup i (index st) with
  | None => Some (st, ODone)
  | Some a =>
      match set_cresp (heap st) a r with
      | None => None
      | Some h => Some (mkImpl h (index st) (tail st), ODone)
      end
  end.

Definition obs_cell (c : cell) : id * option resp := (cid c, cresp c).

(* Export loop, lines 635-642.  [None] = a nil entry would be appended /
   out of fuel. *)
Fixpoint export_loop (fuel : nat) (h : list cell) (tl curr : nat)
  : option (list cell) :=
  match fuel with
  | 0 => None
  | S f =>
      match hget h curr with
      | None => None
      | Some c =>
          match cnext c with
          | None => None
          | Some n =>
              match hget h n with
              | None => None
              | Some cn =>
                  if Nat.eqb n tl then Some [cn]
                  else match export_loop f h tl n with
                       | None => None
                       | Some r => Some (cn :: r)
                       end
              end
          end
      end
  end.

Definition impl_export (st : impl) : option (impl * out) :=
  match tail st with
  | None => Some (st, OList [])
  | Some tl =>
      match export_loop (S (length (heap st))) (heap st) tl tl with
      | None => None
      | Some cs => Some (st, OList (map obs_cell cs))
      end
  end.

(* ExportAndReset loop, lines 652-671. Loop state as in the source. *)
Record ear := mkEar
  { r_heap : list cell; r_index : list (id * nat);
    r_prev : nat; r_first : option nat; r_es : list cell (* reversed *) }.

Fixpoint ear_loop (fuel : nat) (tl curr : nat) (s : ear) : option ear :=
  match fuel with
  | 0 => None
  | S f =>
      match hget (r_heap s) curr with
      | None => None
      | Some c =>
          match cnext c with                               (* curr = curr.next *)
          | None => None
          | Some n =>
              match hget (r_heap s) n with
              | None => None
              | Some cn =>
                  let s' :=
                    match cresp cn with
                    | Some _ =>                            (* es = append(es, curr); delete(l.entries, curr.ID) *)
                        Some (mkEar (r_heap s) (remove_id (cid cn) (r_index s))
                                    (r_prev s) (r_first s) (cn :: r_es s))
                    | None =>
                        let first' := match r_first s with Some f0 => Some f0 | None => Some n end in
                        match set_next (r_heap s) (r_prev s) (Some n) with   (* prev.next = curr *)
                        | None => None
                        | Some h' => Some (mkEar h' (r_index s) n first' (r_es s))  (* prev = curr *)
                        end
                    end in
                  match s' with
                  | None => None
                  | Some s' => if Nat.eqb n tl then Some s' else ear_loop f tl n s'
                  end
              end
          end
      end
  end.

Definition impl_export_reset (st : impl) : option (impl * out) :=
  match tail st with
  | None =>                          (* loop not entered *)
      match index st with
      | [] => Some (st, OList [])   (* len(l.entries) == 0 -> l.tail = nil *)
      | _ => None                   (* l.tail = prev (nil); l.tail.next panics *)
      end
  | Some tl =>
      match ear_loop (S (length (heap st))) tl tl
                     (mkEar (heap st) (index st) tl None []) with
      | None => None
      | Some s =>
          let o := OList (map obs_cell (rev (r_es s))) in
          match r_index s with
          | [] => Some (mkImpl (r_heap s) [] None, o)
          | _ =>
              match set_next (r_heap s) (r_prev s) (r_first s) with  (* l.tail = prev; l.tail.next = first *)
              | None => None
              | Some h' => Some (mkImpl h' (r_index s) (Some (r_prev s)), o)
              end
          end
      end
  end.

Definition impl_reset (st : impl) : option (impl * out) :=
  Some (mkImpl (heap st) [] None, ODone).

Definition impl_step (t : nat) (st : impl) (o : op) : option (impl * out) :=
  match o with
  | RecReq i => impl_record_request t st i
  | RecResp i r => impl_record_response st i r
  | Export => impl_export st
  | ExportReset => impl_export_reset st
  | Reset => impl_reset st
  end.

Fixpoint impl_run (t : nat) (st : impl) (ops : list op) : option (impl * list out) :=
  match ops with
  | [] => Some (st, [])
  | o :: ops' =>
      match impl_step t st o with
      | None => None
      | Some (st1, x) =>
          match impl_run (S t) st1 ops' with
          | None => None
          | Some (st2, xs) => Some (st2, x :: xs)
          end
      end
  end.

Definition impl_outputs (ops : list op) : option (list out) :=
  match impl_run 0 impl_init ops with
  | None => None
  | Some (_, xs) => Some xs
  end.

(* ------------------------------------------------------------------ *)
(* Oracle: what is evaluated on the real implementation's outputs      *)
(* ------------------------------------------------------------------ *)

Definition resp_eqb (a b : option resp) : bool :=
  match a, b with
  | None, None => true
  | Some x, Some y => N.eqb x y
  | _, _ => false
  end.

Definition obs_eqb (a b : id * option resp) : bool :=
  N.eqb (fst a) (fst b) && resp_eqb (snd a) (snd b).

Fixpoint list_eqb {A} (eqb : A -> A -> bool) (a b : list A) : bool :=
  match a, b with
  | [], [] => true
  | x :: a', y :: b' => eqb x y && list_eqb eqb a' b'
  | _, _ => false
  end.

Definition out_eqb (a b : out) : bool :=
  match a, b with
  | ODone, ODone => true
  | ODup, ODup => true
  | OList x, OList y => list_eqb obs_eqb x y
  | _, _ => false
  end.

(* [c17_ok ops observed] : the observed per-operation outputs are exactly
   those the abstract log prescribes for this history. *)
Definition c17_ok (ops : list op) (observed : list out) : bool :=
  list_eqb out_eqb (spec_outputs ops) observed.

(* Index of the first operation whose output differs (for reports). *)
Fixpoint first_diff (n : nat) (a b : list out) : option nat :=
  match a, b with
  | [], [] => None
  | x :: a', y :: b' => if out_eqb x y then first_diff (S n) a' b' else Some n
  | _, _ => Some n
  end.

Definition impl_agrees (ops : list op) : bool :=
  match impl_outputs ops with
  | None => false
  | Some xs => list_eqb out_eqb (spec_outputs ops) xs
  end.

(* Concurrent clause: threads issue operations with per-thread program
   order; every method holds the mutex for its whole body, so an execution
   is some interleaving.  [linearizable fuel threads l t] decides whether
   some interleaving of the per-thread (op, observed output) sequences is a
   run of the abstract log from state [l]. *)
Fixpoint pick_each {A} (pre : list (list A)) (ths : list (list A))
  : list (A * list (list A)) :=
  match ths with
  | [] => []
  | [] :: rest => pick_each (pre ++ [[]]) rest
  | (x :: th) :: rest => (x, pre ++ th :: rest) :: pick_each (pre ++ [x :: th]) rest
  end.

Definition all_empty {A} (ths : list (list A)) : bool :=
  forallb (fun th => match th with [] => true | _ => false end) ths.

Fixpoint linearizable (fuel : nat) (ths : list (list (op * out)))
         (fin : list (op * out)) (l : list entry) (t : nat) : bool :=
  match fuel with
  | 0 => false
  | S f =>
      if all_empty ths
      then list_eqb out_eqb (snd (spec_run t l (map fst fin))) (map snd fin)
      else existsb (fun c : (op * out) * list (list (op * out)) =>
                      let '((o, x), ths') := c in
                      let '(l', y) := spec_step t l o in
                      out_eqb y x && linearizable f ths' fin l' (S t))
                   (pick_each [] ths)
  end.

Definition total_len {A} (ths : list (list A)) : nat :=
  fold_right (fun th n => length th + n) 0 ths.

(* [fin] are operations issued after all threads were joined. *)
Definition c17_conc_ok (ths : list (list (op * out))) (fin : list (op * out)) : bool :=
  linearizable (S (total_len ths)) ths fin [] 0.
