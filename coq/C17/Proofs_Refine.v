(* C17 — the heap/ring transcription of har.Logger refines the abstract log:
   for every history, the implementation model never "panics" and returns
   exactly the abstract log's outputs. *)
From Coq Require Import List NArith Bool Arith Lia.
From Martian.C17 Require Import Model Proofs Proofs_Heap.
Import ListNotations.

Definition index_ok (h : list cell) (idx : list (id * nat)) (l : list nat) : Prop :=
  NoDup (map fst idx) /\
  forall i a, lookup i idx = Some a <-> (In a l /\ option_map eid (ent h a) = Some i).

Definition rep (h : list cell) (l : list nat) (log : list entry) : Prop :=
  map (ent h) l = map Some log.

(* [l] is the ghost list of live cell addresses in arrival order. *)
Record RInv (st : impl) (l : list nat) (log : list entry) : Prop := mkRInv
  { inv_nodup : NoDup l;
    inv_path : path (heap st) l (hd 0 l);
    inv_tail : tail st = last_opt l;
    inv_index : index_ok (heap st) (index st) l;
    inv_rep : rep (heap st) l log }.

(* ---------------- generic facts ---------------- *)

Lemma lookup_None_iff i idx : lookup i idx = None <-> ~ In i (map fst idx).
Proof.
  induction idx as [|[j a] idx IH]; cbn [lookup map fst In]; [tauto|].
  destruct (N.eqb j i) eqn:E.
  - apply N.eqb_eq in E. split; [discriminate|]. intros H. exfalso. apply H. now left.
  - apply N.eqb_neq in E. rewrite IH. tauto.
Qed.

Lemma lookup_in i a idx : lookup i idx = Some a -> In (i, a) idx.
Proof.
  induction idx as [|[j b] idx IH]; cbn [lookup]; [discriminate|].
  destruct (N.eqb j i) eqn:E.
  - apply N.eqb_eq in E. intros H; inversion H; subst. now left.
  - intros H. right. auto.
Qed.

Lemma rep_length h l log : rep h l log -> length l = length log.
Proof. unfold rep. intros H. apply (f_equal (@length _)) in H. now rewrite !map_length in H. Qed.

Lemma rep_in h l log a : rep h l log -> In a l -> exists e, ent h a = Some e /\ In e log.
Proof.
  unfold rep. revert log. induction l as [|x l IH]; intros log H Hin; [destruct Hin|].
  destruct log as [|e log]; [discriminate|]. cbn [map] in H. inversion H as [[He Hr]].
  destruct Hin as [->|Hin].
  - exists e. split; [assumption|now left].
  - destruct (IH log Hr Hin) as [e' [H1 H2]]. exists e'. split; [assumption|now right].
Qed.

Lemma rep_in_log h l log e : rep h l log -> In e log -> exists a, In a l /\ ent h a = Some e.
Proof.
  unfold rep. revert log. induction l as [|x l IH]; intros log H Hin.
  - destruct log; [destruct Hin|discriminate].
  - destruct log as [|e' log]; [destruct Hin|]. cbn [map] in H. inversion H as [[He Hr]].
    destruct Hin as [->|Hin].
    + exists x. split; [now left|assumption].
    + destruct (IH log Hr Hin) as [a [H1 H2]]. exists a. split; [now right|assumption].
Qed.

Lemma ent_valid h a e : ent h a = Some e -> a < length h.
Proof. unfold ent. destruct (hget h a) eqn:E; [|discriminate]. intros _. eapply hget_lt; eauto. Qed.

Lemma rep_valid h l log a : rep h l log -> In a l -> a < length h.
Proof. intros H Hin. destruct (rep_in _ _ _ _ H Hin) as [e [He _]]. eapply ent_valid; eauto. Qed.

Lemma lookup_has_id st l log i :
  RInv st l log ->
  (has_id i log = true <-> exists a, lookup i (index st) = Some a).
Proof.
  intros [_ _ _ [_ Hidx] Hrep]. rewrite has_id_true_iff. unfold ids. rewrite in_map_iff. split.
  - intros [e [He Hin]]. destruct (rep_in_log _ _ _ _ Hrep Hin) as [a [Ha Hent]].
    exists a. apply Hidx. split; [assumption|]. rewrite Hent. cbn. congruence.
  - intros [a Ha]. apply Hidx in Ha. destruct Ha as [Hin Hc].
    destruct (rep_in _ _ _ _ Hrep Hin) as [e [Hent He]]. exists e. split; [|assumption].
    rewrite Hent in Hc. cbn in Hc. congruence.
Qed.

Lemma path_last h l b : l <> [] -> path h l b -> nxt h (last l 0) = Some b.
Proof.
  induction l as [|a l IH]; [congruence|]. intros _ Hp. cbn [path] in Hp. destruct Hp as [Ha Hp].
  destruct l as [|a' l]; [exact Ha|]. rewrite last_cons_ne by discriminate.
  apply IH; [discriminate|assumption].
Qed.

Lemma path_set_last h h' l1 x b b' :
  path h (l1 ++ [x]) b ->
  nxt h' x = Some b' -> (forall y, In y l1 -> nxt h' y = nxt h y) ->
  path h' (l1 ++ [x]) b'.
Proof.
  intros Hp Hx Hf. apply path_app in Hp. destruct Hp as [Hp1 _]. apply path_app.
  cbn [hd path] in *. split; [|split; [assumption|exact I]].
  eapply path_frame; eauto.
Qed.

Lemma inv_init_r : RInv impl_init [] [].
Proof.
  constructor; cbn.
  - constructor.
  - exact I.
  - reflexivity.
  - split; [constructor|]. intros i a. cbn. split; [discriminate|intros [[] _]].
  - reflexivity.
Qed.

Lemma set_next_ex h a n : a < length h -> exists h', set_next h a n = Some h'.
Proof.
  intros H. unfold set_next, hget. destruct (nth_error h a) eqn:E; [eauto|].
  apply nth_error_None in E. lia.
Qed.

Lemma nxt_app_old h x b : b < length h -> nxt (h ++ [x]) b = nxt h b.
Proof. intros H. unfold nxt. now rewrite hget_app_old. Qed.

Lemma ent_app_old h x b : b < length h -> ent (h ++ [x]) b = ent h b.
Proof. intros H. unfold ent. now rewrite hget_app_old. Qed.

Lemma exists_last_nat (l : list nat) : l <> [] -> exists l1, l = l1 ++ [last l 0].
Proof.
  intros H. destruct (exists_last H) as [l1 [x E]]. exists l1. subst l.
  now rewrite last_app_single.
Qed.

Lemma hd_app_ne (l : list nat) x d : l <> [] -> hd d (l ++ x) = hd d l.
Proof. destruct l; [congruence|reflexivity]. Qed.

Lemma last_opt_snoc l a : last_opt (l ++ [a]) = Some a.
Proof. unfold last_opt. destruct (l ++ [a]) eqn:E; [destruct l; discriminate|]. rewrite <- E. now rewrite last_app_single. Qed.

(* ---------------- RecordRequest ---------------- *)

Lemma sim_record_request t st l log i :
  RInv st l log ->
  exists st' l',
    impl_record_request t st i = Some (st', snd (spec_step t log (RecReq i))) /\
    RInv st' l' (fst (spec_step t log (RecReq i))).
Proof.
  intros HI. assert (Hhas := lookup_has_id st l log i HI).
  destruct HI as [Hnd Hpath Htail [Hkeys Hidx] Hrep].
  unfold impl_record_request. cbn [spec_step].
  destruct (lookup i (index st)) as [a0|] eqn:Hl.
  { (* duplicate *)
    assert (has_id i log = true) as -> by (apply Hhas; eauto).
    exists st, l. split; [reflexivity|]. cbn [fst]. constructor; auto. split; assumption. }
  assert (has_id i log = false) as Hno.
  { destruct (has_id i log) eqn:E; [|reflexivity]. destruct (proj1 Hhas eq_refl) as [? ?]; discriminate. }
  rewrite Hno. cbn [fst snd].
  set (h := heap st) in *. set (a := length h).
  set (newc := mkCell i None t None). set (h0 := h ++ [newc]).
  assert (Hvalid : forall b, In b l -> b < a) by (intros b Hb; eapply rep_valid; eauto).
  assert (Hlen0 : length h0 = S a) by (unfold h0; rewrite app_length; cbn; lia).
  assert (Hga : hget h0 a = Some newc) by apply hget_app_new.
  set (tl := match tail st with Some x => x | None => a end).
  assert (Htl : tl < length h0).
  { unfold tl. rewrite Htail. unfold last_opt. destruct l as [|x l']; [lia|].
    assert (In (last (x :: l') 0) (x :: l')) by (apply last_in; discriminate).
    apply Hvalid in H. lia. }
  destruct (hget h0 tl) as [tc|] eqn:Htc; [|apply nth_error_None in Htc; lia].
  destruct (set_next_ex h0 a (cnext tc)) as [h1 H1]; [lia|]. rewrite H1.
  destruct (set_next_spec _ _ _ _ H1) as [Hlen1 [Hn1 [Ho1 He1]]].
  destruct (set_next_ex h1 tl (Some a)) as [h2 H2]; [lia|]. rewrite H2.
  destruct (set_next_spec _ _ _ _ H2) as [Hlen2 [Hn2 [Ho2 He2]]].
  assert (Hent2 : forall b, ent h2 b = ent h0 b) by (intros b; rewrite He2, He1; reflexivity).
  exists (mkImpl h2 ((i, a) :: index st) (Some a)), (l ++ [a]).
  split; [reflexivity|].
  assert (Hanotin : ~ In a l) by (intros Hin; apply Hvalid in Hin; lia).
  constructor; cbn [heap index tail].
  - (* NoDup *) apply NoDup_app_snoc; assumption.
  - (* path *)
    destruct l as [|x0 l0] eqn:El.
    + cbn [app hd path]. split; [|exact I].
      assert (tl = a) as Etl by (unfold tl; rewrite Htail; reflexivity).
      rewrite Etl in Hn2. exact Hn2.
    + rewrite <- El in *. assert (Hne : l <> []) by (rewrite El; discriminate).
      rewrite hd_app_ne by assumption.
      assert (Etl : tl = last l 0).
      { unfold tl. rewrite Htail. unfold last_opt. rewrite El. rewrite <- El. reflexivity. }
      assert (Htlin : In tl l) by (rewrite Etl; apply last_in; assumption).
      assert (Htla : tl <> a) by (apply Hvalid in Htlin; lia).
      assert (Hnt : nxt h tl = Some (hd 0 l)) by (rewrite Etl; apply path_last; assumption).
      assert (Hctc : cnext tc = Some (hd 0 l)).
      { unfold h0 in Htc. rewrite hget_app_old in Htc by (apply Hvalid; assumption).
        unfold nxt in Hnt. rewrite Htc in Hnt. exact Hnt. }
      apply path_app. cbn [hd path]. split; [|split; [|exact I]].
      * destruct (exists_last_nat l Hne) as [l1 El1]. rewrite <- Etl in El1.
        rewrite El1. rewrite El1 in Hpath, Hnd.
        eapply path_set_last; [exact Hpath|exact Hn2|].
        intros y Hy.
        assert (y <> tl).
        { intros ->. apply NoDup_remove_2 in Hnd. apply Hnd. rewrite app_nil_r. assumption. }
        assert (y < a) by (apply Hvalid; rewrite El1; apply in_or_app; now left).
        rewrite (set_next_nxt_other _ _ _ _ _ H2) by assumption.
        rewrite (set_next_nxt_other _ _ _ _ _ H1) by lia.
        apply nxt_app_old. assumption.
      * rewrite (set_next_nxt_other _ _ _ _ _ H2) by congruence.
        rewrite Hn1. exact Hctc.
  - symmetry. apply last_opt_snoc.
  - (* index *)
    split.
    + cbn [map fst]. constructor; [|assumption]. now apply lookup_None_iff.
    + intros j b. cbn [lookup]. rewrite Hent2. destruct (N.eqb i j) eqn:Eij.
      * apply N.eqb_eq in Eij. subst j. split.
        -- intros E; inversion E; subst b. split; [apply in_or_app; right; now left|].
           unfold ent. rewrite Hga. reflexivity.
        -- intros [Hin Hc]. apply in_app_or in Hin. destruct Hin as [Hin|[<-|[]]]; [|reflexivity].
           exfalso. unfold h0 in Hc. rewrite ent_app_old in Hc by (apply Hvalid; assumption).
           assert (lookup i (index st) = Some b) by (apply Hidx; split; assumption). congruence.
      * apply N.eqb_neq in Eij. rewrite Hidx. split.
        -- intros [Hin Hc]. split; [apply in_or_app; now left|].
           unfold h0. rewrite ent_app_old by (apply Hvalid; assumption). exact Hc.
        -- intros [Hin Hc]. apply in_app_or in Hin. destruct Hin as [Hin|[<-|[]]].
           ++ split; [assumption|]. unfold h0 in Hc. rewrite ent_app_old in Hc by (apply Hvalid; assumption). exact Hc.
           ++ exfalso. unfold ent in Hc. rewrite Hga in Hc. cbn in Hc. congruence.
  - (* rep *)
    unfold rep. rewrite !map_app. cbn [map]. f_equal.
    + unfold rep in Hrep. rewrite <- Hrep. apply map_ext_in. intros b Hb.
      rewrite Hent2. unfold h0. apply ent_app_old. apply Hvalid. assumption.
    + rewrite Hent2. unfold ent. rewrite Hga. reflexivity.
Qed.

(* ---------------- RecordResponse ---------------- *)

Lemma rep_map h h' l log (f : entry -> entry) :
  rep h l log ->
  (forall a e, In a l -> ent h a = Some e -> ent h' a = Some (f e)) ->
  rep h' l (map f log).
Proof.
  unfold rep. revert log. induction l as [|x l IH]; intros log H Hf.
  - destruct log; [reflexivity|discriminate].
  - destruct log as [|e log]; [discriminate|]. cbn [map] in *. inversion H as [[He Hr]].
    f_equal.
    + apply Hf; [now left|assumption].
    + apply IH; [assumption|]. intros a e' Ha. apply Hf. now right.
Qed.

Lemma set_cresp_ex h a r : a < length h -> exists h', set_cresp h a r = Some h'.
Proof.
  intros H. unfold set_cresp, hget. destruct (nth_error h a) eqn:E; [eauto|].
  apply nth_error_None in E. lia.
Qed.

Lemma sim_record_response st l log i r :
  RInv st l log ->
  exists st',
    impl_record_response st i r = Some (st', ODone) /\
    RInv st' l (set_resp i r log).
Proof.
  intros HI. assert (Hhas := lookup_has_id st l log i HI).
  destruct HI as [Hnd Hpath Htail [Hkeys Hidx] Hrep].
  unfold impl_record_response.
  destruct (lookup i (index st)) as [a|] eqn:Hl.
  2:{ assert (has_id i log = false) as Hno.
      { destruct (has_id i log) eqn:E; [|reflexivity]. destruct (proj1 Hhas eq_refl) as [? ?]; discriminate. }
      rewrite set_resp_absent by assumption. exists st. split; [reflexivity|].
      constructor; auto. split; assumption. }
  set (h := heap st) in *.
  destruct (proj1 (Hidx i a) Hl) as [Hin Hc].
  assert (Hlt : a < length h) by (eapply rep_valid; eauto).
  destruct (set_cresp_ex h a r Hlt) as [h' Hs]. rewrite Hs.
  destruct (set_cresp_spec _ _ _ _ Hs) as [Hlen [Hn [Ho [c [Hc0 Hc1]]]]].
  exists (mkImpl h' (index st) (tail st)). split; [reflexivity|].
  assert (Heid : forall b, option_map eid (ent h' b) = option_map eid (ent h b)).
  { intros b. unfold ent. destruct (Nat.eq_dec b a) as [->|Hb].
    - rewrite Hc0, Hc1. reflexivity.
    - rewrite Ho by assumption. reflexivity. }
  constructor; cbn [heap index tail]; auto.
  - eapply path_frame; [|exact Hpath]. intros; apply Hn.
  - split; [assumption|]. intros j b. rewrite Heid. apply Hidx.
  - unfold set_resp. apply (rep_map h); [assumption|]. intros b e Hb He.
    destruct (Nat.eq_dec b a) as [->|Hba].
    + unfold ent in *. rewrite Hc0 in He, Hc. rewrite Hc1. cbn in *. inversion He; subst e.
      inversion Hc as [Hci]. cbn [entry_of eid etag eresp]. rewrite Hci, N.eqb_refl. reflexivity.
    + unfold ent at 1. rewrite Ho by assumption. fold (ent h b). rewrite He.
      destruct (N.eqb (eid e) i) eqn:E; [|reflexivity]. exfalso. apply N.eqb_eq in E.
      assert (lookup i (index st) = Some b) as Hlb.
      { apply Hidx. split; [assumption|]. rewrite He. cbn. congruence. }
      congruence.
Qed.

(* ---------------- Reset ---------------- *)

Lemma sim_reset st l log :
  RInv st l log -> exists st', impl_reset st = Some (st', ODone) /\ RInv st' [] [].
Proof.
  intros _. exists (mkImpl (heap st) [] None). split; [reflexivity|].
  constructor; cbn.
  - constructor.
  - exact I.
  - reflexivity.
  - split; [constructor|]. intros i a. cbn. split; [discriminate|intros [[] _]].
  - reflexivity.
Qed.

(* ---------------- Export ---------------- *)

Lemma export_loop_ok h tl b : forall suf fuel curr,
  suf <> [] -> length suf <= fuel ->
  nxt h curr = Some (hd 0 suf) -> path h suf b -> NoDup suf -> last suf 0 = tl ->
  exists cs, export_loop fuel h tl curr = Some cs /\
             map (fun c => Some (entry_of c)) cs = map (ent h) suf.
Proof.
  induction suf as [|n suf IH]; intros fuel curr Hne Hfuel Hcur Hp Hnd Hlast; [congruence|].
  destruct fuel as [|f]; [cbn in Hfuel; lia|]. cbn [export_loop].
  destruct (nxt_some_hget _ _ _ Hcur) as [c [Hc Hcn]]. rewrite Hc, Hcn. cbn [hd].
  cbn [path] in Hp. destruct Hp as [Hn Hp].
  destruct (nxt_some_hget _ _ _ Hn) as [cn [Hcn' _]]. rewrite Hcn'.
  destruct suf as [|n' rest].
  - cbn [last] in Hlast. subst tl. rewrite Nat.eqb_refl. exists [cn]. split; [reflexivity|].
    cbn [map]. unfold ent. rewrite Hcn'. reflexivity.
  - assert (Hntl : n <> tl).
    { rewrite last_cons_ne in Hlast by discriminate. intros Heq.
      apply NoDup_cons_iff in Hnd. destruct Hnd as [Hnotin _]. apply Hnotin.
      rewrite Heq, <- Hlast. apply last_in. discriminate. }
    apply Nat.eqb_neq in Hntl. rewrite Hntl.
    destruct (IH f n) as [cs [Hcs Hm]].
    + discriminate.
    + cbn [length] in *. lia.
    + exact Hn.
    + exact Hp.
    + now inversion Hnd.
    + rewrite last_cons_ne in Hlast by discriminate. exact Hlast.
    + rewrite Hcs. exists (cn :: cs). split; [reflexivity|].
      cbn [map]. rewrite Hm. unfold ent at 2. rewrite Hcn'. reflexivity.
Qed.

Lemma map_Some_inj {A} (a b : list A) : map Some a = map Some b -> a = b.
Proof.
  revert b; induction a as [|x a IH]; destruct b as [|y b]; cbn; try congruence.
  intros H; inversion H; f_equal; auto.
Qed.

Lemma obs_cell_entry c : obs_cell c = obs_entry (entry_of c).
Proof. reflexivity. Qed.

Lemma sim_export st l log :
  RInv st l log ->
  impl_export st = Some (st, OList (map obs_entry log)).
Proof.
  intros [Hnd Hpath Htail Hidx Hrep]. unfold impl_export. rewrite Htail.
  destruct l as [|x l'] eqn:El.
  - cbn [last_opt]. destruct log; [reflexivity|]. apply rep_length in Hrep. discriminate.
  - rewrite <- El in *. assert (Hne : l <> []) by (rewrite El; discriminate).
    unfold last_opt. rewrite El. rewrite <- El.
    set (h := heap st) in *. set (tl := last l 0).
    assert (Hvalid : forall b, In b l -> b < length h) by (intros b Hb; eapply rep_valid; eauto).
    destruct (export_loop_ok h tl (hd 0 l) l (S (length h)) tl) as [cs [Hcs Hm]]; auto.
    + assert (length l <= length h) by (apply NoDup_length_bound; assumption). lia.
    + apply path_last; assumption.
    + rewrite Hcs. do 3 f_equal. unfold rep in Hrep. rewrite Hrep in Hm.
      rewrite <- (map_map entry_of Some) in Hm. apply map_Some_inj in Hm. rewrite <- Hm.
      rewrite map_map. reflexivity.
Qed.

(* ---------------- ExportAndReset ---------------- *)

Definition compl (h : list cell) (a : nat) : bool :=
  match ent h a with Some e => completed e | None => false end.

Definition eid_at (h : list cell) (a : nat) : id :=
  match ent h a with Some e => eid e | None => 0%N end.

Definition rm_ids (js : list id) (m : list (id * nat)) : list (id * nat) :=
  fold_left (fun m i => remove_id i m) js m.

Definition Cof (h : list cell) (pre : list nat) := filter (compl h) pre.
Definition Pof (h : list cell) (pre : list nat) := filter (fun a => negb (compl h a)) pre.

Lemma in_removelast (l : list nat) b : In b (removelast l) -> In b l.
Proof.
  induction l as [|a l IH]; [intros []|]. destruct l as [|a' l]; [intros []|].
  cbn [removelast]. intros [->|H]; [now left|right; auto].
Qed.

Lemma path_snoc h h' l1 x b' :
  path h l1 x -> nxt h' x = Some b' -> (forall y, In y l1 -> nxt h' y = nxt h y) ->
  path h' (l1 ++ [x]) b'.
Proof.
  intros Hp Hx Hf. apply path_app. cbn [hd path]. split; [|split; [assumption|exact I]].
  eapply path_frame; eauto.
Qed.

Lemma NoDup_last_not_in_removelast (P : list nat) :
  P <> [] -> NoDup P -> ~ In (last P 0) (removelast P).
Proof.
  intros Hne Hnd. rewrite (app_removelast_last 0 Hne) in Hnd at 1.
  apply NoDup_remove_2 in Hnd. rewrite app_nil_r in Hnd. exact Hnd.
Qed.

Section EAR.
  Variables (h : list cell) (tl : nat).

  Definition ptrs (hs : list cell) (P : list nat) (first : option nat) (prev : nat) : Prop :=
    match P with
    | [] => first = None /\ prev = tl /\ forall b, nxt hs b = nxt h b
    | p1 :: _ => first = Some p1 /\ prev = last P 0 /\ path hs (removelast P) (last P 0)
                 /\ forall b, b <> tl -> ~ In b (removelast P) -> nxt hs b = nxt h b
    end.

  Lemma ptrs_ne hs P first prev :
    P <> [] ->
    (ptrs hs P first prev <->
     first = Some (hd 0 P) /\ prev = last P 0 /\ path hs (removelast P) (last P 0)
     /\ forall b, b <> tl -> ~ In b (removelast P) -> nxt hs b = nxt h b).
  Proof. destruct P; [congruence|]. intros _. reflexivity. Qed.

  Lemma ptrs_pending hs P first prev n hs' :
    ptrs hs P first prev -> NoDup (P ++ [n]) ->
    set_next hs prev (Some n) = Some hs' ->
    ptrs hs' (P ++ [n]) (match first with Some f0 => Some f0 | None => Some n end) n.
  Proof.
    intros Hp Hnd Hs. destruct (set_next_spec _ _ _ _ Hs) as [_ [Hn [_ _]]].
    destruct P as [|p1 P2].
    - destruct Hp as [-> [-> Hsame]]. cbn [app ptrs last removelast path].
      repeat split; try exact I. intros b Hb _.
      rewrite (set_next_nxt_other _ _ _ _ _ Hs) by assumption. apply Hsame.
    - destruct Hp as [-> [Hprev [Hpath Hoth]]].
      set (P := p1 :: P2) in *. assert (HPne : P <> []) by discriminate.
      apply ptrs_ne; [destruct P; discriminate|].
      rewrite removelast_last, last_app_single.
      assert (HndP : NoDup P) by (apply NoDup_remove_1 in Hnd; now rewrite app_nil_r in Hnd).
      split; [reflexivity|]. split; [reflexivity|]. split.
      + rewrite (app_removelast_last 0 HPne). rewrite <- Hprev.
        eapply path_snoc; [rewrite Hprev; exact Hpath|exact Hn|].
        intros y Hy. apply (set_next_nxt_other _ _ _ _ _ Hs).
        intros ->. rewrite Hprev in Hy. revert Hy. now apply NoDup_last_not_in_removelast.
      + intros b Hb Hnin.
        assert (b <> prev).
        { intros ->. apply Hnin. rewrite Hprev. apply last_in. assumption. }
        rewrite (set_next_nxt_other _ _ _ _ _ Hs) by assumption.
        apply Hoth; [assumption|]. intros Hin. apply Hnin. now apply in_removelast.
  Qed.

  Lemma ptrs_nxt_outside hs P first prev b :
    ptrs hs P first prev -> b <> tl -> ~ In b (removelast P) -> nxt hs b = nxt h b.
  Proof.
    destruct P as [|p1 P2]; cbn [ptrs].
    - intros [_ [_ H]] _ _. apply H.
    - intros [_ [_ [_ H]]]. apply H.
  Qed.
End EAR.

Lemma ent_some_hget h a e : ent h a = Some e -> exists c, hget h a = Some c /\ entry_of c = e.
Proof. unfold ent. destruct (hget h a) as [c|]; [|discriminate]. cbn. intros H; inversion H. eauto. Qed.

Lemma NoDup_app_l {A} (l1 l2 : list A) : NoDup (l1 ++ l2) -> NoDup l1.
Proof.
  induction l1 as [|a l1 IH]; cbn [app]; intros H; [constructor|].
  inversion H as [|? ? Hn Hd]; subst. constructor; [|auto].
  intros Hin. apply Hn. apply in_or_app. now left.
Qed.

Section EARLoop.
  Variables (h : list cell) (idx : list (id * nat)) (l : list nat) (log : list entry).
  Let tl := last l 0.
  Hypothesis Hnd : NoDup l.
  Hypothesis Hpath : path h l (hd 0 l).
  Hypothesis Hrep : rep h l log.

  Record LoopInv (pre : list nat) (s : ear) : Prop := mkLI
    { li_ent : forall b, ent (r_heap s) b = ent h b;
      li_es : map (fun c => Some (entry_of c)) (rev (r_es s)) = map (ent h) (Cof h pre);
      li_index : r_index s = rm_ids (map (eid_at h) (Cof h pre)) idx;
      li_ptrs : ptrs h tl (r_heap s) (Pof h pre) (r_first s) (r_prev s) }.

  Lemma li_init : LoopInv [] (mkEar h idx tl None []).
  Proof. constructor; cbn; auto. Qed.

  Lemma li_completed pre s n cn :
    LoopInv pre s -> compl h n = true -> hget (r_heap s) n = Some cn ->
    LoopInv (pre ++ [n])
      (mkEar (r_heap s) (remove_id (cid cn) (r_index s)) (r_prev s) (r_first s) (cn :: r_es s)).
  Proof.
    intros [He Hes Hix Hp] Hc Hg.
    assert (Hentn : ent h n = Some (entry_of cn)) by (rewrite <- He; unfold ent; now rewrite Hg).
    constructor; cbn [r_heap r_index r_prev r_first r_es].
    - exact He.
    - unfold Cof. rewrite filter_app. cbn [filter]. rewrite Hc. cbn [rev].
      rewrite !map_app, Hes. cbn [map]. now rewrite Hentn.
    - unfold Cof. rewrite filter_app. cbn [filter]. rewrite Hc, map_app. cbn [map].
      unfold rm_ids. rewrite fold_left_app. cbn [fold_left]. fold (rm_ids (map (eid_at h) (filter (compl h) pre)) idx).
      unfold Cof in Hix. rewrite <- Hix. unfold eid_at. rewrite Hentn. reflexivity.
    - unfold Pof. rewrite filter_app. cbn [filter]. rewrite Hc. cbn [negb]. rewrite app_nil_r. exact Hp.
  Qed.

  Lemma li_pending pre s n hs' :
    LoopInv pre s -> compl h n = false -> NoDup (pre ++ [n]) ->
    set_next (r_heap s) (r_prev s) (Some n) = Some hs' ->
    LoopInv (pre ++ [n])
      (mkEar hs' (r_index s) n (match r_first s with Some f0 => Some f0 | None => Some n end) (r_es s)).
  Proof.
    intros [He Hes Hix Hp] Hc Hndp Hs.
    destruct (set_next_spec _ _ _ _ Hs) as [_ [_ [_ Hent]]].
    constructor; cbn [r_heap r_index r_prev r_first r_es].
    - intros b. rewrite Hent. apply He.
    - unfold Cof. rewrite filter_app. cbn [filter]. rewrite Hc, app_nil_r. exact Hes.
    - unfold Cof. rewrite filter_app. cbn [filter]. rewrite Hc, app_nil_r. exact Hix.
    - unfold Pof. rewrite filter_app. cbn [filter]. rewrite Hc. cbn [negb].
      apply (ptrs_pending h tl (r_heap s) (filter (fun a => negb (compl h a)) pre)
               (r_first s) (r_prev s) n hs'); [exact Hp| |exact Hs].
      replace (filter (fun a => negb (compl h a)) pre ++ [n])
        with (filter (fun a => negb (compl h a)) (pre ++ [n])).
      + apply NoDup_filter. assumption.
      + rewrite filter_app. cbn [filter]. now rewrite Hc.
  Qed.

  Lemma compl_cresp s n cn :
    (forall b, ent (r_heap s) b = ent h b) -> hget (r_heap s) n = Some cn ->
    compl h n = match cresp cn with Some _ => true | None => false end.
  Proof.
    intros He Hg. unfold compl. rewrite <- He. unfold ent. rewrite Hg. reflexivity.
  Qed.

  Lemma prev_valid pre s :
    LoopInv pre s -> incl pre l -> l <> [] -> exists c, hget (r_heap s) (r_prev s) = Some c.
  Proof.
    intros [He _ _ Hp] Hincl Hne.
    assert (Hin : In (r_prev s) l).
    { destruct (Pof h pre) as [|p1 P2] eqn:EP.
      - destruct Hp as [_ [-> _]]. apply last_in. assumption.
      - destruct Hp as [_ [-> _]]. apply Hincl. rewrite <- EP.
        assert (H : In (last (Pof h pre) 0) (Pof h pre)) by (apply last_in; rewrite EP; discriminate).
        unfold Pof in H at 2. apply filter_In in H. tauto. }
    destruct (rep_in _ _ _ _ Hrep Hin) as [e [Hent _]]. rewrite <- He in Hent.
    apply ent_some_hget in Hent. destruct Hent as [c [Hc _]]. eauto.
  Qed.

  Lemma ear_loop_ok : forall suf pre s fuel curr,
    l = pre ++ suf -> suf <> [] -> length suf <= fuel ->
    LoopInv pre s -> nxt (r_heap s) curr = Some (hd 0 suf) ->
    exists s', ear_loop fuel tl curr s = Some s' /\ LoopInv l s'.
  Proof.
    induction suf as [|n suf IH]; intros pre s fuel curr El Hne Hfuel HI Hcur; [congruence|].
    destruct fuel as [|f]; [cbn in Hfuel; lia|]. cbn [ear_loop].
    destruct (nxt_some_hget _ _ _ Hcur) as [c [Hc Hcn]]. rewrite Hc, Hcn. cbn [hd].
    assert (Hlne : l <> []) by (rewrite El; destruct pre; discriminate).
    assert (Hnin : In n l) by (rewrite El; apply in_or_app; right; now left).
    assert (Hincl : incl pre l) by (rewrite El; apply incl_appl, incl_refl).
    assert (Hndp : NoDup (pre ++ [n])).
    { rewrite El in Hnd. replace (pre ++ n :: suf) with ((pre ++ [n]) ++ suf) in Hnd by (rewrite <- app_assoc; reflexivity).
      apply NoDup_app_l in Hnd. exact Hnd. }
    destruct (rep_in _ _ _ _ Hrep Hnin) as [e [Hent _]].
    assert (Hents := li_ent _ _ HI). rewrite <- Hents in Hent.
    destruct (ent_some_hget _ _ _ Hent) as [cn [Hgn _]]. rewrite Hgn.
    assert (Hcompl := compl_cresp s n cn Hents Hgn).
    (* the state after the loop body, in both cases *)
    assert (exists s1,
      match cresp cn with
      | Some _ => Some (mkEar (r_heap s) (remove_id (cid cn) (r_index s)) (r_prev s) (r_first s) (cn :: r_es s))
      | None =>
          match set_next (r_heap s) (r_prev s) (Some n) with
          | Some h' => Some (mkEar h' (r_index s) n
                               match r_first s with Some n0 => Some n0 | None => Some n end (r_es s))
          | None => None
          end
      end = Some s1 /\ LoopInv (pre ++ [n]) s1) as [s1 [Hbody HI1]].
    { destruct (cresp cn) as [r|].
      - eexists. split; [reflexivity|]. now apply li_completed.
      - destruct (prev_valid pre s HI Hincl Hlne) as [pc Hpc].
        destruct (set_next_some _ _ _ (Some n) Hpc) as [h' Hs]. rewrite Hs.
        eexists. split; [reflexivity|].
        now apply li_pending. }
    rewrite Hbody.
    assert (Htl : tl = last (n :: suf) 0).
    { unfold tl. rewrite El. destruct pre as [|p pre']; [reflexivity|].
      clear. induction (p :: pre') as [|x xs IHx]; [reflexivity|].
      cbn [app]. rewrite last_cons_ne; [exact IHx|destruct xs; discriminate]. }
    destruct suf as [|n' rest].
    - cbn [last] in Htl. rewrite <- Htl, Nat.eqb_refl. exists s1. split; [reflexivity|].
      rewrite El. exact HI1.
    - assert (Hntl : n <> tl).
      { rewrite Htl, last_cons_ne by discriminate. intros Heq.
        rewrite El in Hnd. apply NoDup_remove_2 in Hnd. apply Hnd. apply in_or_app. right.
        rewrite Heq. apply last_in. discriminate. }
      apply Nat.eqb_neq in Hntl. rewrite Hntl. apply Nat.eqb_neq in Hntl.
      apply (IH (pre ++ [n]) s1 f n).
      + rewrite <- app_assoc. exact El.
      + discriminate.
      + cbn [length] in *. lia.
      + exact HI1.
      + cbn [hd].
        rewrite (ptrs_nxt_outside h tl _ _ _ _ n (li_ptrs _ _ HI1) Hntl).
        * rewrite El in Hpath. apply path_app in Hpath. destruct Hpath as [_ Hp2].
          cbn [path hd] in Hp2. destruct Hp2 as [Hp2 _]. exact Hp2.
        * assert (Hn2 : ~ In n pre).
          { intros Hp. apply NoDup_remove_2 in Hndp. apply Hndp. rewrite app_nil_r. exact Hp. }
          unfold Pof. rewrite filter_app. cbn [filter]. destruct (negb (compl h n)).
          -- rewrite removelast_last. intros Hf. apply filter_In in Hf. tauto.
          -- rewrite app_nil_r. intros Hf. apply in_removelast in Hf. apply filter_In in Hf. tauto.
  Qed.
End EARLoop.

Lemma rep_filter h l log :
  rep h l log ->
  map (ent h) (Cof h l) = map Some (filter completed log) /\
  map (ent h) (Pof h l) = map Some (filter pending log).
Proof.
  unfold rep, Cof, Pof, pending. revert log. induction l as [|x l IH]; intros log H.
  - destruct log; [split; reflexivity|discriminate].
  - destruct log as [|e log]; [discriminate|]. cbn [map] in H. inversion H as [[He Hr]].
    destruct (IH log Hr) as [IH1 IH2]. cbn [filter].
    assert (compl h x = completed e) as -> by (unfold compl; now rewrite He).
    destruct (completed e); cbn [negb map]; split; congruence.
Qed.

Lemma lookup_remove_id j i m :
  lookup j (remove_id i m) = if N.eqb i j then None else lookup j m.
Proof.
  unfold remove_id. induction m as [|[k a] m IH]; cbn [filter lookup fst].
  - now destruct (N.eqb i j).
  - destruct (N.eqb k i) eqn:Eki; cbn [negb].
    + apply N.eqb_eq in Eki. subst k. rewrite IH. destruct (N.eqb i j); reflexivity.
    + cbn [lookup]. rewrite IH. destruct (N.eqb k j) eqn:Ekj; [|reflexivity].
      apply N.eqb_eq in Ekj. subst k. apply N.eqb_neq in Eki.
      destruct (N.eqb i j) eqn:Eij; [|reflexivity]. apply N.eqb_eq in Eij. congruence.
Qed.

Lemma lookup_rm_ids js : forall m j,
  lookup j (rm_ids js m) = if existsb (N.eqb j) js then None else lookup j m.
Proof.
  unfold rm_ids. induction js as [|i js IH]; intros m j; cbn [fold_left existsb]; [reflexivity|].
  rewrite IH, lookup_remove_id. rewrite (N.eqb_sym j i).
  destruct (N.eqb i j); cbn [orb]; [now destruct (existsb (N.eqb j) js)|reflexivity].
Qed.

Lemma keys_rm_ids js : forall m, NoDup (map fst m) -> NoDup (map fst (rm_ids js m)).
Proof.
  unfold rm_ids. induction js as [|i js IH]; intros m H; cbn [fold_left]; [assumption|].
  apply IH. unfold remove_id. now apply NoDup_map_filter.
Qed.

Lemma lookup_all_none m : (forall j, lookup j m = None) -> m = [].
Proof.
  destruct m as [|[k a] m]; [reflexivity|]. intros H. specialize (H k). cbn [lookup] in H.
  now rewrite N.eqb_refl in H.
Qed.

Lemma existsb_eid_at h j (cs : list nat) :
  existsb (N.eqb j) (map (eid_at h) cs) = true <-> exists c, In c cs /\ eid_at h c = j.
Proof.
  rewrite existsb_exists. split.
  - intros [x [Hx He]]. apply in_map_iff in Hx. destruct Hx as [c [Hc Hin]].
    apply N.eqb_eq in He. exists c. split; [assumption|congruence].
  - intros [c [Hin He]]. exists j. split; [|apply N.eqb_refl]. apply in_map_iff. eauto.
Qed.

Lemma sim_export_reset st l log :
  RInv st l log ->
  exists st',
    impl_export_reset st = Some (st', OList (map obs_entry (filter completed log))) /\
    RInv st' (Pof (heap st) l) (filter pending log).
Proof.
  intros HI. destruct HI as [Hnd Hpath Htail [Hkeys Hidx] Hrep].
  unfold impl_export_reset. rewrite Htail. set (h := heap st) in *.
  destruct (rep_filter h l log Hrep) as [HC HP].
  destruct l as [|x l'] eqn:El.
  { cbn [last_opt]. assert (index st = []) as Hi0.
    { apply lookup_all_none. intros j. destruct (lookup j (index st)) eqn:E; [|reflexivity].
      apply Hidx in E. destruct E as [[] _]. }
    rewrite Hi0. destruct log; [|apply rep_length in Hrep; discriminate].
    exists st. split; [reflexivity|]. cbn. constructor.
    - constructor.
    - exact I.
    - assumption.
    - split; [rewrite Hi0; constructor|]. intros i a. rewrite Hi0. cbn. split; [discriminate|intros [[] _]].
    - reflexivity. }
  rewrite <- El in *. assert (Hne : l <> []) by (rewrite El; discriminate).
  unfold last_opt. rewrite El. rewrite <- El. set (tl := last l 0).
  assert (Hvalid : forall b, In b l -> b < length h).
  { intros b Hb. apply (rep_valid h l log b Hrep Hb). }
  destruct (ear_loop_ok h (index st) l log Hnd Hpath Hrep l [] (mkEar h (index st) tl None [])
              (S (length h)) tl) as [s [Hloop HLI]].
  - reflexivity.
  - assumption.
  - assert (length l <= length h) by (apply NoDup_length_bound; assumption). lia.
  - apply li_init.
  - cbn [r_heap]. apply path_last; assumption.
  - fold tl in Hloop. rewrite Hloop. destruct HLI as [Hent Hes Hix Hptrs].
    (* the returned list *)
    assert (Hout : map obs_cell (rev (r_es s)) = map obs_entry (filter completed log)).
    { rewrite HC in Hes. rewrite <- (map_map entry_of Some) in Hes. apply map_Some_inj in Hes.
      rewrite <- Hes, map_map. reflexivity. }
    rewrite Hout.
    (* which ids remain in the map *)
    assert (Hlk : forall j a, lookup j (r_index s) = Some a <->
                              (In a (Pof h l) /\ option_map eid (ent h a) = Some j)).
    { intros j a. rewrite Hix, lookup_rm_ids.
      destruct (existsb (N.eqb j) (map (eid_at h) (Cof h l))) eqn:Ex.
      - split; [discriminate|]. intros [Hin Hj]. exfalso.
        apply existsb_eid_at in Ex. destruct Ex as [c [Hc Hcj]].
        unfold Cof in Hc. apply filter_In in Hc. destruct Hc as [Hcl Hcc].
        unfold Pof in Hin. apply filter_In in Hin. destruct Hin as [Hal Hac].
        assert (lookup j (index st) = Some a) as L1 by (apply Hidx; split; assumption).
        assert (lookup j (index st) = Some c) as L2.
        { apply Hidx. split; [assumption|]. unfold eid_at in Hcj.
          destruct (rep_in _ _ _ _ Hrep Hcl) as [e [He _]]. rewrite He in *. cbn. congruence. }
        assert (a = c) by congruence. subst c. rewrite Hcc in Hac. discriminate.
      - rewrite Hidx. split; intros [Hin Hj]; (split; [|assumption]).
        + unfold Pof. apply filter_In. split; [assumption|].
          destruct (compl h a) eqn:Eca; [|reflexivity]. exfalso.
          assert (existsb (N.eqb j) (map (eid_at h) (Cof h l)) = true); [|congruence].
          apply existsb_eid_at. exists a. split; [unfold Cof; apply filter_In; tauto|].
          unfold eid_at. destruct (ent h a); cbn in Hj; congruence.
        + unfold Pof in Hin. apply filter_In in Hin. tauto. }
    destruct (r_index s) as [|p q] eqn:Eidx.
    + (* everything was completed *)
      assert (HP0 : Pof h l = []).
      { destruct (Pof h l) as [|p1 P2] eqn:EP; [reflexivity|]. exfalso.
        assert (In p1 l) as Hp1l.
        { assert (In p1 (Pof h l)) by (rewrite EP; now left). unfold Pof in H. apply filter_In in H. tauto. }
        destruct (rep_in _ _ _ _ Hrep Hp1l) as [e [He _]].
        assert (lookup (eid e) [] = Some p1) as Hbad.
        { apply Hlk. split; [now left|]. rewrite He. reflexivity. }
        discriminate. }
      exists (mkImpl (r_heap s) [] None). split; [reflexivity|].
      rewrite HP0 in *. destruct (filter pending log); [|discriminate].
      constructor; cbn [heap index tail].
      * constructor.
      * exact I.
      * reflexivity.
      * split; [constructor|]. intros i a. cbn. split; [discriminate|intros [[] _]].
      * reflexivity.
    + (* some pending entries remain *)
      destruct (Pof h l) as [|p1 P2] eqn:EP.
      { exfalso. assert (lookup (fst p) (p :: q) = Some (snd p)) as Hbad.
        { destruct p as [k a]. cbn. now rewrite N.eqb_refl. }
        apply Hlk in Hbad. destruct Hbad as [[] _]. }
      set (P := p1 :: P2) in *. assert (HPne : P <> []) by discriminate.
      destruct Hptrs as [Hfirst [Hprev [Hpp Hoth]]]. rewrite Hfirst, Hprev.
      assert (HPl : forall b, In b P -> In b l).
      { intros b Hb. rewrite <- EP in Hb. unfold Pof in Hb. apply filter_In in Hb. tauto. }
      assert (Hlastl : In (last P 0) l) by (apply HPl, last_in; assumption).
      destruct (rep_in _ _ _ _ Hrep Hlastl) as [e [He _]]. rewrite <- Hent in He.
      destruct (ent_some_hget _ _ _ He) as [c [Hc _]].
      destruct (set_next_some _ _ _ (Some p1) Hc) as [h' Hs]. rewrite Hs.
      destruct (set_next_spec _ _ _ _ Hs) as [_ [Hn [_ Hent']]].
      exists (mkImpl h' (p :: q) (Some (last P 0))). split; [reflexivity|].
      assert (HndP : NoDup P) by (rewrite <- EP; unfold Pof; now apply NoDup_filter).
      constructor; cbn [heap index tail].
      * exact HndP.
      * rewrite (app_removelast_last 0 HPne) at 1.
        change (hd 0 P) with p1.
        eapply path_snoc; [exact Hpp|exact Hn|].
        intros y Hy. apply (set_next_nxt_other _ _ _ _ _ Hs).
        intros ->. revert Hy. now apply NoDup_last_not_in_removelast.
      * reflexivity.
      * split.
        -- rewrite Hix. now apply keys_rm_ids.
        -- intros j a. rewrite Hlk. rewrite Hent', Hent. reflexivity.
      * unfold rep. rewrite <- HP. apply map_ext. intros b. rewrite Hent', Hent. reflexivity.
Qed.

(* ---------------- every operation, every history ---------------- *)

Lemma sim_step t st l log o :
  RInv st l log ->
  exists st' l',
    impl_step t st o = Some (st', snd (spec_step t log o)) /\
    RInv st' l' (fst (spec_step t log o)).
Proof.
  intros HI. destruct o as [i|i r| | |]; cbn [impl_step].
  - apply (sim_record_request t st l log i HI).
  - destruct (sim_record_response st l log i r HI) as [st' [H1 H2]].
    exists st', l. split; assumption.
  - exists st, l. split; [apply (sim_export st l log HI)|assumption].
  - destruct (sim_export_reset st l log HI) as [st' [H1 H2]].
    exists st', (Pof (heap st) l). split; assumption.
  - destruct (sim_reset st l log HI) as [st' [H1 H2]].
    exists st', []. split; assumption.
Qed.

Lemma refines_run ops : forall t st l log,
  RInv st l log ->
  exists st', impl_run t st ops = Some (st', snd (spec_run t log ops)).
Proof.
  induction ops as [|o ops IH]; intros t st l log HI.
  - exists st. reflexivity.
  - rewrite spec_run_cons. cbn [impl_run snd].
    destruct (sim_step t st l log o HI) as [st1 [l1 [Hs HI1]]]. rewrite Hs.
    destruct (IH (S t) st1 l1 _ HI1) as [st2 Hr]. rewrite Hr.
    exists st2. reflexivity.
Qed.

(* The transcription of har.Logger never dereferences nil / runs out of
   fuel, and returns the abstract log's outputs, for every history. *)
Theorem impl_refines_spec ops : impl_outputs ops = Some (spec_outputs ops).
Proof.
  unfold impl_outputs, spec_outputs.
  destruct (refines_run ops 0 impl_init [] [] inv_init_r) as [st' H]. now rewrite H.
Qed.

Corollary impl_agrees_always ops : impl_agrees ops = true.
Proof.
  unfold impl_agrees. rewrite impl_refines_spec.
  apply (list_eqb_spec out_eqb out_eqb_spec). reflexivity.
Qed.
