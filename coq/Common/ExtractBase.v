(* Anchor making every extraction contain nat / positive / N / Z and the
   few conversions ocaml/common.ml relies on.  Definitions only. *)
From Coq Require Import NArith ZArith Ascii String List.

Definition base_anchor :=
  (N.of_nat, N.to_nat, Z.of_N, Z.to_N, Z.of_nat, Z.to_nat,
   N.add, N.mul, Z.add, Z.mul, Z.opp, N.eqb, Z.eqb, Nat.eqb,
   ascii_of_N, N_of_ascii, @List.length ascii).
