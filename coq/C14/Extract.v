From Coq Require Import ExtrOcamlBasic ExtrOcamlString.
From Martian.Common Require Import ExtractBase.
From Martian.C14 Require Import Model.
Extraction Language OCaml.
Extraction "model.ml" base_anchor of_lines add_raw stack_req stack_res
  c14_req_clauses c14_res_clauses c14_req_ok c14_res_ok first_false
  req_out_eqb res_out_eqb hdr_eqb without has_close transport_res_view rfc_covered is_hopb names_self
  classify bad_framing keys values K_VIA K_XFF K_CL K_TE K_CONNECTION.
