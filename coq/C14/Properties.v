(* C14 — property theorems.  Nothing but statements closed by [exact] and
   Print Assumptions (+ closed Examples), so a weakened statement is visible
   in review.  [stack_req] / [stack_res] run the modifiers in the order the
   translator read from httpspec.NewStack (Gen_Stack) and strip the names it
   read from header/hopbyhop_modifier.go (Gen_HopByHop).

   Vocabulary (Model.v): h is the received header map (of_lines of the header
   lines); is_hop h k: k is in the fixed list or named by a Connection token
   of h; classify e h = Forwarded: not flagged for framing and no loop seen;
   fresh e k: what the proxy itself generates for k (its own Via entry, the
   client address, scheme, host, URL; nothing for any other name). *)
From Coq Require Import List Ascii String NArith Bool.
From Coq Require Import Arith.
From Martian.C14 Require Import Gen_HopByHop Gen_Stack Gen_Shared Model Proofs_Base Proofs_Stack Proofs_Spec
  Proofs_Conc Proofs_Audit Proofs_Chain Proofs_Framing Proofs_Tie.
Import ListNotations.

(* No hop-by-hop header of the received message survives: after the stack a
   hop-by-hop name carries only what the proxy generated itself (requests), or
   nothing (responses). *)
Theorem C14_no_hop_by_hop_survives :
  (forall e h, classify e h = Forwarded ->
     forall k, is_hop h k -> values (o_hdr (stack_req e h)) k = fresh e k) /\
  (forall h st k, is_hop h k -> values (s_hdr (stack_res false h st)) k = []).
Proof. exact s_no_hop. Qed.
Print Assumptions C14_no_hop_by_hop_survives.

(* "hop-by-hop" covers the specification's fixed list (checked against the
   list read from the Go source) and every Connection-listed token in any
   case and spacing. *)
Theorem C14_hop_by_hop_is_fixed_list_and_connection_tokens_any_case_and_spacing :
  (forall h k, In k rfc_hop_by_hop -> is_hop h k) /\
  (forall h v t n, In v (values h K_CONNECTION) -> In t (split_on comma v) ->
     forallb is_token_char n = true -> lower n = lower (trim t) ->
     is_hop h (canonical_key n)).
Proof. exact s_hop_names. Qed.
Print Assumptions C14_hop_by_hop_is_fixed_list_and_connection_tokens_any_case_and_spacing.

(* Every other header is untouched (Via, X-Forwarded-* and Content-Length
   have their own clauses; Content-Length is normalised: dropped beside a
   Transfer-Encoding, else its one agreed value). *)
Theorem C14_others_untouched :
  (forall e h, classify e h = Forwarded ->
     forall k, ~ is_hop h k -> ~ In k specials ->
     values (o_hdr (stack_req e h)) k = values h k) /\
  (forall e h, classify e h = Forwarded -> ~ is_hop h K_CL ->
     values (o_hdr (stack_req e h)) K_CL = cl_expected h) /\
  (forall h st k, ~ is_hop h k -> values (s_hdr (stack_res false h st)) k = values h k) /\
  (forall h st, s_status (stack_res false h st) = st /\ s_err (stack_res false h st) = false).
Proof. exact s_others. Qed.
Print Assumptions C14_others_untouched.

(* Each forwarded request carries one Via line: all received Via lines, in
   order, then this proxy's entry; exactly one list element names this proxy. *)
Theorem C14_via_appended_once :
  (forall e h, classify e h = Forwarded -> ~ is_hop h K_VIA ->
     values (o_hdr (stack_req e h)) K_VIA = [append_to (joined h K_VIA) (own_via e)]) /\
  (forall e h, own_entry_ok e = true -> classify e h = Forwarded -> ~ is_hop h K_VIA ->
     exists v, values (o_hdr (stack_req e h)) K_VIA = [v] /\ count_self (e_self e) v = 1).
Proof. exact s_via. Qed.
Print Assumptions C14_via_appended_once.

Theorem C14_xff_appended : forall e h,
  classify e h = Forwarded -> ~ is_hop h K_XFF ->
  values (o_hdr (stack_req e h)) K_XFF = [append_to (joined h K_XFF) (e_client e)].
Proof. exact t_xff. Qed.
Print Assumptions C14_xff_appended.

Theorem C14_xfwd_preserved : forall e h,
  classify e h = Forwarded ->
  forall k d, In (k, d) [(K_XFP, e_scheme e); (K_XFH, e_host e); (K_XFU, e_url e)] -> ~ is_hop h k ->
  values (o_hdr (stack_req e h)) k = if is_nil (joined h k) then [d] else values h k.
Proof. exact t_xfwd. Qed.
Print Assumptions C14_xfwd_preserved.

(* What must not happen to a request that is neither flagged nor looping: no
   error, the round trip is not skipped, the inner (user) group runs. *)
Theorem C14_forwarded_requests_pass : forall e h,
  classify e h = Forwarded ->
  o_err (stack_req e h) = None /\ o_skip (stack_req e h) = false /\ o_inner (stack_req e h) = true.
Proof. exact t_fwd_flags. Qed.
Print Assumptions C14_forwarded_requests_pass.

(* Loop: at full strength ("any received Via naming this instance") the
   clause is REFUTED by a request that names Via in Connection (finding K1);
   it holds under exactly that guard. *)
Theorem C14_loop_detected_skip_and_400_refuted : exists e h,
  bad_framing h = false /\ names_self e h = true /\
  o_err (stack_req e h) = None /\ o_skip (stack_req e h) = false.
Proof. exact s_loop_refuted. Qed.
Print Assumptions C14_loop_detected_skip_and_400_refuted.

Theorem C14_loop_detected_skip_and_400_partial : forall e h,
  ~ is_hop h K_VIA -> bad_framing h = false -> names_self e h = true ->
  (o_err (stack_req e h) = Some ELoop /\ o_skip (stack_req e h) = true /\ o_inner (stack_req e h) = false) /\
  (forall rh st, s_status (stack_res true rh st) = 400%N /\ s_err (stack_res true rh st) = true).
Proof. exact s_loop_partial. Qed.
Print Assumptions C14_loop_detected_skip_and_400_partial.

Theorem C14_no_spurious_loop : forall e h,
  (o_err (stack_req e h) = Some ELoop \/ o_skip (stack_req e h) = true) -> names_self e h = true.
Proof. exact s_no_false_loop. Qed.
Print Assumptions C14_no_spurious_loop.

(* Bad framing is flagged, only bad framing is, and "bad framing" contains
   what the property names: two different Content-Length values, or a
   Transfer-Encoding whose last element is not chunked. *)
Theorem C14_bad_framing_flagged :
  (forall e h, bad_framing h = true ->
     o_err (stack_req e h) = Some EFraming /\ o_skip (stack_req e h) = false /\ o_inner (stack_req e h) = false) /\
  (forall e h, o_err (stack_req e h) = Some EFraming -> bad_framing h = true) /\
  (forall h a b, In a (map trim (cl_elems h)) -> In b (map trim (cl_elems h)) ->
     a <> [] -> b <> [] -> a <> b -> bad_framing h = true) /\
  (forall h, values h K_TE <> [] ->
     trim (last (split_on comma (last (values h K_TE) [])) []) <> CHUNKED -> bad_framing h = true).
Proof. exact s_bad_framing. Qed.
Print Assumptions C14_bad_framing_flagged.

(* The executable oracles run on the real implementation's outputs are the
   conjunction of the clause predicates above. *)
Theorem C14_oracle_is_the_property :
  (forall e h o, c14_req_ok e h o = true <-> Req_spec e h o) /\
  (forall loop h st o, c14_res_ok loop h st o = true <-> Res_spec loop h st o) /\
  (forall e h o, first_false (c14_req_clauses e h o) = None <-> Req_spec e h o) /\
  (forall loop h st o, first_false (c14_res_clauses loop h st o) = None <-> Res_spec loop h st o).
Proof. exact s_oracle. Qed.
Print Assumptions C14_oracle_is_the_property.

Theorem C14_model_passes_oracle :
  (forall e h, ~ is_hop h K_VIA -> c14_req_ok e h (stack_req e h) = true) /\
  (forall loop h st, c14_res_ok loop h st (stack_res loop h st) = true).
Proof. exact s_model_passes_oracle. Qed.
Print Assumptions C14_model_passes_oracle.

(* The tie: order of NewStack and coverage of the fixed list, from the Gen files. *)
Theorem C14_source_order_is_the_proved_order :
  req_order = [MFraming; MHopByHop; MForwarded; MVia; MInner] /\
  res_order = [MInner; MVia; MHopByHop] /\ rfc_covered = true.
Proof. exact (conj gen_req_order (conj gen_res_order gen_hop_list_covers_rfc)). Qed.
Print Assumptions C14_source_order_is_the_proved_order.

(* ---------------- audit round ---------------- *)

(* One stack instance serves all connections.  ASSUMPTION, stated and tied:
   a modifier call touches only the message it is given (translator facts
   [shared_state_free]: no modifier fields, the hop-by-hop list is a literal
   that is only ranged over, no writes to receiver fields or package
   variables).  Then, for EVERY schedule interleaving the modifier calls of
   any number of messages, a message that has finished has exactly the
   sequential result, and it has finished once it was scheduled more often
   than there are modifiers: the output does not depend on any other message. *)
Theorem C14_output_independent_of_other_messages :
  shared_state_free = true /\
  (forall envs hs sched i,
     let final := sys_run mstate (fun j => mstep (envs j)) sched (req_sys envs hs) in
     (forall r, m_res (final i) = Some r -> r = stack_req (envs i) (hs i)) /\
     (List.length req_order < count_occ Nat.eq_dec sched i ->
      m_res (final i) = Some (stack_req (envs i) (hs i)))) /\
  (forall loops hs sts sched i,
     let final := sys_run rstate (fun j => rstep (loops j)) sched (res_sys hs sts) in
     (forall r, r_res (final i) = Some r -> r = stack_res (loops i) (hs i) (sts i)) /\
     (List.length res_order < count_occ Nat.eq_dec sched i ->
      r_res (final i) = Some (stack_res (loops i) (hs i) (sts i)))).
Proof. exact s_schedule_independent. Qed.
Print Assumptions C14_output_independent_of_other_messages.

(* Every verdict: `PROPFAIL <clause>` (the driver prints the first false entry of
   c14_req_clauses / c14_res_clauses; response clauses get the suffix _response)
   names a clause predicate that is FALSE of the observation; no PROPFAIL means
   every clause predicate holds of it. *)
Theorem C14_propfail_is_a_false_clause_and_ok_is_every_clause :
  (forall e h o c, first_false (c14_req_clauses e h o) = Some c ->
     exists P : Prop, In (c, P) (req_clause_props e h o) /\ ~ P) /\
  (forall loop h st o c, first_false (c14_res_clauses loop h st o) = Some c ->
     exists P : Prop, In (c, P) (res_clause_props loop h st o) /\ ~ P) /\
  (forall e h o, first_false (c14_req_clauses e h o) = None ->
     Forall (fun np => snd np) (req_clause_props e h o)) /\
  (forall loop h st o, first_false (c14_res_clauses loop h st o) = None ->
     Forall (fun np => snd np) (res_clause_props loop h st o)).
Proof. exact s_propfail_sound. Qed.
Print Assumptions C14_propfail_is_a_false_clause_and_ok_is_every_clause.

(* The remaining functions the driver calls: model-vs-observation comparisons are
   lookup equalities, the proxy-mode projection removes exactly the listed names,
   rfc_covered and is_hopb decide what their names say. *)
Theorem C14_driver_comparisons_decide_what_they_say :
  (forall a b, req_out_eqb a b = true <->
     (forall k, values (o_hdr a) k = values (o_hdr b) k) /\ o_err a = o_err b /\
     o_skip a = o_skip b /\ o_inner a = o_inner b) /\
  (forall a b, res_out_eqb a b = true <->
     (forall k, values (s_hdr a) k = values (s_hdr b) k) /\ s_status a = s_status b /\
     s_err a = s_err b /\ s_inner a = s_inner b) /\
  (forall a b, hdr_eqb a b = true <-> (forall k, values a k = values b k)) /\
  (forall h ks k, values (without h ks) k = if mem k ks then [] else values h k) /\
  (rfc_covered = true <-> (forall k, In k rfc_hop_by_hop -> In k fixed_hop)) /\
  (forall h k, is_hopb h k = true <-> is_hop h k).
Proof. exact s_driver_comparisons. Qed.
Print Assumptions C14_driver_comparisons_decide_what_they_say.

(* Refinement: the statement-level transcription (fifo loop over the modifiers
   of Gen_Stack) equals this closed form for EVERY input, in all three classes;
   for forwarded requests every key has the value [expect e h k]. *)
Theorem C14_stack_closed_form : forall e h,
  stack_req e h =
  (if bad_framing h then mkReqOut (after_framing h) (Some EFraming) false false
   else if names_self e h && negb (is_hopb h K_VIA)
        then mkReqOut (after_fwd e h) (Some ELoop) true false
        else mkReqOut (fst (mod_via e (after_fwd e h))) None false true) /\
  (classify e h = Forwarded -> forall k, values (o_hdr (stack_req e h)) k = expect e h k) /\
  (forall loop rh st, stack_res loop rh st =
     if loop then mkResOut rh 400 true true else mkResOut (mod_hbh rh) st false true).
Proof. exact s_closed_form. Qed.
Print Assumptions C14_stack_closed_form.

(* Totalisation audit: the defaults in Model.v ([last _ []] twice, the
   unreachable branch of split_on, truncated N subtraction in to_upper,
   second_field = None, request-only modifiers inside run_res) are never what
   decides a verdict. *)
Theorem C14_totalisation_defaults_never_decide :
  (forall c s d, last (split_on c s) d = last (split_on c s) []) /\
  (forall h, te_bad h = true -> values h K_TE <> []) /\
  (forall tes d, tes <> [] ->
     te_last_ok tes = beqb (trim (last (split_on comma (last tes d)) d)) CHUNKED) /\
  (forall h, values h K_TE = [] -> bad_framing h = cl_conflict h) /\
  (forall c s, split_on c s <> []) /\
  (forall c, is_lower c = true -> (32 <= code c)%N) /\
  (forall self x, entry_names self x = true -> exists f, second_field (trim x) = Some f /\ f = self) /\
  (forall m, In m res_order -> m <> MForwarded /\ m <> MFraming).
Proof. exact s_totalisation. Qed.
Print Assumptions C14_totalisation_defaults_never_decide.

(* ---------------- the final transfer-coding is a token ---------------- *)

(* "Transfer-Encoding not ending in chunked": the flag is decided by the LAST
   element of the whole Transfer-Encoding list (all lines, all comma elements),
   trimmed, compared AS A WHOLE with the token chunked (case-sensitively, as the
   code does).  Nothing before the last element matters; an element that merely
   contains, starts with or ends in those letters (x-chunked, unchunked,
   chunkedx, chunked;q=1, CHUNKED, an empty element after a trailing comma) is
   flagged whatever precedes it; a flagged request gets the framing error. *)
Theorem C14_te_flag_is_token_equality_on_the_last_list_element :
  (forall h, te_bad h = true <->
     values h K_TE <> [] /\ trim (last (te_elems (values h K_TE)) []) <> CHUNKED) /\
  (forall tes tes', tes <> [] -> tes' <> [] ->
     trim (last (te_elems tes) []) = trim (last (te_elems tes') []) ->
     te_last_ok tes = te_last_ok tes') /\
  (forall h lines rest elem, ~ In comma elem ->
     (values h K_TE = lines ++ [rest ++ comma :: elem] \/ values h K_TE = lines ++ [elem]) ->
     (te_bad h = true <-> trim elem <> CHUNKED)) /\
  (forall e h, te_bad h = true -> o_err (stack_req e h) = Some EFraming).
Proof. exact s_te_token. Qed.
Print Assumptions C14_te_flag_is_token_equality_on_the_last_list_element.

(* ---------------- instance identity, chains of proxies ---------------- *)

(* "This proxy instance" is the whole pseudonym requestedBy-boundary: instances
   with the same name and different boundaries have different pseudonyms, the
   entry one of them stamps does not name the other, and names itself.  The
   boundary is random per instance; that randomBoundary draws a positive number
   of bytes (10, printed as 20 hex digits) is read from the source by the
   translator; that the draws differ is checked on real instances every run. *)
Theorem C14_instance_identity_is_name_and_boundary :
  (forall name b b', instance_tag name b = instance_tag name b' <-> b = b') /\
  (forall eA eB, own_entry_ok eA = true -> e_self eA <> e_self eB ->
     entry_names (e_self eB) (own_via eA) = false) /\
  (forall e, own_entry_ok e = true -> entry_names (e_self e) (own_via e) = true) /\
  (0 < boundary_random_bytes /\ 2 * boundary_random_bytes = 20).
Proof. exact s_identity. Qed.
Print Assumptions C14_instance_identity_is_name_and_boundary.

(* A request handed through any number of instances with pairwise different
   pseudonyms (same name allowed), none of which the received Via list names:
   no hop reports a loop or any error, no round trip is skipped, and after the
   last hop (hence, the hypotheses being prefix-closed, after every hop) the
   Via list is the received one followed by one entry per hop, in hop order. *)
Theorem C14_chain_of_distinct_instances_no_false_loop_one_entry_per_hop : forall es h,
  Forall (fun e => own_entry_ok e = true) es /\ NoDup (map e_self es) /\
  bad_framing h = false /\ ~ is_hop h K_VIA /\
  (forall e, In e es -> names_tag (e_self e) h = false) ->
  Forall (fun o => o_err o = None /\ o_skip o = false /\ o_inner o = true) (chain es h) /\
  List.length (chain es h) = List.length es /\
  (forall d, es <> [] ->
     joined (o_hdr (last (chain es h) d)) K_VIA =
     fold_left (fun v e => append_to v (own_via e)) es (joined h K_VIA)).
Proof. exact s_chain_distinct. Qed.
Print Assumptions C14_chain_of_distinct_instances_no_false_loop_one_entry_per_hop.

(* A true loop through other instances (A -> B -> ... -> A): the hop whose
   pseudonym was already met refuses: error, round trip skipped, inner group not run. *)
Theorem C14_loop_through_other_instances_is_refused : forall es h e0 e',
  Forall (fun e => own_entry_ok e = true) es /\ NoDup (map e_self es) /\
  bad_framing h = false /\ ~ is_hop h K_VIA /\
  (forall e, In e es -> names_tag (e_self e) h = false) ->
  In e0 es -> e_self e' = e_self e0 ->
  exists outs o, chain (es ++ [e']) h = outs ++ [o] /\
    Forall (fun o => o_err o = None /\ o_skip o = false /\ o_inner o = true) outs /\
    List.length outs = List.length es /\
    o_err o = Some ELoop /\ o_skip o = true /\ o_inner o = false.
Proof. exact s_chain_loop. Qed.
Print Assumptions C14_loop_through_other_instances_is_refused.

(* ---------------- non-vacuity ---------------- *)

Definition ex_env : env :=
  mkEnv (B "martian-SELF") (B "1.1") (B "10.0.0.1") (B "http") (B "example.com") (B "http://example.com/x").

(* forwarded: oddly cased Connection list naming a present header, two Via
   lines, two X-Forwarded-For lines, preserved proto, agreed Content-Length *)
Definition ex_fwd : headers :=
  of_lines [(B "cOnNeCtIoN", B " keep-alive ,X-hop,  CLOSE"); (B "x-HOP", B "1"); (B "Keep-Alive", B "5");
            (B "Via", B "1.0 a"); (B "via", B "1.1 b (c)"); (B "X-Forwarded-For", B "10.9.9.9");
            (B "x-forwarded-for", B "10.8.8.8"); (B "X-Forwarded-Proto", B "https");
            (B "Content-Length", B "5, 5"); (B "Accept", B "*/*")].

Example C14_example_forwarded :
  classify ex_env ex_fwd = Forwarded /\ own_entry_ok ex_env = true /\
  is_hopb ex_fwd (B "X-Hop") = true /\ is_hopb ex_fwd K_VIA = false /\
  stack_req ex_env ex_fwd =
  mkReqOut [(B "Via", [B "1.0 a, 1.1 b (c), 1.1 martian-SELF"]);
            (B "X-Forwarded-For", [B "10.9.9.9, 10.8.8.8, 10.0.0.1"]);
            (B "X-Forwarded-Url", [B "http://example.com/x"]);
            (B "X-Forwarded-Host", [B "example.com"]);
            (B "Content-Length", [B "5"]);
            (B "X-Forwarded-Proto", [B "https"]);
            (B "Accept", [B "*/*"])] None false true.
Proof. vm_compute. repeat split; reflexivity. Qed.

(* loop on a second Via line: skipped, 400 *)
Definition ex_loop : headers :=
  of_lines [(B "Via", B "1.0 a"); (B "Via", B "1.1 b,  1.1 " ++ ["009"%char] ++ B " martian-SELF (x)")].
Example C14_example_loop :
  ~ is_hop ex_loop K_VIA /\ bad_framing ex_loop = false /\ names_self ex_env ex_loop = true /\
  o_err (stack_req ex_env ex_loop) = Some ELoop /\ o_skip (stack_req ex_env ex_loop) = true /\
  s_status (stack_res true [] 200) = 400%N.
Proof.
  split; [intro H; apply is_hopb_iff in H; vm_compute in H; discriminate|].
  vm_compute. repeat split; reflexivity.
Qed.

(* framing: Transfer-Encoding not ending in chunked; conflicting Content-Length *)
Example C14_example_framing :
  bad_framing (of_lines [(B "Transfer-Encoding", B "gzip")]) = true /\
  bad_framing (of_lines [(B "Content-Length", B "5"); (B "Content-Length", B "5, 6")]) = true /\
  bad_framing (of_lines [(B "Transfer-Encoding", B "gzip, chunked"); (B "Content-Length", B "5")]) = false /\
  o_err (stack_req ex_env (of_lines [(B "Transfer-Encoding", B "gzip")])) = Some EFraming.
Proof. vm_compute. repeat split; reflexivity. Qed.

Example C14_example_response :
  stack_res false (of_lines [(B "Connection", B "X-A , keep-alive"); (B "x-a", B "1"); (B "Upgrade", B "h2c");
                             (B "Etag", B "q")]) 200
  = mkResOut [(B "Etag", [B "q"])] 200 false true.
Proof. vm_compute. reflexivity. Qed.

(* hypotheses of the any-case clause: token " x-HOP " of a Connection line, header written "X-hop" *)
Example C14_example_connection_token_any_case :
  In (B " keep-alive ,X-hop,  CLOSE") (values ex_fwd K_CONNECTION) /\
  In (B "X-hop") (split_on comma (B " keep-alive ,X-hop,  CLOSE")) /\
  forallb is_token_char (B "x-HOP") = true /\ lower (B "x-HOP") = lower (trim (B "X-hop")) /\
  canonical_key (B "x-HOP") = B "X-Hop" /\ values ex_fwd (B "X-Hop") = [B "1"] /\
  values (o_hdr (stack_req ex_env ex_fwd)) (B "X-Hop") = [].
Proof. vm_compute. repeat split; try reflexivity. left. reflexivity. right. left. reflexivity. Qed.

(* hypotheses of the Content-Length clause of C14_bad_framing_flagged *)
Example C14_example_content_length_conflict :
  let h := of_lines [(B "Content-Length", B "5"); (B "Content-Length", B " 5 ,6")] in
  In (B "5") (map trim (cl_elems h)) /\ In (B "6") (map trim (cl_elems h)) /\ B "5" <> B "6".
Proof. vm_compute. repeat split; try discriminate; auto. Qed.

(* two messages through one stack, steps interleaved 0,1,1,0,...: both finish with their own results *)
Definition ex_envs (i : nat) : env := ex_env.
Definition ex_hs (i : nat) : headers :=
  match i with
  | 0 => of_lines [(B "Connection", B "X-A"); (B "X-A", B "hop"); (B "X-B", B "end-to-end")]
  | _ => of_lines [(B "Connection", B "X-B"); (B "X-B", B "hop"); (B "X-A", B "end-to-end")]
  end.
Definition ex_sched : list nat := [0; 1; 1; 0; 0; 1; 0; 1; 1; 0; 1; 0].
Example C14_example_interleaving :
  List.length req_order < count_occ Nat.eq_dec ex_sched 0 /\
  List.length req_order < count_occ Nat.eq_dec ex_sched 1 /\
  m_res (sys_run mstate (fun j => mstep (ex_envs j)) ex_sched (req_sys ex_envs ex_hs) 0)
    = Some (stack_req ex_env (ex_hs 0)) /\
  values (o_hdr (stack_req ex_env (ex_hs 0))) (B "X-A") = [] /\
  values (o_hdr (stack_req ex_env (ex_hs 0))) (B "X-B") = [B "end-to-end"] /\
  values (o_hdr (stack_req ex_env (ex_hs 1))) (B "X-A") = [B "end-to-end"].
Proof. vm_compute. repeat split; try reflexivity; repeat constructor. Qed.

(* a PROPFAIL: the observation keeps a Connection-listed header *)
Example C14_example_propfail :
  let h := of_lines [(B "Connection", B "X-A"); (B "X-A", B "hop")] in
  let good := stack_req ex_env h in
  let bad := mkReqOut ((B "X-A", [B "hop"]) :: o_hdr good) None false true in
  first_false (c14_req_clauses ex_env h good) = None /\
  first_false (c14_req_clauses ex_env h bad) = Some "no_hop_by_hop_survives"%string.
Proof. vm_compute. split; reflexivity. Qed.

(* three instances named martian with different boundaries; A -> B -> C forwards, A -> B -> A is refused by A *)
Definition ex_inst (b : string) : env :=
  mkEnv (instance_tag (B "martian") (B b)) (B "1.1") (B "10.0.0.1") (B "http") (B "example.com") (B "http://example.com/x").
Definition ex_A := ex_inst "00112233445566778899".
Definition ex_B := ex_inst "aabbccddeeff00112233".
Definition ex_C := ex_inst "0123456789abcdef0123".
Definition ex_chain_in : headers := of_lines [(B "Via", B "1.0 front"); (B "Accept", B "*/*")].

Example C14_example_chain :
  Forall (fun e => own_entry_ok e = true) [ex_A; ex_B; ex_C] /\
  bad_framing ex_chain_in = false /\ is_hopb ex_chain_in K_VIA = false /\
  forallb (fun e => negb (names_tag (e_self e) ex_chain_in)) [ex_A; ex_B; ex_C] = true /\
  forallb boundary_wf [B "00112233445566778899"; B "aabbccddeeff00112233"; B "0123456789abcdef0123"] = true /\
  map o_err (chain [ex_A; ex_B; ex_C] ex_chain_in) = [None; None; None] /\
  values (o_hdr (last (chain [ex_A; ex_B; ex_C] ex_chain_in) (mkReqOut [] None false false))) K_VIA =
    [B "1.0 front, 1.1 martian-00112233445566778899, 1.1 martian-aabbccddeeff00112233, 1.1 martian-0123456789abcdef0123"] /\
  map o_err (chain [ex_A; ex_B; ex_A] ex_chain_in) = [None; None; Some ELoop].
Proof. vm_compute. repeat split; try reflexivity; repeat constructor. Qed.

(* near-miss final codings are flagged in single-line, comma-list and multi-line forms; the token itself,
   with optional white space around it, is not *)
Example C14_example_te_near_misses :
  forallb (fun tes => bad_framing (of_lines (map (fun v => (B "Transfer-Encoding", B v)) tes)))
    [ ["gzip, x-chunked"]; ["unchunked"]; ["chunked"; "notchunked"]; ["gzip;q=chunked"]; ["chunkedx"];
      ["chunked;q=1"]; ["CHUNKED"]; ["chunked,"]; ["chunked, "]; ["gzip"; "chunked, x-chunked"];
      ["chunked chunked"]; [""] ]%string = true /\
  forallb (fun tes => negb (bad_framing (of_lines (map (fun v => (B "Transfer-Encoding", B v)) tes))))
    [ ["chunked"]; [" chunked "]; ["gzip , chunked"]; ["x-chunked"; "gzip,chunked"]; ["unchunked, chunked"] ]%string = true /\
  ~ In comma (B " x-chunked") /\ trim (B " x-chunked") <> CHUNKED.
Proof.
  split; [vm_compute; reflexivity|]. split; [vm_compute; reflexivity|].
  split; [vm_compute; intuition discriminate | vm_compute; discriminate].
Qed.
