(* C14 — the Transfer-Encoding flag is decided by the LAST element of the whole
   Transfer-Encoding list, compared as a whole token with "chunked" (after
   trimming white space): nothing that merely contains, starts with or ends in
   those letters passes, and nothing before the last element matters. *)
From Coq Require Import List Ascii String NArith Bool Arith Lia.
From Martian.C14 Require Import Gen_HopByHop Gen_Stack Model Proofs_Base Proofs_Stack Proofs_Spec Proofs_Audit Proofs_Chain.
Import ListNotations.

(* all elements of the Transfer-Encoding list, over all lines *)
Definition te_elems (tes : list bytes) : list bytes := flat_map (split_on comma) tes.

Lemma last_app_nonempty : forall A (x y : list A) d, y <> [] -> last (x ++ y) d = last y d.
Proof.
  induction x as [|a x IH]; intros y d H; [reflexivity|].
  simpl. destruct (x ++ y) eqn:E.
  - destruct x; simpl in E; [congruence | discriminate].
  - rewrite <- E. apply IH. exact H.
Qed.

Lemma last_te_elems : forall tes d, tes <> [] ->
  last (te_elems tes) d = last (split_on comma (last tes [])) d.
Proof.
  induction tes as [|a r IH]; intros d H; [congruence|].
  destruct r as [|b r'].
  - simpl. rewrite app_nil_r. reflexivity.
  - change (te_elems (a :: b :: r')) with (split_on comma a ++ te_elems (b :: r')).
    rewrite last_app_nonempty.
    + rewrite IH by discriminate. reflexivity.
    + unfold te_elems. simpl. intro E. apply app_eq_nil in E as [E _].
      eapply split_on_nonempty. exact E.
Qed.

(* the model's test IS token equality on the last element of the whole list *)
Lemma te_last_ok_token : forall tes, tes <> [] ->
  te_last_ok tes = beqb (trim (last (te_elems tes) [])) CHUNKED.
Proof. intros tes H. unfold te_last_ok. rewrite last_te_elems by exact H. reflexivity. Qed.

Lemma te_bad_iff : forall h, te_bad h = true <->
  values h K_TE <> [] /\ trim (last (te_elems (values h K_TE)) []) <> CHUNKED.
Proof.
  intros h. unfold te_bad. rewrite andb_true_iff, !negb_true_iff. split.
  - intros [Hn Hl]. assert (Hne : values h K_TE <> []) by (destruct (values h K_TE); [discriminate | discriminate]).
    split; [exact Hne|]. rewrite te_last_ok_token in Hl by exact Hne. apply beqb_neq. exact Hl.
  - intros [Hne Hl]. split.
    + destruct (values h K_TE); [congruence | reflexivity].
    + rewrite te_last_ok_token by exact Hne. apply beqb_neq. exact Hl.
Qed.

(* only the last element matters *)
Lemma te_flag_depends_on_last_element_only : forall tes tes',
  tes <> [] -> tes' <> [] ->
  trim (last (te_elems tes) []) = trim (last (te_elems tes') []) ->
  te_last_ok tes = te_last_ok tes'.
Proof. intros tes tes' H H' E. rewrite !te_last_ok_token by assumption. rewrite E. reflexivity. Qed.

(* shape lemmas: the last element of "... , elem" and of a line that is one element *)
Lemma te_last_of_list_line : forall lines rest elem, ~ In comma elem ->
  last (te_elems (lines ++ [rest ++ comma :: elem])) [] = elem.
Proof.
  intros lines rest elem Hn. rewrite last_te_elems by (destruct lines; discriminate).
  rewrite last_app_nonempty by discriminate. simpl.
  rewrite split_on_app, (no_sep_split _ _ Hn). rewrite last_app_nonempty by discriminate. reflexivity.
Qed.

Lemma te_last_of_single_line : forall lines elem, ~ In comma elem ->
  last (te_elems (lines ++ [elem])) [] = elem.
Proof.
  intros lines elem Hn. rewrite last_te_elems by (destruct lines; discriminate).
  rewrite last_app_nonempty by discriminate. simpl. rewrite (no_sep_split _ _ Hn). reflexivity.
Qed.

(* whatever precedes it, a final element that is not the token chunked is flagged; one that is, is not *)
Lemma te_final_token_decides : forall h lines rest elem,
  ~ In comma elem ->
  (values h K_TE = lines ++ [rest ++ comma :: elem] \/ values h K_TE = lines ++ [elem]) ->
  (te_bad h = true <-> trim elem <> CHUNKED).
Proof.
  intros h lines rest elem Hn Hv. rewrite te_bad_iff.
  destruct Hv as [Hv|Hv]; rewrite Hv.
  - rewrite te_last_of_list_line by exact Hn. split; [tauto|]. intro H. split; [destruct lines; discriminate | exact H].
  - rewrite te_last_of_single_line by exact Hn. split; [tauto|]. intro H. split; [destruct lines; discriminate | exact H].
Qed.
