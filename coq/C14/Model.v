(* C14 — the spec-compliance stack (httpspec.NewStack) strips hop-by-hop
   headers, stamps Via, sets X-Forwarded-*, stops loops, flags bad framing.

   Definitions only.  The model is a transcription of
     header/hopbyhop_modifier.go  removeHopByHopHeaders
     header/forwarded_modifier.go NewForwardedModifier   (REPAIRED: fixes/C14-2)
     header/framing_modifier.go   NewBadFramingModifier
     header/via_modifier.go       ModifyRequest/ModifyResponse/hasLoop (REPAIRED: fixes/C14-1)
     fifo/fifo_group.go           ModifyRequest/ModifyResponse without aggregation
     httpspec/httpspec.go         NewStack: the ORDER is read from Gen_Stack
                                  (REPAIRED order: fixes/C14-3), the fixed
                                  hop-by-hop names from Gen_HopByHop.

   http.Header is an association list canonical key -> value list; only the
   functions of net/http and net/textproto that the modifiers use are
   mirrored: Get / Set / Add / Del, h[key], CanonicalMIMEHeaderKey on token
   characters, strings.TrimSpace on ASCII, strings.Split, regexp [\t ]+ Split
   with n = 3. *)

From Coq Require Import List Ascii String NArith Bool.
From Martian.C14 Require Import Gen_HopByHop Gen_Stack.
Import ListNotations.

Definition bytes := list ascii.
Definition B (s : string) : bytes := list_ascii_of_string s.

Fixpoint beqb (a b : bytes) : bool :=
  match a, b with
  | [], [] => true
  | x :: a', y :: b' => Ascii.eqb x y && beqb a' b'
  | _, _ => false
  end.

Fixpoint list_eqb {A} (eqb : A -> A -> bool) (a b : list A) : bool :=
  match a, b with
  | [], [] => true
  | x :: a', y :: b' => eqb x y && list_eqb eqb a' b'
  | _, _ => false
  end.

Definition mem (k : bytes) (l : list bytes) : bool := existsb (beqb k) l.

Definition is_nil {A} (l : list A) : bool := match l with [] => true | _ => false end.

(* ------------------------------------------------------------------ *)
(* ASCII classes                                                       *)
(* ------------------------------------------------------------------ *)

Definition code (c : ascii) : N := N_of_ascii c.
Definition in_range (lo hi : N) (c : ascii) : bool :=
  (N.leb lo (code c)) && (N.leb (code c) hi).

Definition is_upper (c : ascii) : bool := in_range 65 90 c.
Definition is_lower (c : ascii) : bool := in_range 97 122 c.
Definition is_digit (c : ascii) : bool := in_range 48 57 c.
Definition to_lower (c : ascii) : ascii := if is_upper c then ascii_of_N (code c + 32) else c.
Definition to_upper (c : ascii) : ascii := if is_lower c then ascii_of_N (code c - 32) else c.
Definition is_dash (c : ascii) : bool := N.eqb (code c) 45.

(* net/textproto validHeaderFieldByte: RFC 7230 tchar *)
Definition is_token_char (c : ascii) : bool :=
  is_upper c || is_lower c || is_digit c ||
  existsb (N.eqb (code c)) [33; 35; 36; 37; 38; 39; 42; 43; 45; 46; 94; 95; 96; 124; 126]%N.

(* strings.TrimSpace on ASCII: \t \n \v \f \r and space *)
Definition is_space (c : ascii) : bool :=
  in_range 9 13 c || N.eqb (code c) 32.

(* the regexp [\t ] of via_modifier.go *)
Definition is_blank (c : ascii) : bool :=
  N.eqb (code c) 9 || N.eqb (code c) 32.

(* ------------------------------------------------------------------ *)
(* strings                                                             *)
(* ------------------------------------------------------------------ *)

Fixpoint drop_while (p : ascii -> bool) (s : bytes) : bytes :=
  match s with
  | [] => []
  | c :: r => if p c then drop_while p r else s
  end.

Fixpoint take_while (p : ascii -> bool) (s : bytes) : bytes :=
  match s with
  | [] => []
  | c :: r => if p c then c :: take_while p r else []
  end.

Definition trim (s : bytes) : bytes :=
  rev (drop_while is_space (rev (drop_while is_space s))).

(* strings.Split(s, sep) for a one-byte separator: never empty *)
Fixpoint split_on (sep : ascii) (s : bytes) : list bytes :=
  match s with
  | [] => [[]]
  | c :: r =>
      if Ascii.eqb c sep then [] :: split_on sep r
      else match split_on sep r with
           | [] => [[c]]
           | p :: ps => (c :: p) :: ps
           end
  end.

Definition comma : ascii := ","%char.
Definition comma_sp : bytes := B ", ".

(* strings.Join(l, ", ") *)
Fixpoint join (l : list bytes) : bytes :=
  match l with
  | [] => []
  | [a] => a
  | a :: r => a ++ comma_sp ++ join r
  end.

(* textproto.CanonicalMIMEHeaderKey *)
Fixpoint canon (upper : bool) (s : bytes) : bytes :=
  match s with
  | [] => []
  | c :: r =>
      let c' := if upper then to_upper c else to_lower c in
      c' :: canon (is_dash c') r
  end.

Definition canonical_key (s : bytes) : bytes :=
  if forallb is_token_char s then canon true s else s.

Definition lower (s : bytes) : bytes := map to_lower s.

(* ------------------------------------------------------------------ *)
(* http.Header                                                         *)
(* ------------------------------------------------------------------ *)

Definition headers := list (bytes * list bytes).

(* h[k] (exact key) *)
Fixpoint values (h : headers) (k : bytes) : list bytes :=
  match h with
  | [] => []
  | (k', vs) :: r => if beqb k' k then vs else values r k
  end.

Definition del_raw (h : headers) (k : bytes) : headers :=
  filter (fun p => negb (beqb (fst p) k)) h.

Fixpoint add_raw (h : headers) (k v : bytes) : headers :=
  match h with
  | [] => [(k, [v])]
  | (k', vs) :: r => if beqb k' k then (k', vs ++ [v]) :: r else (k', vs) :: add_raw r k v
  end.

Definition hdel (h : headers) (k : bytes) : headers := del_raw h (canonical_key k).
Definition hset (h : headers) (k v : bytes) : headers :=
  (canonical_key k, [v]) :: del_raw h (canonical_key k).
Definition hadd (h : headers) (k v : bytes) : headers := add_raw h (canonical_key k) v.

(* the header map net/http builds from header lines (name, value) *)
Definition of_lines (ls : list (bytes * bytes)) : headers :=
  fold_left (fun h l => hadd h (fst l) (snd l)) ls [].

Definition keys (h : headers) : list bytes := map fst h.

Definition joined (h : headers) (k : bytes) : bytes := join (values h k).

Definition K_CONNECTION := B "Connection".
Definition K_VIA := B "Via".
Definition K_XFF := B "X-Forwarded-For".
Definition K_XFP := B "X-Forwarded-Proto".
Definition K_XFH := B "X-Forwarded-Host".
Definition K_XFU := B "X-Forwarded-Url".
Definition K_CL := B "Content-Length".
Definition K_TE := B "Transfer-Encoding".
Definition CHUNKED := B "chunked".

(* ------------------------------------------------------------------ *)
(* the modifiers                                                       *)
(* ------------------------------------------------------------------ *)

Record env := mkEnv
  { e_self : bytes;     (* requestedBy ++ "-" ++ boundary of this ViaModifier *)
    e_proto : bytes;    (* fmt.Sprintf("%d.%d", req.ProtoMajor, req.ProtoMinor) *)
    e_client : bytes;   (* host of net.SplitHostPort(RemoteAddr), or RemoteAddr *)
    e_scheme : bytes;   (* req.URL.Scheme *)
    e_host : bytes;     (* req.Host *)
    e_url : bytes }.    (* req.URL.String() *)

Definition own_via (e : env) : bytes := e_proto e ++ B " " ++ e_self e.

(* removeHopByHopHeaders *)
Definition conn_tokens (h : headers) : list bytes :=
  map (fun v => canonical_key (trim v))
      (flat_map (split_on comma) (values h K_CONNECTION)).

Definition mod_hbh (h : headers) : headers :=
  fold_left hdel hop_by_hop_headers (fold_left hdel (conn_tokens h) h).

(* NewForwardedModifier *)
Definition append_to (old x : bytes) : bytes :=
  if is_nil old then x else old ++ comma_sp ++ x.

Definition set_default (h : headers) (k d : bytes) : headers :=
  if is_nil (joined h k) then hset h k d else h.

Definition mod_forwarded (e : env) (h : headers) : headers :=
  let h1 := set_default h K_XFP (e_scheme e) in
  let h2 := set_default h1 K_XFH (e_host e) in
  let h3 := set_default h2 K_XFU (e_url e) in
  hset h3 K_XFF (append_to (joined h3 K_XFF) (e_client e)).

(* NewBadFramingModifier *)
Inductive err := EFraming | ELoop.

Fixpoint cl_scan (len : bytes) (ls : list bytes) : option bytes :=
  match ls with
  | [] => Some len
  | l :: r =>
      let t := trim l in
      if is_nil len then cl_scan t r
      else if beqb len t then cl_scan len r else None
  end.

Definition cl_elems (h : headers) : list bytes :=
  flat_map (split_on comma) (values h K_CL).

Definition te_last_ok (tes : list bytes) : bool :=
  beqb (trim (last (split_on comma (last tes [])) [])) CHUNKED.

Definition mod_framing (h : headers) : headers * option err :=
  let r1 :=
    if is_nil (values h K_CL) then Some h
    else match cl_scan [] (cl_elems h) with
         | None => None
         | Some len => Some (hset h K_CL len)
         end in
  match r1 with
  | None => (h, Some EFraming)
  | Some h1 =>
      if is_nil (values h1 K_TE) then (h1, None)
      else if te_last_ok (values h1 K_TE) then (hdel h1 K_CL, None)
      else (h1, Some EFraming)
  end.

(* ViaModifier.hasLoop: parts := whitespace.Split(TrimSpace(v), 3); parts[1] *)
Definition second_field (s : bytes) : option bytes :=
  let rest := drop_while (fun c => negb (is_blank c)) s in
  if is_nil rest then None
  else Some (take_while (fun c => negb (is_blank c)) (drop_while is_blank rest)).

Definition entry_names (self entry : bytes) : bool :=
  match second_field (trim entry) with
  | Some f => beqb f self
  | None => false
  end.

Definition has_loop (self v : bytes) : bool :=
  existsb (entry_names self) (split_on comma v).

Definition mod_via (e : env) (h : headers) : headers * option err :=
  let v := joined h K_VIA in
  if is_nil v then (hset h K_VIA (own_via e), None)
  else if has_loop (e_self e) v then (h, Some ELoop)
  else (hset h K_VIA (v ++ comma_sp ++ own_via e), None).

(* ------------------------------------------------------------------ *)
(* fifo.Group without aggregation, in the order of NewStack            *)
(* ------------------------------------------------------------------ *)

Record req_out := mkReqOut
  { o_hdr : headers; o_err : option err; o_skip : bool; o_inner : bool }.

Fixpoint run_req (e : env) (ms : list stack_mod) (h : headers) (inner : bool) : req_out :=
  match ms with
  | [] => mkReqOut h None false inner
  | m :: r =>
      match m with
      | MHopByHop => run_req e r (mod_hbh h) inner
      | MForwarded => run_req e r (mod_forwarded e h) inner
      | MFraming =>
          match mod_framing h with
          | (h', Some x) => mkReqOut h' (Some x) false inner
          | (h', None) => run_req e r h' inner
          end
      | MVia =>
          match mod_via e h with
          | (h', Some x) => mkReqOut h' (Some x) true inner   (* ctx.SkipRoundTrip() *)
          | (h', None) => run_req e r h' inner
          end
      | MInner => run_req e r h true
      end
  end.

Definition stack_req (e : env) (h : headers) : req_out := run_req e req_order h false.

Record res_out := mkResOut
  { s_hdr : headers; s_status : N; s_err : bool; s_inner : bool }.

(* [loop]: the request phase stored viaLoopKey in the context *)
Fixpoint run_res (loop : bool) (ms : list stack_mod) (h : headers) (st : N) (inner : bool) : res_out :=
  match ms with
  | [] => mkResOut h st false inner
  | m :: r =>
      match m with
      | MHopByHop => run_res loop r (mod_hbh h) st inner
      | MVia => if loop then mkResOut h 400 true inner else run_res loop r h st inner
      | MInner => run_res loop r h st true
      | MForwarded | MFraming => run_res loop r h st inner   (* request-only; translator refuses *)
      end
  end.

Definition stack_res (loop : bool) (h : headers) (st : N) : res_out :=
  run_res loop res_order h st false.

(* The order the theorems are proved for (the repaired NewStack). *)
Definition expected_req_order := [MFraming; MHopByHop; MForwarded; MVia; MInner].
Definition expected_res_order := [MInner; MVia; MHopByHop].

(* ------------------------------------------------------------------ *)
(* Specification vocabulary                                            *)
(* ------------------------------------------------------------------ *)

(* Hop-by-hop header names fixed by the HTTP specification (RFC 7230 6.1 /
   RFC 2616 13.5.1), independent of the Go source. *)
Definition rfc_hop_by_hop : list bytes :=
  map B ["Connection"; "Keep-Alive"; "Proxy-Authenticate"; "Proxy-Authorization";
         "Te"; "Trailer"; "Transfer-Encoding"; "Upgrade"]%string.

Definition fixed_hop : list bytes := map canonical_key hop_by_hop_headers.

(* k is hop-by-hop for the message with header map h *)
Definition is_hop (h : headers) (k : bytes) : Prop :=
  In k fixed_hop \/ In k (conn_tokens h).
Definition is_hopb (h : headers) (k : bytes) : bool :=
  mem k fixed_hop || mem k (conn_tokens h).

(* what the proxy itself generates for a header that did not arrive *)
Definition fresh (e : env) (k : bytes) : list bytes :=
  if beqb k K_VIA then [own_via e]
  else if beqb k K_XFF then [e_client e]
  else if beqb k K_XFP then [e_scheme e]
  else if beqb k K_XFH then [e_host e]
  else if beqb k K_XFU then [e_url e]
  else [].

Definition specials : list bytes := [K_VIA; K_XFF; K_XFP; K_XFH; K_XFU; K_CL].

(* Bad framing, stated on the received header map. *)
Definition cl_conflict (h : headers) : bool :=
  negb (is_nil (values h K_CL)) &&
  match cl_scan [] (cl_elems h) with None => true | Some _ => false end.

Definition te_bad (h : headers) : bool :=
  negb (is_nil (values h K_TE)) && negb (te_last_ok (values h K_TE)).

Definition bad_framing (h : headers) : bool := cl_conflict h || te_bad h.

(* the Via list of the received message names this proxy instance *)
Definition via_entries (h : headers) : list bytes :=
  flat_map (split_on comma) (values h K_VIA).
Definition names_self (e : env) (h : headers) : bool :=
  existsb (entry_names (e_self e)) (via_entries h).

Definition cl_expected (h : headers) : list bytes :=
  if negb (is_nil (values h K_TE)) then []
  else if is_nil (values h K_CL) then []
  else match cl_scan [] (cl_elems h) with Some len => [len] | None => [] end.

Inductive req_class := Flagged | Looped | Forwarded.

(* what the stack does (K1: a Via named in Connection is stripped before the loop test) *)
Definition classify (e : env) (h : headers) : req_class :=
  if bad_framing h then Flagged
  else if names_self e h && negb (is_hopb h K_VIA) then Looped
  else Forwarded.

(* ---- clause predicates (Prop) over an input and an OBSERVED output ---- *)

Definition P_flagged (e : env) (h : headers) (o : req_out) : Prop :=
  bad_framing h = true -> o_err o = Some EFraming /\ o_skip o = false /\ o_inner o = false.

Definition P_no_false_flag (e : env) (h : headers) (o : req_out) : Prop :=
  o_err o = Some EFraming -> bad_framing h = true.

(* full strength: any Via line naming this instance *)
Definition P_loop (e : env) (h : headers) (o : req_out) : Prop :=
  bad_framing h = false -> names_self e h = true ->
  o_err o = Some ELoop /\ o_skip o = true /\ o_inner o = false.

Definition P_no_false_loop (e : env) (h : headers) (o : req_out) : Prop :=
  (o_err o = Some ELoop \/ o_skip o = true) -> names_self e h = true.

Definition P_fwd_flags (e : env) (h : headers) (o : req_out) : Prop :=
  classify e h = Forwarded -> o_err o = None /\ o_skip o = false /\ o_inner o = true.

Definition P_no_hop (e : env) (h : headers) (o : req_out) : Prop :=
  classify e h = Forwarded ->
  forall k, is_hop h k -> values (o_hdr o) k = fresh e k.

Definition P_via (e : env) (h : headers) (o : req_out) : Prop :=
  classify e h = Forwarded -> ~ is_hop h K_VIA ->
  values (o_hdr o) K_VIA = [append_to (joined h K_VIA) (own_via e)].

Definition P_xff (e : env) (h : headers) (o : req_out) : Prop :=
  classify e h = Forwarded -> ~ is_hop h K_XFF ->
  values (o_hdr o) K_XFF = [append_to (joined h K_XFF) (e_client e)].

Definition xfwd_defaults (e : env) : list (bytes * bytes) :=
  [(K_XFP, e_scheme e); (K_XFH, e_host e); (K_XFU, e_url e)].

Definition P_xfwd (e : env) (h : headers) (o : req_out) : Prop :=
  classify e h = Forwarded ->
  forall k d, In (k, d) (xfwd_defaults e) -> ~ is_hop h k ->
  values (o_hdr o) k = if is_nil (joined h k) then [d] else values h k.

Definition P_cl (e : env) (h : headers) (o : req_out) : Prop :=
  classify e h = Forwarded -> ~ is_hop h K_CL ->
  values (o_hdr o) K_CL = cl_expected h.

Definition P_others (e : env) (h : headers) (o : req_out) : Prop :=
  classify e h = Forwarded ->
  forall k, ~ is_hop h k -> ~ In k specials -> values (o_hdr o) k = values h k.

(* response side *)
Definition P_res_loop (loop : bool) (h : headers) (st : N) (o : res_out) : Prop :=
  loop = true -> s_status o = 400%N /\ s_err o = true.

Definition P_res_flags (loop : bool) (h : headers) (st : N) (o : res_out) : Prop :=
  loop = false -> s_status o = st /\ s_err o = false /\ s_inner o = true.

Definition P_res_no_hop (loop : bool) (h : headers) (st : N) (o : res_out) : Prop :=
  loop = false -> forall k, is_hop h k -> values (s_hdr o) k = [].

Definition P_res_others (loop : bool) (h : headers) (st : N) (o : res_out) : Prop :=
  loop = false -> forall k, ~ is_hop h k -> values (s_hdr o) k = values h k.

(* ------------------------------------------------------------------ *)
(* Oracles: the same clauses as booleans (proved equivalent in Proofs)  *)
(* ------------------------------------------------------------------ *)

Definition err_eqb (a b : option err) : bool :=
  match a, b with
  | None, None => true
  | Some EFraming, Some EFraming => true
  | Some ELoop, Some ELoop => true
  | _, _ => false
  end.

Definition vals_eqb := list_eqb beqb.

Definition class_is_fwd (e : env) (h : headers) : bool :=
  match classify e h with Forwarded => true | _ => false end.

Definition b_flagged (e : env) (h : headers) (o : req_out) : bool :=
  implb (bad_framing h) (err_eqb (o_err o) (Some EFraming) && negb (o_skip o) && negb (o_inner o)).

Definition b_no_false_flag (e : env) (h : headers) (o : req_out) : bool :=
  implb (err_eqb (o_err o) (Some EFraming)) (bad_framing h).

Definition b_loop (e : env) (h : headers) (o : req_out) : bool :=
  implb (negb (bad_framing h) && names_self e h)
        (err_eqb (o_err o) (Some ELoop) && o_skip o && negb (o_inner o)).

Definition b_no_false_loop (e : env) (h : headers) (o : req_out) : bool :=
  implb (err_eqb (o_err o) (Some ELoop) || o_skip o) (names_self e h).

Definition b_fwd_flags (e : env) (h : headers) (o : req_out) : bool :=
  implb (class_is_fwd e h) (err_eqb (o_err o) None && negb (o_skip o) && o_inner o).

Definition b_no_hop (e : env) (h : headers) (o : req_out) : bool :=
  implb (class_is_fwd e h)
        (forallb (fun k => vals_eqb (values (o_hdr o) k) (fresh e k)) (fixed_hop ++ conn_tokens h)).

Definition b_via (e : env) (h : headers) (o : req_out) : bool :=
  implb (class_is_fwd e h && negb (is_hopb h K_VIA))
        (vals_eqb (values (o_hdr o) K_VIA) [append_to (joined h K_VIA) (own_via e)]).

Definition b_xff (e : env) (h : headers) (o : req_out) : bool :=
  implb (class_is_fwd e h && negb (is_hopb h K_XFF))
        (vals_eqb (values (o_hdr o) K_XFF) [append_to (joined h K_XFF) (e_client e)]).

Definition b_xfwd (e : env) (h : headers) (o : req_out) : bool :=
  implb (class_is_fwd e h)
        (forallb (fun kd : bytes * bytes =>
                    implb (negb (is_hopb h (fst kd)))
                          (vals_eqb (values (o_hdr o) (fst kd))
                                    (if is_nil (joined h (fst kd)) then [snd kd] else values h (fst kd))))
                 (xfwd_defaults e)).

Definition b_cl (e : env) (h : headers) (o : req_out) : bool :=
  implb (class_is_fwd e h && negb (is_hopb h K_CL))
        (vals_eqb (values (o_hdr o) K_CL) (cl_expected h)).

Definition b_others (e : env) (h : headers) (o : req_out) : bool :=
  implb (class_is_fwd e h)
        (forallb (fun k => implb (negb (is_hopb h k) && negb (mem k specials))
                                 (vals_eqb (values (o_hdr o) k) (values h k)))
                 (keys h ++ keys (o_hdr o))).

(* clause name, verdict: the driver reports the first false one *)
Definition c14_req_clauses (e : env) (h : headers) (o : req_out) : list (string * bool) :=
  [ ("bad_framing_flagged", b_flagged e h o);
    ("no_false_flag", b_no_false_flag e h o);
    ("loop_detected_skip_and_400", b_loop e h o);
    ("no_false_loop", b_no_false_loop e h o);
    ("forwarded_flags", b_fwd_flags e h o);
    ("no_hop_by_hop_survives", b_no_hop e h o);
    ("via_appended_once", b_via e h o);
    ("xff_appended", b_xff e h o);
    ("xfwd_preserved", b_xfwd e h o);
    ("content_length_normalised", b_cl e h o);
    ("others_untouched", b_others e h o) ]%string.

Definition c14_req_ok (e : env) (h : headers) (o : req_out) : bool :=
  forallb snd (c14_req_clauses e h o).

Definition b_res_loop (loop : bool) (h : headers) (st : N) (o : res_out) : bool :=
  implb loop (N.eqb (s_status o) 400 && s_err o).

Definition b_res_flags (loop : bool) (h : headers) (st : N) (o : res_out) : bool :=
  implb (negb loop) (N.eqb (s_status o) st && negb (s_err o) && s_inner o).

Definition b_res_no_hop (loop : bool) (h : headers) (st : N) (o : res_out) : bool :=
  implb (negb loop)
        (forallb (fun k => is_nil (values (s_hdr o) k)) (fixed_hop ++ conn_tokens h)).

Definition b_res_others (loop : bool) (h : headers) (st : N) (o : res_out) : bool :=
  implb (negb loop)
        (forallb (fun k => implb (negb (is_hopb h k)) (vals_eqb (values (s_hdr o) k) (values h k)))
                 (keys h ++ keys (s_hdr o))).

Definition c14_res_clauses (loop : bool) (h : headers) (st : N) (o : res_out) : list (string * bool) :=
  [ ("loop_detected_skip_and_400", b_res_loop loop h st o);
    ("response_flags", b_res_flags loop h st o);
    ("no_hop_by_hop_survives", b_res_no_hop loop h st o);
    ("others_untouched", b_res_others loop h st o) ]%string.

Definition c14_res_ok (loop : bool) (h : headers) (st : N) (o : res_out) : bool :=
  forallb snd (c14_res_clauses loop h st o).

Fixpoint first_false (l : list (string * bool)) : option string :=
  match l with
  | [] => None
  | (n, b) :: r => if b then first_false r else Some n
  end.

(* The fixed list of the Go source covers the specification's list. *)
Definition rfc_covered : bool := forallb (fun k => mem k fixed_hop) rfc_hop_by_hop.

(* ------------------------------------------------------------------ *)
(* Correspondence helpers (model output vs observed output)            *)
(* ------------------------------------------------------------------ *)

Definition hdr_eqb (a b : headers) : bool :=
  forallb (fun k => vals_eqb (values a k) (values b k)) (keys a ++ keys b).

Definition req_out_eqb (a b : req_out) : bool :=
  hdr_eqb (o_hdr a) (o_hdr b) && err_eqb (o_err a) (o_err b) &&
  Bool.eqb (o_skip a) (o_skip b) && Bool.eqb (o_inner a) (o_inner b).

Definition res_out_eqb (a b : res_out) : bool :=
  hdr_eqb (s_hdr a) (s_hdr b) && N.eqb (s_status a) (s_status b) &&
  Bool.eqb (s_err a) (s_err b) && Bool.eqb (s_inner a) (s_inner b).

(* ENVIRONMENT, PRX correspondence only (not martian code): net/http's
   Transport reads a response with shouldClose(..., removeCloseHeader = true):
   when some Connection value lists the token "close" it deletes the whole
   Connection header before martian's response modifiers run (finding K2). *)
Definition has_close (h : headers) : bool :=
  existsb (fun v => existsb (fun t => beqb (lower (trim t)) (B "close")) (split_on comma v))
          (values h K_CONNECTION).
Definition transport_res_view (h : headers) : headers :=
  if has_close h then del_raw h K_CONNECTION else h.

(* lines the origin / client see: everything except names the transport owns *)
Definition without (h : headers) (ks : list bytes) : headers :=
  filter (fun p => negb (mem (fst p) ks)) h.

(* ------------------------------------------------------------------ *)
(* Instance identity and chains of proxies                             *)
(* ------------------------------------------------------------------ *)

(* What a ViaModifier calls itself in the received-by position of its Via
   entry: requestedBy ++ "-" ++ boundary.  The boundary is drawn at random
   per instance (NewViaModifier -> randomBoundary); "names THIS instance"
   means the whole pseudonym is equal: name AND boundary. *)
Definition instance_tag (name boundary : bytes) : bytes := name ++ B "-" ++ boundary.

(* the received Via list names the instance whose pseudonym is [tag] *)
Definition names_tag (tag : bytes) (h : headers) : bool :=
  existsb (entry_names tag) (via_entries h).

(* a request passed from proxy to proxy: each hop applies its own stack to
   what the previous hop sent; a hop that returns an error ends the chain
   (a looping request is never sent on) *)
Fixpoint chain (es : list env) (h : headers) : list req_out :=
  match es with
  | [] => []
  | e :: r =>
      let o := stack_req e h in
      o :: match o_err o with
           | None => chain r (o_hdr o)
           | Some _ => []
           end
  end.

(* the proxy's own entry is a single list element whose second field is its pseudonym *)
Definition own_entry_wf (e : env) : bool :=
  entry_names (e_self e) (own_via e) &&
  list_eqb beqb (split_on comma (own_via e)) [own_via e].

(* well-formed boundary as randomBoundary prints it: 20 lower-case hex digits *)
Definition is_hex_lower (c : ascii) : bool := is_digit c || in_range 97 102 c.
Definition boundary_wf (b : bytes) : bool :=
  Nat.eqb (List.length b) 20 && forallb is_hex_lower b.
