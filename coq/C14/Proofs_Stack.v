(* C14 — what each modifier does to every key, and the whole stack in the
   repaired order [framing; hop-by-hop; forwarded; via; inner]. *)
From Coq Require Import List Ascii String NArith Bool Lia.
From Martian.C14 Require Import Gen_HopByHop Gen_Stack Model Proofs_Base.
Import ListNotations.

(* ---------------- hop-by-hop ---------------- *)

Lemma is_hopb_iff : forall h k, is_hopb h k = true <-> is_hop h k.
Proof.
  intros h k. unfold is_hopb, is_hop. rewrite orb_true_iff, !mem_In. reflexivity.
Qed.

Lemma is_hopb_false : forall h k, is_hopb h k = false <-> ~ is_hop h k.
Proof.
  intros h k. split; intro H.
  - intro Hc. apply is_hopb_iff in Hc. congruence.
  - destruct (is_hopb h k) eqn:E; [apply is_hopb_iff in E; contradiction | reflexivity].
Qed.

Lemma conn_tokens_canonical : forall h, map canonical_key (conn_tokens h) = conn_tokens h.
Proof.
  intros h. unfold conn_tokens. rewrite map_map. apply map_ext.
  intros v. apply canonical_key_idem.
Qed.

Lemma values_mod_hbh : forall h k,
  values (mod_hbh h) k = if is_hopb h k then [] else values h k.
Proof.
  intros h k. unfold mod_hbh, is_hopb, fixed_hop.
  rewrite !values_fold_hdel. rewrite conn_tokens_canonical.
  destruct (mem k (map canonical_key hop_by_hop_headers)); simpl; reflexivity.
Qed.

(* conn_tokens depends only on the Connection lines *)
Lemma conn_tokens_ext : forall h h',
  values h' K_CONNECTION = values h K_CONNECTION -> conn_tokens h' = conn_tokens h.
Proof. intros h h' H. unfold conn_tokens. rewrite H. reflexivity. Qed.

Lemma is_hopb_ext : forall h h' k,
  values h' K_CONNECTION = values h K_CONNECTION -> is_hopb h' k = is_hopb h k.
Proof. intros h h' k H. unfold is_hopb. rewrite (conn_tokens_ext _ _ H). reflexivity. Qed.

(* ---------------- canonical constants ---------------- *)

Ltac ck := vm_compute; reflexivity.
Lemma ck_VIA : canonical_key K_VIA = K_VIA. Proof. ck. Qed.
Lemma ck_XFF : canonical_key K_XFF = K_XFF. Proof. ck. Qed.
Lemma ck_XFP : canonical_key K_XFP = K_XFP. Proof. ck. Qed.
Lemma ck_XFH : canonical_key K_XFH = K_XFH. Proof. ck. Qed.
Lemma ck_XFU : canonical_key K_XFU = K_XFU. Proof. ck. Qed.
Lemma ck_CL : canonical_key K_CL = K_CL. Proof. ck. Qed.

(* decide  beqb K k  for a literal K once k is known to be another literal *)
Ltac keycase k K :=
  let E := fresh "E" in
  destruct (beqb K k) eqn:E;
  [ apply beqb_eq in E; subst k | ].

(* ---------------- forwarded ---------------- *)

Definition fwd_expect (e : env) (h : headers) (k : bytes) : list bytes :=
  if beqb K_XFF k then [append_to (joined h K_XFF) (e_client e)]
  else if beqb K_XFP k then (if is_nil (joined h K_XFP) then [e_scheme e] else values h K_XFP)
  else if beqb K_XFH k then (if is_nil (joined h K_XFH) then [e_host e] else values h K_XFH)
  else if beqb K_XFU k then (if is_nil (joined h K_XFU) then [e_url e] else values h K_XFU)
  else values h k.

Lemma values_set_default : forall h K d k, canonical_key K = K ->
  values (set_default h K d) k =
  if beqb K k then (if is_nil (joined h K) then [d] else values h K) else values h k.
Proof.
  intros h K d k HK. unfold set_default.
  destruct (is_nil (joined h K)) eqn:E.
  - rewrite values_hset, HK. reflexivity.
  - destruct (beqb K k) eqn:Ek; [apply beqb_eq in Ek; subst k|]; reflexivity.
Qed.

Lemma values_mod_forwarded : forall e h k,
  values (mod_forwarded e h) k = fwd_expect e h k.
Proof.
  intros e h k. unfold mod_forwarded, fwd_expect.
  rewrite values_hset, ck_XFF.
  destruct (beqb K_XFF k) eqn:EF.
  - unfold joined. rewrite !values_set_default by (first [exact ck_XFU | exact ck_XFH | exact ck_XFP]).
    replace (beqb K_XFU K_XFF) with false by ck.
    replace (beqb K_XFH K_XFF) with false by ck.
    replace (beqb K_XFP K_XFF) with false by ck.
    reflexivity.
  - rewrite values_set_default by exact ck_XFU.
    destruct (beqb K_XFU k) eqn:EU.
    + apply beqb_eq in EU. subst k.
      replace (beqb K_XFP K_XFU) with false by ck.
      replace (beqb K_XFH K_XFU) with false by ck.
      unfold joined. rewrite !values_set_default by (first [exact ck_XFH | exact ck_XFP]).
      replace (beqb K_XFP K_XFU) with false by ck.
      replace (beqb K_XFH K_XFU) with false by ck.
      reflexivity.
    + rewrite values_set_default by exact ck_XFH.
      destruct (beqb K_XFH k) eqn:EH.
      * apply beqb_eq in EH. subst k.
        replace (beqb K_XFP K_XFH) with false by ck.
        unfold joined. rewrite !values_set_default by exact ck_XFP.
        replace (beqb K_XFP K_XFH) with false by ck.
        reflexivity.
      * rewrite values_set_default by exact ck_XFP. reflexivity.
Qed.

(* ---------------- framing ---------------- *)

Lemma te_of_hset_cl : forall h len, values (hset h K_CL len) K_TE = values h K_TE.
Proof.
  intros. rewrite values_hset, ck_CL.
  replace (beqb K_CL K_TE) with false by (vm_compute; reflexivity). reflexivity.
Qed.

Lemma mod_framing_flag : forall h,
  snd (mod_framing h) = if bad_framing h then Some EFraming else None.
Proof.
  intros h. unfold mod_framing, bad_framing, cl_conflict, te_bad.
  destruct (is_nil (values h K_CL)) eqn:ECL; cbn [negb andb orb].
  - destruct (is_nil (values h K_TE)) eqn:ETE; cbn [negb andb orb fst snd]; [reflexivity|].
    destruct (te_last_ok (values h K_TE)); reflexivity.
  - destruct (cl_scan [] (cl_elems h)) as [len|] eqn:ES; cbn [negb andb orb fst snd]; [|reflexivity].
    rewrite te_of_hset_cl.
    destruct (is_nil (values h K_TE)) eqn:ETE; cbn [negb andb orb fst snd]; [reflexivity|].
    destruct (te_last_ok (values h K_TE)); reflexivity.
Qed.

Lemma mod_framing_values : forall h k, bad_framing h = false ->
  values (fst (mod_framing h)) k = if beqb K_CL k then cl_expected h else values h k.
Proof.
  intros h k Hb. unfold bad_framing, cl_conflict, te_bad in Hb.
  apply orb_false_iff in Hb as [Hc Ht].
  unfold mod_framing, cl_expected.
  destruct (is_nil (values h K_CL)) eqn:ECL; cbn [negb andb orb] in *.
  - destruct (is_nil (values h K_TE)) eqn:ETE; cbn [negb andb orb fst snd] in *.
    + destruct (beqb K_CL k) eqn:E; [apply beqb_eq in E; subst k|]; [|reflexivity].
      apply is_nil_true in ECL. exact ECL.
    + apply negb_false_iff in Ht. rewrite Ht. cbn [fst snd].
      rewrite values_hdel, ck_CL. reflexivity.
  - destruct (cl_scan [] (cl_elems h)) as [len|] eqn:ES; cbn [negb andb orb fst snd] in *; [|discriminate].
    rewrite te_of_hset_cl.
    destruct (is_nil (values h K_TE)) eqn:ETE; cbn [negb andb orb fst snd] in *.
    + rewrite values_hset, ck_CL. reflexivity.
    + apply negb_false_iff in Ht. rewrite Ht. cbn [fst snd].
      rewrite values_hdel, ck_CL. rewrite values_hset, ck_CL.
      destruct (beqb K_CL k); reflexivity.
Qed.

(* ---------------- via ---------------- *)

Lemma entry_names_space : forall self p, entry_names self (" "%char :: p) = entry_names self p.
Proof. intros. unfold entry_names. rewrite trim_space_cons. reflexivity. Qed.

Lemma existsb_split_space : forall self x,
  existsb (entry_names self) (split_on comma (" "%char :: x)) =
  existsb (entry_names self) (split_on comma x).
Proof.
  intros self x.
  destruct (split_on_cons_other comma " "%char x) as [p [ps [H1 H2]]]; [vm_compute; reflexivity|].
  rewrite H1, H2. simpl. rewrite entry_names_space. reflexivity.
Qed.

Lemma entry_names_nil : forall self, entry_names self [] = false.
Proof. intros. vm_compute. reflexivity. Qed.

Lemma has_loop_join : forall self ls,
  has_loop self (join ls) = existsb (entry_names self) (flat_map (split_on comma) ls).
Proof.
  intros self. unfold has_loop.
  induction ls as [|a r IH]; simpl.
  - reflexivity.
  - destruct r as [|b r'].
    + simpl. rewrite app_nil_r. reflexivity.
    + change (a ++ comma_sp ++ join (b :: r')) with (a ++ comma :: " "%char :: join (b :: r')).
      rewrite split_on_app, existsb_app, existsb_split_space, IH, existsb_app. reflexivity.
Qed.

Definition via_result (e : env) (h : headers) : headers * option err := mod_via e h.

Lemma mod_via_loop : forall e h,
  snd (mod_via e h) = if has_loop (e_self e) (joined h K_VIA) then Some ELoop else None.
Proof.
  intros e h. unfold mod_via.
  destruct (is_nil (joined h K_VIA)) eqn:E.
  - apply is_nil_true in E. rewrite E. reflexivity.
  - destruct (has_loop (e_self e) (joined h K_VIA)); reflexivity.
Qed.

Lemma mod_via_values : forall e h k, has_loop (e_self e) (joined h K_VIA) = false ->
  values (fst (mod_via e h)) k =
  if beqb K_VIA k then [append_to (joined h K_VIA) (own_via e)] else values h k.
Proof.
  intros e h k Hl. unfold mod_via, append_to.
  destruct (is_nil (joined h K_VIA)) eqn:E; cbn [fst snd].
  - rewrite values_hset, ck_VIA. reflexivity.
  - rewrite Hl. cbn [fst snd]. rewrite values_hset, ck_VIA. reflexivity.
Qed.

(* ---------------- the request stack ---------------- *)

(* header map the stack produces for a forwarded request, key by key *)
Definition expect (e : env) (h : headers) (k : bytes) : list bytes :=
  if beqb K_VIA k then [append_to (if is_hopb h K_VIA then [] else joined h K_VIA) (own_via e)]
  else if beqb K_XFF k then [append_to (if is_hopb h K_XFF then [] else joined h K_XFF) (e_client e)]
  else if beqb K_XFP k then
    (if is_hopb h K_XFP then [e_scheme e] else if is_nil (joined h K_XFP) then [e_scheme e] else values h K_XFP)
  else if beqb K_XFH k then
    (if is_hopb h K_XFH then [e_host e] else if is_nil (joined h K_XFH) then [e_host e] else values h K_XFH)
  else if beqb K_XFU k then
    (if is_hopb h K_XFU then [e_url e] else if is_nil (joined h K_XFU) then [e_url e] else values h K_XFU)
  else if is_hopb h k then []
  else if beqb K_CL k then cl_expected h
  else values h k.

Definition after_framing (h : headers) : headers := fst (mod_framing h).
Definition after_hbh (h : headers) : headers := mod_hbh (after_framing h).
Definition after_fwd (e : env) (h : headers) : headers := mod_forwarded e (after_hbh h).

Lemma framing_keeps_connection : forall h, bad_framing h = false ->
  values (after_framing h) K_CONNECTION = values h K_CONNECTION.
Proof.
  intros h Hb. unfold after_framing. rewrite mod_framing_values by exact Hb.
  replace (beqb K_CL K_CONNECTION) with false by (vm_compute; reflexivity). reflexivity.
Qed.

Lemma values_after_hbh : forall h k, bad_framing h = false ->
  values (after_hbh h) k =
  if is_hopb h k then [] else if beqb K_CL k then cl_expected h else values h k.
Proof.
  intros h k Hb. unfold after_hbh. rewrite values_mod_hbh.
  rewrite (is_hopb_ext h (after_framing h) k (framing_keeps_connection h Hb)).
  unfold after_framing. rewrite mod_framing_values by exact Hb. reflexivity.
Qed.

Lemma joined_after_hbh : forall h K, bad_framing h = false -> beqb K_CL K = false ->
  joined (after_hbh h) K = if is_hopb h K then [] else joined h K.
Proof.
  intros h K Hb HK. unfold joined. rewrite values_after_hbh by exact Hb. rewrite HK.
  destruct (is_hopb h K); reflexivity.
Qed.

Lemma via_seen : forall e h, bad_framing h = false ->
  joined (after_fwd e h) K_VIA = if is_hopb h K_VIA then [] else joined h K_VIA.
Proof.
  intros e h Hb. unfold joined at 1. unfold after_fwd. rewrite values_mod_forwarded. unfold fwd_expect.
  replace (beqb K_XFF K_VIA) with false by (vm_compute; reflexivity).
  replace (beqb K_XFP K_VIA) with false by (vm_compute; reflexivity).
  replace (beqb K_XFH K_VIA) with false by (vm_compute; reflexivity).
  replace (beqb K_XFU K_VIA) with false by (vm_compute; reflexivity).
  apply (joined_after_hbh h K_VIA Hb). vm_compute. reflexivity.
Qed.

Lemma loop_seen : forall e h, bad_framing h = false ->
  has_loop (e_self e) (joined (after_fwd e h) K_VIA) = names_self e h && negb (is_hopb h K_VIA).
Proof.
  intros e h Hb. rewrite via_seen by exact Hb.
  destruct (is_hopb h K_VIA); simpl.
  - rewrite andb_false_r. vm_compute. reflexivity.
  - rewrite andb_true_r. unfold joined. rewrite has_loop_join. reflexivity.
Qed.

Lemma run_req_expected : forall e h,
  run_req e expected_req_order h false =
  if bad_framing h then mkReqOut (after_framing h) (Some EFraming) false false
  else if names_self e h && negb (is_hopb h K_VIA)
       then mkReqOut (after_fwd e h) (Some ELoop) true false
       else mkReqOut (fst (mod_via e (after_fwd e h))) None false true.
Proof.
  intros e h. unfold expected_req_order. cbn [run_req].
  pose proof (mod_framing_flag h) as Hf.
  destruct (mod_framing h) as [h1 r1] eqn:EF. simpl in Hf.
  destruct (bad_framing h) eqn:Hb.
  - subst r1. unfold after_framing. rewrite EF. reflexivity.
  - subst r1.
    assert (H1 : h1 = after_framing h) by (unfold after_framing; rewrite EF; reflexivity).
    subst h1. fold (after_hbh h). fold (after_fwd e h).
    pose proof (mod_via_loop e (after_fwd e h)) as Hv.
    rewrite loop_seen in Hv by exact Hb.
    destruct (mod_via e (after_fwd e h)) as [h4 r4] eqn:EV. simpl in Hv. simpl.
    destruct (names_self e h && negb (is_hopb h K_VIA)); subst r4.
    + (* loop: headers are those before the Via modifier *)
      unfold mod_via in EV.
      destruct (is_nil (joined (after_fwd e h) K_VIA)); [discriminate|].
      destruct (has_loop (e_self e) (joined (after_fwd e h) K_VIA)); [|discriminate].
      inversion EV. reflexivity.
    + reflexivity.
Qed.

Lemma values_forwarded : forall e h k,
  bad_framing h = false -> names_self e h && negb (is_hopb h K_VIA) = false ->
  values (fst (mod_via e (after_fwd e h))) k = expect e h k.
Proof.
  intros e h k Hb Hl.
  rewrite mod_via_values by (rewrite loop_seen by exact Hb; exact Hl).
  rewrite via_seen by exact Hb. unfold expect.
  destruct (beqb K_VIA k) eqn:EV; [reflexivity|].
  unfold after_fwd. rewrite values_mod_forwarded. unfold fwd_expect.
  destruct (beqb K_XFF k) eqn:E1.
  { rewrite (joined_after_hbh h K_XFF Hb) by (vm_compute; reflexivity). reflexivity. }
  destruct (beqb K_XFP k) eqn:E2.
  { rewrite (joined_after_hbh h K_XFP Hb) by (vm_compute; reflexivity).
    rewrite values_after_hbh by exact Hb.
    replace (beqb K_CL K_XFP) with false by (vm_compute; reflexivity).
    destruct (is_hopb h K_XFP); reflexivity. }
  destruct (beqb K_XFH k) eqn:E3.
  { rewrite (joined_after_hbh h K_XFH Hb) by (vm_compute; reflexivity).
    rewrite values_after_hbh by exact Hb.
    replace (beqb K_CL K_XFH) with false by (vm_compute; reflexivity).
    destruct (is_hopb h K_XFH); reflexivity. }
  destruct (beqb K_XFU k) eqn:E4.
  { rewrite (joined_after_hbh h K_XFU Hb) by (vm_compute; reflexivity).
    rewrite values_after_hbh by exact Hb.
    replace (beqb K_CL K_XFU) with false by (vm_compute; reflexivity).
    destruct (is_hopb h K_XFU); reflexivity. }
  apply values_after_hbh. exact Hb.
Qed.

(* ---------------- the response stack ---------------- *)

Lemma run_res_expected : forall loop h st,
  run_res loop expected_res_order h st false =
  if loop then mkResOut h 400 true true else mkResOut (mod_hbh h) st false true.
Proof. intros [|] h st; reflexivity. Qed.

(* ---------------- Content-Length conflicts ---------------- *)

Lemma cl_scan_cons : forall len l r,
  cl_scan len (l :: r) =
  if is_nil len then cl_scan (trim l) r
  else if beqb len (trim l) then cl_scan len r else None.
Proof. reflexivity. Qed.

Lemma cl_scan_mismatch : forall ls len a,
  len <> [] -> In a (map trim ls) -> a <> len -> cl_scan len ls = None.
Proof.
  induction ls as [|l r IH]; intros len a Hlen Hin Hne; [contradiction|].
  rewrite cl_scan_cons.
  destruct (is_nil len) eqn:En; [apply is_nil_true in En; congruence|].
  destruct (beqb len (trim l)) eqn:E; [|reflexivity].
  apply beqb_eq in E. destruct Hin as [Hin|Hin].
  - congruence.
  - eapply IH; eauto.
Qed.

Lemma cl_scan_conflict : forall ls a b,
  In a (map trim ls) -> In b (map trim ls) -> a <> [] -> b <> [] -> a <> b ->
  cl_scan [] ls = None.
Proof.
  induction ls as [|l r IH]; intros a b Ha Hb Hane Hbne Hab; [contradiction|].
  rewrite cl_scan_cons. cbn [is_nil].
  destruct Ha as [Ha|Ha]; destruct Hb as [Hb|Hb].
  - congruence.
  - (* a is the first element: the canonical length; b differs and comes later *)
    cbn [map] in *. rewrite Ha. eapply cl_scan_mismatch with (a := b); eauto.
  - cbn [map] in *. rewrite Hb. eapply cl_scan_mismatch with (a := a); eauto.
  - destruct (trim l) as [|c t] eqn:Et.
    + apply (IH a b); assumption.
    + destruct (list_eq_dec ascii_dec a (c :: t)) as [Ea|Ea].
      * eapply cl_scan_mismatch with (a := b); eauto; congruence.
      * eapply cl_scan_mismatch with (a := a); eauto; congruence.
Qed.
