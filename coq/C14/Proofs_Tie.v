(* C14 — the tie to the current source: the theorems of Proofs_Spec are about
   the repaired order; here they are transported to [stack_req] / [stack_res],
   which run the order the translator read from httpspec.NewStack, and the
   fixed hop-by-hop list read from header/hopbyhop_modifier.go is checked to
   cover the specification's list.  If NewStack's order or the list changes,
   exactly these lemmas stop checking. *)
From Coq Require Import List Ascii String NArith Bool.
From Coq Require Import Arith.
From Martian.C14 Require Import Gen_HopByHop Gen_Stack Gen_Shared Model Proofs_Base Proofs_Stack Proofs_Spec
  Proofs_Conc Proofs_Audit Proofs_Chain Proofs_Framing.
Import ListNotations.

Lemma gen_req_order : req_order = expected_req_order.
Proof. reflexivity. Qed.

Lemma gen_res_order : res_order = expected_res_order.
Proof. reflexivity. Qed.

Lemma gen_hop_list_covers_rfc : rfc_covered = true.
Proof. vm_compute. reflexivity. Qed.

Lemma stack_req_is_model : forall e h, stack_req e h = model_req e h.
Proof. intros. unfold stack_req, model_req. rewrite gen_req_order. reflexivity. Qed.

Lemma stack_res_is_model : forall loop h st, stack_res loop h st = model_res loop h st.
Proof. intros. unfold stack_res, model_res. rewrite gen_res_order. reflexivity. Qed.

Lemma rfc_names_are_hop : forall h k, In k rfc_hop_by_hop -> is_hop h k.
Proof.
  intros h k Hin. left. apply mem_In.
  pose proof gen_hop_list_covers_rfc as H. unfold rfc_covered in H.
  rewrite forallb_forall in H. apply H. exact Hin.
Qed.

Lemma t_no_hop_req : forall e h, P_no_hop e h (stack_req e h).
Proof. intros. rewrite stack_req_is_model. apply model_no_hop. Qed.
Lemma t_no_hop_res : forall h st, P_res_no_hop false h st (stack_res false h st).
Proof. intros. rewrite stack_res_is_model. apply model_res_no_hop. Qed.
Lemma t_others_req : forall e h, P_others e h (stack_req e h) /\ P_cl e h (stack_req e h).
Proof. intros. rewrite stack_req_is_model. split; [apply model_others | apply model_cl]. Qed.
Lemma t_others_res : forall h st,
  P_res_others false h st (stack_res false h st) /\ P_res_flags false h st (stack_res false h st).
Proof. intros. rewrite stack_res_is_model. split; [apply model_res_others | apply model_res_flags]. Qed.
Lemma t_via : forall e h, P_via e h (stack_req e h).
Proof. intros. rewrite stack_req_is_model. apply model_via. Qed.
Lemma t_via_once : forall e h,
  own_entry_ok e = true -> classify e h = Forwarded -> ~ is_hop h K_VIA ->
  exists v, values (o_hdr (stack_req e h)) K_VIA = [v] /\ count_self (e_self e) v = 1.
Proof. intros e h. rewrite stack_req_is_model. apply via_names_self_once. Qed.
Lemma t_xff : forall e h, P_xff e h (stack_req e h).
Proof. intros. rewrite stack_req_is_model. apply model_xff. Qed.
Lemma t_xfwd : forall e h, P_xfwd e h (stack_req e h).
Proof. intros. rewrite stack_req_is_model. apply model_xfwd. Qed.
Lemma t_fwd_flags : forall e h, P_fwd_flags e h (stack_req e h).
Proof. intros. rewrite stack_req_is_model. apply model_fwd_flags. Qed.
Lemma t_flagged : forall e h, P_flagged e h (stack_req e h) /\ P_no_false_flag e h (stack_req e h).
Proof. intros. rewrite stack_req_is_model. split; [apply model_flagged | apply model_no_false_flag]. Qed.
Lemma t_loop_partial : forall e h, ~ is_hop h K_VIA ->
  P_loop e h (stack_req e h) /\
  P_res_loop true h 200 (stack_res true h 200).
Proof.
  intros e h Hn. rewrite stack_req_is_model, stack_res_is_model.
  split; [apply model_loop_partial; exact Hn | apply model_res_loop].
Qed.
Lemma t_no_false_loop : forall e h, P_no_false_loop e h (stack_req e h).
Proof. intros. rewrite stack_req_is_model. apply model_no_false_loop. Qed.
Lemma t_res_loop : forall h st, P_res_loop true h st (stack_res true h st).
Proof. intros. rewrite stack_res_is_model. apply model_res_loop. Qed.
Lemma t_loop_refuted : exists e h, ~ P_loop e h (stack_req e h).
Proof.
  destruct loop_refuted as [e [h H]]. exists e, h. rewrite stack_req_is_model. exact H.
Qed.

(* every clause the oracle checks, except the full-strength loop clause, holds of the model *)
Lemma t_req_spec_but_loop : forall e h,
  let o := stack_req e h in
  P_flagged e h o /\ P_no_false_flag e h o /\ P_no_false_loop e h o /\
  P_fwd_flags e h o /\ P_no_hop e h o /\ P_via e h o /\ P_xff e h o /\ P_xfwd e h o /\
  P_cl e h o /\ P_others e h o.
Proof.
  intros e h o. subst o. rewrite stack_req_is_model.
  split; [apply model_flagged|]. split; [apply model_no_false_flag|].
  split; [apply model_no_false_loop|]. split; [apply model_fwd_flags|].
  split; [apply model_no_hop|]. split; [apply model_via|]. split; [apply model_xff|].
  split; [apply model_xfwd|]. split; [apply model_cl | apply model_others].
Qed.

Lemma t_req_spec_guarded : forall e h, ~ is_hop h K_VIA -> Req_spec e h (stack_req e h).
Proof.
  intros e h Hn. pose proof (t_req_spec_but_loop e h) as T. cbv zeta in T.
  unfold Req_spec.
  assert (L : P_loop e h (stack_req e h)).
  { rewrite stack_req_is_model. apply model_loop_partial. exact Hn. }
  tauto.
Qed.

Lemma t_res_spec : forall loop h st, Res_spec loop h st (stack_res loop h st).
Proof.
  intros. rewrite stack_res_is_model. unfold Res_spec.
  split; [apply model_res_loop|]. split; [apply model_res_flags|].
  split; [apply model_res_no_hop | apply model_res_others].
Qed.

(* ---------------- statements in the shape Properties.v quotes ---------------- *)

Lemma s_no_hop :
  (forall e h, classify e h = Forwarded ->
     forall k, is_hop h k -> values (o_hdr (stack_req e h)) k = fresh e k) /\
  (forall h st k, is_hop h k -> values (s_hdr (stack_res false h st)) k = []).
Proof.
  split.
  - exact t_no_hop_req.
  - intros h st k Hk. exact (t_no_hop_res h st eq_refl k Hk).
Qed.

Lemma s_hop_names :
  (forall h k, In k rfc_hop_by_hop -> is_hop h k) /\
  (forall h v t n, In v (values h K_CONNECTION) -> In t (split_on comma v) ->
     forallb is_token_char n = true -> lower n = lower (trim t) ->
     is_hop h (canonical_key n)).
Proof. split; [exact rfc_names_are_hop | exact connection_token_is_hop]. Qed.

Lemma s_others :
  (forall e h, classify e h = Forwarded ->
     forall k, ~ is_hop h k -> ~ In k specials ->
     values (o_hdr (stack_req e h)) k = values h k) /\
  (forall e h, classify e h = Forwarded -> ~ is_hop h K_CL ->
     values (o_hdr (stack_req e h)) K_CL = cl_expected h) /\
  (forall h st k, ~ is_hop h k -> values (s_hdr (stack_res false h st)) k = values h k) /\
  (forall h st, s_status (stack_res false h st) = st /\ s_err (stack_res false h st) = false).
Proof.
  split; [exact (fun e h => proj1 (t_others_req e h))|].
  split; [exact (fun e h => proj2 (t_others_req e h))|].
  split.
  - intros h st k Hk. exact (proj1 (t_others_res h st) eq_refl k Hk).
  - intros h st. destruct (proj2 (t_others_res h st) eq_refl) as [A [B _]]. auto.
Qed.

Lemma s_via :
  (forall e h, classify e h = Forwarded -> ~ is_hop h K_VIA ->
     values (o_hdr (stack_req e h)) K_VIA = [append_to (joined h K_VIA) (own_via e)]) /\
  (forall e h, own_entry_ok e = true -> classify e h = Forwarded -> ~ is_hop h K_VIA ->
     exists v, values (o_hdr (stack_req e h)) K_VIA = [v] /\ count_self (e_self e) v = 1).
Proof. split; [exact t_via | exact t_via_once]. Qed.

Lemma s_loop_partial : forall e h,
  ~ is_hop h K_VIA -> bad_framing h = false -> names_self e h = true ->
  (o_err (stack_req e h) = Some ELoop /\ o_skip (stack_req e h) = true /\ o_inner (stack_req e h) = false) /\
  (forall rh st, s_status (stack_res true rh st) = 400%N /\ s_err (stack_res true rh st) = true).
Proof.
  intros e h Hn Hb Hs. split.
  - exact (proj1 (t_loop_partial e h Hn) Hb Hs).
  - intros rh st. exact (t_res_loop rh st eq_refl).
Qed.

Lemma s_loop_refuted : exists e h,
  bad_framing h = false /\ names_self e h = true /\
  o_err (stack_req e h) = None /\ o_skip (stack_req e h) = false.
Proof. exists k1_env, k1_hdr. vm_compute. repeat split; reflexivity. Qed.

Lemma s_no_false_loop : forall e h,
  (o_err (stack_req e h) = Some ELoop \/ o_skip (stack_req e h) = true) -> names_self e h = true.
Proof. exact t_no_false_loop. Qed.

Lemma s_bad_framing :
  (forall e h, bad_framing h = true ->
     o_err (stack_req e h) = Some EFraming /\ o_skip (stack_req e h) = false /\ o_inner (stack_req e h) = false) /\
  (forall e h, o_err (stack_req e h) = Some EFraming -> bad_framing h = true) /\
  (forall h a b, In a (map trim (cl_elems h)) -> In b (map trim (cl_elems h)) ->
     a <> [] -> b <> [] -> a <> b -> bad_framing h = true) /\
  (forall h, values h K_TE <> [] ->
     trim (last (split_on comma (last (values h K_TE) [])) []) <> CHUNKED -> bad_framing h = true).
Proof.
  split; [exact (fun e h => proj1 (t_flagged e h))|].
  split; [exact (fun e h => proj2 (t_flagged e h))|].
  split; [exact conflicting_content_length_is_bad | exact te_not_ending_in_chunked_is_bad].
Qed.

Lemma s_oracle :
  (forall e h o, c14_req_ok e h o = true <-> Req_spec e h o) /\
  (forall loop h st o, c14_res_ok loop h st o = true <-> Res_spec loop h st o) /\
  (forall e h o, first_false (c14_req_clauses e h o) = None <-> Req_spec e h o) /\
  (forall loop h st o, first_false (c14_res_clauses loop h st o) = None <-> Res_spec loop h st o).
Proof.
  split; [exact c14_req_ok_iff|]. split; [exact c14_res_ok_iff|]. split.
  - intros e h o. rewrite first_false_none. apply c14_req_ok_iff.
  - intros loop h st o. rewrite first_false_none. apply c14_res_ok_iff.
Qed.

Lemma s_model_passes_oracle :
  (forall e h, ~ is_hop h K_VIA -> c14_req_ok e h (stack_req e h) = true) /\
  (forall loop h st, c14_res_ok loop h st (stack_res loop h st) = true).
Proof.
  split.
  - intros e h Hn. apply c14_req_ok_iff. apply t_req_spec_guarded. exact Hn.
  - intros loop h st. apply c14_res_ok_iff. apply t_res_spec.
Qed.

(* ---------------- audit round ---------------- *)

(* translator facts: nothing in the four modifier files can carry state from one
   message to the next (no fields, read-only literal list ranged over once, no
   writes to receiver fields or package variables) *)
Lemma gen_no_shared_state : shared_state_free = true.
Proof. reflexivity. Qed.

Lemma gen_res_order_request_only_free : forall m, In m res_order -> m <> MForwarded /\ m <> MFraming.
Proof.
  intros m H. rewrite gen_res_order in H. unfold expected_res_order in H. simpl in H.
  destruct H as [H|[H|[H|[]]]]; subst m; split; discriminate.
Qed.

Lemma s_schedule_independent :
  shared_state_free = true /\
  (forall envs hs sched i,
     let final := sys_run mstate (fun j => mstep (envs j)) sched (req_sys envs hs) in
     (forall r, m_res (final i) = Some r -> r = stack_req (envs i) (hs i)) /\
     (List.length req_order < count_occ Nat.eq_dec sched i ->
      m_res (final i) = Some (stack_req (envs i) (hs i)))) /\
  (forall loops hs sts sched i,
     let final := sys_run rstate (fun j => rstep (loops j)) sched (res_sys hs sts) in
     (forall r, r_res (final i) = Some r -> r = stack_res (loops i) (hs i) (sts i)) /\
     (List.length res_order < count_occ Nat.eq_dec sched i ->
      r_res (final i) = Some (stack_res (loops i) (hs i) (sts i)))).
Proof.
  split; [exact gen_no_shared_state|].
  split; [exact req_schedule_independent | exact res_schedule_independent].
Qed.

Lemma s_propfail_sound :
  (forall e h o c, first_false (c14_req_clauses e h o) = Some c ->
     exists P : Prop, In (c, P) (req_clause_props e h o) /\ ~ P) /\
  (forall loop h st o c, first_false (c14_res_clauses loop h st o) = Some c ->
     exists P : Prop, In (c, P) (res_clause_props loop h st o) /\ ~ P) /\
  (forall e h o, first_false (c14_req_clauses e h o) = None ->
     Forall (fun np => snd np) (req_clause_props e h o)) /\
  (forall loop h st o, first_false (c14_res_clauses loop h st o) = None ->
     Forall (fun np => snd np) (res_clause_props loop h st o)).
Proof.
  split; [exact req_propfail_sound|]. split; [exact res_propfail_sound|].
  split; [exact req_ok_all_clauses | exact res_ok_all_clauses].
Qed.

Lemma s_driver_comparisons :
  (forall a b, req_out_eqb a b = true <->
     (forall k, values (o_hdr a) k = values (o_hdr b) k) /\ o_err a = o_err b /\
     o_skip a = o_skip b /\ o_inner a = o_inner b) /\
  (forall a b, res_out_eqb a b = true <->
     (forall k, values (s_hdr a) k = values (s_hdr b) k) /\ s_status a = s_status b /\
     s_err a = s_err b /\ s_inner a = s_inner b) /\
  (forall a b, hdr_eqb a b = true <-> (forall k, values a k = values b k)) /\
  (forall h ks k, values (without h ks) k = if mem k ks then [] else values h k) /\
  (rfc_covered = true <-> (forall k, In k rfc_hop_by_hop -> In k fixed_hop)) /\
  (forall h k, is_hopb h k = true <-> is_hop h k).
Proof.
  split; [exact req_out_eqb_iff|]. split; [exact res_out_eqb_iff|]. split; [exact hdr_eqb_iff|].
  split; [exact values_without|]. split; [exact rfc_covered_iff | exact is_hopb_iff].
Qed.

Lemma s_closed_form : forall e h,
  stack_req e h =
  (if bad_framing h then mkReqOut (after_framing h) (Some EFraming) false false
   else if names_self e h && negb (is_hopb h K_VIA)
        then mkReqOut (after_fwd e h) (Some ELoop) true false
        else mkReqOut (fst (mod_via e (after_fwd e h))) None false true) /\
  (classify e h = Forwarded -> forall k, values (o_hdr (stack_req e h)) k = expect e h k) /\
  (forall loop rh st, stack_res loop rh st =
     if loop then mkResOut rh 400 true true else mkResOut (mod_hbh rh) st false true).
Proof.
  intros e h. rewrite stack_req_is_model.
  destruct (stack_closed_form e h) as [A B]. split; [exact A|]. split; [exact B|].
  intros loop rh st. rewrite stack_res_is_model. apply run_res_expected.
Qed.

Lemma s_totalisation :
  (forall c s d, last (split_on c s) d = last (split_on c s) []) /\
  (forall h, te_bad h = true -> values h K_TE <> []) /\
  (forall tes d, tes <> [] ->
     te_last_ok tes = beqb (trim (last (split_on comma (last tes d)) d)) CHUNKED) /\
  (forall h, values h K_TE = [] -> bad_framing h = cl_conflict h) /\
  (forall c s, split_on c s <> []) /\
  (forall c, is_lower c = true -> (32 <= code c)%N) /\
  (forall self x, entry_names self x = true -> exists f, second_field (trim x) = Some f /\ f = self) /\
  (forall m, In m res_order -> m <> MForwarded /\ m <> MFraming).
Proof.
  split; [exact last_split_default_irrelevant|]. split; [exact te_bad_guarded|].
  split; [exact te_last_ok_default_irrelevant|]. split; [exact framing_without_te|].
  split; [exact split_on_nonempty|]. split; [exact to_upper_no_truncation|].
  split; [exact entry_names_needs_second_field | exact gen_res_order_request_only_free].
Qed.

(* ---------------- instance identity and chains ---------------- *)

Lemma gen_boundary_random : 0 < boundary_random_bytes /\ 2 * boundary_random_bytes = 20.
Proof. split; [unfold boundary_random_bytes; repeat constructor | reflexivity]. Qed.

Lemma chain_is_chain_m : forall es h, chain es h = chain_m es h.
Proof.
  induction es as [|e es IH]; intros h; [reflexivity|].
  simpl. rewrite stack_req_is_model. destruct (o_err (model_req e h)); [reflexivity|].
  rewrite IH. reflexivity.
Qed.

Lemma s_identity :
  (forall name b b', instance_tag name b = instance_tag name b' <-> b = b') /\
  (forall eA eB, own_entry_ok eA = true -> e_self eA <> e_self eB ->
     entry_names (e_self eB) (own_via eA) = false) /\
  (forall e, own_entry_ok e = true -> entry_names (e_self e) (own_via e) = true) /\
  (0 < boundary_random_bytes /\ 2 * boundary_random_bytes = 20).
Proof.
  split; [exact instance_tag_inj|]. split; [exact other_instance_not_named|].
  split; [|exact gen_boundary_random].
  intros e H. apply andb_true_iff in H as [H _]. exact H.
Qed.

Lemma s_chain_distinct : forall es h,
  Forall (fun e => own_entry_ok e = true) es /\ NoDup (map e_self es) /\
  bad_framing h = false /\ ~ is_hop h K_VIA /\
  (forall e, In e es -> names_tag (e_self e) h = false) ->
  Forall (fun o => o_err o = None /\ o_skip o = false /\ o_inner o = true) (chain es h) /\
  List.length (chain es h) = List.length es /\
  (forall d, es <> [] ->
     joined (o_hdr (last (chain es h) d)) K_VIA =
     fold_left (fun v e => append_to v (own_via e)) es (joined h K_VIA)).
Proof. intros es h H. rewrite chain_is_chain_m. exact (chain_m_distinct es h H). Qed.

Lemma s_chain_loop : forall es h e0 e',
  Forall (fun e => own_entry_ok e = true) es /\ NoDup (map e_self es) /\
  bad_framing h = false /\ ~ is_hop h K_VIA /\
  (forall e, In e es -> names_tag (e_self e) h = false) ->
  In e0 es -> e_self e' = e_self e0 ->
  exists outs o, chain (es ++ [e']) h = outs ++ [o] /\
    Forall (fun o => o_err o = None /\ o_skip o = false /\ o_inner o = true) outs /\
    List.length outs = List.length es /\
    o_err o = Some ELoop /\ o_skip o = true /\ o_inner o = false.
Proof. intros es h e0 e' H Hin Ht. rewrite chain_is_chain_m. exact (chain_m_loop es h e0 e' H Hin Ht). Qed.

(* ---------------- the final transfer-coding as a token ---------------- *)

Lemma s_te_token :
  (forall h, te_bad h = true <->
     values h K_TE <> [] /\ trim (last (te_elems (values h K_TE)) []) <> CHUNKED) /\
  (forall tes tes', tes <> [] -> tes' <> [] ->
     trim (last (te_elems tes) []) = trim (last (te_elems tes') []) ->
     te_last_ok tes = te_last_ok tes') /\
  (forall h lines rest elem, ~ In comma elem ->
     (values h K_TE = lines ++ [rest ++ comma :: elem] \/ values h K_TE = lines ++ [elem]) ->
     (te_bad h = true <-> trim elem <> CHUNKED)) /\
  (forall e h, te_bad h = true -> o_err (stack_req e h) = Some EFraming).
Proof.
  split; [exact te_bad_iff|]. split; [exact te_flag_depends_on_last_element_only|].
  split; [exact te_final_token_decides|].
  intros e h H. apply (proj1 (t_flagged e h)). unfold bad_framing. rewrite H. apply orb_true_r.
Qed.
