(* C14 — base lemmas: byte strings, header-map operations, canonical keys. *)
From Coq Require Import List Ascii String NArith Bool Lia.
From Martian.C14 Require Import Gen_HopByHop Gen_Stack Model.
Import ListNotations.

(* ---------------- equality tests ---------------- *)

Lemma beqb_eq : forall a b, beqb a b = true <-> a = b.
Proof.
  induction a as [|x a IH]; destruct b as [|y b]; simpl; split; intro H;
    try reflexivity; try discriminate.
  - apply andb_true_iff in H as [H1 H2]. apply Ascii.eqb_eq in H1. apply IH in H2. congruence.
  - inversion H; subst. rewrite Ascii.eqb_refl. simpl. apply IH. reflexivity.
Qed.

Lemma beqb_refl : forall a, beqb a a = true.
Proof. intros a. apply beqb_eq. reflexivity. Qed.

Lemma beqb_neq : forall a b, beqb a b = false <-> a <> b.
Proof.
  intros a b. split; intro H.
  - intro E. apply beqb_eq in E. congruence.
  - destruct (beqb a b) eqn:E; [apply beqb_eq in E; contradiction | reflexivity].
Qed.

Lemma beqb_sym : forall a b, beqb a b = beqb b a.
Proof.
  intros a b. destruct (beqb a b) eqn:E.
  - apply beqb_eq in E. subst. symmetry. apply beqb_refl.
  - symmetry. apply beqb_neq. apply beqb_neq in E. congruence.
Qed.

Lemma vals_eqb_eq : forall a b, vals_eqb a b = true <-> a = b.
Proof.
  unfold vals_eqb.
  induction a as [|x a IH]; destruct b as [|y b]; simpl; split; intro H;
    try reflexivity; try discriminate.
  - apply andb_true_iff in H as [H1 H2]. apply beqb_eq in H1. apply IH in H2. congruence.
  - inversion H; subst. rewrite beqb_refl. simpl. apply IH. reflexivity.
Qed.

Lemma mem_In : forall k l, mem k l = true <-> In k l.
Proof.
  intros k l. unfold mem. rewrite existsb_exists. split.
  - intros [x [Hin Hx]]. apply beqb_eq in Hx. subst. exact Hin.
  - intro H. exists k. split; [exact H | apply beqb_refl].
Qed.

Lemma mem_false : forall k l, mem k l = false <-> ~ In k l.
Proof.
  intros k l. split; intro H.
  - intro Hin. apply mem_In in Hin. congruence.
  - destruct (mem k l) eqn:E; [apply mem_In in E; contradiction | reflexivity].
Qed.

Lemma is_nil_true : forall A (l : list A), is_nil l = true <-> l = [].
Proof. intros A [|x l]; simpl; split; intro H; congruence. Qed.

Lemma implb_true : forall a b, implb a b = true <-> (a = true -> b = true).
Proof. intros [|] [|]; simpl; split; intro H; auto; try discriminate; try (symmetry; apply H; reflexivity). Qed.

Lemma err_eqb_eq : forall a b, err_eqb a b = true <-> a = b.
Proof. intros [[|]|] [[|]|]; simpl; split; intro H; congruence. Qed.

(* ---------------- header maps ---------------- *)

Lemma values_del_raw : forall h k' k,
  values (del_raw h k') k = if beqb k' k then [] else values h k.
Proof.
  induction h as [|[k0 vs] h IH]; intros k' k; simpl.
  - destruct (beqb k' k); reflexivity.
  - destruct (beqb k0 k') eqn:E0; simpl.
    + apply beqb_eq in E0. subst k0. rewrite IH.
      destruct (beqb k' k); reflexivity.
    + destruct (beqb k0 k) eqn:E1.
      * apply beqb_eq in E1. subst k0.
        rewrite beqb_sym in E0. rewrite E0. reflexivity.
      * apply IH.
Qed.

Lemma values_hdel : forall h k' k,
  values (hdel h k') k = if beqb (canonical_key k') k then [] else values h k.
Proof. intros. unfold hdel. apply values_del_raw. Qed.

Lemma values_hset : forall h k' v k,
  values (hset h k' v) k = if beqb (canonical_key k') k then [v] else values h k.
Proof.
  intros. unfold hset. simpl. destruct (beqb (canonical_key k') k) eqn:E; [reflexivity|].
  rewrite values_del_raw, E. reflexivity.
Qed.

Lemma values_add_raw : forall h k' v k,
  values (add_raw h k' v) k = if beqb k' k then values h k' ++ [v] else values h k.
Proof.
  induction h as [|[k0 vs] h IH]; intros k' v k; simpl.
  - destruct (beqb k' k); reflexivity.
  - destruct (beqb k0 k') eqn:E0; simpl.
    + apply beqb_eq in E0. subst k0. destruct (beqb k' k); reflexivity.
    + destruct (beqb k0 k) eqn:E1.
      * apply beqb_eq in E1. subst k0. rewrite beqb_sym in E0. rewrite E0. reflexivity.
      * apply IH.
Qed.

Lemma values_not_key : forall h k, ~ In k (keys h) -> values h k = [].
Proof.
  induction h as [|[k0 vs] h IH]; intros k H; simpl; [reflexivity|].
  destruct (beqb k0 k) eqn:E.
  - apply beqb_eq in E. subst. exfalso. apply H. left. reflexivity.
  - apply IH. intro Hin. apply H. right. exact Hin.
Qed.

Lemma values_fold_hdel : forall ks h k,
  values (fold_left hdel ks h) k =
  if mem k (map canonical_key ks) then [] else values h k.
Proof.
  induction ks as [|k0 ks IH]; intros h k; simpl; [reflexivity|].
  rewrite IH. rewrite values_hdel. rewrite (beqb_sym k (canonical_key k0)).
  destruct (beqb (canonical_key k0) k); simpl.
  - destruct (mem k (map canonical_key ks)); reflexivity.
  - reflexivity.
Qed.

(* two header maps with the same lookups are indistinguishable for hdr_eqb *)
Lemma hdr_eqb_iff : forall a b, hdr_eqb a b = true <-> (forall k, values a k = values b k).
Proof.
  intros a b. unfold hdr_eqb. rewrite forallb_forall. split.
  - intros H k.
    destruct (in_dec (list_eq_dec ascii_dec) k (keys a ++ keys b)) as [Hin|Hn].
    + apply vals_eqb_eq. apply H. exact Hin.
    + rewrite !values_not_key; [reflexivity| |]; intro Hc; apply Hn; apply in_or_app; auto.
  - intros H k _. apply vals_eqb_eq. apply H.
Qed.

(* ---------------- ASCII ---------------- *)

Ltac all_ascii a := destruct a as [[|] [|] [|] [|] [|] [|] [|] [|]]; vm_compute; try reflexivity; try discriminate.

Lemma to_lower_idem : forall c, to_lower (to_lower c) = to_lower c.
Proof. intro c. all_ascii c. Qed.
Lemma to_upper_lower : forall c, to_upper (to_lower c) = to_upper c.
Proof. intro c. all_ascii c. Qed.
Lemma to_lower_upper : forall c, to_lower (to_upper c) = to_lower c.
Proof. intro c. all_ascii c. Qed.
Lemma to_upper_idem : forall c, to_upper (to_upper c) = to_upper c.
Proof. intro c. all_ascii c. Qed.
Lemma token_to_lower : forall c, is_token_char (to_lower c) = is_token_char c.
Proof. intro c. all_ascii c. Qed.
Lemma token_to_upper : forall c, is_token_char (to_upper c) = is_token_char c.
Proof. intro c. all_ascii c. Qed.
Lemma dash_to_upper : forall c, is_dash (to_upper c) = is_dash c.
Proof. intro c. all_ascii c. Qed.
Lemma dash_to_lower : forall c, is_dash (to_lower c) = is_dash c.
Proof. intro c. all_ascii c. Qed.

Lemma canon_token : forall s u, forallb is_token_char (canon u s) = forallb is_token_char s.
Proof.
  induction s as [|c s IH]; intros u; simpl; [reflexivity|].
  rewrite IH. destruct u; [rewrite token_to_upper | rewrite token_to_lower]; reflexivity.
Qed.

Lemma canon_idem : forall s u, canon u (canon u s) = canon u s.
Proof.
  induction s as [|c s IH]; intros u; simpl; [reflexivity|].
  destruct u.
  - rewrite to_upper_idem. rewrite IH. reflexivity.
  - rewrite to_lower_idem. rewrite IH. reflexivity.
Qed.

Lemma canonical_key_idem : forall s, canonical_key (canonical_key s) = canonical_key s.
Proof.
  intros s. unfold canonical_key.
  destruct (forallb is_token_char s) eqn:E.
  - rewrite canon_token, E. apply canon_idem.
  - rewrite E. reflexivity.
Qed.

Lemma canon_lower : forall s u, canon u (lower s) = canon u s.
Proof.
  induction s as [|c s IH]; intros u; simpl; [reflexivity|].
  destruct u.
  - rewrite to_upper_lower. rewrite IH. reflexivity.
  - rewrite to_lower_idem. rewrite IH. reflexivity.
Qed.

Lemma token_lower : forall s, forallb is_token_char (lower s) = forallb is_token_char s.
Proof.
  induction s as [|c s IH]; simpl; [reflexivity|]. rewrite token_to_lower, IH. reflexivity.
Qed.

(* header names are case-insensitive: same letters, any case, same key *)
Lemma canonical_key_case_insensitive : forall a b,
  lower a = lower b -> forallb is_token_char a = true -> canonical_key a = canonical_key b.
Proof.
  intros a b H Ha. unfold canonical_key.
  assert (Hb : forallb is_token_char b = true).
  { rewrite <- token_lower, <- H, token_lower. exact Ha. }
  rewrite Ha, Hb. rewrite <- (canon_lower a), <- (canon_lower b), H. reflexivity.
Qed.

(* ---------------- split / join / trim ---------------- *)

Lemma split_on_app : forall c a b,
  split_on c (a ++ c :: b) = split_on c a ++ split_on c b.
Proof.
  intros c. induction a as [|x a IH]; intros b; simpl.
  - rewrite Ascii.eqb_refl. reflexivity.
  - destruct (Ascii.eqb x c) eqn:E.
    + rewrite IH. reflexivity.
    + rewrite IH. destruct (split_on c a) as [|p ps] eqn:Es.
      * destruct a; simpl in Es; [discriminate|].
        destruct (Ascii.eqb a c); [discriminate|]. destruct (split_on c a0); discriminate.
      * reflexivity.
Qed.

Lemma split_on_nonempty : forall c s, split_on c s <> [].
Proof.
  intros c s. destruct s as [|x s]; simpl; [discriminate|].
  destruct (Ascii.eqb x c); [discriminate|]. destruct (split_on c s); discriminate.
Qed.

Lemma split_on_cons_other : forall c x s, Ascii.eqb x c = false ->
  exists p ps, split_on c s = p :: ps /\ split_on c (x :: s) = (x :: p) :: ps.
Proof.
  intros c x s E. simpl. rewrite E.
  destruct (split_on c s) as [|p ps] eqn:Es.
  - exfalso. eapply split_on_nonempty. exact Es.
  - exists p, ps. split; reflexivity.
Qed.

Lemma trim_space_cons : forall s, trim (" "%char :: s) = trim s.
Proof. intros s. unfold trim. simpl. reflexivity. Qed.

Lemma join_nil_cases : forall ls, join ls = [] -> ls = [] \/ ls = [[]].
Proof.
  intros [|a [|b r]] H; simpl in *.
  - left. reflexivity.
  - right. subst. reflexivity.
  - exfalso. destruct a; discriminate.
Qed.
