(* C14 — concurrency: one stack instance serves every connection of the proxy.
   Messages are processed by goroutines that interleave arbitrarily at the
   granularity of modifier calls.  ASSUMPTION (tied to the source by the
   translator facts in Gen_Shared.v, and exercised on every run by concurrent
   batches under the Go race detector): a modifier call reads and writes only
   the message it is given — the modifiers hold no per-message state and the
   hop-by-hop name list is a read-only literal.  Under that assumption the
   system below is the concurrent semantics, and the theorem is that every
   schedule gives every message exactly the sequential result. *)
From Coq Require Import List Ascii String NArith Bool Arith Lia.
From Martian.C14 Require Import Gen_HopByHop Gen_Stack Model Proofs_Base.
Import ListNotations.

Fixpoint iter {A} (n : nat) (f : A -> A) (x : A) : A :=
  match n with 0 => x | S n' => iter n' f (f x) end.

Lemma iter_S_out : forall A n (f : A -> A) x, iter (S n) f x = f (iter n f x).
Proof. induction n as [|n IH]; intros f x; [reflexivity|]. simpl in *. rewrite <- IH. reflexivity. Qed.

Lemma iter_fix : forall A n (f : A -> A) x, f x = x -> iter n f x = x.
Proof. induction n as [|n IH]; intros f x H; simpl; [reflexivity|]. rewrite H. apply IH. exact H. Qed.

(* ---------------- a system of independent per-message machines ---------------- *)
Section System.
  Variable St : Type.
  Variable stp : nat -> St -> St.          (* one modifier call on message i *)

  (* scheduling message i: only component i changes *)
  Definition sys_step (i : nat) (sys : nat -> St) : nat -> St :=
    fun j => if Nat.eqb j i then stp i (sys i) else sys j.

  Definition sys_run (sched : list nat) (sys : nat -> St) : nat -> St :=
    fold_left (fun s i => sys_step i s) sched sys.

  Lemma sys_run_component : forall sched sys i,
    sys_run sched sys i = iter (count_occ Nat.eq_dec sched i) (stp i) (sys i).
  Proof.
    unfold sys_run. induction sched as [|j sched IH]; intros sys i; simpl; [reflexivity|].
    rewrite IH. unfold sys_step.
    destruct (Nat.eq_dec j i) as [E|E].
    - subst j. rewrite Nat.eqb_refl. reflexivity.
    - destruct (Nat.eqb i j) eqn:Eb; [apply Nat.eqb_eq in Eb; congruence | reflexivity].
  Qed.
End System.

(* ---------------- the request stack as a step machine ---------------- *)

Record mstate := mkM
  { m_todo : list stack_mod; m_hdr : headers; m_inner : bool; m_res : option req_out }.

Definition mstep (e : env) (s : mstate) : mstate :=
  match m_res s with
  | Some _ => s
  | None =>
      match m_todo s with
      | [] => mkM [] (m_hdr s) (m_inner s) (Some (mkReqOut (m_hdr s) None false (m_inner s)))
      | m :: r =>
          match m with
          | MHopByHop => mkM r (mod_hbh (m_hdr s)) (m_inner s) None
          | MForwarded => mkM r (mod_forwarded e (m_hdr s)) (m_inner s) None
          | MFraming =>
              match mod_framing (m_hdr s) with
              | (h', Some x) => mkM r h' (m_inner s) (Some (mkReqOut h' (Some x) false (m_inner s)))
              | (h', None) => mkM r h' (m_inner s) None
              end
          | MVia =>
              match mod_via e (m_hdr s) with
              | (h', Some x) => mkM r h' (m_inner s) (Some (mkReqOut h' (Some x) true (m_inner s)))
              | (h', None) => mkM r h' (m_inner s) None
              end
          | MInner => mkM r (m_hdr s) true None
          end
      end
  end.

Lemma mstep_done : forall e s r, m_res s = Some r -> mstep e s = s.
Proof. intros e s r H. unfold mstep. rewrite H. reflexivity. Qed.

(* whatever number of steps: not finished, or finished with run_req's result *)
Lemma mstep_result : forall e todo k h inner r,
  m_res (iter k (mstep e) (mkM todo h inner None)) = Some r -> r = run_req e todo h inner.
Proof.
  intros e. induction todo as [|m todo IH]; intros k h inner r H.
  - destruct k as [|k]; simpl in H; [discriminate|].
    unfold mstep at 2 in H. cbn [m_res m_todo m_hdr m_inner] in H.
    rewrite iter_fix in H by (eapply mstep_done; reflexivity).
    cbn [m_res] in H. inversion H. reflexivity.
  - destruct k as [|k]; simpl in H; [discriminate|].
    unfold mstep at 2 in H. cbn [m_res m_todo m_hdr m_inner] in H. cbn [run_req].
    destruct m.
    + apply IH in H. exact H.
    + apply IH in H. exact H.
    + destruct (mod_framing h) as [h' [x|]].
      * rewrite iter_fix in H by (eapply mstep_done; reflexivity). cbn [m_res] in H. inversion H. reflexivity.
      * apply IH in H. exact H.
    + destruct (mod_via e h) as [h' [x|]].
      * rewrite iter_fix in H by (eapply mstep_done; reflexivity). cbn [m_res] in H. inversion H. reflexivity.
      * apply IH in H. exact H.
    + apply IH in H. exact H.
Qed.

(* enough steps finish the message *)
Lemma mstep_finishes : forall e todo k h inner,
  List.length todo < k -> m_res (iter k (mstep e) (mkM todo h inner None)) = Some (run_req e todo h inner).
Proof.
  intros e. induction todo as [|m todo IH]; intros k h inner Hk.
  - destruct k as [|k]; [simpl in Hk; lia|]. simpl.
    unfold mstep at 2. cbn [m_res m_todo m_hdr m_inner].
    rewrite iter_fix by (eapply mstep_done; reflexivity). reflexivity.
  - destruct k as [|k]; [simpl in Hk; lia|]. simpl in Hk. simpl iter.
    unfold mstep at 2. cbn [m_res m_todo m_hdr m_inner]. cbn [run_req].
    destruct m.
    + apply IH. lia.
    + apply IH. lia.
    + destruct (mod_framing h) as [h' [x|]].
      * rewrite iter_fix by (eapply mstep_done; reflexivity). reflexivity.
      * apply IH. lia.
    + destruct (mod_via e h) as [h' [x|]].
      * rewrite iter_fix by (eapply mstep_done; reflexivity). reflexivity.
      * apply IH. lia.
    + apply IH. lia.
Qed.

(* ---------------- the response stack as a step machine ---------------- *)

Record rstate := mkR
  { r_todo : list stack_mod; r_hdr : headers; r_st : N; r_inner : bool; r_res : option res_out }.

Definition rstep (loop : bool) (s : rstate) : rstate :=
  match r_res s with
  | Some _ => s
  | None =>
      match r_todo s with
      | [] => mkR [] (r_hdr s) (r_st s) (r_inner s) (Some (mkResOut (r_hdr s) (r_st s) false (r_inner s)))
      | m :: r =>
          match m with
          | MHopByHop => mkR r (mod_hbh (r_hdr s)) (r_st s) (r_inner s) None
          | MVia => if loop
                    then mkR r (r_hdr s) (r_st s) (r_inner s) (Some (mkResOut (r_hdr s) 400 true (r_inner s)))
                    else mkR r (r_hdr s) (r_st s) (r_inner s) None
          | MInner => mkR r (r_hdr s) (r_st s) true None
          | MForwarded | MFraming => mkR r (r_hdr s) (r_st s) (r_inner s) None
          end
      end
  end.

Lemma rstep_done : forall loop s r, r_res s = Some r -> rstep loop s = s.
Proof. intros loop s r H. unfold rstep. rewrite H. reflexivity. Qed.

Lemma rstep_result : forall loop todo k h st inner r,
  r_res (iter k (rstep loop) (mkR todo h st inner None)) = Some r -> r = run_res loop todo h st inner.
Proof.
  intros loop. induction todo as [|m todo IH]; intros k h st inner r H.
  - destruct k as [|k]; simpl in H; [discriminate|].
    unfold rstep at 2 in H. cbn [r_res r_todo r_hdr r_st r_inner] in H.
    rewrite iter_fix in H by (eapply rstep_done; reflexivity).
    cbn [r_res] in H. inversion H. reflexivity.
  - destruct k as [|k]; simpl in H; [discriminate|].
    unfold rstep at 2 in H. cbn [r_res r_todo r_hdr r_st r_inner] in H. cbn [run_res].
    destruct m; try (apply IH in H; exact H).
    destruct loop.
    + rewrite iter_fix in H by (eapply rstep_done; reflexivity). cbn [r_res] in H. inversion H. reflexivity.
    + apply IH in H. exact H.
Qed.

Lemma rstep_finishes : forall loop todo k h st inner,
  List.length todo < k ->
  r_res (iter k (rstep loop) (mkR todo h st inner None)) = Some (run_res loop todo h st inner).
Proof.
  intros loop. induction todo as [|m todo IH]; intros k h st inner Hk.
  - destruct k as [|k]; [simpl in Hk; lia|]. simpl.
    unfold rstep at 2. cbn [r_res r_todo r_hdr r_st r_inner].
    rewrite iter_fix by (eapply rstep_done; reflexivity). reflexivity.
  - destruct k as [|k]; [simpl in Hk; lia|]. simpl in Hk. simpl iter.
    unfold rstep at 2. cbn [r_res r_todo r_hdr r_st r_inner]. cbn [run_res].
    destruct m; try (apply IH; lia).
    destruct loop.
    + rewrite iter_fix by (eapply rstep_done; reflexivity). reflexivity.
    + apply IH. lia.
Qed.

(* ---------------- many messages, one stack, any schedule ---------------- *)

(* message i: environment, received request headers *)
Definition req_sys (envs : nat -> env) (hs : nat -> headers) : nat -> mstate :=
  fun i => mkM req_order (hs i) false None.

Theorem req_schedule_independent : forall envs hs sched i,
  let final := sys_run mstate (fun j => mstep (envs j)) sched (req_sys envs hs) in
  (forall r, m_res (final i) = Some r -> r = stack_req (envs i) (hs i)) /\
  (List.length req_order < count_occ Nat.eq_dec sched i ->
   m_res (final i) = Some (stack_req (envs i) (hs i))).
Proof.
  intros envs hs sched i final. subst final. rewrite sys_run_component. unfold req_sys, stack_req.
  split.
  - intros r H. eapply mstep_result. exact H.
  - intro Hk. apply mstep_finishes. exact Hk.
Qed.

Definition res_sys (hs : nat -> headers) (sts : nat -> N) : nat -> rstate :=
  fun i => mkR res_order (hs i) (sts i) false None.

Theorem res_schedule_independent : forall loops hs sts sched i,
  let final := sys_run rstate (fun j => rstep (loops j)) sched (res_sys hs sts) in
  (forall r, r_res (final i) = Some r -> r = stack_res (loops i) (hs i) (sts i)) /\
  (List.length res_order < count_occ Nat.eq_dec sched i ->
   r_res (final i) = Some (stack_res (loops i) (hs i) (sts i))).
Proof.
  intros loops hs sts sched i final. subst final. rewrite sys_run_component. unfold res_sys, stack_res.
  split.
  - intros r H. eapply rstep_result. exact H.
  - intro Hk. apply rstep_finishes. exact Hk.
Qed.
