(* C14 — the clause predicates hold of the model (repaired order), the boolean
   oracles are equivalent to the clause predicates, refutation witnesses. *)
From Coq Require Import List Ascii String NArith Bool Lia.
From Martian.C14 Require Import Gen_HopByHop Gen_Stack Model Proofs_Base Proofs_Stack.
Import ListNotations.

Definition model_req (e : env) (h : headers) : req_out := run_req e expected_req_order h false.
Definition model_res (loop : bool) (h : headers) (st : N) : res_out :=
  run_res loop expected_res_order h st false.

(* ---------------- classification ---------------- *)

Lemma class_is_fwd_iff : forall e h, class_is_fwd e h = true <-> classify e h = Forwarded.
Proof. intros e h. unfold class_is_fwd. destruct (classify e h); split; intro H; congruence. Qed.

Lemma classify_forwarded : forall e h, classify e h = Forwarded ->
  bad_framing h = false /\ names_self e h && negb (is_hopb h K_VIA) = false.
Proof.
  intros e h. unfold classify.
  destruct (bad_framing h); [discriminate|].
  destruct (names_self e h && negb (is_hopb h K_VIA)); [discriminate|]. auto.
Qed.

Lemma model_req_forwarded : forall e h, classify e h = Forwarded ->
  o_err (model_req e h) = None /\ o_skip (model_req e h) = false /\ o_inner (model_req e h) = true /\
  forall k, values (o_hdr (model_req e h)) k = expect e h k.
Proof.
  intros e h Hc. destruct (classify_forwarded e h Hc) as [Hb Hl].
  unfold model_req. rewrite run_req_expected, Hb, Hl. cbn [o_err o_skip o_inner o_hdr].
  repeat split. intro k. apply values_forwarded; assumption.
Qed.

(* ---------------- the model satisfies every clause but the full loop clause ---------------- *)

Lemma model_flagged : forall e h, P_flagged e h (model_req e h).
Proof.
  intros e h Hb. unfold model_req. rewrite run_req_expected, Hb. auto.
Qed.

Lemma model_no_false_flag : forall e h, P_no_false_flag e h (model_req e h).
Proof.
  intros e h. unfold P_no_false_flag, model_req. rewrite run_req_expected.
  destruct (bad_framing h); [reflexivity|].
  destruct (names_self e h && negb (is_hopb h K_VIA)); cbn [o_err]; discriminate.
Qed.

Lemma model_no_false_loop : forall e h, P_no_false_loop e h (model_req e h).
Proof.
  intros e h. unfold P_no_false_loop, model_req. rewrite run_req_expected.
  destruct (bad_framing h); cbn [o_err o_skip].
  - intros [H|H]; discriminate.
  - destruct (names_self e h && negb (is_hopb h K_VIA)) eqn:E; cbn [o_err o_skip].
    + intros _. apply andb_true_iff in E. tauto.
    + intros [H|H]; discriminate.
Qed.

Lemma model_loop_partial : forall e h,
  ~ is_hop h K_VIA -> P_loop e h (model_req e h).
Proof.
  intros e h Hn Hb Hs. apply is_hopb_false in Hn.
  unfold model_req. rewrite run_req_expected, Hb, Hs, Hn. cbn. auto.
Qed.

Lemma model_fwd_flags : forall e h, P_fwd_flags e h (model_req e h).
Proof. intros e h Hc. destruct (model_req_forwarded e h Hc) as [A [B [C _]]]. auto. Qed.

Lemma fresh_eq : forall e k,
  fresh e k =
  if beqb K_VIA k then [own_via e] else if beqb K_XFF k then [e_client e]
  else if beqb K_XFP k then [e_scheme e] else if beqb K_XFH k then [e_host e]
  else if beqb K_XFU k then [e_url e] else [].
Proof.
  intros e k. unfold fresh.
  rewrite (beqb_sym k K_VIA), (beqb_sym k K_XFF), (beqb_sym k K_XFP), (beqb_sym k K_XFH), (beqb_sym k K_XFU).
  reflexivity.
Qed.

Lemma model_no_hop : forall e h, P_no_hop e h (model_req e h).
Proof.
  intros e h Hc k Hk. destruct (model_req_forwarded e h Hc) as [_ [_ [_ Hv]]].
  rewrite Hv. apply is_hopb_iff in Hk. rewrite fresh_eq. unfold expect.
  keycase k K_VIA. { rewrite Hk. reflexivity. }
  keycase k K_XFF. { rewrite Hk. reflexivity. }
  keycase k K_XFP. { rewrite Hk. reflexivity. }
  keycase k K_XFH. { rewrite Hk. reflexivity. }
  keycase k K_XFU. { rewrite Hk. reflexivity. }
  rewrite Hk. reflexivity.
Qed.

Lemma model_via : forall e h, P_via e h (model_req e h).
Proof.
  intros e h Hc Hn. destruct (model_req_forwarded e h Hc) as [_ [_ [_ Hv]]].
  rewrite Hv. apply is_hopb_false in Hn. unfold expect. rewrite beqb_refl, Hn. reflexivity.
Qed.

Lemma model_xff : forall e h, P_xff e h (model_req e h).
Proof.
  intros e h Hc Hn. destruct (model_req_forwarded e h Hc) as [_ [_ [_ Hv]]].
  rewrite Hv. apply is_hopb_false in Hn. unfold expect.
  replace (beqb K_VIA K_XFF) with false by (vm_compute; reflexivity).
  rewrite beqb_refl, Hn. reflexivity.
Qed.

Lemma model_xfwd : forall e h, P_xfwd e h (model_req e h).
Proof.
  intros e h Hc k d Hin Hn. destruct (model_req_forwarded e h Hc) as [_ [_ [_ Hv]]].
  rewrite Hv. apply is_hopb_false in Hn. unfold expect.
  unfold xfwd_defaults in Hin. simpl in Hin.
  destruct Hin as [H|[H|[H|[]]]]; inversion H; subst k d; clear H.
  - replace (beqb K_VIA K_XFP) with false by (vm_compute; reflexivity).
    replace (beqb K_XFF K_XFP) with false by (vm_compute; reflexivity).
    rewrite beqb_refl, Hn. reflexivity.
  - replace (beqb K_VIA K_XFH) with false by (vm_compute; reflexivity).
    replace (beqb K_XFF K_XFH) with false by (vm_compute; reflexivity).
    replace (beqb K_XFP K_XFH) with false by (vm_compute; reflexivity).
    rewrite beqb_refl, Hn. reflexivity.
  - replace (beqb K_VIA K_XFU) with false by (vm_compute; reflexivity).
    replace (beqb K_XFF K_XFU) with false by (vm_compute; reflexivity).
    replace (beqb K_XFP K_XFU) with false by (vm_compute; reflexivity).
    replace (beqb K_XFH K_XFU) with false by (vm_compute; reflexivity).
    rewrite beqb_refl, Hn. reflexivity.
Qed.

Lemma model_cl : forall e h, P_cl e h (model_req e h).
Proof.
  intros e h Hc Hn. destruct (model_req_forwarded e h Hc) as [_ [_ [_ Hv]]].
  rewrite Hv. apply is_hopb_false in Hn. unfold expect.
  replace (beqb K_VIA K_CL) with false by (vm_compute; reflexivity).
  replace (beqb K_XFF K_CL) with false by (vm_compute; reflexivity).
  replace (beqb K_XFP K_CL) with false by (vm_compute; reflexivity).
  replace (beqb K_XFH K_CL) with false by (vm_compute; reflexivity).
  replace (beqb K_XFU K_CL) with false by (vm_compute; reflexivity).
  rewrite Hn, beqb_refl. reflexivity.
Qed.

Lemma not_special : forall k, ~ In k specials ->
  beqb K_VIA k = false /\ beqb K_XFF k = false /\ beqb K_XFP k = false /\
  beqb K_XFH k = false /\ beqb K_XFU k = false /\ beqb K_CL k = false.
Proof.
  intros k H. unfold specials in H. simpl in H.
  repeat split; apply beqb_neq; intro E; apply H; subst k; tauto.
Qed.

Lemma model_others : forall e h, P_others e h (model_req e h).
Proof.
  intros e h Hc k Hn Hs. destruct (model_req_forwarded e h Hc) as [_ [_ [_ Hv]]].
  rewrite Hv. apply is_hopb_false in Hn.
  destruct (not_special k Hs) as [A [B [C [D [E F]]]]].
  unfold expect. rewrite A, B, C, D, E, Hn, F. reflexivity.
Qed.

(* responses *)
Lemma model_res_loop : forall loop h st, P_res_loop loop h st (model_res loop h st).
Proof. intros loop h st Hl. unfold model_res. rewrite run_res_expected, Hl. auto. Qed.

Lemma model_res_flags : forall loop h st, P_res_flags loop h st (model_res loop h st).
Proof. intros loop h st Hl. unfold model_res. rewrite run_res_expected, Hl. auto. Qed.

Lemma model_res_no_hop : forall loop h st, P_res_no_hop loop h st (model_res loop h st).
Proof.
  intros loop h st Hl k Hk. unfold model_res. rewrite run_res_expected, Hl. cbn [s_hdr].
  rewrite values_mod_hbh. apply is_hopb_iff in Hk. rewrite Hk. reflexivity.
Qed.

Lemma model_res_others : forall loop h st, P_res_others loop h st (model_res loop h st).
Proof.
  intros loop h st Hl k Hk. unfold model_res. rewrite run_res_expected, Hl. cbn [s_hdr].
  rewrite values_mod_hbh. apply is_hopb_false in Hk. rewrite Hk. reflexivity.
Qed.

(* ---------------- K1: the full loop clause is refuted ---------------- *)

Definition k1_env : env :=
  mkEnv (B "martian-SELF") (B "1.1") (B "10.0.0.1") (B "http") (B "example.com") (B "http://example.com/").
Definition k1_hdr : headers :=
  of_lines [(B "Connection", B "close, via"); (B "Via", B "1.0 other, 1.1 martian-SELF")].

Lemma loop_refuted : exists e h, ~ P_loop e h (model_req e h).
Proof.
  exists k1_env, k1_hdr. intro H.
  assert (Hb : bad_framing k1_hdr = false) by (vm_compute; reflexivity).
  assert (Hs : names_self k1_env k1_hdr = true) by (vm_compute; reflexivity).
  destruct (H Hb Hs) as [He _]. vm_compute in He. discriminate.
Qed.

(* ---------------- bad framing means what the property says ---------------- *)

Lemma conflicting_content_length_is_bad : forall h a b,
  In a (map trim (cl_elems h)) -> In b (map trim (cl_elems h)) ->
  a <> [] -> b <> [] -> a <> b -> bad_framing h = true.
Proof.
  intros h a b Ha Hb Hane Hbne Hab. unfold bad_framing, cl_conflict.
  rewrite (cl_scan_conflict _ a b Ha Hb Hane Hbne Hab).
  destruct (values h K_CL) eqn:E.
  - unfold cl_elems in Ha. rewrite E in Ha. simpl in Ha. contradiction.
  - reflexivity.
Qed.

Lemma te_not_ending_in_chunked_is_bad : forall h,
  values h K_TE <> [] ->
  trim (last (split_on comma (last (values h K_TE) [])) []) <> CHUNKED ->
  bad_framing h = true.
Proof.
  intros h Hne Hl. unfold bad_framing, te_bad, te_last_ok.
  apply beqb_neq in Hl. rewrite Hl.
  destruct (values h K_TE); [congruence|]. simpl. apply orb_true_r.
Qed.

(* ---------------- hop-by-hop: fixed list, any case, any spacing ---------------- *)

Lemma fixed_list_is_hop : forall h k, In k fixed_hop -> is_hop h k.
Proof. intros h k H. left. exact H. Qed.

Lemma connection_token_is_hop : forall h v t n,
  In v (values h K_CONNECTION) -> In t (split_on comma v) ->
  forallb is_token_char n = true -> lower n = lower (trim t) ->
  is_hop h (canonical_key n).
Proof.
  intros h v t n Hv Ht Hn Hl. right. unfold conn_tokens.
  rewrite (canonical_key_case_insensitive n (trim t) Hl Hn).
  apply (in_map (fun v0 => canonical_key (trim v0))). apply in_flat_map. exists v. split; assumption.
Qed.

(* ---------------- oracles = clause predicates ---------------- *)

Lemma b_flagged_iff : forall e h o, b_flagged e h o = true <-> P_flagged e h o.
Proof.
  intros e h o. unfold b_flagged, P_flagged. rewrite implb_true.
  rewrite !andb_true_iff, err_eqb_eq, !negb_true_iff. tauto.
Qed.

Lemma b_no_false_flag_iff : forall e h o, b_no_false_flag e h o = true <-> P_no_false_flag e h o.
Proof.
  intros e h o. unfold b_no_false_flag, P_no_false_flag. rewrite implb_true, err_eqb_eq. tauto.
Qed.

Lemma b_loop_iff : forall e h o, b_loop e h o = true <-> P_loop e h o.
Proof.
  intros e h o. unfold b_loop, P_loop. rewrite implb_true.
  rewrite !andb_true_iff, err_eqb_eq, !negb_true_iff. tauto.
Qed.

Lemma b_no_false_loop_iff : forall e h o, b_no_false_loop e h o = true <-> P_no_false_loop e h o.
Proof.
  intros e h o. unfold b_no_false_loop, P_no_false_loop. rewrite implb_true.
  rewrite orb_true_iff, err_eqb_eq. tauto.
Qed.

Lemma b_fwd_flags_iff : forall e h o, b_fwd_flags e h o = true <-> P_fwd_flags e h o.
Proof.
  intros e h o. unfold b_fwd_flags, P_fwd_flags. rewrite implb_true, class_is_fwd_iff.
  rewrite !andb_true_iff, err_eqb_eq, !negb_true_iff. tauto.
Qed.

Lemma b_no_hop_iff : forall e h o, b_no_hop e h o = true <-> P_no_hop e h o.
Proof.
  intros e h o. unfold b_no_hop, P_no_hop. rewrite implb_true, class_is_fwd_iff, forallb_forall.
  split; intros H Hc k Hk.
  - apply vals_eqb_eq. apply H; [exact Hc|]. apply in_or_app. destruct Hk; auto.
  - apply vals_eqb_eq. apply H; [exact Hc|]. apply in_app_or in Hk. destruct Hk; [left|right]; assumption.
Qed.

Lemma guarded_iff : forall e h K (b : bool) (P : Prop),
  (b = true <-> P) ->
  (implb (class_is_fwd e h && negb (is_hopb h K)) b = true <->
   (classify e h = Forwarded -> ~ is_hop h K -> P)).
Proof.
  intros e h K b P Hb. rewrite implb_true, andb_true_iff, class_is_fwd_iff, negb_true_iff, is_hopb_false.
  rewrite Hb. tauto.
Qed.

Lemma b_via_iff : forall e h o, b_via e h o = true <-> P_via e h o.
Proof. intros e h o. unfold b_via, P_via. apply guarded_iff. apply vals_eqb_eq. Qed.

Lemma b_xff_iff : forall e h o, b_xff e h o = true <-> P_xff e h o.
Proof. intros e h o. unfold b_xff, P_xff. apply guarded_iff. apply vals_eqb_eq. Qed.

Lemma b_cl_iff : forall e h o, b_cl e h o = true <-> P_cl e h o.
Proof. intros e h o. unfold b_cl, P_cl. apply guarded_iff. apply vals_eqb_eq. Qed.

Lemma b_xfwd_iff : forall e h o, b_xfwd e h o = true <-> P_xfwd e h o.
Proof.
  intros e h o. unfold b_xfwd, P_xfwd. rewrite implb_true, class_is_fwd_iff, forallb_forall.
  split; intros H Hc.
  - intros k d Hin Hn. specialize (H Hc (k, d) Hin). cbn [fst snd] in H.
    rewrite implb_true, negb_true_iff, is_hopb_false in H. apply vals_eqb_eq. apply H. exact Hn.
  - intros [k d] Hin. cbn [fst snd]. rewrite implb_true, negb_true_iff, is_hopb_false.
    intro Hn. apply vals_eqb_eq. apply (H Hc k d Hin Hn).
Qed.

Lemma b_others_iff : forall e h o, b_others e h o = true <-> P_others e h o.
Proof.
  intros e h o. unfold b_others, P_others. rewrite implb_true, class_is_fwd_iff, forallb_forall.
  split; intros H Hc.
  - intros k Hn Hs.
    destruct (in_dec (list_eq_dec ascii_dec) k (keys h ++ keys (o_hdr o))) as [Hin|Hout].
    + specialize (H Hc k Hin). rewrite implb_true, andb_true_iff, !negb_true_iff in H.
      apply vals_eqb_eq. apply H. split; [apply is_hopb_false; exact Hn | apply mem_false; exact Hs].
    + rewrite !values_not_key; [reflexivity| |]; intro Hc'; apply Hout; apply in_or_app; auto.
  - intros k _. rewrite implb_true, andb_true_iff, !negb_true_iff, is_hopb_false, mem_false.
    intros [Hn Hs]. apply vals_eqb_eq. apply (H Hc k Hn Hs).
Qed.

Definition Req_spec (e : env) (h : headers) (o : req_out) : Prop :=
  P_flagged e h o /\ P_no_false_flag e h o /\ P_loop e h o /\ P_no_false_loop e h o /\
  P_fwd_flags e h o /\ P_no_hop e h o /\ P_via e h o /\ P_xff e h o /\ P_xfwd e h o /\
  P_cl e h o /\ P_others e h o.

Lemma c14_req_ok_iff : forall e h o, c14_req_ok e h o = true <-> Req_spec e h o.
Proof.
  intros e h o. unfold c14_req_ok, c14_req_clauses, Req_spec. cbn [forallb snd].
  rewrite !andb_true_iff.
  rewrite b_flagged_iff, b_no_false_flag_iff, b_loop_iff, b_no_false_loop_iff, b_fwd_flags_iff,
          b_no_hop_iff, b_via_iff, b_xff_iff, b_xfwd_iff, b_cl_iff, b_others_iff.
  tauto.
Qed.

Lemma first_false_none : forall l, first_false l = None <-> forallb snd l = true.
Proof.
  induction l as [|[n b] l IH]; simpl; [tauto|].
  destruct b; simpl; [exact IH | split; discriminate].
Qed.

(* responses *)
Lemma b_res_loop_iff : forall loop h st o, b_res_loop loop h st o = true <-> P_res_loop loop h st o.
Proof.
  intros loop h st o. unfold b_res_loop, P_res_loop. rewrite implb_true, andb_true_iff, N.eqb_eq. tauto.
Qed.

Lemma b_res_flags_iff : forall loop h st o, b_res_flags loop h st o = true <-> P_res_flags loop h st o.
Proof.
  intros loop h st o. unfold b_res_flags, P_res_flags.
  rewrite implb_true, !andb_true_iff, N.eqb_eq, !negb_true_iff. tauto.
Qed.

Lemma b_res_no_hop_iff : forall loop h st o, b_res_no_hop loop h st o = true <-> P_res_no_hop loop h st o.
Proof.
  intros loop h st o. unfold b_res_no_hop, P_res_no_hop.
  rewrite implb_true, negb_true_iff, forallb_forall.
  split; intros H Hl k Hk.
  - apply is_nil_true. apply H; [exact Hl|]. apply in_or_app. destruct Hk; auto.
  - apply is_nil_true. apply H; [exact Hl|]. apply in_app_or in Hk. destruct Hk; [left|right]; assumption.
Qed.

Lemma b_res_others_iff : forall loop h st o, b_res_others loop h st o = true <-> P_res_others loop h st o.
Proof.
  intros loop h st o. unfold b_res_others, P_res_others.
  rewrite implb_true, negb_true_iff, forallb_forall.
  split; intros H Hl.
  - intros k Hn.
    destruct (in_dec (list_eq_dec ascii_dec) k (keys h ++ keys (s_hdr o))) as [Hin|Hout].
    + specialize (H Hl k Hin). rewrite implb_true, negb_true_iff, is_hopb_false in H.
      apply vals_eqb_eq. apply H. exact Hn.
    + rewrite !values_not_key; [reflexivity| |]; intro Hc'; apply Hout; apply in_or_app; auto.
  - intros k _. rewrite implb_true, negb_true_iff, is_hopb_false.
    intro Hn. apply vals_eqb_eq. apply (H Hl k Hn).
Qed.

Definition Res_spec (loop : bool) (h : headers) (st : N) (o : res_out) : Prop :=
  P_res_loop loop h st o /\ P_res_flags loop h st o /\ P_res_no_hop loop h st o /\ P_res_others loop h st o.

Lemma c14_res_ok_iff : forall loop h st o, c14_res_ok loop h st o = true <-> Res_spec loop h st o.
Proof.
  intros loop h st o. unfold c14_res_ok, c14_res_clauses, Res_spec. cbn [forallb snd].
  rewrite !andb_true_iff.
  rewrite b_res_loop_iff, b_res_flags_iff, b_res_no_hop_iff, b_res_others_iff. tauto.
Qed.

(* correspondence comparison is lookup equality *)
Lemma req_out_eqb_iff : forall a b, req_out_eqb a b = true <->
  (forall k, values (o_hdr a) k = values (o_hdr b) k) /\ o_err a = o_err b /\
  o_skip a = o_skip b /\ o_inner a = o_inner b.
Proof.
  intros a b. unfold req_out_eqb. rewrite !andb_true_iff, hdr_eqb_iff, err_eqb_eq, !eqb_true_iff. tauto.
Qed.

(* ---------------- exactly one Via entry names this proxy ---------------- *)

Definition count_self (self v : bytes) : nat :=
  List.length (filter (entry_names self) (split_on comma v)).

(* the proxy's own entry is one list element and names the proxy
   (true whenever requestedBy-boundary and the protocol version contain no
   comma or white space; checked by computation for concrete environments) *)
Definition own_entry_ok (e : env) : bool :=
  entry_names (e_self e) (own_via e) &&
  list_eqb beqb (split_on comma (own_via e)) [own_via e].

Lemma filter_none : forall A (f : A -> bool) l, existsb f l = false -> filter f l = [].
Proof.
  induction l as [|x l IH]; simpl; intro H; [reflexivity|].
  apply orb_false_iff in H as [H1 H2]. rewrite H1. apply IH. exact H2.
Qed.

Lemma via_names_self_once : forall e h,
  own_entry_ok e = true -> classify e h = Forwarded -> ~ is_hop h K_VIA ->
  exists v, values (o_hdr (model_req e h)) K_VIA = [v] /\ count_self (e_self e) v = 1.
Proof.
  intros e h Hok Hc Hn.
  exists (append_to (joined h K_VIA) (own_via e)). split; [apply model_via; assumption|].
  apply andb_true_iff in Hok as [Hown Hsplit]. apply vals_eqb_eq in Hsplit.
  destruct (classify_forwarded e h Hc) as [_ Hl].
  apply is_hopb_false in Hn. rewrite Hn, andb_true_r in Hl.
  assert (Hj : has_loop (e_self e) (joined h K_VIA) = false).
  { unfold joined. rewrite has_loop_join. exact Hl. }
  unfold count_self, append_to.
  destruct (is_nil (joined h K_VIA)) eqn:En.
  - rewrite Hsplit. simpl. rewrite Hown. reflexivity.
  - change (joined h K_VIA ++ comma_sp ++ own_via e)
      with (joined h K_VIA ++ comma :: " "%char :: own_via e).
    rewrite split_on_app, filter_app.
    unfold has_loop in Hj. rewrite (filter_none _ _ _ Hj).
    destruct (split_on_cons_other comma " "%char (own_via e)) as [p [ps [H1 H2]]]; [vm_compute; reflexivity|].
    rewrite Hsplit in H1. inversion H1; subst p ps. rewrite H2. cbn [app filter].
    rewrite entry_names_space, Hown. reflexivity.
Qed.
