(* C14 — audit lemmas: every verdict the driver can print is tied to a Prop;
   closed form of the whole stack; totalisation defaults are never what makes
   a theorem true. *)
From Coq Require Import List Ascii String NArith Bool Arith Lia.
From Martian.C14 Require Import Gen_HopByHop Gen_Stack Model Proofs_Base Proofs_Stack Proofs_Spec.
Import ListNotations.

(* ---------------- PROPFAIL <clause> names a clause predicate that is false ---------------- *)

Definition req_clause_props (e : env) (h : headers) (o : req_out) : list (string * Prop) :=
  [ ("bad_framing_flagged", P_flagged e h o);
    ("no_false_flag", P_no_false_flag e h o);
    ("loop_detected_skip_and_400", P_loop e h o);
    ("no_false_loop", P_no_false_loop e h o);
    ("forwarded_flags", P_fwd_flags e h o);
    ("no_hop_by_hop_survives", P_no_hop e h o);
    ("via_appended_once", P_via e h o);
    ("xff_appended", P_xff e h o);
    ("xfwd_preserved", P_xfwd e h o);
    ("content_length_normalised", P_cl e h o);
    ("others_untouched", P_others e h o) ]%string.

Definition res_clause_props (loop : bool) (h : headers) (st : N) (o : res_out) : list (string * Prop) :=
  [ ("loop_detected_skip_and_400", P_res_loop loop h st o);
    ("response_flags", P_res_flags loop h st o);
    ("no_hop_by_hop_survives", P_res_no_hop loop h st o);
    ("others_untouched", P_res_others loop h st o) ]%string.

Definition reflects (nb : string * bool) (np : string * Prop) : Prop :=
  fst nb = fst np /\ (snd nb = true <-> snd np).

Ltac one L :=
  apply Forall2_cons; [unfold reflects; split; [reflexivity | cbn [snd]; apply L] | ].

Lemma req_clauses_reflect : forall e h o,
  Forall2 reflects (c14_req_clauses e h o) (req_clause_props e h o).
Proof.
  intros e h o. unfold c14_req_clauses, req_clause_props.
  one b_flagged_iff. one b_no_false_flag_iff. one b_loop_iff. one b_no_false_loop_iff.
  one b_fwd_flags_iff. one b_no_hop_iff. one b_via_iff. one b_xff_iff. one b_xfwd_iff.
  one b_cl_iff. one b_others_iff. apply Forall2_nil.
Qed.

Lemma res_clauses_reflect : forall loop h st o,
  Forall2 reflects (c14_res_clauses loop h st o) (res_clause_props loop h st o).
Proof.
  intros loop h st o. unfold c14_res_clauses, res_clause_props.
  one b_res_loop_iff. one b_res_flags_iff. one b_res_no_hop_iff. one b_res_others_iff.
  apply Forall2_nil.
Qed.

Lemma first_false_some : forall l n, first_false l = Some n -> In (n, false) l.
Proof.
  induction l as [|[m b] l IH]; intros n H; simpl in H; [discriminate|].
  destruct b.
  - right. apply IH. exact H.
  - inversion H. left. reflexivity.
Qed.

Lemma reflects_false : forall l lp n,
  Forall2 reflects l lp -> In (n, false) l -> exists P : Prop, In (n, P) lp /\ ~ P.
Proof.
  intros l lp n HF. induction HF as [|[m b] [m' P] l lp [Hn Hb] HF IH]; intro Hin; [contradiction|].
  destruct Hin as [Hin|Hin].
  - inversion Hin; subst m b. cbn [fst snd] in *. subst m'.
    exists P. split; [left; reflexivity|]. intro HP. apply Hb in HP. discriminate.
  - destruct (IH Hin) as [Q [HQ HnQ]]. exists Q. split; [right; exact HQ | exact HnQ].
Qed.

Lemma reflects_all_true : forall l lp,
  Forall2 reflects l lp -> forallb snd l = true -> Forall (fun np => snd np) lp.
Proof.
  intros l lp HF. induction HF as [|[m b] [m' P] l lp [Hn Hb] HF IH]; intro H; [constructor|].
  simpl in H. apply andb_true_iff in H as [H1 H2]. constructor; [apply Hb; exact H1 | apply IH; exact H2].
Qed.

Lemma req_propfail_sound : forall e h o c,
  first_false (c14_req_clauses e h o) = Some c ->
  exists P : Prop, In (c, P) (req_clause_props e h o) /\ ~ P.
Proof.
  intros e h o c H. eapply reflects_false; [apply req_clauses_reflect | apply first_false_some; exact H].
Qed.

Lemma res_propfail_sound : forall loop h st o c,
  first_false (c14_res_clauses loop h st o) = Some c ->
  exists P : Prop, In (c, P) (res_clause_props loop h st o) /\ ~ P.
Proof.
  intros loop h st o c H. eapply reflects_false; [apply res_clauses_reflect | apply first_false_some; exact H].
Qed.

Lemma req_ok_all_clauses : forall e h o,
  first_false (c14_req_clauses e h o) = None -> Forall (fun np => snd np) (req_clause_props e h o).
Proof.
  intros e h o H. eapply reflects_all_true; [apply req_clauses_reflect | apply first_false_none; exact H].
Qed.

Lemma res_ok_all_clauses : forall loop h st o,
  first_false (c14_res_clauses loop h st o) = None -> Forall (fun np => snd np) (res_clause_props loop h st o).
Proof.
  intros loop h st o H. eapply reflects_all_true; [apply res_clauses_reflect | apply first_false_none; exact H].
Qed.

(* ---------------- the other functions the driver calls ---------------- *)

Lemma res_out_eqb_iff : forall a b, res_out_eqb a b = true <->
  (forall k, values (s_hdr a) k = values (s_hdr b) k) /\ s_status a = s_status b /\
  s_err a = s_err b /\ s_inner a = s_inner b.
Proof.
  intros a b. unfold res_out_eqb. rewrite !andb_true_iff, hdr_eqb_iff, N.eqb_eq, !eqb_true_iff. tauto.
Qed.

Lemma values_without : forall h ks k,
  values (without h ks) k = if mem k ks then [] else values h k.
Proof.
  induction h as [|[k0 vs] h IH]; intros ks k; simpl.
  - destruct (mem k ks); reflexivity.
  - destruct (mem k0 ks) eqn:Em; simpl.
    + rewrite IH. destruct (beqb k0 k) eqn:E; [apply beqb_eq in E; subst k0; rewrite Em|]; reflexivity.
    + destruct (beqb k0 k) eqn:E.
      * apply beqb_eq in E. subst k0. rewrite Em. reflexivity.
      * apply IH.
Qed.

Lemma rfc_covered_iff : rfc_covered = true <-> (forall k, In k rfc_hop_by_hop -> In k fixed_hop).
Proof.
  unfold rfc_covered. rewrite forallb_forall. split; intros H k Hk.
  - apply mem_In. apply H. exact Hk.
  - apply mem_In. apply H. exact Hk.
Qed.

Lemma has_close_iff : forall h, has_close h = true <->
  exists v t, In v (values h K_CONNECTION) /\ In t (split_on comma v) /\ lower (trim t) = B "close".
Proof.
  intros h. unfold has_close. rewrite existsb_exists. split.
  - intros [v [Hv H]]. apply existsb_exists in H as [t [Ht H]]. apply beqb_eq in H. exists v, t. auto.
  - intros [v [t [Hv [Ht H]]]]. exists v. split; [exact Hv|]. apply existsb_exists. exists t.
    split; [exact Ht | apply beqb_eq; exact H].
Qed.

(* ---------------- closed form of the request stack, all three classes ---------------- *)

Lemma stack_closed_form : forall e h,
  model_req e h =
  (if bad_framing h then mkReqOut (after_framing h) (Some EFraming) false false
   else if names_self e h && negb (is_hopb h K_VIA)
        then mkReqOut (after_fwd e h) (Some ELoop) true false
        else mkReqOut (fst (mod_via e (after_fwd e h))) None false true) /\
  (classify e h = Forwarded -> forall k, values (o_hdr (model_req e h)) k = expect e h k).
Proof.
  intros e h. split; [apply run_req_expected|].
  intro Hc. apply model_req_forwarded. exact Hc.
Qed.

(* ---------------- totalisation: defaults that are never consulted ---------------- *)

Lemma last_default_irrelevant : forall A (l : list A) d d', l <> [] -> last l d = last l d'.
Proof.
  induction l as [|x l IH]; intros d d' H; [congruence|].
  destruct l as [|y l]; [reflexivity|]. simpl. apply IH. discriminate.
Qed.

(* [last (split_on c s) []]: split_on never returns [] *)
Lemma last_split_default_irrelevant : forall c s d,
  last (split_on c s) d = last (split_on c s) [].
Proof. intros. apply last_default_irrelevant. apply split_on_nonempty. Qed.

(* [last tes []] in te_last_ok is read only behind the [is_nil] test *)
Lemma te_bad_guarded : forall h, te_bad h = true -> values h K_TE <> [].
Proof.
  intros h H. unfold te_bad in H. apply andb_true_iff in H as [H _].
  destruct (values h K_TE); [discriminate | discriminate].
Qed.

Lemma te_last_ok_default_irrelevant : forall tes d, tes <> [] ->
  te_last_ok tes = beqb (trim (last (split_on comma (last tes d)) d)) CHUNKED.
Proof.
  intros tes d H. unfold te_last_ok.
  rewrite (last_default_irrelevant _ tes [] d H).
  rewrite (last_split_default_irrelevant comma (last tes d) d). reflexivity.
Qed.

(* with no Transfer-Encoding the framing modifier never looks at te_last_ok *)
Lemma framing_without_te : forall h, values h K_TE = [] ->
  bad_framing h = cl_conflict h.
Proof.
  intros h H. unfold bad_framing, te_bad. rewrite H. simpl. apply orb_false_r.
Qed.

(* the unreachable branch of split_on: a split result is never [] *)
Lemma split_on_cons_shape : forall c x s, exists p ps, split_on c (x :: s) = p :: ps.
Proof.
  intros c x s. destruct (split_on c (x :: s)) as [|p ps] eqn:E.
  - exfalso. eapply split_on_nonempty. exact E.
  - eauto.
Qed.

(* to_upper subtracts 32 from a code that is at least 97: no truncated N subtraction *)
Lemma to_upper_no_truncation : forall c, is_lower c = true -> (32 <= code c)%N.
Proof.
  intros c H. unfold is_lower, in_range in H. apply andb_true_iff in H as [H _].
  apply N.leb_le in H. lia.
Qed.

(* second_field = None is Go's len(parts) < 2 (no blank after the first field): such an
   element never names the proxy, and no default stands in for parts[1] *)
Lemma entry_names_needs_second_field : forall self x,
  entry_names self x = true -> exists f, second_field (trim x) = Some f /\ f = self.
Proof.
  intros self x H. unfold entry_names in H.
  destruct (second_field (trim x)) as [f|]; [|discriminate].
  apply beqb_eq in H. exists f. auto.
Qed.
