(* C14 — instance identity and chains: a request handed from proxy instance to
   proxy instance (each with its own pseudonym requestedBy-boundary).  Distinct
   pseudonyms: no hop sees a loop, every hop appends its entry, in order; a
   pseudonym met again: that hop refuses. *)
From Coq Require Import List Ascii String NArith Bool Arith Lia.
From Martian.C14 Require Import Gen_HopByHop Gen_Stack Model Proofs_Base Proofs_Stack Proofs_Spec.
Import ListNotations.

(* ---------------- small string facts ---------------- *)

Lemma no_sep_split : forall c s, ~ In c s -> split_on c s = [s].
Proof.
  intros c. induction s as [|x s IH]; intro H; simpl; [reflexivity|].
  destruct (Ascii.eqb x c) eqn:E.
  - apply Ascii.eqb_eq in E. subst x. exfalso. apply H. left. reflexivity.
  - rewrite IH; [reflexivity|]. intro Hc. apply H. right. exact Hc.
Qed.

Lemma split_elem_no_sep : forall c s x, In x (split_on c s) -> ~ In c x.
Proof.
  intros c. induction s as [|y s IH]; intros x H; simpl in H.
  - destruct H as [H|[]]. subst x. intros [].
  - destruct (Ascii.eqb y c) eqn:E.
    + destruct H as [H|H]; [subst x; intros [] | apply IH; exact H].
    + destruct (split_on c s) as [|p ps] eqn:Es.
      * exfalso. eapply split_on_nonempty. exact Es.
      * destruct H as [H|H].
        -- subst x. intros [Hc|Hc].
           ++ subst y. rewrite Ascii.eqb_refl in E. discriminate.
           ++ apply (IH p); [left; reflexivity | exact Hc].
        -- apply IH. right. exact H.
Qed.

Lemma drop_while_subset : forall p s (c : ascii), In c (drop_while p s) -> In c s.
Proof.
  intros p. induction s as [|x s IH]; intros c H; simpl in H; [contradiction|].
  destruct (p x); [right; apply IH; exact H | exact H].
Qed.

Lemma trim_subset : forall s c, In c (trim s) -> In c s.
Proof.
  intros s c H. unfold trim in H. apply in_rev in H. apply drop_while_subset in H.
  apply in_rev in H. apply drop_while_subset in H. exact H.
Qed.

Lemma cl_scan_result : forall ls l0 len,
  cl_scan l0 ls = Some len -> len = l0 \/ In len (map trim ls).
Proof.
  induction ls as [|l r IH]; intros l0 len H.
  - simpl in H. inversion H. left. reflexivity.
  - rewrite cl_scan_cons in H. destruct (is_nil l0) eqn:En.
    + apply IH in H. destruct H as [H|H]; right; [left; symmetry; exact H | right; exact H].
    + destruct (beqb l0 (trim l)); [|discriminate].
      apply IH in H. destruct H as [H|H]; [left; exact H | right; right; exact H].
Qed.

Lemma cl_elem_no_comma : forall h x, In x (map trim (cl_elems h)) -> ~ In comma x.
Proof.
  intros h x H Hc. apply in_map_iff in H as [y [Hy Hin]]. subst x.
  apply trim_subset in Hc. unfold cl_elems in Hin. apply in_flat_map in Hin as [v [_ Hv]].
  eapply split_elem_no_sep; eauto.
Qed.

(* ---------------- what one forwarded hop hands on ---------------- *)

Definition Good (h : headers) : Prop := bad_framing h = false /\ is_hopb h K_VIA = false.

Lemma forwarded_when_good : forall e h,
  Good h -> names_tag (e_self e) h = false -> classify e h = Forwarded.
Proof.
  intros e h [Hb Hv] Hn. unfold classify. rewrite Hb.
  change (names_self e h) with (names_tag (e_self e) h). rewrite Hn. reflexivity.
Qed.

Lemma out_values : forall e h k, classify e h = Forwarded ->
  values (o_hdr (model_req e h)) k = expect e h k.
Proof. intros e h k Hc. apply model_req_forwarded. exact Hc. Qed.

Lemma te_is_fixed_hop : mem K_TE fixed_hop = true. Proof. vm_compute. reflexivity. Qed.
Lemma connection_is_fixed_hop : mem K_CONNECTION fixed_hop = true. Proof. vm_compute. reflexivity. Qed.
Lemma via_not_fixed_hop : mem K_VIA fixed_hop = false. Proof. vm_compute. reflexivity. Qed.

Lemma out_te : forall e h, classify e h = Forwarded -> values (o_hdr (model_req e h)) K_TE = [].
Proof.
  intros e h Hc. rewrite out_values by exact Hc. unfold expect.
  replace (beqb K_VIA K_TE) with false by (vm_compute; reflexivity).
  replace (beqb K_XFF K_TE) with false by (vm_compute; reflexivity).
  replace (beqb K_XFP K_TE) with false by (vm_compute; reflexivity).
  replace (beqb K_XFH K_TE) with false by (vm_compute; reflexivity).
  replace (beqb K_XFU K_TE) with false by (vm_compute; reflexivity).
  unfold is_hopb. rewrite te_is_fixed_hop. reflexivity.
Qed.

Lemma out_connection : forall e h, classify e h = Forwarded ->
  values (o_hdr (model_req e h)) K_CONNECTION = [].
Proof.
  intros e h Hc. rewrite out_values by exact Hc. unfold expect.
  replace (beqb K_VIA K_CONNECTION) with false by (vm_compute; reflexivity).
  replace (beqb K_XFF K_CONNECTION) with false by (vm_compute; reflexivity).
  replace (beqb K_XFP K_CONNECTION) with false by (vm_compute; reflexivity).
  replace (beqb K_XFH K_CONNECTION) with false by (vm_compute; reflexivity).
  replace (beqb K_XFU K_CONNECTION) with false by (vm_compute; reflexivity).
  unfold is_hopb. rewrite connection_is_fixed_hop. reflexivity.
Qed.

Lemma out_cl : forall e h, classify e h = Forwarded ->
  values (o_hdr (model_req e h)) K_CL = [] \/
  exists len, values (o_hdr (model_req e h)) K_CL = [len] /\ ~ In comma len.
Proof.
  intros e h Hc. rewrite out_values by exact Hc. unfold expect.
  replace (beqb K_VIA K_CL) with false by (vm_compute; reflexivity).
  replace (beqb K_XFF K_CL) with false by (vm_compute; reflexivity).
  replace (beqb K_XFP K_CL) with false by (vm_compute; reflexivity).
  replace (beqb K_XFH K_CL) with false by (vm_compute; reflexivity).
  replace (beqb K_XFU K_CL) with false by (vm_compute; reflexivity).
  destruct (is_hopb h K_CL); [left; reflexivity|]. rewrite beqb_refl.
  unfold cl_expected.
  destruct (negb (is_nil (values h K_TE))); [left; reflexivity|].
  destruct (is_nil (values h K_CL)); [left; reflexivity|].
  destruct (cl_scan [] (cl_elems h)) as [len|] eqn:Es; [|left; reflexivity].
  right. exists len. split; [reflexivity|].
  apply cl_scan_result in Es. destruct Es as [Es|Es].
  - subst len. intros [].
  - eapply cl_elem_no_comma. exact Es.
Qed.

Lemma out_good : forall e h, classify e h = Forwarded -> Good (o_hdr (model_req e h)).
Proof.
  intros e h Hc. split.
  - unfold bad_framing, te_bad, cl_conflict. rewrite (out_te e h Hc). simpl. rewrite orb_false_r.
    destruct (out_cl e h Hc) as [H|[len [H Hn]]].
    + rewrite H. reflexivity.
    + unfold cl_elems. rewrite H. simpl. rewrite app_nil_r. rewrite (no_sep_split _ _ Hn).
      rewrite cl_scan_cons. reflexivity.
  - unfold is_hopb. rewrite via_not_fixed_hop. unfold conn_tokens.
    rewrite (out_connection e h Hc). reflexivity.
Qed.

Lemma entry_names_own : forall e s, own_entry_ok e = true ->
  entry_names s (own_via e) = beqb (e_self e) s.
Proof.
  intros e s Hok. apply andb_true_iff in Hok as [Hown _].
  unfold entry_names in *. destruct (second_field (trim (own_via e))) as [f|]; [|discriminate].
  apply beqb_eq in Hown. subst f. reflexivity.
Qed.

Lemma out_names_tag : forall e h s,
  own_entry_ok e = true -> classify e h = Forwarded -> is_hopb h K_VIA = false ->
  names_tag s (o_hdr (model_req e h)) = names_tag s h || beqb (e_self e) s.
Proof.
  intros e h s Hok Hc Hv.
  assert (Hvia : values (o_hdr (model_req e h)) K_VIA = [append_to (joined h K_VIA) (own_via e)]).
  { apply model_via; [exact Hc | apply is_hopb_false; exact Hv]. }
  unfold names_tag at 1. unfold via_entries. rewrite Hvia. simpl. rewrite app_nil_r.
  assert (Hold : names_tag s h = has_loop s (joined h K_VIA)).
  { unfold joined. rewrite has_loop_join. reflexivity. }
  pose proof Hok as Hok'. apply andb_true_iff in Hok' as [_ Hsplit]. apply vals_eqb_eq in Hsplit.
  unfold append_to. destruct (is_nil (joined h K_VIA)) eqn:En.
  - apply is_nil_true in En. rewrite Hold, En. rewrite Hsplit. simpl.
    rewrite (entry_names_own e s Hok). rewrite orb_false_r. reflexivity.
  - change (joined h K_VIA ++ comma_sp ++ own_via e)
      with (joined h K_VIA ++ comma :: " "%char :: own_via e).
    rewrite split_on_app, existsb_app, existsb_split_space, Hsplit. simpl.
    rewrite (entry_names_own e s Hok), orb_false_r, Hold. reflexivity.
Qed.

Lemma out_joined_via : forall e h, classify e h = Forwarded -> is_hopb h K_VIA = false ->
  joined (o_hdr (model_req e h)) K_VIA = append_to (joined h K_VIA) (own_via e).
Proof.
  intros e h Hc Hv. unfold joined at 1.
  rewrite (model_via e h Hc) by (apply is_hopb_false; exact Hv). reflexivity.
Qed.

(* ---------------- chains ---------------- *)

Fixpoint chain_m (es : list env) (h : headers) : list req_out :=
  match es with
  | [] => []
  | e :: r =>
      let o := model_req e h in
      o :: match o_err o with None => chain_m r (o_hdr o) | Some _ => [] end
  end.

(* every hop's output, were no hop to stop the request *)
Fixpoint chain_outs (es : list env) (h : headers) : list req_out :=
  match es with
  | [] => []
  | e :: r => model_req e h :: chain_outs r (o_hdr (model_req e h))
  end.

(* the header map after all hops *)
Definition chain_final (es : list env) (h : headers) : headers :=
  fold_left (fun h e => o_hdr (model_req e h)) es h.

Definition passes (o : req_out) : Prop := o_err o = None /\ o_skip o = false /\ o_inner o = true.

Lemma chain_distinct : forall es h,
  Forall (fun e => own_entry_ok e = true) es -> NoDup (map e_self es) -> Good h ->
  (forall e, In e es -> names_tag (e_self e) h = false) ->
  chain_m es h = chain_outs es h /\
  Forall passes (chain_outs es h) /\
  List.length (chain_outs es h) = List.length es /\
  Good (chain_final es h) /\
  (forall s, names_tag s (chain_final es h) = names_tag s h || existsb (fun e => beqb (e_self e) s) es) /\
  joined (chain_final es h) K_VIA = fold_left (fun v e => append_to v (own_via e)) es (joined h K_VIA).
Proof.
  induction es as [|e r IH]; intros h Hok Hnd Hg Hn.
  - simpl. repeat split; try constructor; try apply Hg. intro s. rewrite orb_false_r. reflexivity.
  - inversion Hok as [|? ? Hoke Hokr]; subst. simpl in Hnd. inversion Hnd as [|? ? Hnotin Hndr]; subst.
    assert (Hc : classify e h = Forwarded).
    { apply forwarded_when_good; [exact Hg | apply Hn; left; reflexivity]. }
    destruct Hg as [Hb Hv].
    pose proof (out_good e h Hc) as Hg'.
    assert (Hn' : forall e', In e' r -> names_tag (e_self e') (o_hdr (model_req e h)) = false).
    { intros e' Hin. rewrite (out_names_tag e h _ Hoke Hc Hv).
      rewrite (Hn e' (or_intror Hin)). simpl. apply beqb_neq. intro E.
      apply Hnotin. rewrite E. apply in_map. exact Hin. }
    destruct (IH (o_hdr (model_req e h)) Hokr Hndr Hg' Hn') as [A [Bf [C [D [E F]]]]].
    destruct (model_req_forwarded e h Hc) as [He [Hs [Hi _]]].
    simpl. rewrite He. repeat split.
    + rewrite A. reflexivity.
    + constructor; [repeat split; assumption | exact Bf].
    + simpl. rewrite C. reflexivity.
    + apply D.
    + apply D.
    + intro s. unfold chain_final in *. simpl. rewrite E.
      rewrite (out_names_tag e h s Hoke Hc Hv). rewrite orb_assoc. reflexivity.
    + unfold chain_final in *. simpl. rewrite F. rewrite (out_joined_via e h Hc Hv). reflexivity.
Qed.

(* a pseudonym met again: that hop refuses the request *)
Lemma chain_loop_refused : forall es h e0 e',
  Forall (fun e => own_entry_ok e = true) es -> NoDup (map e_self es) -> Good h ->
  (forall e, In e es -> names_tag (e_self e) h = false) ->
  In e0 es -> e_self e' = e_self e0 ->
  let o := model_req e' (chain_final es h) in
  o_err o = Some ELoop /\ o_skip o = true /\ o_inner o = false.
Proof.
  intros es h e0 e' Hok Hnd Hg Hn Hin Htag o. subst o.
  destruct (chain_distinct es h Hok Hnd Hg Hn) as [_ [_ [_ [[Hb Hv] [E _]]]]].
  apply model_loop_partial.
  - apply is_hopb_false. exact Hv.
  - exact Hb.
  - change (names_self e' (chain_final es h)) with (names_tag (e_self e') (chain_final es h)).
    rewrite E. apply orb_true_iff. right. apply existsb_exists. exists e0.
    split; [exact Hin | apply beqb_eq; symmetry; exact Htag].
Qed.

(* same name, different boundary: different pseudonym, and A's entry does not name B *)
Lemma instance_tag_inj : forall name b b', instance_tag name b = instance_tag name b' <-> b = b'.
Proof.
  intros name b b'. unfold instance_tag. split; intro H; [|subst; reflexivity].
  apply app_inv_head in H. apply app_inv_head in H. exact H.
Qed.

Lemma other_instance_not_named : forall eA eB,
  own_entry_ok eA = true -> e_self eA <> e_self eB -> entry_names (e_self eB) (own_via eA) = false.
Proof.
  intros eA eB Hok Hne. rewrite (entry_names_own eA _ Hok). apply beqb_neq. exact Hne.
Qed.

(* ---------------- shapes quoted by Properties.v ---------------- *)

Lemma chain_m_app : forall es r h,
  Forall passes (chain_outs es h) ->
  chain_m (es ++ r) h = chain_outs es h ++ chain_m r (chain_final es h).
Proof.
  induction es as [|e es IH]; intros r h HF; [reflexivity|].
  simpl in HF. inversion HF as [|? ? [He _] HF']; subst.
  simpl. rewrite He. rewrite IH by exact HF'. reflexivity.
Qed.

Lemma chain_outs_last : forall es h d, es <> [] ->
  o_hdr (last (chain_outs es h) d) = chain_final es h.
Proof.
  induction es as [|e es IH]; intros h d Hne; [congruence|].
  destruct es as [|e2 es'].
  - reflexivity.
  - change (chain_outs (e :: e2 :: es') h)
      with (model_req e h :: chain_outs (e2 :: es') (o_hdr (model_req e h))).
    change (chain_final (e :: e2 :: es') h) with (chain_final (e2 :: es') (o_hdr (model_req e h))).
    rewrite <- (IH (o_hdr (model_req e h)) d) by discriminate.
    remember (chain_outs (e2 :: es') (o_hdr (model_req e h))) as l eqn:El.
    destruct l as [|x l]; [simpl in El; discriminate | reflexivity].
Qed.

Definition chain_hyps (es : list env) (h : headers) : Prop :=
  Forall (fun e => own_entry_ok e = true) es /\ NoDup (map e_self es) /\
  bad_framing h = false /\ ~ is_hop h K_VIA /\
  (forall e, In e es -> names_tag (e_self e) h = false).

Lemma chain_hyps_good : forall es h, chain_hyps es h ->
  Forall (fun e => own_entry_ok e = true) es /\ NoDup (map e_self es) /\ Good h /\
  (forall e, In e es -> names_tag (e_self e) h = false).
Proof.
  intros es h [A [B [C [D E]]]]. repeat split; try assumption. apply is_hopb_false. exact D.
Qed.

Lemma chain_m_distinct : forall es h, chain_hyps es h ->
  Forall passes (chain_m es h) /\ List.length (chain_m es h) = List.length es /\
  (forall d, es <> [] ->
     joined (o_hdr (last (chain_m es h) d)) K_VIA =
     fold_left (fun v e => append_to v (own_via e)) es (joined h K_VIA)).
Proof.
  intros es h H. destruct (chain_hyps_good es h H) as [A [B [C D]]].
  destruct (chain_distinct es h A B C D) as [E [F [G [_ [_ V]]]]].
  rewrite E. split; [exact F|]. split; [exact G|].
  intros d Hne. rewrite chain_outs_last by exact Hne. exact V.
Qed.

Lemma chain_m_loop : forall es h e0 e', chain_hyps es h -> In e0 es -> e_self e' = e_self e0 ->
  exists outs o, chain_m (es ++ [e']) h = outs ++ [o] /\ Forall passes outs /\
    List.length outs = List.length es /\
    o_err o = Some ELoop /\ o_skip o = true /\ o_inner o = false.
Proof.
  intros es h e0 e' H Hin Htag. destruct (chain_hyps_good es h H) as [A [B [C D]]].
  destruct (chain_distinct es h A B C D) as [_ [F [G _]]].
  destruct (chain_loop_refused es h e0 e' A B C D Hin Htag) as [L1 [L2 L3]].
  exists (chain_outs es h), (model_req e' (chain_final es h)).
  rewrite chain_m_app by exact F. simpl. rewrite L1.
  split; [reflexivity|]. split; [exact F|]. split; [exact G|]. auto.
Qed.
