(* C15 — logging and snapshotting never change the forwarded message.

   Definitions only.  Executable model of
     messageview.SnapshotRequest/SnapshotResponse + Header/Body/TrailerReader
     (messageview/messageview.go), the way har.Logger, martianlog.Logger and
     marbl.Modifier use it / wrap the body, the one-chunk encoder
     net/http/httputil.NewChunkedWriter produces, and an RFC-shaped
     HTTP/1 message parser [parse_spec] (the specification side: what a
     reader of the snapshot must be able to recover).

   The model follows the code WITH the repairs fixes/C15-2 (http.NoBody kept
   by SnapshotRequest), C15-3 (marbl.Modifier honours skip-logging) and
   C15-4 (nothing decoded from an empty body); the behaviour before C15-2 /
   C15-3 is kept as [snapshot_legacy] / [run_logger_legacy] so that those
   defects are theorems ([..._legacy_refuted]) too.  Two defects are not
   repaired and therefore modelled as they are: a chunked snapshot with a
   non-nil Trailer lacks its final CRLF (C15-K4), marbl wraps http.NoBody
   (C15-K3).

   bytes = list ascii.  Offsets are Z as in the Go code (int64). *)

From Coq Require Import List NArith ZArith Bool Ascii String.
From Coq Require DecimalString HexadecimalString.
Import ListNotations.
Open Scope Z_scope.

Definition bytes := list ascii.
Definition hdr := (bytes * bytes)%type.

Definition CR : ascii := "013"%char.
Definition LF : ascii := "010"%char.
Definition crlf : bytes := [CR; LF].
Definition B (s : string) : bytes := list_ascii_of_string s.
Definition blen (b : bytes) : Z := Z.of_nat (List.length b).

(* ---------------------------------------------------------------- *)
(* results of fuelled parsers                                        *)
Inductive pres (A : Type) := POk (a : A) | PErr | PFuel.
Arguments POk {A} a. Arguments PErr {A}. Arguments PFuel {A}.

(* ---------------------------------------------------------------- *)
(* generic equality tests                                            *)
Fixpoint list_eqb {A} (e : A -> A -> bool) (a b : list A) : bool :=
  match a, b with
  | [], [] => true
  | x :: a', y :: b' => e x y && list_eqb e a' b'
  | _, _ => false
  end.
Definition bytes_eqb : bytes -> bytes -> bool := list_eqb Ascii.eqb.
Definition hdr_eqb (a b : hdr) : bool := bytes_eqb (fst a) (fst b) && bytes_eqb (snd a) (snd b).
Definition hdrs_eqb : list hdr -> list hdr -> bool := list_eqb hdr_eqb.
Definition opt_eqb {A} (e : A -> A -> bool) (a b : option A) : bool :=
  match a, b with
  | None, None => true
  | Some x, Some y => e x y
  | _, _ => false
  end.

(* byte-wise lexicographic a <= b (Go string comparison) *)
Fixpoint bytes_leb (a b : bytes) : bool :=
  match a, b with
  | [], _ => true
  | _ :: _, [] => false
  | x :: a', y :: b' =>
      if N.ltb (N_of_ascii x) (N_of_ascii y) then true
      else if N.ltb (N_of_ascii y) (N_of_ascii x) then false
      else bytes_leb a' b'
  end.

Fixpoint is_prefix (p s : bytes) : bool :=
  match p, s with
  | [], _ => true
  | x :: p', y :: s' => Ascii.eqb x y && is_prefix p' s'
  | _ :: _, [] => false
  end.

Definition lower (c : ascii) : ascii :=
  let n := N_of_ascii c in
  if (N.leb 65 n && N.leb n 90)%bool then ascii_of_N (n + 32) else c.
Definition to_lower (b : bytes) : bytes := map lower b.

(* ---------------------------------------------------------------- *)
(* numbers on the wire: fmt %d and %x                                *)
Definition dec_enc (n : N) : bytes :=
  list_ascii_of_string (DecimalString.NilEmpty.string_of_uint (N.to_uint n)).
Definition dec_dec (b : bytes) : option N :=
  match b with
  | [] => None
  | _ => option_map N.of_uint (DecimalString.NilEmpty.uint_of_string (string_of_list_ascii b))
  end.
Definition hex_enc (n : N) : bytes :=
  list_ascii_of_string (HexadecimalString.NilEmpty.string_of_uint (N.to_hex_uint n)).
Definition hex_dec (b : bytes) : option N :=
  match b with
  | [] => None
  | _ => option_map N.of_hex_uint (HexadecimalString.NilEmpty.uint_of_string (string_of_list_ascii b))
  end.

(* ---------------------------------------------------------------- *)
(* lines and header lines                                            *)

(* split at the first CR LF *)
Fixpoint split_crlf (s : bytes) : option (bytes * bytes) :=
  match s with
  | [] => None
  | c :: s' =>
      match s' with
      | [] => None
      | d :: s'' =>
          if (Ascii.eqb c CR && Ascii.eqb d LF)%bool then Some ([], s'')
          else match split_crlf s' with
               | Some (l, r) => Some (c :: l, r)
               | None => None
               end
      end
  end.

Fixpoint split_colon (s : bytes) : option (bytes * bytes) :=
  match s with
  | [] => None
  | c :: s' =>
      if Ascii.eqb c ":"%char then Some ([], s')
      else match split_colon s' with
           | Some (k, v) => Some (c :: k, v)
           | None => None
           end
  end.

Definition is_ows (c : ascii) : bool := (Ascii.eqb c " "%char || Ascii.eqb c "009"%char)%bool.
Fixpoint drop_ows (s : bytes) : bytes :=
  match s with
  | c :: s' => if is_ows c then drop_ows s' else s
  | [] => []
  end.

(* "Key: value\r\n" as textproto / Header.Write print it *)
Definition hline (h : hdr) : bytes := fst h ++ B ": " ++ snd h ++ crlf.
Definition hlines (hs : list hdr) : bytes := List.concat (map hline hs).

Definition parse_hline (l : bytes) : option hdr :=
  match split_colon l with
  | Some (k, v) => match k with [] => None | _ => Some (k, drop_ows v) end
  | None => None
  end.

(* header lines up to and including the blank line *)
Fixpoint parse_hdrs (fuel : nat) (s : bytes) : pres (list hdr * bytes) :=
  match fuel with
  | O => PFuel
  | S f =>
      match split_crlf s with
      | None => PErr
      | Some (l, rest) =>
          match l with
          | [] => POk ([], rest)
          | _ =>
              match parse_hline l with
              | None => PErr
              | Some h =>
                  match parse_hdrs f rest with
                  | POk (hs, r) => POk (h :: hs, r)
                  | PErr => PErr
                  | PFuel => PFuel
                  end
              end
          end
      end
  end.

(* ---------------------------------------------------------------- *)
(* chunked coding                                                    *)

(* What httputil.NewChunkedWriter writes for one Write(data) + Close():
   nothing for empty data, else "<hex len>\r\n" data "\r\n"; Close writes "0\r\n". *)
Definition chunk_body (b : bytes) : bytes :=
  (match b with
   | [] => []
   | _ => hex_enc (N.of_nat (List.length b)) ++ crlf ++ b ++ crlf
   end) ++ B "0" ++ crlf.

(* complete chunked body: chunks, last-chunk, trailer section, CRLF (RFC 7230 4.1) *)
Definition chunk_enc (b : bytes) (t : list hdr) : bytes :=
  chunk_body b ++ hlines t ++ crlf.

Definition take_n (n : N) (s : bytes) : option (bytes * bytes) :=
  let k := N.to_nat n in
  if Nat.leb k (List.length s) then Some (firstn k s, skipn k s) else None.

(* general decoder: any number of chunks, then trailer section; returns
   (body, trailers, bytes after the message) *)
Fixpoint chunk_dec_loop (fuel : nat) (acc : bytes) (s : bytes)
  : pres (bytes * list hdr * bytes) :=
  match fuel with
  | O => PFuel
  | S f =>
      match split_crlf s with
      | None => PErr
      | Some (line, rest) =>
          match hex_dec line with
          | None => PErr
          | Some n =>
              if N.eqb n 0 then
                match parse_hdrs (S (List.length rest)) rest with
                | POk (t, rest') => POk (acc, t, rest')
                | PErr => PErr
                | PFuel => PFuel
                end
              else
                match take_n n rest with
                | None => PErr
                | Some (d, rest1) =>
                    match rest1 with
                    | c1 :: c2 :: rest2 =>
                        if (Ascii.eqb c1 CR && Ascii.eqb c2 LF)%bool
                        then chunk_dec_loop f (acc ++ d) rest2
                        else PErr
                    | _ => PErr
                    end
                end
          end
      end
  end.

Definition chunk_dec (s : bytes) : pres (bytes * list hdr * bytes) :=
  chunk_dec_loop (S (List.length s)) [] s.

(* the de-chunking done by BodyReader(Decode()): httputil.NewChunkedReader
   over the body section only (chunks + last-chunk, no trailer part).  A
   reader that fails has still delivered the bytes decoded so far (io.Copy
   in martianlog keeps them and drops the error). *)
Inductive dst := DDone | DBad | DNoFuel.
Fixpoint dechunk_loop (fuel : nat) (acc : bytes) (s : bytes) : bytes * dst :=
  match fuel with
  | O => (acc, DNoFuel)
  | S f =>
      match split_crlf s with
      | None => (acc, DBad)
      | Some (line, rest) =>
          match hex_dec line with
          | None => (acc, DBad)
          | Some n =>
              if N.eqb n 0 then (acc, DDone)
              else
                match take_n n rest with
                | None => (acc, DBad)
                | Some (d, rest1) =>
                    match rest1 with
                    | c1 :: c2 :: rest2 =>
                        if (Ascii.eqb c1 CR && Ascii.eqb c2 LF)%bool
                        then dechunk_loop f (acc ++ d) rest2
                        else (acc ++ d, DBad)
                    | _ => (acc ++ d, DBad)
                    end
                end
          end
      end
  end.
Definition dechunk (s : bytes) : bytes * dst := dechunk_loop (S (List.length s)) [] s.

(* ---------------------------------------------------------------- *)
(* messages                                                          *)

Record msg := mkMsg {
  m_isreq : bool;
  m_start : bytes;          (* "POST /x HTTP/1.1" / "HTTP/1.1 200 OK" (no CRLF) *)
  m_host : bytes;           (* Request.Host; [] = empty; always [] for responses *)
  m_te : bool;              (* TransferEncoding = ["chunked"] *)
  m_cl : Z;                 (* ContentLength; -1 = unknown *)
  m_hdrs : list hdr;        (* Header, flattened (key, value), keys in Go's sorted order *)
  m_nobody : bool;          (* Body == http.NoBody *)
  m_body : bytes;           (* bytes Body yields until EOF *)
  m_trailers : option (list hdr)  (* None: Trailer == nil; Some l: non-nil, l = pairs that have a value *)
}.

Definition set_body (m : msg) (nobody : bool) (data : bytes) : msg :=
  mkMsg (m_isreq m) (m_start m) (m_host m) (m_te m) (m_cl m) (m_hdrs m) nobody data (m_trailers m).

Definition msg_eqb (a b : msg) : bool :=
  Bool.eqb (m_isreq a) (m_isreq b) && bytes_eqb (m_start a) (m_start b)
  && bytes_eqb (m_host a) (m_host b) && Bool.eqb (m_te a) (m_te b)
  && Z.eqb (m_cl a) (m_cl b) && hdrs_eqb (m_hdrs a) (m_hdrs b)
  && Bool.eqb (m_nobody a) (m_nobody b) && bytes_eqb (m_body a) (m_body b)
  && opt_eqb hdrs_eqb (m_trailers a) (m_trailers b).

(* stable insertion sort by key: http.Header.WriteSubset sorts the keys *)
Fixpoint insert_hdr (h : hdr) (l : list hdr) : list hdr :=
  match l with
  | [] => [h]
  | x :: l' => if bytes_leb (fst x) (fst h) then x :: insert_hdr h l' else h :: l
  end.
Definition sort_hdrs (l : list hdr) : list hdr := fold_left (fun acc h => insert_hdr h acc) l [].

Fixpoint lookup (k : bytes) (l : list hdr) : option bytes :=
  match l with
  | [] => None
  | (k', v) :: l' => if bytes_eqb k' k then Some v else lookup k l'
  end.
Definition header_get (k : bytes) (l : list hdr) : bytes :=
  match lookup k l with Some v => v | None => [] end.

Definition kHost := B "Host".
Definition kCL := B "Content-Length".
Definition kTE := B "Transfer-Encoding".
Definition kCT := B "Content-Type".
Definition kCE := B "Content-Encoding".

(* the exclude maps passed to WriteSubset *)
Definition excluded (isreq : bool) (k : bytes) : bool :=
  (isreq && bytes_eqb k kHost) || bytes_eqb k kCL || bytes_eqb k kTE.
Definition write_subset (isreq : bool) (l : list hdr) : list hdr :=
  sort_hdrs (filter (fun h => negb (excluded isreq (fst h))) l).

(* ---------------------------------------------------------------- *)
(* messageview                                                       *)

Record opts := mkOpts { o_skipbody : bool; o_cts : list bytes }.
Definition default_opts := mkOpts false [].

Record view := mkView {
  v_message : bytes;
  v_bodyoff : Z;
  v_troff : Z;
  v_chunked : bool;
  v_full : bool        (* the body was read into the view *)
}.

Definition match_ct (cts : list bytes) (ct : bytes) : bool :=
  existsb (fun c => is_prefix c ct) cts.

Definition head_bytes (m : msg) : bytes :=
  m_start m ++ crlf
  ++ (if (m_isreq m && negb (bytes_eqb (m_host m) []))%bool then B "Host: " ++ m_host m ++ crlf else [])
  ++ (if m_te m then B "Transfer-Encoding: chunked" ++ crlf else [])
  ++ (if (negb (m_te m) && (0 <=? m_cl m))%bool
      then B "Content-Length: " ++ dec_enc (Z.to_N (m_cl m)) ++ crlf else [])
  ++ hlines (write_subset (m_isreq m) (m_hdrs m))
  ++ crlf.

(* The code writes the blank line that ends a chunked body only when Trailer
   is nil; with a non-nil Trailer the snapshot stops after the trailer fields
   (known finding C15-K4: the existing tests pin mv.Reader() to these bytes). *)
Definition trailer_bytes (m : msg) : bytes :=
  match m_trailers m with
  | Some t => hlines t
  | None => if m_te m then crlf else []
  end.

(* Snapshot{Request,Response}: view and the message left behind.
   [legacy = true] is the code before fix C15-2 (http.NoBody replaced). *)
Definition snapshot_gen (legacy : bool) (o : opts) (m : msg) : view * msg :=
  let head := head_bytes m in
  let off := blen head in
  let ct := header_get kCT (m_hdrs m) in
  if (o_skipbody o && negb (match_ct (o_cts o) ct))%bool then
    (mkView head off off (m_te m) false, m)
  else
    let data := m_body m in                       (* ioutil.ReadAll(Body) *)
    let bodysec := if m_te m then chunk_body data else data in
    let message := head ++ bodysec ++ trailer_bytes m in
    (mkView message off (off + blen bodysec) (m_te m) true,
     set_body m (if legacy then false else m_nobody m) data).

Definition snapshot := snapshot_gen false.
Definition snapshot_legacy := snapshot_gen true.

(* Go slice expression s[lo:hi]; None = would panic *)
Definition slice (s : bytes) (lo hi : Z) : option bytes :=
  if ((0 <=? lo) && (lo <=? hi) && (hi <=? blen s))%bool
  then Some (firstn (Z.to_nat (hi - lo)) (skipn (Z.to_nat lo) s))
  else None.

Definition hdr_r (v : view) : option bytes := slice (v_message v) 0 (v_bodyoff v).
Definition body_r (v : view) : option bytes := slice (v_message v) (v_bodyoff v) (v_troff v).
Definition trl_r (v : view) : option bytes := slice (v_message v) (v_troff v) (blen (v_message v)).

(* BodyReader(Decode()) without the decompression step: an empty section
   (body skipped or empty) is returned as it is (fix C15-4), a chunked one
   is de-chunked. *)
Definition body_decoded (v : view) (b : bytes) : bytes * dst :=
  match b with
  | [] => ([], DDone)
  | _ => if v_chunked v then dechunk b else (b, DDone)
  end.

(* mv.Reader(): the three sections, the body optionally de-chunked
   (decompression is outside this model: identity) *)
Definition reader (decode : bool) (v : view) : option bytes :=
  match hdr_r v, body_r v, trl_r v with
  | Some h, Some b, Some t =>
      if decode then
        match body_decoded v b with
        | (d, DNoFuel) => None
        | (d, _) => Some (h ++ d ++ t)
        end
      else Some (h ++ b ++ t)
  | _, _, _ => None
  end.

(* ---------------------------------------------------------------- *)
(* the specification side: an RFC 7230 shaped reader                  *)

(* [Some []] and [None] trailers are the same message on the wire *)
Definition canon_trailers (t : option (list hdr)) : option (list hdr) :=
  match t with Some [] => None | x => x end.

Definition canon (m : msg) : msg :=
  mkMsg (m_isreq m) (m_start m) (m_host m) (m_te m) (m_cl m)
        (write_subset (m_isreq m) (m_hdrs m))
        (negb (m_te m) && (m_cl m =? 0))%bool (m_body m) (canon_trailers (m_trailers m)).

(* the RFC 7230 shaped writer: head, then the body in the announced framing
   (a chunked body always ends with the trailer section and its blank line) *)
Definition trailer_list (m : msg) : list hdr :=
  match m_trailers m with Some t => t | None => [] end.
Definition serialize_spec (m : msg) : bytes :=
  head_bytes m ++ (if m_te m then chunk_enc (m_body m) (trailer_list m) else m_body m).

Definition parse_spec (isreq : bool) (s : bytes) : option msg :=
  match split_crlf s with
  | None => None
  | Some (start, r1) =>
      match parse_hdrs (S (List.length r1)) r1 with
      | POk (all, r2) =>
          let host := if isreq then header_get kHost all else [] in
          let te := match lookup kTE all with
                    | Some v => bytes_eqb v (B "chunked")
                    | None => false
                    end in
          let hs := filter (fun h => negb (excluded isreq (fst h))) all in
          if te then
            match chunk_dec r2 with
            | POk (b, t, rest) =>
                match rest with
                | [] => Some (mkMsg isreq start host true (-1) hs false b
                                    (match t with [] => None | _ => Some t end))
                | _ => None
                end
            | _ => None
            end
          else
            match lookup kCL all with
            | Some v =>
                match dec_dec v with
                | Some n =>
                    if Z.eqb (blen r2) (Z.of_N n)
                    then Some (mkMsg isreq start host false (Z.of_N n) hs (N.eqb n 0) r2 None)
                    else None
                | None => None
                end
            | None =>
                if isreq then
                  match r2 with
                  | [] => Some (mkMsg isreq start host false 0 hs true [] None)
                  | _ => None
                  end
                else Some (mkMsg isreq start host false (-1) hs false r2 None)
            end
      | _ => None
      end
  end.

(* well-formed messages: what http.ReadRequest / ReadResponse hand to a
   modifier (for a response that may carry a body) *)
Definition no_cr (b : bytes) : bool := forallb (fun c => negb (Ascii.eqb c CR)) b.
Definition wf_hdr (h : hdr) : bool :=
  match fst h with [] => false | _ => true end
  && forallb (fun c => negb (Ascii.eqb c CR) && negb (Ascii.eqb c ":"%char)) (fst h)
  && no_cr (snd h) && bytes_eqb (drop_ows (snd h)) (snd h).

Definition wf_b (m : msg) : bool :=
  no_cr (m_start m)
  && no_cr (m_host m) && bytes_eqb (drop_ows (m_host m)) (m_host m)
  && (m_isreq m || bytes_eqb (m_host m) [])
  && forallb wf_hdr (m_hdrs m)
  && (if m_te m then (m_cl m =? -1)
      else if 0 <=? m_cl m then (blen (m_body m) =? m_cl m)
           else (m_cl m =? -1) && negb (m_isreq m))
  && (match m_trailers m with
      | None => true
      | Some t => m_te m && forallb wf_hdr t
      end)
  && Bool.eqb (m_nobody m) (negb (m_te m) && (m_cl m =? 0)).

(* ---------------------------------------------------------------- *)
(* loggers                                                           *)

Inductive capture := CapOn | CapOff | CapOnly (cts : list bytes) | CapSkip (cts : list bytes).

Inductive logger :=
| LSnap (o : opts)                       (* messageview used directly *)
| LHar (c : capture)                     (* har.Logger with a body / post-data option *)
| LMarbl                                 (* marbl.Modifier *)
| LText (headers_only decode : bool).    (* martianlog.Logger *)

Inductive record :=
| RText (content : option bytes)   (* the HTTP part of the logged text; None = reader failed *)
| RHar (captured : bool)
| RMarbl.

Definition ct_prefix_ci (cts : list bytes) (ct : bytes) : bool :=
  existsb (fun c => is_prefix (to_lower c) (to_lower ct)) cts.

Definition capture_on (c : capture) (m : msg) : bool :=
  let ct := header_get kCT (m_hdrs m) in
  match c with
  | CapOn => true
  | CapOff => false
  | CapOnly cts => ct_prefix_ci cts ct
  | CapSkip cts => negb (ct_prefix_ci cts ct)
  end.

(* [skip] = ctx.SkippingLogging().  Result: message left behind, records.
   [legacy = true]: the code before the fixes. *)
Definition run_logger_gen (legacy : bool) (lg : logger) (skip : bool) (m : msg) : msg * list record :=
  match lg with
  | LSnap o => (snd (snapshot_gen legacy o m), [])
  | LHar c =>
      if skip then (m, [])
      else
        let want := capture_on c m in
        if m_isreq m then
          (* postData: no body -> no post data, nothing read *)
          if ((m_cl m <=? 0) && negb (m_te m))%bool then (m, [RHar false])
          else if want then (snd (snapshot_gen legacy default_opts m), [RHar true])
          else (m, [RHar false])
        else
          if want then (snd (snapshot_gen legacy default_opts m), [RHar true])
          else (m, [RHar false])
  | LMarbl =>
      if (skip && negb legacy)%bool then (m, [])
      else
        (* body wrapped in a pass-through reader that yields the same bytes;
           http.NoBody is wrapped too and is then no longer recognisable
           (known finding C15-K3, not repaired) *)
        (set_body m false (m_body m), [RMarbl])
  | LText ho dec =>
      if skip then (m, [])
      else
        let '(v, m') := snapshot_gen legacy (mkOpts ho []) m in
        (m', [RText (reader dec v)])
  end.

(* Does the logger's Modify{Request,Response} return an error?  (The proxy
   then adds a Warning header to the forwarded message.)  The only source of
   errors for messages read from the wire is content decoding; how Go's
   gzip / flate readers behave on the body is external and enters as [cls]:
   accepted, rejected when the reader is constructed (bad gzip header), or
   failing while it is read (bad CRC, truncated, trailing garbage, zlib wrapper). *)
Inductive dec_class := DecOk | DecFailOpen | DecFailRead.

Definition resp_code (m : msg) : bytes := firstn 3 (skipn 9 (m_start m)).

(* mv.compress is set, not reset for 204/206, and (fix C15-4) the body is not empty *)
Definition compress_active (m : msg) : bool :=
  let ce := header_get kCE (m_hdrs m) in
  (bytes_eqb ce (B "gzip") || bytes_eqb ce (B "deflate"))
  && (m_isreq m || negb (bytes_eqb (resp_code m) (B "204") || bytes_eqb (resp_code m) (B "206")))
  && negb (bytes_eqb (m_body m) []).

Definition decode_fails (cls : dec_class) (m : msg) (at_open_only : bool) : bool :=
  compress_active m &&
  match cls with
  | DecOk => false
  | DecFailOpen => true
  | DecFailRead => negb at_open_only
  end.

(* [legacy = true]: before fix C15-6 (martianlog returned the error of
   mv.Reader(Decode()); errors while copying were and are ignored).
   har.NewResponse reads the decoded body with ReadAll and returns any error
   (known finding C15-K1); har requests are not decoded. *)
Definition logger_errors_gen (legacy : bool) (lg : logger) (skip : bool) (cls : dec_class) (m : msg) : bool :=
  match lg with
  | LSnap _ => false
  | LMarbl => false
  | LHar c => negb skip && negb (m_isreq m) && capture_on c m && decode_fails cls m false
  | LText ho dec => legacy && negb skip && dec && negb ho && decode_fails cls m true
  end.
Definition logger_errors := logger_errors_gen false.
Definition logger_errors_legacy := logger_errors_gen true.

Definition run_logger := run_logger_gen false.
Definition run_logger_legacy := run_logger_gen true.

(* ---------------------------------------------------------------- *)
(* observation of one case on the real code, and the property oracle  *)

Record obs := mkObs {
  ob_after : msg;                      (* the message after the logger ran *)
  ob_fwd_same : bool;                  (* Write() outcome (bytes, error) equals that of the unlogged twin,
                                          and the announced-only trailer keys are unchanged *)
  ob_sections : option (bytes * bytes * bytes * bytes);
                                       (* HeaderReader, BodyReader, TrailerReader, Reader contents *)
  ob_reparse : option (option msg);    (* full snapshots only: http.Read*(Reader()) *)
  ob_records : nat;                    (* records this exchange left in the log *)
  ob_err : bool;                       (* the logger returned an error / panicked *)
  ob_src_failed : bool;                (* the body source itself failed (Read returned a non-EOF error) *)
  ob_startline : option (bytes * bytes)
     (* first line of the snapshot / logged text, and the reference: the first
        line Write() sends for the unlogged twin (responses) or the request
        line as received (requests: Write always says HTTP/1.1, origin-form) *)
}.

(* [s] ends with [suf] *)
Definition ends_with (suf s : bytes) : bool :=
  bytes_eqb (skipn (List.length s - List.length suf) s) suf
  && Nat.leb (List.length suf) (List.length s).

(* the three sections concatenate to the message and the header section is
   a complete head: it ends with the blank line *)
Definition sections_ok (o : obs) : bool :=
  match ob_sections o with
  | None => true
  | Some (h, b, t, full) => bytes_eqb (h ++ b ++ t) full && ends_with (crlf ++ crlf) h
  end.

Definition reparse_ok (m : msg) (o : obs) : bool :=
  match ob_reparse o with
  | None => true
  | Some r => opt_eqb msg_eqb (option_map canon r) (Some (canon m))
  end.

Definition forwarded_ok (m : msg) (o : obs) : bool :=
  msg_eqb (ob_after o) m && ob_fwd_same o.

Definition skip_ok (skip : bool) (o : obs) : bool :=
  if skip then Nat.eqb (ob_records o) 0 else true.

Definition startline_ok (o : obs) : bool :=
  match ob_startline o with
  | None => true
  | Some (snap, ref) => bytes_eqb snap ref
  end.

Definition c15_ok (skip : bool) (m : msg) (o : obs) : bool :=
  forwarded_ok m o && sections_ok o && reparse_ok m o && skip_ok skip o
  && (negb (ob_err o) || ob_src_failed o)
  && startline_ok o.

(* the view a logger builds of the message, if it builds one *)
Definition logger_view (lg : logger) (skip : bool) (m : msg) : option view :=
  match lg with
  | LSnap o => Some (fst (snapshot o m))
  | LHar c =>
      if skip then None
      else if (capture_on c m
               && (if m_isreq m then negb ((m_cl m <=? 0) && negb (m_te m)) else true))%bool
           then Some (fst (snapshot default_opts m)) else None
  | LMarbl => None
  | LText ho _ => if skip then None else Some (fst (snapshot (mkOpts ho []) m))
  end.

(* a history of exchanges through one logger: messages left behind, log *)
Fixpoint run_many (lg : logger) (xs : list (bool * msg)) : list msg * list record :=
  match xs with
  | [] => ([], [])
  | (skip, m) :: xs' =>
      let '(m', r) := run_logger lg skip m in
      let '(ms, rs) := run_many lg xs' in
      (m' :: ms, r ++ rs)
  end.

(* does the logger read the body itself (and so meets, and reports, a failing
   body source)?  marbl only wraps it. *)
Definition reads_body (lg : logger) (skip : bool) (m : msg) : bool :=
  match lg with
  | LSnap o => v_full (fst (snapshot o m))
  | LHar c =>
      negb skip && capture_on c m
      && (if m_isreq m then negb ((m_cl m <=? 0) && negb (m_te m)) else true)
  | LMarbl => false
  | LText ho _ => negb skip && negb ho
  end.

(* first line of a snapshot *)
Definition first_line (s : bytes) : option bytes :=
  match split_crlf s with Some (l, _) => Some l | None => None end.

(* what the model predicts for the observable parts of a case *)
Definition model_sections (lg : logger) (m : msg) : option (bytes * bytes * bytes * bytes) :=
  match lg with
  | LSnap o =>
      let v := fst (snapshot o m) in
      match hdr_r v, body_r v, trl_r v with
      | Some h, Some b, Some t => Some (h, b, t, v_message v)
      | _, _, _ => None
      end
  | _ => None
  end.

Definition model_sections_legacy (lg : logger) (m : msg) : option (bytes * bytes * bytes * bytes) :=
  match lg with
  | LSnap o =>
      let v := fst (snapshot_legacy o m) in
      match hdr_r v, body_r v, trl_r v with
      | Some h, Some b, Some t => Some (h, b, t, v_message v)
      | _, _, _ => None
      end
  | _ => None
  end.

Definition model_reparse (lg : logger) (m : msg) : option (option msg) :=
  match lg with
  | LSnap o =>
      let v := fst (snapshot o m) in
      if v_full v then Some (parse_spec (m_isreq m) (v_message v)) else None
  | _ => None
  end.
