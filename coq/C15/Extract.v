From Coq Require Import ExtrOcamlBasic ExtrOcamlString.
From Martian.Common Require Import ExtractBase.
From Martian.C15 Require Import Model.
Extraction Language OCaml.
Extraction "model.ml" base_anchor
  c15_ok reads_body logger_errors logger_errors_legacy compress_active startline_ok first_line forwarded_ok sections_ok reparse_ok skip_ok wf_b canon msg_eqb bytes_eqb
  snapshot snapshot_legacy run_logger run_logger_legacy
  model_sections model_sections_legacy model_reparse parse_spec
  chunk_enc chunk_dec dechunk reader hdr_r body_r trl_r header_get kCE kCT body_decoded set_body default_opts.
