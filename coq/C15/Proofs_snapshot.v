(* C15 — the snapshot: sections, re-parsing, message left behind, records. *)
From Coq Require Import List NArith ZArith Bool Ascii String Lia.
From Coq Require DecimalString.
From Martian.C15 Require Import Model Proofs_base Proofs_wire.
Import ListNotations.
Open Scope Z_scope.

(* ---------------- sections partition the message ---------------- *)

Lemma sections_of_three a b c :
  let v := mkView (a ++ b ++ c) (blen a) (blen a + blen b) false false in
  slice (a ++ b ++ c) 0 (blen a) = Some a /\
  slice (a ++ b ++ c) (blen a) (blen a + blen b) = Some b /\
  slice (a ++ b ++ c) (blen a + blen b) (blen (a ++ b ++ c)) = Some c.
Proof.
  intros _. split; [apply slice_first|]. split; [apply slice_mid|].
  rewrite app_assoc. rewrite <- blen_app. apply slice_last.
Qed.

Definition view_sections_ok (v : view) : Prop :=
  0 <= v_bodyoff v /\ v_bodyoff v <= v_troff v /\ v_troff v <= blen (v_message v) /\
  exists h b t, hdr_r v = Some h /\ body_r v = Some b /\ trl_r v = Some t /\
                h ++ b ++ t = v_message v.

Lemma snapshot_view_shape legacy o m :
  exists b t,
    let v := fst (snapshot_gen legacy o m) in
    v_message v = head_bytes m ++ b ++ t /\
    v_bodyoff v = blen (head_bytes m) /\
    v_troff v = blen (head_bytes m) + blen b /\
    (v_full v = true -> b = (if m_te m then chunk_body (m_body m) else m_body m)
                        /\ t = trailer_bytes m).
Proof.
  unfold snapshot_gen.
  destruct (o_skipbody o && negb (match_ct (o_cts o) (header_get kCT (m_hdrs m))))%bool.
  - exists [], []. cbn. rewrite !app_nil_r. repeat split; try lia; try discriminate.
  - exists (if m_te m then chunk_body (m_body m) else m_body m), (trailer_bytes m).
    cbn. repeat split.
Qed.

Lemma sections_partition legacy o m :
  view_sections_ok (fst (snapshot_gen legacy o m)).
Proof.
  destruct (snapshot_view_shape legacy o m) as (b & t & Hm & Hb & Ht & _).
  cbv zeta in *. set (v := fst (snapshot_gen legacy o m)) in *.
  unfold view_sections_ok, hdr_r, body_r, trl_r. rewrite Hm, Hb, Ht.
  pose proof (blen_nonneg (head_bytes m)). pose proof (blen_nonneg b). pose proof (blen_nonneg t).
  rewrite !blen_app.
  split; [lia|]. split; [lia|]. split; [lia|].
  exists (head_bytes m), b, t.
  destruct (sections_of_three (head_bytes m) b t) as (S1 & S2 & S3).
  rewrite !blen_app in S3.
  repeat split; assumption.
Qed.

(* ---------------- sorting and filtering keep what matters ---------------- *)

Lemma forallb_insert (P : hdr -> bool) h l :
  forallb P (insert_hdr h l) = (P h && forallb P l)%bool.
Proof.
  induction l as [|x l IH]; cbn [insert_hdr forallb].
  - reflexivity.
  - destruct (bytes_leb (fst x) (fst h)); cbn [forallb]; [rewrite IH|];
      destruct (P h), (P x), (forallb P l); reflexivity.
Qed.

Lemma forallb_fold_insert (P : hdr -> bool) l : forall acc,
  forallb P (fold_left (fun acc h => insert_hdr h acc) l acc) = (forallb P l && forallb P acc)%bool.
Proof.
  induction l as [|x l IH]; intros acc; cbn [fold_left forallb].
  - reflexivity.
  - rewrite IH, forallb_insert. destruct (P x), (forallb P l), (forallb P acc); reflexivity.
Qed.

Lemma forallb_sort (P : hdr -> bool) l : forallb P (sort_hdrs l) = forallb P l.
Proof. unfold sort_hdrs. rewrite forallb_fold_insert. cbn. now rewrite andb_true_r. Qed.

Lemma forallb_filter_keep {A} (P Q : A -> bool) l :
  forallb P l = true -> forallb P (filter Q l) = true.
Proof.
  induction l as [|x l IH]; cbn [forallb filter]; [reflexivity|].
  rewrite andb_true_iff. intros [Hx Hl]. destruct (Q x); cbn [forallb]; [rewrite Hx|]; auto.
Qed.

Lemma forallb_filter_self {A} (Q : A -> bool) l : forallb Q (filter Q l) = true.
Proof.
  induction l as [|x l IH]; cbn [forallb filter]; [reflexivity|].
  destruct (Q x) eqn:E; cbn [forallb]; [rewrite E|]; auto.
Qed.

Lemma filter_id {A} (Q : A -> bool) l : forallb Q l = true -> filter Q l = l.
Proof.
  induction l as [|x l IH]; cbn [forallb filter]; [reflexivity|].
  rewrite andb_true_iff. intros [Hx Hl]. rewrite Hx. now rewrite IH.
Qed.

Definition notexcl (isreq : bool) (h : hdr) : bool := negb (excluded isreq (fst h)).

Lemma write_subset_notexcl isreq l : forallb (notexcl isreq) (write_subset isreq l) = true.
Proof. unfold write_subset. rewrite forallb_sort. apply forallb_filter_self. Qed.

Lemma write_subset_wf isreq l : forallb wf_hdr l = true -> forallb wf_hdr (write_subset isreq l) = true.
Proof. intros H. unfold write_subset. rewrite forallb_sort. now apply forallb_filter_keep. Qed.

Lemma lookup_app k a b :
  lookup k (a ++ b) = match lookup k a with Some v => Some v | None => lookup k b end.
Proof.
  induction a as [|[k' v] a IH]; cbn [app lookup]; [reflexivity|].
  destruct (bytes_eqb k' k); [reflexivity | apply IH].
Qed.

Lemma lookup_excluded isreq k l :
  excluded isreq k = true -> forallb (notexcl isreq) l = true -> lookup k l = None.
Proof.
  intros Hk. induction l as [|[k' v] l IH]; cbn [forallb lookup]; [reflexivity|].
  rewrite andb_true_iff. intros [Hx Hl]. unfold notexcl in Hx. cbn [fst] in Hx.
  destruct (bytes_eqb k' k) eqn:E.
  - apply bytes_eqb_eq in E. subst k'. rewrite Hk in Hx. discriminate.
  - now apply IH.
Qed.

Lemma hlines_app a b : hlines (a ++ b) = hlines a ++ hlines b.
Proof. unfold hlines. now rewrite map_app, concat_app. Qed.

(* ---------------- the head of the snapshot ---------------- *)

Definition special (m : msg) : list hdr :=
  (if (m_isreq m && negb (bytes_eqb (m_host m) []))%bool then [(kHost, m_host m)] else [])
  ++ (if m_te m then [(kTE, B "chunked")] else [])
  ++ (if (negb (m_te m) && (0 <=? m_cl m))%bool then [(kCL, dec_enc (Z.to_N (m_cl m)))] else []).

Lemma hlines_cons h l : hlines (h :: l) = hline h ++ hlines l.
Proof. reflexivity. Qed.
Lemma hl_host v : hline (kHost, v) = B "Host: " ++ v ++ crlf.
Proof. reflexivity. Qed.
Lemma hl_te : hline (kTE, B "chunked") = B "Transfer-Encoding: chunked" ++ crlf.
Proof. reflexivity. Qed.
Lemma hl_cl v : hline (kCL, v) = B "Content-Length: " ++ v ++ crlf.
Proof. reflexivity. Qed.

Lemma head_bytes_shape m :
  head_bytes m = m_start m ++ crlf ++ hlines (special m ++ write_subset (m_isreq m) (m_hdrs m)) ++ crlf.
Proof.
  unfold head_bytes, special.
  set (ws := write_subset (m_isreq m) (m_hdrs m)).
  set (dn := dec_enc (Z.to_N (m_cl m))).
  destruct (m_isreq m && negb (bytes_eqb (m_host m) []))%bool, (m_te m), (negb _ && (0 <=? m_cl m))%bool;
    cbn [app]; rewrite ?hlines_cons, ?hl_host, ?hl_te, ?hl_cl; rewrite <- ?app_assoc; reflexivity.
Qed.

Lemma drop_ows_dec n : drop_ows (dec_enc n) = dec_enc n.
Proof.
  unfold dec_enc. destruct (N.to_uint n); reflexivity.
Qed.

Lemma special_wf m : wf_b m = true -> forallb wf_hdr (special m) = true.
Proof.
  unfold wf_b. rewrite !andb_true_iff. intros [[[[[[[_ Hh1] Hh2] _] _] _] _] _].
  unfold special. rewrite !forallb_app, !andb_true_iff. repeat split.
  - destruct (m_isreq m && negb (bytes_eqb (m_host m) []))%bool; [|reflexivity].
    cbn [forallb]. rewrite andb_true_r. unfold wf_hdr. cbn [fst snd].
    rewrite Hh1, Hh2. reflexivity.
  - destruct (m_te m); reflexivity.
  - destruct (negb (m_te m) && (0 <=? m_cl m))%bool; [|reflexivity].
    cbn [forallb]. rewrite andb_true_r. unfold wf_hdr. cbn [fst snd].
    rewrite dec_enc_no_cr, drop_ows_dec, bytes_eqb_refl. reflexivity.
Qed.

Lemma all_wf m : wf_b m = true ->
  forallb wf_hdr (special m ++ write_subset (m_isreq m) (m_hdrs m)) = true.
Proof.
  intros H. rewrite forallb_app, (special_wf m H). cbn [andb].
  apply write_subset_wf. unfold wf_b in H. rewrite !andb_true_iff in H. tauto.
Qed.

Lemma filter_special m : filter (fun h : hdr => negb (excluded (m_isreq m) (fst h))) (special m) = [].
Proof.
  unfold special.
  destruct (m_isreq m) eqn:Er; cbn [andb];
  destruct (negb (bytes_eqb (m_host m) [])), (m_te m); cbn [negb andb];
  try destruct (0 <=? m_cl m); reflexivity.
Qed.

Lemma filter_all m :
  filter (fun h => negb (excluded (m_isreq m) (fst h))) (special m ++ write_subset (m_isreq m) (m_hdrs m))
  = write_subset (m_isreq m) (m_hdrs m).
Proof.
  rewrite filter_app, filter_special. cbn [app].
  apply filter_id. apply (write_subset_notexcl (m_isreq m)).
Qed.

Lemma lookup_all k m :
  excluded (m_isreq m) k = true ->
  lookup k (special m ++ write_subset (m_isreq m) (m_hdrs m)) = lookup k (special m).
Proof.
  intros Hk. rewrite lookup_app.
  rewrite (lookup_excluded (m_isreq m) k _ Hk (write_subset_notexcl _ _)).
  destruct (lookup k (special m)); reflexivity.
Qed.

Lemma lookup_TE m : lookup kTE (special m) = if m_te m then Some (B "chunked") else None.
Proof.
  unfold special.
  destruct (m_isreq m && negb (bytes_eqb (m_host m) []))%bool, (m_te m); cbn [negb andb];
  try destruct (0 <=? m_cl m); reflexivity.
Qed.

Lemma lookup_CL m :
  lookup kCL (special m) =
  if (negb (m_te m) && (0 <=? m_cl m))%bool then Some (dec_enc (Z.to_N (m_cl m))) else None.
Proof.
  unfold special.
  destruct (m_isreq m && negb (bytes_eqb (m_host m) []))%bool, (m_te m); cbn [negb andb];
  try destruct (0 <=? m_cl m); reflexivity.
Qed.

Lemma lookup_Host m : m_isreq m = true ->
  lookup kHost (special m) = if negb (bytes_eqb (m_host m) []) then Some (m_host m) else None.
Proof.
  intros Hr. unfold special. rewrite Hr. cbn [andb].
  destruct (negb (bytes_eqb (m_host m) [])), (m_te m); cbn [negb andb];
  try destruct (0 <=? m_cl m); reflexivity.
Qed.

Lemma excl_TE r : excluded r kTE = true.
Proof. destruct r; reflexivity. Qed.
Lemma excl_CL r : excluded r kCL = true.
Proof. destruct r; reflexivity. Qed.
Lemma excl_Host : excluded true kHost = true.
Proof. reflexivity. Qed.

(* the header section is a complete head: it ends with the blank line *)
Lemma ends_with_iff suf s : ends_with suf s = true <-> exists p, s = p ++ suf.
Proof.
  unfold ends_with. rewrite andb_true_iff, bytes_eqb_eq, Nat.leb_le. split.
  - intros [H _]. exists (firstn (List.length s - List.length suf) s).
    rewrite <- H at 2. symmetry. apply firstn_skipn.
  - intros [p ->]. rewrite app_length. split; [|lia].
    replace (List.length p + List.length suf - List.length suf)%nat with (List.length p) by lia.
    rewrite skipn_app, skipn_all, Nat.sub_diag. reflexivity.
Qed.

Lemma hlines_ends l : hlines l = [] \/ exists x, hlines l = x ++ crlf.
Proof.
  induction l as [|h l IH]; [now left|]. right.
  rewrite hlines_cons. destruct IH as [E|[x E]]; rewrite E.
  - rewrite app_nil_r. unfold hline. exists (fst h ++ B ": " ++ snd h). now rewrite <- !app_assoc.
  - exists (hline h ++ x). now rewrite <- app_assoc.
Qed.

Lemma head_ends_with_blank_line m : ends_with (crlf ++ crlf) (head_bytes m) = true.
Proof.
  apply ends_with_iff. rewrite head_bytes_shape.
  destruct (hlines_ends (special m ++ write_subset (m_isreq m) (m_hdrs m))) as [E|[x E]]; rewrite E.
  - exists (m_start m). reflexivity.
  - exists (m_start m ++ crlf ++ x). now rewrite <- !app_assoc.
Qed.

Lemma hdr_section_is_head legacy o m :
  hdr_r (fst (snapshot_gen legacy o m)) = Some (head_bytes m).
Proof.
  destruct (snapshot_view_shape legacy o m) as (b & t & Hm & Hb & _ & _).
  cbv zeta in *. unfold hdr_r. rewrite Hm, Hb. apply slice_first.
Qed.

Lemma sections_partition_full legacy o m :
  let v := fst (snapshot_gen legacy o m) in
  0 <= v_bodyoff v /\ v_bodyoff v <= v_troff v /\ v_troff v <= blen (v_message v) /\
  exists h b t, hdr_r v = Some h /\ body_r v = Some b /\ trl_r v = Some t /\
                h ++ b ++ t = v_message v /\ ends_with (crlf ++ crlf) h = true.
Proof.
  cbv zeta.
  destruct (sections_partition legacy o m) as (H1 & H2 & H3 & h & b & t & Hh & Hb & Ht & Hcat).
  split; [assumption|]. split; [assumption|]. split; [assumption|].
  exists h, b, t. repeat split; try assumption.
  rewrite hdr_section_is_head in Hh. injection Hh as <-. apply head_ends_with_blank_line.
Qed.

(* ---------------- the snapshot is a parseable message equal to the original ---------------- *)

(* the specification pair: the RFC-shaped reader inverts the RFC-shaped
   writer on every well-formed message, with or without trailers *)
Lemma parse_serialize m :
  wf_b m = true -> parse_spec (m_isreq m) (serialize_spec m) = Some (canon m).
Proof.
  intros Hwf.
  pose proof (all_wf m Hwf) as Hall.
  pose proof Hwf as Hwf'. unfold wf_b in Hwf'. rewrite !andb_true_iff in Hwf'.
  destruct Hwf' as [[[[[[[Hst Hh1] Hh2] Hhr] Hhd] Hfr] Htr] Hnb].
  unfold parse_spec, serialize_spec. rewrite head_bytes_shape. rewrite <- !app_assoc.
  rewrite split_crlf_app by assumption.
  set (allh := special m ++ write_subset (m_isreq m) (m_hdrs m)) in *.
  rewrite parse_hdrs_hlines_all by assumption.
  assert (Hhost : (if m_isreq m then header_get kHost allh else []) = m_host m).
  { destruct (m_isreq m) eqn:Er.
    - unfold header_get, allh. rewrite <- Er at 1. rewrite lookup_all by (rewrite Er; apply excl_Host).
      rewrite (lookup_Host m Er).
      destruct (bytes_eqb (m_host m) []) eqn:E; cbn [negb]; [|reflexivity].
      apply bytes_eqb_eq in E. now rewrite E.
    - cbn [orb] in Hhr. apply bytes_eqb_eq in Hhr. now rewrite Hhr. }
  rewrite Hhost.
  unfold allh at 1. rewrite lookup_all by apply excl_TE. rewrite lookup_TE.
  assert (Hfilt : filter (fun h : bytes * bytes => negb (excluded (m_isreq m) (fst h))) allh
                  = write_subset (m_isreq m) (m_hdrs m)) by (unfold allh; apply filter_all).
  rewrite Hfilt.
  unfold canon.
  destruct (m_te m) eqn:Ete.
  - (* chunked *)
    rewrite bytes_eqb_refl.
    apply Z.eqb_eq in Hfr.
    rewrite chunk_roundtrip.
    + rewrite Hfr. cbn [negb andb]. f_equal. f_equal.
      unfold trailer_list. destruct (m_trailers m) as [[|x l]|]; reflexivity.
    + unfold trailer_list. destruct (m_trailers m) as [tl|]; [|reflexivity].
      apply andb_true_iff in Htr. tauto.
  - (* not chunked *)
    assert (Htn : m_trailers m = None).
    { destruct (m_trailers m); [|reflexivity]. rewrite andb_true_iff in Htr. destruct Htr; discriminate. }
    rewrite Htn. cbn [canon_trailers].
    unfold allh at 1. rewrite lookup_all by apply excl_CL. rewrite lookup_CL, Ete. cbn [negb andb].
    destruct (0 <=? m_cl m) eqn:Ecl.
    + apply Z.leb_le in Ecl. apply Z.eqb_eq in Hfr.
      rewrite dec_roundtrip. rewrite Z2N.id by assumption.
      rewrite Hfr, Z.eqb_refl. f_equal. f_equal.
      destruct (m_cl m) as [|p|p]; try reflexivity. lia.
    + apply andb_true_iff in Hfr. destruct Hfr as [Hc Hrq]. apply Z.eqb_eq in Hc.
      apply negb_true_iff in Hrq. rewrite Hrq, Hc. reflexivity.
Qed.

(* the implementation refines the specification writer exactly when the
   Trailer map is nil (C15-K4 otherwise); repaired or not *)
Lemma snapshot_refines_serialize legacy o m :
  m_trailers m = None ->
  v_full (fst (snapshot_gen legacy o m)) = true ->
  v_message (fst (snapshot_gen legacy o m)) = serialize_spec m.
Proof.
  intros Htn Hfull.
  destruct (snapshot_view_shape legacy o m) as (b & t & Hm & _ & _ & Hbt).
  cbv zeta in *. specialize (Hbt Hfull). destruct Hbt as [-> ->].
  rewrite Hm. unfold serialize_spec, trailer_bytes, trailer_list, chunk_enc. rewrite Htn.
  destruct (m_te m); cbn [hlines map List.concat app]; [reflexivity | now rewrite app_nil_r].
Qed.

Lemma snapshot_parseable o m :
  wf_b m = true ->
  m_trailers m = None ->
  v_full (fst (snapshot o m)) = true ->
  parse_spec (m_isreq m) (v_message (fst (snapshot o m))) = Some (canon m).
Proof.
  intros Hwf Htn Hfull. unfold snapshot in *.
  rewrite snapshot_refines_serialize by assumption. now apply parse_serialize.
Qed.

(* the snapshot starts with the message's start line, byte for byte *)
Lemma snapshot_first_line legacy o m :
  no_cr (m_start m) = true ->
  first_line (v_message (fst (snapshot_gen legacy o m))) = Some (m_start m).
Proof.
  intros Hs. destruct (snapshot_view_shape legacy o m) as (b & t & Hm & _).
  cbv zeta in Hm. rewrite Hm. unfold first_line, head_bytes.
  rewrite <- !app_assoc. now rewrite split_crlf_app.
Qed.

(* ---------------- what the loggers leave behind ---------------- *)

Lemma set_body_id m : set_body m (m_nobody m) (m_body m) = m.
Proof. now destruct m. Qed.

Lemma snapshot_msg_unchanged o m : snd (snapshot o m) = m.
Proof.
  unfold snapshot, snapshot_gen.
  destruct (o_skipbody o && negb (match_ct (o_cts o) (header_get kCT (m_hdrs m))))%bool; cbn [snd];
    [reflexivity | apply set_body_id].
Qed.

Lemma forwarded_unchanged lg skip m :
  (lg = LMarbl -> skip = false -> m_nobody m = false) ->
  fst (run_logger lg skip m) = m.
Proof.
  intros G. unfold run_logger, run_logger_gen.
  destruct lg as [o|c| |ho dec].
  - cbn [fst]. apply snapshot_msg_unchanged.
  - destruct skip; [reflexivity|].
    destruct (m_isreq m); [destruct ((m_cl m <=? 0) && negb (m_te m))%bool; [reflexivity|]|];
      destruct (capture_on c m); cbn [fst]; try reflexivity; apply snapshot_msg_unchanged.
  - destruct skip; cbn [andb negb fst]; [reflexivity|].
    rewrite <- (G eq_refl eq_refl). apply set_body_id.
  - destruct skip; [reflexivity|].
    pose proof (snapshot_msg_unchanged (mkOpts ho []) m) as H. unfold snapshot in H.
    destruct (snapshot_gen false (mkOpts ho []) m) as [v m'] eqn:E. cbn [snd fst] in *. exact H.
Qed.

Lemma skip_means_unrecorded lg m : snd (run_logger lg true m) = [].
Proof.
  unfold run_logger, run_logger_gen. destruct lg; reflexivity.
Qed.

(* logged text of the text logger = the snapshot bytes *)
Lemma text_record_is_snapshot ho m :
  snd (run_logger (LText ho false) false m) =
  [RText (Some (v_message (fst (snapshot (mkOpts ho []) m))))].
Proof.
  unfold run_logger, run_logger_gen, snapshot.
  destruct (snapshot_gen false (mkOpts ho []) m) as [v m'] eqn:E. cbn [snd fst].
  pose proof (sections_partition false (mkOpts ho []) m) as Hs. rewrite E in Hs. cbn [fst] in Hs.
  destruct Hs as (_ & _ & _ & h & b & t & Hh & Hb & Ht & Hcat).
  unfold reader. rewrite Hh, Hb, Ht, Hcat. reflexivity.
Qed.

(* ---------------- the view a logger builds; who reads the body ---------------- *)

Lemma default_view_full m : v_full (fst (snapshot default_opts m)) = true.
Proof. reflexivity. Qed.

Lemma text_view_full ho m : v_full (fst (snapshot (mkOpts ho []) m)) = negb ho.
Proof. unfold snapshot, snapshot_gen. cbn. destruct ho; reflexivity. Qed.

Lemma reads_body_spec lg skip m :
  reads_body lg skip m = match logger_view lg skip m with Some v => v_full v | None => false end.
Proof.
  unfold reads_body, logger_view. destruct lg as [o|c| |ho dec].
  - reflexivity.
  - destruct skip; cbn [negb andb]; [reflexivity|].
    destruct (capture_on c m && (if m_isreq m then negb ((m_cl m <=? 0) && negb (m_te m)) else true))%bool;
      [now rewrite default_view_full | reflexivity].
  - reflexivity.
  - destruct skip; cbn [negb andb]; [reflexivity | now rewrite text_view_full].
Qed.

(* every view a logger builds has sections that partition it *)
Lemma logger_view_sections lg skip m v :
  logger_view lg skip m = Some v -> view_sections_ok v.
Proof.
  unfold logger_view. destruct lg as [o|c| |ho dec].
  - intros E. injection E as <-. exact (sections_partition false o m).
  - destruct skip; [discriminate|].
    destruct (capture_on c m && _)%bool; [|discriminate].
    intros E. injection E as <-. exact (sections_partition false default_opts m).
  - discriminate.
  - destruct skip; [discriminate|]. intros E. injection E as <-.
    exact (sections_partition false (mkOpts ho []) m).
Qed.

(* mv.Reader() never fails on a snapshot view, with or without Decode() *)
Lemma reader_total legacy o m dec : reader dec (fst (snapshot_gen legacy o m)) <> None.
Proof.
  pose proof (sections_partition legacy o m) as (_ & _ & _ & h & b & t & Hh & Hb & Ht & _).
  unfold reader. rewrite Hh, Hb, Ht. destruct dec; [|discriminate].
  unfold body_decoded. destruct b as [|c b]; [discriminate|].
  destruct (v_chunked (fst (snapshot_gen legacy o m))); [|discriminate].
  pose proof (dechunk_never_out_of_fuel (c :: b)) as Hf.
  destruct (dechunk (c :: b)) as [d st]. cbn [snd] in Hf. destruct st; try discriminate. congruence.
Qed.

(* ---------------- records ---------------- *)

Lemma records_when_not_skipped lg m :
  List.length (snd (run_logger lg false m)) = match lg with LSnap _ => 0%nat | _ => 1%nat end.
Proof.
  unfold run_logger, run_logger_gen. destruct lg as [o|c| |ho dec]; cbn [snd List.length].
  - reflexivity.
  - destruct (m_isreq m); [destruct ((m_cl m <=? 0) && negb (m_te m))%bool; [reflexivity|]|];
      destruct (capture_on c m); reflexivity.
  - reflexivity.
  - destruct (snapshot_gen false (mkOpts ho []) m). reflexivity.
Qed.

(* ---------------- histories of exchanges ---------------- *)

Lemma run_many_messages lg xs :
  fst (run_many lg xs) = map (fun x => fst (run_logger lg (fst x) (snd x))) xs.
Proof.
  induction xs as [|[skip m] xs IH]; [reflexivity|].
  cbn [run_many map fst snd]. destruct (run_logger lg skip m) as [m' r].
  destruct (run_many lg xs) as [ms rs]. cbn [fst] in *. now rewrite IH.
Qed.

Lemma run_many_records lg xs :
  snd (run_many lg xs) = flat_map (fun x => snd (run_logger lg (fst x) (snd x))) xs.
Proof.
  induction xs as [|[skip m] xs IH]; [reflexivity|].
  cbn [run_many flat_map fst snd]. destruct (run_logger lg skip m) as [m' r].
  destruct (run_many lg xs) as [ms rs]. cbn [snd] in *. now rewrite IH.
Qed.

(* every message of a history is left as it was, whatever else is in the history *)
Lemma run_many_unchanged lg xs :
  Forall (fun x => lg = LMarbl -> fst x = false -> m_nobody (snd x) = false) xs ->
  fst (run_many lg xs) = map snd xs.
Proof.
  intros H. rewrite run_many_messages. apply map_ext_in.
  intros [skip m] Hin. cbn [fst snd]. rewrite Forall_forall in H. specialize (H _ Hin). cbn [fst snd] in H.
  now apply forwarded_unchanged.
Qed.

(* the log of a history is the log of its unskipped exchanges *)
Lemma run_many_skip_invisible lg xs :
  snd (run_many lg xs) = snd (run_many lg (filter (fun x => negb (fst x)) xs)).
Proof.
  rewrite !run_many_records. induction xs as [|[skip m] xs IH]; [reflexivity|].
  cbn [flat_map filter fst snd]. destruct skip; cbn [negb].
  - rewrite skip_means_unrecorded. cbn [app]. exact IH.
  - cbn [flat_map fst snd]. now rewrite IH.
Qed.

(* the result for one exchange does not depend on the exchanges around it *)
Lemma run_many_independent lg pre x post :
  nth_error (fst (run_many lg (pre ++ x :: post))) (List.length pre)
  = Some (fst (run_logger lg (fst x) (snd x))).
Proof.
  rewrite run_many_messages, map_app. cbn [map].
  rewrite nth_error_app2 by (rewrite map_length; lia).
  rewrite map_length, Nat.sub_diag. reflexivity.
Qed.
