(* C15 — basic facts: decidable equalities, CRLF splitting, numerals. *)
From Coq Require Import List NArith ZArith Bool Ascii String Lia.
From Coq Require DecimalString HexadecimalString DecimalN HexadecimalN Decimal Hexadecimal DecimalPos HexadecimalPos.
From Martian.C15 Require Import Model.
Import ListNotations.
Open Scope Z_scope.

(* ---------------- equality tests ---------------- *)

Lemma list_eqb_eq {A} (e : A -> A -> bool) :
  (forall x y, e x y = true <-> x = y) ->
  forall a b, list_eqb e a b = true <-> a = b.
Proof.
  intros He a. induction a as [|x a IH]; intros [|y b]; cbn [list_eqb].
  - tauto.
  - split; discriminate.
  - split; discriminate.
  - rewrite andb_true_iff, He, IH. split.
    + intros [-> ->]. reflexivity.
    + intros H. injection H as -> ->. tauto.
Qed.

Lemma bytes_eqb_eq a b : bytes_eqb a b = true <-> a = b.
Proof. apply list_eqb_eq. intros x y. apply Ascii.eqb_eq. Qed.

Lemma bytes_eqb_refl a : bytes_eqb a a = true.
Proof. now apply bytes_eqb_eq. Qed.

Lemma bytes_eqb_neq a b : bytes_eqb a b = false <-> a <> b.
Proof.
  rewrite <- bytes_eqb_eq. destruct (bytes_eqb a b); split; congruence.
Qed.

Lemma hdr_eqb_eq a b : hdr_eqb a b = true <-> a = b.
Proof.
  unfold hdr_eqb. destruct a as [k v], b as [k' v']. cbn [fst snd].
  rewrite andb_true_iff, !bytes_eqb_eq. split.
  - intros [-> ->]. reflexivity.
  - intros H. injection H as -> ->. tauto.
Qed.

Lemma hdrs_eqb_eq a b : hdrs_eqb a b = true <-> a = b.
Proof. apply list_eqb_eq. apply hdr_eqb_eq. Qed.

Lemma opt_eqb_eq {A} (e : A -> A -> bool) :
  (forall x y, e x y = true <-> x = y) ->
  forall a b, opt_eqb e a b = true <-> a = b.
Proof.
  intros He [x|] [y|]; cbn [opt_eqb].
  - rewrite He. split; [intros ->; reflexivity | intros H; now injection H].
  - split; discriminate.
  - split; discriminate.
  - tauto.
Qed.

Lemma bool_eqb_eq a b : Bool.eqb a b = true <-> a = b.
Proof. destruct a, b; cbn; split; congruence. Qed.

Lemma msg_eqb_eq a b : msg_eqb a b = true <-> a = b.
Proof.
  unfold msg_eqb. destruct a, b. cbn.
  rewrite !andb_true_iff, !bool_eqb_eq, !bytes_eqb_eq, Z.eqb_eq, hdrs_eqb_eq,
    (opt_eqb_eq hdrs_eqb hdrs_eqb_eq).
  split.
  - intros [[[[[[[[-> ->] ->] ->] ->] ->] ->] ->] ->]. reflexivity.
  - intros H. injection H as -> -> -> -> -> -> -> -> ->. tauto.
Qed.

Lemma msg_eqb_refl a : msg_eqb a a = true.
Proof. now apply msg_eqb_eq. Qed.

(* ---------------- lengths ---------------- *)

Lemma blen_app a b : blen (a ++ b) = blen a + blen b.
Proof. unfold blen. rewrite app_length. lia. Qed.

Lemma blen_nonneg a : 0 <= blen a.
Proof. unfold blen. lia. Qed.

(* ---------------- CRLF splitting ---------------- *)

Lemma no_cr_In l : no_cr l = true <-> ~ In CR l.
Proof.
  unfold no_cr. induction l as [|c l IH]; cbn [forallb In].
  - split; [tauto | reflexivity].
  - rewrite andb_true_iff, IH, negb_true_iff. split.
    + intros [Hc Hl] [Heq|Hin]; [|tauto].
      subst c. now rewrite Ascii.eqb_refl in Hc.
    + intros H. split; [|tauto].
      destruct (Ascii.eqb c CR) eqn:E; [|reflexivity].
      apply Ascii.eqb_eq in E. subst. tauto.
Qed.

Lemma split_crlf_app l r :
  no_cr l = true -> split_crlf (l ++ crlf ++ r) = Some (l, r).
Proof.
  induction l as [|c l IH]; intros H.
  - cbn. reflexivity.
  - cbn [no_cr forallb] in H. apply andb_true_iff in H. destruct H as [Hc Hl].
    apply negb_true_iff in Hc.
    change ((c :: l) ++ crlf ++ r) with (c :: (l ++ crlf ++ r)).
    cbn [split_crlf]. rewrite Hc. cbn [andb].
    specialize (IH Hl). rewrite IH.
    destruct (l ++ crlf ++ r) eqn:E.
    + destruct l; discriminate.
    + reflexivity.
Qed.

(* ---------------- numerals ---------------- *)

Definition is_digit_like (c : ascii) : bool := negb (Ascii.eqb c CR).

Lemma dec_string_no_cr d :
  no_cr (list_ascii_of_string (DecimalString.NilEmpty.string_of_uint d)) = true.
Proof. induction d; cbn; auto. Qed.

Lemma hex_string_no_cr d :
  no_cr (list_ascii_of_string (HexadecimalString.NilEmpty.string_of_uint d)) = true.
Proof. induction d; cbn; auto. Qed.

Lemma dec_enc_no_cr n : no_cr (dec_enc n) = true.
Proof. apply dec_string_no_cr. Qed.

Lemma hex_enc_no_cr n : no_cr (hex_enc n) = true.
Proof. apply hex_string_no_cr. Qed.

Lemma dec_string_nonempty d : d <> Decimal.Nil ->
  list_ascii_of_string (DecimalString.NilEmpty.string_of_uint d) <> [].
Proof. destruct d; cbn; congruence. Qed.

Lemma hex_string_nonempty d : d <> Hexadecimal.Nil ->
  list_ascii_of_string (HexadecimalString.NilEmpty.string_of_uint d) <> [].
Proof. destruct d; cbn; congruence. Qed.

Lemma N_to_uint_not_nil n : N.to_uint n <> Decimal.Nil.
Proof.
  destruct n as [|p]; cbn; [discriminate|].
  unfold Pos.to_uint. intros H.
  pose proof (DecimalPos.Unsigned.to_uint_nonnil p) as Hn.
  apply Hn. exact H.
Qed.

Lemma N_to_hex_uint_not_nil n : N.to_hex_uint n <> Hexadecimal.Nil.
Proof.
  destruct n as [|p]; cbn; [discriminate|].
  intros H.
  pose proof (HexadecimalPos.Unsigned.to_uint_nonnil p) as Hn.
  apply Hn. exact H.
Qed.

Lemma dec_roundtrip n : dec_dec (dec_enc n) = Some n.
Proof.
  unfold dec_dec, dec_enc.
  destruct (list_ascii_of_string (DecimalString.NilEmpty.string_of_uint (N.to_uint n))) eqn:E.
  - exfalso. eapply dec_string_nonempty; [apply N_to_uint_not_nil | exact E].
  - rewrite <- E. rewrite string_of_list_ascii_of_string.
    rewrite DecimalString.NilEmpty.usu. cbn [option_map].
    now rewrite DecimalN.Unsigned.of_to.
Qed.

Lemma hex_roundtrip n : hex_dec (hex_enc n) = Some n.
Proof.
  unfold hex_dec, hex_enc.
  destruct (list_ascii_of_string (HexadecimalString.NilEmpty.string_of_uint (N.to_hex_uint n))) eqn:E.
  - exfalso. eapply hex_string_nonempty; [apply N_to_hex_uint_not_nil | exact E].
  - rewrite <- E. rewrite string_of_list_ascii_of_string.
    rewrite HexadecimalString.NilEmpty.usu. cbn [option_map].
    now rewrite HexadecimalN.Unsigned.of_to.
Qed.

Lemma hex_dec_zero : hex_dec (B "0") = Some 0%N.
Proof. reflexivity. Qed.
