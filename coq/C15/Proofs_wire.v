(* C15 — header lines, chunked coding round trip, view sections. *)
From Coq Require Import List NArith ZArith Bool Ascii String Lia.
From Martian.C15 Require Import Model Proofs_base.
Import ListNotations.
Open Scope Z_scope.

(* ---------------- header lines ---------------- *)

Definition hl_body (h : hdr) : bytes := fst h ++ B ": " ++ snd h.

Lemma hline_split h X : hline h ++ X = hl_body h ++ crlf ++ X.
Proof. unfold hline, hl_body. now rewrite <- !app_assoc. Qed.

Lemma no_cr_app a b : no_cr (a ++ b) = (no_cr a && no_cr b)%bool.
Proof. unfold no_cr. apply forallb_app. Qed.

Lemma wf_hdr_facts h : wf_hdr h = true ->
  fst h <> [] /\
  forallb (fun c => negb (Ascii.eqb c CR) && negb (Ascii.eqb c ":"%char))%bool (fst h) = true /\
  no_cr (snd h) = true /\ drop_ows (snd h) = snd h.
Proof.
  unfold wf_hdr. rewrite !andb_true_iff. intros [[[H1 H2] H3] H4].
  repeat split; try assumption.
  - destruct (fst h); [discriminate | discriminate].
  - now apply bytes_eqb_eq.
Qed.

Lemma key_no_cr k :
  forallb (fun c => negb (Ascii.eqb c CR) && negb (Ascii.eqb c ":"%char))%bool k = true ->
  no_cr k = true.
Proof.
  unfold no_cr. induction k as [|c k IH]; cbn [forallb]; [reflexivity|].
  rewrite !andb_true_iff. intros [[H1 _] H2]. split; [assumption | now apply IH].
Qed.

Lemma split_colon_app k v :
  forallb (fun c => negb (Ascii.eqb c CR) && negb (Ascii.eqb c ":"%char))%bool k = true ->
  split_colon (k ++ ":"%char :: v) = Some (k, v).
Proof.
  induction k as [|c k IH]; cbn [forallb app split_colon].
  - intros _. now rewrite Ascii.eqb_refl.
  - rewrite !andb_true_iff. intros [[_ H1] H2].
    apply negb_true_iff in H1. rewrite H1. now rewrite (IH H2).
Qed.

Lemma hl_body_no_cr h : wf_hdr h = true -> no_cr (hl_body h) = true.
Proof.
  intros H. destruct (wf_hdr_facts h H) as (_ & Hk & Hv & _).
  unfold hl_body. rewrite !no_cr_app, (key_no_cr _ Hk), Hv. reflexivity.
Qed.

Lemma drop_ows_space v : drop_ows (" "%char :: v) = drop_ows v.
Proof. reflexivity. Qed.

Lemma parse_hline_ok h : wf_hdr h = true -> parse_hline (hl_body h) = Some h.
Proof.
  intros H. destruct (wf_hdr_facts h H) as (Hne & Hk & _ & Hd).
  unfold parse_hline, hl_body. change (B ": ") with [":"%char; " "%char].
  change ([":"%char; " "%char] ++ snd h) with (":"%char :: " "%char :: snd h).
  rewrite (split_colon_app _ _ Hk).
  rewrite drop_ows_space, Hd.
  destruct h as [k v]. cbn [fst snd] in *. destruct k; [congruence | reflexivity].
Qed.

Lemma hl_body_nonempty h : wf_hdr h = true -> exists c l, hl_body h = c :: l.
Proof.
  intros H. destruct (wf_hdr_facts h H) as (Hne & _).
  unfold hl_body. destruct (fst h) as [|c k]; [congruence|]. now exists c, (k ++ B ": " ++ snd h).
Qed.

Lemma parse_hdrs_hlines hs : forall rest fuel,
  forallb wf_hdr hs = true -> (List.length hs < fuel)%nat ->
  parse_hdrs fuel (hlines hs ++ crlf ++ rest) = POk (hs, rest).
Proof.
  induction hs as [|h hs IH]; intros rest fuel Hwf Hf.
  - destruct fuel as [|f]; [cbn in Hf; lia|].
    cbn [hlines map List.concat app parse_hdrs].
    change (crlf ++ rest) with ([] ++ crlf ++ rest).
    rewrite split_crlf_app by reflexivity. reflexivity.
  - destruct fuel as [|f]; [cbn in Hf; lia|].
    cbn [forallb] in Hwf. apply andb_true_iff in Hwf. destruct Hwf as [Hh Hhs].
    unfold hlines. cbn [map List.concat]. fold (hlines hs).
    rewrite <- app_assoc. rewrite hline_split.
    cbn [parse_hdrs]. rewrite split_crlf_app by now apply hl_body_no_cr.
    destruct (hl_body_nonempty h Hh) as (c & l & E). rewrite E. rewrite <- E.
    rewrite (parse_hline_ok h Hh).
    rewrite IH; [reflexivity | assumption | cbn in Hf; lia].
Qed.

Lemma hlines_length hs : (List.length hs <= List.length (hlines hs))%nat.
Proof.
  induction hs as [|h hs IH]; [cbn; lia|].
  unfold hlines. cbn [map List.concat]. fold (hlines hs).
  rewrite app_length. unfold hline. rewrite !app_length. cbn [List.length crlf]. lia.
Qed.

Lemma parse_hdrs_hlines_all hs rest :
  forallb wf_hdr hs = true ->
  parse_hdrs (S (List.length (hlines hs ++ crlf ++ rest))) (hlines hs ++ crlf ++ rest) = POk (hs, rest).
Proof.
  intros H. apply parse_hdrs_hlines; [assumption|].
  rewrite app_length. pose proof (hlines_length hs). lia.
Qed.

(* ---------------- chunked coding ---------------- *)

Lemma take_n_app b X : take_n (N.of_nat (List.length b)) (b ++ X) = Some (b, X).
Proof.
  unfold take_n. rewrite Nat2N.id.
  replace (Nat.leb (List.length b) (List.length (b ++ X))) with true
    by (symmetry; apply Nat.leb_le; rewrite app_length; lia).
  rewrite firstn_app, firstn_all, Nat.sub_diag. cbn [firstn]. rewrite app_nil_r.
  rewrite skipn_app, skipn_all, Nat.sub_diag. cbn [skipn app]. reflexivity.
Qed.

Lemma chunk_dec_loop_last f acc t rest :
  forallb wf_hdr t = true ->
  chunk_dec_loop (S f) acc (B "0" ++ crlf ++ hlines t ++ crlf ++ rest) = POk (acc, t, rest).
Proof.
  intros Ht. cbn [chunk_dec_loop].
  rewrite split_crlf_app by reflexivity.
  rewrite hex_dec_zero. cbn [N.eqb].
  now rewrite parse_hdrs_hlines_all.
Qed.

Lemma chunk_dec_loop_one f acc b X : b <> [] ->
  chunk_dec_loop (S f) acc (hex_enc (N.of_nat (List.length b)) ++ crlf ++ b ++ crlf ++ X)
  = chunk_dec_loop f (acc ++ b) X.
Proof.
  intros Hb. cbn [chunk_dec_loop].
  rewrite split_crlf_app by apply hex_enc_no_cr.
  rewrite hex_roundtrip.
  destruct (N.eqb (N.of_nat (List.length b)) 0) eqn:E.
  - apply N.eqb_eq in E. destruct b; [congruence | cbn in E; lia].
  - rewrite take_n_app. cbn [crlf app]. rewrite !Ascii.eqb_refl. reflexivity.
Qed.

Lemma chunk_enc_shape b t :
  chunk_enc b t =
  match b with
  | [] => B "0" ++ crlf ++ hlines t ++ crlf ++ []
  | _ => hex_enc (N.of_nat (List.length b)) ++ crlf ++ b ++ crlf
         ++ (B "0" ++ crlf ++ hlines t ++ crlf ++ [])
  end.
Proof.
  unfold chunk_enc, chunk_body. rewrite !app_nil_r.
  destruct b as [|c b].
  - cbn [app]. now rewrite <- !app_assoc.
  - now rewrite <- !app_assoc.
Qed.

Lemma length_app_crlf a X : exists k, List.length (a ++ crlf ++ X) = S k.
Proof.
  exists (List.length a + S (List.length X))%nat.
  rewrite app_length. cbn [crlf app List.length]. lia.
Qed.

Lemma chunk_roundtrip b t :
  forallb wf_hdr t = true -> chunk_dec (chunk_enc b t) = POk (b, t, []).
Proof.
  intros Ht. unfold chunk_dec. rewrite chunk_enc_shape.
  destruct b as [|c b].
  - now rewrite chunk_dec_loop_last.
  - set (bb := c :: b).
    destruct (length_app_crlf (hex_enc (N.of_nat (List.length bb)))
                (bb ++ crlf ++ B "0" ++ crlf ++ hlines t ++ crlf ++ [])) as [k Hk].
    rewrite Hk.
    rewrite chunk_dec_loop_one by (unfold bb; discriminate).
    destruct k as [|k].
    + exfalso. rewrite !app_length in Hk. unfold bb in Hk.
      cbn [crlf List.length B list_ascii_of_string] in Hk. lia.
    + rewrite chunk_dec_loop_last by assumption. reflexivity.
Qed.

(* the body section alone (what BodyReader(Decode()) de-chunks) *)
Lemma dechunk_loop_last f acc : dechunk_loop (S f) acc (B "0" ++ crlf ++ []) = (acc, DDone).
Proof. cbn [dechunk_loop]. rewrite split_crlf_app by reflexivity. now rewrite hex_dec_zero. Qed.

Lemma dechunk_loop_one f acc b X : b <> [] ->
  dechunk_loop (S f) acc (hex_enc (N.of_nat (List.length b)) ++ crlf ++ b ++ crlf ++ X)
  = dechunk_loop f (acc ++ b) X.
Proof.
  intros Hb. cbn [dechunk_loop].
  rewrite split_crlf_app by apply hex_enc_no_cr.
  rewrite hex_roundtrip.
  destruct (N.eqb (N.of_nat (List.length b)) 0) eqn:E.
  - apply N.eqb_eq in E. destruct b; [congruence | cbn in E; lia].
  - rewrite take_n_app. cbn [crlf app]. rewrite !Ascii.eqb_refl. reflexivity.
Qed.

Lemma dechunk_chunk_body b : dechunk (chunk_body b) = (b, DDone).
Proof.
  unfold dechunk, chunk_body. destruct b as [|c b].
  - cbn [app]. change (B "0" ++ crlf) with (B "0" ++ crlf ++ []). now rewrite dechunk_loop_last.
  - set (bb := c :: b). rewrite <- !app_assoc.
    destruct (length_app_crlf (hex_enc (N.of_nat (List.length bb))) (bb ++ crlf ++ B "0" ++ crlf)) as [k Hk].
    rewrite Hk.
    rewrite dechunk_loop_one by (unfold bb; discriminate).
    destruct k as [|k].
    + exfalso. rewrite !app_length in Hk. unfold bb in Hk.
      cbn [crlf List.length B list_ascii_of_string] in Hk. lia.
    + change (B "0" ++ crlf) with (B "0" ++ crlf ++ []). now rewrite dechunk_loop_last.
Qed.

(* ---------------- view sections ---------------- *)

Lemma slice_first a b : slice (a ++ b) 0 (blen a) = Some a.
Proof.
  unfold slice. pose proof (blen_nonneg a). pose proof (blen_nonneg b).
  rewrite blen_app.
  replace ((0 <=? 0) && (0 <=? blen a) && (blen a <=? blen a + blen b))%bool with true
    by (symmetry; rewrite !andb_true_iff, !Z.leb_le; lia).
  cbn [Z.to_nat skipn]. rewrite Z.sub_0_r. unfold blen. rewrite Nat2Z.id.
  rewrite firstn_app, firstn_all, Nat.sub_diag. cbn [firstn]. now rewrite app_nil_r.
Qed.

Lemma slice_mid a b c : slice (a ++ b ++ c) (blen a) (blen a + blen b) = Some b.
Proof.
  unfold slice. pose proof (blen_nonneg a). pose proof (blen_nonneg b). pose proof (blen_nonneg c).
  rewrite !blen_app.
  replace ((0 <=? blen a) && (blen a <=? blen a + blen b) && (blen a + blen b <=? blen a + (blen b + blen c)))%bool
    with true by (symmetry; rewrite !andb_true_iff, !Z.leb_le; lia).
  replace (blen a + blen b - blen a) with (blen b) by lia.
  unfold blen. rewrite !Nat2Z.id.
  rewrite skipn_app, skipn_all, Nat.sub_diag. cbn [skipn app].
  rewrite firstn_app, firstn_all, Nat.sub_diag. cbn [firstn]. now rewrite app_nil_r.
Qed.

Lemma slice_last a c : slice (a ++ c) (blen a) (blen (a ++ c)) = Some c.
Proof.
  unfold slice. pose proof (blen_nonneg a). pose proof (blen_nonneg c).
  rewrite !blen_app.
  replace ((0 <=? blen a) && (blen a <=? blen a + blen c) && (blen a + blen c <=? blen a + blen c))%bool
    with true by (symmetry; rewrite !andb_true_iff, !Z.leb_le; lia).
  replace (blen a + blen c - blen a) with (blen c) by lia.
  unfold blen. rewrite !Nat2Z.id.
  rewrite skipn_app, skipn_all, Nat.sub_diag. cbn [skipn app].
  apply f_equal. apply firstn_all.
Qed.

(* ---------------- fuel always suffices (any input, not only encoder output) ---------------- *)

Lemma split_crlf_shorter s l r :
  split_crlf s = Some (l, r) -> (List.length r + 2 <= List.length s)%nat.
Proof.
  revert l r. induction s as [|c s IH]; intros l r H; [discriminate|].
  cbn [split_crlf] in H. destruct s as [|d s']; [discriminate|].
  destruct (Ascii.eqb c CR && Ascii.eqb d LF)%bool.
  - injection H as <- <-. cbn [List.length]. lia.
  - destruct (split_crlf (d :: s')) as [[l' r']|] eqn:E; [|discriminate].
    injection H as <- <-. specialize (IH _ _ eq_refl). cbn [List.length] in *. lia.
Qed.

Lemma parse_hdrs_fuel fuel : forall s, (List.length s < fuel)%nat -> parse_hdrs fuel s <> PFuel.
Proof.
  induction fuel as [|f IH]; intros s Hs; [lia|].
  cbn [parse_hdrs]. destruct (split_crlf s) as [[l rest]|] eqn:E; [|discriminate].
  destruct l as [|c l]; [discriminate|].
  destruct (parse_hline (c :: l)); [|discriminate].
  pose proof (split_crlf_shorter _ _ _ E) as Hlen.
  specialize (IH rest ltac:(lia)).
  destruct (parse_hdrs f rest) as [[hs r]| |]; try discriminate. congruence.
Qed.

Lemma take_n_shorter n s d r : take_n n s = Some (d, r) -> (List.length r <= List.length s)%nat.
Proof.
  unfold take_n. destruct (Nat.leb (N.to_nat n) (List.length s)); [|discriminate].
  intros H. injection H as <- <-. rewrite skipn_length. lia.
Qed.

Lemma chunk_dec_loop_fuel fuel : forall acc s,
  (List.length s < fuel)%nat -> chunk_dec_loop fuel acc s <> PFuel.
Proof.
  induction fuel as [|f IH]; intros acc s Hs; [lia|].
  cbn [chunk_dec_loop]. destruct (split_crlf s) as [[line rest]|] eqn:E; [|discriminate].
  pose proof (split_crlf_shorter _ _ _ E) as Hlen.
  destruct (hex_dec line) as [n|]; [|discriminate].
  destruct (N.eqb n 0).
  - pose proof (parse_hdrs_fuel (S (List.length rest)) rest ltac:(lia)) as Hp.
    destruct (parse_hdrs (S (List.length rest)) rest) as [[t r]| |]; try discriminate. congruence.
  - destruct (take_n n rest) as [[d rest1]|] eqn:Et; [|discriminate].
    pose proof (take_n_shorter _ _ _ _ Et) as Hl1.
    destruct rest1 as [|c1 [|c2 rest2]]; try discriminate.
    destruct (Ascii.eqb c1 CR && Ascii.eqb c2 LF)%bool; [|discriminate].
    apply IH. cbn [List.length] in Hl1. lia.
Qed.

Lemma chunk_dec_never_out_of_fuel s : chunk_dec s <> PFuel.
Proof. unfold chunk_dec. apply chunk_dec_loop_fuel. lia. Qed.

Lemma dechunk_loop_fuel fuel : forall acc s,
  (List.length s < fuel)%nat -> snd (dechunk_loop fuel acc s) <> DNoFuel.
Proof.
  induction fuel as [|f IH]; intros acc s Hs; [lia|].
  cbn [dechunk_loop]. destruct (split_crlf s) as [[line rest]|] eqn:E; [|cbn; discriminate].
  pose proof (split_crlf_shorter _ _ _ E) as Hlen.
  destruct (hex_dec line) as [n|]; [|cbn; discriminate].
  destruct (N.eqb n 0); [cbn; discriminate|].
  destruct (take_n n rest) as [[d rest1]|] eqn:Et; [|cbn; discriminate].
  pose proof (take_n_shorter _ _ _ _ Et) as Hl1.
  destruct rest1 as [|c1 [|c2 rest2]]; try (cbn; discriminate).
  destruct (Ascii.eqb c1 CR && Ascii.eqb c2 LF)%bool; [|cbn; discriminate].
  apply IH. cbn [List.length] in Hl1. lia.
Qed.

Lemma dechunk_never_out_of_fuel s : snd (dechunk s) <> DNoFuel.
Proof. unfold dechunk. apply dechunk_loop_fuel. lia. Qed.

Lemma parse_hdrs_never_out_of_fuel s : parse_hdrs (S (List.length s)) s <> PFuel.
Proof. apply parse_hdrs_fuel. lia. Qed.
