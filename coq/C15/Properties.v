(* C15 — property theorems.  Statements closed by [exact] + Print Assumptions. *)
From Coq Require Import List NArith ZArith Bool Ascii String.
From Martian.C15 Require Import Model Proofs_base Proofs_wire Proofs_snapshot Proofs_oracle.
Import ListNotations.
Open Scope Z_scope.

(* A snapshot (any options) hands back the message it was given: same start
   line, host, framing fields, headers, body bytes, http.NoBody identity,
   trailers. *)
Theorem C15_snapshot_leaves_message_unchanged : forall o m, snd (snapshot o m) = m.
Proof. exact snapshot_msg_unchanged. Qed.
Print Assumptions C15_snapshot_leaves_message_unchanged.

(* Every logger, every option combination, skip flag on or off: the message
   left behind is the message received.  Guard: marbl wraps http.NoBody
   (known finding C15-K3), so for marbl the request must have a real body
   reader. *)
Theorem C15_forwarded_unchanged_partial : forall lg skip m,
  (lg = LMarbl -> skip = false -> m_nobody m = false) ->
  fst (run_logger lg skip m) = m.
Proof. exact forwarded_unchanged. Qed.
Print Assumptions C15_forwarded_unchanged_partial.

Theorem C15_forwarded_unchanged_refuted :
  exists m, wf_b m = true /\ fst (run_logger LMarbl false m) <> m.
Proof. exact marbl_changes_nobody. Qed.
Print Assumptions C15_forwarded_unchanged_refuted.

(* Offsets are in range, the three section slices never panic and
   concatenate to the snapshot, and the header section is a complete head
   (ends with the blank line); for the repaired and the unrepaired code. *)
Theorem C15_sections_partition : forall legacy o m,
  let v := fst (snapshot_gen legacy o m) in
  0 <= v_bodyoff v /\ v_bodyoff v <= v_troff v /\ v_troff v <= blen (v_message v) /\
  exists h b t, hdr_r v = Some h /\ body_r v = Some b /\ trl_r v = Some t /\
                h ++ b ++ t = v_message v /\ ends_with (crlf ++ crlf) h = true.
Proof. exact sections_partition_full. Qed.
Print Assumptions C15_sections_partition.

Theorem C15_header_section_is_the_head : forall legacy o m,
  hdr_r (fst (snapshot_gen legacy o m)) = Some (head_bytes m).
Proof. exact hdr_section_is_head. Qed.
Print Assumptions C15_header_section_is_the_head.

(* The chunked body the snapshot writes decodes to the body and trailers,
   nothing left over, never out of fuel. *)
Theorem C15_chunk_roundtrip : forall b t,
  forallb wf_hdr t = true -> chunk_dec (chunk_enc b t) = POk (b, t, []).
Proof. exact chunk_roundtrip. Qed.
Print Assumptions C15_chunk_roundtrip.

Theorem C15_body_section_dechunks : forall b, dechunk (chunk_body b) = (b, DDone).
Proof. exact dechunk_chunk_body. Qed.
Print Assumptions C15_body_section_dechunks.

(* A full snapshot is a parseable HTTP message equal to the original
   (canonical form: header order as written).  Guard: the Trailer map is nil;
   with a non-nil Trailer the code omits the CRLF that ends the chunked body
   (known finding C15-K4, pinned by the existing messageview tests). *)
Theorem C15_snapshot_parseable_partial : forall o m,
  wf_b m = true ->
  m_trailers m = None ->
  v_full (fst (snapshot o m)) = true ->
  parse_spec (m_isreq m) (v_message (fst (snapshot o m))) = Some (canon m).
Proof. exact snapshot_parseable. Qed.
Print Assumptions C15_snapshot_parseable_partial.

Theorem C15_snapshot_parseable_refuted :
  exists m, wf_b m = true /\ v_full (fst (snapshot default_opts m)) = true /\
            parse_spec (m_isreq m) (v_message (fst (snapshot default_opts m))) = None.
Proof. exact snapshot_with_trailers_unparseable. Qed.
Print Assumptions C15_snapshot_parseable_refuted.

(* The snapshot (repaired or not, any options) starts with the start line of
   the message, byte for byte. *)
Theorem C15_snapshot_start_line : forall legacy o m,
  no_cr (m_start m) = true ->
  first_line (v_message (fst (snapshot_gen legacy o m))) = Some (m_start m).
Proof. exact snapshot_first_line. Qed.
Print Assumptions C15_snapshot_start_line.

(* the text logger logs exactly those bytes *)
Theorem C15_text_log_is_snapshot : forall ho m,
  snd (run_logger (LText ho false) false m) =
  [RText (Some (v_message (fst (snapshot (mkOpts ho []) m))))].
Proof. exact text_record_is_snapshot. Qed.
Print Assumptions C15_text_log_is_snapshot.

(* An exchange marked to skip logging is recorded by none of the loggers. *)
Theorem C15_skip_means_unrecorded : forall lg m, snd (run_logger lg true m) = [].
Proof. exact skip_means_unrecorded. Qed.
Print Assumptions C15_skip_means_unrecorded.

(* Logger errors (an error return makes the proxy add a Warning header to the
   forwarded message).  No logger fails on a body Go can decode, none fails
   on a skipped exchange, and the only failing combination is: HAR, response,
   body captured, content coding active, body not decodable (C15-K1). *)
Theorem C15_no_logger_error_partial : forall lg skip m, logger_errors lg skip DecOk m = false.
Proof. exact no_error_when_decodable. Qed.
Print Assumptions C15_no_logger_error_partial.

Theorem C15_no_logger_error_refuted :
  exists m, wf_b m = true /\ logger_errors (LHar CapOn) false DecFailRead m = true.
Proof. exact har_errors_on_undecodable_body. Qed.
Print Assumptions C15_no_logger_error_refuted.

Theorem C15_logger_error_only_har_response_capture : forall lg skip cls m,
  logger_errors lg skip cls m = true ->
  exists c, lg = LHar c /\ skip = false /\ m_isreq m = false /\ capture_on c m = true
            /\ compress_active m = true /\ cls <> DecOk.
Proof. exact only_har_response_capture_errors. Qed.
Print Assumptions C15_logger_error_only_har_response_capture.

Theorem C15_skipped_never_errors : forall legacy lg cls m, logger_errors_gen legacy lg true cls m = false.
Proof. exact skipped_never_errors. Qed.
Print Assumptions C15_skipped_never_errors.

Theorem C15_legacy_text_logger_error_refuted :
  exists m, wf_b m = true /\ logger_errors_legacy (LText false true) false DecFailOpen m = true.
Proof. exact legacy_text_logger_errors. Qed.
Print Assumptions C15_legacy_text_logger_error_refuted.

(* marbl never reads the body itself, nor does a skipped logger: a failing
   body source is met only by whoever forwards the message. *)
Theorem C15_marbl_never_reads_body : forall skip m, reads_body LMarbl skip m = false.
Proof. exact marbl_never_reads_body. Qed.
Print Assumptions C15_marbl_never_reads_body.

Theorem C15_skipped_logger_never_reads_body : forall lg m,
  (forall o, lg <> LSnap o) -> reads_body lg true m = false.
Proof. exact skipped_logger_never_reads_body. Qed.
Print Assumptions C15_skipped_logger_never_reads_body.

(* The oracle evaluated on the real code's outputs is the property. *)
Theorem C15_oracle_is_the_property : forall skip m o,
  c15_ok skip m o = true <->
  (ob_after o = m /\ ob_fwd_same o = true) /\
  (forall h b t full, ob_sections o = Some (h, b, t, full) ->
     h ++ b ++ t = full /\ exists p, h = p ++ crlf ++ crlf) /\
  (forall r, ob_reparse o = Some r -> option_map canon r = Some (canon m)) /\
  (skip = true -> ob_records o = 0%nat) /\
  (ob_err o = true -> ob_src_failed o = true) /\
  (forall snap ref, ob_startline o = Some (snap, ref) -> snap = ref).
Proof. exact c15_ok_iff. Qed.
Print Assumptions C15_oracle_is_the_property.

Theorem C15_model_satisfies_oracle : forall lg skip m,
  (lg = LMarbl -> skip = false -> m_nobody m = false) ->
  c15_ok skip m (model_obs lg skip m) = true.
Proof. exact model_satisfies_property. Qed.
Print Assumptions C15_model_satisfies_oracle.

(* The code before the repairs (fixes/C15-2, C15-3) violates the property: *)
Theorem C15_legacy_forwarded_unchanged_refuted :
  exists m, wf_b m = true /\ snd (snapshot_legacy default_opts m) <> m.
Proof. exact legacy_snapshot_changes_message. Qed.
Print Assumptions C15_legacy_forwarded_unchanged_refuted.

Theorem C15_legacy_skip_means_unrecorded_refuted :
  exists m, wf_b m = true /\ snd (run_logger_legacy LMarbl true m) <> [].
Proof. exact legacy_marbl_records_skipped. Qed.
Print Assumptions C15_legacy_skip_means_unrecorded_refuted.

(* Non-vacuity: a chunked request with a body and a trailer satisfies the
   hypotheses; its snapshot, byte for byte, and its re-parse. *)
Example C15_example_wf : wf_b ex_chunked = true /\ wf_b ex_empty_post = true
                         /\ m_nobody ex_chunked = false.
Proof. vm_compute. repeat split. Qed.

Example C15_example_snapshot :
  parse_spec true (v_message (fst (snapshot default_opts ex_chunked_nt))) = Some (canon ex_chunked_nt)
  /\ wf_b ex_chunked_nt = true /\ m_trailers ex_chunked_nt = None
  /\ v_full (fst (snapshot default_opts ex_chunked_nt)) = true
  /\ chunk_dec (chunk_enc (B "hello") [(B "X-T", B "v")]) = POk (B "hello", [(B "X-T", B "v")], []).
Proof. vm_compute. repeat split. Qed.
