(* C15 — property theorems.  Statements closed by [exact] + Print Assumptions. *)
From Coq Require Import List NArith ZArith Bool Ascii String.
From Martian.C15 Require Import Model Proofs_base Proofs_wire Proofs_snapshot Proofs_oracle.
Import ListNotations.
Open Scope Z_scope.

(* A snapshot (any options) hands back the message it was given: same start
   line, host, framing fields, headers, body bytes, http.NoBody identity,
   trailers. *)
Theorem C15_snapshot_leaves_message_unchanged : forall o m, snd (snapshot o m) = m.
Proof. exact snapshot_msg_unchanged. Qed.
Print Assumptions C15_snapshot_leaves_message_unchanged.

(* Every logger, every option combination, skip flag on or off: the message
   left behind is the message received.  Guard: marbl wraps http.NoBody
   (known finding C15-K3), so for marbl the request must have a real body
   reader. *)
Theorem C15_forwarded_unchanged_partial : forall lg skip m,
  (lg = LMarbl -> skip = false -> m_nobody m = false) ->
  fst (run_logger lg skip m) = m.
Proof. exact forwarded_unchanged. Qed.
Print Assumptions C15_forwarded_unchanged_partial.

Theorem C15_forwarded_unchanged_refuted :
  exists m, wf_b m = true /\ fst (run_logger LMarbl false m) <> m.
Proof. exact marbl_changes_nobody. Qed.
Print Assumptions C15_forwarded_unchanged_refuted.

(* Offsets are in range, the three section slices never panic and
   concatenate to the snapshot, and the header section is a complete head
   (ends with the blank line); for the repaired and the unrepaired code. *)
Theorem C15_sections_partition : forall legacy o m,
  let v := fst (snapshot_gen legacy o m) in
  0 <= v_bodyoff v /\ v_bodyoff v <= v_troff v /\ v_troff v <= blen (v_message v) /\
  exists h b t, hdr_r v = Some h /\ body_r v = Some b /\ trl_r v = Some t /\
                h ++ b ++ t = v_message v /\ ends_with (crlf ++ crlf) h = true.
Proof. exact sections_partition_full. Qed.
Print Assumptions C15_sections_partition.

Theorem C15_header_section_is_the_head : forall legacy o m,
  hdr_r (fst (snapshot_gen legacy o m)) = Some (head_bytes m).
Proof. exact hdr_section_is_head. Qed.
Print Assumptions C15_header_section_is_the_head.

(* The chunked body the snapshot writes decodes to the body and trailers,
   nothing left over, never out of fuel. *)
Theorem C15_chunk_roundtrip : forall b t,
  forallb wf_hdr t = true -> chunk_dec (chunk_enc b t) = POk (b, t, []).
Proof. exact chunk_roundtrip. Qed.
Print Assumptions C15_chunk_roundtrip.

Theorem C15_body_section_dechunks : forall b, dechunk (chunk_body b) = (b, DDone).
Proof. exact dechunk_chunk_body. Qed.
Print Assumptions C15_body_section_dechunks.

(* A full snapshot is a parseable HTTP message equal to the original
   (canonical form: header order as written).  Guard: the Trailer map is nil;
   with a non-nil Trailer the code omits the CRLF that ends the chunked body
   (known finding C15-K4, pinned by the existing messageview tests). *)
Theorem C15_snapshot_parseable_partial : forall o m,
  wf_b m = true ->
  m_trailers m = None ->
  v_full (fst (snapshot o m)) = true ->
  parse_spec (m_isreq m) (v_message (fst (snapshot o m))) = Some (canon m).
Proof. exact snapshot_parseable. Qed.
Print Assumptions C15_snapshot_parseable_partial.

Theorem C15_snapshot_parseable_refuted :
  exists m, wf_b m = true /\ v_full (fst (snapshot default_opts m)) = true /\
            parse_spec (m_isreq m) (v_message (fst (snapshot default_opts m))) = None.
Proof. exact snapshot_with_trailers_unparseable. Qed.
Print Assumptions C15_snapshot_parseable_refuted.

(* The snapshot (repaired or not, any options) starts with the start line of
   the message, byte for byte. *)
Theorem C15_snapshot_start_line : forall legacy o m,
  no_cr (m_start m) = true ->
  first_line (v_message (fst (snapshot_gen legacy o m))) = Some (m_start m).
Proof. exact snapshot_first_line. Qed.
Print Assumptions C15_snapshot_start_line.

(* the text logger logs exactly those bytes *)
Theorem C15_text_log_is_snapshot : forall ho m,
  snd (run_logger (LText ho false) false m) =
  [RText (Some (v_message (fst (snapshot (mkOpts ho []) m))))].
Proof. exact text_record_is_snapshot. Qed.
Print Assumptions C15_text_log_is_snapshot.

(* An exchange marked to skip logging is recorded by none of the loggers. *)
Theorem C15_skip_means_unrecorded : forall lg m, snd (run_logger lg true m) = [].
Proof. exact skip_means_unrecorded. Qed.
Print Assumptions C15_skip_means_unrecorded.

(* Logger errors (an error return makes the proxy add a Warning header to the
   forwarded message).  No logger fails on a body Go can decode, none fails
   on a skipped exchange, and the only failing combination is: HAR, response,
   body captured, content coding active, body not decodable (C15-K1). *)
Theorem C15_no_logger_error_partial : forall lg skip m, logger_errors lg skip DecOk m = false.
Proof. exact no_error_when_decodable. Qed.
Print Assumptions C15_no_logger_error_partial.

Theorem C15_no_logger_error_refuted :
  exists m, wf_b m = true /\ logger_errors (LHar CapOn) false DecFailRead m = true.
Proof. exact har_errors_on_undecodable_body. Qed.
Print Assumptions C15_no_logger_error_refuted.

Theorem C15_logger_error_only_har_response_capture : forall lg skip cls m,
  logger_errors lg skip cls m = true ->
  exists c, lg = LHar c /\ skip = false /\ m_isreq m = false /\ capture_on c m = true
            /\ compress_active m = true /\ cls <> DecOk.
Proof. exact only_har_response_capture_errors. Qed.
Print Assumptions C15_logger_error_only_har_response_capture.

Theorem C15_skipped_never_errors : forall legacy lg cls m, logger_errors_gen legacy lg true cls m = false.
Proof. exact skipped_never_errors. Qed.
Print Assumptions C15_skipped_never_errors.

Theorem C15_legacy_text_logger_error_refuted :
  exists m, wf_b m = true /\ logger_errors_legacy (LText false true) false DecFailOpen m = true.
Proof. exact legacy_text_logger_errors. Qed.
Print Assumptions C15_legacy_text_logger_error_refuted.

(* marbl never reads the body itself, nor does a skipped logger: a failing
   body source is met only by whoever forwards the message. *)
Theorem C15_marbl_never_reads_body : forall skip m, reads_body LMarbl skip m = false.
Proof. exact marbl_never_reads_body. Qed.
Print Assumptions C15_marbl_never_reads_body.

Theorem C15_skipped_logger_never_reads_body : forall lg m,
  (forall o, lg <> LSnap o) -> reads_body lg true m = false.
Proof. exact skipped_logger_never_reads_body. Qed.
Print Assumptions C15_skipped_logger_never_reads_body.

(* The oracle evaluated on the real code's outputs is the property. *)
Theorem C15_oracle_is_the_property : forall skip m o,
  c15_ok skip m o = true <->
  (ob_after o = m /\ ob_fwd_same o = true) /\
  (forall h b t full, ob_sections o = Some (h, b, t, full) ->
     h ++ b ++ t = full /\ exists p, h = p ++ crlf ++ crlf) /\
  (forall r, ob_reparse o = Some r -> option_map canon r = Some (canon m)) /\
  (skip = true -> ob_records o = 0%nat) /\
  (ob_err o = true -> ob_src_failed o = true) /\
  (forall snap ref, ob_startline o = Some (snap, ref) -> snap = ref).
Proof. exact c15_ok_iff. Qed.
Print Assumptions C15_oracle_is_the_property.

Theorem C15_model_satisfies_oracle : forall lg skip m,
  (lg = LMarbl -> skip = false -> m_nobody m = false) ->
  c15_ok skip m (model_obs lg skip m) = true.
Proof. exact model_satisfies_property. Qed.
Print Assumptions C15_model_satisfies_oracle.

(* The code before the repairs (fixes/C15-2, C15-3) violates the property: *)
Theorem C15_legacy_forwarded_unchanged_refuted :
  exists m, wf_b m = true /\ snd (snapshot_legacy default_opts m) <> m.
Proof. exact legacy_snapshot_changes_message. Qed.
Print Assumptions C15_legacy_forwarded_unchanged_refuted.

Theorem C15_legacy_skip_means_unrecorded_refuted :
  exists m, wf_b m = true /\ snd (run_logger_legacy LMarbl true m) <> [].
Proof. exact legacy_marbl_records_skipped. Qed.
Print Assumptions C15_legacy_skip_means_unrecorded_refuted.

(* ------------------------------------------------------------------ *)
(* theorem audit round                                                  *)

(* clause 1, field by field: what must not change *)
Theorem C15_forwarded_fields_unchanged : forall lg skip m,
  (lg = LMarbl -> skip = false -> m_nobody m = false) ->
  let m' := fst (run_logger lg skip m) in
  m_body m' = m_body m /\ m_cl m' = m_cl m /\ m_te m' = m_te m /\ m_nobody m' = m_nobody m /\
  m_hdrs m' = m_hdrs m /\ m_trailers m' = m_trailers m /\ m_start m' = m_start m /\
  m_host m' = m_host m /\ m_isreq m' = m_isreq m.
Proof.
  intros lg skip m G. cbv zeta. rewrite (forwarded_unchanged lg skip m G). repeat split.
Qed.
Print Assumptions C15_forwarded_fields_unchanged.

(* a whole history through one logger: every message is left as it was,
   whatever else is in the history; skipped exchanges are invisible in the
   log; one exchange's result does not depend on its neighbours.  (Each
   logger call works on a message owned by one goroutine; the loggers keep no
   state that feeds back into messages.) *)
Theorem C15_history_messages_unchanged : forall lg xs,
  Forall (fun x => lg = LMarbl -> fst x = false -> m_nobody (snd x) = false) xs ->
  fst (run_many lg xs) = map snd xs.
Proof. exact run_many_unchanged. Qed.
Print Assumptions C15_history_messages_unchanged.

Theorem C15_history_skipped_invisible : forall lg xs,
  snd (run_many lg xs) = snd (run_many lg (filter (fun x => negb (fst x)) xs)).
Proof. exact run_many_skip_invisible. Qed.
Print Assumptions C15_history_skipped_invisible.

Theorem C15_exchanges_independent : forall lg pre x post,
  nth_error (fst (run_many lg (pre ++ x :: post))) (List.length pre)
  = Some (fst (run_logger lg (fst x) (snd x))).
Proof. exact run_many_independent. Qed.
Print Assumptions C15_exchanges_independent.

Theorem C15_unskipped_exchange_recorded_once : forall lg m,
  List.length (snd (run_logger lg false m)) = match lg with LSnap _ => 0%nat | _ => 1%nat end.
Proof. exact records_when_not_skipped. Qed.
Print Assumptions C15_unskipped_exchange_recorded_once.

(* clause 2, specification side at full strength: the RFC-shaped reader
   inverts the RFC-shaped writer for EVERY well-formed message, trailers or
   not; the implementation's snapshot IS that writer's output exactly when
   the Trailer map is nil (C15-K4 otherwise, refuted above). *)
Theorem C15_spec_roundtrip : forall m,
  wf_b m = true -> parse_spec (m_isreq m) (serialize_spec m) = Some (canon m).
Proof. exact parse_serialize. Qed.
Print Assumptions C15_spec_roundtrip.

Theorem C15_snapshot_refines_spec_partial : forall legacy o m,
  m_trailers m = None ->
  v_full (fst (snapshot_gen legacy o m)) = true ->
  v_message (fst (snapshot_gen legacy o m)) = serialize_spec m.
Proof. exact snapshot_refines_serialize. Qed.
Print Assumptions C15_snapshot_refines_spec_partial.

Theorem C15_snapshot_refines_spec_refuted :
  exists m, wf_b m = true /\ v_full (fst (snapshot default_opts m)) = true /\
            v_message (fst (snapshot default_opts m)) <> serialize_spec m.
Proof. exists ex_chunked. split; [|split]; vm_compute; [reflexivity | reflexivity | discriminate]. Qed.
Print Assumptions C15_snapshot_refines_spec_refuted.

(* totalisation: no decoder result is an artefact of fuel; Reader() is total
   on every snapshot view *)
Theorem C15_chunk_dec_never_out_of_fuel : forall s, chunk_dec s <> PFuel.
Proof. exact chunk_dec_never_out_of_fuel. Qed.
Print Assumptions C15_chunk_dec_never_out_of_fuel.

Theorem C15_dechunk_never_out_of_fuel : forall s, snd (dechunk s) <> DNoFuel.
Proof. exact dechunk_never_out_of_fuel. Qed.
Print Assumptions C15_dechunk_never_out_of_fuel.

Theorem C15_parse_hdrs_never_out_of_fuel : forall s, parse_hdrs (S (List.length s)) s <> PFuel.
Proof. exact parse_hdrs_never_out_of_fuel. Qed.
Print Assumptions C15_parse_hdrs_never_out_of_fuel.

Theorem C15_reader_total : forall legacy o m dec, reader dec (fst (snapshot_gen legacy o m)) <> None.
Proof. exact reader_total. Qed.
Print Assumptions C15_reader_total.

(* every view any logger builds partitions; who reads the body = who builds a full view *)
Theorem C15_logger_views_partition : forall lg skip m v,
  logger_view lg skip m = Some v ->
  0 <= v_bodyoff v /\ v_bodyoff v <= v_troff v /\ v_troff v <= blen (v_message v) /\
  exists h b t, hdr_r v = Some h /\ body_r v = Some b /\ trl_r v = Some t /\ h ++ b ++ t = v_message v.
Proof. exact logger_view_sections. Qed.
Print Assumptions C15_logger_views_partition.

Theorem C15_reads_body_is_full_view : forall lg skip m,
  reads_body lg skip m = match logger_view lg skip m with Some v => v_full v | None => false end.
Proof. exact reads_body_spec. Qed.
Print Assumptions C15_reads_body_is_full_view.

(* oracle functions, one theorem per clause id the driver can print *)
Theorem C15_oracle_forwarded_unchanged : forall m o,
  forwarded_ok m o = true <-> ob_after o = m /\ ob_fwd_same o = true.
Proof. exact forwarded_ok_iff. Qed.
Print Assumptions C15_oracle_forwarded_unchanged.

Theorem C15_oracle_sections_partition : forall o,
  sections_ok o = true <->
  (forall h b t full, ob_sections o = Some (h, b, t, full) ->
     h ++ b ++ t = full /\ exists p, h = p ++ crlf ++ crlf).
Proof. exact sections_ok_iff. Qed.
Print Assumptions C15_oracle_sections_partition.

Theorem C15_oracle_snapshot_parseable : forall m o,
  reparse_ok m o = true <->
  (forall r, ob_reparse o = Some r -> option_map canon r = Some (canon m)).
Proof. exact reparse_ok_iff. Qed.
Print Assumptions C15_oracle_snapshot_parseable.

Theorem C15_oracle_skip_means_unrecorded : forall skip o,
  skip_ok skip o = true <-> (skip = true -> ob_records o = 0%nat).
Proof. exact skip_ok_iff. Qed.
Print Assumptions C15_oracle_skip_means_unrecorded.

Theorem C15_oracle_start_line : forall o,
  startline_ok o = true <->
  (forall snap ref, ob_startline o = Some (snap, ref) -> snap = ref).
Proof. exact startline_ok_iff. Qed.
Print Assumptions C15_oracle_start_line.

Theorem C15_oracle_logger_error : forall o,
  (negb (ob_err o) || ob_src_failed o)%bool = true <-> (ob_err o = true -> ob_src_failed o = true).
Proof. exact error_clause_iff. Qed.
Print Assumptions C15_oracle_logger_error.

Theorem C15_oracle_failure_names_a_false_clause : forall skip m o,
  c15_ok skip m o = false ->
  forwarded_ok m o = false \/ sections_ok o = false \/ reparse_ok m o = false \/
  skip_ok skip o = false \/ (ob_err o = true /\ ob_src_failed o = false) \/ startline_ok o = false.
Proof. exact c15_not_ok_names_a_clause. Qed.
Print Assumptions C15_oracle_failure_names_a_false_clause.

(* the prediction the driver uses to tell a known logger error (K1) from a new one *)
Theorem C15_logger_errors_iff : forall lg skip cls m,
  logger_errors lg skip cls m = true <->
  exists c, lg = LHar c /\ skip = false /\ m_isreq m = false /\ capture_on c m = true
            /\ compress_active m = true /\ cls <> DecOk.
Proof. exact logger_errors_iff. Qed.
Print Assumptions C15_logger_errors_iff.

(* the comparators the driver uses for model-vs-implementation are equality *)
Theorem C15_comparators_decide_equality :
  (forall a b, msg_eqb a b = true <-> a = b) /\ (forall a b, bytes_eqb a b = true <-> a = b).
Proof. split; [exact msg_eqb_eq | exact bytes_eqb_eq]. Qed.
Print Assumptions C15_comparators_decide_equality.

(* Non-vacuity for the theorems with hypotheses *)
Example C15_example_guards :
  (* marbl guard of C15_forwarded_unchanged_partial / fields / history *)
  (LMarbl = LMarbl -> false = false -> m_nobody ex_chunked = false)
  /\ Forall (fun x => LMarbl = LMarbl -> fst x = false -> m_nobody (snd x) = false)
            [(false, ex_chunked); (true, ex_empty_post); (false, ex_chunked_nt)]
  (* wf trailers of C15_chunk_roundtrip *)
  /\ forallb wf_hdr [(B "X-T", B "v"); (B "A-Trailer", B "1")] = true
  (* C15_snapshot_start_line *)
  /\ no_cr (m_start ex_chunked) = true
  (* C15_spec_roundtrip with trailers, C15_snapshot_refines_spec_partial without *)
  /\ wf_b ex_chunked = true /\ m_trailers ex_chunked <> None
  /\ parse_spec true (serialize_spec ex_chunked) = Some (canon ex_chunked)
  /\ m_trailers ex_chunked_nt = None /\ v_full (fst (snapshot default_opts ex_chunked_nt)) = true
  (* C15_logger_error_only_har_response_capture / C15_logger_errors_iff *)
  /\ logger_errors (LHar CapOn) false DecFailRead ex_gzip_response = true
  (* C15_skipped_logger_never_reads_body *)
  /\ (forall o, LHar CapOn <> LSnap o)
  (* C15_logger_views_partition *)
  /\ logger_view (LText false true) false ex_chunked <> None
  (* a history: messages unchanged, skipped one invisible *)
  /\ fst (run_many (LHar CapOn) [(false, ex_chunked); (true, ex_empty_post); (false, ex_chunked_nt)])
     = [ex_chunked; ex_empty_post; ex_chunked_nt]
  /\ snd (run_many (LHar CapOn) [(false, ex_chunked); (true, ex_empty_post); (false, ex_chunked_nt)])
     = [RHar true; RHar true].
Proof.
  split; [reflexivity|].
  split; [repeat constructor; cbn; intros; try reflexivity; discriminate|].
  split; [vm_compute; reflexivity|]. split; [vm_compute; reflexivity|].
  split; [vm_compute; reflexivity|]. split; [discriminate|].
  split; [vm_compute; reflexivity|]. split; [reflexivity|]. split; [reflexivity|].
  split; [vm_compute; reflexivity|]. split; [discriminate|]. split; [discriminate|].
  split; vm_compute; reflexivity.
Qed.

(* Non-vacuity: a chunked request with a body and a trailer satisfies the
   hypotheses; its snapshot, byte for byte, and its re-parse. *)
Example C15_example_wf : wf_b ex_chunked = true /\ wf_b ex_empty_post = true
                         /\ m_nobody ex_chunked = false.
Proof. vm_compute. repeat split. Qed.

Example C15_example_snapshot :
  parse_spec true (v_message (fst (snapshot default_opts ex_chunked_nt))) = Some (canon ex_chunked_nt)
  /\ wf_b ex_chunked_nt = true /\ m_trailers ex_chunked_nt = None
  /\ v_full (fst (snapshot default_opts ex_chunked_nt)) = true
  /\ chunk_dec (chunk_enc (B "hello") [(B "X-T", B "v")]) = POk (B "hello", [(B "X-T", B "v")], []).
Proof. vm_compute. repeat split. Qed.
