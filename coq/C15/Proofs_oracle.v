(* C15 — the oracle is the property; witnesses of the defects. *)
From Coq Require Import List NArith ZArith Bool Ascii String Lia.
From Martian.C15 Require Import Model Proofs_base Proofs_wire Proofs_snapshot.
Import ListNotations.
Open Scope Z_scope.

(* The property, on an observation of the real code for message [m]. *)
Definition C15_holds (skip : bool) (m : msg) (o : obs) : Prop :=
  (ob_after o = m /\ ob_fwd_same o = true) /\
  (forall h b t full, ob_sections o = Some (h, b, t, full) ->
     h ++ b ++ t = full /\ exists p, h = p ++ crlf ++ crlf) /\
  (forall r, ob_reparse o = Some r -> option_map canon r = Some (canon m)) /\
  (skip = true -> ob_records o = 0%nat) /\
  (ob_err o = true -> ob_src_failed o = true) /\
  (forall snap ref, ob_startline o = Some (snap, ref) -> snap = ref).

(* one lemma per clause the driver can report *)
Lemma forwarded_ok_iff m o :
  forwarded_ok m o = true <-> ob_after o = m /\ ob_fwd_same o = true.
Proof. unfold forwarded_ok. now rewrite andb_true_iff, msg_eqb_eq. Qed.

Lemma sections_ok_iff o :
  sections_ok o = true <->
  (forall h b t full, ob_sections o = Some (h, b, t, full) ->
     h ++ b ++ t = full /\ exists p, h = p ++ crlf ++ crlf).
Proof.
  unfold sections_ok. destruct (ob_sections o) as [[[[h b] t] full]|].
  - rewrite andb_true_iff, bytes_eqb_eq, ends_with_iff. split.
    + intros H h' b' t' f' E. injection E as <- <- <- <-. exact H.
    + intros H. now apply H.
  - split; [discriminate | reflexivity].
Qed.

Lemma reparse_ok_iff m o :
  reparse_ok m o = true <->
  (forall r, ob_reparse o = Some r -> option_map canon r = Some (canon m)).
Proof.
  unfold reparse_ok. destruct (ob_reparse o) as [r|].
  - rewrite (opt_eqb_eq msg_eqb msg_eqb_eq). split.
    + intros H r' E. injection E as <-. exact H.
    + intros H. now apply H.
  - split; [discriminate | reflexivity].
Qed.

Lemma skip_ok_iff skip o :
  skip_ok skip o = true <-> (skip = true -> ob_records o = 0%nat).
Proof.
  unfold skip_ok. destruct skip.
  - rewrite Nat.eqb_eq. split; auto.
  - split; [discriminate | reflexivity].
Qed.

Lemma startline_ok_iff o :
  startline_ok o = true <->
  (forall snap ref, ob_startline o = Some (snap, ref) -> snap = ref).
Proof.
  unfold startline_ok. destruct (ob_startline o) as [[a b]|].
  - rewrite bytes_eqb_eq. split.
    + intros H a' b' E. injection E as <- <-. exact H.
    + intros H. now apply H.
  - split; [discriminate | reflexivity].
Qed.

Lemma error_clause_iff o :
  (negb (ob_err o) || ob_src_failed o)%bool = true <-> (ob_err o = true -> ob_src_failed o = true).
Proof.
  destruct (ob_err o), (ob_src_failed o); cbn; split; intros H; try reflexivity; try discriminate;
    try (intros; discriminate). now specialize (H eq_refl).
Qed.

Lemma c15_ok_iff skip m o : c15_ok skip m o = true <-> C15_holds skip m o.
Proof.
  unfold c15_ok, C15_holds.
  rewrite !andb_true_iff, forwarded_ok_iff, sections_ok_iff, reparse_ok_iff, skip_ok_iff,
    error_clause_iff, startline_ok_iff. tauto.
Qed.

(* a failing verdict names a clause of the property that is false on the observation *)
Lemma c15_not_ok_names_a_clause skip m o :
  c15_ok skip m o = false ->
  forwarded_ok m o = false \/ sections_ok o = false \/ reparse_ok m o = false \/
  skip_ok skip o = false \/ (ob_err o = true /\ ob_src_failed o = false) \/ startline_ok o = false.
Proof.
  unfold c15_ok. intros H.
  destruct (forwarded_ok m o); [|now left].
  destruct (sections_ok o); [|now right; left].
  destruct (reparse_ok m o); [|now right; right; left].
  destruct (skip_ok skip o); [|now right; right; right; left].
  destruct (ob_err o), (ob_src_failed o); cbn in H;
    try (right; right; right; right; right; exact H).
  right; right; right; right; left. now split.
Qed.

(* what the model itself produces satisfies the property (the re-parse
   clause is theorem [snapshot_parseable]; it is not repeated here) *)
Definition model_obs (lg : logger) (skip : bool) (m : msg) : obs :=
  mkObs (fst (run_logger lg skip m)) true (model_sections lg m) None
        (List.length (snd (run_logger lg skip m))) false false None.

Lemma model_sections_partition lg m h b t full :
  model_sections lg m = Some (h, b, t, full) ->
  h ++ b ++ t = full /\ exists p, h = p ++ crlf ++ crlf.
Proof.
  unfold model_sections. destruct lg as [o| | |]; try discriminate.
  pose proof (sections_partition_full false o m) as Hs. fold snapshot in Hs. cbv zeta in Hs.
  destruct Hs as (_ & _ & _ & h' & b' & t' & Hh & Hb & Ht & Hcat & He).
  rewrite Hh, Hb, Ht. intros E. injection E as <- <- <- <-.
  split; [exact Hcat | now apply ends_with_iff].
Qed.

Lemma model_satisfies_property lg skip m :
  (lg = LMarbl -> skip = false -> m_nobody m = false) ->
  c15_ok skip m (model_obs lg skip m) = true.
Proof.
  intros G. apply c15_ok_iff. unfold C15_holds, model_obs.
  cbn. split; [split; [now apply forwarded_unchanged | reflexivity]|].
  split; [intros h b t full; apply model_sections_partition|].
  split; [discriminate|]. split; [intros ->; now rewrite skip_means_unrecorded|].
  split; [discriminate | discriminate].
Qed.

(* ---------------- logger errors ---------------- *)

Lemma no_error_when_decodable lg skip m : logger_errors lg skip DecOk m = false.
Proof.
  unfold logger_errors, logger_errors_gen, decode_fails.
  destruct lg; try reflexivity; rewrite ?andb_false_r; reflexivity.
Qed.

Lemma only_har_response_capture_errors lg skip cls m :
  logger_errors lg skip cls m = true ->
  exists c, lg = LHar c /\ skip = false /\ m_isreq m = false /\ capture_on c m = true
            /\ compress_active m = true /\ cls <> DecOk.
Proof.
  unfold logger_errors, logger_errors_gen, decode_fails.
  destruct lg as [o|c| |ho dec]; try discriminate.
  rewrite !andb_true_iff, !negb_true_iff. intros [[[Hs Hr] Hc] [Ha Hcls]].
  exists c. repeat split; try assumption. intros ->. discriminate.
Qed.

Lemma logger_errors_iff lg skip cls m :
  logger_errors lg skip cls m = true <->
  exists c, lg = LHar c /\ skip = false /\ m_isreq m = false /\ capture_on c m = true
            /\ compress_active m = true /\ cls <> DecOk.
Proof.
  split; [apply only_har_response_capture_errors|].
  intros (c & -> & -> & Hr & Hc & Ha & Hcls).
  unfold logger_errors, logger_errors_gen, decode_fails. rewrite Hr, Hc, Ha.
  destruct cls; [congruence | reflexivity | reflexivity].
Qed.

Lemma skipped_never_errors legacy lg cls m : logger_errors_gen legacy lg true cls m = false.
Proof.
  unfold logger_errors_gen. destruct lg; try reflexivity; cbn [negb andb]; rewrite ?andb_false_r; reflexivity.
Qed.

Lemma marbl_never_reads_body skip m : reads_body LMarbl skip m = false.
Proof. reflexivity. Qed.

Lemma skipped_logger_never_reads_body lg m :
  (forall o, lg <> LSnap o) -> reads_body lg true m = false.
Proof. intros H. destruct lg; try reflexivity. now destruct (H o). Qed.

(* ---------------- witnesses ---------------- *)

Definition ex_chunked : msg :=
  mkMsg true (B "POST /x HTTP/1.1") (B "a.com") true (-1)
        [(B "Accept", B "*/*"); (B "Content-Type", B "text/plain")]
        false (B "hello") (Some [(B "X-T", B "v")]).

Definition ex_empty_post : msg :=
  mkMsg true (B "POST /x HTTP/1.1") (B "a.com") false 0 [] true [] None.

Lemma ex_chunked_wf : wf_b ex_chunked = true.
Proof. vm_compute. reflexivity. Qed.

Lemma ex_empty_post_wf : wf_b ex_empty_post = true.
Proof. vm_compute. reflexivity. Qed.

Lemma snapshot_with_trailers_unparseable :
  exists m, wf_b m = true /\ v_full (fst (snapshot default_opts m)) = true /\
            parse_spec (m_isreq m) (v_message (fst (snapshot default_opts m))) = None.
Proof. exists ex_chunked. vm_compute. repeat split. Qed.

Definition ex_chunked_nt : msg :=
  mkMsg true (B "POST /x HTTP/1.1") (B "a.com") true (-1)
        [(B "Accept", B "*/*"); (B "Content-Type", B "text/plain")]
        false (B "hello") None.

Lemma legacy_snapshot_changes_message :
  exists m, wf_b m = true /\ snd (snapshot_legacy default_opts m) <> m.
Proof. exists ex_empty_post. split; [vm_compute; reflexivity|]. vm_compute. discriminate. Qed.

Lemma legacy_marbl_records_skipped :
  exists m, wf_b m = true /\ snd (run_logger_legacy LMarbl true m) <> [].
Proof. exists ex_chunked. split; [vm_compute; reflexivity|]. vm_compute. discriminate. Qed.

Lemma marbl_changes_nobody :
  exists m, wf_b m = true /\ fst (run_logger LMarbl false m) <> m.
Proof. exists ex_empty_post. split; [vm_compute; reflexivity|]. vm_compute. discriminate. Qed.

Lemma ex_chunked_roundtrip :
  parse_spec true (v_message (fst (snapshot default_opts ex_chunked_nt))) = Some (canon ex_chunked_nt)
  /\ string_of_list_ascii (v_message (fst (snapshot default_opts ex_chunked_nt)))
     = ("POST /x HTTP/1.1" ++ String CR (String LF "")
        ++ "Host: a.com" ++ String CR (String LF "")
        ++ "Transfer-Encoding: chunked" ++ String CR (String LF "")
        ++ "Accept: */*" ++ String CR (String LF "")
        ++ "Content-Type: text/plain" ++ String CR (String LF "")
        ++ String CR (String LF "")
        ++ "5" ++ String CR (String LF "") ++ "hello" ++ String CR (String LF "")
        ++ "0" ++ String CR (String LF "")
        ++ String CR (String LF ""))%string.
Proof. vm_compute. split; reflexivity. Qed.

Definition ex_gzip_response : msg :=
  mkMsg false (B "HTTP/1.1 200 OK") [] false 3 [(B "Content-Encoding", B "gzip")] false (B "abc") None.

Lemma har_errors_on_undecodable_body :
  exists m, wf_b m = true /\ logger_errors (LHar CapOn) false DecFailRead m = true.
Proof. exists ex_gzip_response. vm_compute. split; reflexivity. Qed.

Lemma legacy_text_logger_errors :
  exists m, wf_b m = true /\ logger_errors_legacy (LText false true) false DecFailOpen m = true.
Proof. exists ex_gzip_response. vm_compute. split; reflexivity. Qed.
