(* C07 — "Close returns" as a theorem about ALL schedules: once Close has
   been called, and with no further input from clients, (1) whatever the
   scheduler does, at most [measure s] more steps can be taken, (2) as long
   as the good final state is not reached some step is enabled, (3) when
   nothing is enabled any more Close has returned, every connection is closed
   and finished and the quiescence clauses of the oracle hold of the whole
   history.  Also: the verdict function of the driver. *)
From Coq Require Import List Arith Bool Lia.
From Martian.C07 Require Import Model Proofs Proofs_patterns Proofs_trace Proofs_accept
  Proofs_live Proofs_oracle Proofs_complete.
Import ListNotations.

Lemma find_conn (P : conn -> bool) l :
  Forall (fun x => P x = false) l \/ exists n x, nth_error l n = Some x /\ P x = true.
Proof.
  induction l as [|h t IH]; [left; constructor|].
  destruct (P h) eqn:E.
  - right. exists 0, h. auto.
  - destruct IH as [IH|(n & x & Hn & Hx)]; [left; constructor; auto|].
    right. exists (S n), x. auto.
Qed.

Lemma progress_or_done s :
  Inv s -> cs s <> NotCalled ->
  (cs s = Returned /\ Forall (fun cn => ph cn = Finished) (conns s)) \/
  exists l s', progress_label l = true /\ step s l = Some s'.
Proof.
  intros [_ Hw _ _] Hnc. destruct (cs s) eqn:Ecs; try congruence.
  - right. exists CloseSignal. eexists. split; auto. unfold step. rewrite Ecs. reflexivity.
  - right. exists CloseLock. eexists. split; auto. unfold step. rewrite Ecs. reflexivity.
  - right. destruct (find_conn (fun cn => live (ph cn)) (conns s)) as [Hd|(n & x & Hn & Hl)].
    + apply count_live_all_dead in Hd. exists CloseReturn. eexists. split; auto.
      unfold step. rewrite Ecs, Hw, Hd. reflexivity.
    + destruct (conn_can_progress s n x Hn) as (k & s' & Hp & Hs).
      * unfold closing. rewrite Ecs. reflexivity.
      * intros E. rewrite E in Hl. discriminate.
      * intros E. rewrite E in Hl. discriminate.
      * eauto.
  - destruct (find_conn (fun cn => negb (phase_eqb (ph cn) Finished)) (conns s)) as [Hd|(n & x & Hn & Hl)].
    + left. split; auto. eapply Forall_impl; [|exact Hd]. simpl. intros a Ha.
      apply negb_false_iff in Ha. apply phase_eqb_eq in Ha. exact Ha.
    + right. destruct (conn_can_progress s n x Hn) as (k & s' & Hp & Hs).
      * unfold closing. rewrite Ecs. reflexivity.
      * intros E. rewrite E in Hl. discriminate.
      * intros _. rewrite Ecs. discriminate.
      * eauto.
Qed.

Lemma schedule_bounded : forall tr s s',
  forallb progress_label tr = true -> run s tr = Some s' -> length tr + measure s' <= measure s.
Proof.
  induction tr as [|l r IH]; intros s s' Hp Hrun; simpl in *.
  - inversion Hrun; subst. lia.
  - apply andb_true_iff in Hp as [Hl Hr]. destruct (step s l) as [m|] eqn:Hs; [|discriminate].
    pose proof (progress_decreases _ _ _ Hs Hl). specialize (IH _ _ Hr Hrun). lia.
Qed.

Lemma cs_not_notcalled_stable : forall tr s s',
  run s tr = Some s' -> cs s <> NotCalled -> cs s' <> NotCalled.
Proof.
  induction tr as [|l r IH]; intros s s' Hrun Hc; simpl in Hrun.
  - inversion Hrun; subst; auto.
  - destruct (step s l) as [m|] eqn:Hs; [|discriminate]. apply (IH m s' Hrun).
    destruct l.
    + unfold step in Hs. destruct (Nat.eqb _ _); [|discriminate]. inversion Hs; subst; auto.
    + apply step_conn_inv in Hs as (cn & p' & _ & _ & _ & Hcs & _). congruence.
    + unfold step in Hs. destruct (cs s); try discriminate; inversion Hs; subst; simpl; discriminate.
    + unfold step in Hs. destruct (cs s); try discriminate; inversion Hs; subst; simpl; discriminate.
    + unfold step in Hs. destruct (cs s); try discriminate; inversion Hs; subst; simpl; discriminate.
    + unfold step in Hs. destruct (closing s); [|discriminate]. inversion Hs; subst; auto.
    + unfold step in Hs. destruct (cs s); try discriminate. destruct (Nat.eqb _ _); try discriminate.
      inversion Hs; subst; simpl; discriminate.
Qed.

(* the three parts together, for every history and every schedule *)
Lemma close_returns_all_schedules hist s sched s' :
  run init hist = Some s -> cs s <> NotCalled ->
  forallb progress_label sched = true -> run s sched = Some s' ->
  length sched <= measure s /\
  ((cs s' = Returned /\ Forall (fun cn => ph cn = Finished) (conns s')) \/
   exists l s'', progress_label l = true /\ step s' l = Some s'') /\
  ((forall l, progress_label l = true -> step s' l = None) ->
   cs s' = Returned /\ Forall (fun cn => ph cn = Finished) (conns s') /\
   c07_quiescent_ok (hist ++ sched) = true).
Proof.
  intros Hh Hc Hp Hrun.
  assert (run init (hist ++ sched) = Some s') as Hall.
  { rewrite run_app. rewrite Hh. exact Hrun. }
  assert (cs s' <> NotCalled) as Hc' by exact (cs_not_notcalled_stable _ _ _ Hrun Hc).
  assert (Inv s') as Hi by (apply inv_reachable; exists (hist ++ sched); exact Hall).
  split; [|split].
  - pose proof (schedule_bounded _ _ _ Hp Hrun). lia.
  - apply progress_or_done; auto.
  - intros Hq. destruct (no_deadlock s' (ex_intro _ _ Hall) Hc' Hq) as [Hr HF].
    repeat split; auto. eapply exec_quiescent; eauto.
Qed.

(* ---------------- the driver's verdict function ------------------------ *)

Lemma failing_clause_zero tr views : c07_failing_clause tr views = 0 <-> c07_ok tr views = true.
Proof.
  unfold c07_failing_clause, c07_ok, c07_safe_ok, c07_quiescent_ok.
  destruct (ok_inflight tr) eqn:E1; simpl;
    [|split; [discriminate|intros H; rewrite ?andb_false_l in H; discriminate]].
  destruct (ok_marked tr) eqn:E2; simpl; [|split; [discriminate|intros H; discriminate]].
  destruct (ok_marked_last tr) eqn:E3; simpl; [|split; [discriminate|intros H; discriminate]].
  destruct (ok_no_reqmod_after_return tr) eqn:E4; simpl; [|split; [discriminate|intros H; discriminate]].
  destruct (ok_late_not_served tr) eqn:E5; simpl; [|split; [discriminate|intros H; discriminate]].
  destruct (ok_return_after_served_closed tr) eqn:E11; simpl; [|split; [discriminate|intros H; discriminate]].
  destruct (ok_origin_response tr) eqn:E14; simpl;
    [|split; [discriminate|intros H; rewrite ?andb_false_r in H; discriminate]].
  destruct (ok_fail_only_if_gone tr) eqn:E13; simpl;
    [|split; [discriminate|intros H; rewrite ?andb_false_r in H; discriminate]].
  destruct (ok_status tr) eqn:E12; simpl;
    [|split; [discriminate|intros H; rewrite ?andb_false_r in H; discriminate]].
  destruct (ok_client_views tr views) eqn:E10; simpl;
    [|split; [discriminate|intros H; rewrite ?andb_false_r in H; discriminate]].
  destruct (ok_all_answered tr) eqn:E9; simpl;
    [|split; [discriminate|intros H; rewrite ?andb_false_r in H; discriminate]].
  destruct (ok_all_closed tr) eqn:E7; simpl;
    [|split; [discriminate|intros H; rewrite ?andb_false_r in H; discriminate]].
  destruct (ok_close_returns tr) eqn:E8; simpl;
    [|split; [discriminate|intros H; rewrite ?andb_false_r in H; discriminate]].
  destruct (ok_return_after_accepted_closed tr) eqn:E6; simpl; split; auto; discriminate.
Qed.

(* a non-zero verdict names a clause that is false *)
Definition clause_holds (k : nat) (tr : list label) (views : list cview) : bool :=
  match k with
  | 1 => ok_inflight tr | 2 => ok_marked tr | 3 => ok_marked_last tr
  | 4 => ok_no_reqmod_after_return tr | 5 => ok_late_not_served tr
  | 6 => ok_return_after_accepted_closed tr | 7 => ok_all_closed tr | 8 => ok_close_returns tr
  | 9 => ok_all_answered tr | 10 => ok_client_views tr views
  | 11 => ok_return_after_served_closed tr | 12 => ok_status tr
  | 13 => ok_fail_only_if_gone tr | 14 => ok_origin_response tr
  | _ => true
  end.

Lemma failing_clause_is_false tr views k :
  c07_failing_clause tr views = k -> k <> 0 -> clause_holds k tr views = false.
Proof.
  unfold c07_failing_clause. intros H Hk.
  repeat match type of H with
         | (if negb ?b then _ else _) = _ => destruct b eqn:?; simpl in H
         end; subst; simpl; try assumption; congruence.
Qed.

(* ---------------- non-vacuity examples ---------------------------------- *)

Definition example_final : state :=
  mkState Returned 0 false [mkConn Finished false; mkConn Finished false].

Lemma example_final_reached : run init example_trace = Some example_final.
Proof. vm_compute. reflexivity. Qed.

Lemma example_final_stuck : forall l, progress_label l = true -> step example_final l = None.
Proof.
  intros l Hp. destruct l as [c|c k| | | | |]; try discriminate; try reflexivity.
  destruct c as [|[|c]];
    [destruct k; simpl in Hp; try discriminate; repeat match goal with b : bool |- _ => destruct b end; reflexivity
    |destruct k; simpl in Hp; try discriminate; repeat match goal with b : bool |- _ => destruct b end; reflexivity|].
  unfold step. simpl. destruct c; reflexivity.
Qed.

(* the state in which Close is about to return in the example: CloseReturn is enabled *)
Definition example_before_return : list label := removelast example_trace.

Lemma example_return_enabled :
  exists s s', run init example_before_return = Some s /\ step s CloseReturn = Some s'.
Proof. eexists. eexists. split; vm_compute; reflexivity. Qed.

(* a reachable state with a late connection (accepted while closing) *)
Lemma example_late_conn :
  exists s cn, run init [Accept 0; CloseCall; CloseSignal; Accept 1] = Some s /\
    nth_error (conns s) 1 = Some cn /\ late cn = true.
Proof. eexists. eexists. split; [vm_compute; reflexivity|]. split; reflexivity. Qed.

(* a reachable state where Close has been called and something can still move *)
Lemma example_mid_shutdown :
  exists s, run init (firstn 12 example_trace) = Some s /\ cs s <> NotCalled /\
    exists l s', progress_label l = true /\ step s l = Some s'.
Proof.
  eexists. split; [vm_compute; reflexivity|]. split; [discriminate|].
  exists CloseLock. eexists. split; [reflexivity|vm_compute; reflexivity].
Qed.
