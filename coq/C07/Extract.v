From Coq Require Import ExtrOcamlBasic ExtrOcamlString.
From Martian.Common Require Import ExtractBase.
From Martian.C07 Require Import Model.
Extraction Language OCaml.
Extraction "model.ml" base_anchor accepts rejected_at run init
  c07_ok c07_safe_ok c07_failing_clause expected_view is_obs is_conn d36_witness.
