(* C07 — completeness of the trace acceptor: the search over hidden steps is
   exactly the existential "some execution of the LTS has this observable
   projection".  Together with Proofs_accept.accepts_sound:
     accepts (filter is_obs full) = true  <->  exists an execution with the same projection.
   The fuel of the closure is discharged: every hidden step strictly
   decreases [measure], which is bounded by 4 + 13 * connections, and a trace
   has one Accept per connection. *)
From Coq Require Import List Arith Bool Lia.
From Martian.C07 Require Import Model Proofs Proofs_patterns Proofs_trace Proofs_accept.
Import ListNotations.

(* ---------------- the boolean equalities are sound -------------------- *)

Lemma phase_eqb_eq a b : phase_eqb a b = true -> a = b.
Proof.
  destruct a, b; simpl; try discriminate; try reflexivity;
    intros H; apply Bool.eqb_prop in H; subst; reflexivity.
Qed.

Lemma cstate_eqb_eq a b : cstate_eqb a b = true -> a = b.
Proof. destruct a, b; simpl; try discriminate; reflexivity. Qed.

Lemma conn_eqb_eq a b : conn_eqb a b = true -> a = b.
Proof.
  destruct a as [p l], b as [p' l']. unfold conn_eqb. simpl.
  rewrite andb_true_iff. intros [H1 H2]. apply phase_eqb_eq in H1. apply Bool.eqb_prop in H2.
  subst. reflexivity.
Qed.

Lemma list_eqb_sound {A} (e : A -> A -> bool) :
  (forall x y, e x y = true -> x = y) -> forall a b, list_eqb e a b = true -> a = b.
Proof.
  intros He. induction a as [|x a IH]; intros [|y b]; simpl; try discriminate; auto.
  rewrite andb_true_iff. intros [H1 H2]. apply He in H1. apply IH in H2. subst. reflexivity.
Qed.

Lemma state_eqb_eq a b : state_eqb a b = true -> a = b.
Proof.
  destruct a as [c w p l], b as [c' w' p' l']. unfold state_eqb. simpl.
  rewrite !andb_true_iff. intros [[[H1 H2] H3] H4].
  apply cstate_eqb_eq in H1. apply Nat.eqb_eq in H2. apply Bool.eqb_prop in H3.
  apply (list_eqb_sound conn_eqb conn_eqb_eq) in H4. subst. reflexivity.
Qed.

Lemma existsb_eqb_in x l : existsb (state_eqb x) l = true -> In x l.
Proof.
  rewrite existsb_exists. intros (y & Hy & He). apply state_eqb_eq in He. subst. exact Hy.
Qed.

(* ---------------- dedup / add_new lose nothing ------------------------ *)

Lemma dedup_complete x l : In x l -> In x (dedup l).
Proof.
  induction l as [|h t IH]; simpl; auto. intros [->|H]; auto.
  destruct (state_eqb h x) eqn:E.
  - apply state_eqb_eq in E. auto.
  - right. apply filter_In. split; auto. rewrite E. reflexivity.
Qed.

Lemma add_new_keeps x ns : forall acc, In x acc -> In x (add_new acc ns).
Proof.
  induction ns as [|n r IH]; intros acc H; simpl; auto.
  destruct (existsb (state_eqb n) acc); apply IH; auto. apply in_or_app. auto.
Qed.

Lemma add_new_complete x ns : forall acc, In x ns -> In x (add_new acc ns).
Proof.
  induction ns as [|n r IH]; intros acc H; simpl; [contradiction|].
  destruct H as [->|H].
  - destruct (existsb (state_eqb x) acc) eqn:E.
    + apply add_new_keeps. apply existsb_eqb_in. exact E.
    + apply add_new_keeps. apply in_or_app. right. left. reflexivity.
  - destruct (existsb (state_eqb n) acc); apply IH; exact H.
Qed.

Lemma add_new_length_ge ns : forall acc, length acc <= length (add_new acc ns).
Proof.
  induction ns as [|n r IH]; intros acc; simpl; auto.
  destruct (existsb (state_eqb n) acc); auto.
  specialize (IH (acc ++ [n])). rewrite app_length in IH. simpl in IH. lia.
Qed.

(* when the closure step adds nothing, everything new was already there *)
Lemma add_new_same_length ns : forall acc,
  length (add_new acc ns) = length acc -> forall n, In n ns -> In n acc.
Proof.
  induction ns as [|m r IH]; intros acc Hl n Hn; simpl in *; [contradiction|].
  destruct (existsb (state_eqb m) acc) eqn:E.
  - destruct Hn as [<-|Hn]; [apply existsb_eqb_in; exact E|]. eapply IH; eauto.
  - exfalso. pose proof (add_new_length_ge r (acc ++ [m])) as H.
    rewrite app_length in H. simpl in H. lia.
Qed.

(* ---------------- hidden paths ---------------------------------------- *)

(* a sequence of hidden steps, each taken from the candidate list the closure uses *)
Inductive HPath : state -> list label -> state -> Prop :=
| HP_nil s : HPath s [] s
| HP_cons s l m r s' : In l (hidden_cands s) -> step s l = Some m -> HPath m r s' -> HPath s (l :: r) s'.

Lemma hpath_snoc s hs m l s' :
  HPath s hs m -> In l (hidden_cands m) -> step m l = Some s' -> HPath s (hs ++ [l]) s'.
Proof.
  induction 1; intros Hin Hs; simpl.
  - econstructor; eauto. constructor.
  - econstructor; eauto.
Qed.

Lemma hidden_is_cand s l s' : is_obs l = false -> step s l = Some s' -> In l (hidden_cands s).
Proof.
  intros Ho Hs. unfold hidden_cands.
  destruct l as [c|c k| | | | |]; try discriminate; simpl; auto.
  right. right. apply in_flat_map. exists c. split.
  - apply in_seq. apply step_conn_inv in Hs as (cn & p' & Hn & _).
    assert (c < length (conns s)) by (apply nth_error_Some; congruence). lia.
  - destruct k; try discriminate; simpl; auto.
Qed.

Lemma cands_are_progress s l : In l (hidden_cands s) -> progress_label l = true.
Proof.
  unfold hidden_cands. simpl. intros [H|[H|H]]; subst; auto.
  apply in_flat_map in H as (c & _ & Hc). simpl in Hc.
  destruct Hc as [H|[H|[H|[H|[]]]]]; subst; reflexivity.
Qed.

Lemma hpath_length s hs s' : HPath s hs s' -> length hs + measure s' <= measure s.
Proof.
  induction 1; simpl; [lia|].
  pose proof (progress_decreases _ _ _ H0 (cands_are_progress _ _ H)). lia.
Qed.

Lemma step_conns_length s l s' :
  step s l = Some s' ->
  length (conns s') = length (conns s) + (if is_accept l then 1 else 0).
Proof.
  intros H. destruct l.
  - unfold step in H. destruct (Nat.eqb _ _); [|discriminate]. inversion H; subst; simpl.
    rewrite app_length. simpl. reflexivity.
  - apply step_conn_inv in H as (cn & p' & _ & _ & Hc & _). rewrite Hc, upd_length. simpl. lia.
  - unfold step in H. destruct (cs s); try discriminate; inversion H; subst; simpl; lia.
  - unfold step in H. destruct (cs s); try discriminate; inversion H; subst; simpl; lia.
  - unfold step in H. destruct (cs s); try discriminate; inversion H; subst; simpl; lia.
  - unfold step in H. destruct (closing s); try discriminate; inversion H; subst; simpl; lia.
  - unfold step in H. destruct (cs s); try discriminate. destruct (Nat.eqb _ _); try discriminate.
    inversion H; subst; simpl; lia.
Qed.

Lemma hpath_conns s hs s' : HPath s hs s' -> length (conns s') = length (conns s).
Proof.
  induction 1; auto. rewrite IHHPath. rewrite (step_conns_length _ _ _ H0).
  assert (is_accept l = false).
  { destruct l; auto. exfalso. apply hidden_cands_hidden in H. discriminate. }
  rewrite H2. lia.
Qed.

Lemma phase_rank_le p : phase_rank p <= 13.
Proof. destruct p; simpl; lia. Qed.

Lemma measure_bound s : measure s <= 4 + 13 * length (conns s).
Proof.
  unfold measure. assert (cs_rank (cs s) <= 4) by (destruct (cs s); simpl; lia).
  assert (list_sum (map (fun cn => phase_rank (ph cn)) (conns s)) <= 13 * length (conns s)).
  { induction (conns s) as [|h t IH]; simpl; [lia|]. pose proof (phase_rank_le (ph h)). lia. }
  lia.
Qed.

(* ---------------- the closure contains every hidden-reachable state ---- *)

Lemma tau1_keeps ss x : In x ss -> In x (tau1 ss).
Proof. apply add_new_keeps. Qed.

Lemma tau1_step ss s l m :
  In s ss -> In l (hidden_cands s) -> step s l = Some m -> In m (tau1 ss).
Proof.
  intros Hs Hl Hst. unfold tau1. apply add_new_complete. apply in_flat_map. exists s. split; auto.
  clear Hs. induction (hidden_cands s) as [|h t IH]; simpl in *; [contradiction|].
  destruct Hl as [->|Hl].
  - rewrite Hst. left. reflexivity.
  - destruct (step s h); [right|]; auto.
Qed.

Lemma tau_keeps fuel : forall ss x, In x ss -> In x (tau fuel ss).
Proof.
  induction fuel as [|f IH]; intros ss x H; simpl; auto.
  destruct (Nat.eqb _ _); auto. apply IH. apply tau1_keeps. exact H.
Qed.

(* a set the closure step leaves unchanged is closed under hidden paths *)
Lemma closed_hpath ss :
  length (tau1 ss) = length ss ->
  forall s hs s', HPath s hs s' -> In s ss -> In s' ss.
Proof.
  intros Hl s hs s' HP. induction HP; intros Hin; auto.
  apply IHHP. unfold tau1 in Hl. apply (add_new_same_length _ _ Hl).
  apply in_flat_map. exists s. split; auto.
  clear Hin. induction (hidden_cands s) as [|h t IH]; simpl in *; [contradiction|].
  destruct H as [->|H].
  - rewrite H0. left. reflexivity.
  - destruct (step s h); [right|]; auto.
Qed.

Lemma tau_complete fuel : forall ss s hs s',
  In s ss -> HPath s hs s' -> length hs <= fuel -> In s' (tau fuel ss).
Proof.
  induction fuel as [|f IH]; intros ss s hs s' Hin HP Hlen; simpl.
  - destruct hs; [|simpl in Hlen; lia]. inversion HP; subst. exact Hin.
  - destruct (Nat.eqb (length (tau1 ss)) (length ss)) eqn:E.
    + apply Nat.eqb_eq in E. eapply closed_hpath; eauto.
    + inversion HP; subst.
      * apply tau_keeps. apply tau1_keeps. exact Hin.
      * simpl in Hlen. apply (IH (tau1 ss) m r s'); [|assumption|lia].
        eapply tau1_step; eauto.
Qed.

(* ---------------- the acceptor admits every execution ------------------ *)

Definition count_accept (tr : list label) : nat := length (filter is_accept tr).

Lemma accepts_from_complete fuel : forall full s0 s s1 hs ss,
  In s1 ss -> HPath s1 hs s0 -> run s0 full = Some s ->
  4 + 13 * (length (conns s0) + count_accept full) <= fuel ->
  accepts_from fuel ss (filter is_obs full) = true.
Proof.
  induction full as [|l r IH]; intros s0 s s1 hs ss Hin HP Hrun Hf; simpl.
  - destruct ss; [contradiction|reflexivity].
  - simpl in Hrun. destruct (step s0 l) as [m|] eqn:Hs; [|discriminate].
    pose proof (step_conns_length _ _ _ Hs) as Hcl.
    assert (4 + 13 * (length (conns m) + count_accept r) <= fuel) as Hf'.
    { unfold count_accept in *. simpl in Hf. rewrite Hcl. destruct (is_accept l); simpl in *; lia. }
    destruct (is_obs l) eqn:Ho.
    + (* observable: the closure contains s0, the step leads to m *)
      simpl.
      assert (In s0 (tau fuel ss)) as Hs0.
      { eapply tau_complete; eauto.
        pose proof (hpath_length _ _ _ HP). pose proof (measure_bound s1).
        pose proof (hpath_conns _ _ _ HP). unfold count_accept in Hf. lia. }
      assert (In m (dedup (filter_map (fun x => step x l) (tau fuel ss)))) as Hm.
      { apply dedup_complete. clear - Hs0 Hs.
        induction (tau fuel ss) as [|h t IHt]; simpl in *; [contradiction|].
        destruct Hs0 as [->|H].
        - rewrite Hs. left. reflexivity.
        - destruct (step h l); [right|]; auto. }
      destruct (dedup (filter_map (fun x => step x l) (tau fuel ss))) as [|d ds] eqn:Ed;
        [contradiction|]. simpl. rewrite <- Ed in *.
      eapply (IH m s m []); eauto. constructor.
    + (* hidden: the acceptor does nothing yet; extend the pending hidden path *)
      eapply (IH m s s1 (hs ++ [l])); eauto.
      eapply hpath_snoc; eauto. eapply hidden_is_cand; eauto.
Qed.

Lemma count_accept_le tr : count_accept tr <= length tr.
Proof.
  unfold count_accept. induction tr as [|x r IH]; simpl; auto.
  destruct (is_accept x); simpl; lia.
Qed.

Lemma count_accept_obs full : count_accept (filter is_obs full) = count_accept full.
Proof.
  unfold count_accept. induction full as [|l r IH]; [reflexivity|].
  cbn [filter]. destruct (is_obs l) eqn:Eo.
  - cbn [filter]. destruct (is_accept l); simpl; rewrite IH; reflexivity.
  - destruct (is_accept l) eqn:Ea; [|exact IH].
    destruct l; simpl in *; discriminate.
Qed.

Lemma accepts_complete full s :
  run init full = Some s -> accepts (filter is_obs full) = true.
Proof.
  intros H. unfold accepts.
  apply (accepts_from_complete _ full init s init [] [init]); auto.
  - left. reflexivity.
  - constructor.
  - simpl. pose proof (count_accept_le (filter is_obs full)).
    rewrite count_accept_obs in H0. lia.
Qed.

(* the search is exactly the existential *)
Lemma accepts_iff tr :
  forallb is_obs tr = true ->
  (accepts tr = true <-> exists full s, run init full = Some s /\ filter is_obs full = tr).
Proof.
  intros Ho. split.
  - intros H. destruct (accepts_sound tr H) as (full & s & Hr & Hf).
    exists full, s. split; auto. rewrite Hf. apply filter_all. exact Ho.
  - intros (full & s & Hr & <-). eapply accepts_complete; eauto.
Qed.
