(* C07 — the generic temporal patterns used by the oracle: each boolean
   checker is equivalent to its declarative reading, and is preserved when
   unobservable labels are erased from a trace. *)
From Coq Require Import List Arith Bool Lia.
From Martian.C07 Require Import Model.
Import ListNotations.

Section Patterns.
Context {A : Type}.

Definition NoPair (bad : A -> A -> bool) (tr : list A) : Prop :=
  forall a x b y c, tr = a ++ x :: b ++ y :: c -> bad x y = false.

Definition NoTriple (bad : A -> A -> A -> bool) (tr : list A) : Prop :=
  forall a x b y c z d, tr = a ++ x :: b ++ y :: c ++ z :: d -> bad x y z = false.

Definition AllBetween (trig resp : A -> A -> bool) (tr : list A) : Prop :=
  forall a x b y c, tr = a ++ x :: b ++ y :: c -> trig x y = true ->
    exists z, In z b /\ resp x z = true.

Definition AllFollowed (p : A -> bool) (q : A -> A -> bool) (tr : list A) : Prop :=
  forall a x b, tr = a ++ x :: b -> p x = true -> exists z, In z b /\ q x z = true.

Lemma no_pair_iff bad tr : no_pair bad tr = true <-> NoPair bad tr.
Proof.
  unfold NoPair. induction tr as [|x0 r IH]; simpl.
  - split; auto. intros _ a x b y c H. destruct a; discriminate.
  - rewrite andb_true_iff, IH, forallb_forall. split.
    + intros [Hh Ht] a x b y c E. destruct a as [|a0 a]; simpl in E; inversion E; subst.
      * specialize (Hh y). rewrite negb_true_iff in Hh. apply Hh.
        apply in_or_app. right. left. reflexivity.
      * eapply Ht. reflexivity.
    + intros H. split.
      * intros y Hy. apply in_split in Hy as (b & c & ->). rewrite negb_true_iff.
        apply (H [] x0 b y c). reflexivity.
      * intros a x b y c ->. apply (H (x0 :: a) x b y c). reflexivity.
Qed.

Lemma no_triple_iff bad tr : no_triple bad tr = true <-> NoTriple bad tr.
Proof.
  unfold NoTriple. induction tr as [|x0 r IH]; simpl.
  - split; auto. intros _ a x b y c z d H. destruct a; discriminate.
  - rewrite andb_true_iff, IH, no_pair_iff. unfold NoPair. split.
    + intros [Hh Ht] a x b y c z d E. destruct a as [|a0 a]; simpl in E; inversion E; subst.
      * eapply Hh. reflexivity.
      * eapply Ht. reflexivity.
    + intros H. split.
      * intros a x b y c ->. apply (H [] x0 a x b y c). reflexivity.
      * intros a x b y c z d ->. apply (H (x0 :: a) x b y c z d). reflexivity.
Qed.

Lemma resp_before_trig_iff (t r : A -> bool) (l : list A) :
  resp_before_trig t r l = true <->
  (forall b y c, l = b ++ y :: c -> t y = true -> exists z, In z b /\ r z = true).
Proof.
  induction l as [|z0 l IH]; simpl.
  - split; auto. intros _ b y c H. destruct b; discriminate.
  - destruct (t z0) eqn:Et.
    + split; [discriminate|]. intros H. destruct (H [] z0 l eq_refl Et) as (z & [] & _).
    + destruct (r z0) eqn:Er.
      * split; auto. intros _ b y c E Hy. destruct b as [|b0 b]; simpl in E; inversion E; subst.
        -- congruence.
        -- exists b0. split; [left; reflexivity|assumption].
      * rewrite IH. split.
        -- intros H b y c E Hy. destruct b as [|b0 b]; simpl in E; inversion E; subst.
           ++ congruence.
           ++ destruct (H b y c eq_refl Hy) as (z & Hz & Hr). exists z. split; [right|]; assumption.
        -- intros H b y c -> Hy. destruct (H (z0 :: b) y c eq_refl Hy) as (z & [Hz|Hz] & Hr).
           ++ subst. congruence.
           ++ eauto.
Qed.

Lemma all_between_iff trig resp tr : all_between trig resp tr = true <-> AllBetween trig resp tr.
Proof.
  unfold AllBetween. induction tr as [|x0 r IH]; simpl.
  - split; auto. intros _ a x b y c H. destruct a; discriminate.
  - rewrite andb_true_iff, IH, resp_before_trig_iff. split.
    + intros [Hh Ht] a x b y c E Htr. destruct a as [|a0 a]; simpl in E; inversion E; subst.
      * eapply Hh; eauto.
      * eapply Ht; eauto.
    + intros H. split.
      * intros b y c -> Hy. apply (H [] x0 b y c eq_refl Hy).
      * intros a x b y c -> Hy. apply (H (x0 :: a) x b y c eq_refl Hy).
Qed.

Lemma all_followed_iff p q tr : all_followed p q tr = true <-> AllFollowed p q tr.
Proof.
  unfold AllFollowed. induction tr as [|x0 r IH]; simpl.
  - split; auto. intros _ a x b H. destruct a; discriminate.
  - rewrite andb_true_iff, IH, orb_true_iff, negb_true_iff, existsb_exists. split.
    + intros [Hh Ht] a x b E Hp. destruct a as [|a0 a]; simpl in E; inversion E; subst.
      * destruct Hh as [Hh|Hh]; [congruence|exact Hh].
      * eapply Ht; eauto.
    + intros H. split.
      * destruct (p x0) eqn:Ep; [right|left; reflexivity]. apply (H [] x0 r eq_refl Ep).
      * intros a x b -> Hp. apply (H (x0 :: a) x b eq_refl Hp).
Qed.

(* erasing labels cannot create a violation (for the between pattern: as
   long as responses are never erased) *)
Lemma forallb_filter (g f : A -> bool) (l : list A) : forallb g l = true -> forallb g (filter f l) = true.
Proof.
  induction l as [|x r IH]; simpl; auto. rewrite andb_true_iff. intros [H1 H2].
  destruct (f x); simpl; auto. rewrite H1. auto.
Qed.

Lemma no_pair_filter (bad : A -> A -> bool) (f : A -> bool) (l : list A) : no_pair bad l = true -> no_pair bad (filter f l) = true.
Proof.
  induction l as [|x r IH]; simpl; auto. rewrite andb_true_iff. intros [H1 H2].
  destruct (f x); simpl; auto. rewrite forallb_filter, IH; auto.
Qed.

Lemma no_triple_filter (bad : A -> A -> A -> bool) (f : A -> bool) (l : list A) : no_triple bad l = true -> no_triple bad (filter f l) = true.
Proof.
  induction l as [|x r IH]; simpl; auto. rewrite andb_true_iff. intros [H1 H2].
  destruct (f x); simpl; auto. rewrite no_pair_filter, IH; auto.
Qed.

Lemma resp_before_trig_filter (t r f : A -> bool) (l : list A) :
  (forall z, r z = true -> f z = true) ->
  resp_before_trig t r l = true -> resp_before_trig t r (filter f l) = true.
Proof.
  intros Hr. induction l as [|x l IH]; simpl; auto.
  destruct (t x) eqn:Et; [discriminate|]. destruct (r x) eqn:Er.
  - rewrite (Hr _ Er). simpl. rewrite Et, Er. reflexivity.
  - intros H. destruct (f x); simpl; auto. rewrite Et, Er. auto.
Qed.

Lemma all_between_filter (trig resp : A -> A -> bool) (f : A -> bool) (l : list A) :
  (forall x z, resp x z = true -> f z = true) ->
  all_between trig resp l = true -> all_between trig resp (filter f l) = true.
Proof.
  intros Hr. induction l as [|x r IH]; simpl; auto. rewrite andb_true_iff. intros [H1 H2].
  destruct (f x); simpl; auto.
  rewrite (resp_before_trig_filter _ _ _ _ (Hr x) H1), (IH H2). reflexivity.
Qed.

Lemma resp_before_trig_never (t : A -> bool) (l : list A) :
  resp_before_trig t (fun _ => false) l = forallb (fun y => negb (t y)) l.
Proof. induction l as [|x l IH]; simpl; auto. destruct (t x); simpl; auto. Qed.

End Patterns.
