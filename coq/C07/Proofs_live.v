(* C07 — complete runs: an execution that ends with Close returned and
   every connection finished satisfies the quiescence clauses of the oracle;
   by no_deadlock these are exactly the executions in which nothing can
   move any more. *)
From Coq Require Import List Arith Bool Lia.
From Martian.C07 Require Import Model Proofs Proofs_patterns Proofs_trace.
Import ListNotations.

Lemma existsb_impl {A} (f g : A -> bool) l :
  (forall x, f x = true -> g x = true) -> existsb f l = true -> existsb g l = true.
Proof.
  intros H. rewrite !existsb_exists. intros (x & Hx & Hf). eauto.
Qed.

(* connection c can leave the set P only through one of its own labels in exc *)
Lemma must_occur (P : phase -> bool) (exc : clabel -> bool) c :
  (forall cl lk p k p', cstep cl lk p k = Some p' -> P p = true -> exc k = false -> P p' = true) ->
  forall r s s' cn, nth_error (conns s) c = Some cn -> P (ph cn) = true ->
    run s r = Some s' ->
    (forall cn', nth_error (conns s') c = Some cn' -> P (ph cn') = false) ->
    existsb (hits c exc) r = true.
Proof.
  intros Hclos. induction r as [|z r IH]; intros s s' cn Hn HP Hrun Hfin; simpl in *.
  - inversion Hrun; subst. rewrite (Hfin _ Hn) in HP. discriminate.
  - destruct (step s z) as [m|] eqn:Hs; [|discriminate].
    destruct (hits c exc z) eqn:Hh; auto. simpl.
    destruct (phase_pred_step P exc s z m c cn (fun lk p k p' => Hclos (closing s) lk p k p') Hs Hn HP Hh)
      as (cn' & Hn' & HP').
    eapply IH; eauto.
Qed.

Definition not_closed (p : phase) : bool :=
  match p with SockClosed | Finished => false | _ => true end.

Lemma finished_nth s c cn' :
  Forall (fun cn => ph cn = Finished) (conns s) -> nth_error (conns s) c = Some cn' -> ph cn' = Finished.
Proof. intros HF Hn. exact (Forall_nth _ _ _ _ HF Hn). Qed.

Lemma exec_all_closed : forall tr s s', run s tr = Some s' ->
  Forall (fun cn => ph cn = Finished) (conns s') -> ok_all_closed tr = true.
Proof.
  unfold ok_all_closed. induction tr as [|x r IH]; intros s s' Hrun Hfin; simpl; auto.
  simpl in Hrun. destruct (step s x) as [m|] eqn:Hs; [|discriminate].
  rewrite (IH m s' Hrun Hfin), andb_true_r.
  destruct x as [c|c k| | | | |]; try reflexivity. simpl.
  pose proof (late_conn_flagged _ _ _ Hs) as Hn'.
  apply (existsb_impl (hits c is_sockclose)).
  - intros z Hh. destruct z; simpl in Hh; try discriminate.
    apply andb_true_iff in Hh as [E Hk]. apply Nat.eqb_eq in E. subst.
    destruct k; try discriminate. apply is_conn_refl.
  - apply (must_occur not_closed is_sockclose c) with (s := m) (s' := s') (cn := mkConn Accepted (closing s)); auto.
    + intros cl lk p k p' H HP He. cstep_cases H; simpl in *; auto; discriminate.
    + intros cn' Hc. rewrite (finished_nth _ _ _ Hfin Hc). reflexivity.
Qed.

Lemma exec_all_answered : forall tr s s', run s tr = Some s' ->
  Forall (fun cn => ph cn = Finished) (conns s') -> ok_all_answered tr = true.
Proof.
  unfold ok_all_answered. induction tr as [|x r IH]; intros s s' Hrun Hfin; simpl; auto.
  simpl in Hrun. destruct (step s x) as [m|] eqn:Hs; [|discriminate].
  rewrite (IH m s' Hrun Hfin), andb_true_r.
  destruct x as [c|c k| | | | |]; try reflexivity. destruct k; try reflexivity. simpl.
  apply after_conn_step in Hs as Hs'. destruct Hs' as (cn & p' & Hn & Hc & Hn').
  apply (existsb_impl (hits c is_writedone)).
  - intros z Hh. destruct z; simpl in Hh; try discriminate.
    apply andb_true_iff in Hh as [E Hk]. apply Nat.eqb_eq in E. subst.
    destruct k; try discriminate; simpl; rewrite ?Nat.eqb_refl; simpl; auto using orb_true_r.
  - apply (must_occur serving is_writedone c) with (s := m) (s' := s') (cn := mkConn p' (late cn)); auto.
    + intros cl lk p k p'0 H HP He. cstep_cases H; simpl in *; auto; discriminate.
    + simpl. destruct (ph cn); simpl in Hc; try discriminate; inversion Hc; reflexivity.
    + intros cn' Hc'. rewrite (finished_nth _ _ _ Hfin Hc'). reflexivity.
Qed.

Lemma step_not_returned s l s' :
  step s l = Some s' -> cs s <> Returned -> l <> CloseReturn -> cs s' <> Returned.
Proof.
  intros H Hc Hl. destruct l.
  - unfold step in H. destruct (Nat.eqb _ _); [|discriminate]. inversion H; subst; auto.
  - apply step_conn_inv in H as (cn & p' & _ & _ & _ & Hcs & _). congruence.
  - unfold step in H. destruct (cs s); try discriminate; inversion H; subst; simpl; discriminate.
  - unfold step in H. destruct (cs s); try discriminate; inversion H; subst; simpl; discriminate.
  - unfold step in H. destruct (cs s); try discriminate; inversion H; subst; simpl; discriminate.
  - unfold step in H. destruct (closing s); [|discriminate]. inversion H; subst; auto.
  - congruence.
Qed.

Lemma return_must_occur : forall r s s', run s r = Some s' -> cs s <> Returned -> cs s' = Returned ->
  existsb (fun z => match z with CloseReturn => true | _ => false end) r = true.
Proof.
  induction r as [|z r IH]; intros s s' Hrun Hc Hfin; simpl in *.
  - inversion Hrun; subst. congruence.
  - destruct (step s z) as [m|] eqn:Hs; [|discriminate].
    destruct z; simpl; auto; (eapply IH; [exact Hrun| |exact Hfin];
      eapply step_not_returned; eauto; discriminate).
Qed.

Lemma exec_close_returns : forall tr s s', run s tr = Some s' -> cs s' = Returned ->
  ok_close_returns tr = true.
Proof.
  unfold ok_close_returns. induction tr as [|x r IH]; intros s s' Hrun Hfin; simpl; auto.
  simpl in Hrun. destruct (step s x) as [m|] eqn:Hs; [|discriminate].
  rewrite (IH m s' Hrun Hfin), andb_true_r.
  destruct x as [c|c k| | | | |]; try reflexivity. simpl.
  apply (return_must_occur r m s'); auto.
  unfold step in Hs. destruct (cs s); try discriminate. inversion Hs; subst. simpl. discriminate.
Qed.

Lemma exec_quiescent tr s :
  run init tr = Some s -> cs s = Returned ->
  Forall (fun cn => ph cn = Finished) (conns s) -> c07_quiescent_ok tr = true.
Proof.
  intros H Hc HF. unfold c07_quiescent_ok.
  rewrite (exec_all_closed _ _ _ H HF), (exec_close_returns _ _ _ H Hc), (exec_all_answered _ _ _ H HF).
  reflexivity.
Qed.

(* executions that ran until nothing could move any more *)
Lemma exec_stuck_is_complete tr s :
  run init tr = Some s -> cs s <> NotCalled ->
  (forall l, progress_label l = true -> step s l = None) ->
  c07_quiescent_ok tr = true.
Proof.
  intros H Hc Hq.
  destruct (no_deadlock s (ex_intro _ tr H) Hc Hq) as [Hr HF].
  eapply exec_quiescent; eauto.
Qed.
