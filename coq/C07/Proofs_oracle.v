(* C07 — the executable oracle is the declarative property. *)
From Coq Require Import List Arith Bool Lia.
From Martian.C07 Require Import Model Proofs Proofs_patterns Proofs_trace.
Import ListNotations.

(* declarative reading of every clause, over a trace of labels *)

Definition InflightCompletes (tr : list label) : Prop :=
  forall a b c cn, tr = a ++ Conn cn ReqModStart :: b ++ Conn cn SockClose :: c ->
    In (Conn cn WriteDone) b \/ In (Conn cn WriteFail) b.

Definition MarkedClose (tr : list label) : Prop :=
  forall a b c d cn,
    tr = a ++ ClosingSeen :: b ++ Conn cn ResModEnd :: c ++ Conn cn (WriteHead false) :: d -> False.

Definition MarkedThenClosed (tr : list label) : Prop :=
  forall a b c cn, tr = a ++ Conn cn (WriteHead true) :: b ++ Conn cn ReqModStart :: c -> False.

Definition NoReqmodAfterReturn (tr : list label) : Prop :=
  forall a b c cn, tr = a ++ CloseReturn :: b ++ Conn cn ReqModStart :: c -> False.

Definition LateAcceptNotServed (tr : list label) : Prop :=
  forall a b c d cn,
    tr = a ++ ClosingSeen :: b ++ Accept cn :: c ++ Conn cn ReqModStart :: d -> False.

Definition ReturnAfterAcceptedClosed (tr : list label) : Prop :=
  forall a b c cn, tr = a ++ Accept cn :: b ++ CloseReturn :: c -> In (Conn cn SockClose) b.

Definition ReturnAfterRegisteredClosed (tr : list label) : Prop :=
  forall a b c cn, tr = a ++ Conn cn Register :: b ++ CloseReturn :: c -> In (Conn cn SockClose) b.

Definition ReturnAfterServedClosed (tr : list label) : Prop :=
  forall a b c cn, tr = a ++ Conn cn ReqModStart :: b ++ CloseReturn :: c -> In (Conn cn SockClose) b.

Definition AllClosed (tr : list label) : Prop :=
  forall a b cn, tr = a ++ Accept cn :: b -> In (Conn cn SockClose) b.

Definition CloseReturns (tr : list label) : Prop :=
  forall a b, tr = a ++ CloseCall :: b -> In CloseReturn b.

Definition AllAnswered (tr : list label) : Prop :=
  forall a b cn, tr = a ++ Conn cn ReqModStart :: b ->
    In (Conn cn WriteDone) b \/ In (Conn cn WriteFail) b.

Definition ClientViews (tr : list label) (views : list cview) : Prop :=
  views = map (expected_view tr) (seq 0 (length (filter is_accept tr))).

Lemma false_true_False (b : bool) : (b = true -> False) -> b = false.
Proof. destruct b; auto. intros H. exfalso. auto. Qed.

Lemma ok_inflight_iff tr : ok_inflight tr = true <-> InflightCompletes tr.
Proof.
  unfold ok_inflight, InflightCompletes. rewrite all_between_iff. unfold AllBetween. split.
  - intros H a b c cn E. destruct (H _ _ _ _ _ E) as (z & Hz & Hr).
    + exact (is_conn_refl cn SockClose).
    + simpl in Hr. apply orb_true_iff in Hr as [Hr|Hr]; apply is_conn_eq in Hr; subst; auto.
  - intros H a x b y c E Ht. destruct x as [|cn k| | | | |]; try discriminate.
    destruct k; try discriminate. simpl in Ht. apply is_conn_eq in Ht. subst.
    destruct (H _ _ _ _ eq_refl) as [Hi|Hi].
    + exists (Conn cn WriteDone). split; auto. unfold s1_resp. rewrite is_conn_refl. reflexivity.
    + exists (Conn cn WriteFail). split; auto. unfold s1_resp. rewrite is_conn_refl. apply orb_true_r.
Qed.

Lemma ok_marked_iff tr : ok_marked tr = true <-> MarkedClose tr.
Proof.
  unfold ok_marked, MarkedClose. rewrite no_triple_iff. unfold NoTriple. split.
  - intros H a b c d cn E. specialize (H _ _ _ _ _ _ _ E). simpl in H.
    rewrite Nat.eqb_refl in H. discriminate.
  - intros H a x b y c z d E. apply false_true_False. intros Hb.
    destruct x; try discriminate. destruct y as [|cn k| | | | |]; try discriminate.
    destruct k; try discriminate. simpl in Hb. apply is_conn_eq in Hb. subst. eapply H; eauto.
Qed.

Lemma ok_marked_last_iff tr : ok_marked_last tr = true <-> MarkedThenClosed tr.
Proof.
  unfold ok_marked_last, MarkedThenClosed. rewrite no_pair_iff. unfold NoPair. split.
  - intros H a b c cn E. specialize (H _ _ _ _ _ E). simpl in H.
    rewrite Nat.eqb_refl in H. discriminate.
  - intros H a x b y c E. apply false_true_False. intros Hb.
    destruct x as [|cn k| | | | |]; try discriminate.
    destruct k as [| | | | | | | |mm| | | |?|?| | | |]; try discriminate. destruct mm; try discriminate.
    simpl in Hb. apply is_conn_eq in Hb. subst. eapply H; eauto.
Qed.

Lemma ok_no_reqmod_after_return_iff tr :
  ok_no_reqmod_after_return tr = true <-> NoReqmodAfterReturn tr.
Proof.
  unfold ok_no_reqmod_after_return, NoReqmodAfterReturn. rewrite no_pair_iff. unfold NoPair. split.
  - intros H a b c cn E. specialize (H _ _ _ _ _ E). discriminate.
  - intros H a x b y c E. apply false_true_False. intros Hb.
    destruct x; try discriminate. destruct y as [|cn k| | | | |]; try discriminate.
    destruct k; try discriminate. subst. eapply H; eauto.
Qed.

Lemma ok_late_not_served_iff tr : ok_late_not_served tr = true <-> LateAcceptNotServed tr.
Proof.
  unfold ok_late_not_served, LateAcceptNotServed. rewrite no_triple_iff. unfold NoTriple. split.
  - intros H a b c d cn E. specialize (H _ _ _ _ _ _ _ E). simpl in H.
    rewrite Nat.eqb_refl in H. discriminate.
  - intros H a x b y c z d E. apply false_true_False. intros Hb.
    destruct x; try discriminate. destruct y as [cn|cn k| | | | |]; try discriminate.
    simpl in Hb. apply is_conn_eq in Hb. subst. eapply H; eauto.
Qed.

Lemma ok_return_after_accepted_closed_iff tr :
  ok_return_after_accepted_closed tr = true <-> ReturnAfterAcceptedClosed tr.
Proof.
  unfold ok_return_after_accepted_closed, ReturnAfterAcceptedClosed.
  rewrite all_between_iff. unfold AllBetween. split.
  - intros H a b c cn E. destruct (H _ _ _ _ _ E eq_refl) as (z & Hz & Hr).
    simpl in Hr. apply is_conn_eq in Hr. subst. exact Hz.
  - intros H a x b y c E Ht. destruct x as [cn|cn k| | | | |]; try discriminate.
    destruct y; try discriminate. subst.
    exists (Conn cn SockClose). split; [eapply H; eauto|apply is_conn_refl].
Qed.

Lemma ok_return_after_registered_closed_iff tr :
  ok_return_after_registered_closed tr = true <-> ReturnAfterRegisteredClosed tr.
Proof.
  unfold ok_return_after_registered_closed, ReturnAfterRegisteredClosed.
  rewrite all_between_iff. unfold AllBetween. split.
  - intros H a b c cn E. destruct (H _ _ _ _ _ E eq_refl) as (z & Hz & Hr).
    simpl in Hr. apply is_conn_eq in Hr. subst. exact Hz.
  - intros H a x b y c E Ht. destruct x as [cn|cn k| | | | |]; try discriminate.
    destruct k; try discriminate. destruct y; try discriminate. subst.
    exists (Conn cn SockClose). split; [eapply H; eauto|apply is_conn_refl].
Qed.

Lemma ok_return_after_served_closed_iff tr :
  ok_return_after_served_closed tr = true <-> ReturnAfterServedClosed tr.
Proof.
  unfold ok_return_after_served_closed, ReturnAfterServedClosed.
  rewrite all_between_iff. unfold AllBetween. split.
  - intros H a b c cn E. destruct (H _ _ _ _ _ E eq_refl) as (z & Hz & Hr).
    simpl in Hr. apply is_conn_eq in Hr. subst. exact Hz.
  - intros H a x b y c E Ht. destruct x as [cn|cn k| | | | |]; try discriminate.
    destruct k; try discriminate. destruct y; try discriminate. subst.
    exists (Conn cn SockClose). split; [eapply H; eauto|apply is_conn_refl].
Qed.

Lemma ok_all_closed_iff tr : ok_all_closed tr = true <-> AllClosed tr.
Proof.
  unfold ok_all_closed, AllClosed. rewrite all_followed_iff. unfold AllFollowed. split.
  - intros H a b cn E. destruct (H _ _ _ E eq_refl) as (z & Hz & Hr).
    simpl in Hr. apply is_conn_eq in Hr. subst. exact Hz.
  - intros H a x b E Hp. destruct x as [cn|cn k| | | | |]; try discriminate. subst.
    exists (Conn cn SockClose). split; [eapply H; eauto|apply is_conn_refl].
Qed.

Lemma ok_close_returns_iff tr : ok_close_returns tr = true <-> CloseReturns tr.
Proof.
  unfold ok_close_returns, CloseReturns. rewrite all_followed_iff. unfold AllFollowed. split.
  - intros H a b E. destruct (H _ _ _ E eq_refl) as (z & Hz & Hr).
    destruct z; try discriminate. exact Hz.
  - intros H a x b E Hp. destruct x; try discriminate. subst.
    exists CloseReturn. split; [eapply H; eauto|reflexivity].
Qed.

Lemma ok_all_answered_iff tr : ok_all_answered tr = true <-> AllAnswered tr.
Proof.
  unfold ok_all_answered, AllAnswered. rewrite all_followed_iff. unfold AllFollowed. split.
  - intros H a b cn E. destruct (H _ _ _ E eq_refl) as (z & Hz & Hr).
    simpl in Hr. apply orb_true_iff in Hr as [Hr|Hr]; apply is_conn_eq in Hr; subst; auto.
  - intros H a x b E Hp. destruct x as [cn|cn k| | | | |]; try discriminate.
    destruct k; try discriminate. subst.
    destruct (H _ _ _ eq_refl) as [Hi|Hi].
    + exists (Conn cn WriteDone). split; auto. unfold l3_q. rewrite is_conn_refl. reflexivity.
    + exists (Conn cn WriteFail). split; auto. unfold l3_q. rewrite is_conn_refl. apply orb_true_r.
Qed.

Lemma list_eqb_eq {A} (e : A -> A -> bool) :
  (forall x y, e x y = true <-> x = y) -> forall a b, list_eqb e a b = true <-> a = b.
Proof.
  intros He. induction a as [|x a IH]; intros [|y b]; simpl; split; intros H;
    try discriminate; try reflexivity.
  - apply andb_true_iff in H as [H1 H2]. apply He in H1. apply IH in H2. congruence.
  - inversion H; subst. apply andb_true_iff. split; [apply He|apply IH]; reflexivity.
Qed.

Lemma resp_eqb_eq x y : resp_eqb x y = true <-> x = y.
Proof.
  destruct x as [[a b] e], y as [[c d] f]. unfold resp_eqb. simpl.
  rewrite !andb_true_iff, !Bool.eqb_true_iff. split; [intros [[-> ->] ->]; reflexivity|].
  intros H; inversion H; auto.
Qed.

Lemma cview_eqb_eq x y : cview_eqb x y = true <-> x = y.
Proof.
  destruct x as [a b], y as [c d]. unfold cview_eqb. simpl.
  rewrite andb_true_iff, Bool.eqb_true_iff, (list_eqb_eq resp_eqb resp_eqb_eq).
  split; [intros [-> ->]; reflexivity|]. intros H; inversion H; auto.
Qed.

Lemma ok_client_views_iff tr views : ok_client_views tr views = true <-> ClientViews tr views.
Proof.
  unfold ok_client_views, ClientViews.
  rewrite andb_true_iff, (list_eqb_eq cview_eqb cview_eqb_eq), Nat.eqb_eq. split.
  - intros [H1 H2]. rewrite <- H2. exact H1.
  - intros H. assert (length views = length (filter is_accept tr)) as Hl.
    { rewrite H at 1. rewrite map_length, seq_length. reflexivity. }
    split; auto. rewrite Hl. exact H.
Qed.

(* status and write-failure clauses *)
Definition StatusMatches (tr : list label) : Prop :=
  forall c, c < length (filter is_accept tr) -> status_scan c false tr = true.

Definition FailOnlyIfGone (tr : list label) : Prop :=
  forall a b cn, tr = a ++ Conn cn WriteFail :: b -> In (Conn cn CliGone) a.

Lemma ok_status_iff tr : ok_status tr = true <-> StatusMatches tr.
Proof.
  unfold ok_status, StatusMatches. rewrite forallb_forall. split.
  - intros H c Hc. apply H. apply in_seq. lia.
  - intros H c Hc. apply in_seq in Hc. apply H. lia.
Qed.

Lemma all_preceded_iff {A} (p : A -> bool) (q : A -> A -> bool) tr : forall seen,
  all_preceded p q seen tr = true <->
  (forall a x b, tr = a ++ x :: b -> p x = true ->
     exists z, (In z a \/ In z seen) /\ q x z = true).
Proof.
  induction tr as [|x0 r IH]; intros seen; simpl.
  - split; auto. intros _ a x b H. destruct a; discriminate.
  - rewrite andb_true_iff, IH, orb_true_iff, negb_true_iff, existsb_exists. split.
    + intros [Hh Ht] a x b E Hp. destruct a as [|a0 a]; simpl in E; inversion E; subst.
      * destruct Hh as [Hh|(z & Hz & Hq)]; [congruence|]. exists z. auto.
      * destruct (Ht a x b eq_refl Hp) as (z & [Hz|[Hz|Hz]] & Hq); exists z; simpl; auto.
    + intros H. split.
      * destruct (p x0) eqn:Ep; [right|left; reflexivity].
        destruct (H [] x0 r eq_refl Ep) as (z & [[]|Hz] & Hq). eauto.
      * intros a x b -> Hp. destruct (H (x0 :: a) x b eq_refl Hp) as (z & [[Hz|Hz]|Hz] & Hq);
          exists z; simpl; auto.
Qed.

Lemma ok_fail_only_if_gone_iff tr : ok_fail_only_if_gone tr = true <-> FailOnlyIfGone tr.
Proof.
  unfold ok_fail_only_if_gone, FailOnlyIfGone. rewrite all_preceded_iff. split.
  - intros H a b cn E. destruct (H _ _ _ E eq_refl) as (z & [Hz|[]] & Hq).
    simpl in Hq. apply is_conn_eq in Hq. subst. exact Hz.
  - intros H a x b E Hp. destruct x as [|cn k| | | | |]; try discriminate.
    destruct k; try discriminate. subst.
    exists (Conn cn CliGone). split; [left; eapply H; eauto|apply is_conn_refl].
Qed.

Definition OriginResponseDelivered (tr : list label) : Prop :=
  forall cn, ~ In (Conn cn RTBroken) tr.

Lemma ok_origin_response_iff tr : ok_origin_response tr = true <-> OriginResponseDelivered tr.
Proof.
  unfold ok_origin_response, OriginResponseDelivered. rewrite forallb_forall. split.
  - intros H cn Hin. specialize (H _ Hin). discriminate.
  - intros H l Hin. destruct l as [|cn k| | | | |]; try reflexivity.
    destruct k; try reflexivity. exfalso. exact (H cn Hin).
Qed.

(* the whole oracle *)
Definition C07_spec (tr : list label) (views : list cview) : Prop :=
  InflightCompletes tr /\ MarkedClose tr /\ MarkedThenClosed tr /\
  NoReqmodAfterReturn tr /\ LateAcceptNotServed tr /\ ReturnAfterServedClosed tr /\
  ReturnAfterAcceptedClosed tr /\
  AllClosed tr /\ CloseReturns tr /\ AllAnswered tr /\
  ClientViews tr views /\ StatusMatches tr /\ FailOnlyIfGone tr /\ OriginResponseDelivered tr.

Lemma c07_ok_iff tr views : c07_ok tr views = true <-> C07_spec tr views.
Proof.
  unfold c07_ok, c07_safe_ok, c07_quiescent_ok, C07_spec.
  rewrite !andb_true_iff, ok_inflight_iff, ok_marked_iff, ok_marked_last_iff,
    ok_no_reqmod_after_return_iff, ok_late_not_served_iff, ok_return_after_served_closed_iff,
    ok_return_after_accepted_closed_iff,
    ok_all_closed_iff, ok_close_returns_iff, ok_all_answered_iff, ok_client_views_iff,
    ok_status_iff, ok_fail_only_if_gone_iff, ok_origin_response_iff.
  tauto.
Qed.

Lemma c07_safe_ok_iff tr :
  c07_safe_ok tr = true <->
  InflightCompletes tr /\ MarkedClose tr /\ MarkedThenClosed tr /\
  NoReqmodAfterReturn tr /\ LateAcceptNotServed tr /\ ReturnAfterServedClosed tr.
Proof.
  unfold c07_safe_ok.
  rewrite !andb_true_iff, ok_inflight_iff, ok_marked_iff, ok_marked_last_iff,
    ok_no_reqmod_after_return_iff, ok_late_not_served_iff, ok_return_after_served_closed_iff.
  tauto.
Qed.

(* a non-trivial complete execution: two connections, Close while the first
   is in its response modifier and the second is idle; every clause holds *)
Definition example_trace : list label :=
  [Accept 0; Conn 0 Register; Conn 0 Enter; Conn 0 ReqModStart; Conn 0 RTStart;
   Accept 1; Conn 1 Register; Conn 1 Enter;
   Conn 0 (RTEnd true); Conn 0 ResModStart; CloseCall; CloseSignal; ClosingSeen; CloseLock;
   Conn 1 SockClose; Conn 1 Done;
   Conn 0 ResModEnd; Conn 0 Decide; Conn 0 (RespStatus false); Conn 0 (WriteHead true);
   Conn 0 WriteDone; Conn 0 SockClose; Conn 0 Done; CloseReturn].

(* shutdown while the exchange is in the round trip, which then fails: the
   complete response is the synthesized 502, marked *)
Definition example_rtfail : list label :=
  [Accept 0; Conn 0 Register; Conn 0 Enter; Conn 0 ReqModStart; Conn 0 RTStart;
   CloseCall; CloseSignal; ClosingSeen; CloseLock; Conn 0 (RTEnd false); Conn 0 ResModStart;
   Conn 0 ResModEnd; Conn 0 Decide; Conn 0 (RespStatus true); Conn 0 (WriteHead true);
   Conn 0 WriteDone; Conn 0 SockClose; Conn 0 Done; CloseReturn].

Lemma example_rtfail_ok :
  (exists s, run init example_rtfail = Some s) /\
  c07_ok (filter is_obs example_rtfail) [([(true, true, true)], true)] = true /\
  accepts (filter is_obs example_rtfail) = true.
Proof. split; [eexists; vm_compute; reflexivity|split; vm_compute; reflexivity]. Qed.

Lemma example_runs : exists s, run init example_trace = Some s /\ cs s = Returned
  /\ Forall (fun cn => ph cn = Finished) (conns s).
Proof. eexists. split; [vm_compute; reflexivity|]. split; [reflexivity|]. repeat constructor. Qed.

Lemma example_ok :
  c07_ok (filter is_obs example_trace) [([(true, true, false)], true); ([], true)] = true
  /\ accepts (filter is_obs example_trace) = true.
Proof. split; vm_compute; reflexivity. Qed.

(* shutdown while a CONNECT exchange is parked in its request modifier: the tunnel is still
   set up, its 200 written, and the connection closed only when the tunnel ends *)
Definition example_connect : list label :=
  [Accept 0; Conn 0 Register; Conn 0 Enter; Conn 0 ReqModStart;
   CloseCall; CloseSignal; ClosingSeen; CloseLock;
   Conn 0 RTStart; Conn 0 (RTEnd true); Conn 0 ResModStart; Conn 0 CResModEnd;
   Conn 0 (RespStatus false); Conn 0 (WriteHead true); Conn 0 WriteDone;
   Conn 0 SockClose; Conn 0 Done; CloseReturn].

Lemma example_connect_ok :
  (exists s, run init example_connect = Some s) /\
  c07_ok (filter is_obs example_connect) [([(true, true, false)], true)] = true /\
  accepts (filter is_obs example_connect) = true.
Proof. split; [eexists; vm_compute; reflexivity|split; vm_compute; reflexivity]. Qed.

(* the second way an accepted connection outlives Close: accepted while
   Close is inside conns.Wait(), its handler blocks on connsMu *)
Definition late_witness : list label :=
  [Accept 0; Conn 0 Register; Conn 0 Enter; Conn 0 ReqModStart;
   CloseCall; CloseSignal; CloseLock; Accept 1;
   Conn 0 RTStart; Conn 0 ResModStart; Conn 0 ResModEnd; Conn 0 Decide;
   Conn 0 (WriteHead true); Conn 0 WriteDone; Conn 0 SockClose; Conn 0 Done;
   CloseReturn; Conn 1 Register; Conn 1 SockClose; Conn 1 Done].

Lemma late_witness_refutes :
  (exists s, run init late_witness = Some s) /\
  ok_return_after_accepted_closed late_witness = false.
Proof. split; [eexists|]; vm_compute; reflexivity. Qed.
