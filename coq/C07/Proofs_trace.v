(* C07 — every execution of the LTS satisfies the safety clauses of the
   oracle (so a trace admitted by the model cannot fail them). *)
From Coq Require Import List Arith Bool Lia.
From Martian.C07 Require Import Model Proofs Proofs_patterns.
Import ListNotations.

Definition hits (c : nat) (exc : clabel -> bool) (l : label) : bool :=
  match l with Conn c' k => Nat.eqb c c' && exc k | _ => false end.

(* a predicate on the phase of connection c that every step preserves,
   except steps of c itself whose label is in [exc] *)
Lemma phase_pred_step (P : phase -> bool) (exc : clabel -> bool) s l s' c cn :
  (forall lk p k p', cstep (closing s) lk p k = Some p' -> P p = true -> exc k = false -> P p' = true) ->
  step s l = Some s' -> nth_error (conns s) c = Some cn -> P (ph cn) = true ->
  hits c exc l = false ->
  exists cn', nth_error (conns s') c = Some cn' /\ P (ph cn') = true.
Proof.
  intros Hclos H Hn HP Hh. destruct l.
  - unfold step in H. destruct (Nat.eqb _ _); [|discriminate]. inversion H; subst; simpl.
    exists cn. split; auto. rewrite nth_error_app1; auto. apply nth_error_Some. congruence.
  - apply step_conn_inv in H as (cn0 & p' & Hn0 & Hc & Hcs & _). rewrite Hcs.
    destruct (Nat.eq_dec c0 c) as [->|Hne].
    + rewrite Hn in Hn0. inversion Hn0; subst. eexists. split.
      * apply nth_upd_same. apply nth_error_Some. congruence.
      * simpl. simpl in Hh. rewrite Nat.eqb_refl in Hh. simpl in Hh. eapply Hclos; eauto.
    + exists cn. rewrite nth_upd_other; auto.
  - unfold step in H. destruct (cs s); try discriminate; inversion H; subst; simpl; eauto.
  - unfold step in H. destruct (cs s); try discriminate; inversion H; subst; simpl; eauto.
  - unfold step in H. destruct (cs s); try discriminate; inversion H; subst; simpl; eauto.
  - unfold step in H. destruct (closing s); try discriminate; inversion H; subst; simpl; eauto.
  - unfold step in H. destruct (cs s); try discriminate. destruct (Nat.eqb _ _); try discriminate.
    inversion H; subst; simpl; eauto.
Qed.

(* scanning the rest of an execution from a state in which connection c
   satisfies P: no trigger can occur before a response *)
Lemma scan_generic (P : phase -> bool) (exc : clabel -> bool) (needcl : bool) c
      (trig resp : label -> bool) :
  (forall cl lk p k p', (needcl = true -> cl = true) ->
      cstep cl lk p k = Some p' -> P p = true -> exc k = false -> P p' = true) ->
  (forall s cn l, Inv s -> nth_error (conns s) c = Some cn -> P (ph cn) = true ->
      trig l = true -> step s l = None) ->
  (forall l, hits c exc l = true -> resp l = true) ->
  forall r s s' cn, Inv s -> (needcl = true -> closing s = true) ->
    nth_error (conns s) c = Some cn -> P (ph cn) = true ->
    run s r = Some s' -> resp_before_trig trig resp r = true.
Proof.
  intros Hclos Htrig Hresp. induction r as [|z r IH]; intros s s' cn Hi Hcl Hn HP Hrun; simpl; auto.
  simpl in Hrun. destruct (step s z) as [m|] eqn:Hs; [|discriminate].
  destruct (trig z) eqn:Et.
  - rewrite (Htrig s cn z Hi Hn HP Et) in Hs. discriminate.
  - destruct (resp z) eqn:Er; auto.
    assert (hits c exc z = false) as Hh.
    { destruct (hits c exc z) eqn:E; auto. rewrite (Hresp _ E) in Er. discriminate. }
    destruct (phase_pred_step P exc s z m c cn
                (fun lk p k p' => Hclos (closing s) lk p k p' Hcl) Hs Hn HP Hh) as (cn' & Hn' & HP').
    apply (IH m s' cn'); auto.
    + eapply inv_step; eauto.
    + intros Hx. eapply step_cs_monotone; eauto.
Qed.

Lemma after_conn_step s c k m :
  step s (Conn c k) = Some m ->
  exists cn p', nth_error (conns s) c = Some cn /\
    cstep (closing s) (locked_of (cs s)) (ph cn) k = Some p' /\
    nth_error (conns m) c = Some (mkConn p' (late cn)).
Proof.
  intros H. apply step_conn_inv in H as (cn & p' & Hn & Hc & Hcs & _).
  exists cn, p'. repeat split; auto. rewrite Hcs. apply nth_upd_same.
  apply nth_error_Some. congruence.
Qed.

Lemma is_conn_eq c k l : is_conn c k l = true -> l = Conn c k.
Proof.
  destruct l; simpl; try discriminate. rewrite andb_true_iff. intros [E H].
  apply Nat.eqb_eq in E. subst.
  destruct k, k0; try discriminate; try reflexivity;
    apply Bool.eqb_prop in H; subst; reflexivity.
Qed.

Lemma is_conn_refl c k : is_conn c k (Conn c k) = true.
Proof. simpl. rewrite Nat.eqb_refl. destruct k; auto; apply Bool.eqb_reflx. Qed.

Lemma step_disabled s c cn k :
  nth_error (conns s) c = Some cn ->
  (forall cl lk, cstep cl lk (ph cn) k = None) -> step s (Conn c k) = None.
Proof. intros Hn H. unfold step. rewrite Hn, H. reflexivity. Qed.

(* ---------------- S1: in-flight exchanges complete ------------------- *)

Definition serving (p : phase) : bool :=
  match p with
  | InReqMod | InRoundTrip | InResMod | PreDecide | Decided _ | Writing _
  | CDecided | CWriting => true
  | _ => false
  end.

Definition is_writedone (k : clabel) : bool := match k with WriteDone | WriteFail => true | _ => false end.

Lemma rbt_no_trig {A} (t g : A -> bool) r : (forall y, t y = false) -> resp_before_trig t g r = true.
Proof. intros H. induction r as [|z r IH]; simpl; auto. rewrite H. destruct (g z); auto. Qed.

Lemma exec_inflight : forall tr s s', Inv s -> run s tr = Some s' -> ok_inflight tr = true.
Proof.
  unfold ok_inflight. induction tr as [|x r IH]; intros s s' Hi Hrun; simpl; auto.
  simpl in Hrun. destruct (step s x) as [m|] eqn:Hs; [|discriminate].
  rewrite (IH m s' (inv_step _ _ _ Hi Hs) Hrun), andb_true_r.
  destruct (match x with Conn _ ReqModStart => true | _ => false end) eqn:Ex.
  - destruct x as [|c k| | | | |]; try discriminate. destruct k; try discriminate.
    apply after_conn_step in Hs as Hs'. destruct Hs' as (cn & p' & Hn & Hc & Hn').
    apply (scan_generic serving is_writedone false c (s1_trig (Conn c ReqModStart))
             (s1_resp (Conn c ReqModStart))) with (s := m) (s' := s') (cn := mkConn p' (late cn)).
    + intros cl lk p k p'0 _ H HP He. cstep_cases H; simpl in *; auto; discriminate.
    + intros s0 cn0 l _ Hn0 HP Ht. simpl in Ht. apply is_conn_eq in Ht. subst.
      eapply step_disabled; eauto. intros cl lk.
      destruct (ph cn0); simpl in *; try discriminate; reflexivity.
    + intros l Hh. destruct l; simpl in Hh; try discriminate.
      apply andb_true_iff in Hh as [E Hk]. apply Nat.eqb_eq in E. subst.
      unfold s1_resp.
      destruct k; try discriminate; rewrite is_conn_refl; auto using orb_true_r.
    + eapply inv_step; eauto.
    + discriminate.
    + exact Hn'.
    + simpl. destruct (ph cn); simpl in Hc; try discriminate; inversion Hc; reflexivity.
    + exact Hrun.
  - apply rbt_no_trig. intros y. destruct x as [|c k| | | | |]; try reflexivity.
    destruct k; try reflexivity; discriminate.
Qed.

Lemma forallb_const_true {A} (g : A -> bool) r : (forall z, g z = true) -> forallb g r = true.
Proof. intros H. induction r; simpl; auto. rewrite H. auto. Qed.

Lemma never_generic (P : phase -> bool) (needcl : bool) c (trig : label -> bool) :
  (forall cl lk p k p', (needcl = true -> cl = true) ->
      cstep cl lk p k = Some p' -> P p = true -> P p' = true) ->
  (forall s cn l, Inv s -> nth_error (conns s) c = Some cn -> P (ph cn) = true ->
      trig l = true -> step s l = None) ->
  forall r s s' cn, Inv s -> (needcl = true -> closing s = true) ->
    nth_error (conns s) c = Some cn -> P (ph cn) = true ->
    run s r = Some s' -> forallb (fun y => negb (trig y)) r = true.
Proof.
  intros Hclos Htrig r s s' cn Hi Hcl Hn HP Hrun.
  rewrite <- resp_before_trig_never.
  apply (scan_generic P (fun _ => false) needcl c trig (fun _ => false)) with (s := s) (s' := s') (cn := cn); auto.
  - intros cl lk p k p' Hx H HPp _. eapply Hclos; eauto.
  - intros l Hh. destruct l; simpl in Hh; try discriminate. rewrite andb_false_r in Hh. discriminate.
Qed.

(* ---------------- S3: nothing is served after a marked response ------ *)

Definition after_marked (p : phase) : bool :=
  match p with Writing true | Written | SockClosed | Finished | Broken | CWriting | Tunnel => true | _ => false end.

Lemma exec_marked_last : forall tr s s', Inv s -> run s tr = Some s' -> ok_marked_last tr = true.
Proof.
  unfold ok_marked_last. induction tr as [|x r IH]; intros s s' Hi Hrun; simpl; auto.
  simpl in Hrun. destruct (step s x) as [m|] eqn:Hs; [|discriminate].
  rewrite (IH m s' (inv_step _ _ _ Hi Hs) Hrun), andb_true_r.
  destruct (match x with Conn _ (WriteHead true) => true | _ => false end) eqn:Ex.
  - destruct x as [|c k| | | | |]; try discriminate. destruct k as [| | | | | | | |mm| | | |?|?| | | |]; try discriminate.
    destruct mm; try discriminate.
    apply after_conn_step in Hs as Hs'. destruct Hs' as (cn & p' & Hn & Hc & Hn').
    apply (never_generic after_marked false c (s3_bad (Conn c (WriteHead true))))
      with (s := m) (s' := s') (cn := mkConn p' (late cn)).
    + intros cl lk p k p'0 _ H HP. cstep_cases H; simpl in *; auto; discriminate.
    + intros s0 cn0 l _ Hn0 HP Ht. simpl in Ht. apply is_conn_eq in Ht. subst.
      eapply step_disabled; eauto. intros cl lk.
      destruct (ph cn0) as [| | | | | | | |mm|mm| | | | | | |]; simpl in *; try discriminate; reflexivity.
    + eapply inv_step; eauto.
    + discriminate.
    + exact Hn'.
    + simpl. destruct (ph cn); simpl in Hc; try discriminate;
        repeat match goal with b : bool |- _ => destruct b end;
        simpl in Hc; try discriminate; inversion Hc; reflexivity.
    + exact Hrun.
  - apply forallb_const_true. intros y. destruct x as [|c k| | | | |]; try reflexivity.
    destruct k as [| | | | | | | |mm| | | |?|?| | | |]; try reflexivity. destruct mm; try reflexivity; discriminate.
Qed.

(* ---------------- S2: closing seen before the decision => marked ----- *)

Definition will_mark (p : phase) : bool :=
  match p with
  | PreDecide | Decided true | Writing true | Written | SockClosed | Finished | Broken => true
  | _ => false
  end.

Lemma s2_inner : forall r s s', Inv s -> closing s = true -> run s r = Some s' ->
  no_pair (s2_bad ClosingSeen) r = true.
Proof.
  induction r as [|y r IH]; intros s s' Hi Hcl Hrun; simpl; auto.
  simpl in Hrun. destruct (step s y) as [m|] eqn:Hs; [|discriminate].
  assert (closing m = true) as Hclm by (eapply step_cs_monotone; eauto).
  rewrite (IH m s' (inv_step _ _ _ Hi Hs) Hclm Hrun), andb_true_r.
  destruct (match y with Conn _ ResModEnd => true | _ => false end) eqn:Ey.
  - destruct y as [|c k| | | | |]; try discriminate. destruct k; try discriminate.
    apply after_conn_step in Hs as Hs'. destruct Hs' as (cn & p' & Hn & Hc & Hn').
    apply (never_generic will_mark true c (s2_bad ClosingSeen (Conn c ResModEnd)))
      with (s := m) (s' := s') (cn := mkConn p' (late cn)).
    + intros cl lk p k p'0 Hx H HP. rewrite (Hx eq_refl) in H.
      cstep_cases H; simpl in *; auto; try discriminate;
        repeat match goal with b : bool |- _ => destruct b end; simpl in *; auto; discriminate.
    + intros s0 cn0 l _ Hn0 HP Ht. simpl in Ht. apply is_conn_eq in Ht. subst.
      eapply step_disabled; eauto. intros cl lk.
      destruct (ph cn0) as [| | | | | | | |mm|mm| | | | | | |]; simpl in *; try discriminate; try reflexivity.
      destruct mm; simpl in *; try discriminate; reflexivity.
    + eapply inv_step; eauto.
    + intros _. exact Hclm.
    + exact Hn'.
    + simpl. destruct (ph cn); simpl in Hc; try discriminate; inversion Hc; reflexivity.
    + exact Hrun.
  - apply forallb_const_true. intros z. destruct y as [|c k| | | | |]; try reflexivity.
    destruct k; try reflexivity; discriminate.
Qed.

Lemma exec_marked : forall tr s s', Inv s -> run s tr = Some s' -> ok_marked tr = true.
Proof.
  unfold ok_marked. induction tr as [|x r IH]; intros s s' Hi Hrun; simpl; auto.
  simpl in Hrun. destruct (step s x) as [m|] eqn:Hs; [|discriminate].
  rewrite (IH m s' (inv_step _ _ _ Hi Hs) Hrun), andb_true_r.
  destruct x; try (apply no_pair_iff; intros a x b y c' _; reflexivity).
  apply (s2_inner r m s'); auto.
  - eapply inv_step; eauto.
  - unfold step in Hs. destruct (closing s) eqn:E; [|discriminate]. inversion Hs; subst. exact E.
Qed.

(* ---------------- S5: late accepts are never served ------------------ *)

Lemma s5_inner : forall r s s', Inv s -> closing s = true -> run s r = Some s' ->
  no_pair (s5_bad ClosingSeen) r = true.
Proof.
  induction r as [|y r IH]; intros s s' Hi Hcl Hrun; simpl; auto.
  simpl in Hrun. destruct (step s y) as [m|] eqn:Hs; [|discriminate].
  assert (closing m = true) as Hclm by (eapply step_cs_monotone; eauto).
  rewrite (IH m s' (inv_step _ _ _ Hi Hs) Hclm Hrun), andb_true_r.
  destruct y as [c|c k| | | | |]; try (apply forallb_const_true; intros z; reflexivity).
  pose proof (late_conn_flagged _ _ _ Hs) as Hn'.
  apply (never_generic quiet true c (s5_bad ClosingSeen (Accept c)))
    with (s := m) (s' := s') (cn := mkConn Accepted (closing s)).
  - intros cl lk p k p'0 Hx H HP. rewrite (Hx eq_refl) in H. eapply cstep_quiet_closing; eauto.
  - intros s0 cn0 l _ Hn0 HP Ht. simpl in Ht. apply is_conn_eq in Ht. subst.
    eapply quiet_no_reqmod; eauto.
  - eapply inv_step; eauto.
  - intros _. exact Hclm.
  - exact Hn'.
  - reflexivity.
  - exact Hrun.
Qed.

Lemma exec_late_not_served : forall tr s s', Inv s -> run s tr = Some s' -> ok_late_not_served tr = true.
Proof.
  unfold ok_late_not_served. induction tr as [|x r IH]; intros s s' Hi Hrun; simpl; auto.
  simpl in Hrun. destruct (step s x) as [m|] eqn:Hs; [|discriminate].
  rewrite (IH m s' (inv_step _ _ _ Hi Hs) Hrun), andb_true_r.
  destruct x; try (apply no_pair_iff; intros a x b y c' _; reflexivity).
  apply (s5_inner r m s'); auto.
  - eapply inv_step; eauto.
  - unfold step in Hs. destruct (closing s) eqn:E; [|discriminate]. inversion Hs; subst. exact E.
Qed.

(* ---------------- S4: no request modifier after Close returned ------- *)

Lemma step_returned_stable s l s' : step s l = Some s' -> cs s = Returned -> cs s' = Returned.
Proof.
  intros H Hc. destruct l.
  - unfold step in H. destruct (Nat.eqb _ _); [|discriminate]. inversion H; subst; auto.
  - apply step_conn_inv in H as (cn & p' & _ & _ & _ & Hcs & _). congruence.
  - unfold step in H. rewrite Hc in H. discriminate.
  - unfold step in H. rewrite Hc in H. discriminate.
  - unfold step in H. rewrite Hc in H. discriminate.
  - unfold step in H. destruct (closing s); [|discriminate]. inversion H; subst; auto.
  - unfold step in H. rewrite Hc in H. discriminate.
Qed.

Lemma inv_no_reqmod_after_return s c : Inv s -> cs s = Returned -> step s (Conn c ReqModStart) = None.
Proof.
  intros [_ _ _ Hret] Hc.
  destruct (nth_error (conns s) c) as [cn|] eqn:Hn.
  - eapply quiet_no_reqmod; eauto. exact (Forall_nth _ _ _ _ (Hret Hc) Hn).
  - unfold step. rewrite Hn. reflexivity.
Qed.

Lemma s4_inner : forall r s s', Inv s -> cs s = Returned -> run s r = Some s' ->
  forallb (fun y => negb (s4_bad CloseReturn y)) r = true.
Proof.
  induction r as [|y r IH]; intros s s' Hi Hc Hrun; [reflexivity|]. cbn [forallb].
  simpl in Hrun. destruct (step s y) as [m|] eqn:Hs; [|discriminate].
  rewrite (IH m s' (inv_step _ _ _ Hi Hs) (step_returned_stable _ _ _ Hs Hc) Hrun), andb_true_r.
  destruct y as [|c k| | | | |]; try reflexivity. destruct k; try reflexivity.
  rewrite inv_no_reqmod_after_return in Hs; auto. discriminate.
Qed.

Lemma exec_no_reqmod_after_return : forall tr s s', Inv s -> run s tr = Some s' ->
  ok_no_reqmod_after_return tr = true.
Proof.
  unfold ok_no_reqmod_after_return. induction tr as [|x r IH]; intros s s' Hi Hrun; simpl; auto.
  simpl in Hrun. destruct (step s x) as [m|] eqn:Hs; [|discriminate].
  rewrite (IH m s' (inv_step _ _ _ Hi Hs) Hrun), andb_true_r.
  destruct x; try (apply forallb_const_true; intros z; reflexivity).
  apply (s4_inner r m s'); auto.
  - eapply inv_step; eauto.
  - unfold step in Hs. destruct (cs s); try discriminate. destruct (Nat.eqb _ _); try discriminate.
    inversion Hs; reflexivity.
Qed.

(* ---------------- S6r: Close returns after registered connections closed *)

Definition reg_open (p : phase) : bool :=
  match p with Accepted | SockClosed | Finished => false | _ => true end.

Definition is_sockclose (k : clabel) : bool := match k with SockClose => true | _ => false end.

Lemma exec_return_after_registered_closed : forall tr s s', Inv s -> run s tr = Some s' ->
  ok_return_after_registered_closed tr = true.
Proof.
  unfold ok_return_after_registered_closed. induction tr as [|x r IH]; intros s s' Hi Hrun; simpl; auto.
  simpl in Hrun. destruct (step s x) as [m|] eqn:Hs; [|discriminate].
  rewrite (IH m s' (inv_step _ _ _ Hi Hs) Hrun), andb_true_r.
  destruct (match x with Conn _ Register => true | _ => false end) eqn:Ex.
  - destruct x as [|c k| | | | |]; try discriminate. destruct k; try discriminate.
    apply after_conn_step in Hs as Hs'. destruct Hs' as (cn & p' & Hn & Hc & Hn').
    apply (scan_generic reg_open is_sockclose false c (s6r_trig (Conn c Register))
             (s6r_resp (Conn c Register))) with (s := m) (s' := s') (cn := mkConn p' (late cn)).
    + intros cl lk p k p'0 _ H HP He. cstep_cases H; simpl in *; auto; discriminate.
    + intros s0 cn0 l Hi0 Hn0 HP Ht. destruct l; simpl in Ht; try discriminate.
      unfold step. destruct (cs s0); auto.
      destruct Hi0 as [_ Hw _ _]. rewrite Hw.
      assert (live (ph cn0) = true) by (destruct (ph cn0); simpl in *; auto; discriminate).
      pose proof (count_live_pos _ _ _ Hn0 H).
      destruct (count_live (conns s0)); [lia|reflexivity].
    + intros l Hh. destruct l; simpl in Hh; try discriminate.
      apply andb_true_iff in Hh as [E Hk]. apply Nat.eqb_eq in E. subst.
      destruct k; try discriminate. apply is_conn_refl.
    + eapply inv_step; eauto.
    + discriminate.
    + exact Hn'.
    + simpl. destruct (ph cn); simpl in Hc; try discriminate.
      destruct (locked_of (cs s)); inversion Hc; reflexivity.
    + exact Hrun.
  - apply rbt_no_trig. intros y. destruct x as [|c k| | | | |]; try reflexivity.
    destruct k; try reflexivity; discriminate.
Qed.

Lemma exec_return_after_served_closed : forall tr s s', Inv s -> run s tr = Some s' ->
  ok_return_after_served_closed tr = true.
Proof.
  unfold ok_return_after_served_closed. induction tr as [|x r IH]; intros s s' Hi Hrun; simpl; auto.
  simpl in Hrun. destruct (step s x) as [m|] eqn:Hs; [|discriminate].
  rewrite (IH m s' (inv_step _ _ _ Hi Hs) Hrun), andb_true_r.
  destruct (match x with Conn _ ReqModStart => true | _ => false end) eqn:Ex.
  - destruct x as [|c k| | | | |]; try discriminate. destruct k; try discriminate.
    apply after_conn_step in Hs as Hs'. destruct Hs' as (cn & p' & Hn & Hc & Hn').
    apply (scan_generic reg_open is_sockclose false c (s7_trig (Conn c ReqModStart))
             (s7_resp (Conn c ReqModStart))) with (s := m) (s' := s') (cn := mkConn p' (late cn)).
    + intros cl lk p k p'0 _ H HP He. cstep_cases H; simpl in *; auto; discriminate.
    + intros s0 cn0 l Hi0 Hn0 HP Ht. destruct l; simpl in Ht; try discriminate.
      unfold step. destruct (cs s0); auto.
      destruct Hi0 as [_ Hw _ _]. rewrite Hw.
      assert (live (ph cn0) = true) by (destruct (ph cn0); simpl in *; auto; discriminate).
      pose proof (count_live_pos _ _ _ Hn0 H).
      destruct (count_live (conns s0)); [lia|reflexivity].
    + intros l Hh. destruct l; simpl in Hh; try discriminate.
      apply andb_true_iff in Hh as [E Hk]. apply Nat.eqb_eq in E. subst.
      destruct k; try discriminate. apply is_conn_refl.
    + eapply inv_step; eauto.
    + discriminate.
    + exact Hn'.
    + simpl. destruct (ph cn); simpl in Hc; try discriminate; inversion Hc; reflexivity.
    + exact Hrun.
  - apply rbt_no_trig. intros y. destruct x as [|c k| | | | |]; try reflexivity.
    destruct k; try reflexivity; discriminate.
Qed.

(* ---------------- all safety clauses --------------------------------- *)

Lemma exec_safe tr s : run init tr = Some s -> c07_safe_ok tr = true.
Proof.
  intros H. unfold c07_safe_ok.
  rewrite (exec_inflight _ _ _ inv_init H), (exec_marked _ _ _ inv_init H),
          (exec_marked_last _ _ _ inv_init H), (exec_no_reqmod_after_return _ _ _ inv_init H),
          (exec_late_not_served _ _ _ inv_init H),
          (exec_return_after_served_closed _ _ _ inv_init H).
  reflexivity.
Qed.

(* the clauses only look at observable labels: erasing hidden ones keeps them true *)
Lemma safe_filter_obs tr : c07_safe_ok tr = true -> c07_safe_ok (filter is_obs tr) = true.
Proof.
  unfold c07_safe_ok. rewrite !andb_true_iff. intros [[[[[H1 H2] H3] H4] H5] H6].
  repeat split.
  - apply all_between_filter; auto. intros x z Hr. destruct x as [|c k| | | | |]; try discriminate.
    destruct k; try discriminate. simpl in Hr.
    apply orb_true_iff in Hr as [Hr|Hr]; apply is_conn_eq in Hr; subst; reflexivity.
  - apply no_triple_filter; auto.
  - apply no_pair_filter; auto.
  - apply no_pair_filter; auto.
  - apply no_triple_filter; auto.
  - apply all_between_filter; auto. intros x z Hr. destruct x as [|c k| | | | |]; try discriminate.
    destruct k; try discriminate. simpl in Hr. apply is_conn_eq in Hr. subst. reflexivity.
Qed.
