(* C07 — tie to the source: the statement-order facts that gen_c07 reads
   from proxy.go (Gen_Shutdown.v, regenerated on every run) are the ones the
   hand-written LTS assumes.  Each conjunct names the model rule it backs:
   - close_signals_before_lock, close_waits_under_lock : CloseSignal, CloseLock,
     CloseReturn in this order; Register disabled while cs = Locked (no
     conns.Add concurrent with conns.Wait, hence no WaitGroup misuse panic)
   - handler_adds_under_lock, handler_registers_in_goroutine : Accepted -> Registered
     is a separate step that needs the mutex
   - handler_closes_then_done : SockClose precedes Done
   - handler_early_exit_after_register : SockClose enabled at Registered when closing
   - reader_select_sees_closing, reader_reads_only_behind_select : SockClose enabled at
     Idle/HeadPartial when closing, whatever part of a head is already buffered
   - decision_after_resmod, decision_checks_closing, decision_marks_and_closes,
     response_written_after_decision : ResModEnd, Decide (mark = closing), WriteHead,
     WriteDone, then SockClose iff marked. *)
From Coq Require Import Bool.
From Martian.C07 Require Import Gen_Shutdown.

Lemma source_shape_tie :
  close_signals_before_lock = true /\ close_waits_under_lock = true /\
  handler_adds_under_lock = true /\ handler_registers_in_goroutine = true /\
  serve_closes_listener_on_return = true /\
  handler_closes_then_done = true /\ handler_early_exit_after_register = true /\
  reader_select_sees_closing = true /\ reader_reads_only_behind_select = true /\
  decision_after_resmod = true /\ decision_checks_closing = true /\
  decision_marks_and_closes = true /\ response_written_after_decision = true.
Proof. repeat split; reflexivity. Qed.
