(* C07 — soundness of the trace acceptor: a trace it admits is the
   observable projection of an execution of the LTS. *)
From Coq Require Import List Arith Bool Lia.
From Martian.C07 Require Import Model Proofs Proofs_patterns Proofs_trace.
Import ListNotations.

Lemma dedup_in x l : In x (dedup l) -> In x l.
Proof.
  revert x; induction l as [|h t IH]; simpl; intros x H; auto.
  destruct H as [H|H]; auto. apply filter_In in H as [H _]. auto.
Qed.

Lemma filter_map_in {A B} (f : A -> option B) l y :
  In y (filter_map f l) -> exists x, In x l /\ f x = Some y.
Proof.
  induction l as [|h t IH]; simpl; intros H; [contradiction|].
  destruct (f h) eqn:E.
  - destruct H as [H|H]; [subst; eauto|]. destruct (IH H) as (x & Hx & Hf). eauto.
  - destruct (IH H) as (x & Hx & Hf). eauto.
Qed.

Lemma hidden_cands_hidden s l : In l (hidden_cands s) -> is_obs l = false.
Proof.
  unfold hidden_cands. simpl. intros [H|[H|H]]; subst; auto.
  apply in_flat_map in H as (c & _ & Hc). simpl in Hc.
  destruct Hc as [H|[H|[H|[H|[]]]]]; subst; reflexivity.
Qed.

Definition Reach (pre : list label) (ss : list state) : Prop :=
  forall s, In s ss -> exists full, run init full = Some s /\ filter is_obs full = filter is_obs pre.

Lemma reach_init : Reach [] [init].
Proof. intros s [<-|[]]. exists []. split; reflexivity. Qed.

Lemma add_new_in x ns : forall acc, In x (add_new acc ns) -> In x acc \/ In x ns.
Proof.
  induction ns as [|n r IH]; intros acc H; simpl in *; auto.
  destruct (existsb (state_eqb n) acc).
  - destruct (IH _ H); auto.
  - destruct (IH _ H) as [H1|H1]; auto. apply in_app_or in H1 as [H1|[H1|[]]]; auto.
Qed.

Lemma tau1_sound pre ss : Reach pre ss -> Reach pre (tau1 ss).
Proof.
  intros HR s Hs. unfold tau1 in Hs. apply add_new_in in Hs as [Hs|Hs]; auto.
  apply in_flat_map in Hs as (s0 & Hs0 & Hs).
  apply filter_map_in in Hs as (l & Hl & Hstep).
  destruct (HR s0 Hs0) as (full & Hrun & Hobs).
  exists (full ++ [l]). split.
  - rewrite run_app, Hrun. simpl. rewrite Hstep. reflexivity.
  - rewrite filter_app. simpl. rewrite (hidden_cands_hidden _ _ Hl), app_nil_r. exact Hobs.
Qed.

Lemma tau_sound n : forall pre ss, Reach pre ss -> Reach pre (tau n ss).
Proof.
  induction n as [|n IH]; intros pre ss HR; simpl; auto.
  destruct (Nat.eqb _ _); auto. apply IH. apply tau1_sound. exact HR.
Qed.

Lemma step_sound n pre ss l :
  Reach pre ss ->
  Reach (pre ++ [l]) (dedup (filter_map (fun s => step s l) (tau n ss))).
Proof.
  intros HR s Hs. apply dedup_in in Hs. apply filter_map_in in Hs as (s0 & Hs0 & Hstep).
  destruct (tau_sound n pre ss HR s0 Hs0) as (full & Hrun & Hobs).
  exists (full ++ [l]). split.
  - rewrite run_app, Hrun. simpl. rewrite Hstep. reflexivity.
  - rewrite !filter_app, Hobs. reflexivity.
Qed.

Lemma accepts_from_sound n : forall tr pre ss,
  Reach pre ss -> accepts_from n ss tr = true ->
  exists full s, run init full = Some s /\ filter is_obs full = filter is_obs (pre ++ tr).
Proof.
  induction tr as [|l r IH]; intros pre ss HR H; simpl in H.
  - destruct ss as [|s ss]; [discriminate|]. destruct (HR s (or_introl eq_refl)) as (full & Hrun & Hobs).
    exists full, s. rewrite app_nil_r. auto.
  - destruct (isnil _) eqn:E; [discriminate|].
    destruct (IH (pre ++ [l]) _ (step_sound n pre ss l HR) H) as (full & s & Hrun & Hobs).
    exists full, s. split; auto. rewrite <- app_assoc in Hobs. exact Hobs.
Qed.

Lemma accepts_sound tr :
  accepts tr = true ->
  exists full s, run init full = Some s /\ filter is_obs full = filter is_obs tr.
Proof. intros H. exact (accepts_from_sound _ tr [] [init] reach_init H). Qed.

(* hence: a trace admitted by the model passes every safety clause *)
Lemma admitted_traces_safe tr :
  accepts tr = true -> c07_safe_ok (filter is_obs tr) = true.
Proof.
  intros H. destruct (accepts_sound tr H) as (full & s & Hrun & Hobs).
  rewrite <- Hobs. apply safe_filter_obs. eapply exec_safe; eauto.
Qed.

Lemma filter_all {A} (f : A -> bool) l : forallb f l = true -> filter f l = l.
Proof.
  induction l as [|x r IH]; simpl; auto. rewrite andb_true_iff. intros [H1 H2].
  rewrite H1, IH; auto.
Qed.

Lemma admitted_observed_traces_safe tr :
  forallb is_obs tr = true -> accepts tr = true -> c07_safe_ok tr = true.
Proof. intros Ho Ha. rewrite <- (filter_all _ _ Ho). apply admitted_traces_safe. exact Ha. Qed.

(* the acceptor accepts every execution given as is (no hidden step needed) *)
Lemma d36_admitted : accepts (filter is_obs d36_witness) = true.
Proof. vm_compute. reflexivity. Qed.
