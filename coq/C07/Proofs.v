(* C07 — invariants of the shutdown LTS and the state-level theorems. *)
From Coq Require Import List Arith Bool Lia.
From Martian.C07 Require Import Model.
Import ListNotations.

(* ------------------------------------------------------------------ *)
(* lists                                                                *)
(* ------------------------------------------------------------------ *)

Lemma upd_length {A} n (x : A) l : length (upd n x l) = length l.
Proof. revert n; induction l as [|h t IH]; intros [|n]; simpl; auto. Qed.

Lemma nth_upd_same {A} n (x : A) l : n < length l -> nth_error (upd n x l) n = Some x.
Proof.
  revert n; induction l as [|h t IH]; intros [|n] H; simpl in *; try lia; auto.
  apply IH; lia.
Qed.

Lemma nth_upd_other {A} n m (x : A) l : n <> m -> nth_error (upd n x l) m = nth_error l m.
Proof.
  revert n m; induction l as [|h t IH]; intros [|n] [|m] H; simpl; auto; try congruence.
Qed.

Lemma nth_upd {A} n m (x : A) l y :
  nth_error (upd n x l) m = Some y ->
  (n = m /\ y = x) \/ (n <> m /\ nth_error l m = Some y).
Proof.
  intros H. destruct (Nat.eq_dec n m) as [->|Hne].
  - left. split; auto.
    assert (m < length l).
    { rewrite <- (upd_length m x l). apply nth_error_Some. congruence. }
    rewrite nth_upd_same in H by assumption. congruence.
  - right. split; auto. rewrite nth_upd_other in H; auto.
Qed.

Lemma Forall_upd {A} (P : A -> Prop) n x l : Forall P l -> P x -> Forall P (upd n x l).
Proof.
  intros HF Hx. revert n; induction HF; intros [|n]; simpl; constructor; auto.
Qed.

Lemma Forall_nth {A} (P : A -> Prop) l n x : Forall P l -> nth_error l n = Some x -> P x.
Proof. intros HF H. rewrite Forall_forall in HF. apply HF. eapply nth_error_In; eauto. Qed.

Lemma Forall_from_nth {A} (P : A -> Prop) l :
  (forall n x, nth_error l n = Some x -> P x) -> Forall P l.
Proof.
  intros H. apply Forall_forall. intros x Hin. apply In_nth_error in Hin as [n Hn]. eauto.
Qed.

(* ------------------------------------------------------------------ *)
(* counting live connections                                            *)
(* ------------------------------------------------------------------ *)

Definition b2n (b : bool) : nat := if b then 1 else 0.

Lemma count_live_cons cn l : count_live (cn :: l) = b2n (live (ph cn)) + count_live l.
Proof. unfold count_live. simpl. destruct (live (ph cn)); reflexivity. Qed.

Lemma count_live_app l1 l2 : count_live (l1 ++ l2) = count_live l1 + count_live l2.
Proof. unfold count_live. rewrite filter_app, app_length. reflexivity. Qed.

Lemma count_live_upd l : forall n old new,
  nth_error l n = Some old ->
  count_live (upd n new l) + b2n (live (ph old)) = count_live l + b2n (live (ph new)).
Proof.
  induction l as [|h t IH]; intros [|n] old new H; simpl in H; try discriminate.
  - inversion H; subst. simpl upd. rewrite !count_live_cons. lia.
  - simpl upd. rewrite !count_live_cons. specialize (IH _ _ new H). lia.
Qed.

Lemma count_live_zero l : count_live l = 0 -> Forall (fun cn => live (ph cn) = false) l.
Proof.
  induction l as [|h t IH]; intros H; constructor; rewrite count_live_cons in H.
  - destruct (live (ph h)); simpl in H; [lia|reflexivity].
  - apply IH. lia.
Qed.

Lemma count_live_pos l n cn : nth_error l n = Some cn -> live (ph cn) = true -> count_live l >= 1.
Proof.
  revert n; induction l as [|h t IH]; intros [|n] H Hl; simpl in H; try discriminate.
  - inversion H; subst. rewrite count_live_cons, Hl. simpl. lia.
  - rewrite count_live_cons. specialize (IH _ H Hl). lia.
Qed.

Lemma count_live_all_dead l : Forall (fun cn => live (ph cn) = false) l -> count_live l = 0.
Proof.
  induction 1; [reflexivity|]. rewrite count_live_cons, H. simpl. assumption.
Qed.

(* ------------------------------------------------------------------ *)
(* runs                                                                 *)
(* ------------------------------------------------------------------ *)

Lemma run_app s a b : run s (a ++ b) = match run s a with Some m => run m b | None => None end.
Proof.
  revert s; induction a as [|x a IH]; intros s; simpl; [reflexivity|].
  destruct (step s x); auto.
Qed.

Lemma run_cons s x r s' : run s (x :: r) = Some s' -> exists m, step s x = Some m /\ run m r = Some s'.
Proof. simpl. destruct (step s x) as [m|]; [eauto|discriminate]. Qed.

Definition reachable (s : state) : Prop := exists tr, run init tr = Some s.

Lemma reachable_init : reachable init.
Proof. exists []. reflexivity. Qed.

Lemma reachable_step s l s' : reachable s -> step s l = Some s' -> reachable s'.
Proof.
  intros [tr Htr] Hs. exists (tr ++ [l]). rewrite run_app, Htr. simpl. rewrite Hs. reflexivity.
Qed.

Lemma reachable_run s tr s' : reachable s -> run s tr = Some s' -> reachable s'.
Proof.
  revert s; induction tr as [|x r IH]; intros s Hr H; simpl in H.
  - inversion H; subst; assumption.
  - destruct (step s x) as [m|] eqn:Hs; [|discriminate].
    eapply IH; [eapply reachable_step; eassumption | exact H].
Qed.

(* ------------------------------------------------------------------ *)
(* anatomy of a step                                                    *)
(* ------------------------------------------------------------------ *)

(* a connection step: which connection moved, from which phase to which *)
Lemma step_conn_inv s c k s' :
  step s (Conn c k) = Some s' ->
  exists cn p',
    nth_error (conns s) c = Some cn /\
    cstep (closing s) (locked_of (cs s)) (ph cn) k = Some p' /\
    conns s' = upd c (mkConn p' (late cn)) (conns s) /\
    cs s' = cs s /\
    wg s' = match k with Register => S (wg s) | Done => pred (wg s) | _ => wg s end /\
    panicked s' = match k with Done => orb (panicked s) (Nat.eqb (wg s) 0) | _ => panicked s end.
Proof.
  unfold step. destruct (nth_error (conns s) c) as [cn|] eqn:Hn; [|discriminate].
  destruct (cstep _ _ _ _) as [p'|] eqn:Hc; [|discriminate].
  intros H. exists cn, p'. destruct k; inversion H; subst; simpl; auto 10.
Qed.

Lemma step_cs_monotone s l s' : step s l = Some s' -> closing s = true -> closing s' = true.
Proof.
  unfold closing. intros H Hc. destruct l.
  - unfold step in H. destruct (Nat.eqb _ _); [|discriminate]. inversion H; subst; auto.
  - apply step_conn_inv in H as (cn & p' & _ & _ & _ & Hcs & _). rewrite Hcs. auto.
  - unfold step in H. destruct (cs s); try discriminate; inversion H; subst; simpl in *; auto; try discriminate.
  - unfold step in H. destruct (cs s); try discriminate; inversion H; subst; simpl in *; auto; try discriminate.
  - unfold step in H. destruct (cs s); try discriminate; inversion H; subst; simpl in *; auto; try discriminate.
  - unfold step, closing in H. rewrite Hc in H. inversion H; subst; auto.
  - unfold step in H. destruct (cs s); try discriminate. destruct (Nat.eqb _ _); try discriminate.
    inversion H; subst; auto.
Qed.

Lemma run_cs_monotone tr : forall s s', run s tr = Some s' -> closing s = true -> closing s' = true.
Proof.
  induction tr as [|x r IH]; intros s s' H Hc; simpl in H.
  - inversion H; subst; auto.
  - destruct (step s x) as [m|] eqn:Hs; [|discriminate]. eauto using step_cs_monotone.
Qed.

(* ------------------------------------------------------------------ *)
(* the invariant (Appendix A6: I1, I2, I3)                              *)
(* ------------------------------------------------------------------ *)

Record Inv (s : state) : Prop := {
  inv_nopanic : panicked s = false;
  inv_wg : wg s = count_live (conns s);                                  (* I1 *)
  inv_late : Forall (fun cn => late cn = true -> closing s = true /\ quiet (ph cn) = true) (conns s);
  inv_ret : cs s = Returned -> Forall (fun cn => quiet (ph cn) = true) (conns s)  (* I2/I3 *)
}.

Lemma inv_init : Inv init.
Proof. constructor; simpl; auto; try discriminate. Qed.

(* per-connection facts about cstep, by exhaustive case analysis *)
Ltac cstep_cases H :=
  match type of H with
  | cstep ?cl ?lk ?p ?k = Some ?p' =>
      destruct k, p; simpl in H; try discriminate H;
      repeat match type of H with
             | context[if ?b then _ else _] => destruct b eqn:?
             end; try discriminate H;
      inversion H; subst; clear H
  end.

Lemma cstep_live cl lk p k p' :
  cstep cl lk p k = Some p' ->
  b2n (live p') + match k with Done => 1 | _ => 0 end
  = b2n (live p) + match k with Register => 1 | _ => 0 end.
Proof. intros H. cstep_cases H; reflexivity. Qed.

Lemma cstep_quiet_closing lk p k p' :
  cstep true lk p k = Some p' -> quiet p = true -> quiet p' = true.
Proof. intros H Hq. cstep_cases H; simpl in *; auto; discriminate. Qed.

Lemma cstep_done_live cl lk p p' : cstep cl lk p Done = Some p' -> live p = true.
Proof. destruct p; simpl; try discriminate. reflexivity. Qed.

Lemma inv_step s l s' : Inv s -> step s l = Some s' -> Inv s'.
Proof.
  intros [Hp Hw Hl Hr] Hs. destruct l.
  - (* Accept *)
    unfold step in Hs. destruct (Nat.eqb c (length (conns s))); [|discriminate].
    inversion Hs; subst; clear Hs. constructor; simpl; auto.
    + rewrite count_live_app. unfold count_live at 2. simpl. lia.
    + apply Forall_app. split; [exact Hl|]. constructor; [|constructor]. simpl. intros Hc. auto.
    + intros Hc. apply Forall_app. split; auto.
  - (* Conn *)
    pose proof Hs as Hs0.
    apply step_conn_inv in Hs as (cn & p' & Hn & Hc & Hcs' & Hcs & Hwg & Hpn).
    assert (Hcount := count_live_upd _ _ _ (mkConn p' (late cn)) Hn). simpl in Hcount.
    assert (Hlive := cstep_live _ _ _ _ _ Hc).
    constructor.
    + rewrite Hpn. destruct k; auto. rewrite Hp. simpl.
      apply cstep_done_live in Hc. pose proof (count_live_pos _ _ _ Hn Hc). 
      destruct (wg s) eqn:E; [lia|reflexivity].
    + rewrite Hwg, Hcs'. destruct k; simpl in Hlive; try lia.
    + rewrite Hcs'. apply Forall_upd.
      * eapply Forall_impl; [|exact Hl]. simpl. intros a Ha Hla. destruct (Ha Hla) as [Hx Hy].
        split; auto. eapply step_cs_monotone; eauto.
      * simpl. intros Hla. pose proof (Forall_nth _ _ _ _ Hl Hn Hla) as [Hx Hy]. split.
        -- eapply step_cs_monotone; eauto.
        -- rewrite Hx in Hc. eapply cstep_quiet_closing; eauto.
    + rewrite Hcs, Hcs'. intros Hret. specialize (Hr Hret). apply Forall_upd; auto. simpl.
      assert (closing s = true) by (unfold closing; rewrite Hret; reflexivity).
      rewrite H in Hc. eapply cstep_quiet_closing; eauto. exact (Forall_nth _ _ _ _ Hr Hn).
  - unfold step in Hs. destruct (cs s) eqn:E; try discriminate. inversion Hs; subst; clear Hs.
    constructor; simpl; auto; try discriminate.
    eapply Forall_impl; [|exact Hl]. simpl. intros a Ha Hla. destruct (Ha Hla) as [Hx _].
    unfold closing in Hx. rewrite E in Hx. discriminate.
  - unfold step in Hs. destruct (cs s) eqn:E; try discriminate. inversion Hs; subst; clear Hs.
    constructor; simpl; auto; try discriminate.
    eapply Forall_impl; [|exact Hl]. simpl. intros a Ha Hla. destruct (Ha Hla) as [Hx Hy]. split; [try reflexivity; try exact Hx|exact Hy].
  - unfold step in Hs. destruct (cs s) eqn:E; try discriminate. inversion Hs; subst; clear Hs.
    constructor; simpl; auto; try discriminate.
    eapply Forall_impl; [|exact Hl]. simpl. intros a Ha Hla. destruct (Ha Hla) as [Hx Hy]. split; [try reflexivity; try exact Hx|exact Hy].
  - unfold step in Hs. assert (s' = s) by (destruct (closing s); congruence). subst.
    constructor; auto.
  - unfold step in Hs. destruct (cs s) eqn:E; try discriminate.
    destruct (Nat.eqb (wg s) 0) eqn:E0; [|discriminate]. inversion Hs; subst; clear Hs.
    apply Nat.eqb_eq in E0.
    constructor; simpl; auto.
    + eapply Forall_impl; [|exact Hl]. simpl. intros a Ha Hla. destruct (Ha Hla) as [Hx Hy]. split; [try reflexivity; try exact Hx|exact Hy].
    + intros _. rewrite Hw in E0. apply count_live_zero in E0.
      eapply Forall_impl; [|exact E0]. simpl. intros a Ha. destruct (ph a); simpl in *; congruence.
Qed.

Lemma inv_run tr : forall s s', Inv s -> run s tr = Some s' -> Inv s'.
Proof.
  induction tr as [|x r IH]; intros s s' Hi H; simpl in H.
  - inversion H; subst; auto.
  - destruct (step s x) as [m|] eqn:Hs; [|discriminate]. eauto using inv_step.
Qed.

Lemma inv_reachable s : reachable s -> Inv s.
Proof. intros [tr H]. eapply inv_run; eauto using inv_init. Qed.

(* ------------------------------------------------------------------ *)
(* state-level theorems                                                 *)
(* ------------------------------------------------------------------ *)

(* the socket is closed only from a phase in which no exchange is in flight *)
Lemma sockclose_only_when_no_exchange s c s' :
  step s (Conn c SockClose) = Some s' ->
  exists cn, nth_error (conns s) c = Some cn /\
    (ph cn = Written \/ ph cn = Broken \/ ph cn = Tunnel \/
     (closing s = true /\ (ph cn = Registered \/ ph cn = Idle \/ ph cn = HeadPartial))).
Proof.
  intros H. apply step_conn_inv in H as (cn & p' & Hn & Hc & _).
  exists cn. split; auto.
  destruct (ph cn); simpl in Hc; try discriminate; auto;
    destruct (closing s); try discriminate; auto 8.
Qed.

(* line 525: a response decided while closing is visible is marked *)
Lemma decide_marks_when_closing s c s' :
  step s (Conn c Decide) = Some s' ->
  exists cn, nth_error (conns s') c = Some cn /\ ph cn = Decided (closing s).
Proof.
  intros H. apply step_conn_inv in H as (cn & p' & Hn & Hc & Hcs & _).
  destruct (ph cn); simpl in Hc; try discriminate. inversion Hc; subst.
  eexists. rewrite Hcs. split; [apply nth_upd_same|reflexivity].
  apply nth_error_Some. congruence.
Qed.

(* after a marked response the only thing the connection can do is close *)
Lemma written_only_closes s c cn k s' :
  nth_error (conns s) c = Some cn -> ph cn = Written ->
  step s (Conn c k) = Some s' -> k = SockClose \/ k = CliGone.
Proof.
  intros Hn Hp H. apply step_conn_inv in H as (cn' & p' & Hn' & Hc & _).
  rewrite Hn in Hn'. inversion Hn'; subst. rewrite Hp in Hc.
  destruct k; repeat match goal with b : bool |- _ => destruct b end;
    simpl in Hc; try discriminate; auto.
Qed.

Lemma quiet_no_reqmod s c cn :
  nth_error (conns s) c = Some cn -> quiet (ph cn) = true ->
  step s (Conn c ReqModStart) = None.
Proof.
  intros Hn Hq. unfold step. rewrite Hn.
  destruct (ph cn); simpl in *; try discriminate; reflexivity.
Qed.

Lemma no_reqmod_after_return s c :
  reachable s -> cs s = Returned -> step s (Conn c ReqModStart) = None.
Proof.
  intros Hr Hc. apply inv_reachable in Hr. destruct Hr as [_ _ _ Hret].
  destruct (nth_error (conns s) c) as [cn|] eqn:Hn.
  - eapply quiet_no_reqmod; eauto. exact (Forall_nth _ _ _ _ (Hret Hc) Hn).
  - unfold step. rewrite Hn. reflexivity.
Qed.

(* at the moment Close returns every connection is either finished or has
   not yet been registered *)
Lemma return_after_registered_closed s s' :
  reachable s -> step s CloseReturn = Some s' ->
  Forall (fun cn => ph cn = Finished \/ ph cn = Accepted) (conns s).
Proof.
  intros Hr H. apply inv_reachable in Hr. destruct Hr as [_ Hw _ _].
  unfold step in H. destruct (cs s); try discriminate.
  destruct (Nat.eqb (wg s) 0) eqn:E; [|discriminate]. apply Nat.eqb_eq in E.
  rewrite Hw in E. apply count_live_zero in E.
  eapply Forall_impl; [|exact E]. simpl. intros a Ha.
  destruct (ph a); simpl in Ha; try discriminate; auto.
Qed.

Lemma return_after_accepted_closed_partial s s' :
  reachable s -> step s CloseReturn = Some s' ->
  Forall (fun cn => ph cn <> Accepted) (conns s) ->
  Forall (fun cn => ph cn = Finished) (conns s).
Proof.
  intros Hr H Hna. pose proof (return_after_registered_closed _ _ Hr H) as HF.
  rewrite Forall_forall in *. intros x Hx. destruct (HF x Hx) as [E|E]; auto.
  exfalso. exact (Hna x Hx E).
Qed.

Lemma late_conn_flagged s c s' :
  step s (Accept c) = Some s' ->
  nth_error (conns s') c = Some (mkConn Accepted (closing s)).
Proof.
  unfold step. destruct (Nat.eqb c (length (conns s))) eqn:E; [|discriminate].
  apply Nat.eqb_eq in E. intros H; inversion H; subst; simpl.
  rewrite nth_error_app2 by lia. rewrite Nat.sub_diag. reflexivity.
Qed.

Lemma late_never_served s c cn :
  reachable s -> nth_error (conns s) c = Some cn -> late cn = true ->
  quiet (ph cn) = true /\ step s (Conn c ReqModStart) = None.
Proof.
  intros Hr Hn Hl. apply inv_reachable in Hr. destruct Hr as [_ _ Hlate _].
  destruct (Forall_nth _ _ _ _ Hlate Hn Hl) as [_ Hq]. split; auto.
  eapply quiet_no_reqmod; eauto.
Qed.

Lemma late_is_stable s l s' c cn :
  step s l = Some s' -> nth_error (conns s) c = Some cn ->
  exists cn', nth_error (conns s') c = Some cn' /\ late cn' = late cn.
Proof.
  intros H Hn. destruct l.
  - unfold step in H. destruct (Nat.eqb _ _); [|discriminate]. inversion H; subst; simpl.
    exists cn. split; auto. rewrite nth_error_app1; auto. apply nth_error_Some. congruence.
  - apply step_conn_inv in H as (cn0 & p' & Hn0 & _ & Hcs & _). rewrite Hcs.
    destruct (Nat.eq_dec c0 c) as [->|Hne].
    + rewrite Hn in Hn0. inversion Hn0; subst. eexists. split.
      * apply nth_upd_same. apply nth_error_Some. congruence.
      * reflexivity.
    + exists cn. rewrite nth_upd_other; auto.
  - unfold step in H. destruct (cs s); try discriminate; inversion H; subst; simpl; eauto.
  - unfold step in H. destruct (cs s); try discriminate; inversion H; subst; simpl; eauto.
  - unfold step in H. destruct (cs s); try discriminate; inversion H; subst; simpl; eauto.
  - unfold step in H. destruct (closing s); try discriminate; inversion H; subst; simpl; eauto.
  - unfold step in H. destruct (cs s); try discriminate. destruct (Nat.eqb _ _); try discriminate.
    inversion H; subst; simpl; eauto.
Qed.

Lemma no_panic s : reachable s -> panicked s = false.
Proof. intros Hr. apply inv_reachable in Hr. apply Hr. Qed.

(* ------------------------------------------------------------------ *)
(* progress: quiescent states are good states                           *)
(* ------------------------------------------------------------------ *)

Lemma conn_can_progress s c cn :
  nth_error (conns s) c = Some cn -> closing s = true ->
  ph cn <> Finished -> (ph cn = Accepted -> cs s <> Locked) ->
  exists k s', progress_label (Conn c k) = true /\ step s (Conn c k) = Some s'.
Proof.
  intros Hn Hc Hf Ha.
  assert (forall k p', cstep (closing s) (locked_of (cs s)) (ph cn) k = Some p' ->
            exists s', step s (Conn c k) = Some s') as Hstep.
  { intros k p' Hk. unfold step. rewrite Hn, Hk. destruct k; eauto. }
  rewrite Hc in Hstep.
  destruct (ph cn) eqn:Hp.
  - assert (locked_of (cs s) = false) as Hl
      by (destruct (cs s); auto; exfalso; apply Ha; auto).
    rewrite Hl in Hstep. destruct (Hstep Register Registered eq_refl) as [s' Hs'].
    exists Register, s'. auto.
  - destruct (Hstep SockClose SockClosed eq_refl) as [s' Hs']. exists SockClose, s'. auto.
  - destruct (Hstep SockClose SockClosed eq_refl) as [s' Hs']. exists SockClose, s'. auto.
  - destruct (Hstep SockClose SockClosed eq_refl) as [s' Hs']. exists SockClose, s'. auto.
  - destruct (Hstep RTStart InRoundTrip eq_refl) as [s' Hs']. exists RTStart, s'. auto.
  - destruct (Hstep ResModStart InResMod eq_refl) as [s' Hs']. exists ResModStart, s'. auto.
  - destruct (Hstep ResModEnd PreDecide eq_refl) as [s' Hs']. exists ResModEnd, s'. auto.
  - destruct (Hstep Decide (Decided true) eq_refl) as [s' Hs']. exists Decide, s'. auto.
  - assert (cstep true (locked_of (cs s)) (Decided m) (WriteHead m) = Some (Writing m)) as E
      by (destruct m; reflexivity).
    destruct (Hstep _ _ E) as [s' Hs']. exists (WriteHead m), s'. auto.
  - destruct (Hstep WriteDone (if m then Written else Idle) eq_refl) as [s' Hs'].
    exists WriteDone, s'. auto.
  - destruct (Hstep SockClose SockClosed eq_refl) as [s' Hs']. exists SockClose, s'. auto.
  - destruct (Hstep Done Finished eq_refl) as [s' Hs']. exists Done, s'. auto.
  - congruence.
  - destruct (Hstep SockClose SockClosed eq_refl) as [s' Hs']. exists SockClose, s'. auto.
  - destruct (Hstep (WriteHead false) CWriting eq_refl) as [s' Hs']. exists (WriteHead false), s'. auto.
  - destruct (Hstep WriteDone Tunnel eq_refl) as [s' Hs']. exists WriteDone, s'. auto.
  - destruct (Hstep SockClose SockClosed eq_refl) as [s' Hs']. exists SockClose, s'. auto.
Qed.

Lemma no_deadlock s :
  reachable s -> cs s <> NotCalled ->
  (forall l, progress_label l = true -> step s l = None) ->
  cs s = Returned /\ Forall (fun cn => ph cn = Finished) (conns s).
Proof.
  intros Hr Hnc Hq. apply inv_reachable in Hr. destruct Hr as [_ Hw _ _].
  destruct (cs s) eqn:Ecs; try congruence.
  - specialize (Hq CloseSignal eq_refl). unfold step in Hq. rewrite Ecs in Hq. discriminate.
  - specialize (Hq CloseLock eq_refl). unfold step in Hq. rewrite Ecs in Hq. discriminate.
  - exfalso.
    assert (Forall (fun cn => live (ph cn) = false) (conns s)) as Hdead.
    { apply Forall_from_nth. intros n x Hn.
      destruct (live (ph x)) eqn:El; auto. exfalso.
      destruct (conn_can_progress s n x Hn) as (k & s' & Hpl & Hs').
      - unfold closing. rewrite Ecs. reflexivity.
      - intros E. rewrite E in El. discriminate.
      - intros E. rewrite E in El. discriminate.
      - rewrite (Hq _ Hpl) in Hs'. discriminate. }
    apply count_live_all_dead in Hdead.
    specialize (Hq CloseReturn eq_refl). unfold step in Hq. rewrite Ecs, Hw, Hdead in Hq.
    discriminate.
  - split; auto. apply Forall_from_nth. intros n x Hn.
    destruct (phase_eqb (ph x) Finished) eqn:E.
    + destruct (ph x); simpl in E; try discriminate; reflexivity.
    + exfalso. destruct (conn_can_progress s n x Hn) as (k & s' & Hpl & Hs').
      * unfold closing. rewrite Ecs. reflexivity.
      * intros E'. rewrite E' in E. discriminate.
      * intros _. rewrite Ecs. discriminate.
      * rewrite (Hq _ Hpl) in Hs'. discriminate.
Qed.

(* progress steps terminate: a measure strictly decreases *)
Lemma list_sum_upd l : forall n (old new : conn),
  nth_error l n = Some old ->
  list_sum (map (fun cn => phase_rank (ph cn)) (upd n new l)) + phase_rank (ph old)
  = list_sum (map (fun cn => phase_rank (ph cn)) l) + phase_rank (ph new).
Proof.
  induction l as [|h t IH]; intros [|n] old new H; simpl in H; try discriminate.
  - inversion H; subst. simpl. lia.
  - simpl. specialize (IH _ _ new H). lia.
Qed.

Lemma cstep_rank cl lk p k p' :
  cstep cl lk p k = Some p' -> progress_label (Conn 0 k) = true -> phase_rank p' < phase_rank p.
Proof. intros H Hp. cstep_cases H; simpl in *; try discriminate; lia. Qed.

Lemma progress_decreases s l s' :
  step s l = Some s' -> progress_label l = true -> measure s' < measure s.
Proof.
  intros H Hp. unfold measure. destruct l; simpl in Hp; try discriminate.
  - pose proof H as H0. apply step_conn_inv in H as (cn & p' & Hn & Hc & Hcs' & Hcs & _).
    rewrite Hcs, Hcs'.
    pose proof (list_sum_upd _ _ _ (mkConn p' (late cn)) Hn) as Hsum. simpl in Hsum.
    assert (phase_rank p' < phase_rank (ph cn)).
    { eapply cstep_rank; eauto. }
    lia.
  - unfold step in H. destruct (cs s); try discriminate; inversion H; subst; simpl; lia.
  - unfold step in H. destruct (cs s); try discriminate; inversion H; subst; simpl; lia.
  - unfold step in H. destruct (cs s); try discriminate. destruct (Nat.eqb _ _); try discriminate.
    inversion H; subst; simpl; lia.
Qed.

(* D36: the model admits Close returning while an accepted connection is
   neither registered nor closed *)
Lemma d36_runs : exists s, run init d36_witness = Some s.
Proof. eexists. vm_compute. reflexivity. Qed.

Lemma d36_refutes : ok_return_after_accepted_closed d36_witness = false.
Proof. vm_compute. reflexivity. Qed.

Lemma d36_safe : c07_safe_ok d36_witness = true.
Proof. vm_compute. reflexivity. Qed.
