(* C07 — shutdown completes in-flight exchanges, refuses new ones and closes
   everything.

   Definitions only.  A labelled transition system of martian.Proxy's
   connection life cycle around Close (proxy.go: Serve, handleLoop,
   readRequest, handle lines 524-529, Close), the executable trace acceptor
   used for the correspondence with the real code, and the property oracle.

   Global state
     cs        where the (single) call of Proxy.Close is:
                 NotCalled -> Called -> Signalled (close(p.closing) done)
                 -> Locked (connsMu held, inside conns.Wait) -> Returned
     wg        the sync.WaitGroup counter p.conns
     panicked  Go would have panicked (negative WaitGroup counter)
   Per connection (index = order of Accept)
     phase     Accepted      returned by l.Accept, `go handleLoop` not yet at conns.Add(1)
               Registered    conns.Add(1) done (under connsMu), before `if p.Closing()`
               Idle          in readRequest's select, nothing of a request read
               HeadPartial   same select, the reader goroutine holds part of a request head
               InReqMod      p.reqmod.ModifyRequest running        (handle line 494)
               InRoundTrip   p.roundTrip running                    (line 503)
               InResMod      p.resmod.ModifyResponse running        (line 515)
               PreDecide     resmod returned, line 525 not yet evaluated
               Decided m     line 525 evaluated: m = response marked Connection: close
               Writing m     first bytes of the response handed to the socket
               Written       a marked response completely written (handle returns errClose)
               Broken        a write of the response failed (client gone): handle returns errClose
               CDecided      CONNECT exchange (handleConnectRequest): the response modifier returned; there is
                             no close decision on this path: whether the head carries Connection: close does
                             not depend on shutdown (Go marks the length-less 200 of a blind tunnel, not the
                             MITM 200 nor the 502)
               CWriting      first bytes of the CONNECT response handed to the socket
               Tunnel        CONNECT response written: bytes are relayed (blind tunnel), or the proxy waits
                             for the TLS hello (MITM), or for the next request (after a 502); the handler
                             leaves this phase by closing the connection
               SockClosed    deferred conn.Close() done
               Finished      deferred conns.Done() done
     late      ghost: the connection was accepted when closing was already signalled

   The harness requests never carry Connection: close and the upstream never
   answers with it, so at line 525 the mark is exactly p.Closing(). *)

From Coq Require Import List Arith Bool.
Import ListNotations.

Inductive phase :=
| Accepted | Registered | Idle | HeadPartial
| InReqMod | InRoundTrip | InResMod | PreDecide
| Decided (m : bool) | Writing (m : bool) | Written
| SockClosed | Finished | Broken
| CDecided | CWriting | Tunnel.

Inductive cstate := NotCalled | Called | Signalled | Locked | Returned.

Record conn := mkConn { ph : phase; late : bool }.

Record state := mkState {
  cs : cstate;
  wg : nat;
  panicked : bool;
  conns : list conn
}.

(* Per-connection labels.  Hidden (not observable from outside the proxy):
   Register, Enter, Decide, Done. *)
Inductive clabel :=
| Register            (* connsMu.Lock; conns.Add(1); connsMu.Unlock *)
| Enter               (* `if p.Closing()` at handleLoop:238 saw false *)
| HeadPart            (* client sent part of a request head *)
| ReqModStart         (* request read, select picked reqc, reqmod entered *)
| RTStart             (* reqmod returned, round trip entered *)
| ResModStart         (* round trip returned, resmod entered *)
| ResModEnd           (* resmod about to return *)
| Decide              (* line 525 *)
| WriteHead (m : bool)(* first Write on the client socket for this response *)
| WriteDone           (* last byte of the response written *)
| SockClose           (* conn.Close() of handleLoop's defer *)
| Done                (* conns.Done() *)
| RTEnd (ok : bool)   (* observation: the round trip is returning a response / an error (-> 502 + Warning) *)
| RespStatus (f : bool)(* observation: the head about to be written is the synthesized 502 (f) or not *)
| WriteFail           (* a socket write of the response returned an error *)
| CliGone             (* observation: the client closed its side *)
| CResModEnd          (* resmod about to return for a CONNECT exchange (handleConnectRequest) *)
| RTBroken.           (* observation: the round trip towards a REACHABLE origin failed (or did not
                         deliver the complete request body): the client will get a proxy-made 502
                         in place of the origin's response *)

Inductive label :=
| Accept (c : nat)
| Conn (c : nat) (k : clabel)
| CloseCall          (* the harness calls p.Close() *)
| CloseSignal        (* close(p.closing)              hidden *)
| CloseLock          (* p.connsMu.Lock() in Close     hidden *)
| ClosingSeen        (* the harness saw p.Closing() = true *)
| CloseReturn.       (* p.Close() returned *)

Definition closing_of (c : cstate) : bool :=
  match c with Signalled | Locked | Returned => true | _ => false end.
Definition locked_of (c : cstate) : bool :=
  match c with Locked => true | _ => false end.

Definition closing (s : state) : bool := closing_of (cs s).

(* One connection's step: [cl] = closing is signalled, [lk] = Close holds connsMu. *)
Definition cstep (cl lk : bool) (p : phase) (k : clabel) : option phase :=
  match k, p with
  | Register, Accepted => if lk then None else Some Registered
  | Enter, Registered => if cl then None else Some Idle
  | HeadPart, Idle => Some HeadPartial
  | ReqModStart, Idle => Some InReqMod          (* Go select: enabled even when closing *)
  | ReqModStart, HeadPartial => Some InReqMod
  | RTStart, InReqMod => Some InRoundTrip
  | ResModStart, InRoundTrip => Some InResMod
  | ResModStart, InReqMod => Some InResMod      (* ctx.SkipRoundTrip(): the round tripper is not called *)
  | RTEnd _, InRoundTrip => Some InRoundTrip
  | RTBroken, InRoundTrip => Some InRoundTrip
  | RespStatus _, Decided m => Some (Decided m)
  | WriteFail, Writing _ => Some Broken
  | SockClose, Broken => Some SockClosed
  | CResModEnd, InResMod => Some CDecided
  | RespStatus _, CDecided => Some CDecided
  | WriteHead _, CDecided => Some CWriting
  | WriteDone, CWriting => Some Tunnel
  | WriteFail, CWriting => Some Broken
  | SockClose, Tunnel => Some SockClosed
  | CliGone, p => Some p
  | ResModEnd, InResMod => Some PreDecide
  | Decide, PreDecide => Some (Decided cl)
  | WriteHead m, Decided m' => if Bool.eqb m m' then Some (Writing m) else None
  | WriteDone, Writing m => Some (if m then Written else Idle)
  | SockClose, Registered => if cl then Some SockClosed else None   (* early exit, line 238 *)
  | SockClose, Idle => if cl then Some SockClosed else None         (* select picked <-p.closing *)
  | SockClose, HeadPartial => if cl then Some SockClosed else None
  | SockClose, Written => Some SockClosed                           (* errClose after a marked response *)
  | Done, SockClosed => Some Finished
  | _, _ => None
  end.

Fixpoint upd {A} (n : nat) (x : A) (l : list A) : list A :=
  match l, n with
  | [], _ => []
  | _ :: t, O => x :: t
  | h :: t, S n' => h :: upd n' x t
  end.

Definition step (s : state) (l : label) : option state :=
  match l with
  | Accept c =>
      if Nat.eqb c (length (conns s))
      then Some (mkState (cs s) (wg s) (panicked s) (conns s ++ [mkConn Accepted (closing s)]))
      else None
  | Conn c k =>
      match nth_error (conns s) c with
      | None => None
      | Some cn =>
          match cstep (closing s) (locked_of (cs s)) (ph cn) k with
          | None => None
          | Some p' =>
              let cns := upd c (mkConn p' (late cn)) (conns s) in
              match k with
              | Register => Some (mkState (cs s) (S (wg s)) (panicked s) cns)
              | Done => Some (mkState (cs s) (pred (wg s))
                                      (orb (panicked s) (Nat.eqb (wg s) 0)) cns)
              | _ => Some (mkState (cs s) (wg s) (panicked s) cns)
              end
          end
      end
  | CloseCall =>
      match cs s with NotCalled => Some (mkState Called (wg s) (panicked s) (conns s)) | _ => None end
  | CloseSignal =>
      match cs s with Called => Some (mkState Signalled (wg s) (panicked s) (conns s)) | _ => None end
  | CloseLock =>
      match cs s with Signalled => Some (mkState Locked (wg s) (panicked s) (conns s)) | _ => None end
  | ClosingSeen => if closing s then Some s else None
  | CloseReturn =>
      match cs s with
      | Locked => if Nat.eqb (wg s) 0 then Some (mkState Returned (wg s) (panicked s) (conns s)) else None
      | _ => None
      end
  end.

Definition init : state := mkState NotCalled 0 false [].

Fixpoint run (s : state) (tr : list label) : option state :=
  match tr with
  | [] => Some s
  | l :: r => match step s l with Some s' => run s' r | None => None end
  end.

(* ------------------------------------------------------------------ *)
(* Trace acceptor with hidden steps                                    *)
(* ------------------------------------------------------------------ *)

Definition is_obs (l : label) : bool :=
  match l with
  | Conn _ Register | Conn _ Enter | Conn _ Decide | Conn _ Done
  | CloseSignal | CloseLock => false
  | _ => true
  end.

Definition phase_eqb (a b : phase) : bool :=
  match a, b with
  | Accepted, Accepted | Registered, Registered | Idle, Idle | HeadPartial, HeadPartial
  | InReqMod, InReqMod | InRoundTrip, InRoundTrip | InResMod, InResMod | PreDecide, PreDecide
  | Written, Written | SockClosed, SockClosed | Finished, Finished | Broken, Broken
  | CDecided, CDecided | CWriting, CWriting | Tunnel, Tunnel => true
  | Decided m, Decided m' => Bool.eqb m m'
  | Writing m, Writing m' => Bool.eqb m m'
  | _, _ => false
  end.

Definition cstate_eqb (a b : cstate) : bool :=
  match a, b with
  | NotCalled, NotCalled | Called, Called | Signalled, Signalled
  | Locked, Locked | Returned, Returned => true
  | _, _ => false
  end.

Definition conn_eqb (a b : conn) : bool :=
  phase_eqb (ph a) (ph b) && Bool.eqb (late a) (late b).

Fixpoint list_eqb {A} (e : A -> A -> bool) (a b : list A) : bool :=
  match a, b with
  | [], [] => true
  | x :: a', y :: b' => e x y && list_eqb e a' b'
  | _, _ => false
  end.

Definition state_eqb (a b : state) : bool :=
  cstate_eqb (cs a) (cs b) && Nat.eqb (wg a) (wg b) && Bool.eqb (panicked a) (panicked b)
  && list_eqb conn_eqb (conns a) (conns b).

Fixpoint dedup (l : list state) : list state :=
  match l with
  | [] => []
  | x :: r => x :: filter (fun y => negb (state_eqb x y)) (dedup r)
  end.

Definition hidden_cands (s : state) : list label :=
  CloseSignal :: CloseLock ::
  flat_map (fun c => [Conn c Register; Conn c Enter; Conn c Decide; Conn c Done])
           (seq 0 (length (conns s))).

Fixpoint filter_map {A B} (f : A -> option B) (l : list A) : list B :=
  match l with
  | [] => []
  | x :: r => match f x with Some y => y :: filter_map f r | None => filter_map f r end
  end.

(* append the states of [ns] that are not yet in [acc] *)
Fixpoint add_new (acc ns : list state) : list state :=
  match ns with
  | [] => acc
  | n :: r => if existsb (state_eqb n) acc then add_new acc r else add_new (acc ++ [n]) r
  end.

Definition tau1 (ss : list state) : list state :=
  add_new ss (flat_map (fun s => filter_map (step s) (hidden_cands s)) ss).

Fixpoint tau (fuel : nat) (ss : list state) : list state :=
  match fuel with
  | O => ss
  | S f =>
      let ss' := tau1 ss in
      if Nat.eqb (length ss') (length ss) then ss else tau f ss'
  end.

Definition isnil {A} (l : list A) : bool := match l with [] => true | _ => false end.

Fixpoint accepts_from (fuel : nat) (ss : list state) (tr : list label) : bool :=
  match tr with
  | [] => negb (isnil ss)
  | l :: r =>
      let ss' := dedup (filter_map (fun s => step s l) (tau fuel ss)) in
      if isnil ss' then false else accepts_from fuel ss' r
  end.

(* fuel: every hidden step strictly decreases [measure] (below), which is at
   most 4 + 13 * number of connections, and a trace contains one Accept per
   connection; theorem C07_acceptor_complete shows this fuel always suffices
   (the closure normally stops much earlier, when it adds nothing new) *)
Definition accepts (tr : list label) : bool :=
  accepts_from (13 * length tr + 4) [init] tr.

(* index of the first label of [tr] at which no model execution can follow
   (for the DISAGREE message) *)
Fixpoint reject_at (fuel : nat) (ss : list state) (tr : list label) (i : nat) : option nat :=
  match tr with
  | [] => None
  | l :: r =>
      let ss' := dedup (filter_map (fun s => step s l) (tau fuel ss)) in
      if isnil ss' then Some i else reject_at fuel ss' r (S i)
  end.
Definition rejected_at (tr : list label) : option nat :=
  reject_at (13 * length tr + 4) [init] tr 0.

(* ------------------------------------------------------------------ *)
(* Generic temporal patterns over a trace                              *)
(* ------------------------------------------------------------------ *)

(* no x ... y with bad x y *)
Fixpoint no_pair {A} (bad : A -> A -> bool) (tr : list A) : bool :=
  match tr with
  | [] => true
  | x :: r => forallb (fun y => negb (bad x y)) r && no_pair bad r
  end.

(* no x ... y ... z with bad x y z *)
Fixpoint no_triple {A} (bad : A -> A -> A -> bool) (tr : list A) : bool :=
  match tr with
  | [] => true
  | x :: r => no_pair (bad x) r && no_triple bad r
  end.

(* scanning what follows x: a trigger must not come before a response *)
Fixpoint resp_before_trig {A} (trig resp : A -> bool) (r : list A) : bool :=
  match r with
  | [] => true
  | z :: r' => if trig z then false else if resp z then true else resp_before_trig trig resp r'
  end.

(* every x ... y with trig x y has a z strictly between them with resp x z *)
Fixpoint all_between {A} (trig resp : A -> A -> bool) (tr : list A) : bool :=
  match tr with
  | [] => true
  | x :: r => resp_before_trig (trig x) (resp x) r && all_between trig resp r
  end.

(* every x with p x is followed by some z with q x z *)
Fixpoint all_followed {A} (p : A -> bool) (q : A -> A -> bool) (tr : list A) : bool :=
  match tr with
  | [] => true
  | x :: r => (negb (p x) || existsb (q x) r) && all_followed p q r
  end.

(* ------------------------------------------------------------------ *)
(* The property oracle, clause by clause                               *)
(* ------------------------------------------------------------------ *)

Definition is_conn (c : nat) (k : clabel) (l : label) : bool :=
  match l with
  | Conn c' k' =>
      Nat.eqb c c' &&
      match k, k' with
      | Register, Register | Enter, Enter | HeadPart, HeadPart | ReqModStart, ReqModStart
      | RTStart, RTStart | ResModStart, ResModStart | ResModEnd, ResModEnd | Decide, Decide
      | WriteDone, WriteDone | SockClose, SockClose | Done, Done
      | WriteFail, WriteFail | CliGone, CliGone | RTBroken, RTBroken
      | CResModEnd, CResModEnd => true
      | WriteHead m, WriteHead m' => Bool.eqb m m'
      | RTEnd m, RTEnd m' => Bool.eqb m m'
      | RespStatus m, RespStatus m' => Bool.eqb m m'
      | _, _ => false
      end
  | _ => false
  end.

(* S1: an exchange whose request modifier started is completely written
   before its connection is closed *)
Definition s1_trig (x y : label) : bool :=
  match x with Conn c ReqModStart => is_conn c SockClose y | _ => false end.
Definition s1_resp (x z : label) : bool :=
  match x with
  | Conn c ReqModStart => is_conn c WriteDone z || is_conn c WriteFail z
  | _ => false
  end.
Definition ok_inflight (tr : list label) : bool := all_between s1_trig s1_resp tr.

(* S2: closing seen before the response modifier returned => response marked *)
Definition s2_bad (x y z : label) : bool :=
  match x, y with
  | ClosingSeen, Conn c ResModEnd => is_conn c (WriteHead false) z
  | _, _ => false
  end.
Definition ok_marked (tr : list label) : bool := no_triple s2_bad tr.

(* S3: nothing is served on a connection after a marked response *)
Definition s3_bad (x y : label) : bool :=
  match x with Conn c (WriteHead true) => is_conn c ReqModStart y | _ => false end.
Definition ok_marked_last (tr : list label) : bool := no_pair s3_bad tr.

(* S4: no request modifier starts after Close returned *)
Definition s4_bad (x y : label) : bool :=
  match x, y with CloseReturn, Conn _ ReqModStart => true | _, _ => false end.
Definition ok_no_reqmod_after_return (tr : list label) : bool := no_pair s4_bad tr.

(* S5: a connection accepted after closing was seen is never served *)
Definition s5_bad (x y z : label) : bool :=
  match x, y with
  | ClosingSeen, Accept c => is_conn c ReqModStart z
  | _, _ => false
  end.
Definition ok_late_not_served (tr : list label) : bool := no_triple s5_bad tr.

(* S6: Close returns only after every accepted connection was closed *)
Definition s6_trig (x y : label) : bool :=
  match x, y with Accept _, CloseReturn => true | _, _ => false end.
Definition s6_resp (x z : label) : bool :=
  match x with Accept c => is_conn c SockClose z | _ => false end.
Definition ok_return_after_accepted_closed (tr : list label) : bool :=
  all_between s6_trig s6_resp tr.

(* S6r: the same for registered connections (Register is hidden: this
   clause is about model executions, not observable on the real code) *)
Definition s6r_trig (x y : label) : bool :=
  match x, y with Conn _ Register, CloseReturn => true | _, _ => false end.
Definition s6r_resp (x z : label) : bool :=
  match x with Conn c Register => is_conn c SockClose z | _ => false end.
Definition ok_return_after_registered_closed (tr : list label) : bool :=
  all_between s6r_trig s6r_resp tr.

(* S7: the observable form of S6r: a connection on which a request modifier
   has started is certainly registered, so Close returns only after it was
   closed *)
Definition s7_trig (x y : label) : bool :=
  match x, y with Conn _ ReqModStart, CloseReturn => true | _, _ => false end.
Definition s7_resp (x z : label) : bool :=
  match x with Conn c ReqModStart => is_conn c SockClose z | _ => false end.
Definition ok_return_after_served_closed (tr : list label) : bool :=
  all_between s7_trig s7_resp tr.

(* Quiescence clauses: evaluated on complete runs (the harness waits until
   nothing moves any more) *)
Definition is_accept (l : label) : bool := match l with Accept _ => true | _ => false end.
Definition l1_q (x z : label) : bool :=
  match x with Accept c => is_conn c SockClose z | _ => false end.
Definition ok_all_closed (tr : list label) : bool := all_followed is_accept l1_q tr.

Definition is_closecall (l : label) : bool := match l with CloseCall => true | _ => false end.
Definition l2_q (x z : label) : bool := match z with CloseReturn => true | _ => false end.
Definition ok_close_returns (tr : list label) : bool := all_followed is_closecall l2_q tr.

Definition is_reqmod (l : label) : bool :=
  match l with Conn _ ReqModStart => true | _ => false end.
Definition l3_q (x z : label) : bool :=
  match x with
  | Conn c ReqModStart => is_conn c WriteDone z || is_conn c WriteFail z
  | _ => false
  end.
Definition ok_all_answered (tr : list label) : bool := all_followed is_reqmod l3_q tr.

(* What the client of connection c must have seen, given the proxy-side
   trace: one complete response per WriteHead (with its mark), and the end
   of the stream iff the proxy closed the socket. *)
(* (marked, is the synthesized 502) of every response head written on c *)
Fixpoint heads_of (c : nat) (pend : bool) (tr : list label) : list (bool * bool) :=
  match tr with
  | [] => []
  | Conn c' (RespStatus f) :: r => heads_of c (if Nat.eqb c c' then f else pend) r
  | Conn c' (WriteHead m) :: r =>
      if Nat.eqb c c' then (m, pend) :: heads_of c false r else heads_of c pend r
  | _ :: r => heads_of c pend r
  end.

Definition closed_in (c : nat) (tr : list label) : bool :=
  existsb (is_conn c SockClose) tr.

(* client view of one connection: (complete?, marked?, 502 with Warning?) per response, then closed? *)
Definition cresp := (bool * bool * bool)%type.
Definition cview := (list cresp * bool)%type.

Definition expected_view (tr : list label) (c : nat) : cview :=
  (map (fun mf => (true, fst mf, snd mf)) (heads_of c false tr), closed_in c tr).

Definition resp_eqb (a b : cresp) : bool :=
  Bool.eqb (fst (fst a)) (fst (fst b)) && Bool.eqb (snd (fst a)) (snd (fst b))
  && Bool.eqb (snd a) (snd b).

Definition cview_eqb (a b : cview) : bool :=
  list_eqb resp_eqb (fst a) (fst b) && Bool.eqb (snd a) (snd b).

Definition ok_client_views (tr : list label) (views : list cview) : bool :=
  list_eqb cview_eqb views (map (expected_view tr) (seq 0 (length views)))
  && Nat.eqb (length views) (length (filter is_accept tr)).

(* the response written is the synthesized 502 exactly when the round trip
   of that exchange failed *)
Fixpoint status_scan (c : nat) (failed : bool) (tr : list label) : bool :=
  match tr with
  | [] => true
  | Conn c' k :: r =>
      if Nat.eqb c c' then
        match k with
        | ReqModStart => status_scan c false r
        | RTEnd ok => status_scan c (negb ok) r
        | RTBroken => status_scan c true r
        | RespStatus f => Bool.eqb f failed && status_scan c failed r
        | _ => status_scan c failed r
        end
      else status_scan c failed r
  | _ :: r => status_scan c failed r
  end.

Definition ok_status (tr : list label) : bool :=
  forallb (fun c => status_scan c false tr) (seq 0 (length (filter is_accept tr))).

(* a socket write fails only after the client went away *)
Fixpoint all_preceded {A} (p : A -> bool) (q : A -> A -> bool) (seen tr : list A) : bool :=
  match tr with
  | [] => true
  | x :: r => (negb (p x) || existsb (q x) seen) && all_preceded p q (x :: seen) r
  end.

Definition is_writefail (l : label) : bool :=
  match l with Conn _ WriteFail => true | _ => false end.
Definition gone_q (x z : label) : bool :=
  match x with Conn c WriteFail => is_conn c CliGone z | _ => false end.
Definition ok_fail_only_if_gone (tr : list label) : bool :=
  all_preceded is_writefail gone_q [] tr.

(* the client gets the ORIGIN's response: no round trip towards a reachable
   origin fails (the harness marks as RTEnd false only the failures it
   scripted itself: origin made to refuse, hang up or time out) *)
Definition is_rtbroken (l : label) : bool :=
  match l with Conn _ RTBroken => true | _ => false end.
Definition ok_origin_response (tr : list label) : bool :=
  forallb (fun l => negb (is_rtbroken l)) tr.

(* Safety part that every model execution satisfies (theorem
   C07_model_executions_safe), the clause refuted by the model (D36), and
   the clauses for complete runs. *)
Definition c07_safe_ok (tr : list label) : bool :=
  ok_inflight tr && ok_marked tr && ok_marked_last tr
  && ok_no_reqmod_after_return tr && ok_late_not_served tr
  && ok_return_after_served_closed tr.

Definition c07_quiescent_ok (tr : list label) : bool :=
  ok_all_closed tr && ok_close_returns tr && ok_all_answered tr.

Definition c07_ok (tr : list label) (views : list cview) : bool :=
  c07_safe_ok tr && ok_return_after_accepted_closed tr
  && c07_quiescent_ok tr && ok_client_views tr views
  && ok_status tr && ok_fail_only_if_gone tr && ok_origin_response tr.

(* first failing clause, for the verdict line *)
Definition c07_failing_clause (tr : list label) (views : list cview) : nat :=
  if negb (ok_inflight tr) then 1
  else if negb (ok_marked tr) then 2
  else if negb (ok_marked_last tr) then 3
  else if negb (ok_no_reqmod_after_return tr) then 4
  else if negb (ok_late_not_served tr) then 5
  else if negb (ok_return_after_served_closed tr) then 11
  else if negb (ok_origin_response tr) then 14
  else if negb (ok_fail_only_if_gone tr) then 13
  else if negb (ok_status tr) then 12
  else if negb (ok_client_views tr views) then 10
  else if negb (ok_all_answered tr) then 9
  else if negb (ok_all_closed tr) then 7
  else if negb (ok_close_returns tr) then 8
  else if negb (ok_return_after_accepted_closed tr) then 6
  else 0.

(* ------------------------------------------------------------------ *)
(* Progress (no deadlock)                                              *)
(* ------------------------------------------------------------------ *)

(* labels that need no further input from clients or from the caller *)
Definition progress_label (l : label) : bool :=
  match l with
  | Accept _ | CloseCall | ClosingSeen | Conn _ HeadPart | Conn _ ReqModStart
  | Conn _ (RTEnd _) | Conn _ (RespStatus _) | Conn _ CliGone | Conn _ RTBroken => false
  | _ => true
  end.

Definition phase_rank (p : phase) : nat :=
  match p with
  | Accepted => 13 | Registered => 12 | InReqMod => 11 | InRoundTrip => 10
  | InResMod => 9 | PreDecide => 8 | Decided _ => 7 | Writing _ => 6 | Written => 5
  | Idle => 4 | HeadPartial => 3 | SockClosed => 2 | Finished => 0 | Broken => 5
  | CDecided => 7 | CWriting => 6 | Tunnel => 3
  end.

Definition cs_rank (c : cstate) : nat :=
  match c with NotCalled => 4 | Called => 3 | Signalled => 2 | Locked => 1 | Returned => 0 end.

Definition measure (s : state) : nat :=
  cs_rank (cs s) + list_sum (map (fun cn => phase_rank (ph cn)) (conns s)).

Definition live (p : phase) : bool :=
  match p with Accepted | Finished => false | _ => true end.

Definition quiet (p : phase) : bool :=
  match p with Accepted | Registered | SockClosed | Finished => true | _ => false end.

Definition count_live (l : list conn) : nat :=
  length (filter (fun cn => live (ph cn)) l).

(* D36 witness: Close returns between Accept and conns.Add(1) *)
Definition d36_witness : list label :=
  [Accept 0; CloseCall; CloseSignal; CloseLock; CloseReturn;
   Conn 0 Register; Conn 0 SockClose; Conn 0 Done].
