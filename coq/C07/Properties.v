(* C07 — property theorems.  Nothing but statements closed by [exact] and
   Print Assumptions, so a weakened statement is visible in review.

   [reachable s] = some sequence of labels leads from [init] to [s]: any
   number of connections, any interleaving, any placement of Close. *)
From Coq Require Import List Arith Bool.
From Martian.C07 Require Import Model Proofs Proofs_patterns Proofs_trace Proofs_accept
  Proofs_live Proofs_oracle.
Import ListNotations.

(* Appendix A6: I1 (wg counts the registered, unfinished handlers), I2/I3
   (after Close returned every connection is accepted-only, registered,
   closed or finished), late connections stay unserved, no panic. *)
Theorem C07_invariant : forall s, reachable s -> Inv s.
Proof. exact inv_reachable. Qed.
Print Assumptions C07_invariant.

(* In-flight exchanges complete.  State form: the handler closes the socket
   only when no exchange is in flight on it (never from InReqMod .. Writing). *)
Theorem C07_inflight_completes_state : forall s c s',
  step s (Conn c SockClose) = Some s' ->
  exists cn, nth_error (conns s) c = Some cn /\
    (ph cn = Written \/
     (closing s = true /\ (ph cn = Registered \/ ph cn = Idle \/ ph cn = HeadPartial))).
Proof. exact sockclose_only_when_no_exchange. Qed.
Print Assumptions C07_inflight_completes_state.

(* Trace form, every execution: between the start of a request modifier on a
   connection and the closing of that connection the response was completely
   written. *)
Theorem C07_inflight_completes : forall tr s,
  run init tr = Some s ->
  forall a b c cn, tr = a ++ Conn cn ReqModStart :: b ++ Conn cn SockClose :: c ->
    In (Conn cn WriteDone) b.
Proof.
  intros tr s H. apply ok_inflight_iff. exact (exec_inflight tr init s inv_init H).
Qed.
Print Assumptions C07_inflight_completes.

(* "marked connection-close", in the only form that can hold: once line 525
   has been evaluated nothing can mark the response any more.  What is
   proved: (a) the decision taken while closing is signalled marks the
   response; (b) in every execution, if closing was seen before the response
   modifier returned, the response head written afterwards is marked;
   (c) after a marked response nothing else is served on the connection, the
   only step left is closing it.  NOT proved (false): a response whose close
   decision preceded the shutdown signal is marked; it is written unmarked
   and the connection is closed when the handler next reaches readRequest's
   select (where a request that is already readable may still win the select
   and is then served with a marked response). *)
Theorem C07_marked_close_decision : forall s c s',
  step s (Conn c Decide) = Some s' ->
  exists cn, nth_error (conns s') c = Some cn /\ ph cn = Decided (closing s).
Proof. exact decide_marks_when_closing. Qed.
Print Assumptions C07_marked_close_decision.

Theorem C07_marked_close : forall tr s,
  run init tr = Some s ->
  forall a b c d cn,
    tr = a ++ ClosingSeen :: b ++ Conn cn ResModEnd :: c ++ Conn cn (WriteHead false) :: d -> False.
Proof.
  intros tr s H. apply ok_marked_iff. exact (exec_marked tr init s inv_init H).
Qed.
Print Assumptions C07_marked_close.

Theorem C07_marked_then_closed : forall tr s,
  run init tr = Some s ->
  forall a b c cn, tr = a ++ Conn cn (WriteHead true) :: b ++ Conn cn ReqModStart :: c -> False.
Proof.
  intros tr s H. apply ok_marked_last_iff. exact (exec_marked_last tr init s inv_init H).
Qed.
Print Assumptions C07_marked_then_closed.

Theorem C07_marked_then_only_close : forall s c cn k s',
  nth_error (conns s) c = Some cn -> ph cn = Written ->
  step s (Conn c k) = Some s' -> k = SockClose.
Proof. exact written_only_closes. Qed.
Print Assumptions C07_marked_then_only_close.

(* No request modifier starts after Close has returned. *)
Theorem C07_no_reqmod_after_return : forall s c,
  reachable s -> cs s = Returned -> step s (Conn c ReqModStart) = None.
Proof. exact no_reqmod_after_return. Qed.
Print Assumptions C07_no_reqmod_after_return.

Theorem C07_no_reqmod_after_return_trace : forall tr s,
  run init tr = Some s ->
  forall a b c cn, tr = a ++ CloseReturn :: b ++ Conn cn ReqModStart :: c -> False.
Proof.
  intros tr s H. apply ok_no_reqmod_after_return_iff.
  exact (exec_no_reqmod_after_return tr init s inv_init H).
Qed.
Print Assumptions C07_no_reqmod_after_return_trace.

(* Close returns only after every REGISTERED connection (conns.Add(1) done)
   has been closed and its handler has finished. *)
Theorem C07_return_after_registered_closed : forall s s',
  reachable s -> step s CloseReturn = Some s' ->
  Forall (fun cn => ph cn = Finished \/ ph cn = Accepted) (conns s).
Proof. exact return_after_registered_closed. Qed.
Print Assumptions C07_return_after_registered_closed.

Theorem C07_return_after_registered_closed_trace : forall tr s,
  run init tr = Some s ->
  forall a b c cn, tr = a ++ Conn cn Register :: b ++ CloseReturn :: c -> In (Conn cn SockClose) b.
Proof.
  intros tr s H. apply ok_return_after_registered_closed_iff.
  exact (exec_return_after_registered_closed tr init s inv_init H).
Qed.
Print Assumptions C07_return_after_registered_closed_trace.

(* observable form: a connection on which a request modifier has started
   (hence registered) is closed before Close returns *)
Theorem C07_return_after_served_closed_trace : forall tr s,
  run init tr = Some s ->
  forall a b c cn, tr = a ++ Conn cn ReqModStart :: b ++ CloseReturn :: c -> In (Conn cn SockClose) b.
Proof.
  intros tr s H. apply ok_return_after_served_closed_iff.
  exact (exec_return_after_served_closed tr init s inv_init H).
Qed.
Print Assumptions C07_return_after_served_closed_trace.

(* ... but not after every ACCEPTED connection: the faithful model admits
   Close returning while an accepted connection is still open, in two ways.
   D36: Close runs entirely between l.Accept() and conns.Add(1) of
   handleLoop.  Late: the connection is accepted while Close is inside
   conns.Wait() holding connsMu, so its handler blocks on connsMu.Lock()
   until Close has returned.  Both replay on the real code (corpus/C07). *)
Theorem C07_return_after_accepted_closed_refuted :
  exists tr s, run init tr = Some s /\
    ~ (forall a b c cn, tr = a ++ Accept cn :: b ++ CloseReturn :: c -> In (Conn cn SockClose) b).
Proof.
  destruct d36_runs as [s Hs]. exists d36_witness, s. split; [exact Hs|].
  intros H. apply ok_return_after_accepted_closed_iff in H. rewrite d36_refutes in H. discriminate.
Qed.
Print Assumptions C07_return_after_accepted_closed_refuted.

Theorem C07_return_after_accepted_closed_refuted_late :
  (exists s, run init late_witness = Some s) /\
  ok_return_after_accepted_closed late_witness = false.
Proof. exact late_witness_refutes. Qed.
Print Assumptions C07_return_after_accepted_closed_refuted_late.

(* guarded form: exactly when no connection is in the accept/register window
   at the moment Close returns, every accepted connection is finished *)
Theorem C07_return_after_accepted_closed_partial : forall s s',
  reachable s -> step s CloseReturn = Some s' ->
  Forall (fun cn => ph cn <> Accepted) (conns s) ->
  Forall (fun cn => ph cn = Finished) (conns s).
Proof. exact return_after_accepted_closed_partial. Qed.
Print Assumptions C07_return_after_accepted_closed_partial.

(* Connections accepted after shutdown began are closed without being served. *)
Theorem C07_late_accept_not_served : forall s c cn,
  reachable s -> nth_error (conns s) c = Some cn -> late cn = true ->
  quiet (ph cn) = true /\ step s (Conn c ReqModStart) = None.
Proof. exact late_never_served. Qed.
Print Assumptions C07_late_accept_not_served.

Theorem C07_late_accept_is_flagged : forall s c s',
  step s (Accept c) = Some s' -> nth_error (conns s') c = Some (mkConn Accepted (closing s)).
Proof. exact late_conn_flagged. Qed.
Print Assumptions C07_late_accept_is_flagged.

Theorem C07_late_accept_not_served_trace : forall tr s,
  run init tr = Some s ->
  forall a b c d cn,
    tr = a ++ ClosingSeen :: b ++ Accept cn :: c ++ Conn cn ReqModStart :: d -> False.
Proof.
  intros tr s H. apply ok_late_not_served_iff. exact (exec_late_not_served tr init s inv_init H).
Qed.
Print Assumptions C07_late_accept_not_served_trace.

(* Never panics (the WaitGroup counter never goes negative). *)
Theorem C07_no_panic : forall s, reachable s -> panicked s = false.
Proof. exact no_panic. Qed.
Print Assumptions C07_no_panic.

(* No deadlock: once Close has been called, a state in which no step can be
   taken without new input from clients is one where Close has returned and
   every connection is finished; and such steps cannot go on for ever. *)
Theorem C07_no_deadlock : forall s,
  reachable s -> cs s <> NotCalled ->
  (forall l, progress_label l = true -> step s l = None) ->
  cs s = Returned /\ Forall (fun cn => ph cn = Finished) (conns s).
Proof. exact no_deadlock. Qed.
Print Assumptions C07_no_deadlock.

Theorem C07_progress_terminates : forall s l s',
  step s l = Some s' -> progress_label l = true -> measure s' < measure s.
Proof. exact progress_decreases. Qed.
Print Assumptions C07_progress_terminates.

(* Complete runs satisfy the quiescence clauses the harness checks. *)
Theorem C07_complete_runs : forall tr s,
  run init tr = Some s -> cs s <> NotCalled ->
  (forall l, progress_label l = true -> step s l = None) ->
  c07_quiescent_ok tr = true.
Proof. exact exec_stuck_is_complete. Qed.
Print Assumptions C07_complete_runs.

(* Every execution of the model passes the safety part of the oracle ... *)
Theorem C07_model_executions_safe : forall tr s,
  run init tr = Some s -> c07_safe_ok tr = true.
Proof. exact exec_safe. Qed.
Print Assumptions C07_model_executions_safe.

(* ... the acceptor used for the correspondence is sound: an admitted trace
   is the observable projection of an execution ... *)
Theorem C07_acceptor_sound : forall tr,
  accepts tr = true ->
  exists full s, run init full = Some s /\ filter is_obs full = filter is_obs tr.
Proof. exact accepts_sound. Qed.
Print Assumptions C07_acceptor_sound.

(* ... hence an observed trace the model admits cannot fail a safety clause. *)
Theorem C07_admitted_traces_safe : forall tr,
  forallb is_obs tr = true -> accepts tr = true -> c07_safe_ok tr = true.
Proof. exact admitted_observed_traces_safe. Qed.
Print Assumptions C07_admitted_traces_safe.

(* The executable oracle run on the real implementation's trace and client
   views is the declarative property. *)
Theorem C07_oracle_is_the_property : forall tr views,
  c07_ok tr views = true <->
  (* in-flight exchanges complete *)
  (forall a b c cn, tr = a ++ Conn cn ReqModStart :: b ++ Conn cn SockClose :: c ->
      In (Conn cn WriteDone) b) /\
  (* closing seen before the response modifier returned => marked *)
  (forall a b c d cn,
      tr = a ++ ClosingSeen :: b ++ Conn cn ResModEnd :: c ++ Conn cn (WriteHead false) :: d -> False) /\
  (* nothing is served after a marked response *)
  (forall a b c cn, tr = a ++ Conn cn (WriteHead true) :: b ++ Conn cn ReqModStart :: c -> False) /\
  (* no request modifier after Close returned *)
  (forall a b c cn, tr = a ++ CloseReturn :: b ++ Conn cn ReqModStart :: c -> False) /\
  (* connections accepted after closing was seen are not served *)
  (forall a b c d cn,
      tr = a ++ ClosingSeen :: b ++ Accept cn :: c ++ Conn cn ReqModStart :: d -> False) /\
  (* Close returns after every connection that was ever served was closed *)
  (forall a b c cn, tr = a ++ Conn cn ReqModStart :: b ++ CloseReturn :: c -> In (Conn cn SockClose) b) /\
  (* Close returns after every accepted connection was closed *)
  (forall a b c cn, tr = a ++ Accept cn :: b ++ CloseReturn :: c -> In (Conn cn SockClose) b) /\
  (* complete run: everything accepted gets closed, Close returns, every started exchange is answered *)
  (forall a b cn, tr = a ++ Accept cn :: b -> In (Conn cn SockClose) b) /\
  (forall a b, tr = a ++ CloseCall :: b -> In CloseReturn b) /\
  (forall a b cn, tr = a ++ Conn cn ReqModStart :: b -> In (Conn cn WriteDone) b) /\
  (* every client saw exactly the responses the proxy wrote, complete, with
     their marks, and then the end of the stream iff the proxy closed *)
  views = map (expected_view tr) (seq 0 (length (filter is_accept tr))).
Proof. exact c07_ok_iff. Qed.
Print Assumptions C07_oracle_is_the_property.

(* Non-vacuity: a complete two-connection execution (Close while one exchange
   is inside its response modifier and the other connection is idle) that is
   reachable, quiescent, admitted by the acceptor and passes every clause. *)
Example C07_example_reachable :
  exists s, run init example_trace = Some s /\ cs s = Returned
            /\ Forall (fun cn => ph cn = Finished) (conns s).
Proof. exact example_runs. Qed.

Example C07_example_ok :
  c07_ok (filter is_obs example_trace) [([(true, true)], true); ([], true)] = true
  /\ accepts (filter is_obs example_trace) = true.
Proof. exact example_ok. Qed.

Example C07_d36_witness_is_otherwise_fine :
  c07_safe_ok d36_witness = true /\ accepts (filter is_obs d36_witness) = true.
Proof. split; [exact d36_safe|exact d36_admitted]. Qed.
