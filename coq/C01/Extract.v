From Coq Require Import ExtrOcamlBasic ExtrOcamlString.
From Martian.Common Require Import ExtractBase.
From Martian.C01 Require Import Model.
Extraction Language OCaml.
Extraction "model.ml" base_anchor run conn_run resp_of served wants_close
  req_preserved_b res_preserved_b req_hdrs_preserved_b res_hdrs_preserved_b
  c01_req_ok c01_res_ok c01_frm_ok res_framing_preserved_b framing_ok wf_ex c01_close_ok c01_ok wf_req ua_ok host_ok
  wreq_equiv wres_equiv obs_agree req_preserved_e res_preserved_e with_body nominated norm_pq str_eqb strs_eqb body_eqb name_eqb e2e_name vals spec_host.
