(* C01 — HTTP/1 relay preserves every request and response, one-to-one and in
   order.   Definitions only.

   Three layers:

   - the *script* of one client connection: a list of exchanges, each a client
     request as written on the wire ([reqmsg]) and what the origin answers to
     it ([origin_outcome]).  Bodies are opaque tokens (length + digest):
     martian never looks inside a body on this path.

   - the *model of the code*: [go_read_request] (net/http.ReadRequest as used
     by proxy.go:272 plus proxy.go:478-487), [transport_send]
     (http.Transport / Request.write, reached from proxy.go:605),
     [go_read_response] (http.ReadResponse inside the transport),
     the close decision of proxy.go:524-529, [res_write] (Response.Write,
     proxy.go:570) and the loop [conn_run] (proxy.go:256-264: handle until a
     closeable error).  A Go header map is modelled as the list of
     (lower-cased name, value) pairs in arrival order: per-name value order is
     exactly Go's, the order between different names (which Go loses) is not
     observable through any projection used here.

   - the *specification*: [req_preserved] / [res_preserved] (what the
     property text demands of one request / response as seen on the other
     side), [served] (the prefix of the script up to and including the first
     exchange in which either side asked to close) and the executable oracle
     [c01_ok]. *)

From Coq Require Import List NArith Bool Arith Ascii String.
Import ListNotations.

Definition str := list ascii.
Definition s (x : string) : str := list_ascii_of_string x.

(* ---------------------------------------------------------------- strings *)

Definition lower (c : ascii) : ascii :=
  let n := N_of_ascii c in
  if (N.leb 65 n && N.leb n 90)%bool then ascii_of_N (n + 32) else c.

Definition lower_str (x : str) : str := map lower x.

Fixpoint str_eqb (a b : str) : bool :=
  match a, b with
  | [], [] => true
  | x :: a', y :: b' => (Ascii.eqb x y && str_eqb a' b')%bool
  | _, _ => false
  end.

Fixpoint strs_eqb (a b : list str) : bool :=
  match a, b with
  | [], [] => true
  | x :: a', y :: b' => (str_eqb x y && strs_eqb a' b')%bool
  | _, _ => false
  end.

(* header names compare case-insensitively *)
Definition name_eqb (a b : str) : bool := str_eqb (lower_str a) (lower_str b).

Definition is_ows (c : ascii) : bool :=
  (Ascii.eqb c " " || Ascii.eqb c "009")%bool.

Fixpoint drop_ows (x : str) : str :=
  match x with
  | c :: x' => if is_ows c then drop_ows x' else x
  | [] => []
  end.

Definition trim_ows (x : str) : str := rev (drop_ows (rev (drop_ows x))).

(* split on commas *)
Fixpoint split_commas_aux (cur : str) (x : str) : list str :=
  match x with
  | [] => [rev cur]
  | c :: x' => if Ascii.eqb c "," then rev cur :: split_commas_aux [] x'
               else split_commas_aux (c :: cur) x'
  end.

Definition split_commas (x : str) : list str := split_commas_aux [] x.

(* ---------------------------------------------------------------- headers *)

Definition header := (str * str)%type.

Definition vals (n : str) (hs : list header) : list str :=
  map snd (filter (fun h => name_eqb (fst h) n) hs).

Definition has_name (n : str) (hs : list header) : bool :=
  existsb (fun h => name_eqb (fst h) n) hs.

(* httpguts.HeaderValuesContainsToken: comma separated, OWS trimmed, case-insensitive *)
Definition value_tokens (v : str) : list str :=
  map (fun t => lower_str (trim_ows t)) (split_commas v).

Definition has_token (tok : str) (vs : list str) : bool :=
  existsb (fun v => existsb (fun t => str_eqb t tok) (value_tokens v)) vs.

(* names nominated as hop-by-hop by the message's own Connection header *)
Definition nominated (hs : list header) : list str :=
  flat_map value_tokens (vals (s "connection") hs).

(* header/hopbyhop_modifier.go hopByHopHeaders, plus the framing header
   Content-Length, which a relay regenerates from the body it forwards. *)
Definition hop_by_hop : list str :=
  map s ["connection"; "keep-alive"; "proxy-authenticate"; "proxy-authorization";
         "proxy-connection"; "te"; "trailer"; "transfer-encoding"; "upgrade";
         "content-length"]%string.

Definition mem_name (n : str) (l : list str) : bool := existsb (name_eqb n) l.

(* end-to-end in a message whose Connection header nominates [nom] *)
Definition e2e_name (nom : list str) (n : str) : bool :=
  negb (mem_name n hop_by_hop) && negb (mem_name n nom).

(* ---------------------------------------------------------------- script *)

Record bodytok := mkBody { blen : N; bdig : N }.

Definition body_eqb (a b : bodytok) : bool :=
  (N.eqb (blen a) (blen b) && N.eqb (bdig a) (bdig b))%bool.

Inductive tform := OriginForm | AbsForm (authority : str).

Inductive rqframing := RqNone | RqCL | RqChunked.

Record reqmsg := mkReq
  { meth : str;
    target : tform;
    path_query : str;            (* as written after the authority / as the whole origin-form target *)
    http10 : bool;
    rhdrs : list header;         (* as on the wire, without the framing header the harness adds *)
    rbody : bodytok;
    rframing : rqframing }.

Inductive framing := FCL | FChunked | FCloseDelimited | FBodiless.

Record respmsg := mkResp
  { status : N;
    s_http10 : bool;
    shdrs : list header;
    sbody : bodytok;
    sframing : framing }.

Inductive origin_outcome := Resp (r : respmsg).

(* how much of the request body the origin reads before it answers: all of it,
   or only the first k bytes (k = 0: it answers on the head alone); what it has
   not read it reads, or never reads, afterwards *)
Inductive readmode := ReadAll | ReadSome (k : N).

(* [flt]: the origin receives the request and then fails - it closes the
   connection before it has sent a complete response head.  The proxy answers
   with its own 502 (its form is C03's subject); for C01 what matters is that
   the origin has received the request exactly once and that the connection
   goes on. *)
Record exchange := mkEx { rq : reqmsg; rs : origin_outcome; rd : readmode; flt : bool }.

(* the proxy-made answer to a failed round trip, as far as C01 looks at it *)
Definition resp_502 : respmsg := mkResp 502 false [] (mkBody 0 250348346448124) FCL.

(* the response the client must get *)
Definition resp_of (e : exchange) : respmsg :=
  if flt e then resp_502 else match rs e with Resp r => r end.

(* ---------------------------------------------------------------- wire views *)

(* what the origin receives / what the client receives, as recorded by the harness *)
Record wire_req := mkWReq
  { w_meth : str; w_uri : str; w_hdrs : list header; w_body : bodytok }.

Record wire_res := mkWRes
  { c_status : N; c_hdrs : list header; c_body : bodytok;
    c_complete : bool   (* the client could find the end of the message *) }.

Record conn_obs := mkObs
  { origin_saw : list wire_req;
    client_got : list wire_res;
    closed : bool }.      (* the proxy closed the client connection after the last response *)

(* ---------------------------------------------------------------- model of the code *)

Definition lower_names (hs : list header) : list header :=
  map (fun h => (lower_str (fst h), snd h)) hs.

Definition hdel (n : str) (hs : list header) : list header :=
  filter (fun h => negb (name_eqb (fst h) n)) hs.

Definition hget (n : str) (hs : list header) : option str :=
  match vals n hs with v :: _ => Some v | [] => None end.

(* net/http shouldClose *)
Definition should_close (v10 : bool) (hs : list header) : bool :=
  let conv := vals (s "connection") hs in
  if v10 then (has_token (s "close") conv || negb (has_token (s "keep-alive") conv))%bool
  else has_token (s "close") conv.

Record goreq := mkGoReq
  { g_meth : str; g_uri : str; g_host : str; g_hdr : list header;
    g_close : bool; g_body : bodytok; g_framing : rqframing }.

(* url.URL.RequestURI: an empty path is sent as "/" *)
Definition norm_pq (pq : str) : str :=
  match pq with
  | "/"%char :: _ => pq
  | _ => "/"%char :: pq
  end.

(* http.ReadRequest + proxy.go:478-487 *)
Definition go_read_request (r : reqmsg) : goreq :=
  let h0 := lower_names (rhdrs r) in
  let host := match target r with
              | AbsForm a => a
              | OriginForm => match hget (s "host") h0 with Some v => v | None => [] end
              end in
  let h1 := hdel (s "host") h0 in
  (* fixPragmaCacheControl *)
  let h2 := match hget (s "pragma") h1 with
            | Some v => if (str_eqb v (s "no-cache") && negb (has_name (s "cache-control") h1))%bool
                        then h1 ++ [(s "cache-control", s "no-cache")] else h1
            | None => h1
            end in
  mkGoReq (meth r) (norm_pq (path_query r)) host h2
          (should_close (http10 r) h2) (rbody r) (rframing r).

Definition default_user_agent : str := s "Go-http-client/1.1".

Definition req_write_exclude : list str :=
  map s ["host"; "user-agent"; "content-length"; "transfer-encoding"; "trailer"]%string.

Definition wants_gzip (compress : bool) (g : goreq) : bool :=
  (compress && negb (has_name (s "accept-encoding") (g_hdr g))
   && negb (has_name (s "range") (g_hdr g))
   && negb (str_eqb (g_meth g) (s "HEAD")))%bool.

(* Request.write as called by the transport.  [compress]: the transport's
   own gzip negotiation (DisableCompression = false). *)
Definition transport_send (compress : bool) (g : goreq) : wire_req :=
  let ua := match hget (s "user-agent") (g_hdr g) with Some v => v | None => default_user_agent end in
  let fr := match g_framing g with
            | RqChunked => if N.eqb (blen (g_body g)) 0 then [] else [(s "transfer-encoding", s "chunked")]
            | RqCL => [(s "content-length", [])]
            | RqNone => []
            end in
  mkWReq (g_meth g) (g_uri g)
    ([(s "host", g_host g)]
     ++ (match ua with [] => [] | _ => [(s "user-agent", ua)] end)
     ++ fr
     ++ (if (g_close g && negb (has_token (s "close") (vals (s "connection") (g_hdr g))))%bool
         then [(s "connection", s "close")] else [])
     ++ filter (fun h => negb (mem_name (fst h) req_write_exclude)) (g_hdr g)
     ++ (if wants_gzip compress g then [(s "accept-encoding", s "gzip")] else []))
    (g_body g).

Record gores := mkGoRes
  { r_status : N; r_hdr : list header; r_close : bool; r_body : bodytok;
    r_framing : framing;
    r_uncompressed : bool }.

Definition is_gzip (hs : list header) : bool :=
  match hget (s "content-encoding") hs with
  | Some v => str_eqb (lower_str v) (s "gzip")
  | None => false
  end.

(* http.ReadResponse inside the transport.  [asked_gzip]: the transport added
   Accept-Encoding: gzip itself; then a gzip answer is decoded ([dec] gives
   the token of the decoded body), Content-Encoding and Content-Length are
   deleted and the length becomes unknown. *)
Definition go_read_response (asked_gzip : bool) (dec : bodytok -> bodytok) (r : respmsg) : gores :=
  let h0 := lower_names (shdrs r) in
  let cl := (should_close (s_http10 r) h0
             || match sframing r with FCloseDelimited => true | _ => false end)%bool in
  let h1 := if (negb (s_http10 r) && has_token (s "close") (vals (s "connection") h0))%bool
            then hdel (s "connection") h0 else h0 in
  let h2 := hdel (s "transfer-encoding") h1 in
  let has_body := match sframing r with FBodiless => false | _ => true end in
  if (asked_gzip && is_gzip h2 && has_body)%bool then
    mkGoRes (status r) (hdel (s "content-length") (hdel (s "content-encoding") h2)) cl
            (dec (sbody r)) (sframing r) true
  else mkGoRes (status r) h2 cl (sbody r) (sframing r) false.

Definition res_write_exclude : list str :=
  map s ["content-length"; "transfer-encoding"; "trailer"]%string.

(* Response.Write (proxy.go:570).  [closing]: res.Close after proxy.go:527.
   A body of unknown length that is neither chunked nor followed by a close is
   written bare: the client cannot find its end. *)
Definition res_write (closing : bool) (g : gores) : wire_res :=
  let fr := match r_framing g with
            | FChunked => if r_uncompressed g then [] else [(s "transfer-encoding", s "chunked")]
            | FCL => if r_uncompressed g then [] else [(s "content-length", [])]
            | _ => []
            end in
  let framed := match r_framing g with
                | FBodiless => true
                | FCloseDelimited => closing
                | _ => (negb (r_uncompressed g) || closing)%bool
                end in
  mkWRes (r_status g)
    (fr ++ (if (closing && negb (has_token (s "close") (vals (s "connection") (r_hdr g))))%bool
            then [(s "connection", s "close")] else [])
        ++ filter (fun h => negb (mem_name (fst h) res_write_exclude)) (r_hdr g))
    (r_body g) framed.

(* A response without a body (to HEAD; 204; 304) still has framing headers, and
   for HEAD they are the origin's statement about the GET representation:
   net/http keeps a HEAD response's Content-Length (as a number) and its
   "chunked" and Response.Write writes them back; for 204/304 it writes none. *)
Definition is_head (r : reqmsg) : bool := str_eqb (meth r) (s "HEAD").

Definition head_framing (r : respmsg) : list header :=
  let h := lower_names (shdrs r) in
  if has_token (s "chunked") (vals (s "transfer-encoding") h) then [(s "transfer-encoding", s "chunked")]
  else match hget (s "content-length") h with
       | Some v => [(s "content-length", v)]
       | None => []
       end.

(* Response.Write's shouldSendContentLength: "many servers expect a
   Content-Length for these methods" - it is applied to RESPONSES too, so a
   bodiless answer to POST/PUT/PATCH gets a Content-Length: 0 of the proxy's own *)
Definition wants_cl0 (q : reqmsg) : bool :=
  (str_eqb (meth q) (s "POST") || str_eqb (meth q) (s "PUT") || str_eqb (meth q) (s "PATCH"))%bool.

Definition bodiless_framing (q : reqmsg) (r : respmsg) : list header :=
  if is_head q then head_framing r
  else if wants_cl0 q then [(s "content-length", s "0")] else [].

Definition add_head_framing (q : reqmsg) (r : respmsg) (w : wire_res) : wire_res :=
  match sframing r with
  | FBodiless => mkWRes (c_status w) (bodiless_framing q r ++ c_hdrs w) (c_body w) (c_complete w)
  | _ => w
  end.

(* one pass through Proxy.handle for a non-CONNECT request, no modifiers, proxy not closing *)
Definition handle_model (compress : bool) (dec : bodytok -> bodytok) (e : exchange)
  : wire_req * wire_res * bool :=
  let g := go_read_request (rq e) in
  let wq := transport_send compress g in
  let r := go_read_response (wants_gzip compress g) dec (resp_of e) in
  let closing := (g_close g || r_close r)%bool in        (* proxy.go:525 *)
  (wq, add_head_framing (rq e) (resp_of e) (res_write closing r), closing).

(* handleLoop: handle until errClose *)
Fixpoint conn_run (compress : bool) (dec : bodytok -> bodytok) (es : list exchange) : conn_obs :=
  match es with
  | [] => mkObs [] [] false
  | e :: es' =>
      let '(wq, wr, cl) := handle_model compress dec e in
      if cl then mkObs [wq] [wr] true
      else let o := conn_run compress dec es' in
           mkObs (wq :: origin_saw o) (wr :: client_got o) (closed o)
  end.

(* the repaired proxy: DisableCompression on the default transport *)
Definition id_body (b : bodytok) : bodytok := b.
Definition run (es : list exchange) : conn_obs := conn_run false id_body es.

(* ---------------------------------------------------------------- specification *)

(* "either side asked to close" *)
Definition req_asks_close (r : reqmsg) : bool :=
  let conv := vals (s "connection") (rhdrs r) in
  if http10 r then (has_token (s "close") conv || negb (has_token (s "keep-alive") conv))%bool
  else has_token (s "close") conv.

Definition res_asks_close (r : respmsg) : bool :=
  let conv := vals (s "connection") (shdrs r) in
  ((if s_http10 r then (has_token (s "close") conv || negb (has_token (s "keep-alive") conv))%bool
    else has_token (s "close") conv)
   || match sframing r with FCloseDelimited => true | _ => false end)%bool.

Definition wants_close (e : exchange) : bool :=
  (req_asks_close (rq e) || res_asks_close (resp_of e))%bool.

(* the exchanges the proxy must serve: up to and including the first closing one *)
Fixpoint served (es : list exchange) : list exchange :=
  match es with
  | [] => []
  | e :: es' => if wants_close e then [e] else e :: served es'
  end.

Fixpoint first_close (es : list exchange) : option nat :=
  match es with
  | [] => None
  | e :: es' => if wants_close e then Some 0
                else match first_close es' with Some i => Some (S i) | None => None end
  end.

Definition names_of (hs : list header) : list str := map fst hs.

(* the Host value the origin must see *)
Definition spec_host (r : reqmsg) : list str :=
  match target r with
  | AbsForm a => [a]
  | OriginForm => match vals (s "host") (rhdrs r) with v :: _ => [v] | [] => [[]] end
  end.

(* every end-to-end header the client sent arrives with the same values, in order *)
Definition req_hdrs_preserved_b (r : reqmsg) (w : wire_req) : bool :=
  let nom := nominated (rhdrs r) in
  forallb (fun n =>
    if e2e_name nom n then
      if name_eqb n (s "host") then strs_eqb (vals n (w_hdrs w)) (spec_host r)
      else strs_eqb (vals n (w_hdrs w)) (vals n (rhdrs r))
    else true) (names_of (rhdrs r)).

Definition req_preserved_b (r : reqmsg) (w : wire_req) : bool :=
  (str_eqb (w_meth w) (meth r)
   && str_eqb (w_uri w) (norm_pq (path_query r))
   && req_hdrs_preserved_b r w
   && body_eqb (w_body w) (rbody r))%bool.

(* the client receives the origin's status, end-to-end header values (nothing
   added, nothing dropped) and body, and can find the end of the message *)
Definition res_hdrs_preserved_b (r : respmsg) (c : wire_res) : bool :=
  let nom := nominated (shdrs r) in
  forallb (fun n =>
    if e2e_name nom n then strs_eqb (vals n (c_hdrs c)) (vals n (shdrs r)) else true)
    (names_of (shdrs r) ++ names_of (c_hdrs c)).

Definition res_preserved_b (r : respmsg) (c : wire_res) : bool :=
  (N.eqb (c_status c) (status r)
   && res_hdrs_preserved_b r c
   && body_eqb (c_body c) (sbody r)
   && c_complete c)%bool.

(* bodiless responses: the framing headers the client sees (presence AND value
   of Content-Length, Transfer-Encoding) are the origin's *)
Definition framing_names : list str := [s "content-length"; s "transfer-encoding"].

Definition res_framing_preserved_b (r : respmsg) (c : wire_res) : bool :=
  match sframing r with
  | FBodiless => forallb (fun n => strs_eqb (vals n (c_hdrs c)) (vals n (shdrs r))) framing_names
  | _ => true
  end.

Fixpoint forall2b {A B} (f : A -> B -> bool) (a : list A) (b : list B) : bool :=
  match a, b with
  | [], [] => true
  | x :: a', y :: b' => (f x y && forall2b f a' b')%bool
  | _, _ => false
  end.

(* an origin that answered before it had read the whole body did not "receive"
   a body to compare: everything but the body is still demanded *)
Definition with_body (w : wire_req) (b : bodytok) : wire_req :=
  mkWReq (w_meth w) (w_uri w) (w_hdrs w) b.

Definition req_preserved_e (e : exchange) (w : wire_req) : bool :=
  match rd e with
  | ReadAll => req_preserved_b (rq e) w
  | ReadSome _ => req_preserved_b (rq e) (with_body w (rbody (rq e)))
  end.

Definition c01_req_ok (es : list exchange) (o : conn_obs) : bool :=
  forall2b req_preserved_e (served es) (origin_saw o).

(* after an origin failure only the status and the framing of the proxy's own
   answer are demanded here (the rest of it is C03's) *)
Definition res_preserved_e (e : exchange) (c : wire_res) : bool :=
  if flt e then (N.eqb (c_status c) 502 && c_complete c)%bool
  else res_preserved_b (resp_of e) c.

Definition c01_res_ok (es : list exchange) (o : conn_obs) : bool :=
  forall2b res_preserved_e (served es) (client_got o).

Definition c01_frm_ok (es : list exchange) (o : conn_obs) : bool :=
  forall2b res_framing_preserved_b (map resp_of (served es)) (client_got o).

Definition c01_close_ok (es : list exchange) (o : conn_obs) : bool :=
  Bool.eqb (closed o) (existsb wants_close es).

(* the property oracle *)
Definition c01_ok (es : list exchange) (o : conn_obs) : bool :=
  (c01_req_ok es o && c01_res_ok es o && c01_frm_ok es o && c01_close_ok es o)%bool.

(* Guard of the request-header clause: net/http's Request.write forwards only
   the first User-Agent value and nothing at all when that value is empty. *)
Definition ua_ok (r : reqmsg) : bool :=
  match vals (s "user-agent") (rhdrs r) with
  | [] => true
  | [v] => negb (str_eqb v [])
  | _ => false
  end.

(* A well-formed HTTP/1.1 request has exactly one Host field (net/http answers
   anything else with 400 and never reaches the proxy's handler). *)
Definition host_ok (r : reqmsg) : bool :=
  match vals (s "host") (rhdrs r) with [_] => true | _ => false end.

Definition wf_req (r : reqmsg) : bool := (ua_ok r && host_ok r)%bool.

(* Guard of the framing clause: for HEAD the origin states at most one
   Content-Length and no Transfer-Encoding (after a HEAD response that says
   "chunked" net/http's Response.Write emits a stray CRLF: known finding
   C01-K5, outside this model); a 204 / 304 carries no framing header at all
   (Response.Write drops the Content-Length of a 304: C01-K3) and is not the
   answer to POST/PUT/PATCH (Response.Write adds Content-Length: 0: C01-K4). *)
Definition is_nil {A} (l : list A) : bool := match l with [] => true | _ => false end.

Definition framing_ok (e : exchange) : bool :=
  let r := resp_of e in
  match sframing r with
  | FBodiless =>
      let cl := vals (s "content-length") (shdrs r) in
      let te := vals (s "transfer-encoding") (shdrs r) in
      if is_head (rq e) then
        (is_nil te && match cl with [] | [_] => true | _ => false end)%bool
      else (negb (wants_cl0 (rq e)) && is_nil cl && is_nil te)%bool
  | _ => true
  end.

Definition wf_ex (e : exchange) : bool := (wf_req (rq e) && framing_ok e)%bool.

(* ---------------------------------------------------------------- correspondence projections *)

(* per-name equality of the values of every name that is end-to-end w.r.t. [nom] *)
Definition hdrs_equiv (nom : list str) (a b : list header) : bool :=
  forallb (fun n => if e2e_name nom n then strs_eqb (vals n a) (vals n b) else true)
          (names_of a ++ names_of b).

Definition wreq_equiv (nom : list str) (a b : wire_req) : bool :=
  (str_eqb (w_meth a) (w_meth b) && str_eqb (w_uri a) (w_uri b)
   && hdrs_equiv nom (w_hdrs a) (w_hdrs b) && body_eqb (w_body a) (w_body b))%bool.

Definition wres_equiv (nom : list str) (a b : wire_res) : bool :=
  (N.eqb (c_status a) (c_status b) && hdrs_equiv nom (c_hdrs a) (c_hdrs b)
   && body_eqb (c_body a) (c_body b) && Bool.eqb (c_complete a) (c_complete b))%bool.

Fixpoint forall3b {A B C} (f : A -> B -> C -> bool) (a : list A) (b : list B) (c : list C) : bool :=
  match a, b, c with
  | [], [], [] => true
  | x :: a', y :: b', z :: c' => (f x y z && forall3b f a' b' c')%bool
  | _, _, _ => false
  end.

(* model prediction vs observation, exchange by exchange *)
Definition obs_agree (es : list exchange) (m o : conn_obs) : bool :=
  (forall3b (fun e a b => wreq_equiv (nominated (rhdrs (rq e))) a
                            (match rd e with ReadAll => b | ReadSome _ => with_body b (w_body a) end))
            (firstn (List.length (origin_saw m)) es) (origin_saw m) (origin_saw o)
   && forall3b (fun e a b => if flt e then (N.eqb (c_status a) (c_status b) && Bool.eqb (c_complete a) (c_complete b))%bool else
                             (wres_equiv (nominated (shdrs (resp_of e))) a b
                               && match sframing (resp_of e) with
                                  | FBodiless => forallb (fun n => strs_eqb (vals n (c_hdrs a)) (vals n (c_hdrs b))) framing_names
                                  | _ => true
                                  end)%bool)
            (firstn (List.length (client_got m)) es) (client_got m) (client_got o)
   && Bool.eqb (closed m) (closed o))%bool.

(* ---------------------------------------------------------------- arrival schedules (pipelining) *)

(* The connection loop, generically: [h e] is what handling one exchange emits
   and whether the loop then stops.  [conn_run] above (and C03's
   [conn_stream]) are instances. *)
Section Loop.
  Variables (E O : Type) (h : E -> O * bool).

  Fixpoint loop_run (es : list E) : list O * bool :=
    match es with
    | [] => ([], false)
    | e :: es' =>
        let '(o, cl) := h e in
        if cl then ([o], true)
        else let '(os, c) := loop_run es' in (o :: os, c)
    end.

  (* A client may deliver its requests at any time relative to the proxy's
     progress: one at a time, all at once (pipelined), or a request in pieces.
     [LArrive]: the next request has arrived completely; [LPartial]: some more
     bytes of a request arrived, but not its end; [LServe]: handleLoop's next
     iteration runs to completion on the oldest arrived, unserved request.
     ATOMICITY: [LServe] is one step - proxy.go's handleLoop calls handle for
     request i+1 only after handle for request i has returned (response
     written and flushed); there is one goroutine per client connection. *)
  Inductive slabel := LArrive | LPartial | LServe.

  Record sstate := mkS
    { s_pending : list E;      (* arrived, not yet served *)
      s_future : list E;       (* not yet (completely) arrived *)
      s_out : list O;          (* emitted so far, in order *)
      s_closed : bool }.

  Definition sinit (es : list E) : sstate := mkS [] es [] false.

  Definition sstep (st : sstate) (l : slabel) : option sstate :=
    match l with
    | LPartial => Some st
    | LArrive =>
        match s_future st with
        | e :: f => Some (mkS (s_pending st ++ [e]) f (s_out st) (s_closed st))
        | [] => None
        end
    | LServe =>
        if s_closed st then None
        else match s_pending st with
             | e :: p => let '(o, cl) := h e in Some (mkS p (s_future st) (s_out st ++ [o]) cl)
             | [] => None
             end
    end.

  Fixpoint srun (st : sstate) (ls : list slabel) : option sstate :=
    match ls with
    | [] => Some st
    | l :: ls' => match sstep st l with Some st' => srun st' ls' | None => None end
    end.

  (* nothing left to do: everything has arrived and either the loop stopped or
     everything arrived has been served *)
  Definition quiescent (st : sstate) : Prop :=
    s_future st = [] /\ (s_closed st = true \/ s_pending st = []).
End Loop.

Arguments loop_run {E O} h es.
Arguments sinit {E O} es.
Arguments sstep {E O} h st l.
Arguments srun {E O} h st ls.
Arguments quiescent {E O} st.
Arguments s_out {E O} s.
Arguments s_closed {E O} s.
Arguments s_pending {E O} s.
Arguments s_future {E O} s.
Arguments mkS {E O} _ _ _ _.
