(* C01 — lemmas and proofs. *)
From Coq Require Import List NArith Bool Arith Ascii String Lia.
From Martian.C01 Require Import Model.
Import ListNotations.

(* ---------------------------------------------------------------- equality tests *)

Lemma str_eqb_refl : forall a, str_eqb a a = true.
Proof. induction a as [|c a IH]; cbn; [reflexivity|]. now rewrite Ascii.eqb_refl, IH. Qed.

Lemma str_eqb_eq : forall a b, str_eqb a b = true <-> a = b.
Proof.
  induction a as [|c a IH]; destruct b as [|d b]; cbn; split; intro H; try reflexivity; try discriminate.
  - apply andb_true_iff in H as [H1 H2]. apply Ascii.eqb_eq in H1. apply IH in H2. now subst.
  - inversion H; subst. now rewrite Ascii.eqb_refl, str_eqb_refl.
Qed.

Lemma str_eqb_sym : forall a b, str_eqb a b = str_eqb b a.
Proof.
  intros a b. destruct (str_eqb a b) eqn:E.
  - apply str_eqb_eq in E. subst. now rewrite str_eqb_refl.
  - destruct (str_eqb b a) eqn:E2; [|reflexivity].
    apply str_eqb_eq in E2. subst. now rewrite str_eqb_refl in E.
Qed.

Lemma strs_eqb_eq : forall a b, strs_eqb a b = true <-> a = b.
Proof.
  induction a as [|x a IH]; destruct b as [|y b]; cbn; split; intro H; try reflexivity; try discriminate.
  - apply andb_true_iff in H as [H1 H2]. apply str_eqb_eq in H1. apply IH in H2. now subst.
  - inversion H; subst. rewrite str_eqb_refl. cbn. now apply IH.
Qed.

Lemma strs_eqb_refl : forall a, strs_eqb a a = true.
Proof. intro a. now apply strs_eqb_eq. Qed.

Lemma body_eqb_eq : forall a b, body_eqb a b = true <-> a = b.
Proof.
  intros [l1 d1] [l2 d2]. unfold body_eqb; cbn. split; intro H.
  - apply andb_true_iff in H as [H1 H2]. apply N.eqb_eq in H1, H2. now subst.
  - inversion H; subst. now rewrite !N.eqb_refl.
Qed.

Lemma body_eqb_refl : forall a, body_eqb a a = true.
Proof. intro a. now apply body_eqb_eq. Qed.

(* ---------------------------------------------------------------- names *)

Lemma lower_idem : forall c, lower (lower c) = lower c.
Proof. intros [[] [] [] [] [] [] [] []]; reflexivity. Qed.

Lemma lower_str_idem : forall x, lower_str (lower_str x) = lower_str x.
Proof. unfold lower_str. induction x as [|c x IH]; cbn [map]; [reflexivity|]. now rewrite lower_idem, IH. Qed.

Lemma name_eqb_iff : forall a b, name_eqb a b = true <-> lower_str a = lower_str b.
Proof. intros. unfold name_eqb. apply str_eqb_eq. Qed.

Lemma name_eqb_refl : forall a, name_eqb a a = true.
Proof. intro. now apply name_eqb_iff. Qed.

Lemma name_eqb_sym : forall a b, name_eqb a b = name_eqb b a.
Proof. intros. unfold name_eqb. apply str_eqb_sym. Qed.

Lemma name_eqb_lower_l : forall a b, name_eqb (lower_str a) b = name_eqb a b.
Proof. intros. unfold name_eqb. now rewrite lower_str_idem. Qed.

(* name_eqb only looks at the lower-cased name *)
Lemma name_eqb_congr : forall a b c, name_eqb a b = true -> name_eqb a c = name_eqb b c.
Proof. intros a b c H. apply name_eqb_iff in H. unfold name_eqb. now rewrite H. Qed.

Lemma name_eqb_congr_r : forall a b c, name_eqb a b = true -> name_eqb c a = name_eqb c b.
Proof. intros a b c H. rewrite (name_eqb_sym c a), (name_eqb_sym c b). now apply name_eqb_congr. Qed.

Lemma mem_name_congr : forall a b l, name_eqb a b = true -> mem_name a l = mem_name b l.
Proof.
  intros a b l H. unfold mem_name. induction l as [|x l IH]; cbn; [reflexivity|].
  now rewrite (name_eqb_congr _ _ _ H), IH.
Qed.

(* ---------------------------------------------------------------- vals *)

Lemma vals_nil : forall n, vals n [] = [].
Proof. reflexivity. Qed.

Lemma vals_cons : forall n k v hs,
  vals n ((k, v) :: hs) = if name_eqb k n then v :: vals n hs else vals n hs.
Proof. intros. unfold vals. cbn [filter fst]. destruct (name_eqb k n); reflexivity. Qed.

Lemma vals_single : forall n k v, vals n [(k, v)] = if name_eqb k n then [v] else [].
Proof. intros. rewrite vals_cons. reflexivity. Qed.

Lemma vals_app : forall n a b, vals n (a ++ b) = vals n a ++ vals n b.
Proof. intros. unfold vals. now rewrite filter_app, map_app. Qed.

Lemma vals_congr : forall a b hs, name_eqb a b = true -> vals a hs = vals b hs.
Proof.
  intros a b hs H. induction hs as [|[k v] hs IH]; [reflexivity|].
  rewrite !vals_cons, IH. now rewrite (name_eqb_congr_r _ _ k H).
Qed.

Lemma vals_lower_names : forall n hs, vals n (lower_names hs) = vals n hs.
Proof.
  intros n hs. induction hs as [|[k v] hs IH]; [reflexivity|].
  cbn [lower_names map fst snd]. rewrite !vals_cons. fold (lower_names hs). now rewrite IH, name_eqb_lower_l.
Qed.

Lemma vals_filter_keep : forall n (p : header -> bool) hs,
  (forall h, name_eqb (fst h) n = true -> p h = true) ->
  vals n (filter p hs) = vals n hs.
Proof.
  intros n p hs Hp. induction hs as [|[k v] hs IH]; [reflexivity|].
  cbn [filter]. destruct (p (k, v)) eqn:E.
  - rewrite !vals_cons. now rewrite IH.
  - rewrite vals_cons. destruct (name_eqb k n) eqn:E2; [|exact IH].
    specialize (Hp (k, v) E2). congruence.
Qed.

Lemma vals_filter_drop : forall n (p : header -> bool) hs,
  (forall h, name_eqb (fst h) n = true -> p h = false) ->
  vals n (filter p hs) = [].
Proof.
  intros n p hs Hp. induction hs as [|[k v] hs IH]; [reflexivity|].
  cbn [filter]. destruct (p (k, v)) eqn:E; [|exact IH].
  rewrite vals_cons. destruct (name_eqb k n) eqn:E2; [|exact IH].
  specialize (Hp (k, v) E2). congruence.
Qed.

Lemma vals_hdel_other : forall n m hs, name_eqb m n = false -> vals n (hdel m hs) = vals n hs.
Proof.
  intros n m hs H. unfold hdel. apply vals_filter_keep. intros h Hh.
  rewrite (name_eqb_congr _ _ m Hh). now rewrite name_eqb_sym, H.
Qed.

Lemma vals_hdel_same : forall n m hs, name_eqb m n = true -> vals n (hdel m hs) = [].
Proof.
  intros n m hs H. unfold hdel. apply vals_filter_drop. intros h Hh.
  rewrite (name_eqb_congr _ _ m Hh). now rewrite name_eqb_sym, H.
Qed.

Lemma vals_exclude_keep : forall n excl hs, mem_name n excl = false ->
  vals n (filter (fun h => negb (mem_name (fst h) excl)) hs) = vals n hs.
Proof.
  intros n excl hs H. apply vals_filter_keep. intros h Hh.
  now rewrite (mem_name_congr _ _ excl Hh), H.
Qed.

Lemma vals_exclude_drop : forall n excl hs, mem_name n excl = true ->
  vals n (filter (fun h => negb (mem_name (fst h) excl)) hs) = [].
Proof.
  intros n excl hs H. apply vals_filter_drop. intros h Hh.
  now rewrite (mem_name_congr _ _ excl Hh), H.
Qed.

Lemma has_name_vals : forall n hs, has_name n hs = false -> vals n hs = [].
Proof.
  intros n hs. induction hs as [|[k v] hs IH]; [reflexivity|].
  unfold has_name in *. cbn [existsb fst]. intro H. apply orb_false_iff in H as [H1 H2].
  rewrite vals_cons, H1. now apply IH.
Qed.

Lemma in_names_vals : forall n hs, In n (names_of hs) -> vals n hs <> [].
Proof.
  intros n hs. unfold names_of. induction hs as [|[k v] hs IH]; cbn [map fst In]; [tauto|].
  intros [H|H]; rewrite vals_cons.
  - subst. now rewrite name_eqb_refl.
  - destruct (name_eqb k n); [discriminate|]. now apply IH.
Qed.

Lemma hget_vals : forall n hs, hget n hs = match vals n hs with v :: _ => Some v | [] => None end.
Proof. reflexivity. Qed.

(* ---------------------------------------------------------------- the close decision *)

Lemma vals_connection_lower : forall hs, vals (s "connection") (lower_names hs) = vals (s "connection") hs.
Proof. intro. apply vals_lower_names. Qed.

Lemma go_req_close : forall r, g_close (go_read_request r) = req_asks_close r.
Proof.
  intro r. unfold go_read_request, req_asks_close. cbn [g_close]. unfold should_close.
  assert (Hv : forall h, vals (s "connection")
      (match hget (s "pragma") h with
       | Some v => if (str_eqb v (s "no-cache") && negb (has_name (s "cache-control") h))%bool
                   then h ++ [(s "cache-control", s "no-cache")] else h
       | None => h end) = vals (s "connection") h).
  { intro h. destruct (hget (s "pragma") h); [|reflexivity].
    match goal with |- context [if ?c then _ else _] => destruct c end; [|reflexivity].
    rewrite vals_app, vals_cons. cbn. now rewrite app_nil_r. }
  rewrite Hv. rewrite vals_hdel_other by reflexivity. now rewrite vals_connection_lower.
Qed.

Lemma go_res_close : forall a d r, r_close (go_read_response a d r) = res_asks_close r.
Proof.
  intros a d r. unfold go_read_response, res_asks_close.
  match goal with |- context [if ?c then mkGoRes _ _ _ _ _ true else _] => destruct c end;
    cbn [r_close]; unfold should_close; now rewrite vals_connection_lower.
Qed.

Lemma handle_close : forall c d e, snd (handle_model c d e) = wants_close e.
Proof.
  intros c d e. unfold handle_model, wants_close. cbn [snd].
  now rewrite go_req_close, go_res_close.
Qed.

(* ---------------------------------------------------------------- the loop *)

Definition h_req c d (e : exchange) : wire_req := fst (fst (handle_model c d e)).
Definition h_res c d (e : exchange) : wire_res := snd (fst (handle_model c d e)).

Lemma conn_run_structure : forall c d es,
  origin_saw (conn_run c d es) = map (h_req c d) (served es) /\
  client_got (conn_run c d es) = map (h_res c d) (served es) /\
  closed (conn_run c d es) = existsb wants_close es.
Proof.
  intros c d es. induction es as [|e es IH]; [now cbn|].
  cbn [conn_run served existsb].
  pose proof (handle_close c d e) as Hc.
  unfold h_req, h_res in *.
  destruct (handle_model c d e) as [[wq wr] cl] eqn:E. cbn [snd fst] in *. subst cl.
  destruct (wants_close e).
  - cbn [origin_saw client_got closed map orb]. rewrite E. repeat split; reflexivity.
  - destruct IH as (I1 & I2 & I3). cbn [origin_saw client_got closed map orb].
    rewrite I1, I2, I3, E. repeat split; reflexivity.
Qed.

Lemma served_length_first_close : forall es,
  match first_close es with
  | Some i => List.length (served es) = S i
  | None => List.length (served es) = List.length es
  end.
Proof.
  induction es as [|e es IH]; [reflexivity|].
  cbn [first_close served]. destruct (wants_close e); [reflexivity|].
  destruct (first_close es); cbn [List.length]; now rewrite IH.
Qed.

Lemma first_close_spec : forall es i,
  first_close es = Some i <->
  (exists e, nth_error es i = Some e /\ wants_close e = true) /\
  (forall j e, j < i -> nth_error es j = Some e -> wants_close e = false).
Proof.
  induction es as [|e es IH]; intro i.
  - cbn. split; [discriminate|]. intros [[x [H _]] _]. destruct i; discriminate.
  - cbn [first_close]. destruct (wants_close e) eqn:E.
    + split.
      * intro H. inversion H; subst. split; [exists e; now split|]. intros j x Hj. lia.
      * intros [[x [H1 H2]] H3]. destruct i as [|i]; [reflexivity|].
        specialize (H3 0 e ltac:(lia) eq_refl). congruence.
    + split.
      * intro H. destruct (first_close es) as [k|] eqn:F; [|discriminate]. inversion H; subst.
        destruct (proj1 (IH k) eq_refl) as [[x [H1 H2]] H3]. split; [exists x; now split|].
        intros [|j] y Hj Hy; [cbn in Hy; now inversion Hy; subst|].
        cbn in Hy. apply (H3 j y); [lia|exact Hy].
      * intros [[x [H1 H2]] H3]. destruct i as [|i]; [cbn in H1; inversion H1; subst; congruence|].
        cbn in H1. assert (F : first_close es = Some i).
        { apply IH. split; [exists x; now split|]. intros j y Hj Hy. apply (H3 (S j) y); [lia|exact Hy]. }
        now rewrite F.
Qed.

Lemma first_close_none : forall es,
  first_close es = None <-> existsb wants_close es = false.
Proof.
  induction es as [|e es IH]; [now cbn|].
  cbn [first_close existsb]. destruct (wants_close e); cbn; [split; discriminate|].
  destruct (first_close es); [split; [discriminate|]|tauto].
  intro H. apply IH in H. discriminate.
Qed.

(* ---------------------------------------------------------------- one request *)

Lemma e2e_not_hop : forall nom n k, e2e_name nom n = true -> In k hop_by_hop -> name_eqb k n = false.
Proof.
  intros nom n k H Hk. unfold e2e_name in H. apply andb_true_iff in H as [H _].
  apply negb_true_iff in H. unfold mem_name in H.
  rewrite name_eqb_sym.
  destruct (name_eqb n k) eqn:E; [|reflexivity].
  assert (X : existsb (name_eqb n) hop_by_hop = true) by (apply existsb_exists; exists k; now split).
  congruence.
Qed.

Ltac hop k := (unfold hop_by_hop; cbn [map]; unfold s; cbn [list_ascii_of_string]; tauto).

Lemma in_hop_connection : In (s "connection") hop_by_hop. Proof. cbv. tauto. Qed.
Lemma in_hop_cl : In (s "content-length") hop_by_hop. Proof. cbv. tauto. Qed.
Lemma in_hop_te : In (s "transfer-encoding") hop_by_hop. Proof. cbv. tauto. Qed.
Lemma in_hop_trailer : In (s "trailer") hop_by_hop. Proof. cbv. tauto. Qed.

(* the header map net/http hands to the proxy: the client's fields, lower-cased,
   without Host, possibly with a synthesised Cache-Control *)
Lemma vals_go_hdr : forall r n,
  In n (names_of (rhdrs r)) -> name_eqb (s "host") n = false ->
  vals n (g_hdr (go_read_request r)) = vals n (rhdrs r).
Proof.
  intros r n Hin Hh. unfold go_read_request. cbn [g_hdr].
  set (h1 := hdel (s "host") (lower_names (rhdrs r))).
  assert (H1 : vals n h1 = vals n (rhdrs r)).
  { unfold h1. rewrite vals_hdel_other by exact Hh. apply vals_lower_names. }
  destruct (hget (s "pragma") h1) as [v|]; [|exact H1].
  match goal with |- context [if ?c then _ else _] => destruct c eqn:E end; [|exact H1].
  rewrite vals_app, vals_cons, H1.
  destruct (name_eqb (s "cache-control") n) eqn:E2; [|now rewrite app_nil_r].
  exfalso. apply andb_true_iff in E as [_ E]. apply negb_true_iff in E.
  apply has_name_vals in E. rewrite (vals_congr _ _ _ E2) in E. rewrite H1 in E.
  now apply (in_names_vals _ _ Hin).
Qed.

Lemma vals_user_agent_go : forall r,
  vals (s "user-agent") (g_hdr (go_read_request r)) = vals (s "user-agent") (rhdrs r).
Proof.
  intro r. unfold go_read_request. cbn [g_hdr].
  set (h1 := hdel (s "host") (lower_names (rhdrs r))).
  assert (H1 : vals (s "user-agent") h1 = vals (s "user-agent") (rhdrs r)).
  { unfold h1. rewrite vals_hdel_other by reflexivity. apply vals_lower_names. }
  destruct (hget (s "pragma") h1) as [v|]; [|exact H1].
  match goal with |- context [if ?c then _ else _] => destruct c end; [|exact H1].
  rewrite vals_app, vals_cons, H1. cbn. now rewrite app_nil_r.
Qed.

Lemma vals_host_go : forall r,
  vals (s "host") (g_hdr (go_read_request r)) = [].
Proof.
  intro r. unfold go_read_request. cbn [g_hdr].
  set (h1 := hdel (s "host") (lower_names (rhdrs r))).
  assert (H1 : vals (s "host") h1 = []) by (unfold h1; now apply vals_hdel_same).
  destruct (hget (s "pragma") h1) as [v|]; [|exact H1].
  match goal with |- context [if ?c then _ else _] => destruct c end; [|exact H1].
  rewrite vals_app, vals_cons, H1. now cbn.
Qed.

Lemma g_host_spec : forall r, host_ok r = true -> [g_host (go_read_request r)] = spec_host r.
Proof.
  intros r H. unfold go_read_request, spec_host, host_ok in *. cbn [g_host].
  destruct (target r); [|reflexivity].
  rewrite hget_vals, vals_lower_names.
  destruct (vals (s "host") (rhdrs r)) as [|v [|]]; try discriminate. reflexivity.
Qed.

(* values of [n] among the header lines the transport writes *)
Lemma vals_transport_send : forall g n,
  vals n (w_hdrs (transport_send false g)) =
    (if name_eqb (s "host") n then [g_host g] else [])
    ++ (if name_eqb (s "user-agent") n
        then match hget (s "user-agent") (g_hdr g) with
             | Some [] => [] | Some v => [v] | None => [default_user_agent] end
        else [])
    ++ vals n (match g_framing g with
               | RqChunked => if N.eqb (blen (g_body g)) 0 then [] else [(s "transfer-encoding", s "chunked")]
               | RqCL => [(s "content-length", [])]
               | RqNone => [] end)
    ++ vals n (if (g_close g && negb (has_token (s "close") (vals (s "connection") (g_hdr g))))%bool
               then [(s "connection", s "close")] else [])
    ++ vals n (filter (fun h => negb (mem_name (fst h) req_write_exclude)) (g_hdr g)).
Proof.
  intros g n. unfold transport_send. cbn [w_hdrs]. unfold wants_gzip. cbn [andb].
  rewrite !vals_app. rewrite (vals_single n (s "host")). rewrite vals_nil, app_nil_r.
  f_equal. f_equal.
  destruct (hget (s "user-agent") (g_hdr g)) as [[|c v]|]; cbv beta iota.
  - rewrite vals_nil. now destruct (name_eqb _ n).
  - now rewrite vals_single.
  - change default_user_agent with ("G"%char :: s "o-http-client/1.1"). cbv beta iota. now rewrite vals_single.
Qed.

Lemma req_hdr_preserved_one : forall r n,
  wf_req r = true -> In n (names_of (rhdrs r)) -> e2e_name (nominated (rhdrs r)) n = true ->
  vals n (w_hdrs (transport_send false (go_read_request r))) =
    if name_eqb n (s "host") then spec_host r else vals n (rhdrs r).
Proof.
  intros r n Hwf Hin He.
  apply andb_true_iff in Hwf as [Hua Hhost].
  pose proof (e2e_not_hop _ _ _ He in_hop_connection) as Nc.
  pose proof (e2e_not_hop _ _ _ He in_hop_cl) as Ncl.
  pose proof (e2e_not_hop _ _ _ He in_hop_te) as Nte.
  pose proof (e2e_not_hop _ _ _ He in_hop_trailer) as Ntr.
  rewrite vals_transport_send.
  assert (Hfr : vals n (match g_framing (go_read_request r) with
               | RqChunked => if N.eqb (blen (g_body (go_read_request r))) 0 then [] else [(s "transfer-encoding", s "chunked")]
               | RqCL => [(s "content-length", [])]
               | RqNone => [] end) = []).
  { destruct (g_framing (go_read_request r)); [reflexivity| |].
    - now rewrite vals_cons, Ncl.
    - destruct (N.eqb _ 0); [reflexivity|]. now rewrite vals_cons, Nte. }
  rewrite Hfr.
  assert (Hcc : vals n (if (g_close (go_read_request r) && negb (has_token (s "close") (vals (s "connection") (g_hdr (go_read_request r)))))%bool
               then [(s "connection", s "close")] else []) = []).
  { destruct (_ && _)%bool; [|reflexivity]. now rewrite vals_cons, Nc. }
  rewrite Hcc. cbn [app].
  rewrite (name_eqb_sym n (s "host")).
  destruct (name_eqb (s "host") n) eqn:Eh.
  - (* Host *)
    assert (Eua : name_eqb (s "user-agent") n = false).
    { destruct (name_eqb (s "user-agent") n) eqn:X; [|reflexivity].
      rewrite name_eqb_sym in X. rewrite (name_eqb_congr_r _ _ _ X) in Eh. discriminate. }
    rewrite Eua. cbn [app].
    rewrite vals_exclude_drop.
    + now apply g_host_spec.
    + rewrite name_eqb_sym in Eh. rewrite (mem_name_congr _ _ _ Eh). reflexivity.
  - cbn [app]. destruct (name_eqb (s "user-agent") n) eqn:Eua.
    + (* User-Agent: only the first value, and only if not empty *)
      rewrite vals_exclude_drop.
      2:{ rewrite name_eqb_sym in Eua. rewrite (mem_name_congr _ _ _ Eua). reflexivity. }
      rewrite app_nil_r. rewrite hget_vals, vals_user_agent_go.
      rewrite name_eqb_sym in Eua. rewrite (vals_congr _ _ _ Eua).
      pose proof (in_names_vals _ _ Hin) as Hne. rewrite (vals_congr _ _ _ Eua) in Hne.
      unfold ua_ok in Hua.
      destruct (vals (s "user-agent") (rhdrs r)) as [|v [|]]; try discriminate; [congruence|].
      destruct v; [discriminate|reflexivity].
    + cbn [app]. rewrite vals_exclude_keep.
      * now apply vals_go_hdr.
      * unfold req_write_exclude, mem_name. cbn [map existsb].
        rewrite (name_eqb_sym n (s "host")), Eh, (name_eqb_sym n (s "user-agent")), Eua,
          (name_eqb_sym n (s "content-length")), Ncl, (name_eqb_sym n (s "transfer-encoding")), Nte,
          (name_eqb_sym n (s "trailer")), Ntr. reflexivity.
Qed.

Lemma handle_req_preserved : forall d e,
  wf_req (rq e) = true -> req_preserved_b (rq e) (h_req false d e) = true.
Proof.
  intros d e Hwf. unfold h_req, handle_model. cbn [fst].
  unfold req_preserved_b. rewrite !andb_true_iff. repeat split.
  - apply str_eqb_refl.
  - apply str_eqb_refl.
  - unfold req_hdrs_preserved_b. apply forallb_forall. intros n Hin.
    destruct (e2e_name (nominated (rhdrs (rq e))) n) eqn:He; [|reflexivity].
    rewrite (req_hdr_preserved_one _ _ Hwf Hin He).
    destruct (name_eqb n (s "host")); apply strs_eqb_refl.
  - apply body_eqb_refl.
Qed.

(* ---------------------------------------------------------------- one response *)

Lemma res_hdr_preserved_one : forall cl r n,
  e2e_name (nominated (shdrs r)) n = true ->
  vals n (c_hdrs (res_write cl (go_read_response false id_body r))) = vals n (shdrs r).
Proof.
  intros cl r n He.
  pose proof (e2e_not_hop _ _ _ He in_hop_connection) as Nc.
  pose proof (e2e_not_hop _ _ _ He in_hop_cl) as Ncl.
  pose proof (e2e_not_hop _ _ _ He in_hop_te) as Nte.
  pose proof (e2e_not_hop _ _ _ He in_hop_trailer) as Ntr.
  unfold go_read_response. cbn [andb]. unfold res_write. cbn [c_hdrs r_framing r_uncompressed r_hdr].
  rewrite !vals_app.
  match goal with |- vals n ?A ++ vals n ?B ++ vals n ?C = _ =>
    assert (F1 : vals n A = [])
      by (destruct (sframing r); rewrite ?vals_cons, ?Ncl, ?Nte; reflexivity);
    assert (F2 : vals n B = [])
      by (match goal with |- vals n (if ?c then _ else _) = _ => destruct c end;
          rewrite ?vals_cons, ?Nc; reflexivity);
    rewrite F1, F2 end.
  cbn [app]. rewrite vals_exclude_keep.
  - rewrite vals_hdel_other by exact Nte.
    destruct (negb (s_http10 r) && has_token (s "close") (vals (s "connection") (lower_names (shdrs r))))%bool.
    + rewrite vals_hdel_other by exact Nc. apply vals_lower_names.
    + apply vals_lower_names.
  - unfold res_write_exclude, mem_name. cbn [map existsb].
    now rewrite (name_eqb_sym n (s "content-length")), Ncl, (name_eqb_sym n (s "transfer-encoding")), Nte,
      (name_eqb_sym n (s "trailer")), Ntr.
Qed.

(* what Response.Write produces, before the HEAD framing headers are put back *)
Definition h_res_core (e : exchange) : wire_res :=
  res_write (g_close (go_read_request (rq e)) || r_close (go_read_response false id_body (resp_of e)))%bool
            (go_read_response false id_body (resp_of e)).

Lemma h_res_split : forall e,
  h_res false id_body e = add_head_framing (rq e) (resp_of e) (h_res_core e).
Proof. reflexivity. Qed.

Lemma handle_res_core_preserved : forall e,
  res_preserved_b (resp_of e) (h_res_core e) = true.
Proof.
  intro e. unfold h_res_core.
  set (r := resp_of e). set (g := go_read_request (rq e)).
  unfold res_preserved_b. rewrite !andb_true_iff. repeat split.
  - unfold go_read_response, res_write. cbn. apply N.eqb_refl.
  - unfold res_hdrs_preserved_b. apply forallb_forall. intros n _.
    destruct (e2e_name (nominated (shdrs r)) n) eqn:He; [|reflexivity].
    rewrite (res_hdr_preserved_one _ _ _ He). apply strs_eqb_refl.
  - unfold go_read_response, res_write. cbn. apply body_eqb_refl.
  - (* the client can find the end of the body *)
    pose proof (go_res_close false id_body r) as Hc.
    unfold res_write. cbn [c_complete].
    unfold go_read_response in *. cbn [andb] in *. cbn [r_framing r_uncompressed r_close negb orb] in *.
    destruct (sframing r) eqn:F; try reflexivity.
    rewrite Hc. unfold res_asks_close. rewrite F. now rewrite !orb_true_r.
Qed.

(* the framing headers of a HEAD response are hop-by-hop names: putting them
   back changes no end-to-end value *)
Lemma vals_head_framing_e2e : forall nom r n, e2e_name nom n = true -> vals n (head_framing r) = [].
Proof.
  intros nom r n He. unfold head_framing.
  destruct (has_token _ _).
  - now rewrite vals_cons, (e2e_not_hop _ _ _ He in_hop_te).
  - destruct (hget _ _); [|reflexivity]. now rewrite vals_cons, (e2e_not_hop _ _ _ He in_hop_cl).
Qed.

Lemma head_framing_names_not_e2e : forall nom r n, In n (names_of (head_framing r)) -> e2e_name nom n = false.
Proof.
  intros nom r n. unfold head_framing. destruct (has_token _ _); [|destruct (hget _ _)]; cbn; intro H;
    [destruct H as [H|[]]; subst; reflexivity|destruct H as [H|[]]; subst; reflexivity|destruct H].
Qed.

Lemma vals_bodiless_framing_e2e : forall nom q r n, e2e_name nom n = true -> vals n (bodiless_framing q r) = [].
Proof.
  intros nom q r n He. unfold bodiless_framing. destruct (is_head q); [now apply (vals_head_framing_e2e nom)|].
  destruct (wants_cl0 q); [|reflexivity]. now rewrite vals_cons, (e2e_not_hop _ _ _ He in_hop_cl).
Qed.

Lemma bodiless_framing_names_not_e2e : forall nom q r n, In n (names_of (bodiless_framing q r)) -> e2e_name nom n = false.
Proof.
  intros nom q r n. unfold bodiless_framing. destruct (is_head q); [apply head_framing_names_not_e2e|].
  destruct (wants_cl0 q); cbn; intro H; [destruct H as [H|[]]; subst; reflexivity|destruct H].
Qed.

Lemma handle_res_preserved : forall e,
  res_preserved_b (resp_of e) (h_res false id_body e) = true.
Proof.
  intro e. rewrite h_res_split. pose proof (handle_res_core_preserved e) as H.
  unfold add_head_framing. destruct (sframing (resp_of e)); try exact H.
  unfold res_preserved_b in *. rewrite !andb_true_iff in *. destruct H as (((H1 & H2) & H3) & H4).
  cbn [c_status c_hdrs c_body c_complete]. repeat split; auto.
  unfold res_hdrs_preserved_b in *. rewrite forallb_forall in *. intros n Hin.
  destruct (e2e_name (nominated (shdrs (resp_of e))) n) eqn:He; [|reflexivity].
  cbn [c_hdrs] in Hin |- *.
  rewrite vals_app, (vals_bodiless_framing_e2e _ _ _ _ He). cbn [app].
  assert (Hin' : In n (names_of (shdrs (resp_of e)) ++ names_of (c_hdrs (h_res_core e)))).
  { apply in_app_or in Hin as [Hin|Hin]; [apply in_or_app; now left|].
    unfold names_of in Hin. rewrite map_app in Hin. apply in_app_or in Hin as [Hin|Hin].
    - rewrite (bodiless_framing_names_not_e2e _ _ _ _ Hin) in He. discriminate.
    - apply in_or_app. now right. }
  specialize (H2 n Hin'). now rewrite He in H2.
Qed.

(* framing headers of bodiless responses *)
Lemma vals_core_framing : forall e n,
  sframing (resp_of e) = FBodiless -> In n framing_names -> vals n (c_hdrs (h_res_core e)) = [].
Proof.
  intros e n F Hn. unfold h_res_core, go_read_response. cbn [andb]. unfold res_write.
  cbn [c_hdrs r_framing r_uncompressed r_hdr]. rewrite F. cbn [app].
  rewrite vals_app.
  assert (A : forall c : bool, vals n (if c then [(s "connection", s "close")] else []) = []).
  { intro c. destruct c; [|reflexivity]. rewrite vals_cons.
    destruct Hn as [Hn|[Hn|[]]]; subst n; reflexivity. }
  rewrite A. cbn [app]. apply vals_exclude_drop.
  destruct Hn as [Hn|[Hn|[]]]; subst n; reflexivity.
Qed.

Lemma handle_frm_preserved : forall e,
  framing_ok e = true -> res_framing_preserved_b (resp_of e) (h_res false id_body e) = true.
Proof.
  intros e G. unfold res_framing_preserved_b. destruct (sframing (resp_of e)) eqn:F; try reflexivity.
  rewrite h_res_split. unfold add_head_framing, framing_ok in *. rewrite F in *.
  apply forallb_forall. intros n Hn. apply strs_eqb_eq.
  cbn [c_hdrs]. rewrite vals_app, (vals_core_framing e n F Hn), app_nil_r.
  unfold bodiless_framing. destruct (is_head (rq e)).
  - apply andb_true_iff in G as [G1 G2].
    unfold head_framing. rewrite (vals_lower_names (s "transfer-encoding")), hget_vals, (vals_lower_names (s "content-length")).
    destruct (vals (s "transfer-encoding") (shdrs (resp_of e))) eqn:TE; [|discriminate].
    change (has_token (s "chunked") []) with false. cbv iota.
    destruct (vals (s "content-length") (shdrs (resp_of e))) as [|c [|]] eqn:CL; try discriminate;
      destruct Hn as [Hn|[Hn|[]]]; subst n; rewrite ?TE, ?CL; reflexivity.
  - apply andb_true_iff in G as [G G2]. apply andb_true_iff in G as [G0 G1]. apply negb_true_iff in G0. rewrite G0.
    destruct (vals (s "content-length") (shdrs (resp_of e))) eqn:CL; [|discriminate].
    destruct (vals (s "transfer-encoding") (shdrs (resp_of e))) eqn:TE; [|discriminate].
    destruct Hn as [Hn|[Hn|[]]]; subst n; now rewrite ?TE, ?CL.
Qed.

(* ---------------------------------------------------------------- whole connections *)

Lemma forall2b_map_l : forall {A B C} (f : B -> C -> bool) (g : A -> B) (h : A -> C) (l : list A),
  (forall x, In x l -> f (g x) (h x) = true) -> forall2b f (map g l) (map h l) = true.
Proof.
  intros A B C f g h l. induction l as [|x l IH]; intro H; [reflexivity|].
  cbn. rewrite (H x (or_introl eq_refl)). cbn. apply IH. intros y Hy. apply H. now right.
Qed.

Lemma served_incl : forall es e, In e (served es) -> In e es.
Proof.
  induction es as [|x es IH]; cbn; [tauto|]. intros e. destruct (wants_close x); cbn.
  - intros [H|[]]; now left.
  - intros [H|H]; [now left|right; now apply IH].
Qed.

Lemma forall2b_map_r : forall {A C} (f : A -> C -> bool) (h : A -> C) (l : list A),
  (forall x, In x l -> f x (h x) = true) -> forall2b f l (map h l) = true.
Proof.
  intros A C f h l. induction l as [|x l IH]; intro H; [reflexivity|].
  cbn. rewrite (H x (or_introl eq_refl)). cbn. apply IH. intros y Hy. apply H. now right.
Qed.

Lemma handle_req_preserved_e : forall d e,
  wf_req (rq e) = true -> req_preserved_e e (h_req false d e) = true.
Proof.
  intros d e Hwf. unfold req_preserved_e. destruct (rd e); [now apply handle_req_preserved|].
  replace (with_body (h_req false d e) (rbody (rq e))) with (h_req false d e); [now apply handle_req_preserved|].
  reflexivity.
Qed.

Lemma run_req_ok : forall es,
  (forall e, In e es -> wf_req (rq e) = true) -> c01_req_ok es (run es) = true.
Proof.
  intros es Hwf. unfold c01_req_ok, run.
  destruct (conn_run_structure false id_body es) as (H1 & _ & _). rewrite H1.
  apply forall2b_map_r. intros e He. apply handle_req_preserved_e. apply Hwf. now apply served_incl.
Qed.

Lemma handle_res_preserved_e : forall e, res_preserved_e e (h_res false id_body e) = true.
Proof.
  intro e. pose proof (handle_res_preserved e) as H. unfold res_preserved_e. destruct (flt e) eqn:F; [|exact H].
  unfold res_preserved_b in H. rewrite !andb_true_iff in H. destruct H as (((H1 & _) & _) & H4).
  unfold resp_of in H1. rewrite F in H1. cbn [status resp_502] in H1. now rewrite H1, H4.
Qed.

Lemma run_res_ok : forall es, c01_res_ok es (run es) = true.
Proof.
  intros es. unfold c01_res_ok, run.
  destruct (conn_run_structure false id_body es) as (_ & H2 & _). rewrite H2.
  apply forall2b_map_r. intros e _. apply handle_res_preserved_e.
Qed.

Lemma run_frm_ok : forall es,
  (forall e, In e es -> framing_ok e = true) -> c01_frm_ok es (run es) = true.
Proof.
  intros es Hwf. unfold c01_frm_ok, run.
  destruct (conn_run_structure false id_body es) as (_ & H2 & _). rewrite H2.
  apply forall2b_map_l. intros e He. apply handle_frm_preserved. apply Hwf. now apply served_incl.
Qed.

Lemma run_close_ok : forall es, c01_close_ok es (run es) = true.
Proof.
  intros es. unfold c01_close_ok, run.
  destruct (conn_run_structure false id_body es) as (_ & _ & H3). rewrite H3. apply eqb_reflx.
Qed.

Lemma run_one_to_one : forall es,
  List.length (origin_saw (run es)) = List.length (served es) /\
  List.length (client_got (run es)) = List.length (served es).
Proof.
  intros es. unfold run. destruct (conn_run_structure false id_body es) as (H1 & H2 & _).
  rewrite H1, H2, !map_length. now split.
Qed.

Lemma run_one_to_one_full : forall es,
  origin_saw (run es) = map (h_req false id_body) (served es) /\
  client_got (run es) = map (h_res false id_body) (served es) /\
  List.length (origin_saw (run es)) = List.length (served es) /\
  List.length (client_got (run es)) = List.length (served es).
Proof.
  intro es. destruct (conn_run_structure false id_body es) as (H1 & H2 & _).
  destruct (run_one_to_one es) as (L1 & L2). unfold run. repeat split; assumption.
Qed.

Lemma run_keepalive : forall es,
  match first_close es with
  | Some i => closed (run es) = true /\ List.length (client_got (run es)) = S i
  | None => closed (run es) = false /\ List.length (client_got (run es)) = List.length es
  end.
Proof.
  intros es. unfold run. destruct (conn_run_structure false id_body es) as (_ & H2 & H3).
  rewrite H2, H3, map_length. pose proof (served_length_first_close es) as L.
  destruct (first_close es) as [i|] eqn:F.
  - split; [|exact L]. destruct (existsb wants_close es) eqn:X; [reflexivity|].
    apply first_close_none in X. congruence.
  - split; [|exact L]. now apply first_close_none.
Qed.

(* ---------------------------------------------------------------- the oracle is the property *)

Definition req_preserved (r : reqmsg) (w : wire_req) : Prop :=
  w_meth w = meth r /\
  w_uri w = norm_pq (path_query r) /\
  (forall n, In n (names_of (rhdrs r)) -> e2e_name (nominated (rhdrs r)) n = true ->
     vals n (w_hdrs w) = if name_eqb n (s "host") then spec_host r else vals n (rhdrs r)) /\
  w_body w = rbody r.

Definition res_preserved (r : respmsg) (c : wire_res) : Prop :=
  c_status c = status r /\
  (forall n, In n (names_of (shdrs r) ++ names_of (c_hdrs c)) -> e2e_name (nominated (shdrs r)) n = true ->
     vals n (c_hdrs c) = vals n (shdrs r)) /\
  c_body c = sbody r /\
  c_complete c = true.

(* the same for an exchange: the body is demanded only of an origin that read it *)
Definition req_preserved_x (e : exchange) (w : wire_req) : Prop :=
  w_meth w = meth (rq e) /\
  w_uri w = norm_pq (path_query (rq e)) /\
  (forall n, In n (names_of (rhdrs (rq e))) -> e2e_name (nominated (rhdrs (rq e))) n = true ->
     vals n (w_hdrs w) = if name_eqb n (s "host") then spec_host (rq e) else vals n (rhdrs (rq e))) /\
  (rd e = ReadAll -> w_body w = rbody (rq e)).

Lemma req_preserved_b_iff : forall r w, req_preserved_b r w = true <-> req_preserved r w.
Proof.
  intros r w. unfold req_preserved_b, req_preserved. rewrite !andb_true_iff, !str_eqb_eq, body_eqb_eq.
  unfold req_hdrs_preserved_b. rewrite forallb_forall.
  split; intros (((H1 & H2) & H3) & H4) || intros (H1 & H2 & H3 & H4); repeat split; auto.
  - intros n Hin He. specialize (H3 n Hin). rewrite He in H3.
    destruct (name_eqb n (s "host")); now apply strs_eqb_eq.
  - intros n Hin. destruct (e2e_name (nominated (rhdrs r)) n) eqn:He; [|reflexivity].
    specialize (H3 n Hin He). destruct (name_eqb n (s "host")); now apply strs_eqb_eq.
Qed.

(* per exchange: after an origin failure, the proxy's own 502, framed *)
Definition res_preserved_x (e : exchange) (c : wire_res) : Prop :=
  if flt e then c_status c = 502%N /\ c_complete c = true else res_preserved (resp_of e) c.

Lemma res_preserved_b_iff : forall r c, res_preserved_b r c = true <-> res_preserved r c.
Proof.
  intros r c. unfold res_preserved_b, res_preserved. rewrite !andb_true_iff, N.eqb_eq, body_eqb_eq.
  unfold res_hdrs_preserved_b. rewrite forallb_forall.
  split; intros (((H1 & H2) & H3) & H4) || intros (H1 & H2 & H3 & H4); repeat split; auto.
  - intros n Hin He. specialize (H2 n Hin). rewrite He in H2. now apply strs_eqb_eq.
  - intros n Hin. destruct (e2e_name (nominated (shdrs r)) n) eqn:He; [|reflexivity].
    apply strs_eqb_eq. now apply H2.
Qed.

Lemma forall2b_Forall2 : forall {A B} (f : A -> B -> bool) (P : A -> B -> Prop),
  (forall a b, f a b = true <-> P a b) ->
  forall l m, forall2b f l m = true <-> Forall2 P l m.
Proof.
  intros A B f P H. induction l as [|x l IH]; destruct m as [|y m]; cbn; split; intro X;
    try discriminate; try constructor; try (inversion X; fail).
  - apply andb_true_iff in X as [X1 X2]. now apply H.
  - apply andb_true_iff in X as [X1 X2]. now apply IH.
  - inversion X; subst. apply andb_true_iff. split; [now apply H|now apply IH].
Qed.

Lemma req_preserved_e_iff : forall e w, req_preserved_e e w = true <-> req_preserved_x e w.
Proof.
  intros e w. unfold req_preserved_e, req_preserved_x. destruct (rd e).
  - rewrite req_preserved_b_iff. unfold req_preserved. intuition congruence.
  - rewrite req_preserved_b_iff. unfold req_preserved, with_body. cbn [w_meth w_uri w_hdrs w_body].
    intuition congruence.
Qed.

(* the origin's reading behaviour is invisible in what the proxy does *)
Lemma conn_run_rd_irrelevant : forall c d (f : exchange -> readmode) es,
  conn_run c d (map (fun e => mkEx (rq e) (rs e) (f e) (flt e)) es) = conn_run c d es.
Proof.
  intros c d f es. induction es as [|e es IH]; [reflexivity|].
  cbn [map conn_run].
  assert (H : handle_model c d (mkEx (rq e) (rs e) (f e) (flt e)) = handle_model c d e) by (destruct e; reflexivity).
  rewrite H, IH. reflexivity.
Qed.

(* bodiless responses: presence and value of the framing headers *)
Definition res_framing_preserved (r : respmsg) (c : wire_res) : Prop :=
  sframing r = FBodiless -> forall n, In n framing_names -> vals n (c_hdrs c) = vals n (shdrs r).

Lemma res_framing_preserved_b_iff : forall r c,
  res_framing_preserved_b r c = true <-> res_framing_preserved r c.
Proof.
  intros r c. unfold res_framing_preserved_b, res_framing_preserved. destruct (sframing r).
  1-3: split; [intros _ X; discriminate|reflexivity].
  rewrite forallb_forall. split.
  - intros H _ n Hn. apply strs_eqb_eq. now apply H.
  - intros H n Hn. apply strs_eqb_eq. now apply H.
Qed.

Lemma res_preserved_e_iff : forall e c, res_preserved_e e c = true <-> res_preserved_x e c.
Proof.
  intros e c. unfold res_preserved_e, res_preserved_x. destruct (flt e); [|apply res_preserved_b_iff].
  now rewrite andb_true_iff, N.eqb_eq.
Qed.

Definition c01_holds (es : list exchange) (o : conn_obs) : Prop :=
  Forall2 req_preserved_x (served es) (origin_saw o) /\
  Forall2 res_preserved_x (served es) (client_got o) /\
  Forall2 res_framing_preserved (map resp_of (served es)) (client_got o) /\
  closed o = existsb wants_close es.

Lemma c01_ok_iff : forall es o, c01_ok es o = true <-> c01_holds es o.
Proof.
  intros es o. unfold c01_ok, c01_holds, c01_req_ok, c01_res_ok, c01_frm_ok, c01_close_ok.
  rewrite !andb_true_iff.
  rewrite (forall2b_Forall2 _ _ req_preserved_e_iff), (forall2b_Forall2 _ _ res_preserved_e_iff),
    (forall2b_Forall2 _ _ res_framing_preserved_b_iff).
  rewrite eqb_true_iff. tauto.
Qed.

(* the three clause oracles the driver evaluates one after the other *)
Lemma c01_req_ok_iff : forall es o,
  c01_req_ok es o = true <-> Forall2 req_preserved_x (served es) (origin_saw o).
Proof. intros. unfold c01_req_ok. apply (forall2b_Forall2 _ _ req_preserved_e_iff). Qed.

Lemma c01_res_ok_iff : forall es o,
  c01_res_ok es o = true <-> Forall2 res_preserved_x (served es) (client_got o).
Proof. intros. unfold c01_res_ok. apply (forall2b_Forall2 _ _ res_preserved_e_iff). Qed.

Lemma c01_close_ok_iff : forall es o,
  c01_close_ok es o = true <-> closed o = existsb wants_close es.
Proof. intros. unfold c01_close_ok. apply eqb_true_iff. Qed.

Lemma Forall2_len : forall {A B} (P : A -> B -> Prop) l m, Forall2 P l m -> List.length l = List.length m.
Proof. intros A B P l m H. induction H; cbn; congruence. Qed.

(* "one request / one response per exchange": a count mismatch fails the clause *)
Lemma c01_req_ok_length : forall es o,
  c01_req_ok es o = true -> List.length (origin_saw o) = List.length (served es).
Proof. intros es o H. apply c01_req_ok_iff in H. symmetry. exact (Forall2_len _ _ _ H). Qed.

Lemma c01_res_ok_length : forall es o,
  c01_res_ok es o = true -> List.length (client_got o) = List.length (served es).
Proof.
  intros es o H. apply c01_res_ok_iff in H. apply Forall2_len in H. now symmetry.
Qed.

(* an observation that passes has no incomplete (unframeable) response in it *)
Lemma c01_res_ok_all_complete : forall es o,
  c01_res_ok es o = true -> Forall (fun c => c_complete c = true) (client_got o).
Proof.
  intros es o H. apply c01_res_ok_iff in H.
  induction H as [|r c rs cs Hrc _ IH]; constructor; [|exact IH].
  unfold res_preserved_x in Hrc. destruct (flt r); apply Hrc.
Qed.

Lemma c01_frm_ok_iff : forall es o,
  c01_frm_ok es o = true <-> Forall2 res_framing_preserved (map resp_of (served es)) (client_got o).
Proof. intros. unfold c01_frm_ok. apply (forall2b_Forall2 _ _ res_framing_preserved_b_iff). Qed.

Lemma run_holds : forall es,
  (forall e, In e es -> wf_ex e = true) -> c01_holds es (run es).
Proof.
  intros es Hwf. apply c01_ok_iff. unfold c01_ok.
  assert (H1 : forall e, In e es -> wf_req (rq e) = true).
  { intros e He. specialize (Hwf e He). unfold wf_ex in Hwf. now apply andb_true_iff in Hwf as [A _]. }
  assert (H2 : forall e, In e es -> framing_ok e = true).
  { intros e He. specialize (Hwf e He). unfold wf_ex in Hwf. now apply andb_true_iff in Hwf as [_ B]. }
  now rewrite (run_req_ok es H1), run_res_ok, (run_frm_ok es H2), run_close_ok.
Qed.

Lemma run_requests : forall es,
  (forall e, In e es -> wf_req (rq e) = true) ->
  Forall2 req_preserved_x (served es) (origin_saw (run es)).
Proof. intros es H. apply c01_req_ok_iff. now apply run_req_ok. Qed.

Lemma run_framing : forall es,
  (forall e, In e es -> framing_ok e = true) ->
  Forall2 res_framing_preserved (map resp_of (served es)) (client_got (run es)).
Proof. intros es H. apply c01_frm_ok_iff. now apply run_frm_ok. Qed.

(* a 304 whose origin states a Content-Length reaches the client without it *)
Definition cl_304 : list exchange :=
  [mkEx (mkReq (s "GET") OriginForm (s "/") false [(s "Host", s "ORIGIN")] (mkBody 0 0) RqNone)
        (Resp (mkResp 304 false [(s "Content-Length", s "99")] (mkBody 0 0) FBodiless)) ReadAll false].

Lemma cl_304_refutes : c01_frm_ok cl_304 (run cl_304) = false.
Proof. vm_compute. reflexivity. Qed.

(* a 204 in answer to POST gets a Content-Length: 0 the origin never sent *)
Definition post_204 : list exchange :=
  [mkEx (mkReq (s "POST") OriginForm (s "/") false [(s "Host", s "ORIGIN")] (mkBody 0 0) RqCL)
        (Resp (mkResp 204 false [] (mkBody 0 0) FBodiless)) ReadAll false].

Lemma post_204_refutes : c01_frm_ok post_204 (run post_204) = false.
Proof. vm_compute. reflexivity. Qed.

(* responses and the close behaviour need no guard at all *)
Lemma run_responses : forall es,
  Forall2 res_preserved_x (served es) (client_got (run es)).
Proof.
  intro es. apply (forall2b_Forall2 _ _ res_preserved_e_iff). apply run_res_ok.
Qed.

(* an origin failure does not close the client connection by itself, and the
   request has been handed to the origin like any other *)
Lemma fault_keeps_connection : forall e, flt e = true -> wants_close e = req_asks_close (rq e).
Proof.
  intros e F. unfold wants_close, resp_of. rewrite F. unfold res_asks_close. cbn. now rewrite orb_false_r.
Qed.

(* ---------------------------------------------------------------- refutations *)

Definition ex_get (hs : list header) (shs : list header) (f : framing) : exchange :=
  mkEx (mkReq (s "GET") OriginForm (s "/") false ((s "Host", s "ORIGIN") :: hs) (mkBody 0 0) RqNone)
       (Resp (mkResp 200 false shs (mkBody 20 7) f)) ReadAll false.

(* two User-Agent fields: the second value is lost *)
Definition two_ua : list exchange :=
  [ex_get [(s "User-Agent", s "a"); (s "User-Agent", s "b")] [] FCL].

Lemma two_ua_refutes : c01_req_ok two_ua (run two_ua) = false.
Proof. vm_compute. reflexivity. Qed.

(* an empty User-Agent field is dropped *)
Definition empty_ua : list exchange := [ex_get [(s "User-Agent", [])] [] FCL].

Lemma empty_ua_refutes : c01_req_ok empty_ua (run empty_ua) = false.
Proof. vm_compute. reflexivity. Qed.

Lemma ua_refutes :
  (exists es, c01_req_ok es (run es) = false /\
     es = [ex_get [(s "User-Agent", s "a"); (s "User-Agent", s "b")] [] FCL]) /\
  (exists es, c01_req_ok es (run es) = false /\
     es = [ex_get [(s "User-Agent", [])] [] FCL]).
Proof.
  split; eexists; (split; [|reflexivity]); [exact two_ua_refutes|exact empty_ua_refutes].
Qed.

(* D37: with the transport's own gzip negotiation on, a client that did not ask
   for gzip gets an unframed, decoded body on a kept-alive connection *)
Definition gzip_case : list exchange :=
  [ex_get [] [(s "Content-Encoding", s "gzip")] FCL; ex_get [] [] FCL].

Lemma gzip_refutes : forall dec, c01_res_ok gzip_case (conn_run true dec gzip_case) = false.
Proof.
  intro dec. unfold c01_res_ok.
  destruct (conn_run_structure true dec gzip_case) as (_ & H2 & _). rewrite H2.
  unfold gzip_case at 1 2. cbn [served].
  assert (W : wants_close (ex_get [] [(s "Content-Encoding", s "gzip")] FCL) = false) by (vm_compute; reflexivity).
  rewrite W. cbn [map forall2b]. apply andb_false_iff. left.
  unfold res_preserved_b. apply andb_false_iff. right.
  vm_compute. reflexivity.
Qed.
