(* C01 — property theorems.  Statements closed by [exact] only.

   [run es] is the model of the (repaired) proxy serving one client connection
   whose script is [es]: for each exchange, what the origin received
   ([origin_saw]), what the client received ([client_got]) and whether the
   proxy closed the connection ([closed]).  [served es] is the prefix of the
   script up to and including the first exchange in which the client or the
   origin asked to close ([wants_close]). *)
From Coq Require Import List NArith Bool Arith Ascii String.
From Martian.C01 Require Import Model Proofs Proofs_Sched.
Import ListNotations.

(* Exactly one forwarded request and one response per served exchange, in
   script order; nothing is forwarded or answered after the closing exchange. *)
Theorem C01_one_to_one_in_order : forall es,
  origin_saw (run es) = map (h_req false id_body) (served es) /\
  client_got (run es) = map (h_res false id_body) (served es) /\
  List.length (origin_saw (run es)) = List.length (served es) /\
  List.length (client_got (run es)) = List.length (served es).
Proof. exact run_one_to_one_full. Qed.
Print Assumptions C01_one_to_one_in_order.

(* Every response reaches the client with the origin's status, the same values
   in the same order for every end-to-end header (none added, none dropped),
   the same body, and framed so that the client can find its end — for every
   script, however the origin framed it. *)
Theorem C01_responses_preserved : forall es,
  Forall2 res_preserved_x (served es) (client_got (run es)).
Proof. exact run_responses. Qed.
Print Assumptions C01_responses_preserved.

(* The connection is closed after response i iff exchange i is the first in
   which either side asked to close; otherwise it stays open after all of them. *)
Theorem C01_keepalive : forall es,
  match first_close es with
  | Some i => closed (run es) = true /\ List.length (client_got (run es)) = S i
  | None => closed (run es) = false /\ List.length (client_got (run es)) = List.length es
  end.
Proof. exact run_keepalive. Qed.
Print Assumptions C01_keepalive.

Theorem C01_first_close_is_first_closing_exchange : forall es i,
  first_close es = Some i <->
  (exists e, nth_error es i = Some e /\ wants_close e = true) /\
  (forall j e, j < i -> nth_error es j = Some e -> wants_close e = false).
Proof. exact first_close_spec. Qed.
Print Assumptions C01_first_close_is_first_closing_exchange.

(* The code's close decision (req.Close || res.Close, as net/http computes
   them) is "the client or the origin asked to close". *)
Theorem C01_close_decision_is_either_side_asked : forall c d e,
  snd (handle_model c d e) = wants_close e.
Proof. exact handle_close. Qed.
Print Assumptions C01_close_decision_is_either_side_asked.

(* Whether the origin reads the whole request body before it answers, only part
   of it, or none of it makes no difference to what the proxy forwards, returns
   and decides about the connection: the state of the client connection after
   an exchange does not depend on the origin's reading behaviour. *)
Theorem C01_origin_read_mode_irrelevant : forall (f : exchange -> readmode) es,
  run (map (fun e => mkEx (rq e) (rs e) (f e) (flt e)) es) = run es.
Proof. intros f es. exact (conn_run_rd_irrelevant false id_body f es). Qed.
Print Assumptions C01_origin_read_mode_irrelevant.

(* Origin faults: an origin that receives the request and then fails (closes
   before a complete response head) has been handed that request exactly once,
   in its place in the order ([C01_one_to_one_in_order] holds for every script,
   faulty exchanges included: [origin_saw] is one entry per served exchange);
   the client gets the proxy's 502 for it, framed ([C01_responses_preserved]),
   and the failure does not by itself end the client connection. *)
Theorem C01_origin_fault_keeps_connection : forall e,
  flt e = true -> wants_close e = req_asks_close (rq e).
Proof. exact fault_keeps_connection. Qed.
Print Assumptions C01_origin_fault_keeps_connection.

(* Requests: same method, target, body, and for every end-to-end header the
   client sent the same values in the same order.  FALSE at full strength of
   the faithful model: net/http's Request.write forwards only the first
   User-Agent value, and none if it is empty. *)
Theorem C01_headers_endtoend_refuted :
  (exists es, c01_req_ok es (run es) = false /\
     es = [ex_get [(s "User-Agent", s "a"); (s "User-Agent", s "b")] [] FCL]) /\
  (exists es, c01_req_ok es (run es) = false /\
     es = [ex_get [(s "User-Agent", [])] [] FCL]).
Proof. exact ua_refutes. Qed.
Print Assumptions C01_headers_endtoend_refuted.

(* Guard: every request has exactly one Host field (HTTP/1.1 well-formedness;
   net/http answers anything else itself) and at most one, non-empty,
   User-Agent field.  Then the whole property holds of every script. *)
Theorem C01_headers_endtoend_partial : forall es,
  (forall e, In e es -> wf_req (rq e) = true) ->
  Forall2 req_preserved_x (served es) (origin_saw (run es)).
Proof. exact run_requests. Qed.
Print Assumptions C01_headers_endtoend_partial.

(* Bodiless responses (to HEAD, 204, 304): the framing headers the client sees -
   Content-Length present or absent AND its value, Transfer-Encoding - are the
   origin's.  FALSE at full strength of the faithful model: net/http's
   Response.Write drops the Content-Length of a 304 (C01-K3) and adds
   "Content-Length: 0" to a bodiless answer to POST/PUT/PATCH (C01-K4). *)
Theorem C01_bodiless_framing_headers_refuted :
  c01_frm_ok cl_304 (run cl_304) = false /\ c01_frm_ok post_204 (run post_204) = false.
Proof. exact (conj cl_304_refutes post_204_refutes). Qed.
Print Assumptions C01_bodiless_framing_headers_refuted.

(* Guard [framing_ok]: for HEAD the origin states at most one Content-Length (any
   value, also one that is not the GET body's length) and no Transfer-Encoding
   (C01-K5, found by the correspondence, is outside the model); a 204/304 states
   no framing header and does not answer POST/PUT/PATCH. *)
Theorem C01_bodiless_framing_headers_partial : forall es,
  (forall e, In e es -> framing_ok e = true) ->
  Forall2 res_framing_preserved (map resp_of (served es)) (client_got (run es)).
Proof. exact run_framing. Qed.
Print Assumptions C01_bodiless_framing_headers_partial.

Theorem C01_framing_oracle_is_the_clause : forall es o,
  c01_frm_ok es o = true <-> Forall2 res_framing_preserved (map resp_of (served es)) (client_got o).
Proof. exact c01_frm_ok_iff. Qed.
Print Assumptions C01_framing_oracle_is_the_clause.

Theorem C01_relay_partial : forall es,
  (forall e, In e es -> wf_ex e = true) -> c01_holds es (run es).
Proof. exact run_holds. Qed.
Print Assumptions C01_relay_partial.

(* D37, the unrepaired proxy (transport compression on): a gzip answer to a
   client that did not ask for gzip cannot be framed by the client. *)
Theorem C01_gzip_refuted : forall dec,
  c01_res_ok gzip_case (conn_run true dec gzip_case) = false.
Proof. exact gzip_refutes. Qed.
Print Assumptions C01_gzip_refuted.

(* The executable oracle run on the real proxy's observation is the property. *)
Theorem C01_oracle_is_the_property : forall es o,
  c01_ok es o = true <-> c01_holds es o.
Proof. exact c01_ok_iff. Qed.
Print Assumptions C01_oracle_is_the_property.

(* The clause oracles the driver evaluates (request_preserved /
   one_request_per_exchange, response_preserved / one_response_per_request,
   keepalive) are, one by one, the Prop-level clauses; a count mismatch fails
   them; a passing observation contains no response the client could not frame. *)
Theorem C01_request_oracle_is_the_clause : forall es o,
  c01_req_ok es o = true <-> Forall2 req_preserved_x (served es) (origin_saw o).
Proof. exact c01_req_ok_iff. Qed.
Print Assumptions C01_request_oracle_is_the_clause.

Theorem C01_response_oracle_is_the_clause : forall es o,
  c01_res_ok es o = true <-> Forall2 res_preserved_x (served es) (client_got o).
Proof. exact c01_res_ok_iff. Qed.
Print Assumptions C01_response_oracle_is_the_clause.

Theorem C01_close_oracle_is_the_clause : forall es o,
  c01_close_ok es o = true <-> closed o = existsb wants_close es.
Proof. exact c01_close_ok_iff. Qed.
Print Assumptions C01_close_oracle_is_the_clause.

Theorem C01_oracles_count_exchanges : forall es o,
  (c01_req_ok es o = true -> List.length (origin_saw o) = List.length (served es)) /\
  (c01_res_ok es o = true -> List.length (client_got o) = List.length (served es) /\
                             Forall (fun c => c_complete c = true) (client_got o)).
Proof. exact oracles_count_exchanges. Qed.
Print Assumptions C01_oracles_count_exchanges.

(* "Sent one at a time or pipelined": for EVERY arrival schedule of the client's
   requests (each request may arrive at any time relative to the proxy's
   progress, in one piece or in several), assuming only that handleLoop serves
   one request at a time (LServe is atomic: handle for request i+1 starts after
   handle for request i returned), what has been forwarded and answered so far
   is a prefix of the sequential run, and when nothing is left to do it is
   exactly the sequential run: pipelining changes nothing. *)
Theorem C01_pipelining_changes_nothing : forall es ls st,
  srun (h01 false id_body) (sinit es) ls = Some st ->
  (exists rest, origin_saw (run es) = map fst (s_out st) ++ map fst rest /\
                client_got (run es) = map snd (s_out st) ++ map snd rest) /\
  (quiescent st ->
     map fst (s_out st) = origin_saw (run es) /\
     map snd (s_out st) = client_got (run es) /\
     s_closed st = closed (run es)).
Proof. exact pipelining_changes_nothing. Qed.
Print Assumptions C01_pipelining_changes_nothing.

(* the same for any connection loop of that shape (used by C03) *)
Theorem C01_schedule_theorem_generic : forall (E O : Type) (h : E -> O * bool) es ls st,
  srun h (sinit es) ls = Some st ->
  (exists rest, fst (loop_run h es) = s_out st ++ rest) /\
  (s_closed st = true -> (s_out st, true) = loop_run h es) /\
  (quiescent st -> (s_out st, s_closed st) = loop_run h es).
Proof. exact schedule_theorem_generic. Qed.
Print Assumptions C01_schedule_theorem_generic.

(* Non-vacuity: a script that satisfies the guard, with a repeated mixed-case
   header, hop-by-hop noise, a nominated header, a closing exchange in the
   middle and an exchange after it that must not be served. *)
Definition example_script : list exchange :=
  [ mkEx (mkReq (s "POST") (AbsForm (s "ORIGIN")) (s "/a?b") false
            [(s "Host", s "bogus.invalid"); (s "X-A", s "1"); (s "x-a", s "2"); (s "User-Agent", s "u");
             (s "Connection", s "x-hop, keep-alive"); (s "X-Hop", s "h"); (s "Pragma", s "no-cache")]
            (mkBody 4097 11) RqChunked)
         (Resp (mkResp 200 false [(s "Set-Cookie", s "a"); (s "set-cookie", s "b"); (s "Keep-Alive", s "t")]
            (mkBody 65536 12) FChunked)) (ReadSome 100) false;
    mkEx (mkReq (s "GET") OriginForm (s "/c") false [(s "Host", s "ORIGIN")] (mkBody 0 0) RqNone)
         (Resp (mkResp 404 true [(s "ETag", s "e")] (mkBody 3 13) FCL)) ReadAll false;
    mkEx (mkReq (s "GET") OriginForm (s "/never") false [(s "Host", s "ORIGIN")] (mkBody 0 0) RqNone)
         (Resp (mkResp 200 false [] (mkBody 1 14) FCL)) ReadAll false ].

Example C01_example :
  forallb wf_ex example_script = true /\
  c01_ok example_script (run example_script) = true /\
  List.length (client_got (run example_script)) = 2 /\
  closed (run example_script) = true /\
  first_close example_script = Some 1 /\
  map (fun w => vals (s "x-a") (w_hdrs w)) (origin_saw (run example_script)) = [[s "1"; s "2"]; []] /\
  map (fun w => vals (s "host") (w_hdrs w)) (origin_saw (run example_script)) = [[s "ORIGIN"]; [s "ORIGIN"]].
Proof. vm_compute. repeat split; reflexivity. Qed.

(* Non-vacuity of the schedule theorem: the example script delivered fully
   pipelined, with a request arriving in pieces, reaches a quiescent state (the
   second exchange closes; the third, although it arrived, is never served). *)
Example C01_schedule_example :
  exists st, srun (h01 false id_body) (sinit example_script)
                  [LArrive; LPartial; LArrive; LArrive; LServe; LPartial; LServe] = Some st /\
             quiescent st /\ List.length (s_out st) = 2 /\ s_closed st = true /\ List.length (s_pending st) = 1.
Proof. eexists. split; [vm_compute; reflexivity|]. vm_compute. repeat split; auto. Qed.

(* ... and a schedule that is not allowed (serving before anything arrived) is not a schedule *)
Example C01_schedule_serve_needs_arrival :
  srun (h01 false id_body) (sinit example_script) [LServe] = None.
Proof. reflexivity. Qed.

(* Non-vacuity of the framing clause: HEAD answered with a length that is not the
   GET body's, HEAD answered chunked, HEAD answered without any length, a 204. *)
Definition head_ex (shs : list header) (st : N) (m : string) : exchange :=
  mkEx (mkReq (s m) OriginForm (s "/") false [(s "Host", s "ORIGIN")] (mkBody 0 0) RqNone)
       (Resp (mkResp st false shs (mkBody 0 0) FBodiless)) ReadAll false.

Example C01_framing_example :
  let es := [head_ex [(s "Content-Length", s "12345")] 200 "HEAD";
             head_ex [(s "content-length", s "0")] 200 "HEAD";
             head_ex [] 200 "HEAD"; head_ex [] 204 "GET"] in
  forallb wf_ex es = true /\ c01_ok es (run es) = true /\
  map (fun c => (vals (s "content-length") (c_hdrs c), vals (s "transfer-encoding") (c_hdrs c))) (client_got (run es))
    = [([s "12345"], []); ([s "0"], []); ([], []); ([], [])].
Proof. vm_compute. repeat split; reflexivity. Qed.

(* Non-vacuity for origin faults: POST with a body to an origin that reads it and
   hangs up, then two more exchanges: three requests at the origin, one each, in
   order; 502 then the origin's answers; connection open. *)
Example C01_fault_example :
  let post := mkReq (s "POST") OriginForm (s "/p") false [(s "Host", s "ORIGIN")] (mkBody 5 77) RqCL in
  let es := [mkEx post (Resp (mkResp 200 false [] (mkBody 1 14) FCL)) ReadAll true;
             mkEx post (Resp (mkResp 201 false [] (mkBody 1 14) FCL)) ReadAll false;
             head_ex [] 204 "GET"] in
  forallb wf_ex es = true /\ c01_ok es (run es) = true /\
  map w_body (origin_saw (run es)) = [mkBody 5 77; mkBody 5 77; mkBody 0 0] /\
  map c_status (client_got (run es)) = [502; 201; 204]%N /\ closed (run es) = false.
Proof. vm_compute. repeat split; reflexivity. Qed.
