(* C01 — arrival schedules: whatever the timing of the client's bytes relative
   to the proxy's progress, the connection loop emits the same thing. *)
From Coq Require Import List NArith Bool Arith Ascii String Lia.
From Martian.C01 Require Import Model Proofs.
Import ListNotations.

Section LoopProofs.
  Variables (E O : Type) (h : E -> O * bool).

  Definition keeps (e : E) : Prop := snd (h e) = false.

  Lemma loop_run_app : forall pre rest,
    Forall keeps pre ->
    loop_run h (pre ++ rest) = (map (fun e => fst (h e)) pre ++ fst (loop_run h rest), snd (loop_run h rest)).
  Proof.
    induction pre as [|e pre IH]; intros rest Hk.
    - cbn. now destruct (loop_run h rest).
    - inversion Hk as [|? ? He Hp]; subst. cbn [app loop_run map]. unfold keeps in He.
      destruct (h e) as [o cl] eqn:Eh. cbn [snd fst] in *. subst cl.
      rewrite (IH rest Hp). reflexivity.
  Qed.

  Lemma loop_run_closing : forall pre e rest,
    Forall keeps pre -> snd (h e) = true ->
    loop_run h (pre ++ e :: rest) = (map (fun e => fst (h e)) (pre ++ [e]), true).
  Proof.
    intros pre e rest Hk He. rewrite loop_run_app by exact Hk. cbn [loop_run].
    destruct (h e) as [o cl] eqn:Eh. cbn [snd] in He. subst cl. cbn [fst snd].
    rewrite map_app. cbn [map]. now rewrite Eh.
  Qed.

  Lemma loop_run_keeps : forall pre, Forall keeps pre ->
    loop_run h pre = (map (fun e => fst (h e)) pre, false).
  Proof.
    intros pre Hk. rewrite <- (app_nil_r pre) at 1. rewrite loop_run_app by exact Hk. cbn. now rewrite app_nil_r.
  Qed.

  (* the invariant of every reachable schedule state *)
  Definition SInv (es : list E) (st : sstate E O) : Prop :=
    exists pre, es = pre ++ s_pending st ++ s_future st /\
                s_out st = map (fun e => fst (h e)) pre /\
                (s_closed st = false -> Forall keeps pre) /\
                (s_closed st = true -> exists pre' e, pre = pre' ++ [e] /\ Forall keeps pre' /\ snd (h e) = true).

  Lemma sinv_init : forall es, SInv es (sinit es).
  Proof. intro es. exists []. cbn. repeat split; auto. discriminate. Qed.

  Lemma sinv_step : forall es st l st', SInv es st -> sstep h st l = Some st' -> SInv es st'.
  Proof.
    intros es st l st' (pre & He & Ho & Hk & Hc) Hs. destruct l; cbn in Hs.
    - (* arrive *)
      destruct (s_future st) as [|e f] eqn:F; [discriminate|]. inversion Hs; subst st'. clear Hs.
      exists pre. cbn [s_pending s_future s_out s_closed]. repeat split; auto.
      rewrite He. now rewrite <- !app_assoc.
    - inversion Hs; subst. exists pre. auto.
    - (* serve *)
      destruct (s_closed st) eqn:C; [discriminate|].
      destruct (s_pending st) as [|e p] eqn:P; [discriminate|].
      destruct (h e) as [o cl] eqn:Eh. inversion Hs; subst st'. clear Hs.
      exists (pre ++ [e]). cbn [s_pending s_future s_out s_closed]. repeat split.
      + rewrite He. now rewrite <- !app_assoc.
      + rewrite Ho, map_app. cbn. now rewrite Eh.
      + intro X. subst cl. apply Forall_app. split; [now apply Hk|]. constructor; [|constructor].
        unfold keeps. now rewrite Eh.
      + intro X. subst cl. exists pre, e. repeat split; [now apply Hk|now rewrite Eh].
  Qed.

  Lemma sinv_run : forall ls es st st', SInv es st -> srun h st ls = Some st' -> SInv es st'.
  Proof.
    induction ls as [|l ls IH]; intros es st st' Hi Hr; cbn in Hr.
    - now inversion Hr; subst.
    - destruct (sstep h st l) as [st1|] eqn:S1; [|discriminate].
      apply (IH es st1 st'); [now apply (sinv_step es st l)|exact Hr].
  Qed.

  (* SAFETY, for every schedule: what has been emitted so far is a prefix of what
     the sequential run emits, and once the loop has stopped it is all of it. *)
  Theorem sched_safety : forall es ls st,
    srun h (sinit es) ls = Some st ->
    (exists rest, fst (loop_run h es) = s_out st ++ rest) /\
    (s_closed st = true -> (s_out st, true) = loop_run h es).
  Proof.
    intros es ls st Hr. destruct (sinv_run ls es _ st (sinv_init es) Hr) as (pre & He & Ho & Hk & Hc).
    destruct (s_closed st) eqn:C.
    - destruct (Hc eq_refl) as (pre' & e & Hp & Hk' & Hcl). subst pre.
      assert (L : loop_run h es = (s_out st, true)).
      { rewrite He, <- app_assoc. cbn [app]. rewrite (loop_run_closing pre' e _ Hk' Hcl). now rewrite Ho. }
      split; [exists []; rewrite L; cbn; now rewrite app_nil_r|intros _; now rewrite L].
    - split; [|discriminate]. rewrite He, (loop_run_app pre _ (Hk eq_refl)). cbn [fst].
      rewrite Ho. eexists. reflexivity.
  Qed.

  (* COMPLETENESS: when nothing is left to do, exactly the sequential run has been emitted. *)
  Theorem sched_complete : forall es ls st,
    srun h (sinit es) ls = Some st -> quiescent st ->
    (s_out st, s_closed st) = loop_run h es.
  Proof.
    intros es ls st Hr [Hf Hq]. destruct (sinv_run ls es _ st (sinv_init es) Hr) as (pre & He & Ho & Hk & Hc).
    destruct (s_closed st) eqn:C.
    - now apply (sched_safety es ls st Hr).
    - destruct Hq as [X|Hp]; [discriminate|]. rewrite Hf, Hp in He. cbn in He. rewrite app_nil_r in He. subst es.
      rewrite (loop_run_keeps pre (Hk eq_refl)). now rewrite Ho.
  Qed.

  (* the schedules exist: fully sequential and fully pipelined delivery both reach quiescence *)
  Fixpoint seq_schedule (es : list E) : list slabel :=
    match es with
    | [] => []
    | e :: es' => LArrive :: LServe :: (if snd (h e) then repeat LArrive (List.length es') else seq_schedule es')
    end.
End LoopProofs.

(* ---------------------------------------------------------------- C01's loop is that loop *)

Definition h01 (c : bool) (d : bodytok -> bodytok) (e : exchange) : (wire_req * wire_res) * bool :=
  handle_model c d e.

Lemma conn_run_is_loop : forall c d es,
  origin_saw (conn_run c d es) = map fst (fst (loop_run (h01 c d) es)) /\
  client_got (conn_run c d es) = map snd (fst (loop_run (h01 c d) es)) /\
  closed (conn_run c d es) = snd (loop_run (h01 c d) es).
Proof.
  intros c d es. induction es as [|e es IH]; [now cbn|].
  cbn [conn_run loop_run]. unfold h01 at 1 3 5. destruct (handle_model c d e) as [[wq wr] cl].
  destruct cl; [now cbn|].
  destruct IH as (I1 & I2 & I3). destruct (loop_run (h01 c d) es) as [os cc].
  cbn [origin_saw client_got closed fst snd map] in *. now rewrite I1, I2, I3.
Qed.

(* Pipelining, partial pipelining, one request at a time: for EVERY arrival
   schedule of the client's requests, once nothing is left to do the origin has
   seen and the client has got exactly what the sequential model says. *)
Lemma c01_schedule_independent : forall es ls st,
  srun (h01 false id_body) (sinit es) ls = Some st -> quiescent st ->
  map fst (s_out st) = origin_saw (run es) /\
  map snd (s_out st) = client_got (run es) /\
  s_closed st = closed (run es).
Proof.
  intros es ls st Hr Hq. pose proof (sched_complete _ _ _ es ls st Hr Hq) as H.
  destruct (conn_run_is_loop false id_body es) as (A & B & C). unfold run.
  rewrite A, B, C, <- H. now cbn.
Qed.

Lemma c01_schedule_prefix : forall es ls st,
  srun (h01 false id_body) (sinit es) ls = Some st ->
  exists rest, origin_saw (run es) = map fst (s_out st) ++ map fst rest /\
               client_got (run es) = map snd (s_out st) ++ map snd rest.
Proof.
  intros es ls st Hr. destruct (sched_safety _ _ _ es ls st Hr) as [[rest H] _].
  destruct (conn_run_is_loop false id_body es) as (A & B & _). unfold run.
  exists rest. now rewrite A, B, H, !map_app.
Qed.

(* ---------------------------------------------------------------- statements used by Properties.v *)

Lemma oracles_count_exchanges : forall es o,
  (c01_req_ok es o = true -> List.length (origin_saw o) = List.length (served es)) /\
  (c01_res_ok es o = true -> List.length (client_got o) = List.length (served es) /\
                             Forall (fun c => c_complete c = true) (client_got o)).
Proof.
  intros es o. split; [exact (c01_req_ok_length es o)|].
  intro H. split; [exact (c01_res_ok_length es o H)|exact (c01_res_ok_all_complete es o H)].
Qed.

Lemma pipelining_changes_nothing : forall es ls st,
  srun (h01 false id_body) (sinit es) ls = Some st ->
  (exists rest, origin_saw (run es) = map fst (s_out st) ++ map fst rest /\
                client_got (run es) = map snd (s_out st) ++ map snd rest) /\
  (quiescent st ->
     map fst (s_out st) = origin_saw (run es) /\
     map snd (s_out st) = client_got (run es) /\
     s_closed st = closed (run es)).
Proof.
  intros es ls st H. split; [exact (c01_schedule_prefix es ls st H)|exact (c01_schedule_independent es ls st H)].
Qed.

Lemma schedule_theorem_generic : forall (E O : Type) (h : E -> O * bool) es ls st,
  srun h (sinit es) ls = Some st ->
  (exists rest, fst (loop_run h es) = s_out st ++ rest) /\
  (s_closed st = true -> (s_out st, true) = loop_run h es) /\
  (quiescent st -> (s_out st, s_closed st) = loop_run h es).
Proof.
  intros E O h es ls st H. destruct (sched_safety E O h es ls st H) as [A B].
  repeat split; [exact A|exact B|exact (sched_complete E O h es ls st H)].
Qed.
