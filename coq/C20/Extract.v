From Coq Require Import ExtrOcamlBasic ExtrOcamlString.
From Martian.Common Require Import ExtractBase.
From Martian.C20 Require Import Model.
Extraction Language OCaml.
Extraction "model.ml" base_anchor body_resp static_resp c20_body_ok c20_static_ok
  result_eqb shape_ok requested parse_ranges clean join2 static_path atoi trim_space dec
  ascii_lower all_ascii trim_left split beq has_prefix sub blen multipart_ctype
  serve_clause static_clause static_resp_cfg static_clause_cfg configured_root.
