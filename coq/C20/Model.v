(* C20 — synthetic bodies honour Range exactly and stay inside their root.

   Executable model of body.Modifier.ModifyResponse and
   static.Modifier.ModifyResponse of google/martian AS REPAIRED by
   fixes/C20-1-body-range-resolution.diff, fixes/C20-2-static-range-resolution.diff
   and fixes/C20-3-static-rooted-path.diff:

     rh = strings.ToLower(Range);  specs = strings.Split(strings.TrimLeft(rh,"bytes="), ",")
     every spec goes through resolveRange(spec,size)  (Split "-", TrimSpace, Atoi,
     suffix form, clamp of the last position, 416 when nothing is selected)
     one range  -> 206, Content-Range, the slice
     >= 2       -> 206, multipart/byteranges, one part per range
     static: path = filepath.Join(root, filepath.Clean("/"+URL.Path)) (or the explicit mapping)

   Definitions only.  Byte strings are [list ascii].  Go slice expressions,
   make() and ReadAt are partial ([go_slice], [go_make], [read_at]): where Go
   panics / errors the model answers RPanic / RErr, so "never panics" is a
   theorem (Proofs.v) and not a tautology of firstn/skipn. *)
From Coq Require Import List ZArith NArith Ascii String Bool.
Import ListNotations.
Open Scope Z_scope.

Definition bytes := list ascii.
Definition s2l (s : string) : bytes := list_ascii_of_string s.

Definition ceq (a b : ascii) : bool := Ascii.eqb a b.
Definition code (c : ascii) : Z := Z.of_N (N_of_ascii c).

Fixpoint beq (a b : bytes) : bool :=
  match a, b with
  | [], [] => true
  | x :: a', y :: b' => ceq x y && beq a' b'
  | _, _ => false
  end.

Definition is_nil {A} (l : list A) : bool := match l with [] => true | _ => false end.
Definition blen (b : bytes) : Z := Z.of_nat (List.length b).

(* ------------------------------------------------------------------ *)
(* Go string functions used by the parser                              *)

(* the ASCII fast path of strings.ToLower (the whole of it when every byte
   is < 0x80); for other strings Go's unicode.ToLower mapping is external:
   every model function takes [lower] as an argument and the theorems hold
   for every [lower]. *)
Definition lower_byte (c : ascii) : ascii :=
  let n := code c in
  if (65 <=? n) && (n <=? 90) then ascii_of_N (Z.to_N (n + 32)) else c.
Definition ascii_lower (s : bytes) : bytes := map lower_byte s.
Definition all_ascii (s : bytes) : bool := forallb (fun c => code c <? 128) s.

(* strings.TrimLeft(s, cutset) with an ASCII cutset: byte-wise *)
Definition in_set (c : ascii) (cut : bytes) : bool := existsb (ceq c) cut.
Fixpoint trim_left (cut s : bytes) : bytes :=
  match s with
  | [] => []
  | c :: r => if in_set c cut then trim_left cut r else s
  end.

(* strings.Split(s, sep) for a one-byte separator: n separators -> n+1 pieces *)
Fixpoint split (sep : ascii) (s : bytes) : list bytes :=
  match s with
  | [] => [[]]
  | c :: r =>
      if ceq c sep then [] :: split sep r
      else match split sep r with
           | p :: ps => (c :: p) :: ps
           | [] => [[c]]
           end
  end.

(* strings.TrimSpace: strips Unicode White_Space runes from both ends.  The
   runes are U+0009..U+000D, U+0020, U+0085, U+00A0, U+1680, U+2000..U+200A,
   U+2028, U+2029, U+202F, U+205F, U+3000, matched here by their UTF-8
   encodings (after ToLower the string is valid UTF-8 or pure ASCII, so a
   prefix / suffix equal to an encoding is that rune). *)
Definition sp1 (a : Z) : bool := ((9 <=? a) && (a <=? 13)) || (a =? 32).
Definition sp2 (a b : Z) : bool := (a =? 194) && ((b =? 133) || (b =? 160)).
Definition sp3 (a b c : Z) : bool :=
  ((a =? 225) && (b =? 154) && (c =? 128)) ||
  ((a =? 226) && (b =? 128) && (((128 <=? c) && (c <=? 138)) || (c =? 168) || (c =? 169) || (c =? 175))) ||
  ((a =? 226) && (b =? 129) && (c =? 159)) ||
  ((a =? 227) && (b =? 128) && (c =? 128)).

Fixpoint trim_space_l (s : bytes) : bytes :=
  match s with
  | [] => []
  | a :: r =>
      if sp1 (code a) then trim_space_l r else
      match r with
      | [] => s
      | b :: r2 =>
          if sp2 (code a) (code b) then trim_space_l r2 else
          match r2 with
          | [] => s
          | c :: r3 => if sp3 (code a) (code b) (code c) then trim_space_l r3 else s
          end
      end
  end.

(* the same on the reversed string (encodings reversed) *)
Fixpoint trim_space_r (s : bytes) : bytes :=
  match s with
  | [] => []
  | a :: r =>
      if sp1 (code a) then trim_space_r r else
      match r with
      | [] => s
      | b :: r2 =>
          if sp2 (code b) (code a) then trim_space_r r2 else
          match r2 with
          | [] => s
          | c :: r3 => if sp3 (code c) (code b) (code a) then trim_space_r r3 else s
          end
      end
  end.

Definition trim_space (s : bytes) : bytes := rev (trim_space_r (rev (trim_space_l s))).

(* strconv.Atoi on a 64-bit platform: optional sign, at least one digit,
   digits only, value within int64 (else an error) *)
Definition max_int : Z := 9223372036854775807.
Definition min_int : Z := -9223372036854775808.

Definition digit_val (c : ascii) : option Z :=
  let n := code c in if (48 <=? n) && (n <=? 57) then Some (n - 48) else None.

Fixpoint digits (acc : Z) (s : bytes) : option Z :=
  match s with
  | [] => Some acc
  | c :: r => match digit_val c with
              | Some d => digits (acc * 10 + d) r
              | None => None
              end
  end.

Definition atoi (s : bytes) : option Z :=
  let '(neg, body) :=
    match s with
    | c :: r => if ceq c "+"%char then (false, r)
                else if ceq c "-"%char then (true, r) else (false, s)
    | [] => (false, s)
    end in
  match body with
  | [] => None
  | _ => match digits 0 body with
         | Some v => let v' := if neg then - v else v in
                     if (min_int <=? v') && (v' <=? max_int) then Some v' else None
         | None => None
         end
  end.

(* fmt.Sprintf("%d"): decimal digits by doubling, structural on the binary
   representation (no fuel) *)
Fixpoint dbl (ds : list N) (c : N) : list N :=
  match ds with
  | [] => if N.eqb c 0 then [] else [c]
  | d :: r => let v := (2 * d + c)%N in N.modulo v 10 :: dbl r (N.div v 10)
  end.
Fixpoint digs (p : positive) : list N :=
  match p with
  | xH => [1%N]
  | xO q => dbl (digs q) 0
  | xI q => dbl (digs q) 1
  end.
Definition digit_char (d : N) : ascii := ascii_of_N (48 + d).
Definition dec_pos (p : positive) : bytes := rev (map digit_char (digs p)).
Definition dec (z : Z) : bytes :=
  match z with
  | Z0 => s2l "0"
  | Zpos p => dec_pos p
  | Zneg p => "-"%char :: dec_pos p
  end.

(* ------------------------------------------------------------------ *)
(* Range resolution                                                    *)

(* transcription of the repaired Go function resolveRange(spec, size) *)
Definition resolve_range (spec : bytes) (size : Z) : option (Z * Z) :=
  match split "-"%char spec with
  | [a; b] =>
      let first := trim_space a in
      let last := trim_space b in
      if is_nil first then
        match atoi last with
        | Some n =>
            if (n <=? 0) || (size =? 0) then None
            else let n' := if n >? size then size else n in
                 Some (size - n', size - 1)
        | None => None
        end
      else
        match atoi first with
        | Some start =>
            if (start <? 0) || (start >=? size) then None
            else if is_nil last then Some (start, size - 1)
            else match atoi last with
                 | Some e =>
                     if start >? e then None
                     else Some (start, if e >=? size then size - 1 else e)
                 | None => None
                 end
        | None => None
        end
  | _ => None
  end.

Fixpoint map_opt {A B} (f : A -> option B) (l : list A) : option (list B) :=
  match l with
  | [] => Some []
  | x :: r => match f x with
              | Some y => match map_opt f r with Some ys => Some (y :: ys) | None => None end
              | None => None
              end
  end.

(* the header loop of ModifyResponse: None = 416 *)
Definition range_specs (lower : bytes -> bytes) (h : bytes) : list bytes :=
  split ","%char (trim_left (s2l "bytes=") (lower h)).

Definition parse_ranges (lower : bytes -> bytes) (h : bytes) (size : Z) : option (list (Z * Z)) :=
  map_opt (fun s => resolve_range s size) (range_specs lower h).

(* ---- the reading of a Range header the property is stated against ---- *)
(* syntax of one byte-range-spec as this parser reads it *)
Inductive rspec := FromTo (a b : Z) | From (a : Z) | Suffix (n : Z).

Definition parse_spec (spec : bytes) : option rspec :=
  match split "-"%char spec with
  | [a; b] =>
      let first := trim_space a in
      let last := trim_space b in
      if is_nil first then
        match atoi last with Some n => Some (Suffix n) | None => None end
      else match atoi first with
           | Some s => if is_nil last then Some (From s)
                       else match atoi last with Some e => Some (FromTo s e) | None => None end
           | None => None
           end
  | _ => None
  end.

(* RFC 7233 section 2.1 meaning of a spec against [size] bytes of content:
   the selected positions, last position clamped to the final byte;
   None = selects nothing = not satisfiable *)
Definition rfc_resolve (size : Z) (r : rspec) : option (Z * Z) :=
  match r with
  | FromTo a b => if (0 <=? a) && (a <=? b) && (a <? size) then Some (a, Z.min b (size - 1)) else None
  | From a => if (0 <=? a) && (a <? size) then Some (a, size - 1) else None
  | Suffix n => if (0 <? n) && (0 <? size) then Some (size - Z.min n size, size - 1) else None
  end.

(* requested ranges of a header: None if any spec is malformed or unsatisfiable *)
Definition requested (lower : bytes -> bytes) (h : bytes) (size : Z) : option (list (Z * Z)) :=
  map_opt (fun s => match parse_spec s with Some r => rfc_resolve size r | None => None end)
          (range_specs lower h).

(* ------------------------------------------------------------------ *)
(* Go partial operations                                               *)

(* b[lo:hi] on a slice with len = cap *)
Definition go_slice (b : bytes) (lo hi : Z) : option bytes :=
  if (0 <=? lo) && (lo <=? hi) && (hi <=? blen b)
  then Some (firstn (Z.to_nat (hi - lo)) (skipn (Z.to_nat lo) b))
  else None.

(* make([]byte, n): panics when n < 0.  (Exhausting memory for a large n is
   outside the model; after the repair n never exceeds the file's size.) *)
Definition go_make (n : Z) : option nat :=
  if 0 <=? n then Some (Z.to_nat n) else None.

(* os.File.ReadAt(seg, off) followed by seg = seg[:n]: error for a
   negative offset, otherwise the bytes present at off.. (io.EOF when short) *)
Definition read_at (file : bytes) (off : Z) (n : nat) : option bytes :=
  if off <? 0 then None else Some (firstn n (skipn (Z.to_nat off) file)).

(* the bytes at positions s..e: the specification-side notion *)
Definition sub (b : bytes) (s e : Z) : bytes :=
  firstn (Z.to_nat (e - s + 1)) (skipn (Z.to_nat s) b).

(* ------------------------------------------------------------------ *)
(* Responses                                                           *)

Record part := mkPart { p_ctype : bytes; p_crange : bytes; p_data : bytes }.

Record resp := mkResp {
  r_status : Z;
  r_clen : Z;                       (* res.ContentLength *)
  r_ctype : bytes;                  (* Content-Type header *)
  r_crange : bytes;                 (* Content-Range header, [] when absent *)
  r_body : bytes;                   (* every byte the body yields *)
  r_parts : option (list part)      (* the parts of a multipart body *)
}.

Inductive result :=
| Resp (r : resp)          (* returned nil with a fresh body installed *)
| RStatusOnly (st : Z)     (* returned nil, only the status was changed, no body bytes *)
| RErr (st : Z)            (* returned an error; st = status at that point *)
| RDir                     (* static: the path is a directory (outside the property) *)
| RPanic.

Definition crlf : bytes := ["013"%char; "010"%char].

Definition content_range (s e size : Z) : bytes :=
  s2l "bytes " ++ dec s ++ s2l "-" ++ dec e ++ s2l "/" ++ dec size.

Definition content_range_unsat (size : Z) : bytes := s2l "bytes */" ++ dec size.

(* mime/multipart.Writer: CreatePart (header keys sorted) ... Close *)
Definition render_part (bnd : bytes) (first : bool) (p : part) : bytes :=
  (if first then [] else crlf) ++ s2l "--" ++ bnd ++ crlf ++
  s2l "Content-Range: " ++ p_crange p ++ crlf ++
  s2l "Content-Type: " ++ p_ctype p ++ crlf ++ crlf ++ p_data p.

Fixpoint render_parts (bnd : bytes) (first : bool) (ps : list part) : bytes :=
  match ps with
  | [] => []
  | p :: r => render_part bnd first p ++ render_parts bnd false r
  end.

Definition render_multipart (bnd : bytes) (ps : list part) : bytes :=
  render_parts bnd true ps ++ crlf ++ s2l "--" ++ bnd ++ s2l "--" ++ crlf.

Definition multipart_ctype (bnd : bytes) : bytes := s2l "multipart/byteranges; boundary=" ++ bnd.

Definition resp416 (ct : bytes) (size : Z) : resp :=
  mkResp 416 0 ct (content_range_unsat size) [] None.

(* how the bytes of one range are obtained *)
Inductive fetched := FBytes (b : bytes) | FPanic | FError.

(* body.Modifier: seg := m.body[start : end+1] *)
Definition fetch_slice (content : bytes) (s e : Z) : fetched :=
  match go_slice content s (e + 1) with Some b => FBytes b | None => FPanic end.

(* static.Modifier: seg := make([]byte, end-start+1); n, err := f.ReadAt(seg, start); seg = seg[:n] *)
Definition fetch_file (content : bytes) (s e : Z) : fetched :=
  match go_make (e - s + 1) with
  | None => FPanic
  | Some n => match read_at content s n with Some b => FBytes b | None => FError end
  end.

Fixpoint fetch_parts (fetch : Z -> Z -> fetched) (ct : bytes) (size : Z) (rs : list (Z * Z))
  : option (option (list part)) :=      (* None = panic, Some None = error *)
  match rs with
  | [] => Some (Some [])
  | (s, e) :: r =>
      match fetch s e with
      | FPanic => None
      | FError => Some None
      | FBytes b =>
          match fetch_parts fetch ct size r with
          | Some (Some ps) => Some (Some (mkPart ct (content_range s e size) b :: ps))
          | x => x
          end
      end
  end.

(* the part of ModifyResponse common to both modifiers, once the content
   (m.body / the opened file), its Content-Type and the boundary are known *)
Definition serve (lower : bytes -> bytes) (fetch : bytes -> Z -> Z -> fetched)
           (content ct bnd : bytes) (st0 : Z) (hdr : bytes) : result :=
  let size := blen content in
  if is_nil hdr then Resp (mkResp st0 size ct [] content None)
  else
    match parse_ranges lower hdr size with
    | None => Resp (resp416 ct size)
    | Some [(s, e)] =>
        match fetch content s e with
        | FBytes seg => Resp (mkResp 206 (blen seg) ct (content_range s e size) seg None)
        | FPanic => RPanic
        | FError => RErr 206
        end
    | Some rs =>
        match fetch_parts (fetch content) ct size rs with
        | None => RPanic
        | Some None => RErr 206
        | Some (Some ps) =>
            let b := render_multipart bnd ps in
            Resp (mkResp 206 (blen b) (multipart_ctype bnd) [] b (Some ps))
        end
    end.

Definition body_resp (lower : bytes -> bytes) (content ct bnd : bytes) (st0 : Z) (hdr : bytes) : result :=
  serve lower fetch_slice content ct bnd st0 hdr.

(* ------------------------------------------------------------------ *)
(* Paths: filepath.Clean / filepath.Join on a slash-separated system     *)

Definition slash : ascii := "/"%char.
Definition dot : bytes := s2l ".".
Definition dotdot : bytes := s2l "..".

(* one path element against the element stack (kept reversed).  Rooted:
   ".." at the root is dropped.  Unrooted: leading ".." elements are kept and
   protected (Clean's [dotdot] index). *)
Definition clean_step (rooted : bool) (st : list bytes) (seg : bytes) : list bytes :=
  if is_nil seg || beq seg dot then st
  else if beq seg dotdot then
    match st with
    | [] => if rooted then [] else [dotdot]
    | top :: below => if beq top dotdot then dotdot :: st else below
    end
  else seg :: st.

Definition is_rooted (p : bytes) : bool :=
  match p with c :: _ => ceq c slash | [] => false end.

(* canonical form of a path: (rooted?, elements in order) *)
Definition elems (p : bytes) : bool * list bytes :=
  let r := is_rooted p in
  (r, rev (fold_left (clean_step r) (split slash p) [])).

Fixpoint join_with (sep : ascii) (l : list bytes) : bytes :=
  match l with
  | [] => []
  | [x] => x
  | x :: r => x ++ sep :: join_with sep r
  end.

Definition render_path (c : bool * list bytes) : bytes :=
  let '(r, st) := c in
  if r then slash :: join_with slash st
  else match st with [] => dot | _ => join_with slash st end.

Definition clean (p : bytes) : bytes := render_path (elems p).

(* filepath.Join(a, b): non-empty elements joined by "/" then Clean; "" if all empty *)
Definition join2 (a b : bytes) : bytes :=
  match a, b with
  | [], [] => []
  | [], _ => clean b
  | _, [] => clean a
  | _, _ => clean (a ++ slash :: b)
  end.

Fixpoint assoc (k : bytes) (m : list (bytes * bytes)) : option bytes :=
  match m with
  | [] => None
  | (k', v) :: r => if beq k k' then Some v else assoc k r
  end.

(* static.Modifier: reqpth := filepath.Clean("/" + URL.Path); explicit mapping wins *)
Definition req_path (urlpath : bytes) : bytes := clean (slash :: urlpath).

Definition static_path (root : bytes) (explicit : list (bytes * bytes)) (urlpath : bytes) : bytes :=
  let rp := req_path urlpath in
  match assoc rp explicit with
  | Some v => join2 root v
  | None => join2 root rp
  end.

(* static.NewModifier(rootPath) / the JSON config's "rootPath" (missing = ""):
   the modifier keeps path.Clean(rootPath) -- "" becomes ".", never "" *)
Definition configured_root (raw : bytes) : bytes := clean raw.

(* what os.Open / Stat / mime.TypeByExtension say about a path: external *)
Inductive fsres :=
| FFile (data : bytes) (ctype : bytes)
| FDir
| FNotExist
| FPerm
| FOther.

Definition static_resp (lower : bytes -> bytes) (fs : bytes -> fsres)
           (root : bytes) (explicit : list (bytes * bytes)) (bnd : bytes)
           (st0 : Z) (urlpath hdr : bytes) : result :=
  match fs (static_path root explicit urlpath) with
  | FNotExist => RStatusOnly 404
  | FPerm => RErr 401
  | FOther => RErr 500
  | FDir => RDir
  | FFile data ct => serve lower fetch_file data ct bnd st0 hdr
  end.

(* ------------------------------------------------------------------ *)
(* The property as an executable oracle on an observed result          *)

Fixpoint parts_eqb (a b : list part) : bool :=
  match a, b with
  | [], [] => true
  | x :: a', y :: b' =>
      beq (p_ctype x) (p_ctype y) && beq (p_crange x) (p_crange y) &&
      beq (p_data x) (p_data y) && parts_eqb a' b'
  | _, _ => false
  end.

Definition want_part (content ct : bytes) (r : Z * Z) : part :=
  let '(s, e) := r in mkPart ct (content_range s e (blen content)) (sub content s e).

Fixpoint has_prefix (p s : bytes) : bool :=
  match p, s with
  | [], _ => true
  | x :: p', y :: s' => ceq x y && has_prefix p' s'
  | _, _ => false
  end.

(* one of the three shapes, for content [content] of type [ct], initial
   status [st0] and Range header [hdr] ([] = none) *)
Definition shape_ok (lower : bytes -> bytes) (content ct : bytes) (st0 : Z) (hdr : bytes) (r : resp) : bool :=
  let size := blen content in
  if is_nil hdr then
    (r_status r =? st0) && (r_clen r =? size) && beq (r_body r) content &&
    is_nil (r_crange r) && beq (r_ctype r) ct &&
    match r_parts r with None => true | Some _ => false end
  else
    match requested lower hdr size with
    | None => (r_status r =? 416) && is_nil (r_body r) && (r_clen r =? 0) &&
              match r_parts r with None => true | Some _ => false end
    | Some [(s, e)] =>
        (r_status r =? 206) && beq (r_crange r) (content_range s e size) &&
        (r_clen r =? e - s + 1) && beq (r_body r) (sub content s e) &&
        beq (r_ctype r) ct &&
        match r_parts r with None => true | Some _ => false end
    | Some rs =>
        (r_status r =? 206) && (r_clen r =? blen (r_body r)) &&
        has_prefix (s2l "multipart/byteranges; boundary=") (r_ctype r) &&
        match r_parts r with
        | Some ps => parts_eqb ps (map (want_part content ct) rs)
        | None => false
        end
    end.

Definition c20_serve_ok (lower : bytes -> bytes) (content ct : bytes) (st0 : Z) (hdr : bytes) (o : result) : bool :=
  match o with
  | Resp r => shape_ok lower content ct st0 hdr r
  | RStatusOnly st =>
      (* a bare 416 (no body bytes) for a header that is not satisfiable *)
      negb (is_nil hdr) && (st =? 416) &&
      match requested lower hdr (blen content) with None => true | Some _ => false end
  | RErr _ | RDir | RPanic => false
  end.

(* body.Modifier *)
Definition c20_body_ok := c20_serve_ok.

(* static.Modifier: the file system's answer for the path the request must
   resolve to decides what may be served *)
Definition c20_static_ok (lower : bytes -> bytes) (fs : bytes -> fsres)
           (root : bytes) (explicit : list (bytes * bytes))
           (st0 : Z) (urlpath hdr : bytes) (o : result) : bool :=
  match fs (static_path root explicit urlpath) with
  | FFile data ct => c20_serve_ok lower data ct st0 hdr o
  | FNotExist => match o with RStatusOnly st => st =? 404 | _ => false end
  | FDir => match o with RDir => true | _ => false end
  | FPerm | FOther => match o with RErr _ => true | _ => false end
  end.

(* ------------------------------------------------------------------ *)
(* which clause of the property a refused observation breaks (the clause
   identifiers the driver prints).  Proofs_Oracle.v states what each means. *)

(* byte chunks a response hands out *)
Definition chunks (r : resp) : list bytes :=
  match r_parts r with Some ps => map p_data ps | None => [r_body r] end.

(* is [ch] a contiguous piece of [c]? *)
Fixpoint is_infix (ch c : bytes) : bool :=
  has_prefix ch c || match c with [] => false | _ :: c' => is_infix ch c' end.

Definition all_inside (content : bytes) (r : resp) : bool :=
  forallb (fun ch => is_infix ch content) (chunks r).

Inductive clause :=
| CNeverPanics | CFullOr206Or416 | C206ExactBytes | CNeverOutsideContent | CPathUnderRoot.

Definition serve_clause (lower : bytes -> bytes) (content ct : bytes) (st0 : Z) (hdr : bytes)
           (o : result) : option clause :=
  if c20_serve_ok lower content ct st0 hdr o then None
  else Some
    match o with
    | RPanic => CNeverPanics
    | Resp r => if negb (all_inside content r) then CNeverOutsideContent
                else if r_status r =? 206 then C206ExactBytes else CFullOr206Or416
    | _ => CFullOr206Or416
    end.

Definition static_clause (lower : bytes -> bytes) (fs : bytes -> fsres)
           (root : bytes) (explicit : list (bytes * bytes))
           (st0 : Z) (urlpath hdr : bytes) (o : result) : option clause :=
  if c20_static_ok lower fs root explicit st0 urlpath hdr o then None
  else Some
    match o with
    | RPanic => CNeverPanics
    | Resp r =>
        match fs (static_path root explicit urlpath) with
        | FFile data _ =>
            if negb (all_inside data r) then
              (* without a Range header: the whole of some other file *)
              if is_nil hdr && negb (is_nil (r_body r)) then CPathUnderRoot else CNeverOutsideContent
            else if r_status r =? 206 then C206ExactBytes else CFullOr206Or416
        | _ => (* nothing beneath the root to serve, yet bytes came back *)
            if negb (is_nil (r_body r)) then CPathUnderRoot else CFullOr206Or416
        end
    | _ => CFullOr206Or416
    end.

(* the same, from the root as configured *)
Definition static_resp_cfg (lower : bytes -> bytes) (fs : bytes -> fsres)
           (rawroot : bytes) (explicit : list (bytes * bytes)) (bnd : bytes)
           (st0 : Z) (urlpath hdr : bytes) : result :=
  static_resp lower fs (configured_root rawroot) explicit bnd st0 urlpath hdr.

Definition static_clause_cfg (lower : bytes -> bytes) (fs : bytes -> fsres)
           (rawroot : bytes) (explicit : list (bytes * bytes))
           (st0 : Z) (urlpath hdr : bytes) (o : result) : option clause :=
  static_clause lower fs (configured_root rawroot) explicit st0 urlpath hdr o.

(* ------------------------------------------------------------------ *)
(* closed form of the response: the RFC reading of the header and total
   slicing only (no Go-shaped parsing, no partial operation).  Proofs show
   the transcription above computes exactly this. *)
Definition spec_resp (lower : bytes -> bytes) (content ct bnd : bytes) (st0 : Z) (hdr : bytes) : resp :=
  let size := blen content in
  if is_nil hdr then mkResp st0 size ct [] content None
  else match requested lower hdr size with
       | None => resp416 ct size
       | Some [(s, e)] => mkResp 206 (e - s + 1) ct (content_range s e size) (sub content s e) None
       | Some rs =>
           let ps := map (want_part content ct) rs in
           let b := render_multipart bnd ps in
           mkResp 206 (blen b) (multipart_ctype bnd) [] b (Some ps)
       end.

Definition static_spec (lower : bytes -> bytes) (fs : bytes -> fsres)
           (root : bytes) (explicit : list (bytes * bytes)) (bnd : bytes)
           (st0 : Z) (urlpath hdr : bytes) : result :=
  match fs (static_path root explicit urlpath) with
  | FNotExist => RStatusOnly 404
  | FPerm => RErr 401
  | FOther => RErr 500
  | FDir => RDir
  | FFile data ct => Resp (spec_resp lower data ct bnd st0 hdr)
  end.

(* ------------------------------------------------------------------ *)
(* comparison of a model result with an observed one (driver)          *)

Definition resp_eqb (a b : resp) : bool :=
  (r_status a =? r_status b) && (r_clen a =? r_clen b) && beq (r_ctype a) (r_ctype b) &&
  beq (r_crange a) (r_crange b) && beq (r_body a) (r_body b) &&
  match r_parts a, r_parts b with
  | None, None => true
  | Some x, Some y => parts_eqb x y
  | _, _ => false
  end.

Definition result_eqb (a b : result) : bool :=
  match a, b with
  | Resp x, Resp y => resp_eqb x y
  | RStatusOnly x, RStatusOnly y => x =? y
  | RErr x, RErr y => x =? y
  | RDir, RDir => true
  | RPanic, RPanic => true
  | _, _ => false
  end.
