(* C20 — the range-serving core: the repaired ModifyResponse always yields
   one of the three shapes, exactly the requested bytes, never panics, never
   leaves the content; the boolean oracle is the property. *)
From Coq Require Import List ZArith NArith Ascii String Bool Lia.
From Martian.C20 Require Import Model Proofs_Base.
Import ListNotations.
Open Scope Z_scope.

(* ------------------------------------------------------------------ *)
(* The property as a Prop                                               *)

Definition shape_prop (lower : bytes -> bytes) (content ct : bytes) (st0 : Z) (hdr : bytes) (r : resp) : Prop :=
  let size := blen content in
  (* no Range header: the full content, matching Content-Length, status untouched *)
  (hdr = [] /\ r = mkResp st0 size ct [] content None)
  \/
  (* a spec is malformed or selects nothing: 416, no bytes *)
  (hdr <> [] /\ requested lower hdr size = None /\
   r_status r = 416 /\ r_body r = [] /\ r_clen r = 0 /\ r_parts r = None)
  \/
  (* one range: 206, exactly those bytes, Content-Range and Content-Length agree *)
  (hdr <> [] /\ exists s e, requested lower hdr size = Some [(s, e)] /\
   r = mkResp 206 (e - s + 1) ct (content_range s e size) (sub content s e) None)
  \/
  (* several ranges: 206, multipart/byteranges, one part per range in order *)
  (hdr <> [] /\ exists rs, requested lower hdr size = Some rs /\ List.length rs <> 1%nat /\
   r_status r = 206 /\ r_clen r = blen (r_body r) /\
   (exists bnd, r_ctype r = multipart_ctype bnd) /\
   r_parts r = Some (map (want_part content ct) rs)).

Definition serve_prop (lower : bytes -> bytes) (content ct : bytes) (st0 : Z) (hdr : bytes) (o : result) : Prop :=
  match o with
  | Resp r => shape_prop lower content ct st0 hdr r
  | RStatusOnly st => hdr <> [] /\ st = 416 /\ requested lower hdr (blen content) = None
  | RErr _ | RDir | RPanic => False
  end.

(* ------------------------------------------------------------------ *)
(* oracle <-> Prop                                                      *)

Lemma shape_ok_iff : forall lower content ct st0 hdr r,
  shape_ok lower content ct st0 hdr r = true <-> shape_prop lower content ct st0 hdr r.
Proof.
  intros lower content ct st0 hdr r. unfold shape_ok, shape_prop. cbv zeta.
  destruct (is_nil hdr) eqn:Eh.
  - apply is_nil_true in Eh. subst hdr. split.
    + intros H. left. split; [reflexivity|].
      rewrite !andb_true_iff in H. destruct H as [[[[[H1 H2] H3] H4] H5] H6].
      apply Z.eqb_eq in H1, H2. apply beq_eq in H3, H5. apply is_nil_true in H4.
      destruct r as [a b c d e f]; cbn in *. destruct f; [discriminate|]. now subst.
    + intros [[_ ->]|[[H _]|[[H _]|[H _]]]]; try (now contradiction H).
      cbn. now rewrite !Z.eqb_refl, !beq_refl.
  - apply is_nil_false in Eh.
    destruct (requested lower hdr (blen content)) as [rs|] eqn:Er.
    + destruct rs as [|[s e] [|r2 rs']].
      * (* zero ranges: the multipart arm *)
        split.
        -- intros H. right; right; right. split; [assumption|]. exists []. split; [reflexivity|].
           rewrite !andb_true_iff in H. destruct H as [[[H1 H2] H3] H4].
           apply Z.eqb_eq in H1, H2. apply has_prefix_iff in H3 as [bnd H3].
           destruct (r_parts r) as [ps|] eqn:Ep; [|discriminate]. apply parts_eqb_eq in H4.
           repeat split; try assumption; try (cbn; lia).
           ++ now exists bnd.
           ++ now subst.
        -- intros [[H _]|[[_ [H _]]|[[_ [s [e [H _]]]]|[_ [rs [H1 [H2 [H3 [H4 [[bnd H5] H6]]]]]]]]]];
             try contradiction; try discriminate.
           inversion H1; subst rs. rewrite H3, H4, H5, H6.
           rewrite !Z.eqb_refl. unfold multipart_ctype. now rewrite has_prefix_app.
      * (* one range *)
        split.
        -- intros H. right; right; left. split; [assumption|]. exists s, e. split; [reflexivity|].
           rewrite !andb_true_iff in H. destruct H as [[[[[H1 H2] H3] H4] H5] H6].
           apply Z.eqb_eq in H1, H3. apply beq_eq in H2, H4, H5.
           destruct r as [a b c d e' f]; cbn in *. destruct f; [discriminate|]. now subst.
        -- intros [[H _]|[[_ [H _]]|[[_ [s' [e' [H1 H2]]]]|[_ [rs [H1 [H2 _]]]]]]];
             try contradiction; try discriminate.
           ++ inversion H1; subst. cbn. now rewrite !Z.eqb_refl, !beq_refl.
           ++ inversion H1; subst. cbn in H2. contradiction.
      * (* two or more *)
        split.
        -- intros H. right; right; right. split; [assumption|]. exists ((s, e) :: r2 :: rs').
           split; [reflexivity|].
           rewrite !andb_true_iff in H. destruct H as [[[H1 H2] H3] H4].
           apply Z.eqb_eq in H1, H2. apply has_prefix_iff in H3 as [bnd H3].
           destruct (r_parts r) as [ps|] eqn:Ep; [|discriminate]. apply parts_eqb_eq in H4.
           repeat split; try assumption; try (cbn; lia).
           ++ now exists bnd.
           ++ now subst.
        -- intros [[H _]|[[_ [H _]]|[[_ [s' [e' [H1 _]]]]|[_ [rs [H1 [H2 [H3 [H4 [[bnd H5] H6]]]]]]]]]];
             try contradiction; try discriminate.
           inversion H1; subst rs. rewrite H3, H4, H5, H6.
           rewrite !Z.eqb_refl. unfold multipart_ctype. rewrite has_prefix_app.
           now rewrite parts_eqb_refl.
    + split.
      * intros H. right; left. rewrite !andb_true_iff in H. destruct H as [[[H1 H2] H3] H4].
        apply Z.eqb_eq in H1, H3. apply is_nil_true in H2.
        destruct (r_parts r); [discriminate|]. repeat split; assumption.
      * intros [[H _]|[[_ [_ [H1 [H2 [H3 H4]]]]]|[[_ [s [e [H _]]]]|[_ [rs [H _]]]]]];
          try contradiction; try discriminate.
        now rewrite H1, H2, H3, H4.
Qed.

Theorem serve_ok_iff : forall lower content ct st0 hdr o,
  c20_serve_ok lower content ct st0 hdr o = true <-> serve_prop lower content ct st0 hdr o.
Proof.
  intros lower content ct st0 hdr o. destruct o as [r|st|st| |]; cbn.
  - apply shape_ok_iff.
  - rewrite !andb_true_iff, negb_true_iff, is_nil_false, Z.eqb_eq.
    destruct (requested lower hdr (blen content)); split; intros H.
    + destruct H as [_ H]. discriminate.
    + destruct H as [_ [_ H]]. discriminate.
    + destruct H as [[H1 H2] _]. auto.
    + destruct H as [H1 [H2 _]]. auto.
  - split; [discriminate | contradiction].
  - split; [discriminate | contradiction].
  - split; [discriminate | contradiction].
Qed.

(* ------------------------------------------------------------------ *)
(* the model meets the property                                        *)

Definition good_fetch (fetch : bytes -> Z -> Z -> fetched) : Prop :=
  forall c s e, 0 <= s -> s <= e -> e < blen c -> fetch c s e = FBytes (sub c s e).

Lemma fetch_parts_ok : forall fetch content ct rs,
  good_fetch fetch -> Forall (in_bounds (blen content)) rs ->
  fetch_parts (fetch content) ct (blen content) rs = Some (Some (map (want_part content ct) rs)).
Proof.
  intros fetch content ct rs Hf. induction rs as [|[s e] rs IH]; intros Hb; cbn; [reflexivity|].
  inversion Hb as [|? ? [H0 [H1 H2]] Hrest]; subst. cbn in H0, H1, H2.
  rewrite (Hf content s e H0 H1 H2), (IH Hrest). reflexivity.
Qed.

Theorem serve_meets_property : forall lower fetch content ct bnd st0 hdr,
  good_fetch fetch ->
  exists r, serve lower fetch content ct bnd st0 hdr = Resp r /\
            shape_prop lower content ct st0 hdr r.
Proof.
  intros lower fetch content ct bnd st0 hdr Hf. unfold serve. cbv zeta.
  destruct (is_nil hdr) eqn:Eh.
  - apply is_nil_true in Eh. subst. eexists. split; [reflexivity|]. left. auto.
  - apply is_nil_false in Eh.
    rewrite (parse_ranges_requested lower hdr (blen content) (blen_nonneg content)).
    destruct (requested lower hdr (blen content)) as [rs|] eqn:Er.
    + pose proof (requested_in_bounds _ _ _ _ Er) as Hb.
      destruct rs as [|[s e] [|r2 rs']].
      * exfalso. now apply (requested_nonempty _ _ _ _ Er).
      * inversion Hb as [|? ? [H0 [H1 H2]] _]; subst. cbn in H0, H1, H2.
        rewrite (Hf content s e H0 H1 H2). eexists. split; [reflexivity|].
        right; right; left. split; [assumption|]. exists s, e. split; [exact Er|].
        now rewrite (sub_length content s e H0 H1 H2).
      * rewrite (fetch_parts_ok fetch content ct _ Hf Hb).
        eexists. split; [reflexivity|].
        right; right; right. split; [assumption|].
        exists ((s, e) :: r2 :: rs'). split; [exact Er|]. cbn [r_status r_clen r_body r_ctype r_parts].
        repeat split; try reflexivity; try (cbn; lia).
        now exists bnd.
    + eexists. split; [reflexivity|]. right; left. cbn. auto 6.
Qed.

Lemma good_fetch_slice : good_fetch fetch_slice.
Proof. intros c s e. apply fetch_slice_ok. Qed.

Lemma good_fetch_file : good_fetch fetch_file.
Proof. intros c s e. apply fetch_file_ok. Qed.

(* ------------------------------------------------------------------ *)
(* consequences, stated for any response satisfying the property       *)

Lemma want_part_data_infix : forall content ct rs,
  Forall (fun ch => infix ch content) (map p_data (map (want_part content ct) rs)).
Proof.
  intros content ct rs. induction rs as [|[s e] rs IH]; cbn; constructor; [apply sub_infix | exact IH].
Qed.

(* never bytes outside the content: every chunk handed out is a contiguous
   piece of the content (a 416 hands out nothing) *)
Theorem shape_inside_content : forall lower content ct st0 hdr r,
  shape_prop lower content ct st0 hdr r -> Forall (fun ch => infix ch content) (chunks r).
Proof.
  intros lower content ct st0 hdr r
    [[_ ->]|[[_ [_ [_ [Hb [_ Hp]]]]]|[[_ [s [e [_ ->]]]]|[_ [rs [_ [_ [_ [_ [_ Hp]]]]]]]]]];
    unfold chunks.
  - cbn. constructor; [|constructor]. exists [], []. now rewrite app_nil_r.
  - rewrite Hp, Hb. constructor; [|constructor]. exists [], content. reflexivity.
  - cbn. constructor; [apply sub_infix | constructor].
  - rewrite Hp. apply want_part_data_infix.
Qed.

(* ------------------------------------------------------------------ *)
(* exactness: the transcription equals the closed form                 *)

Theorem serve_exact : forall lower fetch content ct bnd st0 hdr,
  good_fetch fetch ->
  serve lower fetch content ct bnd st0 hdr = Resp (spec_resp lower content ct bnd st0 hdr).
Proof.
  intros lower fetch content ct bnd st0 hdr Hf. unfold serve, spec_resp. cbv zeta.
  destruct (is_nil hdr) eqn:Eh; [reflexivity|].
  rewrite (parse_ranges_requested lower hdr (blen content) (blen_nonneg content)).
  destruct (requested lower hdr (blen content)) as [rs|] eqn:Er; [|reflexivity].
  pose proof (requested_in_bounds _ _ _ _ Er) as Hb.
  destruct rs as [|[s e] [|r2 rs']].
  - exfalso. now apply (requested_nonempty _ _ _ _ Er).
  - inversion Hb as [|? ? [H0 [H1 H2]] _]; subst. cbn in H0, H1, H2.
    rewrite (Hf content s e H0 H1 H2). now rewrite (sub_length content s e H0 H1 H2).
  - now rewrite (fetch_parts_ok fetch content ct _ Hf Hb).
Qed.

Lemma spec_resp_shape : forall lower content ct bnd st0 hdr,
  shape_prop lower content ct st0 hdr (spec_resp lower content ct bnd st0 hdr).
Proof.
  intros lower content ct bnd st0 hdr.
  destruct (serve_meets_property lower fetch_slice content ct bnd st0 hdr good_fetch_slice) as [r [H1 H2]].
  rewrite (serve_exact _ _ _ _ _ _ _ good_fetch_slice) in H1. inversion H1; subst. exact H2.
Qed.

(* Content-Length always equals the number of bytes the body yields *)
Lemma spec_resp_clen : forall lower content ct bnd st0 hdr,
  r_clen (spec_resp lower content ct bnd st0 hdr) = blen (r_body (spec_resp lower content ct bnd st0 hdr)).
Proof.
  intros lower content ct bnd st0 hdr. unfold spec_resp. cbv zeta.
  destruct (is_nil hdr); [reflexivity|].
  destruct (requested lower hdr (blen content)) as [rs|] eqn:Er; [|reflexivity].
  pose proof (requested_in_bounds _ _ _ _ Er) as Hb.
  destruct rs as [|[s e] [|r2 rs']]; try reflexivity.
  inversion Hb as [|? ? [H0 [H1 H2]] _]; subst. cbn in *. now rewrite sub_length.
Qed.

(* ------------------------------------------------------------------ *)
(* body.Modifier                                                       *)

Theorem body_exact : forall lower content ct bnd st0 hdr,
  body_resp lower content ct bnd st0 hdr = Resp (spec_resp lower content ct bnd st0 hdr).
Proof. intros. apply serve_exact, good_fetch_slice. Qed.

Theorem body_full_or_206_or_416 : forall lower content ct bnd st0 hdr,
  exists r, body_resp lower content ct bnd st0 hdr = Resp r /\
            shape_prop lower content ct st0 hdr r /\ r_clen r = blen (r_body r).
Proof.
  intros. eexists. split; [apply body_exact|]. split; [apply spec_resp_shape | apply spec_resp_clen].
Qed.

Theorem body_never_panics : forall lower content ct bnd st0 hdr,
  body_resp lower content ct bnd st0 hdr <> RPanic /\
  forall st, body_resp lower content ct bnd st0 hdr <> RErr st.
Proof. intros. rewrite body_exact. split; [discriminate | intros st; discriminate]. Qed.

Theorem body_inside_content : forall lower content ct bnd st0 hdr r,
  body_resp lower content ct bnd st0 hdr = Resp r ->
  Forall (fun ch => infix ch content) (chunks r).
Proof.
  intros lower content ct bnd st0 hdr r H. rewrite body_exact in H. inversion H; subst.
  eapply shape_inside_content, spec_resp_shape.
Qed.

(* a Range header is answered 206 exactly when every spec is well formed and
   satisfiable, and then the body is the requested bytes *)
Theorem spec_206_exact_bytes : forall lower content ct bnd st0 hdr,
  hdr <> [] ->
  let r := spec_resp lower content ct bnd st0 hdr in
  match requested lower hdr (blen content) with
  | None => r_status r = 416 /\ r_body r = []
  | Some rs =>
      r_status r = 206 /\ Forall (in_bounds (blen content)) rs /\
      ((exists s e, rs = [(s, e)] /\ r_body r = sub content s e /\
                    r_crange r = content_range s e (blen content) /\ r_clen r = e - s + 1)
       \/
       (List.length rs >= 2)%nat /\
        r_parts r = Some (map (want_part content ct) rs) /\
        r_body r = render_multipart bnd (map (want_part content ct) rs) /\
        r_ctype r = multipart_ctype bnd)
  end.
Proof.
  intros lower content ct bnd st0 hdr Hh. cbv zeta. unfold spec_resp. cbv zeta.
  apply is_nil_false in Hh. rewrite Hh.
  destruct (requested lower hdr (blen content)) as [rs|] eqn:Er; [|cbn; auto].
  pose proof (requested_in_bounds _ _ _ _ Er) as Hb.
  destruct rs as [|[s e] [|r2 rs']].
  - exfalso. now apply (requested_nonempty _ _ _ _ Er).
  - cbn. split; [reflexivity|]. split; [assumption|]. left. exists s, e. auto.
  - cbn [r_status r_body r_parts r_ctype]. split; [reflexivity|]. split; [assumption|].
    right. cbn [List.length]. split; [lia|]. auto.
Qed.

(* what "requested" means for each form of spec: the last position is
   clamped to the final byte, the suffix form counts from the end *)
Theorem requested_meaning : forall size r s e,
  rfc_resolve size r = Some (s, e) ->
  match r with
  | FromTo a b => s = a /\ e = Z.min b (size - 1) /\ a <= b
  | From a => s = a /\ e = size - 1
  | Suffix n => s = size - Z.min n size /\ e = size - 1 /\ 0 < n
  end.
Proof.
  intros size [a b|a|n] s e; cbn; intros H.
  - destruct ((0 <=? a) && (a <=? b) && (a <? size)) eqn:E; [|discriminate].
    inversion H; subst. rewrite !andb_true_iff in E. lia.
  - destruct ((0 <=? a) && (a <? size)); [|discriminate]. now inversion H.
  - destruct ((0 <? n) && (0 <? size)) eqn:E; [|discriminate].
    inversion H; subst. rewrite !andb_true_iff in E. lia.
Qed.

(* and it is refused exactly when nothing of the content is selected *)
Theorem unsatisfiable_meaning : forall size r, 0 <= size ->
  rfc_resolve size r = None <->
  match r with
  | FromTo a b => a < 0 \/ b < a \/ size <= a
  | From a => a < 0 \/ size <= a
  | Suffix n => n <= 0 \/ size = 0
  end.
Proof.
  intros size [a b|a|n] Hs; cbn.
  - destruct ((0 <=? a) && (a <=? b) && (a <? size)) eqn:E.
    + rewrite !andb_true_iff in E. split; [discriminate | lia].
    + rewrite !andb_false_iff in E. split; [lia | reflexivity].
  - destruct ((0 <=? a) && (a <? size)) eqn:E.
    + rewrite !andb_true_iff in E. split; [discriminate | lia].
    + rewrite !andb_false_iff in E. split; [lia | reflexivity].
  - destruct ((0 <? n) && (0 <? size)) eqn:E.
    + rewrite !andb_true_iff in E. split; [discriminate | lia].
    + rewrite !andb_false_iff in E. split; [lia | reflexivity].
Qed.

(* ------------------------------------------------------------------ *)
(* static.Modifier                                                     *)

Definition static_prop (lower : bytes -> bytes) (fs : bytes -> fsres)
           (root : bytes) (explicit : list (bytes * bytes))
           (st0 : Z) (urlpath hdr : bytes) (o : result) : Prop :=
  match fs (static_path root explicit urlpath) with
  | FFile data ct => serve_prop lower data ct st0 hdr o
  | FNotExist => o = RStatusOnly 404
  | FDir => o = RDir
  | FPerm | FOther => exists st, o = RErr st
  end.

Theorem static_ok_iff : forall lower fs root explicit st0 urlpath hdr o,
  c20_static_ok lower fs root explicit st0 urlpath hdr o = true <->
  static_prop lower fs root explicit st0 urlpath hdr o.
Proof.
  intros. unfold c20_static_ok, static_prop.
  destruct (fs (static_path root explicit urlpath)).
  - apply serve_ok_iff.
  - destruct o; split; intros H; try discriminate; reflexivity.
  - destruct o as [r|st|st| |]; split; intros H; try discriminate.
    + apply Z.eqb_eq in H. now subst.
    + inversion H. reflexivity.
  - destruct o as [r|st|st| |]; split; intros H; try discriminate; try (destruct H; discriminate).
    + now exists st.
    + reflexivity.
  - destruct o as [r|st|st| |]; split; intros H; try discriminate; try (destruct H; discriminate).
    + now exists st.
    + reflexivity.
Qed.

Theorem static_exact : forall lower fs root explicit bnd st0 urlpath hdr,
  static_resp lower fs root explicit bnd st0 urlpath hdr =
  static_spec lower fs root explicit bnd st0 urlpath hdr.
Proof.
  intros. unfold static_resp, static_spec.
  destruct (fs (static_path root explicit urlpath)); try reflexivity.
  apply serve_exact, good_fetch_file.
Qed.

Theorem static_meets_property : forall lower fs root explicit bnd st0 urlpath hdr,
  static_prop lower fs root explicit st0 urlpath hdr
    (static_resp lower fs root explicit bnd st0 urlpath hdr).
Proof.
  intros. rewrite static_exact. unfold static_spec, static_prop.
  destruct (fs (static_path root explicit urlpath)); try reflexivity; try (eexists; reflexivity).
  cbn. apply spec_resp_shape.
Qed.

Theorem static_never_panics : forall lower fs root explicit bnd st0 urlpath hdr,
  static_resp lower fs root explicit bnd st0 urlpath hdr <> RPanic /\
  forall st, static_resp lower fs root explicit bnd st0 urlpath hdr = RErr st ->
             fs (static_path root explicit urlpath) = FPerm \/
             fs (static_path root explicit urlpath) = FOther.
Proof.
  intros. rewrite static_exact. unfold static_spec.
  destruct (fs (static_path root explicit urlpath)); split; try discriminate; auto.
Qed.

(* whatever is served comes from the file the path resolves to, and from nowhere else *)
Theorem static_inside_file : forall lower fs root explicit bnd st0 urlpath hdr r,
  static_resp lower fs root explicit bnd st0 urlpath hdr = Resp r ->
  exists data ct, fs (static_path root explicit urlpath) = FFile data ct /\
                  Forall (fun ch => infix ch data) (chunks r).
Proof.
  intros lower fs root explicit bnd st0 urlpath hdr r H. rewrite static_exact in H.
  unfold static_spec in H. destruct (fs (static_path root explicit urlpath)) as [data ct| | | |];
    try discriminate.
  exists data, ct. split; [reflexivity|]. inversion H; subst.
  eapply shape_inside_content, spec_resp_shape.
Qed.
