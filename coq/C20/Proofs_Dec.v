(* C20 — the decimal printer used for Content-Range is read back by the Atoi
   model: the numbers in "bytes s-e/size" denote s, e and size. *)
From Coq Require Import List ZArith NArith Ascii String Bool Lia.
From Martian.C20 Require Import Model Proofs_Base.
Import ListNotations.

Open Scope N_scope.

(* little-endian digit lists *)
Fixpoint value (ds : list N) : N :=
  match ds with [] => 0 | d :: r => d + 10 * value r end.

Lemma dbl_spec : forall ds c, c <= 1 -> Forall (fun d => d < 10) ds ->
  value (dbl ds c) = 2 * value ds + c /\ Forall (fun d => d < 10) (dbl ds c).
Proof.
  induction ds as [|d r IH]; intros c Hc Hd; cbn [dbl value].
  - destruct (N.eqb c 0) eqn:E.
    + apply N.eqb_eq in E. subst. split; [reflexivity | constructor].
    + cbn [value]. split; [lia|]. constructor; [lia | constructor].
  - inversion Hd as [|? ? Hd1 Hd2]; subst.
    assert (Hq : (2 * d + c) / 10 <= 1).
    { apply N.lt_succ_r. apply N.div_lt_upper_bound; lia. }
    destruct (IH ((2 * d + c) / 10) Hq Hd2) as [IH1 IH2].
    split.
    + rewrite IH1. pose proof (N.div_mod (2 * d + c) 10 ltac:(lia)). lia.
    + constructor; [apply N.mod_lt; lia | exact IH2].
Qed.

Lemma digs_spec : forall p, value (digs p) = Npos p /\ Forall (fun d => d < 10) (digs p).
Proof.
  induction p as [q [IH1 IH2]|q [IH1 IH2]|]; cbn [digs].
  - destruct (dbl_spec (digs q) 1 ltac:(lia) IH2) as [H1 H2]. split; [|exact H2].
    rewrite H1, IH1. lia.
  - destruct (dbl_spec (digs q) 0 ltac:(lia) IH2) as [H1 H2]. split; [|exact H2].
    rewrite H1, IH1. lia.
  - cbn. split; [reflexivity|]. constructor; [lia | constructor].
Qed.

Lemma digs_nonempty : forall p, digs p <> [].
Proof.
  intros p E. pose proof (digs_spec p) as [H _]. rewrite E in H. cbn in H. lia.
Qed.

Lemma digit_val_char : forall d, d < 10 -> digit_val (digit_char d) = Some (Z.of_N d).
Proof.
  intros d H. unfold digit_val, digit_char, code. cbv zeta.
  rewrite N_ascii_embedding by lia.
  assert (H1 : (48 <=? Z.of_N (48 + d))%Z = true) by (apply Z.leb_le; lia).
  assert (H2 : (Z.of_N (48 + d) <=? 57)%Z = true) by (apply Z.leb_le; lia).
  rewrite H1, H2. cbn [andb]. f_equal. lia.
Qed.

Open Scope Z_scope.

(* reading the big-endian rendering of a little-endian digit list *)
Lemma digits_rev : forall ds acc, Forall (fun d => (d < 10)%N) ds ->
  digits acc (rev (map digit_char ds)) =
  Some (acc * 10 ^ Z.of_nat (List.length ds) + Z.of_N (value ds)).
Proof.
  induction ds as [|d r IH]; intros acc Hd.
  - cbn. f_equal. lia.
  - inversion Hd as [|? ? Hd1 Hd2]; subst. cbn [map rev].
    assert (Happ : forall a b acc0, digits acc0 (a ++ b) =
              match digits acc0 a with Some v => digits v b | None => None end).
    { induction a as [|x a IHa]; intros b acc0; cbn; [reflexivity|].
      destruct (digit_val x); [apply IHa | reflexivity]. }
    rewrite Happ, (IH acc Hd2). cbn [digits]. rewrite (digit_val_char d Hd1).
    f_equal. cbn [List.length value]. rewrite Nat2Z.inj_succ, Z.pow_succ_r by lia.
    rewrite N2Z.inj_add, N2Z.inj_mul. change (Z.of_N 10) with 10. ring.
Qed.

Lemma digits_dec_pos : forall p, digits 0 (dec_pos p) = Some (Zpos p).
Proof.
  intros p. unfold dec_pos. destruct (digs_spec p) as [H1 H2].
  rewrite (digits_rev (digs p) 0 H2), H1. f_equal.
Qed.

Lemma dec_pos_head_digit : forall p, exists c r, dec_pos p = c :: r /\ exists d, (d < 10)%N /\ c = digit_char d.
Proof.
  intros p. unfold dec_pos. destruct (digs_spec p) as [_ H2].
  pose proof (digs_nonempty p) as Hne.
  destruct (rev (map digit_char (digs p))) as [|c r] eqn:E.
  - exfalso. apply (f_equal (@rev ascii)) in E. rewrite rev_involutive in E. cbn in E.
    destruct (digs p); [contradiction | discriminate].
  - exists c, r. split; [reflexivity|].
    assert (Hin : In c (rev (map digit_char (digs p)))) by (rewrite E; now left).
    apply in_rev, in_map_iff in Hin. destruct Hin as [d [Hd1 Hd2]].
    exists d. split; [|now symmetry]. rewrite Forall_forall in H2. now apply H2.
Qed.

Lemma digit_char_not_sign : forall d, (d < 10)%N ->
  ceq (digit_char d) "+"%char = false /\ ceq (digit_char d) "-"%char = false.
Proof.
  intros d H. unfold ceq.
  assert (Hc : N_of_ascii (digit_char d) = (48 + d)%N)
    by (unfold digit_char; apply N_ascii_embedding; lia).
  assert (Hp : N_of_ascii "+"%char = 43%N) by reflexivity.
  assert (Hm : N_of_ascii "-"%char = 45%N) by reflexivity.
  split; apply Ascii.eqb_neq; intros E; rewrite E in Hc; [rewrite Hp in Hc | rewrite Hm in Hc]; lia.
Qed.

(* every number a Go int can hold prints to a string Atoi reads back as itself *)
Theorem atoi_dec : forall z, min_int <= z <= max_int -> atoi (dec z) = Some z.
Proof.
  intros z Hz. destruct z as [|p|p].
  - vm_compute. reflexivity.
  - cbn [dec]. destruct (dec_pos_head_digit p) as [c [r [E [d [Hd Hc]]]]].
    pose proof (digits_dec_pos p) as Hdig. unfold atoi. rewrite E in *.
    destruct (digit_char_not_sign d Hd) as [N1 N2]. rewrite <- Hc in N1, N2. rewrite N1, N2.
    rewrite Hdig.
    replace ((min_int <=? Z.pos p) && (Z.pos p <=? max_int)) with true
      by (symmetry; rewrite andb_true_iff; lia).
    reflexivity.
  - cbn [dec]. unfold atoi.
    replace (ceq "-"%char "+"%char) with false by reflexivity.
    replace (ceq "-"%char "-"%char) with true by reflexivity.
    destruct (dec_pos_head_digit p) as [c [r [E [d [Hd Hc]]]]].
    pose proof (digits_dec_pos p) as Hdig. rewrite E in *. rewrite Hdig.
    replace ((min_int <=? - Z.pos p) && (- Z.pos p <=? max_int)) with true
      by (symmetry; rewrite andb_true_iff; lia).
    reflexivity.
Qed.
