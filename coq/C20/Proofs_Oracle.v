(* C20 — what the driver's verdicts mean: the comparison function is
   equality, an OK is the property's statement holding on the observation,
   and every clause identifier printed with a PROPFAIL names a statement the
   observation violates. *)
From Coq Require Import List ZArith NArith Ascii String Bool Lia.
From Martian.C20 Require Import Model Proofs_Base Proofs_Serve.
Import ListNotations.
Open Scope Z_scope.

(* ---------------------------------------------------------------- equality *)

Lemma resp_eqb_eq : forall a b, resp_eqb a b = true <-> a = b.
Proof.
  intros [a1 a2 a3 a4 a5 a6] [b1 b2 b3 b4 b5 b6]. unfold resp_eqb. cbn.
  rewrite !andb_true_iff, !Z.eqb_eq, !beq_eq. split.
  - intros [[[[[H1 H2] H3] H4] H5] H6]. subst.
    destruct a6 as [x|], b6 as [y|]; try discriminate; [|reflexivity].
    apply parts_eqb_eq in H6. now subst.
  - intros H. inversion H; subst. repeat split; try reflexivity.
    destruct b6; [apply parts_eqb_refl | reflexivity].
Qed.

Theorem result_eqb_eq : forall a b, result_eqb a b = true <-> a = b.
Proof.
  intros [r|s|s| |] [r'|s'|s'| |]; cbn; split; intros H; try discriminate; try reflexivity.
  - apply resp_eqb_eq in H. now subst.
  - inversion H; subst. now apply resp_eqb_eq.
  - apply Z.eqb_eq in H. now subst.
  - inversion H. apply Z.eqb_refl.
  - apply Z.eqb_eq in H. now subst.
  - inversion H. apply Z.eqb_refl.
Qed.

(* ---------------------------------------------------------------- infix *)

Lemma is_infix_iff : forall ch c, is_infix ch c = true <-> infix ch c.
Proof.
  intros ch c. induction c as [|x c IH]; cbn [is_infix].
  - rewrite orb_false_r, has_prefix_iff. split.
    + intros [rest H]. exists [], rest. exact H.
    + intros [pre [post H]]. destruct pre; [|discriminate]. now exists post.
  - rewrite orb_true_iff, has_prefix_iff, IH. split.
    + intros [[rest H]|[pre [post H]]].
      * exists [], rest. exact H.
      * exists (x :: pre), post. now rewrite H.
    + intros [pre [post H]]. destruct pre as [|y pre].
      * left. now exists post.
      * right. inversion H; subst. now exists pre, post.
Qed.

Lemma all_inside_iff : forall content r,
  all_inside content r = true <-> Forall (fun ch => infix ch content) (chunks r).
Proof.
  intros content r. unfold all_inside. rewrite forallb_forall, Forall_forall.
  split; intros H x Hx; apply is_infix_iff; now apply H.
Qed.

(* ---------------------------------------------------------------- OK *)

(* an OK verdict: the whole statement holds on the observation *)
Theorem serve_ok_means : forall lower content ct st0 hdr o,
  c20_serve_ok lower content ct st0 hdr o = true ->
  serve_prop lower content ct st0 hdr o /\
  o <> RPanic /\ (forall st, o <> RErr st) /\
  (forall r, o = Resp r ->
     Forall (fun ch => infix ch content) (chunks r) /\
     (hdr = [] -> r_body r = content /\ r_clen r = blen content /\ r_status r = st0) /\
     (hdr <> [] -> r_status r = 206 \/ r_status r = 416)).
Proof.
  intros lower content ct st0 hdr o H. apply serve_ok_iff in H.
  split; [exact H|]. destruct o as [r|st|st| |]; cbn in H; try contradiction.
  - split; [discriminate|]. split; [intros st; discriminate|].
    intros r' E. inversion E; subst r'. split; [eapply shape_inside_content; exact H|].
    destruct H as [[Hh ->]|[[Hh [_ [Hs _]]]|[[Hh [s [e [_ ->]]]]|[Hh [rs [_ [_ [Hs _]]]]]]]]; split;
      intros Hx; try contradiction; cbn; auto.
  - split; [discriminate|]. split; [intros st'; discriminate|]. intros r E. discriminate.
Qed.

(* ---------------------------------------------------------------- clauses *)

Theorem serve_clause_none_iff : forall lower content ct st0 hdr o,
  serve_clause lower content ct st0 hdr o = None <-> serve_prop lower content ct st0 hdr o.
Proof.
  intros. unfold serve_clause. rewrite <- serve_ok_iff.
  destruct (c20_serve_ok lower content ct st0 hdr o); split; intros H; try reflexivity; discriminate.
Qed.

Theorem serve_clause_sound : forall lower content ct st0 hdr o c,
  serve_clause lower content ct st0 hdr o = Some c ->
  ~ serve_prop lower content ct st0 hdr o /\
  match c with
  | CNeverPanics => o = RPanic
  | CNeverOutsideContent =>
      exists r, o = Resp r /\ ~ Forall (fun ch => infix ch content) (chunks r)
  | C206ExactBytes =>
      exists r, o = Resp r /\ r_status r = 206 /\ ~ shape_prop lower content ct st0 hdr r
  | CFullOr206Or416 =>
      o <> RPanic /\ forall r, o = Resp r -> r_status r <> 206 /\ ~ shape_prop lower content ct st0 hdr r
  | CPathUnderRoot => False
  end.
Proof.
  intros lower content ct st0 hdr o c H. unfold serve_clause in H.
  destruct (c20_serve_ok lower content ct st0 hdr o) eqn:Eok; [discriminate|].
  assert (Hn : ~ serve_prop lower content ct st0 hdr o).
  { intros Hp. apply serve_ok_iff in Hp. congruence. }
  split; [exact Hn|]. inversion H as [Hc]; clear H.
  destruct o as [r|st|st| |].
  - destruct (all_inside content r) eqn:Ei; cbn [negb].
    + destruct (r_status r =? 206) eqn:Es.
      * exists r. apply Z.eqb_eq in Es. auto.
      * split; [discriminate|]. intros r' E. inversion E; subst r'.
        apply Z.eqb_neq in Es. auto.
    + exists r. split; [reflexivity|]. intros HF. apply all_inside_iff in HF. congruence.
  - split; [discriminate | intros r E; discriminate].
  - split; [discriminate | intros r E; discriminate].
  - split; [discriminate | intros r E; discriminate].
  - reflexivity.
Qed.

Theorem static_clause_none_iff : forall lower fs root explicit st0 urlpath hdr o,
  static_clause lower fs root explicit st0 urlpath hdr o = None <->
  static_prop lower fs root explicit st0 urlpath hdr o.
Proof.
  intros. unfold static_clause. rewrite <- static_ok_iff.
  destruct (c20_static_ok lower fs root explicit st0 urlpath hdr o); split; intros H;
    try reflexivity; discriminate.
Qed.

(* bytes came back that are not bytes of the file the path must resolve to *)
Definition served_from_elsewhere (fs : bytes -> fsres) (path : bytes) (hdr : bytes) (r : resp) : Prop :=
  match fs path with
  | FFile data _ => hdr = [] /\ r_body r <> [] /\ ~ Forall (fun ch => infix ch data) (chunks r)
  | _ => r_body r <> []
  end.

Theorem static_clause_sound : forall lower fs root explicit st0 urlpath hdr o c,
  static_clause lower fs root explicit st0 urlpath hdr o = Some c ->
  ~ static_prop lower fs root explicit st0 urlpath hdr o /\
  match c with
  | CNeverPanics => o = RPanic
  | CPathUnderRoot =>
      exists r, o = Resp r /\ served_from_elsewhere fs (static_path root explicit urlpath) hdr r
  | CNeverOutsideContent =>
      exists r data ct, o = Resp r /\ fs (static_path root explicit urlpath) = FFile data ct /\
                        ~ Forall (fun ch => infix ch data) (chunks r)
  | C206ExactBytes => exists r, o = Resp r /\ r_status r = 206
  | CFullOr206Or416 => o <> RPanic
  end.
Proof.
  intros lower fs root explicit st0 urlpath hdr o c H. unfold static_clause in H.
  destruct (c20_static_ok lower fs root explicit st0 urlpath hdr o) eqn:Eok; [discriminate|].
  split; [intros Hp; apply static_ok_iff in Hp; congruence|].
  inversion H as [Hc]; clear H. unfold served_from_elsewhere.
  destruct o as [r|st|st| |]; try discriminate; try reflexivity.
  destruct (fs (static_path root explicit urlpath)) as [data ct| | | |] eqn:Ef.
  - destruct (all_inside data r) eqn:Ei; cbn [negb].
    + destruct (r_status r =? 206) eqn:Es; [|discriminate].
      exists r. apply Z.eqb_eq in Es. auto.
    + assert (Hno : ~ Forall (fun ch => infix ch data) (chunks r))
        by (intros HF; apply all_inside_iff in HF; congruence).
      destruct (is_nil hdr && negb (is_nil (r_body r))) eqn:Eh.
      * apply andb_true_iff in Eh as [E1 E2]. apply is_nil_true in E1.
        apply negb_true_iff, is_nil_false in E2. exists r. auto.
      * exists r, data, ct. auto.
  - destruct (is_nil (r_body r)) eqn:Eb; cbn [negb]; [discriminate|].
    apply is_nil_false in Eb. exists r. auto.
  - destruct (is_nil (r_body r)) eqn:Eb; cbn [negb]; [discriminate|].
    apply is_nil_false in Eb. exists r. auto.
  - destruct (is_nil (r_body r)) eqn:Eb; cbn [negb]; [discriminate|].
    apply is_nil_false in Eb. exists r. auto.
  - destruct (is_nil (r_body r)) eqn:Eb; cbn [negb]; [discriminate|].
    apply is_nil_false in Eb. exists r. auto.
Qed.
