(* C20 — property theorems.  Nothing but statements closed by [exact] and
   Print Assumptions, so a weakened statement is visible in review.

   The model (Model.v) transcribes body.Modifier.ModifyResponse and
   static.Modifier.ModifyResponse as repaired by fixes/C20-1..3; [lower] stands
   for strings.ToLower (every theorem holds for every function in its place),
   [fs] for what the file system says about a path.  All statements quantify
   over ALL contents, ALL header byte strings and ALL request paths. *)
From Coq Require Import List ZArith NArith Ascii String Bool.
From Martian.C20 Require Import Model Proofs_Base Proofs_Serve Proofs_Path Proofs_Dec Proofs_Oracle Proofs_Grammar.
Import ListNotations.
Open Scope Z_scope.

(* --- the code computes the closed form (RFC 7233 reading of the header,
       total slicing): a refinement, for all inputs --- *)
Theorem C20_body_modifier_computes_spec : forall lower content ct bnd st0 hdr,
  body_resp lower content ct bnd st0 hdr = Resp (spec_resp lower content ct bnd st0 hdr).
Proof. exact body_exact. Qed.
Print Assumptions C20_body_modifier_computes_spec.

Theorem C20_static_modifier_computes_spec : forall lower fs root explicit bnd st0 urlpath hdr,
  static_resp lower fs root explicit bnd st0 urlpath hdr =
  static_spec lower fs root explicit bnd st0 urlpath hdr.
Proof. exact static_exact. Qed.
Print Assumptions C20_static_modifier_computes_spec.

(* the Go-shaped resolveRange is the RFC reading of a byte-range-spec *)
Theorem C20_resolve_range_is_rfc7233 : forall spec size, 0 <= size ->
  resolve_range spec size =
  match parse_spec spec with Some r => rfc_resolve size r | None => None end.
Proof. exact resolve_range_rfc. Qed.
Print Assumptions C20_resolve_range_is_rfc7233.

(* --- full content, or 206, or 416; Content-Length always the body's length --- *)
Theorem C20_full_or_206_or_416 : forall lower content ct bnd st0 hdr,
  exists r, body_resp lower content ct bnd st0 hdr = Resp r /\
            shape_prop lower content ct st0 hdr r /\ r_clen r = blen (r_body r).
Proof. exact body_full_or_206_or_416. Qed.
Print Assumptions C20_full_or_206_or_416.

Theorem C20_full_or_206_or_416_static : forall lower fs root explicit bnd st0 urlpath hdr,
  static_prop lower fs root explicit st0 urlpath hdr
    (static_resp lower fs root explicit bnd st0 urlpath hdr).
Proof. exact static_meets_property. Qed.
Print Assumptions C20_full_or_206_or_416_static.

(* --- 206 exactly when every spec is well formed and satisfiable; then the
       body is exactly the requested bytes, one part per range --- *)
Theorem C20_206_exact_bytes : forall lower content ct bnd st0 hdr,
  hdr <> [] ->
  let r := spec_resp lower content ct bnd st0 hdr in
  match requested lower hdr (blen content) with
  | None => r_status r = 416 /\ r_body r = []
  | Some rs =>
      r_status r = 206 /\ Forall (in_bounds (blen content)) rs /\
      ((exists s e, rs = [(s, e)] /\ r_body r = sub content s e /\
                    r_crange r = content_range s e (blen content) /\ r_clen r = e - s + 1)
       \/
       (List.length rs >= 2)%nat /\
        r_parts r = Some (map (want_part content ct) rs) /\
        r_body r = render_multipart bnd (map (want_part content ct) rs) /\
        r_ctype r = multipart_ctype bnd)
  end.
Proof. exact spec_206_exact_bytes. Qed.
Print Assumptions C20_206_exact_bytes.

(* what a requested range is: last position clamped to the final byte *)
Theorem C20_last_position_clamped : forall size r s e,
  rfc_resolve size r = Some (s, e) ->
  match r with
  | FromTo a b => s = a /\ e = Z.min b (size - 1) /\ a <= b
  | From a => s = a /\ e = size - 1
  | Suffix n => s = size - Z.min n size /\ e = size - 1 /\ 0 < n
  end.
Proof. exact requested_meaning. Qed.
Print Assumptions C20_last_position_clamped.

Theorem C20_416_only_when_unsatisfiable : forall size r, 0 <= size ->
  rfc_resolve size r = None <->
  match r with
  | FromTo a b => a < 0 \/ b < a \/ size <= a
  | From a => a < 0 \/ size <= a
  | Suffix n => n <= 0 \/ size = 0
  end.
Proof. exact unsatisfiable_meaning. Qed.
Print Assumptions C20_416_only_when_unsatisfiable.

(* --- never panics, never fails --- *)
Theorem C20_never_panics : forall lower content ct bnd st0 hdr,
  body_resp lower content ct bnd st0 hdr <> RPanic /\
  forall st, body_resp lower content ct bnd st0 hdr <> RErr st.
Proof. exact body_never_panics. Qed.
Print Assumptions C20_never_panics.

Theorem C20_never_panics_static : forall lower fs root explicit bnd st0 urlpath hdr,
  static_resp lower fs root explicit bnd st0 urlpath hdr <> RPanic /\
  forall st, static_resp lower fs root explicit bnd st0 urlpath hdr = RErr st ->
             fs (static_path root explicit urlpath) = FPerm \/
             fs (static_path root explicit urlpath) = FOther.
Proof. exact static_never_panics. Qed.
Print Assumptions C20_never_panics_static.

(* --- never bytes outside the content --- *)
Theorem C20_never_outside_content : forall lower content ct bnd st0 hdr r,
  body_resp lower content ct bnd st0 hdr = Resp r ->
  Forall (fun ch => infix ch content) (chunks r).
Proof. exact body_inside_content. Qed.
Print Assumptions C20_never_outside_content.

Theorem C20_never_outside_content_static : forall lower fs root explicit bnd st0 urlpath hdr r,
  static_resp lower fs root explicit bnd st0 urlpath hdr = Resp r ->
  exists data ct, fs (static_path root explicit urlpath) = FFile data ct /\
                  Forall (fun ch => infix ch data) (chunks r).
Proof. exact static_inside_file. Qed.
Print Assumptions C20_never_outside_content_static.

(* --- every request path resolves beneath the root --- *)
(* the opened path is the root's canonical elements followed by ordinary
   elements (non-empty, not "." or "..", no separator) *)
Theorem C20_path_under_root : forall root urlpath, root <> [] ->
  exists T, Forall normal T /\
    req_path urlpath = render_path (true, T) /\
    static_path root [] urlpath = render_path (fst (elems root), snd (elems root) ++ T) /\
    clean root = render_path (fst (elems root), snd (elems root)).
Proof. exact static_path_under_root. Qed.
Print Assumptions C20_path_under_root.

Theorem C20_path_under_root_string : forall root urlpath,
  is_rooted root = true -> snd (elems root) <> [] ->
  static_path root [] urlpath = clean root \/
  exists T, Forall normal T /\ T <> [] /\
            static_path root [] urlpath = clean root ++ slash :: join_with slash T.
Proof. exact static_path_string. Qed.
Print Assumptions C20_path_under_root_string.

Theorem C20_path_explicit_mapping : forall root explicit urlpath,
  match assoc (req_path urlpath) explicit with
  | Some v => static_path root explicit urlpath = join2 root v
  | None => static_path root explicit urlpath = static_path root [] urlpath
  end.
Proof.
  intros root explicit urlpath.
  destruct (assoc (req_path urlpath) explicit) eqn:E.
  - exact (static_path_explicit root explicit urlpath b E).
  - exact (static_path_not_explicit root explicit urlpath E).
Qed.
Print Assumptions C20_path_explicit_mapping.

(* containment for EVERY configured root (NewModifier / JSON "rootPath",
   missing or empty included): the modifier keeps path.Clean(rootPath), which
   is never empty, and the opened path is that root's canonical elements
   followed by ordinary elements *)
Theorem C20_path_under_configured_root : forall rawroot urlpath,
  let root := configured_root rawroot in
  root <> [] /\
  exists T, Forall normal T /\
    static_path root [] urlpath = render_path (fst (elems root), snd (elems root) ++ T) /\
    clean root = render_path (fst (elems root), snd (elems root)).
Proof. exact static_path_under_configured_root. Qed.
Print Assumptions C20_path_under_configured_root.

Theorem C20_path_under_root_string_general : forall root urlpath, root <> [] ->
  exists T, Forall normal T /\
    match snd (elems root), T with
    | _, [] => static_path root [] urlpath = clean root
    | [], _ => static_path root [] urlpath =
                 if fst (elems root) then slash :: join_with slash T else join_with slash T
    | _, _ => static_path root [] urlpath = clean root ++ slash :: join_with slash T
    end.
Proof. exact static_path_string_general. Qed.
Print Assumptions C20_path_under_root_string_general.

Theorem C20_configured_root_never_empty : forall raw, configured_root raw <> [].
Proof. exact clean_nonempty. Qed.
Print Assumptions C20_configured_root_never_empty.

(* the repair's rooting is the identity on the paths net/http produces *)
Theorem C20_rooting_noop_for_rooted_paths : forall p,
  is_rooted p = true -> clean (slash :: p) = clean p.
Proof. exact rooting_noop. Qed.
Print Assumptions C20_rooting_noop_for_rooted_paths.

(* the numbers printed into Content-Range ("bytes s-e/size") read back as
   themselves: the header denotes the positions the theorems speak of *)
Theorem C20_printed_numbers_read_back : forall z,
  min_int <= z <= max_int -> atoi (dec z) = Some z.
Proof. exact atoi_dec. Qed.
Print Assumptions C20_printed_numbers_read_back.

(* --- the executable oracles run on the real implementation's outputs are
       the statements above --- *)
Theorem C20_oracle_is_the_property : forall lower content ct st0 hdr o,
  c20_body_ok lower content ct st0 hdr o = true <-> serve_prop lower content ct st0 hdr o.
Proof. exact serve_ok_iff. Qed.
Print Assumptions C20_oracle_is_the_property.

Theorem C20_oracle_is_the_property_static : forall lower fs root explicit st0 urlpath hdr o,
  c20_static_ok lower fs root explicit st0 urlpath hdr o = true <->
  static_prop lower fs root explicit st0 urlpath hdr o.
Proof. exact static_ok_iff. Qed.
Print Assumptions C20_oracle_is_the_property_static.

(* --- the verdicts of the driver --- *)
(* model-vs-observation comparison is equality of the projected results *)
Theorem C20_comparison_is_equality : forall a b, result_eqb a b = true <-> a = b.
Proof. exact result_eqb_eq. Qed.
Print Assumptions C20_comparison_is_equality.

(* an OK verdict: the statement holds on that observation, clause by clause *)
Theorem C20_ok_verdict_means : forall lower content ct st0 hdr o,
  c20_serve_ok lower content ct st0 hdr o = true ->
  serve_prop lower content ct st0 hdr o /\
  o <> RPanic /\ (forall st, o <> RErr st) /\
  (forall r, o = Resp r ->
     Forall (fun ch => infix ch content) (chunks r) /\
     (hdr = [] -> r_body r = content /\ r_clen r = blen content /\ r_status r = st0) /\
     (hdr <> [] -> r_status r = 206 \/ r_status r = 416)).
Proof. exact serve_ok_means. Qed.
Print Assumptions C20_ok_verdict_means.

(* no clause is reported exactly when the statement holds *)
Theorem C20_no_clause_iff_property : forall lower content ct st0 hdr o,
  serve_clause lower content ct st0 hdr o = None <-> serve_prop lower content ct st0 hdr o.
Proof. exact serve_clause_none_iff. Qed.
Print Assumptions C20_no_clause_iff_property.

Theorem C20_no_clause_iff_property_static : forall lower fs root explicit st0 urlpath hdr o,
  static_clause lower fs root explicit st0 urlpath hdr o = None <->
  static_prop lower fs root explicit st0 urlpath hdr o.
Proof. exact static_clause_none_iff. Qed.
Print Assumptions C20_no_clause_iff_property_static.

(* a PROPFAIL names a clause the observation really breaks *)
Theorem C20_propfail_clause_means : forall lower content ct st0 hdr o c,
  serve_clause lower content ct st0 hdr o = Some c ->
  ~ serve_prop lower content ct st0 hdr o /\
  match c with
  | CNeverPanics => o = RPanic
  | CNeverOutsideContent =>
      exists r, o = Resp r /\ ~ Forall (fun ch => infix ch content) (chunks r)
  | C206ExactBytes =>
      exists r, o = Resp r /\ r_status r = 206 /\ ~ shape_prop lower content ct st0 hdr r
  | CFullOr206Or416 =>
      o <> RPanic /\ forall r, o = Resp r -> r_status r <> 206 /\ ~ shape_prop lower content ct st0 hdr r
  | CPathUnderRoot => False
  end.
Proof. exact serve_clause_sound. Qed.
Print Assumptions C20_propfail_clause_means.

Theorem C20_propfail_clause_means_static : forall lower fs root explicit st0 urlpath hdr o c,
  static_clause lower fs root explicit st0 urlpath hdr o = Some c ->
  ~ static_prop lower fs root explicit st0 urlpath hdr o /\
  match c with
  | CNeverPanics => o = RPanic
  | CPathUnderRoot =>
      exists r, o = Resp r /\ served_from_elsewhere fs (static_path root explicit urlpath) hdr r
  | CNeverOutsideContent =>
      exists r data ct, o = Resp r /\ fs (static_path root explicit urlpath) = FFile data ct /\
                        ~ Forall (fun ch => infix ch data) (chunks r)
  | C206ExactBytes => exists r, o = Resp r /\ r_status r = 206
  | CFullOr206Or416 => o <> RPanic
  end.
Proof. exact static_clause_sound. Qed.
Print Assumptions C20_propfail_clause_means_static.

(* the executable "inside the content" test is the existential *)
Theorem C20_inside_test_is_infix : forall content r,
  all_inside content r = true <-> Forall (fun ch => infix ch content) (chunks r).
Proof. exact all_inside_iff. Qed.
Print Assumptions C20_inside_test_is_infix.

(* --- the parser against the RFC 7233 grammar (specification side written
       with the printer only): a spec / a whole header in RFC form, numbers in
       decimal, optional white space around them, any number of specs, is read
       as exactly those specs and resolved with the RFC rules --- *)
Theorem C20_rfc_spec_is_read_back : forall p r,
  pad_ok p -> spec_in_range r -> parse_spec (write_spec p r) = Some r.
Proof. exact parse_written_spec. Qed.
Print Assumptions C20_rfc_spec_is_read_back.

Theorem C20_rfc_header_resolved_per_rfc : forall specs content ct bnd st0,
  specs <> [] -> specs_ok specs ->
  requested ascii_lower (write_header specs) (blen content)
    = map_opt (rfc_resolve (blen content)) (map snd specs) /\
  parse_ranges ascii_lower (write_header specs) (blen content)
    = map_opt (rfc_resolve (blen content)) (map snd specs) /\
  body_resp ascii_lower content ct bnd st0 (write_header specs)
    = Resp (spec_resp ascii_lower content ct bnd st0 (write_header specs)).
Proof.
  intros specs content ct bnd st0 Hne Hok.
  pose proof (requested_written_header ascii_lower specs (blen content) Hne Hok
                (ascii_lower_written specs Hok)) as H.
  split; [exact H|]. split; [|exact (body_exact _ _ _ _ _ _)].
  rewrite (parse_ranges_requested _ _ _ (blen_nonneg content)). exact H.
Qed.
Print Assumptions C20_rfc_header_resolved_per_rfc.

(* --- a missing file: 404 and nothing else is touched --- *)
Theorem C20_static_404_when_missing : forall lower fs root explicit bnd st0 urlpath hdr,
  fs (static_path root explicit urlpath) = FNotExist ->
  static_resp lower fs root explicit bnd st0 urlpath hdr = RStatusOnly 404.
Proof.
  intros lower fs root explicit bnd st0 urlpath hdr H.
  rewrite (static_exact lower fs root explicit bnd st0 urlpath hdr). unfold static_spec. now rewrite H.
Qed.
Print Assumptions C20_static_404_when_missing.

(* --- non-vacuity: concrete inputs through every arm (and the probed
       witnesses of the defects, answered as the repair answers them) --- *)
Definition digits10 := s2l "0123456789".
Definition run (h : string) := body_resp ascii_lower digits10 (s2l "text/plain") (s2l "B") 200 (s2l h).

Example C20_example_clamped : (* bytes=5-20 used to panic *)
  run "bytes=5-20" = Resp (mkResp 206 5 (s2l "text/plain") (s2l "bytes 5-9/10") (s2l "56789") None).
Proof. vm_compute. reflexivity. Qed.

Example C20_example_start_past_end : (* bytes=12-15 used to panic *)
  run "bytes=12-15" = Resp (mkResp 416 0 (s2l "text/plain") (s2l "bytes */10") [] None).
Proof. vm_compute. reflexivity. Qed.

Example C20_example_suffix : (* bytes=-3 used to return an error with status 200 *)
  run "bytes=-3" = Resp (mkResp 206 3 (s2l "text/plain") (s2l "bytes 7-9/10") (s2l "789") None).
Proof. vm_compute. reflexivity. Qed.

Example C20_example_malformed : (* bytes=a-b used to return an error with status 200 *)
  run "bytes=a-b" = Resp (mkResp 416 0 (s2l "text/plain") (s2l "bytes */10") [] None).
Proof. vm_compute. reflexivity. Qed.

Example C20_example_int64 :
  run "BYTES= 0 - 9223372036854775807" = Resp (mkResp 206 10 (s2l "text/plain") (s2l "bytes 0-9/10") digits10 None)
  /\ run "bytes=0-9223372036854775808" = Resp (mkResp 416 0 (s2l "text/plain") (s2l "bytes */10") [] None).
Proof. vm_compute. split; reflexivity. Qed.

Example C20_example_multipart :
  exists r, run "bytes=1-2, 8-20,-1" = Resp r /\ r_status r = 206 /\
    r_parts r = Some [mkPart (s2l "text/plain") (s2l "bytes 1-2/10") (s2l "12");
                      mkPart (s2l "text/plain") (s2l "bytes 8-9/10") (s2l "89");
                      mkPart (s2l "text/plain") (s2l "bytes 9-9/10") (s2l "9")] /\
    r_clen r = blen (r_body r) /\ r_clen r = 204.
Proof. eexists. split; [vm_compute; reflexivity|]. vm_compute. repeat split; reflexivity. Qed.

Example C20_example_full :
  run "" = Resp (mkResp 200 10 (s2l "text/plain") [] digits10 None).
Proof. vm_compute. reflexivity. Qed.

Example C20_example_static :
  let fs := fun p => if beq p (s2l "/srv/root/a.txt") then FFile digits10 (s2l "text/plain") else FNotExist in
  static_resp ascii_lower fs (s2l "/srv/root") [] (s2l "B") 200 (s2l "/sub/../%2e%2e/a.txt") (s2l "bytes=8-99")
    = RStatusOnly 404 /\
  static_resp ascii_lower fs (s2l "/srv/root") [] (s2l "B") 200 (s2l "/sub/../../a.txt") (s2l "bytes=8-99")
    = Resp (mkResp 206 2 (s2l "text/plain") (s2l "bytes 8-9/10") (s2l "89") None) /\
  static_resp ascii_lower fs (s2l "/srv/root") [] (s2l "B") 200 (s2l "../a.txt") (s2l "bytes=12-")
    = Resp (mkResp 416 0 (s2l "text/plain") (s2l "bytes */10") [] None).
Proof. vm_compute. repeat split; reflexivity. Qed.

(* hypotheses of the implications above are satisfiable *)
Example C20_example_clamp_hypothesis :
  rfc_resolve 10 (FromTo 5 20) = Some (5, 9) /\ rfc_resolve 10 (Suffix 30) = Some (0, 9) /\
  rfc_resolve 10 (From 9) = Some (9, 9) /\ rfc_resolve 10 (From 10) = None /\
  rfc_resolve 0 (Suffix 1) = None /\ rfc_resolve 10 (FromTo 4 2) = None.
Proof. vm_compute. repeat split; reflexivity. Qed.

Example C20_example_root_hypotheses :
  is_rooted (s2l "/srv//root/") = true /\
  snd (elems (s2l "/srv//root/")) = [s2l "srv"; s2l "root"] /\
  clean (s2l "/srv//root/") = s2l "/srv/root" /\
  Forall normal [s2l "sub"; s2l "..x"; s2l "%2e%2e"] /\
  clean (slash :: s2l "/a/../../b") = clean (s2l "/a/../../b").
Proof.
  vm_compute. repeat split; try reflexivity.
  repeat constructor; try discriminate; intros H; repeat (destruct H as [H|H]; [discriminate|]); exact H.
Qed.

Example C20_example_numbers :
  atoi (dec 9223372036854775807) = Some 9223372036854775807 /\
  atoi (dec (-9223372036854775808)) = Some (-9223372036854775808) /\
  atoi (s2l "9223372036854775808") = None /\ atoi (s2l "+7") = Some 7 /\ atoi (s2l "0x10") = None /\
  content_range 5 9 10 = s2l "bytes 5-9/10".
Proof. vm_compute. repeat split; reflexivity. Qed.

Example C20_example_written_header :
  let specs := [(mkPad [] [] [] [], FromTo 1 2);
                (mkPad (s2l " ") [] (s2l "  ") ["009"%char], FromTo 8 20);
                (mkPad (s2l " ") [] [] [], Suffix 1);
                (mkPad [] [] [] [], From 4)] in
  write_header specs = s2l "bytes=1-2, 8-  20	, -1,4-" /\
  map_opt (rfc_resolve 10) (map snd specs) = Some [(1, 2); (8, 9); (9, 9); (4, 9)] /\
  requested ascii_lower (write_header specs) 10 = Some [(1, 2); (8, 9); (9, 9); (4, 9)].
Proof. vm_compute. repeat split; reflexivity. Qed.

Example C20_example_written_header_hypotheses :
  specs_ok [(mkPad (s2l " ") [] (s2l "  ") ["009"%char], FromTo 8 20); (mkPad [] [] [] [], Suffix 9223372036854775807)].
Proof.
  repeat constructor; cbn; try reflexivity; unfold max_int; try (intro; discriminate).
Qed.

Example C20_example_clauses :
  (* the four probed behaviours of the unrepaired code, as observations *)
  serve_clause ascii_lower digits10 (s2l "t") 200 (s2l "bytes=5-20") RPanic = Some CNeverPanics /\
  serve_clause ascii_lower digits10 (s2l "t") 200 (s2l "bytes=-3") (RErr 200) = Some CFullOr206Or416 /\
  serve_clause ascii_lower digits10 (s2l "t") 200 (s2l "bytes=0-10")
    (Resp (mkResp 206 10 (s2l "t") (s2l "bytes 0-10/10") (digits10 ++ ["000"%char]) None)) = Some CNeverOutsideContent /\
  serve_clause ascii_lower digits10 (s2l "t") 200 (s2l "bytes=0-3")
    (Resp (mkResp 206 3 (s2l "t") (s2l "bytes 0-3/10") (s2l "012") None)) = Some C206ExactBytes /\
  serve_clause ascii_lower digits10 (s2l "t") 200 (s2l "bytes=0-3")
    (Resp (mkResp 206 4 (s2l "t") (s2l "bytes 0-3/10") (s2l "0123") None)) = None /\
  static_clause ascii_lower (fun _ => FNotExist) (s2l "/r") [] 200 (s2l "../secret") []
    (Resp (mkResp 200 7 [] [] (s2l "OUTSIDE") None)) = Some CPathUnderRoot /\
  static_clause ascii_lower (fun _ => FNotExist) (s2l "/r") [] 200 (s2l "../secret") [] (RStatusOnly 404) = None.
Proof. vm_compute. repeat split; reflexivity. Qed.
