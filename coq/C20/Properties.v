(* C20 — property theorems.  Nothing but statements closed by [exact] and
   Print Assumptions, so a weakened statement is visible in review.

   The model (Model.v) transcribes body.Modifier.ModifyResponse and
   static.Modifier.ModifyResponse as repaired by fixes/C20-1..3; [lower] stands
   for strings.ToLower (every theorem holds for every function in its place),
   [fs] for what the file system says about a path.  All statements quantify
   over ALL contents, ALL header byte strings and ALL request paths. *)
From Coq Require Import List ZArith NArith Ascii String Bool.
From Martian.C20 Require Import Model Proofs_Base Proofs_Serve Proofs_Path Proofs_Dec.
Import ListNotations.
Open Scope Z_scope.

(* --- the code computes the closed form (RFC 7233 reading of the header,
       total slicing): a refinement, for all inputs --- *)
Theorem C20_body_modifier_computes_spec : forall lower content ct bnd st0 hdr,
  body_resp lower content ct bnd st0 hdr = Resp (spec_resp lower content ct bnd st0 hdr).
Proof. exact body_exact. Qed.
Print Assumptions C20_body_modifier_computes_spec.

Theorem C20_static_modifier_computes_spec : forall lower fs root explicit bnd st0 urlpath hdr,
  static_resp lower fs root explicit bnd st0 urlpath hdr =
  static_spec lower fs root explicit bnd st0 urlpath hdr.
Proof. exact static_exact. Qed.
Print Assumptions C20_static_modifier_computes_spec.

(* the Go-shaped resolveRange is the RFC reading of a byte-range-spec *)
Theorem C20_resolve_range_is_rfc7233 : forall spec size, 0 <= size ->
  resolve_range spec size =
  match parse_spec spec with Some r => rfc_resolve size r | None => None end.
Proof. exact resolve_range_rfc. Qed.
Print Assumptions C20_resolve_range_is_rfc7233.

(* --- full content, or 206, or 416; Content-Length always the body's length --- *)
Theorem C20_full_or_206_or_416 : forall lower content ct bnd st0 hdr,
  exists r, body_resp lower content ct bnd st0 hdr = Resp r /\
            shape_prop lower content ct st0 hdr r /\ r_clen r = blen (r_body r).
Proof. exact body_full_or_206_or_416. Qed.
Print Assumptions C20_full_or_206_or_416.

Theorem C20_full_or_206_or_416_static : forall lower fs root explicit bnd st0 urlpath hdr,
  static_prop lower fs root explicit st0 urlpath hdr
    (static_resp lower fs root explicit bnd st0 urlpath hdr).
Proof. exact static_meets_property. Qed.
Print Assumptions C20_full_or_206_or_416_static.

(* --- 206 exactly when every spec is well formed and satisfiable; then the
       body is exactly the requested bytes, one part per range --- *)
Theorem C20_206_exact_bytes : forall lower content ct bnd st0 hdr,
  hdr <> [] ->
  let r := spec_resp lower content ct bnd st0 hdr in
  match requested lower hdr (blen content) with
  | None => r_status r = 416 /\ r_body r = []
  | Some rs =>
      r_status r = 206 /\ Forall (in_bounds (blen content)) rs /\
      ((exists s e, rs = [(s, e)] /\ r_body r = sub content s e /\
                    r_crange r = content_range s e (blen content) /\ r_clen r = e - s + 1)
       \/
       (List.length rs >= 2)%nat /\
        r_parts r = Some (map (want_part content ct) rs) /\
        r_body r = render_multipart bnd (map (want_part content ct) rs) /\
        r_ctype r = multipart_ctype bnd)
  end.
Proof. exact spec_206_exact_bytes. Qed.
Print Assumptions C20_206_exact_bytes.

(* what a requested range is: last position clamped to the final byte *)
Theorem C20_last_position_clamped : forall size r s e,
  rfc_resolve size r = Some (s, e) ->
  match r with
  | FromTo a b => s = a /\ e = Z.min b (size - 1) /\ a <= b
  | From a => s = a /\ e = size - 1
  | Suffix n => s = size - Z.min n size /\ e = size - 1 /\ 0 < n
  end.
Proof. exact requested_meaning. Qed.
Print Assumptions C20_last_position_clamped.

Theorem C20_416_only_when_unsatisfiable : forall size r, 0 <= size ->
  rfc_resolve size r = None <->
  match r with
  | FromTo a b => a < 0 \/ b < a \/ size <= a
  | From a => a < 0 \/ size <= a
  | Suffix n => n <= 0 \/ size = 0
  end.
Proof. exact unsatisfiable_meaning. Qed.
Print Assumptions C20_416_only_when_unsatisfiable.

(* --- never panics, never fails --- *)
Theorem C20_never_panics : forall lower content ct bnd st0 hdr,
  body_resp lower content ct bnd st0 hdr <> RPanic /\
  forall st, body_resp lower content ct bnd st0 hdr <> RErr st.
Proof. exact body_never_panics. Qed.
Print Assumptions C20_never_panics.

Theorem C20_never_panics_static : forall lower fs root explicit bnd st0 urlpath hdr,
  static_resp lower fs root explicit bnd st0 urlpath hdr <> RPanic /\
  forall st, static_resp lower fs root explicit bnd st0 urlpath hdr = RErr st ->
             fs (static_path root explicit urlpath) = FPerm \/
             fs (static_path root explicit urlpath) = FOther.
Proof. exact static_never_panics. Qed.
Print Assumptions C20_never_panics_static.

(* --- never bytes outside the content --- *)
Theorem C20_never_outside_content : forall lower content ct bnd st0 hdr r,
  body_resp lower content ct bnd st0 hdr = Resp r ->
  Forall (fun ch => infix ch content) (chunks r).
Proof. exact body_inside_content. Qed.
Print Assumptions C20_never_outside_content.

Theorem C20_never_outside_content_static : forall lower fs root explicit bnd st0 urlpath hdr r,
  static_resp lower fs root explicit bnd st0 urlpath hdr = Resp r ->
  exists data ct, fs (static_path root explicit urlpath) = FFile data ct /\
                  Forall (fun ch => infix ch data) (chunks r).
Proof. exact static_inside_file. Qed.
Print Assumptions C20_never_outside_content_static.

(* --- every request path resolves beneath the root --- *)
(* the opened path is the root's canonical elements followed by ordinary
   elements (non-empty, not "." or "..", no separator) *)
Theorem C20_path_under_root : forall root urlpath, root <> [] ->
  exists T, Forall normal T /\
    req_path urlpath = render_path (true, T) /\
    static_path root [] urlpath = render_path (fst (elems root), snd (elems root) ++ T) /\
    clean root = render_path (fst (elems root), snd (elems root)).
Proof. exact static_path_under_root. Qed.
Print Assumptions C20_path_under_root.

Theorem C20_path_under_root_string : forall root urlpath,
  is_rooted root = true -> snd (elems root) <> [] ->
  static_path root [] urlpath = clean root \/
  exists T, Forall normal T /\ T <> [] /\
            static_path root [] urlpath = clean root ++ slash :: join_with slash T.
Proof. exact static_path_string. Qed.
Print Assumptions C20_path_under_root_string.

Theorem C20_path_explicit_mapping : forall root explicit urlpath,
  match assoc (req_path urlpath) explicit with
  | Some v => static_path root explicit urlpath = join2 root v
  | None => static_path root explicit urlpath = static_path root [] urlpath
  end.
Proof.
  intros root explicit urlpath.
  destruct (assoc (req_path urlpath) explicit) eqn:E.
  - exact (static_path_explicit root explicit urlpath b E).
  - exact (static_path_not_explicit root explicit urlpath E).
Qed.
Print Assumptions C20_path_explicit_mapping.

(* the repair's rooting is the identity on the paths net/http produces *)
Theorem C20_rooting_noop_for_rooted_paths : forall p,
  is_rooted p = true -> clean (slash :: p) = clean p.
Proof. exact rooting_noop. Qed.
Print Assumptions C20_rooting_noop_for_rooted_paths.

(* the numbers printed into Content-Range ("bytes s-e/size") read back as
   themselves: the header denotes the positions the theorems speak of *)
Theorem C20_printed_numbers_read_back : forall z,
  min_int <= z <= max_int -> atoi (dec z) = Some z.
Proof. exact atoi_dec. Qed.
Print Assumptions C20_printed_numbers_read_back.

(* --- the executable oracles run on the real implementation's outputs are
       the statements above --- *)
Theorem C20_oracle_is_the_property : forall lower content ct st0 hdr o,
  c20_body_ok lower content ct st0 hdr o = true <-> serve_prop lower content ct st0 hdr o.
Proof. exact serve_ok_iff. Qed.
Print Assumptions C20_oracle_is_the_property.

Theorem C20_oracle_is_the_property_static : forall lower fs root explicit st0 urlpath hdr o,
  c20_static_ok lower fs root explicit st0 urlpath hdr o = true <->
  static_prop lower fs root explicit st0 urlpath hdr o.
Proof. exact static_ok_iff. Qed.
Print Assumptions C20_oracle_is_the_property_static.

(* --- non-vacuity: concrete inputs through every arm (and the probed
       witnesses of the defects, answered as the repair answers them) --- *)
Definition digits10 := s2l "0123456789".
Definition run (h : string) := body_resp ascii_lower digits10 (s2l "text/plain") (s2l "B") 200 (s2l h).

Example C20_example_clamped : (* bytes=5-20 used to panic *)
  run "bytes=5-20" = Resp (mkResp 206 5 (s2l "text/plain") (s2l "bytes 5-9/10") (s2l "56789") None).
Proof. vm_compute. reflexivity. Qed.

Example C20_example_start_past_end : (* bytes=12-15 used to panic *)
  run "bytes=12-15" = Resp (mkResp 416 0 (s2l "text/plain") (s2l "bytes */10") [] None).
Proof. vm_compute. reflexivity. Qed.

Example C20_example_suffix : (* bytes=-3 used to return an error with status 200 *)
  run "bytes=-3" = Resp (mkResp 206 3 (s2l "text/plain") (s2l "bytes 7-9/10") (s2l "789") None).
Proof. vm_compute. reflexivity. Qed.

Example C20_example_malformed : (* bytes=a-b used to return an error with status 200 *)
  run "bytes=a-b" = Resp (mkResp 416 0 (s2l "text/plain") (s2l "bytes */10") [] None).
Proof. vm_compute. reflexivity. Qed.

Example C20_example_int64 :
  run "BYTES= 0 - 9223372036854775807" = Resp (mkResp 206 10 (s2l "text/plain") (s2l "bytes 0-9/10") digits10 None)
  /\ run "bytes=0-9223372036854775808" = Resp (mkResp 416 0 (s2l "text/plain") (s2l "bytes */10") [] None).
Proof. vm_compute. split; reflexivity. Qed.

Example C20_example_multipart :
  exists r, run "bytes=1-2, 8-20,-1" = Resp r /\ r_status r = 206 /\
    r_parts r = Some [mkPart (s2l "text/plain") (s2l "bytes 1-2/10") (s2l "12");
                      mkPart (s2l "text/plain") (s2l "bytes 8-9/10") (s2l "89");
                      mkPart (s2l "text/plain") (s2l "bytes 9-9/10") (s2l "9")] /\
    r_clen r = blen (r_body r) /\ r_clen r = 204.
Proof. eexists. split; [vm_compute; reflexivity|]. vm_compute. repeat split; reflexivity. Qed.

Example C20_example_full :
  run "" = Resp (mkResp 200 10 (s2l "text/plain") [] digits10 None).
Proof. vm_compute. reflexivity. Qed.

Example C20_example_static :
  let fs := fun p => if beq p (s2l "/srv/root/a.txt") then FFile digits10 (s2l "text/plain") else FNotExist in
  static_resp ascii_lower fs (s2l "/srv/root") [] (s2l "B") 200 (s2l "/sub/../%2e%2e/a.txt") (s2l "bytes=8-99")
    = RStatusOnly 404 /\
  static_resp ascii_lower fs (s2l "/srv/root") [] (s2l "B") 200 (s2l "/sub/../../a.txt") (s2l "bytes=8-99")
    = Resp (mkResp 206 2 (s2l "text/plain") (s2l "bytes 8-9/10") (s2l "89") None) /\
  static_resp ascii_lower fs (s2l "/srv/root") [] (s2l "B") 200 (s2l "../a.txt") (s2l "bytes=12-")
    = Resp (mkResp 416 0 (s2l "text/plain") (s2l "bytes */10") [] None).
Proof. vm_compute. repeat split; reflexivity. Qed.

(* hypotheses of the implications above are satisfiable *)
Example C20_example_clamp_hypothesis :
  rfc_resolve 10 (FromTo 5 20) = Some (5, 9) /\ rfc_resolve 10 (Suffix 30) = Some (0, 9) /\
  rfc_resolve 10 (From 9) = Some (9, 9) /\ rfc_resolve 10 (From 10) = None /\
  rfc_resolve 0 (Suffix 1) = None /\ rfc_resolve 10 (FromTo 4 2) = None.
Proof. vm_compute. repeat split; reflexivity. Qed.

Example C20_example_root_hypotheses :
  is_rooted (s2l "/srv//root/") = true /\
  snd (elems (s2l "/srv//root/")) = [s2l "srv"; s2l "root"] /\
  clean (s2l "/srv//root/") = s2l "/srv/root" /\
  Forall normal [s2l "sub"; s2l "..x"; s2l "%2e%2e"] /\
  clean (slash :: s2l "/a/../../b") = clean (s2l "/a/../../b").
Proof.
  vm_compute. repeat split; try reflexivity.
  repeat constructor; try discriminate; intros H; repeat (destruct H as [H|H]; [discriminate|]); exact H.
Qed.

Example C20_example_numbers :
  atoi (dec 9223372036854775807) = Some 9223372036854775807 /\
  atoi (dec (-9223372036854775808)) = Some (-9223372036854775808) /\
  atoi (s2l "9223372036854775808") = None /\ atoi (s2l "+7") = Some 7 /\ atoi (s2l "0x10") = None /\
  content_range 5 9 10 = s2l "bytes 5-9/10".
Proof. vm_compute. repeat split; reflexivity. Qed.
