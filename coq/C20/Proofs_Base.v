(* C20 — basic lemmas: byte-string equality, split/join, map_opt, and the
   agreement of the Go-shaped resolveRange with the RFC 7233 reading. *)
From Coq Require Import List ZArith NArith Ascii String Bool Lia.
From Martian.C20 Require Import Model.
Import ListNotations.
Open Scope Z_scope.

Lemma ceq_refl : forall a, ceq a a = true.
Proof. intros a. unfold ceq. apply Ascii.eqb_refl. Qed.

Lemma ceq_eq : forall a b, ceq a b = true <-> a = b.
Proof. intros a b. unfold ceq. apply Ascii.eqb_eq. Qed.

Lemma beq_refl : forall a, beq a a = true.
Proof. induction a as [|x a IH]; cbn; [reflexivity|]. now rewrite ceq_refl, IH. Qed.

Lemma beq_eq : forall a b, beq a b = true <-> a = b.
Proof.
  induction a as [|x a IH]; intros [|y b]; cbn; split; intros H; try reflexivity; try discriminate.
  - apply andb_true_iff in H as [H1 H2]. apply ceq_eq in H1. apply IH in H2. now subst.
  - inversion H; subst. now rewrite ceq_refl, beq_refl.
Qed.

Lemma beq_neq : forall a b, beq a b = false <-> a <> b.
Proof.
  intros a b. split.
  - intros H E. apply beq_eq in E. congruence.
  - intros H. destruct (beq a b) eqn:E; [|reflexivity]. apply beq_eq in E. contradiction.
Qed.

Lemma is_nil_true : forall {A} (l : list A), is_nil l = true <-> l = [].
Proof. intros A [|x l]; cbn; split; intros H; congruence. Qed.

Lemma is_nil_false : forall {A} (l : list A), is_nil l = false <-> l <> [].
Proof. intros A [|x l]; cbn; split; intros H; congruence. Qed.

Lemma blen_nonneg : forall b, 0 <= blen b.
Proof. intros b. unfold blen. lia. Qed.

Lemma has_prefix_app : forall p s, has_prefix p (p ++ s) = true.
Proof. induction p as [|x p IH]; intros s; cbn; [reflexivity|]. now rewrite ceq_refl, IH. Qed.

Lemma has_prefix_iff : forall p s, has_prefix p s = true <-> exists rest, s = p ++ rest.
Proof.
  induction p as [|x p IH]; intros s; cbn.
  - split; [intros _; now exists s | reflexivity].
  - destruct s as [|y s].
    + split; [discriminate | intros [rest H]; discriminate].
    + rewrite andb_true_iff, ceq_eq, IH. split.
      * intros [-> [rest ->]]. now exists rest.
      * intros [rest H]. inversion H; subst. split; [reflexivity | now exists rest].
Qed.

(* ---------------------------------------------------------------- parts *)

Lemma parts_eqb_refl : forall ps, parts_eqb ps ps = true.
Proof. induction ps as [|p ps IH]; cbn; [reflexivity|]. now rewrite !beq_refl, IH. Qed.

Lemma parts_eqb_eq : forall a b, parts_eqb a b = true <-> a = b.
Proof.
  induction a as [|x a IH]; intros [|y b]; cbn; split; intros H; try reflexivity; try discriminate.
  - rewrite !andb_true_iff in H. destruct H as [[[H1 H2] H3] H4].
    apply beq_eq in H1, H2, H3. apply IH in H4. destruct x, y; cbn in *; now subst.
  - inversion H; subst. now rewrite !beq_refl, parts_eqb_refl.
Qed.

(* ---------------------------------------------------------------- map_opt *)

Lemma map_opt_ext : forall {A B} (f g : A -> option B) l,
  (forall x, f x = g x) -> map_opt f l = map_opt g l.
Proof. intros A B f g l H. induction l as [|x l IH]; cbn; [reflexivity|]. now rewrite H, IH. Qed.

Lemma map_opt_Forall : forall {A B} (f : A -> option B) (P : B -> Prop) l ys,
  (forall x y, f x = Some y -> P y) -> map_opt f l = Some ys -> Forall P ys.
Proof.
  intros A B f P l. induction l as [|x l IH]; cbn; intros ys Hf H.
  - inversion H. constructor.
  - destruct (f x) as [y|] eqn:Ex; [|discriminate].
    destruct (map_opt f l) as [ys'|] eqn:El; [|discriminate].
    inversion H; subst. constructor; [eapply Hf; eauto | eapply IH; eauto].
Qed.

Lemma map_opt_length : forall {A B} (f : A -> option B) l ys,
  map_opt f l = Some ys -> List.length ys = List.length l.
Proof.
  intros A B f l. induction l as [|x l IH]; cbn; intros ys H.
  - now inversion H.
  - destruct (f x); [|discriminate]. destruct (map_opt f l) eqn:E; [|discriminate].
    inversion H; subst. cbn. f_equal. now apply IH.
Qed.

(* ---------------------------------------------------------------- split *)

Lemma split_nonempty : forall sep s, split sep s <> [].
Proof.
  intros sep s. induction s as [|c r IH]; cbn; [discriminate|].
  destruct (ceq c sep); [discriminate|]. destruct (split sep r); [contradiction | discriminate].
Qed.

Lemma split_cons_other : forall sep c r, ceq c sep = false ->
  exists p ps, split sep r = p :: ps /\ split sep (c :: r) = (c :: p) :: ps.
Proof.
  intros sep c r H. cbn. rewrite H. destruct (split sep r) as [|p ps] eqn:E.
  - now apply split_nonempty in E.
  - now exists p, ps.
Qed.

Lemma split_no_sep : forall sep s, Forall (fun p => ~ In sep p) (split sep s).
Proof.
  intros sep s. induction s as [|c r IH]; cbn.
  - constructor; [intros [] | constructor].
  - destruct (ceq c sep) eqn:E.
    + constructor; [intros [] | exact IH].
    + destruct (split sep r) as [|p ps]; [constructor; [|constructor]|].
      * intros [H|[]]. subst. now rewrite ceq_refl in E.
      * inversion IH; subst. constructor; [|assumption].
        intros [H|H]; [subst; now rewrite ceq_refl in E | contradiction].
Qed.

(* split distributes over a separator *)
Lemma split_app_sep : forall sep a b, split sep (a ++ sep :: b) = split sep a ++ split sep b.
Proof.
  intros sep a b. induction a as [|c r IH]; cbn.
  - now rewrite ceq_refl.
  - destruct (ceq c sep) eqn:E.
    + now rewrite IH.
    + rewrite IH. destruct (split sep r) as [|p ps] eqn:Es.
      * now apply split_nonempty in Es.
      * reflexivity.
Qed.

Lemma split_no_sep_id : forall sep s, ~ In sep s -> split sep s = [s].
Proof.
  intros sep s. induction s as [|c r IH]; intros H; cbn; [reflexivity|].
  destruct (ceq c sep) eqn:E.
  - apply ceq_eq in E. subst. exfalso. apply H. now left.
  - rewrite IH; [reflexivity|]. intros Hin. apply H. now right.
Qed.

(* split after join: the elements come back *)
Lemma split_join : forall sep l, l <> [] -> Forall (fun p => ~ In sep p) l ->
  split sep (join_with sep l) = l.
Proof.
  intros sep l. induction l as [|x l IH]; intros Hne Hall; [contradiction|].
  inversion Hall as [|? ? Hx Hl]; subst.
  destruct l as [|y l'].
  - cbn. now apply split_no_sep_id.
  - change (join_with sep (x :: y :: l')) with (x ++ sep :: join_with sep (y :: l')).
    rewrite split_app_sep, (split_no_sep_id sep x Hx), IH; [reflexivity | discriminate | assumption].
Qed.

(* ---------------------------------------------------------------- ranges *)

Lemma rfc_resolve_bounds : forall size r s e,
  rfc_resolve size r = Some (s, e) -> 0 <= s /\ s <= e /\ e < size.
Proof.
  intros size [a b|a|n] s e; cbn; intros H.
  - destruct ((0 <=? a) && (a <=? b) && (a <? size)) eqn:E; [|discriminate].
    inversion H; subst. rewrite !andb_true_iff in E. lia.
  - destruct ((0 <=? a) && (a <? size)) eqn:E; [|discriminate].
    inversion H; subst. rewrite !andb_true_iff in E. lia.
  - destruct ((0 <? n) && (0 <? size)) eqn:E; [|discriminate].
    inversion H; subst. rewrite !andb_true_iff in E. lia.
Qed.

(* the repaired Go function computes exactly the RFC reading *)
Lemma resolve_range_rfc : forall spec size, 0 <= size ->
  resolve_range spec size =
  match parse_spec spec with Some r => rfc_resolve size r | None => None end.
Proof.
  intros spec size Hs. unfold resolve_range, parse_spec.
  destruct (split "-"%char spec) as [|a [|b [|c l]]]; try reflexivity.
  destruct (is_nil (trim_space a)) eqn:Ef.
  - destruct (atoi (trim_space b)) as [n|]; [|reflexivity]. cbn [rfc_resolve].
    destruct ((n <=? 0) || (size =? 0)) eqn:E1; destruct ((0 <? n) && (0 <? size)) eqn:E2;
      try reflexivity.
    + rewrite orb_true_iff in E1. rewrite andb_true_iff in E2. lia.
    + rewrite orb_false_iff in E1. rewrite andb_true_iff in E2.
      destruct (n >? size) eqn:E3; do 2 f_equal; lia.
    + rewrite orb_false_iff in E1. rewrite andb_false_iff in E2. lia.
  - destruct (atoi (trim_space a)) as [st|]; [|reflexivity].
    destruct (is_nil (trim_space b)) eqn:El.
    + cbn [rfc_resolve].
      destruct ((st <? 0) || (st >=? size)) eqn:E1; destruct ((0 <=? st) && (st <? size)) eqn:E2;
        try reflexivity.
      * rewrite orb_true_iff in E1. rewrite andb_true_iff in E2. lia.
      * rewrite orb_false_iff in E1. rewrite andb_false_iff in E2. lia.
    + destruct (atoi (trim_space b)) as [e|].
      * cbn [rfc_resolve].
        destruct ((st <? 0) || (st >=? size)) eqn:E1.
        { destruct ((0 <=? st) && (st <=? e) && (st <? size)) eqn:E2; [|reflexivity].
          rewrite orb_true_iff in E1. rewrite !andb_true_iff in E2. lia. }
        rewrite orb_false_iff in E1.
        destruct (st >? e) eqn:E3.
        { destruct ((0 <=? st) && (st <=? e) && (st <? size)) eqn:E2; [|reflexivity].
          rewrite !andb_true_iff in E2. lia. }
        destruct ((0 <=? st) && (st <=? e) && (st <? size)) eqn:E2.
        { destruct (e >=? size) eqn:E4; do 2 f_equal; lia. }
        rewrite !andb_false_iff in E2. lia.
      * destruct ((st <? 0) || (st >=? size)); reflexivity.
Qed.

Lemma parse_ranges_requested : forall lower h size, 0 <= size ->
  parse_ranges lower h size = requested lower h size.
Proof.
  intros lower h size Hs. unfold parse_ranges, requested.
  apply map_opt_ext. intros x. now apply resolve_range_rfc.
Qed.

Definition in_bounds (size : Z) (r : Z * Z) : Prop := 0 <= fst r /\ fst r <= snd r /\ snd r < size.

Lemma requested_in_bounds : forall lower h size rs,
  requested lower h size = Some rs -> Forall (in_bounds size) rs.
Proof.
  intros lower h size rs H. unfold requested in H.
  eapply map_opt_Forall; [|exact H].
  intros x [s e] Hx. cbn beta in Hx. destruct (parse_spec x) as [r|]; [|discriminate].
  apply rfc_resolve_bounds in Hx. exact Hx.
Qed.

Lemma requested_nonempty : forall lower h size rs,
  requested lower h size = Some rs -> rs <> [].
Proof.
  intros lower h size rs H E. subst. unfold requested in H.
  apply map_opt_length in H. unfold range_specs in H.
  destruct (split ","%char (trim_left (s2l "bytes=") (lower h))) eqn:Es.
  - now apply split_nonempty in Es.
  - discriminate.
Qed.

(* ---------------------------------------------------------------- slices *)

Lemma sub_length : forall c s e, 0 <= s -> s <= e -> e < blen c -> blen (sub c s e) = e - s + 1.
Proof.
  intros c s e H0 H1 H2. unfold sub, blen in *.
  rewrite firstn_length, skipn_length. lia.
Qed.

Definition infix (chunk content : bytes) : Prop := exists pre post, content = pre ++ chunk ++ post.

Lemma sub_infix : forall c s e, infix (sub c s e) c.
Proof.
  intros c s e. unfold sub.
  exists (firstn (Z.to_nat s) c), (skipn (Z.to_nat (e - s + 1)) (skipn (Z.to_nat s) c)).
  now rewrite firstn_skipn, firstn_skipn.
Qed.

Lemma fetch_slice_ok : forall c s e, 0 <= s -> s <= e -> e < blen c ->
  fetch_slice c s e = FBytes (sub c s e).
Proof.
  intros c s e H0 H1 H2. unfold fetch_slice, go_slice.
  replace ((0 <=? s) && (s <=? e + 1) && (e + 1 <=? blen c)) with true
    by (symmetry; rewrite !andb_true_iff; lia).
  unfold sub. now replace (e + 1 - s) with (e - s + 1) by lia.
Qed.

Lemma fetch_file_ok : forall c s e, 0 <= s -> s <= e -> e < blen c ->
  fetch_file c s e = FBytes (sub c s e).
Proof.
  intros c s e H0 H1 H2. unfold fetch_file, go_make, read_at.
  replace (0 <=? e - s + 1) with true by (symmetry; lia).
  replace (s <? 0) with false by (symmetry; lia).
  reflexivity.
Qed.
